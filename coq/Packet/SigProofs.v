(* Packet/SigProofs.v — C12: what the signer signed is what the parser returns as covered; parameters digest;
   shipped signers validate; tampering that keeps the packet well formed changes what the validator sees. *)
From Packet Require Import Model Spec ReadersProofs EncProofs DecGeneric DecProofs DecData DecInterest EncData EncInterest Roundtrip GenSigners.
From Coq Require Import ZifyBool ZifyN ZifyNat.
Open Scope N_scope.
Arguments ROk {A}. Arguments RErr {A}. Arguments RPanic {A}. Arguments RUnmodelled {A}.

Lemma check_interest_bad_digest (sha256 : bytes -> bytes) i cx nm c a :
  i_name i = Some (nm ++ [c]) -> i_app i = Some a ->
  cval c <> sha256 (concat (ix_dcov cx)) -> check_interest sha256 i cx = false.
Proof.
  intros Hn Ha Hd. unfold check_interest. rewrite Hn, Ha. rewrite rev_app_distr. cbn [rev app].
  destruct (i_sv i); (apply andb_false_iff; right; apply not_true_is_false; intros H; apply bytes_eqb_spec in H; congruence).
Qed.

(* ---------------------------------------------------------------- the parameters digest is the last name component *)
(* the specification's digest region (Spec.params_digest_region, located on the raw bytes with tl_dec only) of an encoded
   Interest is the parameters element and everything after it *)
Lemma tl_dec_elem (e : elem) rest : elem_wf e ->
  tl_dec (enc_elem e ++ rest) = Some (fst e, tl_enc (N.of_nat (length (snd e))) ++ snd e ++ rest).
Proof. intros [Ht _]. unfold enc_elem. rewrite <- !app_assoc. apply tl_dec_enc. exact Ht. Qed.

Lemma find_params_skip es : forall fuel tail, Forall elem_wf es -> Forall (fun e : elem => fst e <> 36) es ->
  (length es < fuel)%nat -> find_params fuel (enc_elems es ++ tail) = find_params (fuel - length es) tail.
Proof.
  induction es as [|e es IH]; intros fuel tail Hwf Hne Hf.
  - simpl. rewrite Nat.sub_0_r. reflexivity.
  - inversion Hwf as [|? ? He Hwf']; subst. inversion Hne as [|? ? Hn Hne']; subst.
    rewrite enc_elems_cons, <- app_assoc. cbn [length] in Hf.
    destruct fuel as [|fuel]; [lia|]. cbn [find_params].
    rewrite tl_dec_elem by exact He. replace (fst e =? 36) with false by lia.
    destruct He as [Ht Hl]. rewrite tl_dec_enc by (unfold two64; lia).
    rewrite !app_length. replace (N.of_nat (length (snd e) + (length (enc_elems es) + length tail)) <? N.of_nat (length (snd e))) with false by lia.
    rewrite Nat2N.id. rewrite skipn_app_ge by lia. rewrite Nat.sub_diag. cbn [skipn].
    rewrite IH by (assumption || lia). reflexivity.
Qed.

Lemma find_params_hit (e : elem) rest fuel : fst e = 36 -> elem_wf e -> (0 < fuel)%nat ->
  find_params fuel (enc_elem e ++ rest) = Some (enc_elem e ++ rest).
Proof.
  intros H36 He Hf. destruct fuel; [lia|]. cbn [find_params]. rewrite tl_dec_elem by exact He. rewrite H36. reflexivity.
Qed.

Lemma head_no_params cbp mbf fh nonce life hop : Forall (fun e : elem => fst e <> 36) (int_head_elems cbp mbf fh nonce life hop).
Proof.
  unfold int_head_elems, bel, oel. repeat (apply Forall_app; split);
    repeat match goal with |- context[match ?x with _ => _ end] => destruct x end; repeat constructor; cbn; lia.
Qed.

Theorem params_region_is_tail n cbp mbf fh nonce life hop c si sv :
  let V := enc_elems (int_elems n cbp mbf fh nonce life hop (Some c) si sv) in
  (N.of_nat (length (enc_elem (5, V))) < big)%N ->
  params_digest_region (enc_elem (5, V)) = Some (enc_elems (int_tail_elems (Some c) si sv)).
Proof.
  intros V0 Hb. assert (HV0 : V0 = enc_elems (int_elems n cbp mbf fh nonce life hop (Some c) si sv)) by reflexivity. clearbody V0.
  assert (He : elem_wf (5, V0)).
  { split; [cbn; unfold two64; lia|]. cbn [snd]. rewrite enc_elem_length in Hb. cbn [snd] in Hb. lia. }
  unfold params_digest_region. rewrite <- (app_nil_r (enc_elem (5, V0))). rewrite tl_dec_elem by exact He. cbn [fst snd].
  change (5 =? 5) with true. cbv iota. destruct He as [_ Hl]. cbn [snd] in Hl. rewrite tl_dec_enc by (unfold two64; lia).
  rewrite app_nil_r, N.eqb_refl.
  assert (Hwf : Forall elem_wf (int_elems n cbp mbf fh nonce life hop (Some c) si sv)).
  { apply elems_wf; [apply int_elems_types|rewrite <- HV0; lia]. }
  subst V0. rewrite int_elems_split in *. rewrite enc_elems_app in *. apply Forall_app in Hwf as [Hw1 Hw2].
  set (P := int_pre n cbp mbf fh nonce life hop) in *. set (T := int_tail_elems (Some c) si sv) in *.
  assert (Hlen : (2 * length P <= length (enc_elems P))%nat).
  { clear. induction P as [|e P IH]; [simpl; lia|]. rewrite enc_elems_cons, app_length. pose proof (enc_elem_ge2 e). simpl length. lia. }
  rewrite find_params_skip; [| exact Hw1 | | rewrite app_length; lia].
  - unfold T, int_tail_elems. cbn [oel app]. rewrite enc_elems_cons.
    inversion Hw2; subst. apply find_params_hit; [reflexivity|assumption|].
    rewrite app_length. unfold elem, bytes, byte in *. lia.
  - unfold P, int_pre. constructor; [cbn; lia|apply head_no_params].
Qed.

(* ---------------------------------------------------------------- the encoding of the signed portion is injective *)
Lemma data_elems_none n m c si : enc_elems (data_elems n m c si None) = enc_elems (data_pre n m c si).
Proof. rewrite data_elems_pre. cbn [oel]. rewrite app_nil_r. reflexivity. Qed.

Lemma data_pre_inj n m c si n' m' c' si' :
  name_ok n -> meta_wf m -> opt_si_wf si -> name_ok n' -> meta_wf m' -> opt_si_wf si' ->
  (blen (enc_elems (data_pre n m c si)) + 10 < big) ->
  enc_elems (data_pre n m c si) = enc_elems (data_pre n' m' c' si') -> (n, m, c, si) = (n', m', c', si').
Proof.
  intros Hn Hm Hs Hn' Hm' Hs' Hsz Heq.
  set (B := enc_elem (6, enc_elems (data_elems n m c si None))).
  assert (HB : B = enc_elem (6, enc_elems (data_elems n' m' c' si' None))) by (unfold B; rewrite !data_elems_none, Heq; reflexivity).
  assert (Hb : (N.of_nat (length B) < big)%N) by (unfold B; apply packet_size; rewrite data_elems_none; exact Hsz).
  destruct (read_data_ok (BR B 0) n m c si None) as (d & cov & E & Ho & _); [apply view_br; simpl; lia|assumption..|].
  assert (Hb' : (N.of_nat (length (enc_elem (6, enc_elems (data_elems n' m' c' si' None)))) < big)%N) by (rewrite <- HB; exact Hb).
  destruct (read_data_ok (BR B 0) n' m' c' si' None) as (d' & cov' & E' & Ho' & _);
    [rewrite HB; apply view_br; simpl; lia|assumption..|].
  rewrite E in E'. inversion E'; subst d'. rewrite Ho in Ho'. inversion Ho'. reflexivity.
Qed.

(* C12, tampering (proved part): any modification of the signed portion or of the signature value that leaves a
   well-formed Data (in particular: flipping bits of a value octet) is decoded, and the validator is then run on a
   covered-bytes / signature pair different from the one that was signed. *)
Theorem data_tamper_changes_validator_input n m c si sv n' m' c' si' sv' :
  name_ok n -> meta_wf m -> opt_si_wf si -> name_ok n' -> meta_wf m' -> opt_si_wf si' ->
  (blen (enc_elems (data_pre n m c si)) + 10 < big) ->
  (n, m, c, si, sv) <> (n', m', c', si', sv') ->
  forall r, View r (enc_elem (6, enc_elems (data_elems n' m' c' si' (Some sv')))) 0 ->
    (N.of_nat (length (enc_elem (6, enc_elems (data_elems n' m' c' si' (Some sv'))))) < big)%N ->
    exists d' cov', read_data r = ROk d' cov' /\
      (concat cov' <> enc_elems (data_pre n m c si) \/ do_sv (obs_data d') <> Some sv).
Proof.
  intros Hn Hm Hs Hn' Hm' Hs' Hsz Hne r V Hb.
  destruct (read_data_ok r n' m' c' si' (Some sv') V Hn' Hm' Hs' Hb) as (d' & cov' & E & Ho & Hc).
  exists d', cov'. split; [exact E|]. rewrite Hc, Ho. cbn [do_sv].
  destruct (list_eq_dec N.eq_dec sv sv') as [<-|Hsv]; [|right; congruence].
  left. intros Heq. apply Hne. symmetry in Heq.
  pose proof (data_pre_inj n m c si n' m' c' si' Hn Hm Hs Hn' Hm' Hs' Hsz Heq) as Hinj. inversion Hinj; subst. reflexivity.
Qed.

(* ---------------------------------------------------------------- shipped signers *)
Lemma shipped_types_match : forallb (fun r => (sf_type r =? sf_vtype r)%Z) shipped_signers = true.
Proof. vm_compute. reflexivity. Qed.

(* every shipped signer reserves room for the signature it produces, and every signer that announces Interest fields stays
   below the 253 octets MakeInterest admits (a changed EstimateSize() that breaks this is reported here) *)
Lemma shipped_estimates_admissible :
  forallb (fun r => (0 <? sf_est r) && sf_fits r && (if sf_intfields r then sf_est r <? 253 else true)) shipped_signers = true.
Proof. vm_compute. reflexivity. Qed.

Lemma sig_type_of_data sg si est : data_siginfo sg = Ok (si, est) -> forall s, sig_active sg = Some s ->
  (0 <= sg_type s < two64z)%Z -> sig_type_of si = sg_type s.
Proof.
  unfold data_siginfo. intros H s Hs Ht. rewrite Hs in H.
  destruct (sg_nonce s), (sg_seq s), (sg_time s); try discriminate.
  destruct (sg_nb s), (sg_na s); try discriminate; inversion H; subst; unfold sig_type_of; cbn [si_type];
    unfold uint64_of; rewrite Z.mod_small by (unfold two64z in *; lia); lia.
Qed.

(* C12: for every shipped signer (a row of the table translated from std/security; its announced type equals the type its
   validator insists on) a Data built with a signer announcing that type decodes to a covered range and a signature value
   the validator accepts — for any verification predicate `chk` that accepts what the signing function `sgn` produces. *)
Theorem shipped_data_validates : forall row, In row shipped_signers ->
  forall (chk : bytes -> bytes -> bool) (sgn : bytes -> bytes), (forall msg, chk msg (sgn msg) = true) ->
  forall nm cfg content sg s si est e,
    sig_active sg = Some s -> sg_type s = sf_type row -> (0 <= sg_type s < two64z)%Z -> 0 < est ->
    data_siginfo sg = Ok (si, est) -> name_ok nm -> meta_wf (meta_of cfg) -> signer_ok sg -> data_fits nm cfg content si est ->
    make_data (fun cov => Some (sgn (concat cov))) nm cfg content sg = Ok e ->
    forall r, View r (concat (e_wire e)) 0 ->
      exists d cov sv, read_data r = ROk d cov /\ do_sv (obs_data d) = Some sv /\
        ((sig_type_of (do_si (obs_data d)) =? sf_vtype row)%Z && chk (concat cov) sv)%bool = true.
Proof.
  intros row Hin chk sgn Hchk nm cfg content sg s si est e Hact Hty Htr Hest Hsi Hn Hm Hsg Hfit Hmk r V.
  destruct (data_roundtrip_thm _ nm cfg content sg si est e Hsi Hn Hm Hsg Hfit Hmk) as (svo & _ & Hs1 & _ & Hr).
  destruct (Hs1 Hest) as (Hsign & sv & -> & _). inversion Hsign as [Hsv].
  destruct (Hr r V) as (d & cov & E & Ho & Hc). exists d, cov, sv.
  split; [exact E|]. rewrite Ho. unfold expected_data. cbn [do_sv do_si]. split; [reflexivity|].
  unfold data_si_of. rewrite Hsi.
  rewrite (sig_type_of_data sg si est Hsi s Hact Htr), Hty.
  pose proof shipped_types_match as Hm'. rewrite forallb_forall in Hm'. rewrite (Hm' row Hin). cbn [andb].
  rewrite Hc, <- Hsv. apply Hchk.
Qed.

Lemma sig_type_of_int sg si est : int_siginfo sg true = Ok (si, est) -> forall s, sig_active sg = Some s ->
  (0 <= sg_type s < two64z)%Z -> sig_type_of si = sg_type s.
Proof.
  unfold int_siginfo. intros H s Hs Ht. rewrite Hs in H. cbn [negb] in H.
  destruct (sg_nb s), (sg_na s); try discriminate.
  destruct (sg_type s =? 0)%Z; [|destruct (sg_key s); [|discriminate]]; destruct (253 <=? sg_est s); try discriminate;
    inversion H; subst; unfold sig_type_of; cbn [si_type]; unfold uint64_of; rewrite Z.mod_small by (unfold two64z in *; lia); lia.
Qed.

Section InterestSig.
Variable sha256 : bytes -> bytes.
Hypothesis sha256_len : forall x, length (sha256 x) = 32%nat.

Theorem shipped_interest_validates : forall row, In row shipped_signers ->
  forall (chk : bytes -> bytes -> bool) (sgn : bytes -> bytes), (forall msg, chk msg (sgn msg) = true) ->
  forall nm cfg a sg s si est e,
    sig_active sg = Some s -> sg_type s = sf_type row -> (0 <= sg_type s < two64z)%Z -> 0 < est ->
    int_siginfo sg true = Ok (si, est) -> name_ok (strip_digest nm) -> iconfig_ok cfg -> signer_ok sg -> signer_int_ok sg ->
    int_fits (strip_digest nm ++ [mkc 2 zeros32]) cfg (Some a) si est ->
    make_interest sha256 (fun cov => Some (sgn (concat cov))) nm cfg (Some a) sg = Ok e ->
    forall r, View r (concat (e_wire e)) 0 ->
      exists i cov sv, read_interest sha256 r = ROk i cov /\ io_sv (obs_int i) = Some sv /\
        ((sig_type_of (io_si (obs_int i)) =? sf_vtype row)%Z && chk (concat cov) sv)%bool = true.
Proof.
  intros row Hin chk sgn Hchk nm cfg a sg s si est e Hact Hty Htr Hest Hsi Hn Hcfg Hsg Hsgi Hfit Hmk r V.
  destruct (interest_roundtrip_thm sha256 sha256_len _ nm cfg (Some a) sg si est e Hsi Hn Hcfg Hsg Hsgi Hfit Hmk)
    as (svo & _ & Hs1 & _ & _ & Hr).
  destruct (Hs1 Hest) as (Hsign & sv & -> & _). inversion Hsign as [Hsv].
  destruct (Hr r V) as (i & cov & E & Ho & Hc). exists i, cov, sv.
  split; [exact E|]. rewrite Ho. unfold expected_int. cbn [io_sv io_si]. split; [reflexivity|].
  unfold int_si_of. rewrite Hsi.
  rewrite (sig_type_of_int sg si est Hsi s Hact Htr), Hty.
  pose proof shipped_types_match as Hm'. rewrite forallb_forall in Hm'. rewrite (Hm' row Hin). cbn [andb].
  rewrite (Hc Hest), <- Hsv. apply Hchk.
Qed.
End InterestSig.

(* ---------------------------------------------------------------- Interest: a changed parameters region changes the digest input *)
Lemma int_tail_inj c si sv c' si' sv' : opt_si_wf si -> opt_si_wf si' ->
  (blen (enc_elems (int_tail_elems (Some c) si sv)) + 100 < big) ->
  enc_elems (int_tail_elems (Some c) si sv) = enc_elems (int_tail_elems (Some c') si' sv') -> (c, si, sv) = (c', si', sv').
Proof.
  intros Hs Hs' Hsz Heq.
  (* embed both tails after the same one-component name and decode *)
  set (n0 := [mkc 8 []]).
  assert (Hn0 : name_ok n0) by (repeat constructor; cbn; unfold two64; lia).
  assert (Hh : head_wf None None None) by (repeat split).
  set (B := enc_elem (5, enc_elems (int_elems n0 false false None None None None (Some c) si sv))).
  assert (HB : B = enc_elem (5, enc_elems (int_elems n0 false false None None None None (Some c') si' sv'))).
  { unfold B. rewrite !int_elems_split, !enc_elems_app, Heq. reflexivity. }
  assert (Hb : (N.of_nat (length B) < big)%N).
  { unfold B. apply packet_size_t; [lia|]. rewrite int_elems_split, enc_elems_app, blen_app.
    replace (blen (enc_elems (int_pre n0 false false None None None None))) with 4 by reflexivity. lia. }
  destruct (parse_packet_interest (BR B 0) n0 false false None None None None (Some c) si sv) as (i & cx & E & Ho & _);
    [apply view_br; simpl; lia|assumption|assumption|split; [discriminate|assumption]|exact Hb|].
  assert (Hb' : (N.of_nat (length (enc_elem (5, enc_elems (int_elems n0 false false None None None None (Some c') si' sv')))) < big)%N) by (rewrite <- HB; exact Hb).
  destruct (parse_packet_interest (BR B 0) n0 false false None None None None (Some c') si' sv') as (i' & cx' & E' & Ho' & _);
    [rewrite HB; apply view_br; simpl; lia|assumption|assumption|split; [discriminate|assumption]|exact Hb'|].
  rewrite E in E'. inversion E'; subst i'. rewrite Ho in Ho'. inversion Ho'. reflexivity.
Qed.

(* ---------------------------------------------------------------- Interest: the signed portion determines what was signed *)
Lemma enc_elems_inj es : forall es', Forall elem_wf es -> Forall elem_wf es' -> enc_elems es = enc_elems es' -> es = es'.
Proof.
  induction es as [|e es IH]; intros [|e' es'] Hw Hw' H.
  - reflexivity.
  - exfalso. rewrite enc_elems_cons in H. apply (f_equal (@length N)) in H. rewrite app_length in H. pose proof (enc_elem_ge2 e'). simpl in H. lia.
  - exfalso. rewrite enc_elems_cons in H. apply (f_equal (@length N)) in H. rewrite app_length in H. pose proof (enc_elem_ge2 e). simpl in H. lia.
  - inversion Hw as [|? ? [Ht Hl] Hw1]; inversion Hw' as [|? ? [Ht' Hl'] Hw1']; subst.
    rewrite !enc_elems_cons in H. unfold enc_elem in H. rewrite <- !app_assoc in H.
    assert (H1 := f_equal tl_dec H). rewrite !tl_dec_enc in H1 by assumption. inversion H1 as [[Hf Hr]].
    assert (H2 := f_equal tl_dec Hr). rewrite !tl_dec_enc in H2 by (unfold two64; lia). inversion H2 as [[Hlen Hr2]].
    assert (Hlen' : length (snd e) = length (snd e')) by lia.
    assert (Hv : snd e = snd e').
    { apply (f_equal (firstn (length (snd e)))) in Hr2. rewrite firstn_app_le, firstn_all in Hr2 by lia.
      rewrite Hlen', firstn_app_le, firstn_all in Hr2 by lia. exact Hr2. }
    assert (Hrest : enc_elems es = enc_elems es').
    { rewrite Hv in Hr2. apply app_inv_head in Hr2. exact Hr2. }
    f_equal; [destruct e, e'; cbn [fst snd] in *; congruence|apply IH; assumption].
Qed.

Definition comp_elem (c : comp) : elem := (ctyp c, cval c).
Lemma name_inner_elems n : name_inner n = enc_elems (map comp_elem n).
Proof. unfold name_inner, enc_elems. rewrite map_map. reflexivity. Qed.
Lemma comp_elem_inj a b : map comp_elem a = map comp_elem b -> a = b.
Proof.
  revert b; induction a as [|x a IH]; intros [|y b] H; try discriminate; [reflexivity|].
  inversion H. f_equal; [destruct x, y; cbn in *; congruence|apply IH; assumption].
Qed.
Lemma name_elems_wf n : name_ok n -> Forall elem_wf (map comp_elem n).
Proof. intros H. induction H as [|c n [H1 H2] _ IH]; constructor; [split; assumption|exact IH]. Qed.

(* C12: the bytes covered by an Interest signature — the name's components without the digest, then the
   ApplicationParameters element, then the SignatureInfo element — are an injective function of (name, parameters,
   SignatureInfo): two Interests whose signed portions coincide carry the same signed fields. *)
Theorem int_signed_portion_inj pre c si pre' c' si' :
  name_ok pre -> name_ok pre' -> opt_si_wf si -> opt_si_wf si' ->
  (blen (name_inner pre) + blen (enc_elems (int_tail_elems (Some c) si None)) + 100 < big) ->
  name_inner pre ++ enc_elems (int_tail_elems (Some c) si None) = name_inner pre' ++ enc_elems (int_tail_elems (Some c') si' None) ->
  (pre, c, si) = (pre', c', si').
Proof.
  intros Hn Hn' Hs Hs' Hsz Heq.
  rewrite !name_inner_elems, <- !enc_elems_app in Heq.
  assert (Hlen : length (enc_elems (map comp_elem pre' ++ int_tail_elems (Some c') si' None)) =
                 (length (name_inner pre) + length (enc_elems (int_tail_elems (Some c) si None)))%nat).
  { rewrite <- Heq, enc_elems_app, app_length, <- name_inner_elems. reflexivity. }
  assert (Hw : Forall elem_wf (map comp_elem pre ++ int_tail_elems (Some c) si None)).
  { apply elems_wf.
    - apply Forall_app; split; [eapply Forall_impl; [|apply (name_elems_wf pre Hn)]; intros e [H _]; exact H|].
      unfold int_tail_elems. repeat (apply Forall_app; split); try (apply oel_types; unfold two64; lia).
    - rewrite enc_elems_app, app_length, <- name_inner_elems. unfold blen in Hsz. lia. }
  assert (Hw' : Forall elem_wf (map comp_elem pre' ++ int_tail_elems (Some c') si' None)).
  { apply elems_wf.
    - apply Forall_app; split; [eapply Forall_impl; [|apply (name_elems_wf pre' Hn')]; intros e [H _]; exact H|].
      unfold int_tail_elems. repeat (apply Forall_app; split); try (apply oel_types; unfold two64; lia).
    - rewrite Hlen. unfold blen in Hsz. lia. }
  pose proof (enc_elems_inj _ _ Hw Hw' Heq) as Hl. clear Heq Hw Hw' Hlen.
  unfold int_tail_elems in Hl. cbn [oel app] in Hl. rewrite !app_nil_r in Hl.
  (* read the element lists from the end *)
  assert (T2 : forall (l : list elem) a b, l ++ [a; b] = (l ++ [a]) ++ [b]) by (intros; rewrite <- app_assoc; reflexivity).
  destruct si as [s|], si' as [s'|]; cbn [option_map oel app] in Hl.
  - rewrite !T2 in Hl. apply app_inj_tail in Hl as [Hl He]. apply app_inj_tail in Hl as [Hl Hc].
    assert (Hse : si_enc s = si_enc s') by (apply (f_equal snd) in He; exact He). clear He.
    assert (Hcc : c = c') by (apply (f_equal snd) in Hc; exact Hc). clear Hc. apply comp_elem_inj in Hl. subst. f_equal. f_equal.
    assert (Hq : (c', Some s, @None bytes) = (c', Some s', None)); [|inversion Hq; reflexivity].
    apply int_tail_inj; try assumption.
    + unfold blen in *. lia.
    + unfold int_tail_elems. cbn [oel option_map]. rewrite Hse. reflexivity.
  - exfalso. rewrite T2 in Hl. apply app_inj_tail in Hl as [_ He]. discriminate.
  - exfalso. rewrite T2 in Hl. apply app_inj_tail in Hl as [_ He]. discriminate.
  - apply app_inj_tail in Hl as [Hl Hc]. inversion Hc. apply comp_elem_inj in Hl. subst. reflexivity.
Qed.

(* ---------------------------------------------------------------- decoding is a function of the bytes decoded *)
(* In the model a decode has no state to share: the result of the i-th decode of a sequence is the decode of the i-th
   input alone, whatever is decoded before or after.  This is the obligation on the Go code that the model cannot
   exhibit a violation of (a SigCovered wire sharing memory with a reused parsing context): the harness's
   decode-sequence cases keep every returned object and compare/validate only after the last decode. *)
Lemma read_data_seq_independent (pre post : list reader) r :
  nth (length pre) (map read_data (pre ++ r :: post)) RErr = read_data r.
Proof. rewrite map_app, app_nth2 by (rewrite map_length; lia). rewrite map_length, Nat.sub_diag. reflexivity. Qed.
Lemma read_interest_seq_independent (sha256 : bytes -> bytes) (pre post : list reader) r :
  nth (length pre) (map (read_interest sha256) (pre ++ r :: post)) RErr = read_interest sha256 r.
Proof. rewrite map_app, app_nth2 by (rewrite map_length; lia). rewrite map_length, Nat.sub_diag. reflexivity. Qed.

(* ---------------------------------------------------------------- covered bytes agree *)
Lemma sig_covered_agree_data_thm sign nm cfg content sg si est e :
  data_siginfo sg = Ok (si, est) -> name_ok nm -> meta_wf (meta_of cfg) -> signer_ok sg -> data_fits nm cfg content si est ->
  make_data sign nm cfg content sg = Ok e ->
  forall r, View r (concat (e_wire e)) 0 -> exists d cov, read_data r = ROk d cov /\ concat cov = concat (e_cov e).
Proof.
  intros Hsi Hn Hm Hsg Hfit Hmk r V.
  destruct (data_roundtrip_thm sign nm cfg content sg si est e Hsi Hn Hm Hsg Hfit Hmk) as (sv & _ & _ & _ & Hr).
  destruct (Hr r V) as (d & cov & E & _ & Hc). eauto.
Qed.

Section DigestLast.
Variable sha256 : bytes -> bytes.
Hypothesis sha256_len : forall x, length (sha256 x) = 32%nat.
Variable sign : list bytes -> option bytes.

Lemma sig_covered_agree_int_thm nm cfg app sg si est e :
  let need := match app with Some _ => true | None => false end in
  let pre := strip_digest nm in
  let nm1 := if need then pre ++ [mkc 2 zeros32] else pre in
  int_siginfo sg need = Ok (si, est) -> 0 < est -> name_ok pre ->
  iconfig_ok cfg -> signer_ok sg -> signer_int_ok sg -> int_fits nm1 cfg app si est ->
  make_interest sha256 sign nm cfg app sg = Ok e ->
  forall r, View r (concat (e_wire e)) 0 -> exists i cov, read_interest sha256 r = ROk i cov /\ concat cov = concat (e_cov e).
Proof.
  intros need pre nm1 Hsi Hest Hn Hcfg Hsg Hsgi Hfit Hmk r V.
  destruct (interest_roundtrip_thm sha256 sha256_len sign nm cfg app sg si est e Hsi Hn Hcfg Hsg Hsgi Hfit Hmk)
    as (svo & _ & _ & _ & _ & Hr).
  destruct (Hr r V) as (i & cov & E & _ & Hc). eauto.
Qed.

(* An Interest built with parameters carries, as its last name component, the SHA-256 of the region the NDN packet format
   prescribes (Spec.params_digest_region: the ApplicationParameters element to the end of the Interest, located on the
   encoded bytes). *)
Lemma digest_is_last_component_thm nm cfg a sg si est e :
  let pre := strip_digest nm in
  int_siginfo sg true = Ok (si, est) -> name_ok pre -> iconfig_ok cfg -> signer_ok sg -> signer_int_ok sg ->
  int_fits (pre ++ [mkc 2 zeros32]) cfg (Some a) si est ->
  make_interest sha256 sign nm cfg (Some a) sg = Ok e ->
  exists region, params_digest_region (concat (e_wire e)) = Some region /\ e_final e = pre ++ [mkc 2 (sha256 region)].
Proof.
  intros pre Hsi Hn Hcfg Hsg Hsgi Hfit Hmk.
  destruct (interest_roundtrip_thm sha256 sha256_len sign nm cfg (Some a) sg si est e Hsi Hn Hcfg Hsg Hsgi Hfit Hmk)
    as (svo & Hs0 & Hs1 & Hfin & HW & Hr).
  exists (enc_elems (int_tail_elems (option_map (@concat N) (Some a)) si svo)). split; [|exact Hfin].
  rewrite HW. unfold IV. cbn [option_map].
  apply params_region_is_tail.
  fold (IV (e_final e) cfg (Some a) si svo). rewrite Hfin. cbn [option_map].
  apply (IV_size sha256 sha256_len sign (strip_digest nm) cfg a si est svo); try assumption; [apply sha256_len|].
  intros sv ->. split; [destruct (N.eq_dec est 0) as [E0|E0]; [specialize (Hs0 E0); discriminate|lia]|]. destruct (N.eq_dec est 0) as [E0|E0]; [specialize (Hs0 E0); discriminate|].
  destruct (Hs1 ltac:(lia)) as (_ & s & Es & Hle). inversion Es; subst. lia.
Qed.
End DigestLast.
