(* Packet/DecInterest.v — InterestParsingContext.Parse (ordered model, 15 fields) on the bytes InterestEncoder writes. *)
From Packet Require Import Model Spec ReadersProofs EncProofs DecGeneric DecProofs DecData.
From Coq Require Import ZifyBool ZifyN ZifyNat.
Open Scope nat_scope.
Arguments HDone {S}. Arguments HUnk {S}. Arguments HNot {S}.
Arguments ROk {A}. Arguments RErr {A}. Arguments RPanic {A}. Arguments RUnmodelled {A}.

Definition bel (c : bool) (t : N) : list elem := if c then [(t, @nil N)] else [].
Definition int_head_elems (cbp mbf : bool) (fh : option (list name)) (nonce : option N) (life : option Z) (hop : option N) : list elem :=
  bel cbp 33 ++ bel mbf 18 ++ oel 30 (option_map links_enc fh) ++ oel 10 (option_map (be 4) nonce)
  ++ oel 12 (option_map (fun d => nat_enc (ms_of d)) life) ++ oel 34 (option_map (fun x => [x]) hop).
Definition int_tail_elems (app : option bytes) (si : option siginfo) (sv : option bytes) : list elem :=
  oel 36 app ++ oel 44 (option_map si_enc si) ++ oel 46 sv.
Definition int_elems n cbp mbf fh nonce life hop app si sv : list elem :=
  [(7%N, name_inner n)] ++ int_head_elems cbp mbf fh nonce life hop ++ int_tail_elems app si sv.

Record iknow := mkIK { q_name : option name; q_cbp : bool; q_mbf : bool; q_fh : option (list name); q_nonce : option N;
                       q_life : option Z; q_hop : option N; q_app : option bytes; q_si : option siginfo; q_sv : option bytes;
                       q_cov : bytes; q_start : option nat; q_dstart : option nat }.
Definition iholds (k : iknow) (lo hi : nat) : @assertion istate :=
  fun all p s => let '(st, nf) := s in let v := is_val st in let cx := is_ctx st in
    lo <= nf <= hi /\ i_name v = q_name k /\ i_cbp v = q_cbp k /\ i_mbf v = q_mbf k /\ i_fh v = q_fh k /\ i_nonce v = q_nonce k /\
    i_life v = q_life k /\ i_hop v = q_hop k /\ option_map (@concat N) (i_app v) = q_app k /\ i_si v = q_si k /\
    option_map (@concat N) (i_sv v) = q_sv k /\ concat (ix_cov cx) = q_cov k /\
    match q_start k with Some b => ix_start cx = b /\ is_h9 st = true /\ b <= p | None => is_h9 st = false end /\
    match q_dstart k with Some b => ix_dstart cx = b /\ is_h10 st = true /\ b <= p | None => is_h10 st = false end /\
    is_h14 st = false.

Ltac isplit := unfold iholds, set_i; cbn [option_map is_val is_ctx is_h9 is_h10 is_h14 i_name i_cbp i_mbf i_fh i_nonce i_life i_hop i_app i_si i_sv
  ix_cov ix_dcov ix_start ix_dstart ix_dend q_name q_cbp q_mbf q_fh q_nonce q_life q_hop q_app q_si q_sv q_cov q_start q_dstart].
Ltac icomp := cbn [ord_inner Nat.add Nat.ltb Nat.leb int_handle int_skip N.eqb Pos.eqb Nat.eqb].

(* the knowledge after the name and the optional fields up to index j *)
Section Steps.
  Variables (cov0 : bytes) (n : name).
  Hypothesis Hn : name_ok n.
  Let covn := cov0 ++ firstn (doff n) (name_inner n).

  Lemma int_name_step :
    hoare 15 int_handle int_skip
      (iholds (mkIK None false false None None None None None None None cov0 None None) 0 0)
      [(7%N, name_inner n)]
      (iholds (mkIK (Some n) false false None None None None None None None covn None None) 3 3).
  Proof.
    apply hoare_elem. intros all sp st nf r2 rest HP h V H Hb [_ Hl]. cbn [fst snd] in *.
    destruct HP as (Hnf & H1 & H2 & H3 & H4 & H5 & H6 & H7 & H8 & H9 & H10 & H11 & H12 & H13 & H14).
    assert (nf = 0) by lia. subst nf. icomp.
    destruct (parse_name_body_ok _ _ _ _ _ V H Hn Hb) as (r3 & E & V3). rewrite E. cbn [bind].
    rewrite scan_digest_nat.
    pose proof (digest_pos_bounds n h (h + length (name_inner n)) h (le_n _)) as Hdp.
    pose proof (view_le _ _ _ V3) as Hle3.
    destruct (range_ok r3 all _ h (digest_pos n h (h + length (name_inner n))) V3) as (cw & Er & Hcw); [lia|lia|].
    unfold range_or_nil. rewrite Er.
    eexists _, 3, r3. split; [reflexivity|]. split; [exact V3|]. isplit.
    repeat split; auto; try lia. rewrite concat_app, H11, Hcw. unfold covn. f_equal.
    replace (h + length (name_inner n)) with (h + length (name_inner n)) by reflexivity.
    replace (digest_pos n h (h + length (name_inner n))) with (h + doff n)
      by (unfold doff; rewrite <- digest_pos_shift; f_equal; lia).
    replace (h + doff n - h) with (doff n) by lia. rewrite H. rewrite firstn_app_le by apply doff_le. reflexivity.
  Qed.

End Steps.

(* the optional fields of index 3..8: nothing here depends on how the name was read (covn: the bytes collected so far) *)
Section HeadSteps.
  Variables (covn : bytes) (n : name).
  (* knowledge after the optional fields of index 3..8 *)
  Definition KH cbp mbf fh nonce life hop : iknow := mkIK (Some n) cbp mbf fh nonce life hop None None None covn None None.

  Ltac start_step HP :=
    destruct HP as (Hnf & H1 & H2 & H3 & H4 & H5 & H6 & H7 & H8 & H9 & H10 & H11 & H12 & H13 & H14).

  Lemma int_cbp_step :
    hoare 15 int_handle int_skip (iholds (KH false false None None None None) 3 3) [(33%N, [])]
          (iholds (KH true false None None None None) 4 4).
  Proof.
    apply hoare_elem. intros all sp st nf r2 rest HP h V H Hb [_ Hl]. cbn [fst snd length] in *. start_step HP.
    assert (nf = 3) by lia. subst nf. icomp.
    eexists _, 4, r2. split; [reflexivity|]. split; [rewrite Nat.add_0_r; exact V|]. isplit. repeat split; auto; lia.
  Qed.

  Lemma int_mbf_step cbp :
    hoare 15 int_handle int_skip (iholds (KH cbp false None None None None) 3 4) [(18%N, [])]
          (iholds (KH cbp true None None None None) 5 5).
  Proof.
    apply hoare_elem. intros all sp st nf r2 rest HP h V H Hb [_ Hl]. cbn [fst snd length] in *. start_step HP.
    assert (Hc : nf = 3 \/ nf = 4) by lia.
    destruct Hc; subst nf; icomp;
      (eexists _, 5, r2; split; [reflexivity|]; split; [rewrite Nat.add_0_r; exact V|]; isplit; repeat split; auto; lia).
  Qed.

  Lemma int_fh_step cbp mbf ns : Forall name_ok ns ->
    hoare 15 int_handle int_skip (iholds (KH cbp mbf None None None None) 3 5) [(30%N, links_enc ns)]
          (iholds (KH cbp mbf (Some ns) None None None) 6 6).
  Proof.
    intros Hns. apply hoare_elem. intros all sp st nf r2 rest HP h V H Hb [_ Hl]. cbn [fst snd] in *. start_step HP.
    destruct (delegate_sub _ _ _ _ _ V H Hb) as (sub & r3 & hid & E & Vs & Hbs & V3).
    assert (Hc : nf = 3 \/ nf = 4 \/ nf = 5) by lia.
    destruct Hc as [?|[?|?]]; subst nf; icomp; rewrite to_int_len by exact Hl; rewrite E; cbn [bind];
      rewrite (parse_links_ok sub hid ns Vs Hns Hbs); cbn [bind];
      (eexists _, 6, r3; split; [reflexivity|]; split; [exact V3|]; isplit; repeat split; auto; lia).
  Qed.

  Lemma int_nonce_step cbp mbf fh x : (x < 4294967296)%N ->
    hoare 15 int_handle int_skip (iholds (KH cbp mbf fh None None None) 3 6) [(10%N, be 4 x)]
          (iholds (KH cbp mbf fh (Some x) None None) 7 7).
  Proof.
    intros Hx. apply hoare_elem. intros all sp st nf r2 rest HP h V H Hb [_ Hl]. cbn [fst snd] in *. start_step HP.
    destruct (read_uint_ok 4294967296 _ _ _ _ _ V H) as (r3 & E & V3); [rewrite be_length; lia|exact Hl|].
    rewrite fold_uint_be4 in E by exact Hx.
    assert (Hc : nf = 3 \/ nf = 4 \/ nf = 5 \/ nf = 6) by lia.
    destruct Hc as [?|[?|[?|?]]]; subst nf; icomp; rewrite E; cbn [bind];
      (eexists _, 7, r3; split; [reflexivity|]; split; [exact V3|]; isplit; repeat split; auto; lia).
  Qed.

  Lemma int_life_step cbp mbf fh nonce d : dur_wf d ->
    hoare 15 int_handle int_skip (iholds (KH cbp mbf fh nonce None None) 3 7) [(12%N, nat_enc (ms_of d))]
          (iholds (KH cbp mbf fh nonce (Some d) None) 8 8).
  Proof.
    intros Hd. apply hoare_elem. intros all sp st nf r2 rest HP h V H Hb [_ Hl]. cbn [fst snd] in *. start_step HP.
    destruct (read_nat_ok _ _ _ _ _ V H (ms_of_bound d)) as (r3 & E & V3).
    assert (Hc : nf = 3 \/ nf = 4 \/ nf = 5 \/ nf = 6 \/ nf = 7) by lia.
    destruct Hc as [?|[?|[?|[?|?]]]]; subst nf; icomp; rewrite E; cbn [bind]; rewrite dur_roundtrip by exact Hd;
      (eexists _, 8, r3; split; [reflexivity|]; split; [exact V3|]; isplit; repeat split; auto; lia).
  Qed.

  Lemma int_hop_step cbp mbf fh nonce life x :
    hoare 15 int_handle int_skip (iholds (KH cbp mbf fh nonce life None) 3 8) [(34%N, [x])]
          (iholds (KH cbp mbf fh nonce life (Some x)) 9 9).
  Proof.
    apply hoare_elem. intros all sp st nf r2 rest HP h V H Hb [_ Hl]. cbn [fst snd length] in *. start_step HP.
    assert (Hrem : 1 <= length all - h).
    { pose proof (skipn_eq_app _ _ _ _ (view_le _ _ _ V) H). simpl in *. lia. }
    destruct (skip_ok _ _ _ 1 V Hrem) as (r3 & E & V3). change (Z.of_nat 1) with 1%Z in E.
    pose proof V3 as (_ & _ & Hp3). pose proof (view_le _ _ _ V3) as Hle3.
    destruct (range_head r3 all _ h (h + 1) V3) as (x0 & t0 & cs0 & Er); [lia|lia|].
    destruct (range_ok r3 all _ h (h + 1) V3) as (ws & Er' & Hws); [lia|lia|].
    rewrite Er in Er'. inversion Er'; subst ws. clear Er'.
    replace (h + 1 - h) with 1 in Hws by lia. rewrite H in Hws. cbn in Hws.
    assert (x0 = x) by (inversion Hws; reflexivity). subst x0.
    assert (Ez : (Z.of_nat (rd_pos r3) - 1)%Z = Z.of_nat h) by (rewrite Hp3; lia).
    assert (Ez' : Z.of_nat (rd_pos r3) = Z.of_nat (h + 1)) by (rewrite Hp3; reflexivity).
    assert (Hc : nf = 3 \/ nf = 4 \/ nf = 5 \/ nf = 6 \/ nf = 7 \/ nf = 8) by lia.
    destruct Hc as [?|[?|[?|[?|[?|?]]]]]; subst nf; icomp; rewrite E; cbn [bind]; rewrite Ez, Ez', Er;
      (eexists _, 9, r3; split; [reflexivity|]; split; [exact V3|]; isplit; repeat split; auto; lia).
  Qed.
End HeadSteps.

Section Tail.
  Variables (covn : bytes) (n : name) (cbp mbf : bool) (fh : option (list name)) (nonce : option N) (life : option Z) (hop : option N).
  Variable P0 : nat.      (* absolute position where the ApplicationParameters element starts *)
  Definition KT app si sv cov st : iknow := mkIK (Some n) cbp mbf fh nonce life hop app si sv cov st st.
  Ltac start_step HP :=
    unfold KT, iholds in *; cbn [q_name q_cbp q_mbf q_fh q_nonce q_life q_hop q_app q_si q_sv q_cov q_start q_dstart] in *;
    destruct HP as (Hnf & H1 & H2 & H3 & H4 & H5 & H6 & H7 & H8 & H9 & H10 & H11 & H12 & H13 & H14).

  Lemma int_app_step c :
    hoare 15 int_handle int_skip (at_pos P0 (iholds (KT None None None covn None) 3 9)) [(36%N, c)]
          (iholds (KT (Some c) None None covn (Some P0)) 12 12).
  Proof.
    apply hoare_elem. intros all sp st nf r2 rest [Hsp HP] h V H Hb [_ Hl]. cbn [fst snd] in *. subst sp. start_step HP.
    destruct (read_wire_ok _ _ _ _ _ V H) as (ws & r3 & E & Hc & V3).
    assert (Hcase : nf = 3 \/ nf = 4 \/ nf = 5 \/ nf = 6 \/ nf = 7 \/ nf = 8 \/ nf = 9) by lia.
    destruct Hcase as [?|[?|[?|[?|[?|[?|?]]]]]]; subst nf; icomp; rewrite to_int_len by exact Hl; rewrite E; cbn [bind];
      (eexists _, 12, r3; split; [reflexivity|]; split; [exact V3|]; isplit; repeat split; auto; try lia; f_equal; exact Hc).
  Qed.

  Lemma int_si_step c si : si_wf si ->
    hoare 15 int_handle int_skip (iholds (KT (Some c) None None covn (Some P0)) 12 12) [(44%N, si_enc si)]
          (iholds (KT (Some c) (Some si) None covn (Some P0)) 13 13).
  Proof.
    intros Hsi. apply hoare_elem. intros all sp st nf r2 rest HP h V H Hb [_ Hl]. cbn [fst snd] in *. start_step HP.
    destruct H12 as (H12a & H12b & H12c). destruct H13 as (H13a & H13b & H13c).
    assert (nf = 12) by lia. subst nf. icomp. rewrite to_int_len by exact Hl.
    destruct (delegate_sub _ _ _ _ _ V H Hb) as (sub & r3 & hid & E & Vs & Hbs & V3). rewrite E. cbn [bind].
    rewrite (parse_si_ok sub hid si Vs Hsi Hbs). cbn [bind].
    eexists _, 13, r3. split; [reflexivity|]. split; [exact V3|]. isplit. repeat split; auto; lia.
  Qed.

  Lemma int_sv_step c si sv :
    hoare 15 int_handle int_skip (iholds (KT (Some c) si None covn (Some P0)) 12 13) [(46%N, sv)]
          (fun all p s => exists p0, P0 <= p0 <= length all /\ p = p0 + length (enc_elem (46%N, sv)) /\
             iholds (KT (Some c) si (Some sv) (covn ++ firstn (p0 - P0) (skipn P0 all)) (Some P0)) 14 14 all p s).
  Proof.
    apply hoare_elem. intros all sp st nf r2 rest HP h V H Hb [_ Hl]. cbn [fst snd] in *. start_step HP.
    destruct H12 as (H12a & H12b & H12c). destruct H13 as (H13a & H13b & H13c).
    destruct (read_wire_ok _ _ _ _ _ V H) as (ws & r3 & E & Hc & V3).
    assert (Hsp : sp <= length all) by (pose proof (view_le _ _ _ V); unfold h in *; lia).
    destruct (range_ok r3 all _ P0 sp V3 H12c Hsp) as (cw & Er & Hcw).
    assert (Hcase : nf = 12 \/ nf = 13) by lia.
    destruct Hcase; subst nf; icomp; rewrite to_int_len by exact Hl; rewrite E; cbn [bind]; unfold range_or_nil; rewrite H12a, Er;
      (eexists _, 14, r3; split; [reflexivity|]; split; [exact V3|]; exists sp; split; [lia|]; split; [reflexivity|];
       isplit; rewrite concat_app; repeat split; auto; try lia; [f_equal; exact Hc|f_equal; [exact H11|exact Hcw]]).
  Qed.
End Tail.

(* ---------------------------------------------------------------- composition *)
Definition head_wf (fh : option (list name)) (nonce : option N) (life : option Z) : Prop :=
  match fh with Some ns => Forall name_ok ns | None => True end /\
  match nonce with Some x => (x < 4294967296)%N | None => True end /\
  match life with Some d => dur_wf d | None => True end.

Lemma iholds_weaken k lo hi lo' hi' all p s : lo' <= lo -> hi <= hi' -> iholds k lo hi all p s -> iholds k lo' hi' all p s.
Proof. destruct s as [st nf]. unfold iholds. intros H1 H2 H. intuition lia. Qed.

Lemma int_head_hoare cov0 n cbp mbf fh nonce life hop : head_wf fh nonce life ->
  hoare 15 int_handle int_skip (iholds (KH cov0 n false false None None None None) 3 3)
        (int_head_elems cbp mbf fh nonce life hop) (iholds (KH cov0 n cbp mbf fh nonce life hop) 3 9).
Proof.
  intros (Hfh & Hno & Hli). unfold int_head_elems.
  eapply hoare_app with (Q := iholds (KH cov0 n cbp false None None None None) 3 4).
  { destruct cbp; simpl.
    - eapply hoare_weaken; [| |apply int_cbp_step]; intros all p s H; [exact H|eapply iholds_weaken; [| |exact H]; lia].
    - apply hoare_nil. intros all p s H. eapply iholds_weaken; [| |exact H]; lia. }
  eapply hoare_app with (Q := iholds (KH cov0 n cbp mbf None None None None) 3 5).
  { destruct mbf; simpl.
    - eapply hoare_weaken; [| |apply int_mbf_step]; intros all p s H; [exact H|eapply iholds_weaken; [| |exact H]; lia].
    - apply hoare_nil. intros all p s H. eapply iholds_weaken; [| |exact H]; lia. }
  eapply hoare_app with (Q := iholds (KH cov0 n cbp mbf fh None None None) 3 6).
  { destruct fh as [ns|]; simpl.
    - eapply hoare_weaken; [| |apply (int_fh_step cov0 n cbp mbf ns Hfh)]; intros all p s H; [exact H|eapply iholds_weaken; [| |exact H]; lia].
    - apply hoare_nil. intros all p s H. eapply iholds_weaken; [| |exact H]; lia. }
  eapply hoare_app with (Q := iholds (KH cov0 n cbp mbf fh nonce None None) 3 7).
  { destruct nonce as [x|]; simpl.
    - eapply hoare_weaken; [| |apply (int_nonce_step cov0 n cbp mbf fh x Hno)]; intros all p s H; [exact H|eapply iholds_weaken; [| |exact H]; lia].
    - apply hoare_nil. intros all p s H. eapply iholds_weaken; [| |exact H]; lia. }
  eapply hoare_app with (Q := iholds (KH cov0 n cbp mbf fh nonce life None) 3 8).
  { destruct life as [d|]; simpl.
    - eapply hoare_weaken; [| |apply (int_life_step cov0 n cbp mbf fh nonce d Hli)]; intros all p s H; [exact H|eapply iholds_weaken; [| |exact H]; lia].
    - apply hoare_nil. intros all p s H. eapply iholds_weaken; [| |exact H]; lia. }
  destruct hop as [x|]; simpl.
  - eapply hoare_weaken; [| |apply (int_hop_step cov0 n cbp mbf fh nonce life x)]; intros all p s H; [exact H|eapply iholds_weaken; [| |exact H]; lia].
  - apply hoare_nil. intros all p s H. eapply iholds_weaken; [| |exact H]; lia.
Qed.

Definition int_pre n cbp mbf fh nonce life hop : list elem := [(7%N, name_inner n)] ++ int_head_elems cbp mbf fh nonce life hop.
Definition tail_ok (app : option bytes) (si : option siginfo) (sv : option bytes) : Prop :=
  (app = None -> si = None /\ sv = None) /\ opt_si_wf si.

Definition int_post base cov0 n cbp mbf fh nonce life hop app si sv : @assertion istate :=
  let P0 := base + length (enc_elems (int_pre n cbp mbf fh nonce life hop)) in
  let covn := cov0 ++ firstn (doff n) (name_inner n) in
  fun all p s =>
    match app with
    | None => iholds (KH covn n cbp mbf fh nonce life hop) 3 9 all p s
    | Some c =>
        match sv with
        | None => iholds (KT n cbp mbf fh nonce life hop (Some c) si None covn (Some P0)) 12 13 all p s
        | Some v => exists p0, P0 <= p0 <= length all /\ p = p0 + length (enc_elem (46%N, v)) /\
                      iholds (KT n cbp mbf fh nonce life hop (Some c) si (Some v) (covn ++ firstn (p0 - P0) (skipn P0 all)) (Some P0)) 14 14 all p s
        end
    end.

Lemma int_hoare base cov0 n cbp mbf fh nonce life hop app si sv :
  name_ok n -> head_wf fh nonce life -> tail_ok app si sv ->
  hoare 15 int_handle int_skip
    (at_pos base (iholds (mkIK None false false None None None None None None None cov0 None None) 0 0))
    (int_elems n cbp mbf fh nonce life hop app si sv)
    (int_post base cov0 n cbp mbf fh nonce life hop app si sv).
Proof.
  intros Hn Hh [Hshape Hsi]. unfold int_elems.
  set (x1 := base + length (enc_elems [(7%N, name_inner n)])).
  set (P0 := base + length (enc_elems (int_pre n cbp mbf fh nonce life hop))).
  assert (HP0 : P0 = x1 + length (enc_elems (int_head_elems cbp mbf fh nonce life hop))).
  { unfold P0, x1, int_pre. rewrite enc_elems_app, app_length. lia. }
  eapply hoare_app; [apply (hoare_at 15 int_handle int_skip _ _ _ base (int_name_step cov0 n Hn))|]. fold x1.
  eapply hoare_app; [apply (hoare_at 15 int_handle int_skip _ _ _ x1 (int_head_hoare (cov0 ++ firstn (doff n) (name_inner n)) n cbp mbf fh nonce life hop Hh))|].
  rewrite <- HP0. unfold int_tail_elems, int_post. fold P0.
  destruct app as [c|].
  - cbn [oel].
    eapply hoare_app; [apply (int_app_step (cov0 ++ firstn (doff n) (name_inner n)) n cbp mbf fh nonce life hop P0 c)|].
    eapply hoare_app with (Q := iholds (KT n cbp mbf fh nonce life hop (Some c) si None (cov0 ++ firstn (doff n) (name_inner n)) (Some P0)) 12 13).
    { destruct si as [s|]; simpl.
      - eapply hoare_weaken; [| |apply (int_si_step (cov0 ++ firstn (doff n) (name_inner n)) n cbp mbf fh nonce life hop P0 c s Hsi)]; intros all p s0 H;
          [exact H|eapply iholds_weaken; [| |exact H]; lia].
      - apply hoare_nil. intros all p s0 H. eapply iholds_weaken; [| |exact H]; lia. }
    destruct sv as [v|]; simpl.
    + apply int_sv_step.
    + apply hoare_nil. intros all p s0 H. exact H.
  - destruct (Hshape eq_refl) as [-> ->]. simpl. apply hoare_nil. intros all p s [_ H]. exact H.
Qed.

Lemma int_elems_split n cbp mbf fh nonce life hop app si sv :
  int_elems n cbp mbf fh nonce life hop app si sv = int_pre n cbp mbf fh nonce life hop ++ int_tail_elems app si sv.
Proof. unfold int_elems, int_pre. rewrite <- app_assoc. reflexivity. Qed.

Lemma bel_types c t : (t < two64)%N -> Forall (fun e : elem => (fst e < two64)%N) (bel c t).
Proof. intros H. destruct c; simpl; constructor; auto. Qed.
Lemma int_elems_types n cbp mbf fh nonce life hop app si sv :
  Forall (fun e : elem => (fst e < two64)%N) (int_elems n cbp mbf fh nonce life hop app si sv).
Proof.
  unfold int_elems, int_head_elems, int_tail_elems.
  repeat (apply Forall_app; split); try (apply oel_types; unfold two64; lia); try (apply bel_types; unfold two64; lia).
  repeat constructor.
Qed.

Lemma firstn_enc_prefix (a b c : list elem) : firstn (length (enc_elems (a ++ b))) (enc_elems (a ++ b ++ c)) = enc_elems (a ++ b).
Proof. rewrite app_assoc, (enc_elems_app (a ++ b) c). rewrite firstn_app_le by lia. apply firstn_all. Qed.

Lemma parse_interest_ok r hid n cbp mbf fh nonce life hop app si sv cx :
  let es := int_elems n cbp mbf fh nonce life hop app si sv in
  View r (hid ++ enc_elems es) (length hid) -> name_ok n -> head_wf fh nonce life -> tail_ok app si sv ->
  (N.of_nat (length (hid ++ enc_elems es)) < big)%N ->
  exists i cx', parse_interest cx r = Ok (i, cx') /\ obs_int i = mkIobs n cbp mbf fh nonce life hop app si sv /\
    i_name i = Some n /\ (i_app i = None <-> app = None) /\ (i_sv i = None <-> sv = None) /\
    concat (ix_cov cx') = concat (ix_cov cx) ++ firstn (doff n) (name_inner n) ++
       match app, sv with Some _, Some _ => enc_elems (oel 36 app ++ oel 44 (option_map si_enc si)) | _, _ => [] end /\
    concat (ix_dcov cx') = enc_elems (int_tail_elems app si sv).
Proof.
  intros es V Hn Hh Ht Hb. unfold parse_interest.
  assert (Hwf : Forall elem_wf es) by (apply elems_wf; [apply int_elems_types|rewrite app_length in Hb; lia]).
  destruct (hoare_parse 15 int_handle int_skip _ _ es
              (mkIst (mkInt None false false None None None None None None None) cx false false false) r hid
              (int_hoare (length hid) (concat (ix_cov cx)) n cbp mbf fh nonce life hop app si sv Hn Hh Ht))
    as (st' & nf' & r' & E & V' & HQ); auto.
  { split; [reflexivity|]. unfold iholds. cbn. repeat split; auto. }
  rewrite E. cbn [bind]. pose proof V' as (_ & _ & Hp'). rewrite Hp'.
  set (all := hid ++ enc_elems es) in *.
  set (P0 := length hid + length (enc_elems (int_pre n cbp mbf fh nonce life hop))).
  assert (Hall : all = hid ++ enc_elems (int_pre n cbp mbf fh nonce life hop) ++ enc_elems (int_tail_elems app si sv)).
  { unfold all, es. rewrite int_elems_split, enc_elems_app. reflexivity. }
  assert (HlenP0 : P0 <= length all) by (rewrite Hall, !app_length; unfold P0; lia).
  assert (Hskip : skipn P0 all = enc_elems (int_tail_elems app si sv)).
  { rewrite Hall, app_assoc. rewrite skipn_app_ge by (rewrite app_length; unfold P0; lia).
    rewrite app_length. unfold P0. rewrite Nat.sub_diag. reflexivity. }
  unfold int_post in HQ. fold P0 in HQ. destruct Ht as [Hshape Hsi].
  destruct app as [c|].
  - destruct sv as [v|].
    + destruct HQ as (p0 & Hp0 & Hpe & HD). unfold iholds, KT in HD.
      cbn [q_name q_cbp q_mbf q_fh q_nonce q_life q_hop q_app q_si q_sv q_cov q_start q_dstart] in HD.
      destruct HD as (_ & H1 & H2 & H3 & H4 & H5 & H6 & H7 & H8 & H9 & H10 & H11 & (H12a & H12b & _) & (H13a & H13b & _) & H14).
      rewrite H12b, H13b, H14. cbn [ix_cov ix_dcov ix_start ix_dstart ix_dend].
      destruct (range_ok r' all _ P0 (length all) V') as (cw & Er & Hcw); [lia|lia|].
      unfold range_or_nil. rewrite H13a, Er.
      eexists _, _. split; [reflexivity|]. cbn [ix_cov ix_dcov].
      split; [unfold obs_int; rewrite H1, H2, H3, H4, H5, H6, H7, H8, H9, H10; reflexivity|].
      split; [exact H1|].
      split; [split; [intros E0; rewrite E0 in H8; discriminate|discriminate]|].
      split; [split; [intros E0; rewrite E0 in H10; discriminate|discriminate]|].
      split.
      * rewrite H11, <- app_assoc. f_equal. f_equal.
        (* covered: from the parameters element to the start of SignatureValue *)
        rewrite Hskip. unfold int_tail_elems in *. cbn [oel] in *.
        assert (Hlen : length all = P0 + length (enc_elems ([(36%N, c)] ++ oel 44 (option_map si_enc si) ++ [(46%N, v)]))).
        { rewrite Hall at 1. rewrite !app_length. unfold P0. unfold elem, bytes, byte in *. lia. }
        rewrite app_assoc, enc_elems_app, app_length, enc_elems_one in Hlen.
        assert (p0 - P0 = length (enc_elems ([(36%N, c)] ++ oel 44 (option_map si_enc si)))) by (unfold elem, bytes, byte in *; lia).
        rewrite H. apply firstn_enc_prefix.
      * rewrite Hcw, Hskip. rewrite firstn_all2 by (rewrite <- Hskip, skipn_length; lia). reflexivity.
    + unfold iholds, KT in HQ.
      cbn [q_name q_cbp q_mbf q_fh q_nonce q_life q_hop q_app q_si q_sv q_cov q_start q_dstart] in HQ.
      destruct HQ as (_ & H1 & H2 & H3 & H4 & H5 & H6 & H7 & H8 & H9 & H10 & H11 & (H12a & H12b & _) & (H13a & H13b & _) & H14).
      rewrite H12b, H13b, H14. cbn [ix_cov ix_dcov ix_start ix_dstart ix_dend].
      destruct (range_ok r' all _ P0 (length all) V') as (cw & Er & Hcw); [lia|lia|].
      unfold range_or_nil. rewrite H13a, Er.
      eexists _, _. split; [reflexivity|]. cbn [ix_cov ix_dcov].
      split; [unfold obs_int; rewrite H1, H2, H3, H4, H5, H6, H7, H8, H9, H10; reflexivity|].
      split; [exact H1|].
      split; [split; [intros E0; rewrite E0 in H8; discriminate|discriminate]|].
      split; [split; [reflexivity|intros _; destruct (i_sv (is_val st')); [discriminate|reflexivity]]|].
      split; [rewrite H11, app_nil_r; reflexivity|].
      rewrite Hcw, Hskip. rewrite firstn_all2 by (rewrite <- Hskip, skipn_length; lia). reflexivity.
  - destruct (Hshape eq_refl) as [-> ->]. unfold iholds, KH in HQ.
    cbn [q_name q_cbp q_mbf q_fh q_nonce q_life q_hop q_app q_si q_sv q_cov q_start q_dstart] in HQ.
    destruct HQ as (_ & H1 & H2 & H3 & H4 & H5 & H6 & H7 & H8 & H9 & H10 & H11 & H12 & H13 & H14).
    rewrite H12, H13, H14. cbn [ix_cov ix_dcov ix_start ix_dstart ix_dend].
    destruct (range_ok r' all _ (length all) (length all) V') as (cw & Er & Hcw); [lia|lia|].
    unfold range_or_nil. rewrite Er.
    eexists _, _. split; [reflexivity|]. cbn [ix_cov ix_dcov].
    split; [unfold obs_int; rewrite H1, H2, H3, H4, H5, H6, H7, H8, H9, H10; reflexivity|].
    split; [exact H1|].
    split; [split; [reflexivity|intros _; destruct (i_app (is_val st')); [discriminate|reflexivity]]|].
    split; [split; [reflexivity|intros _; destruct (i_sv (is_val st')); [discriminate|reflexivity]]|].
    split; [rewrite H11, app_nil_r; reflexivity|].
    rewrite Hcw, Nat.sub_diag. reflexivity.
Qed.

(* ---------------------------------------------------------------- Packet level: ReadInterest / ReadPacket on an Interest *)
Lemma parse_packet_interest r n cbp mbf fh nonce life hop app si sv :
  let V := enc_elems (int_elems n cbp mbf fh nonce life hop app si sv) in
  View r (enc_elem (5%N, V)) 0 -> name_ok n -> head_wf fh nonce life -> tail_ok app si sv ->
  (N.of_nat (length (enc_elem (5%N, V))) < big)%N ->
  exists i cx, parse_packet r = Ok (mkPst (Some i) None false cx (mkDctx [] 0)) /\
    obs_int i = mkIobs n cbp mbf fh nonce life hop app si sv /\ i_name i = Some n /\
    (i_app i = None <-> app = None) /\ (i_sv i = None <-> sv = None) /\
    concat (ix_cov cx) = firstn (doff n) (name_inner n) ++
       match app, sv with Some _, Some _ => enc_elems (oel 36 app ++ oel 44 (option_map si_enc si)) | _, _ => [] end /\
    concat (ix_dcov cx) = enc_elems (int_tail_elems app si sv).
Proof.
  intros V0 V Hn Hh Ht Hb. unfold parse_packet, unord_parse.
  assert (HV0 : V0 = enc_elems (int_elems n cbp mbf fh nonce life hop app si sv)) by reflexivity. clearbody V0.
  set (all := enc_elem (5%N, V0)) in *.
  assert (He : elem_wf (5%N, V0)).
  { split; [cbn; unfold two64; lia|]. cbn [snd]. unfold all in Hb. rewrite enc_elem_length in Hb. cbn [snd] in Hb. lia. }
  assert (Hs : skipn 0 all = enc_elem (5%N, V0) ++ []) by (rewrite app_nil_r; reflexivity).
  destruct (read_header _ _ _ _ _ V Hs He) as (r2 & Eh & V2 & H2 & Hlt). cbn [fst snd] in *.
  rewrite (view_remaining _ _ _ V). rewrite Nat.sub_0_r.
  destruct (length all) as [|k] eqn:El; [lia|]. cbn [unord_loop].
  rewrite (view_len _ _ _ V), El. pose proof V as (_ & _ & Hp). rewrite Hp. cbn [Nat.leb].
  destruct (read_tlnum r) as [[typ r1]| |] eqn:E1; cbn in Eh; try discriminate. cbn [bind].
  destruct (read_tlnum r1) as [[l r2']| |] eqn:E2; cbn in Eh; try discriminate.
  inversion Eh; subst typ l r2'. cbn [bind]. unfold pkt_handle at 1.
  change (5 =? 5)%N with true. cbv iota.
  assert (Hl : (N.of_nat (length V0) < big)%N) by (destruct He as [_ He]; exact He).
  rewrite to_int_len by exact Hl.
  assert (Hball : (N.of_nat (length all) < big)%N) by (rewrite El; exact Hb).
  destruct (delegate_sub _ _ _ _ _ V2 H2 Hball) as (sub & r3 & hid & E & Vs & Hbs & V3). rewrite E. cbn [bind].
  rewrite HV0 in Vs, Hbs.
  destruct (parse_interest_ok sub hid n cbp mbf fh nonce life hop app si sv (mkIctx [] [] 0 0 0) Vs Hn Hh Ht Hbs)
    as (i & cx & Ep & Ho & Hin & Hia & Hisv & Hc & Hd).
  cbn [ps_ictx]. rewrite Ep. cbn [bind ps_data ps_lp ps_dctx].
  assert (Hend : 0 + tl_len 5 + tl_len (N.of_nat (length V0)) + length V0 = length all).
  { unfold all. rewrite enc_elem_length. cbn [fst snd]. lia. }
  rewrite Hend in V3.
  destruct k as [|k'].
  { exfalso. pose proof (tl_len_pos 5%N). pose proof (tl_len_pos (N.of_nat (length V0))). lia. }
  cbn [unord_loop]. rewrite (view_len _ _ _ V3). destruct V3 as (Hw3 & Ha3 & Hp3). rewrite Hp3, El, Nat.leb_refl. cbn [bind].
  exists i, cx. split; [reflexivity|]. cbn [ix_cov concat] in Hc. rewrite app_nil_l in Hc. auto 10.
Qed.

Section ReadInterest.
Variable sha256 : bytes -> bytes.

(* the name an Interest must carry: no digest component without parameters; with parameters the last component is the
   SHA-256 of the parameters element and everything after it *)
Definition int_name_ok (n : name) (app : option bytes) (si : option siginfo) (sv : option bytes) : Prop :=
  match app with
  | None => existsb is_digest_comp n = false
  | Some _ => exists pre, n = pre ++ [mkc 2 (sha256 (enc_elems (int_tail_elems app si sv)))]
  end.

Lemma read_interest_ok r n cbp mbf fh nonce life hop app si sv :
  let V := enc_elems (int_elems n cbp mbf fh nonce life hop app si sv) in
  View r (enc_elem (5%N, V)) 0 -> name_ok n -> head_wf fh nonce life -> tail_ok app si sv -> int_name_ok n app si sv ->
  (N.of_nat (length (enc_elem (5%N, V))) < big)%N ->
  exists i cov, read_interest sha256 r = ROk i cov /\ obs_int i = mkIobs n cbp mbf fh nonce life hop app si sv /\
    concat cov = firstn (doff n) (name_inner n) ++
       match app, sv with Some _, Some _ => enc_elems (oel 36 app ++ oel 44 (option_map si_enc si)) | _, _ => [] end.
Proof.
  intros V0 V Hn Hh Ht Hnm Hb.
  destruct (parse_packet_interest r n cbp mbf fh nonce life hop app si sv V Hn Hh Ht Hb)
    as (i & cx & E & Ho & Hin & Hia & Hisv & Hc & Hd).
  unfold read_interest. rewrite E. cbn [ps_lp ps_int ps_ictx].
  assert (Hsi' : i_si i = si) by (apply (f_equal io_si) in Ho; exact Ho).
  rewrite Hsi'. destruct Ht as [Hshape Hsiwf].
  replace (si_unm si) with false by (destruct si as [s|]; [destruct Hsiwf as (_ & _ & _ & _ & Hu); simpl; rewrite Hu|]; reflexivity).
  assert (Hck : check_interest sha256 i cx = true).
  { unfold check_interest. rewrite Hin. unfold int_name_ok in Hnm. destruct app as [c|].
    - destruct Hnm as (pre & Hpre). destruct (i_app i) eqn:Ea; [|exfalso; pose proof (proj1 Hia eq_refl); discriminate].
      rewrite Hpre, rev_app_distr. cbn [rev app ctyp cval]. rewrite Hd.
      destruct (i_sv i); (apply andb_true_iff; split; [reflexivity|apply bytes_eqb_spec; reflexivity]).
    - destruct (Hshape eq_refl) as [-> ->].
      assert (Ea : i_app i = None) by (apply Hia; reflexivity). assert (Es : i_sv i = None) by (apply Hisv; reflexivity).
      rewrite Ea, Es, Hnm. reflexivity. }
  rewrite Hck. exists i, (ix_cov cx). auto.
Qed.
End ReadInterest.
