(* Packet/TamperInt.v — C12: a flipped bit in the signed portion / signature of a signed Interest.
   The Interest parser on arbitrary bytes, from any state past the Name: what a stored SignatureValue guarantees
   (tail invariant); with the forward lemmas of DecInterest.v for the intact prefix this gives the tamper theorems. *)
From Packet Require Import Model Spec ReadersProofs EncProofs DecGeneric DecProofs DecData DecInterest EncData EncInterest Roundtrip Inv Tamper.
From Coq Require Import ZifyBool ZifyN ZifyNat.
Open Scope nat_scope.
Arguments HDone {S}. Arguments HUnk {S}. Arguments HNot {S}.
Arguments ROk {A}. Arguments RErr {A}. Arguments RPanic {A}. Arguments RUnmodelled {A}.

(* ---------------------------------------------------------------- more readers on arbitrary input *)
Lemma read_bytes_n_view n : forall r all p x r', View r all p -> read_bytes_n n r = Ok (x, r') -> View r' all (p + n).
Proof.
  induction n as [|n IH]; intros r all p x r' V E.
  - simpl in E. inversion E; subst. rewrite Nat.add_0_r. exact V.
  - cbn [read_bytes_n] in E. destruct (read_byte r) as [[b r1]| |] eqn:E1; cbn [bind] in E; try discriminate.
    destruct (read_bytes_n n r1) as [[l r2]| |] eqn:E2; cbn [bind] in E; try discriminate. inversion E; subst.
    destruct (read_byte_inv _ _ _ _ _ V E1) as (t & _ & V1).
    replace (p + S n) with (S p + n) by lia. eapply IH; eauto.
Qed.

Lemma read_uint_view m r all p l x r' : View r all p -> read_uint m r l = Ok (x, r') -> exists p', p <= p' /\ View r' all p'.
Proof.
  intros V E. unfold read_uint in E. destruct (to_int l <=? 0)%Z; [inversion E; subst; eauto|].
  destruct (Z.of_nat (rd_remaining r) <? to_int l)%Z; [discriminate|].
  destruct (read_bytes_n (Z.to_nat (to_int l)) r) as [[bs r1]| |] eqn:E1; cbn [bind] in E; try discriminate. inversion E; subst.
  exists (p + Z.to_nat (to_int l)). split; [lia|]. eapply read_bytes_n_view; eauto.
Qed.

(* ---------------------------------------------------------------- markers passed by the Interest loop *)
Lemma iter_skip_int sp r : forall d nf st,
  let st' := iter_skip int_skip sp r nf d st in
  is_val st' = is_val st /\ ix_cov (is_ctx st') = ix_cov (is_ctx st) /\
  (if ((nf <=? 9) && (9 <? nf + d))%bool then ix_start (is_ctx st') = sp /\ is_h9 st' = true
   else ix_start (is_ctx st') = ix_start (is_ctx st) /\ is_h9 st' = is_h9 st).
Proof.
  induction d as [|d IH]; intros nf st; cbv zeta.
  - cbn [iter_skip]. replace ((nf <=? 9) && (9 <? nf + 0))%bool with false; [auto|].
    destruct (nf <=? 9) eqn:E1; [|reflexivity]. cbn [andb]. symmetry. apply Nat.ltb_ge. apply Nat.leb_le in E1. lia.
  - cbn [iter_skip]. specialize (IH (Datatypes.S nf) (int_skip nf sp st r)). cbv zeta in IH. destruct IH as (I1 & I2 & I3).
    rewrite I1, I2.
    assert (Hsk : is_val (int_skip nf sp st r) = is_val st /\ ix_cov (is_ctx (int_skip nf sp st r)) = ix_cov (is_ctx st) /\
                  (if (nf =? 9) then ix_start (is_ctx (int_skip nf sp st r)) = sp /\ is_h9 (int_skip nf sp st r) = true
                   else ix_start (is_ctx (int_skip nf sp st r)) = ix_start (is_ctx st) /\ is_h9 (int_skip nf sp st r) = is_h9 st)).
    { unfold int_skip. destruct (nf =? 9) eqn:E9; [cbn; auto|]. destruct (nf =? 10); [cbn; auto|]. destruct (nf =? 14); cbn; auto. }
    destruct Hsk as (S1 & S2 & S3). split; [exact S1|]. split; [exact S2|].
    destruct (Nat.eq_dec nf 9) as [->|N9].
    + cbn [Nat.eqb] in S3. change (9 <=? 9) with true. replace (9 <? 9 + Datatypes.S d) with true by (symmetry; apply Nat.ltb_lt; lia). cbn [andb].
      change (10 <=? 9) with false in I3. cbn [andb] in I3. destruct I3 as [-> ->]. exact S3.
    + replace (nf =? 9) with false in S3 by (symmetry; apply Nat.eqb_neq; exact N9). destruct S3 as [S3a S3b].
      replace ((nf <=? 9) && (9 <? nf + Datatypes.S d))%bool with ((Datatypes.S nf <=? 9) && (9 <? Datatypes.S nf + d))%bool.
      * destruct ((Datatypes.S nf <=? 9) && (9 <? Datatypes.S nf + d))%bool; destruct I3 as [I3a I3b]; split; congruence.
      * replace (Datatypes.S nf + d) with (nf + Datatypes.S d) by lia.
        destruct (nf <=? 9) eqn:Ea; destruct (Datatypes.S nf <=? 9) eqn:Eb; try reflexivity.
        -- apply Nat.leb_le in Ea. apply Nat.leb_gt in Eb. lia.
        -- apply Nat.leb_gt in Ea. apply Nat.leb_le in Eb. lia.
Qed.

(* ---------------------------------------------------------------- the tail invariant *)
Section IntTail.
Variable all : bytes.
Variable p0 : nat.          (* where the tail of the stream begins *)
Variable C1 : bytes.        (* the covered bytes collected before (the name's part) *)

Definition hdr_at' := hdr_at all.

Definition isv_ok (st : istate) : Prop := forall w, i_sv (is_val st) = Some w ->
  exists b l c, p0 <= ix_start (is_ctx st) <= b /\ hdr_at all b 46 l c /\ (0 <= to_int l)%Z /\ c + Z.to_nat (to_int l) <= length all /\
    concat w = firstn (Z.to_nat (to_int l)) (skipn c all) /\
    concat (ix_cov (is_ctx st)) = C1 ++ firstn (b - ix_start (is_ctx st)) (skipn (ix_start (is_ctx st)) all).

Definition tinv (st : istate) (nf p : nat) : Prop :=
  3 <= nf /\
  (nf <= 9 -> is_h9 st = false) /\
  (10 <= nf -> is_h9 st = true /\ p0 <= ix_start (is_ctx st) <= p) /\
  (i_sv (is_val st) <> None -> 14 <= nf) /\
  (i_sv (is_val st) = None -> concat (ix_cov (is_ctx st)) = C1) /\
  isv_ok st.

Lemma tinv_mono st nf p nf' p' : tinv st nf p -> nf <= nf' -> p <= p' -> (nf <= 9 -> nf' <= 9) -> tinv st nf' p'.
Proof.
  intros (H0 & H1 & H2 & H3 & H4 & H5) Hn Hp H9. unfold tinv.
  split; [lia|]. split; [intros Hx; apply H1; destruct (le_lt_dec nf 9); [assumption|]; lia|].
  split; [intros Hx; destruct (le_lt_dec nf 9) as [Hl|Hl]; [specialize (H9 Hl); lia|]; destruct (H2 ltac:(lia)) as [? ?]; split; [assumption|lia]|].
  split; [intros Hx; specialize (H3 Hx); lia|]. split; assumption.
Qed.

(* the state with the markers below index k passed, as far as the invariant is concerned *)
Lemma pre_skip_tinv nf k sp (r2 : reader) st : tinv st nf sp -> p0 <= sp -> nf <= k ->
  let st0 := iter_skip int_skip sp r2 nf (k - nf) st in
  is_val st0 = is_val st /\ ix_cov (is_ctx st0) = ix_cov (is_ctx st) /\
  (k <= 9 -> is_h9 st0 = false) /\ (10 <= k -> is_h9 st0 = true /\ p0 <= ix_start (is_ctx st0) <= sp) /\
  (10 <= nf -> ix_start (is_ctx st0) = ix_start (is_ctx st)).
Proof.
  intros (H0 & H1 & H2 & H3 & H4 & H5) Hp Hle. cbv zeta.
  destruct (iter_skip_int sp r2 (k - nf) nf st) as (I1 & I2 & I3). split; [exact I1|]. split; [exact I2|].
  replace (nf + (k - nf)) with k in I3 by lia.
  destruct (nf <=? 9) eqn:Ea; [apply Nat.leb_le in Ea|apply Nat.leb_gt in Ea]; cbn [andb] in I3.
  - destruct (9 <? k) eqn:Eb; [apply Nat.ltb_lt in Eb|apply Nat.ltb_ge in Eb]; destruct I3 as [I3a I3b].
    + split; [intros; lia|]. split; [intros _; split; [exact I3b|lia]|]. intros; lia.
    + split; [intros _; rewrite I3b; apply H1; exact Ea|]. split; [intros; lia|]. intros; lia.
  - destruct I3 as [I3a I3b]. destruct (H2 ltac:(lia)) as [Hh Hs].
    split; [intros; lia|]. split; [intros _; split; [congruence|lia]|]. intros _. exact I3a.
Qed.

(* handlers that store a field other than the signature keep everything the invariant talks about *)
Definition keeps (X : istate -> res (istate * reader)) (p2 : nat) : Prop :=
  forall s s' r3, X s = Ok (s', r3) ->
    i_sv (is_val s') = i_sv (is_val s) /\ is_ctx s' = is_ctx s /\ is_h9 s' = is_h9 s /\ exists p3, p2 <= p3 /\ View r3 all p3.

Lemma int_inner_known typ l sp r2 k (X : istate -> res (istate * reader)) :
  (forall i st, i <> k -> int_handle typ l i sp st r2 = HNot) -> (forall st, int_handle typ l k sp st r2 = HDone (X st)) ->
  2 <= k <= 13 ->
  forall nf st st' r3 nf', ord_inner 15 int_handle int_skip 17 nf typ l sp st r2 = Ok (st', r3, nf') ->
    (nf <= k /\ X (iter_skip int_skip sp r2 nf (k - nf) st) = Ok (st', r3) /\ nf' = Datatypes.S k) \/
    (k < nf /\ r3 = r2 /\ exists d, st' = iter_skip int_skip sp r2 nf d st /\ nf' = nf + d /\ (nf <= 15 -> nf' = 16)).
Proof.
  intros Hnot Hdone Hk nf st st' r3 nf' E.
  destruct (le_lt_dec nf k) as [Hle|Hgt].
  - left. split; [exact Hle|].
    rewrite (ord_inner_known 15 int_handle int_skip typ l sp k X r2 Hnot Hdone (k - nf) nf st 17) in E by lia.
    destruct (X (iter_skip int_skip sp r2 nf (k - nf) st)) as [[s1 r1]| |]; cbn [bind] in E; try discriminate. inversion E; subst. auto.
  - right. split; [exact Hgt|].
    assert (Hall : forall i s, Datatypes.S k <= i -> int_handle typ l i sp s r2 = HNot) by (intros i s Hi; apply Hnot; lia).
    (* run the remaining indices explicitly to learn where it stops *)
    assert (Gen : forall fuel nf1 st1, Datatypes.S k <= nf1 -> 16 - nf1 < fuel \/ 15 < nf1 ->
              exists d, ord_inner 15 int_handle int_skip fuel nf1 typ l sp st1 r2 = Ok (iter_skip int_skip sp r2 nf1 d st1, r2, nf1 + d) /\
                        (nf1 <= 15 -> nf1 + d = 16)).
    { induction fuel as [|f IH]; intros nf1 st1 Hk1 Hf.
      - exists 0. cbn. rewrite Nat.add_0_r. split; [reflexivity|]. intros; lia.
      - cbn [ord_inner]. destruct (15 <? nf1) eqn:E15.
        + exists 0. cbn. rewrite Nat.add_0_r. split; [reflexivity|]. apply Nat.ltb_lt in E15. intros; lia.
        + apply Nat.ltb_ge in E15. rewrite Hall by exact Hk1.
          destruct (IH (Datatypes.S nf1) (int_skip nf1 sp st1 r2) ltac:(lia) ltac:(lia)) as (d & Ed & Hd).
          exists (Datatypes.S d). rewrite Ed. cbn [iter_skip]. split; [f_equal; f_equal; lia|]. intros _.
          destruct (le_lt_dec (Datatypes.S nf1) 15); [specialize (Hd l0); lia|]. assert (nf1 = 15) by lia. subst nf1.
          (* at 16 the loop stops at once *)
          destruct f; [lia|]. cbn [ord_inner] in Ed. change (15 <? 16) with true in Ed. inversion Ed. lia. }
    destruct (Gen 17 nf st ltac:(lia) ltac:(lia)) as (d & Ed & Hd). rewrite Ed in E. inversion E; subst.
    split; [reflexivity|]. exists d. auto.
Qed.

Lemma tinv_past nf sp r2 st d p2 : tinv st nf sp -> p0 <= sp -> sp <= p2 -> (nf <= 15 -> nf + d = 16) ->
  tinv (iter_skip int_skip sp r2 nf d st) (nf + d) p2.
Proof.
  intros (H0 & H1 & H2 & H3 & H4 & H5) Hp Hp2 Hd.
  destruct (iter_skip_int sp r2 d nf st) as (I1 & I2 & I3). unfold tinv, isv_ok. rewrite I1, I2.
  destruct (le_lt_dec nf 9) as [L9|G9].
  - specialize (Hd ltac:(lia)).
    replace ((nf <=? 9) && (9 <? nf + d))%bool with true in I3
      by (symmetry; apply andb_true_intro; split; [apply Nat.leb_le; lia|apply Nat.ltb_lt; lia]).
    destruct I3 as [I3a I3b]. rewrite I3a, I3b.
    assert (Hnone : i_sv (is_val st) = None).
    { destruct (i_sv (is_val st)) eqn:E; [|reflexivity]. assert (14 <= nf) by (apply H3; discriminate). lia. }
    split; [lia|]. split; [intros; lia|]. split; [intros _; split; [reflexivity|lia]|].
    split; [rewrite Hnone; congruence|]. split; [exact H4|]. intros w Hw. rewrite Hnone in Hw. discriminate.
  - replace ((nf <=? 9) && (9 <? nf + d))%bool with false in I3 by (symmetry; replace (nf <=? 9) with false by (symmetry; apply Nat.leb_gt; lia); reflexivity).
    destruct I3 as [I3a I3b]. rewrite I3a, I3b. destruct (H2 ltac:(lia)) as [Hh Hs].
    split; [lia|]. split; [intros; lia|]. split; [intros _; split; [exact Hh|lia]|].
    split; [intros Hx; specialize (H3 Hx); lia|]. split; [exact H4|exact H5].
Qed.

Lemma tinv_store nf k sp r2 st s' p2 p3 :
  tinv st nf sp -> p0 <= sp -> sp <= p2 -> p2 <= p3 -> nf <= k -> k <= 12 -> k <> 9 ->
  i_sv (is_val s') = i_sv (is_val (iter_skip int_skip sp r2 nf (k - nf) st)) ->
  is_ctx s' = is_ctx (iter_skip int_skip sp r2 nf (k - nf) st) -> is_h9 s' = is_h9 (iter_skip int_skip sp r2 nf (k - nf) st) ->
  tinv s' (Datatypes.S k) p3.
Proof.
  intros Hinv Hp Hp2 Hp3 Hle Hk Hk9 Esv Ectx Eh.
  destruct (pre_skip_tinv nf k sp r2 st Hinv Hp Hle) as (Pv & Pc & Ph9 & Ph10 & Pst).
  destruct Hinv as (H0 & H1 & H2 & H3 & H4 & H5).
  assert (Hnone : i_sv (is_val st) = None).
  { destruct (i_sv (is_val st)) eqn:E; [|reflexivity]. assert (14 <= nf) by (apply H3; discriminate). lia. }
  unfold tinv, isv_ok. rewrite Esv, Ectx, Eh, Pv, Pc, Hnone.
  split; [lia|]. split; [intros Hx; apply Ph9; lia|].
  split; [intros Hx; destruct (Ph10 ltac:(lia)) as [? ?]; split; [assumption|lia]|].
  split; [congruence|]. split; [intros _; apply H4; exact Hnone|]. intros w Hw; discriminate.
Qed.

Ltac hnot k := intros i s Hi; unfold int_handle; cbn [N.eqb Pos.eqb]; replace (i =? k)%nat with false by (symmetry; apply Nat.eqb_neq; lia); reflexivity.
Ltac hdone := intros s; unfold int_handle; cbn [N.eqb Pos.eqb Nat.eqb]; reflexivity.

Lemma int_tail_inner nf typ l sp st r2 p2 st' r3 nf' :
  p0 <= sp -> View r2 all p2 -> hdr_at all sp typ l p2 -> tinv st nf sp ->
  ord_inner 15 int_handle int_skip 17 nf typ l sp st r2 = Ok (st', r3, nf') ->
  exists p3, p2 <= p3 /\ View r3 all p3 /\ tinv st' nf' p3.
Proof.
  intros Hb V2 Hh Hinv E.
  assert (Hsp : sp < p2) by (destruct Hh as (k1 & k2 & ? & ? & -> & _); lia).
  assert (H3 : 3 <= nf) by (destruct Hinv as (? & _); assumption).
  (* an element whose field has been passed *)
  assert (Hpast : forall k, k < nf /\ r3 = r2 /\ (exists d, st' = iter_skip int_skip sp r2 nf d st /\ nf' = nf + d /\ (nf <= 15 -> nf' = 16)) ->
                   exists p3, p2 <= p3 /\ View r3 all p3 /\ tinv st' nf' p3).
  { intros k (_ & -> & d & -> & -> & Hd). exists p2. split; [lia|]. split; [exact V2|]. apply tinv_past; auto; lia. }
  (* a handler that stores a field other than the signature *)
  assert (Hstore : forall k X, (forall i s, i <> k -> int_handle typ l i sp s r2 = HNot) -> (forall s, int_handle typ l k sp s r2 = HDone (X s)) ->
                   2 <= k <= 12 -> k <> 9 -> keeps X p2 -> exists p3, p2 <= p3 /\ View r3 all p3 /\ tinv st' nf' p3).
  { intros k X Hnot Hdone Hk Hk9 Hkeep.
    destruct (int_inner_known typ l sp r2 k X Hnot Hdone ltac:(lia) nf st st' r3 nf' E) as [(Hle & EX & ->)|Hp]; [|eapply Hpast; eauto].
    destruct (Hkeep _ _ _ EX) as (Esv & Ectx & Eh & p3 & Hp3 & V3). exists p3. split; [exact Hp3|]. split; [exact V3|].
    eapply (tinv_store nf k sp r2 st st' p2 p3); eauto; lia. }
  destruct (typ =? 7)%N eqn:T7; [apply N.eqb_eq in T7; subst typ|].
  { destruct (int_inner_known 7 l sp r2 2 (fun s => let i := is_val s in let cx := is_ctx s in
        do (n, sn, ce, r') <- parse_name_body l r2;
        let cov := range_or_nil r' sn ce in
        Ok (mkIst (mkInt (Some n) (i_cbp i) (i_mbf i) (i_fh i) (i_nonce i) (i_life i) (i_hop i) (i_app i) (i_si i) (i_sv i))
                  (mkIctx (ix_cov cx ++ cov) (ix_dcov cx) (ix_start cx) (ix_dstart cx) (ix_dend cx)) (is_h9 s) (is_h10 s) (is_h14 s), r'))
        ltac:(hnot 2) ltac:(hdone) ltac:(lia) nf st st' r3 nf' E) as [(Hle & _)|Hp]; [lia|eapply Hpast; eauto]. }
  destruct (typ =? 33)%N eqn:T33; [apply N.eqb_eq in T33; subst typ|].
  { apply (Hstore 3 (fun s => let i := is_val s in Ok (set_i s (mkInt (i_name i) true (i_mbf i) (i_fh i) (i_nonce i) (i_life i) (i_hop i) (i_app i) (i_si i) (i_sv i)), r2)));
      [hnot 3|hdone|lia|lia|].
    intros s s' r' EX. cbv zeta in EX. inversion EX; subst. cbn. repeat split; auto. exists p2. split; [lia|exact V2]. }
  destruct (typ =? 18)%N eqn:T18; [apply N.eqb_eq in T18; subst typ|].
  { apply (Hstore 4 (fun s => let i := is_val s in Ok (set_i s (mkInt (i_name i) (i_cbp i) true (i_fh i) (i_nonce i) (i_life i) (i_hop i) (i_app i) (i_si i) (i_sv i)), r2)));
      [hnot 4|hdone|lia|lia|].
    intros s s' r' EX. cbv zeta in EX. inversion EX; subst. cbn. repeat split; auto. exists p2. split; [lia|exact V2]. }
  destruct (typ =? 30)%N eqn:T30; [apply N.eqb_eq in T30; subst typ|].
  { apply (Hstore 5 (fun s => let i := is_val s in do (sub, r') <- delegate r2 (to_int l); do ns <- parse_links sub;
        Ok (set_i s (mkInt (i_name i) (i_cbp i) (i_mbf i) (Some ns) (i_nonce i) (i_life i) (i_hop i) (i_app i) (i_si i) (i_sv i)), r')));
      [hnot 5|hdone|lia|lia|].
    intros s s' r' EX. cbv zeta in EX. destruct (delegate r2 (to_int l)) as [[sub r1]| |] eqn:Ed; cbn [bind] in EX; try discriminate.
    destruct (parse_links sub) as [ns| |]; cbn [bind] in EX; try discriminate. inversion EX; subst. cbn. repeat split; auto.
    destruct (delegate_view _ _ _ _ _ _ V2 Ed) as (p3 & ? & V3). eauto. }
  destruct (typ =? 10)%N eqn:T10; [apply N.eqb_eq in T10; subst typ|].
  { apply (Hstore 6 (fun s => let i := is_val s in do (x, r') <- read_uint 4294967296 r2 l;
        Ok (set_i s (mkInt (i_name i) (i_cbp i) (i_mbf i) (i_fh i) (Some x) (i_life i) (i_hop i) (i_app i) (i_si i) (i_sv i)), r')));
      [hnot 6|hdone|lia|lia|].
    intros s s' r' EX. cbv zeta in EX. destruct (read_uint 4294967296 r2 l) as [[x r1]| |] eqn:Ed; cbn [bind] in EX; try discriminate.
    inversion EX; subst. cbn. repeat split; auto. eapply read_uint_view; eauto. }
  destruct (typ =? 12)%N eqn:T12; [apply N.eqb_eq in T12; subst typ|].
  { apply (Hstore 7 (fun s => let i := is_val s in do (x, r') <- read_uint two64 r2 l;
        Ok (set_i s (mkInt (i_name i) (i_cbp i) (i_mbf i) (i_fh i) (i_nonce i) (Some (dur_of_ms x)) (i_hop i) (i_app i) (i_si i) (i_sv i)), r')));
      [hnot 7|hdone|lia|lia|].
    intros s s' r' EX. cbv zeta in EX. destruct (read_uint two64 r2 l) as [[x r1]| |] eqn:Ed; cbn [bind] in EX; try discriminate.
    inversion EX; subst. cbn. repeat split; auto. eapply read_uint_view; eauto. }
  destruct (typ =? 34)%N eqn:T34; [apply N.eqb_eq in T34; subst typ|].
  { apply (Hstore 8 (fun s => let i := is_val s in do r' <- rd_skip r2 1;
        let p := Z.of_nat (rd_pos r') in
        match rd_range r' (p - 1) p with
        | Some ((x :: _) :: _) => Ok (set_i s (mkInt (i_name i) (i_cbp i) (i_mbf i) (i_fh i) (i_nonce i) (i_life i) (Some x) (i_app i) (i_si i) (i_sv i)), r')
        | _ => Panic
        end));
      [hnot 8|hdone|lia|lia|].
    intros s s' r' EX. cbv zeta in EX. destruct (rd_skip r2 1) as [r1| |] eqn:Ed; cbn [bind] in EX; try discriminate.
    destruct (rd_range r1 _ _) as [[|[|x t] cs]|]; try discriminate. inversion EX; subst. cbn. repeat split; auto.
    destruct (skip_inv _ _ _ _ _ V2 Ed) as (_ & _ & V3). eexists. split; [|exact V3]. lia. }
  destruct (typ =? 36)%N eqn:T36; [apply N.eqb_eq in T36; subst typ|].
  { apply (Hstore 11 (fun s => let i := is_val s in do (w, r') <- read_wire r2 (to_int l);
        Ok (set_i s (mkInt (i_name i) (i_cbp i) (i_mbf i) (i_fh i) (i_nonce i) (i_life i) (i_hop i) (Some w) (i_si i) (i_sv i)), r')));
      [hnot 11|hdone|lia|lia|].
    intros s s' r' EX. cbv zeta in EX. destruct (read_wire r2 (to_int l)) as [[w r1]| |] eqn:Ed; cbn [bind] in EX; try discriminate.
    inversion EX; subst. cbn. repeat split; auto. destruct (read_wire_inv _ _ _ _ _ _ V2 Ed) as (_ & _ & _ & V3). eexists. split; [|exact V3]. lia. }
  destruct (typ =? 44)%N eqn:T44; [apply N.eqb_eq in T44; subst typ|].
  { apply (Hstore 12 (fun s => let i := is_val s in do (sub, r') <- delegate r2 (to_int l); do si <- parse_si sub;
        Ok (set_i s (mkInt (i_name i) (i_cbp i) (i_mbf i) (i_fh i) (i_nonce i) (i_life i) (i_hop i) (i_app i) (Some si) (i_sv i)), r')));
      [hnot 12|hdone|lia|lia|].
    intros s s' r' EX. cbv zeta in EX. destruct (delegate r2 (to_int l)) as [[sub r1]| |] eqn:Ed; cbn [bind] in EX; try discriminate.
    destruct (parse_si sub) as [si| |]; cbn [bind] in EX; try discriminate. inversion EX; subst. cbn. repeat split; auto.
    destruct (delegate_view _ _ _ _ _ _ V2 Ed) as (p3 & ? & V3). eauto. }
  destruct (typ =? 46)%N eqn:T46; [apply N.eqb_eq in T46; subst typ|].
  { (* SignatureValue *)
    destruct (int_inner_known 46 l sp r2 13 (fun s => let i := is_val s in let cx := is_ctx s in
        do (w, r') <- read_wire r2 (to_int l);
        let cov := range_or_nil r' (Z.of_nat (ix_start cx)) (Z.of_nat sp) in
        Ok (mkIst (mkInt (i_name i) (i_cbp i) (i_mbf i) (i_fh i) (i_nonce i) (i_life i) (i_hop i) (i_app i) (i_si i) (Some w))
                  (mkIctx (ix_cov cx ++ cov) (ix_dcov cx) (ix_start cx) (ix_dstart cx) (ix_dend cx)) (is_h9 s) (is_h10 s) (is_h14 s), r'))
        ltac:(hnot 13) ltac:(hdone) ltac:(lia) nf st st' r3 nf' E) as [(Hle & EX & ->)|Hp]; [|eapply Hpast; eauto].
    destruct (pre_skip_tinv nf 13 sp r2 st Hinv Hb Hle) as (Pv & Pc & _ & Ph10 & _). destruct (Ph10 ltac:(lia)) as [Ph Ps].
    set (st0 := iter_skip int_skip sp r2 nf (13 - nf) st) in *. clearbody st0.
    cbv zeta in EX. destruct (read_wire r2 (to_int l)) as [[w r1]| |] eqn:Ed; cbn [bind] in EX; try discriminate. inversion EX; subst st' r3. clear EX.
    destruct (read_wire_inv _ _ _ _ _ _ V2 Ed) as (Hl0 & Hlr & Hw & V3). eexists. split; [|split; [exact V3|]]; [lia|].
    destruct Hinv as (H0 & H1 & H2 & H3' & H4 & H5).
    assert (Hnone : i_sv (is_val st) = None).
    { destruct (i_sv (is_val st)) eqn:Esv; [|reflexivity]. assert (14 <= nf) by (apply H3'; discriminate). lia. }
    set (a := ix_start (is_ctx st0)) in *.
    assert (Hsple : sp <= length all) by (destruct Hh as (k1 & k2 & ? & ? & ? & ? & _); lia).
    destruct (range_ok _ _ _ a sp V3 ltac:(lia) Hsple) as (ws & Er & Hc).
    unfold range_or_nil. rewrite Er.
    unfold tinv, isv_ok. cbn [is_val is_ctx is_h9 i_sv ix_cov ix_start].
    split; [lia|]. split; [intros; lia|]. split; [intros _; split; [exact Ph|lia]|]. split; [intros _; lia|]. split; [discriminate|].
    intros w0 Hw0. inversion Hw0; subst w0. exists sp, l, p2. split; [lia|]. split; [exact Hh|]. split; [exact Hl0|]. split; [exact Hlr|].
    split; [exact Hw|]. rewrite concat_app, Pc, (H4 Hnone), Hc. reflexivity. }
  (* unrecognised type *)
  assert (Hh' : forall i s, int_handle typ l i sp s r2 = HUnk (default_field typ l s r2)).
  { intros i s. unfold int_handle. rewrite T7, T33, T18, T30, T10, T12, T34, T36, T44, T46. reflexivity. }
  change 17 with (Datatypes.S 16) in E. cbn [ord_inner] in E.
  destruct (15 <? nf) eqn:Enf.
  { inversion E; subst. apply Nat.ltb_lt in Enf. exists p2. split; [lia|]. split; [exact V2|]. eapply tinv_mono; eauto; lia. }
  rewrite Hh' in E. unfold default_field in E. destruct (is_critical typ) eqn:Ecr; [discriminate|].
  destruct (rd_skip r2 (to_int l)) as [r'| |] eqn:Es; cbn [bind] in E; try discriminate. inversion E; subst st' r3 nf'.
  destruct (skip_inv _ _ _ _ _ V2 Es) as (_ & _ & V3). eexists. split; [|split; [exact V3|]]; [lia|].
  eapply tinv_mono; eauto; lia.
Qed.

Lemma int_tail_loop fuel : forall nf st r p st' r' nf', View r all p -> p0 <= p -> tinv st nf p ->
  ord_loop 15 int_handle int_skip fuel nf st r = Ok (st', r', nf') -> exists p', tinv st' nf' p'.
Proof.
  induction fuel as [|f IH]; intros nf st r p st' r' nf' V Hb Hinv E; [discriminate|].
  cbn [ord_loop] in E. destruct (rd_len r <=? rd_pos r); [inversion E; subst; eauto|].
  destruct (read_tlnum r) as [[typ r1]| |] eqn:E1; cbn [bind] in E; try discriminate.
  destruct (read_tlnum r1) as [[l r2]| |] eqn:E2; cbn [bind] in E; try discriminate.
  change (15 + 2) with 17 in E.
  destruct (ord_inner 15 int_handle int_skip 17 nf typ l (rd_pos r) st r2) as [[[st1 r3] nf1]| |] eqn:E3; cbn [bind] in E; try discriminate.
  pose proof V as (_ & _ & Hp). rewrite Hp in E3.
  destruct (read_tlnum_inv _ _ _ _ _ V E1) as (k1 & Hk1 & Hl1 & Hd1 & V1).
  destruct (read_tlnum_inv _ _ _ _ _ V1 E2) as (k2 & Hk2 & Hl2 & Hd2 & V2).
  assert (Hh : hdr_at all p typ l (p + k1 + k2)) by (exists k1, k2; repeat split; auto).
  destruct (int_tail_inner _ _ _ _ _ _ _ _ _ _ Hb V2 Hh Hinv E3) as (p3 & Hp3 & V3 & Hinv3).
  eapply IH; [exact V3|lia|exact Hinv3|exact E].
Qed.
End IntTail.

(* ---------------------------------------------------------------- a signature element with one flipped bit *)
(* S = T :: L ++ sv read back as (T, |sv|, sv) from S with one bit flipped, without growing: impossible *)
Lemma sigel_tamper (T : N) (sv pre2 post : bytes) x x' k1 k2 :
  let n := N.of_nat (length sv) in
  (n < two64)%N -> (forall y, one_bit T y -> (y <= 252)%N /\ y <> T) -> (T <= 252)%N ->
  T :: tl_enc n ++ sv = pre2 ++ x :: post -> one_bit x x' ->
  1 <= k1 -> 1 <= k2 -> k1 + k2 <= 1 + length (tl_enc n) ->
  tl_dec (pre2 ++ x' :: post) = Some (T, skipn k1 (pre2 ++ x' :: post)) ->
  tl_dec (skipn k1 (pre2 ++ x' :: post)) = Some (n, skipn (k1 + k2) (pre2 ++ x' :: post)) ->
  sv = firstn (length sv) (skipn (k1 + k2) (pre2 ++ x' :: post)) -> False.
Proof.
  intros n Hn Hflips HT HS Hbit Hk1 Hk2 Hkk Hd1 Hd2 Hsv.
  pose proof (one_bit_neq _ _ Hbit) as Hne.
  assert (Hlen2 : length (pre2 ++ x' :: post) = 1 + length (tl_enc n) + length sv).
  { transitivity (length (pre2 ++ x :: post)); [rewrite !app_length; reflexivity|]. unfold bytes, byte in *. rewrite <- HS. cbn [length]. rewrite app_length. lia. }
  destruct pre2 as [|y pre3].
  - cbn [app] in HS. inversion HS; subst x. destruct (Hflips _ Hbit) as (Hx & HxT).
    cbn [app tl_dec] in Hd1. replace (x' <=? 252)%N with true in Hd1 by lia. inversion Hd1. congruence.
  - cbn [app] in HS. inversion HS as [[Hy HT']]. subst y.
    cbn [app tl_dec] in Hd1. replace (T <=? 252)%N with true in Hd1 by lia.
    assert (Hk1' : k1 = 1).
    { inversion Hd1 as [Hr]. apply (f_equal (@length N)) in Hr. rewrite skipn_length in Hr. cbn [app length] in Hlen2, Hr. nlia. }
    subst k1. cbn [app skipn] in Hd2, Hsv. change (1 + k2) with (Datatypes.S k2) in Hd2, Hsv. cbn [skipn] in Hd2, Hsv.
    destruct (app_split_mid (tl_enc n) sv pre3 post x HT') as [(post2 & HL' & Hpost2)|(pre4 & Hsv' & Hpre4)].
    + apply (len_tamper n pre3 x x' post2 sv k2); [exact Hn|exact HL'|exact Hbit| |lia].
      rewrite Hpost2 in Hd2. replace (pre3 ++ x' :: post2 ++ sv) with ((pre3 ++ x' :: post2) ++ sv) in Hd2 by (rewrite <- app_assoc; reflexivity).
      exact Hd2.
    + rewrite Hpre4 in Hd2, Hsv. rewrite <- app_assoc in Hd2, Hsv.
      rewrite tl_dec_enc in Hd2 by exact Hn. inversion Hd2 as [Hr].
      rewrite <- Hr in Hsv.
      assert (Hlen3 : length (pre4 ++ x' :: post) = length sv) by (rewrite Hsv', !app_length; reflexivity).
      rewrite <- Hlen3 in Hsv. rewrite firstn_all in Hsv. rewrite Hsv' in Hsv.
      apply app_inv_head in Hsv. inversion Hsv. congruence.
Qed.

Lemma flips_of_46 x' : one_bit 46 x' -> (x' <= 252)%N /\ x' <> 46%N.
Proof. intros (k & Hk & ->). bits8 k Hk; cbn; split; try lia; discriminate. Qed.

(* PacketParsingContext.Parse over ONE top-level element of type 5 with an arbitrary value *)
Lemma parse_packet_interest_any r (V0 : bytes) :
  View r (enc_elem (5%N, V0)) 0 -> (N.of_nat (length (enc_elem (5%N, V0))) < big)%N ->
  exists sub hid, View sub (hid ++ V0) (length hid) /\ (N.of_nat (length (hid ++ V0)) < big)%N /\
    parse_packet r = match parse_interest (mkIctx [] [] 0 0 0) sub with
                     | Ok (i, cx) => Ok (mkPst (Some i) None false cx (mkDctx [] 0))
                     | Err => Err | Panic => Panic end.
Proof.
  intros V Hb. unfold parse_packet, unord_parse.
  set (all := enc_elem (5%N, V0)) in *.
  assert (He : elem_wf (5%N, V0)).
  { split; [cbn; unfold two64; lia|]. cbn [snd]. unfold all in Hb. rewrite enc_elem_length in Hb. cbn [snd] in Hb. lia. }
  assert (Hs : skipn 0 all = enc_elem (5%N, V0) ++ []) by (rewrite app_nil_r; reflexivity).
  destruct (read_header _ _ _ _ _ V Hs He) as (r2 & Eh & V2 & H2 & Hlt). cbn [fst snd] in *.
  rewrite (view_remaining _ _ _ V). rewrite Nat.sub_0_r.
  destruct (length all) as [|k] eqn:El; [lia|]. cbn [unord_loop].
  rewrite (view_len _ _ _ V), El. pose proof V as (_ & _ & Hp). rewrite Hp. cbn [Nat.leb].
  destruct (read_tlnum r) as [[typ r1]| |] eqn:E1; cbn in Eh; try discriminate. cbn [bind].
  destruct (read_tlnum r1) as [[l r2']| |] eqn:E2; cbn in Eh; try discriminate.
  inversion Eh; subst typ l r2'. cbn [bind]. unfold pkt_handle at 1.
  change (5 =? 5)%N with true. cbv iota.
  assert (Hl : (N.of_nat (length V0) < big)%N) by (destruct He as [_ He]; exact He).
  rewrite to_int_len by exact Hl.
  assert (Hball : (N.of_nat (length all) < big)%N) by (rewrite El; exact Hb).
  destruct (delegate_sub _ _ _ _ _ V2 H2 Hball) as (sub & r3 & hid & E & Vs & Hbs & V3). rewrite E. cbn [bind].
  exists sub, hid. split; [exact Vs|]. split; [exact Hbs|]. cbn [ps_ictx].
  destruct (parse_interest (mkIctx [] [] 0 0 0) sub) as [[i cx]| |]; cbn [bind]; try reflexivity.
  cbn [ps_data ps_lp ps_dctx].
  assert (Hend : 0 + tl_len 5 + tl_len (N.of_nat (length V0)) + length V0 = length all).
  { unfold all. rewrite enc_elem_length. cbn [fst snd]. lia. }
  rewrite Hend in V3.
  destruct k as [|k'].
  { exfalso. pose proof (tl_len_pos 5%N). pose proof (tl_len_pos (N.of_nat (length V0))). lia. }
  cbn [unord_loop]. rewrite (view_len _ _ _ V3). destruct V3 as (Hw3 & Ha3 & Hp3). rewrite Hp3, El, Nat.leb_refl. reflexivity.
Qed.

(* ---------------------------------------------------------------- flips behind the optional fields: parameters, SignatureInfo, SignatureValue *)
(* The Interest value  PRE ++ T2 ++ S  with PRE = Name and optional fields (intact), T2 = ApplicationParameters and
   SignatureInfo elements, S = the SignatureValue element; one bit of T2 ++ S flipped. *)
Lemma int_tail_core n cbp mbf fh nonce life hop (T2 sv hid pre post : bytes) x x' sub i cx w :
  name_ok n -> head_wf fh nonce life ->
  let PRE := enc_elems (int_pre n cbp mbf fh nonce life hop) in
  let m := N.of_nat (length sv) in
  (m <= 252)%N ->
  T2 ++ 46%N :: tl_enc m ++ sv = pre ++ x :: post -> one_bit x x' ->
  View sub (hid ++ PRE ++ pre ++ x' :: post) (length hid) -> (N.of_nat (length (hid ++ PRE ++ pre ++ x' :: post)) < big)%N ->
  parse_interest (mkIctx [] [] 0 0 0) sub = Ok (i, cx) -> i_sv i = Some w ->
  concat (ix_cov cx) = firstn (doff n) (name_inner n) ++ T2 -> concat w = sv -> False.
Proof.
  intros Hn Hh PRE m Hm HV Hbit Vs Hbig Ep Hsv Hcov Hw.
  pose proof (one_bit_neq _ _ Hbit) as Hne.
  set (TL := pre ++ x' :: post) in *. set (all := hid ++ PRE ++ TL) in *. set (B := length hid) in *.
  set (C1 := firstn (doff n) (name_inner n)) in *. set (a0 := B + length PRE).
  assert (Htm : tl_enc m = [m]) by (unfold tl_enc; replace (m <=? 252)%N with true by lia; reflexivity).
  assert (HlenTL : length TL = length T2 + 2 + length sv).
  { unfold TL. transitivity (length (pre ++ x :: post)); [rewrite !app_length; reflexivity|]. unfold bytes, byte in *. rewrite <- HV.
    rewrite app_length. cbn [length]. rewrite app_length, Htm. cbn [length]. lia. }
  assert (Hall : length all = a0 + length TL) by (unfold all, a0, B; rewrite !app_length; lia).
  (* forward over the intact prefix *)
  unfold parse_interest, ord_parse in Ep.
  assert (Hwf : Forall elem_wf (int_elems n cbp mbf fh nonce life hop None None None)).
  { apply elems_wf; [apply int_elems_types|]. unfold all in Hbig. rewrite !app_length in Hbig.
    rewrite int_elems_split. cbn [int_tail_elems oel option_map app]. rewrite app_nil_r. fold PRE. lia. }
  destruct (int_hoare B [] n cbp mbf fh nonce life hop None None None Hn Hh) with
      (all := all) (p := B) (st := mkIst (mkInt None false false None None None None None None None) (mkIctx [] [] 0 0 0) false false false)
      (nf := 0) (r := sub) (fuel := Datatypes.S (rd_remaining sub)) (rest := TL)
    as (st1 & nf1 & r1 & f1 & E1 & V1 & Hf1 & HQ); auto.
  { split; [intros _; auto|exact I]. }
  { split; [reflexivity|]. unfold iholds. cbn. repeat split; auto. }
  { unfold all, B. rewrite skipn_app_ge by lia. rewrite Nat.sub_diag. cbn [skipn].
    rewrite int_elems_split. cbn [int_tail_elems oel option_map app]. rewrite app_nil_r. reflexivity. }
  { rewrite (view_remaining _ _ _ Vs). lia. }
  rewrite E1 in Ep.
  assert (Hpre : length (enc_elems (int_elems n cbp mbf fh nonce life hop None None None)) = length PRE).
  { rewrite int_elems_split. cbn [int_tail_elems oel option_map app]. rewrite app_nil_r. reflexivity. }
  rewrite Hpre in V1, HQ. fold a0 in V1, HQ.
  unfold int_post in HQ. unfold iholds, KH in HQ.
  cbn [q_name q_cbp q_mbf q_fh q_nonce q_life q_hop q_app q_si q_sv q_cov q_start q_dstart] in HQ.
  destruct HQ as (Hnf & _ & _ & _ & _ & _ & _ & _ & _ & _ & Hq10 & Hq11 & Hq12 & _ & _).
  cbn [app] in Hq11. fold C1 in Hq11.
  assert (Hsvn : i_sv (is_val st1) = None) by (destruct (i_sv (is_val st1)); [discriminate|reflexivity]).
  assert (Hinv : tinv all a0 C1 st1 nf1 a0).
  { unfold tinv, isv_ok. split; [lia|]. split; [intros _; exact Hq12|]. split; [intros; lia|]. split; [rewrite Hsvn; congruence|].
    split; [intros _; exact Hq11|]. intros w0 Hw0. rewrite Hsvn in Hw0. discriminate. }
  destruct (ord_loop 15 int_handle int_skip f1 nf1 st1 r1) as [[[st2 r2] nf2]| |] eqn:El; cbn [bind] in Ep; try discriminate.
  destruct (int_tail_loop all a0 C1 f1 _ _ _ _ _ _ _ V1 (le_n _) Hinv El) as (p' & (_ & _ & _ & _ & _ & Hsvok)).
  inversion Ep as [[Hi Hcx]]. clear Ep.
  assert (Hcov2 : ix_cov cx = ix_cov (is_ctx st2)).
  { rewrite <- Hcx. destruct (is_h9 st2), (is_h10 st2), (is_h14 st2); reflexivity. }
  rewrite <- Hi in Hsv. destruct (Hsvok w Hsv) as (b & l & c & Hab & Hh' & Hl0 & Hlr & Hwc & Hcc).
  destruct Hh' as (k1 & k2 & Hk1 & Hk2 & Hc & Hcl & Hd1 & Hd2).
  set (s := ix_start (is_ctx st2)) in *.
  rewrite Hcov2, Hcc in Hcov. apply app_inv_head in Hcov.
  assert (HL : Z.to_nat (to_int l) = length sv).
  { rewrite <- Hw, Hwc. rewrite firstn_length, skipn_length. nlia. }
  assert (HX2 : b - s = length T2).
  { rewrite <- Hcov. rewrite firstn_length, skipn_length. nlia. }
  assert (Hln : l = m).
  { unfold m. unfold to_int in *. destruct (l <? 9223372036854775808)%N eqn:El'; [nlia|]. exfalso.
    pose proof (N.mod_lt l two64 ltac:(unfold two64; lia)). unfold two64z, two64 in *. nlia. }
  subst l.
  assert (Hb : b = a0 + length T2) by nlia. assert (Hs : s = a0) by nlia. assert (Hkk : k1 = 1 /\ k2 = 1) by nlia. destruct Hkk; subst k1 k2.
  assert (Hska : skipn a0 all = TL).
  { unfold all, a0, B. rewrite app_assoc. rewrite skipn_app_ge by (rewrite app_length; lia). rewrite app_length, Nat.sub_diag. reflexivity. }
  rewrite HX2, Hs, Hska in Hcov.
  destruct (app_split_mid T2 (46%N :: tl_enc m ++ sv) pre post x HV) as [(post1 & HP & Hpost)|(pre2 & HS & Hpre2)].
  - (* the flip is in the parameters / SignatureInfo elements *)
    unfold TL in Hcov. rewrite Hpost in Hcov. rewrite HP in Hcov at 1.
    pose proof (firstn_mid_eq pre post1 (46%N :: tl_enc m ++ sv) x x') as Hm'.
    unfold bytes, byte in *. rewrite Hm' in Hcov. rewrite HP in Hcov. apply app_inv_head in Hcov. inversion Hcov. congruence.
  - (* the flip is in the SignatureValue element *)
    assert (Hskb : skipn b all = pre2 ++ x' :: post).
    { rewrite Hb. replace (a0 + length T2) with (length T2 + a0) by lia. rewrite <- skipn_skipn, Hska. unfold TL. rewrite Hpre2, <- app_assoc.
      rewrite skipn_app_ge by lia. rewrite Nat.sub_diag. reflexivity. }
    assert (Hsk1 : skipn (b + 1) all = skipn 1 (pre2 ++ x' :: post)) by (replace (b + 1) with (1 + b) by lia; rewrite <- skipn_skipn, Hskb; reflexivity).
    assert (Hsk2 : skipn c all = skipn (1 + 1) (pre2 ++ x' :: post)) by (rewrite Hc; replace (b + 1 + 1) with (1 + 1 + b) by lia; rewrite <- skipn_skipn, Hskb; reflexivity).
    rewrite Hskb, Hsk1 in Hd1. rewrite Hsk1, Hsk2 in Hd2. rewrite Hsk2, HL in Hwc. rewrite Hw in Hwc.
    eapply (sigel_tamper 46 sv pre2 post x x' 1 1); eauto; try lia.
    + fold m. unfold two64. lia.
    + intros y Hy. apply flips_of_46. exact Hy.
    + fold m. rewrite Htm. cbn [length]. lia.
Qed.

(* ---------------------------------------------------------------- the statement on packets built by MakeInterest *)
Section TamperInterest.
Variable sha256 : bytes -> bytes.
Hypothesis sha256_len : forall x, length (sha256 x) = 32%nat.
Variable sign : list bytes -> option bytes.

(* flips in the ApplicationParameters / SignatureInfo / SignatureValue elements of a signed Interest *)
Theorem tamper_tail_bit_interest_thm nm cfg a sg si est e sv :
  let pre := strip_digest nm in
  int_siginfo sg true = Ok (si, est) -> (0 < est)%N -> name_ok pre ->
  iconfig_ok cfg -> signer_ok sg -> signer_int_ok sg -> int_fits (pre ++ [mkc 2 zeros32]) cfg (Some a) si est ->
  make_interest sha256 sign nm cfg (Some a) sg = Ok e -> sign (e_cov e) = Some sv ->
  let W := concat (e_wire e) in
  let tail := enc_elems (int_tail_elems (Some (concat a)) si (Some sv)) in
  forall i, length W - length tail <= i / 8 < length W ->
  forall r, View r (flip_bit W i) 0 ->
  forall i' cov', read_interest sha256 r = ROk i' cov' ->
    ~ (concat cov' = concat (e_cov e) /\ io_sv (obs_int i') = Some sv).
Proof.
  intros pre Hsi Hest Hpre Hcfg Hsg Hsgi Hfit Hmk Hsign W tail i Hi r V i' cov' Er [Hcov Hsv].
  pose proof Hcfg as [Hfh Hlife].
  assert (Hhead : head_wf (ic_fh cfg) (option_map (fun x => (x mod 4294967296)%N) (ic_nonce cfg)) (ic_life cfg)).
  { split; [exact Hfh|]. split; [|exact Hlife]. destruct (ic_nonce cfg); cbn; [apply N.mod_lt; lia|exact I]. }
  pose proof (int_siginfo_est _ _ _ Hsi) as He252.
  (* the shape of the packet and of the covered bytes *)
  destruct (make_interest_params sha256 sha256_len sign nm cfg a sg si est Hsi) as (COV & HcovF & _ & Hnone & Hlong & Hok);
    [unfold int_fits in Hfit; unfold two64; fold pre; lia|].
  destruct (sign COV) as [sv0|] eqn:Es; [|rewrite (Hnone Hest eq_refl) in Hmk; discriminate].
  destruct (N.le_gt_cases (blen sv0) est) as [Hle|Hgt]; [|rewrite (Hlong sv0 Hest eq_refl) in Hmk by lia; discriminate].
  destruct (Hok (Some sv0)) as (W0 & E & HW); [intros; lia|intros _; eauto|].
  rewrite E in Hmk. inversion Hmk; subst e. cbn [e_wire e_cov e_final] in *. rewrite Es in Hsign. inversion Hsign; subst sv0. clear Hsign Hmk E.
  fold pre in HW, HcovF.
  set (h := sha256 (AH (Some a) ++ CB (Some a) ++ ST44 si ++ enc_elems (oel 46 (Some sv)))) in *.
  set (nmF := pre ++ [mkc 2 h]) in *.
  assert (HnF : name_ok nmF) by (unfold nmF, name_ok; apply Forall_app; split; [exact Hpre|constructor; [split; cbn [ctyp cval]; [unfold two64; lia|unfold h; rewrite sha256_len; lia]|constructor]]).
  assert (Hsize : (N.of_nat (length (enc_elem (5%N, IV nmF cfg (Some a) si (Some sv)))) < big)%N).
  { apply (IV_size sha256 sha256_len sign pre cfg a si est (Some sv) h (sha256_len _) Hfit). intros s0 Hs0. inversion Hs0; subst. split; assumption. }
  set (cbp := ic_cbp cfg) in *. set (mbf := ic_mbf cfg) in *. set (fh := ic_fh cfg) in *.
  set (nonce := option_map (fun x => (x mod 4294967296)%N) (ic_nonce cfg)) in *. set (life := ic_life cfg) in *.
  set (hop := option_map (fun x => (x mod 256)%N) (ic_hop cfg)) in *.
  set (PRE := enc_elems (int_pre nmF cbp mbf fh nonce life hop)).
  set (T2 := enc_elems (oel 36 (Some (concat a)) ++ oel 44 (option_map si_enc si))).
  set (m := N.of_nat (length sv)).
  assert (Hm : (m <= 252)%N) by (unfold m; fold (blen sv); lia).
  assert (Htail : tail = T2 ++ 46%N :: tl_enc m ++ sv).
  { unfold tail, int_tail_elems, T2. rewrite app_assoc, enc_elems_app. cbn [oel]. rewrite enc_elems_one'. unfold enc_elem. cbn [fst snd].
    change (tl_enc 46) with [46%N]. reflexivity. }
  assert (HIV : IV nmF cfg (Some a) si (Some sv) = PRE ++ tail).
  { unfold IV. fold cbp mbf fh nonce life hop. rewrite int_elems_split, enc_elems_app. reflexivity. }
  assert (HcovE : concat COV = firstn (doff nmF) (name_inner nmF) ++ T2).
  { rewrite (HcovF Hest). unfold nmF. rewrite doff_last, name_inner_snoc. rewrite firstn_app_le by lia. rewrite firstn_all. f_equal.
    unfold T2. rewrite enc_elems_app. change (Some (concat a)) with (option_map (@concat N) (Some a)). rewrite <- app_elems, ST44_elem, <- !app_assoc. reflexivity. }
  set (Vv := IV nmF cfg (Some a) si (Some sv)) in *.
  set (hd := 5%N :: tl_enc (N.of_nat (length Vv))).
  assert (HWv : W = hd ++ Vv) by (unfold W; rewrite HW; reflexivity).
  assert (HWh : W = hd ++ PRE ++ tail) by (rewrite HWv, HIV; reflexivity).
  assert (Hlen : length W = length hd + length PRE + length tail) by (rewrite HWh, !app_length; lia).
  (* split at the flipped octet *)
  unfold flip_bit in V.
  destruct (skipn_cons_ex W (i / 8) ltac:(lia)) as (x & t & Hsk). rewrite Hsk in V.
  set (x' := N.lxor x (2 ^ N.of_nat (i mod 8))) in *.
  assert (Hbit : one_bit x x').
  { exists (N.of_nat (i mod 8)). split; [|reflexivity]. pose proof (Nat.mod_upper_bound i 8 ltac:(lia)). lia. }
  set (j := i / 8 - (length hd + length PRE)).
  assert (Hfst : firstn (i / 8) W = hd ++ PRE ++ firstn j tail).
  { rewrite HWh. rewrite app_assoc. rewrite firstn_app_ge by (rewrite app_length; nlia). rewrite app_length. fold j. rewrite <- app_assoc. reflexivity. }
  assert (HTs : tail = firstn j tail ++ x :: t).
  { rewrite HWh in Hsk. rewrite app_assoc in Hsk. rewrite skipn_app_ge in Hsk by (rewrite app_length; nlia). rewrite app_length in Hsk. fold j in Hsk.
    rewrite <- Hsk. symmetry. apply firstn_skipn. }
  set (pr := firstn j tail) in *.
  set (V' := PRE ++ pr ++ x' :: t).
  assert (HlenV' : length V' = length Vv).
  { unfold V'. rewrite HIV. rewrite HTs at 1. rewrite !app_length. reflexivity. }
  assert (HW' : firstn (i / 8) W ++ x' :: t = enc_elem (5%N, V')).
  { rewrite Hfst. unfold enc_elem. cbn [fst snd]. rewrite HlenV'. unfold hd, V'. rewrite <- !app_assoc. reflexivity. }
  rewrite HW' in V.
  assert (Hb' : (N.of_nat (length (enc_elem (5%N, V'))) < big)%N).
  { rewrite !enc_elem_length in *. cbn [fst snd] in *. rewrite HlenV'. exact Hsize. }
  destruct (parse_packet_interest_any r V' V Hb') as (sub & hid & Vs & Hbs & Epp).
  unfold read_interest in Er. rewrite Epp in Er.
  destruct (parse_interest (mkIctx [] [] 0 0 0) sub) as [[i0 cx]| |] eqn:Epi; try discriminate.
  cbn [ps_lp ps_int ps_ictx] in Er. destruct (si_unm (i_si i0)); [discriminate|].
  destruct (check_interest sha256 i0 cx); [|discriminate]. inversion Er; subst i' cov'. clear Er.
  cbn [obs_int io_sv] in Hsv. destruct (i_sv i0) as [w|] eqn:Ew; [|discriminate]. cbn [option_map] in Hsv. inversion Hsv as [Hw].
  rewrite HcovE in Hcov.
  eapply (int_tail_core nmF cbp mbf fh nonce life hop T2 sv hid pr t x x' sub i0 cx w); eauto.
  fold m. rewrite <- Htail. exact HTs.
Qed.
End TamperInterest.
