(* Packet/Extract.v — extraction of the executable packet model and of the spec-side functions for the runner.
   ExtrOcamlBasic only: bool, option, unit, list, prod, sumbool, sumor -> OCaml natives; N/Z/positive/nat stay Coq datatypes. *)
From Coq Require Import Extraction ExtrOcamlBasic.
From Packet Require Import Model Spec.
Extraction Language OCaml.
Extraction "packet_model.ml"
  make_data make_interest read_data read_interest read_packet obs_data obs_int new_wire_reader
  walk_packet expected_data expected_int params_digest_region name_tlv comp_enc name_from_bytes comp_from_bytes
  sha256_validate hmac_validate
  N.add N.mul N.of_nat N.to_nat N.eqb N.ltb N.div N.modulo Z.of_N Z.opp.
