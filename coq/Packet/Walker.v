(* Packet/Walker.v — packet_tlv_exact: the independent structural walker (Model.walk_packet, written against tl_dec only)
   accepts everything MakeData / MakeInterest build: one top-level element, and every length field — outer packet, name,
   components, MetaInfo, FinalBlockId, SignatureInfo, KeyLocator, ValidityPeriod, forwarding hint — equals the size of what it
   encloses. *)
From Packet Require Import Model Spec ReadersProofs EncProofs DecGeneric DecProofs DecData DecInterest EncData EncInterest Roundtrip.
From Coq Require Import ZifyBool ZifyN ZifyNat.
Open Scope N_scope.

(* a byte string that is a sequence of elements with exact lengths, recursively where the format nests *)
Inductive wf_tlvs : N -> bytes -> Prop :=
| wt_nil ctx : wf_tlvs ctx []
| wt_cons ctx (e : elem) rest : fst e < two64 -> N.of_nat (length (snd e)) < two64 ->
    (forall c, nested ctx (fst e) = Some c -> wf_tlvs c (snd e)) -> wf_tlvs ctx rest -> wf_tlvs ctx (enc_elem e ++ rest).

Lemma bytes_prefix_app p r : bytes_prefix p (p ++ r) = true.
Proof. induction p as [|x p IH]; [reflexivity|]. cbn [app bytes_prefix]. rewrite N.eqb_refl. exact IH. Qed.
Lemma tl_dec_min_enc n r : n < two64 -> tl_dec_min (tl_enc n ++ r) = Some (n, r).
Proof. intros H. unfold tl_dec_min. rewrite tl_dec_enc by exact H. rewrite bytes_prefix_app. reflexivity. Qed.

Lemma walk_nonnil f ctx b : b <> [] ->
  walk (S f) ctx b =
  match tl_dec_min b with
  | None => false
  | Some (t, r1) =>
      match tl_dec_min r1 with
      | None => false
      | Some (l, r2) =>
          if N.of_nat (length r2) <? l then false
          else (match nested ctx t with Some c => walk f c (firstn (N.to_nat l) r2) | None => true end)
               && walk f ctx (skipn (N.to_nat l) r2)
      end
  end.
Proof. destruct b; [congruence|reflexivity]. Qed.

Lemma walk_complete ctx b : wf_tlvs ctx b -> forall fuel, (length b < fuel)%nat -> walk fuel ctx b = true.
Proof.
  induction 1 as [ctx|ctx e rest Ht Hl Hn IHn Hr IHr]; intros fuel Hf.
  - destruct fuel; [lia|]. reflexivity.
  - destruct fuel; [lia|].
    pose proof (enc_elem_ge2 e) as Hge.
    rewrite walk_nonnil.
    2:{ intros Eb. apply (f_equal (@length N)) in Eb. rewrite app_length in Eb. simpl in Eb. lia. }
    unfold enc_elem at 1. rewrite <- !app_assoc. rewrite tl_dec_min_enc by exact Ht. rewrite tl_dec_min_enc by exact Hl.
    rewrite !app_length. replace (N.of_nat (length (snd e) + length rest) <? N.of_nat (length (snd e))) with false by lia.
    rewrite Nat2N.id. rewrite firstn_app_le by lia. rewrite firstn_all. rewrite skipn_app_ge by lia. rewrite Nat.sub_diag. cbn [skipn].
    rewrite app_length, enc_elem_length in Hf.
    apply andb_true_iff. split.
    + destruct (nested ctx (fst e)) as [c|] eqn:En; [|reflexivity]. apply (IHn c eq_refl). pose proof (tl_len_pos (fst e)). lia.
    + apply IHr. pose proof (tl_len_pos (fst e)). lia.
Qed.

Lemma wf_tlvs_elems ctx es : Forall elem_wf es ->
  (forall e, In e es -> elem_wf e -> forall c, nested ctx (fst e) = Some c -> wf_tlvs c (snd e)) ->
  wf_tlvs ctx (enc_elems es).
Proof.
  induction 1 as [|e es He _ IH]; intros Hn; [constructor|]. rewrite enc_elems_cons. destruct He as [H1 H2]. constructor.
  - exact H1.
  - unfold two64. lia.
  - intros c Hc. apply (Hn e (or_introl eq_refl) (conj H1 H2) c Hc).
  - apply IH. intros e' Hin. apply Hn. right. exact Hin.
Qed.

Definition small (b : bytes) : Prop := (N.of_nat (length b) < big)%N.

(* names: components are opaque inside a name (nested 7 _ = None) *)
Lemma wf_name n : name_ok n -> wf_tlvs 7 (name_inner n).
Proof.
  induction 1 as [|c n [Ht Hl] _ IH]; [constructor|]. unfold name_inner in *. cbn [map concat].
  change (comp_enc c) with (enc_elem (ctyp c, cval c)). constructor; cbn [fst snd]; auto.
  - unfold two64; lia.
  - intros c0 H. discriminate.
Qed.

(* membership in the element lists built with oel / bel *)
Ltac in_cases H :=
  repeat match type of H with
  | In _ (_ ++ _) => apply in_app_or in H; destruct H as [H|H]
  | In _ (oel _ (Some _)) => cbn [oel] in H
  | In _ (oel _ None) => cbn [oel] in H
  | In _ (oel _ (option_map _ ?o)) => destruct o; cbn [oel option_map] in H
  | In _ (oel _ ?o) => destruct o; cbn [oel option_map] in H
  | In _ (bel ?c _) => destruct c; cbn [bel] in H
  | In _ (_ :: _) => destruct H as [H|H]
  | In _ [] => destruct H
  end.

Lemma wf_kl k : kl_wf k -> small (kl_enc k) -> wf_tlvs 28 (kl_enc k).
Proof.
  intros Hk Hs. unfold small in Hs. rewrite kl_enc_elems in *. apply wf_tlvs_elems.
  { apply elems_wf; [|exact Hs]. unfold kl_elems. apply Forall_app; split; apply oel_types; unfold two64; lia. }
  intros e Hin [_ Hl] c Hc. unfold kl_elems, kl_wf in *. in_cases Hin; subst e; cbn in Hc; try discriminate.
  inversion Hc; subst. apply wf_name. exact Hk.
Qed.

Lemma wf_vp v : small (vp_enc v) -> wf_tlvs 253 (vp_enc v).
Proof.
  intros Hs. unfold small in Hs. rewrite vp_enc_elems in *. apply wf_tlvs_elems.
  { apply elems_wf; [|exact Hs]. unfold vp_elems. repeat constructor. }
  intros e Hin _ c Hc. unfold vp_elems in Hin. in_cases Hin; subst e; cbn in Hc; discriminate.
Qed.

Lemma wf_si s : si_wf s -> small (si_enc s) -> wf_tlvs 22 (si_enc s).
Proof.
  intros (_ & Hk & _) Hs. unfold small in Hs. rewrite si_enc_elems in *. apply wf_tlvs_elems.
  { apply elems_wf; [|exact Hs]. unfold si_elems. repeat (apply Forall_app; split); try (apply oel_types; unfold two64; lia). repeat constructor. }
  intros e Hin [_ Hl] c Hc. unfold si_elems in Hin. in_cases Hin; subst e; cbn in Hc; try discriminate; inversion Hc; subst; cbn [snd] in *.
  - apply wf_kl; assumption.
  - apply wf_vp. exact Hl.
Qed.

Lemma wf_links ns : Forall name_ok ns -> small (links_enc ns) -> wf_tlvs 30 (links_enc ns).
Proof.
  intros Hns Hs. unfold small in Hs. rewrite links_enc_elems in *. apply wf_tlvs_elems.
  { apply elems_wf; [|exact Hs]. unfold links_elems. apply Forall_forall. intros e He. apply in_map_iff in He as (n & <- & _). cbn. unfold two64; lia. }
  intros e Hin _ c Hc. unfold links_elems in Hin. apply in_map_iff in Hin as (n & <- & Hn). cbn in Hc. inversion Hc; subst.
  apply wf_name. rewrite Forall_forall in Hns. apply Hns. exact Hn.
Qed.

(* MetaInfo as MakeData builds it: FinalBlockId holds one encoded component *)
Definition fbid_ok (cfg : dconfig) : Prop := match dc_fbid cfg with Some c => comp_ok c | None => True end.
Lemma wf_meta cfg : small (meta_enc (meta_of cfg)) -> fbid_ok cfg -> wf_tlvs 20 (meta_enc (meta_of cfg)).
Proof.
  intros Hs Hfb. unfold small in Hs. rewrite meta_enc_elems in *. apply wf_tlvs_elems.
  { apply elems_wf; [|exact Hs]. unfold meta_elems. repeat (apply Forall_app; split); apply oel_types; unfold two64; lia. }
  intros e Hin _ c Hc. unfold meta_elems, meta_of, fbid_ok in *. cbn [mi_ctype mi_fresh mi_fbid] in Hin.
  destruct (dc_fbid cfg) as [c0|]; cbn [mi_ctype mi_fresh mi_fbid option_map] in Hin; in_cases Hin; subst e; cbn in Hc; try discriminate.
  inversion Hc; subst. cbn [snd].
  replace (comp_enc c0) with (name_inner [c0]) by (unfold name_inner; cbn; apply app_nil_r).
  apply wf_name. repeat constructor; apply Hfb.
Qed.

Lemma single_tlv_elem (e : elem) : elem_wf e -> single_tlv (enc_elem e) = true.
Proof.
  intros [Ht Hl]. unfold single_tlv, enc_elem. rewrite tl_dec_min_enc by exact Ht.
  rewrite <- (app_nil_r (tl_enc (N.of_nat (length (snd e))) ++ snd e)), <- app_assoc. rewrite tl_dec_min_enc by (unfold two64; lia).
  rewrite app_nil_r. apply N.eqb_refl.
Qed.

Lemma walk_packet_elem (e : elem) : elem_wf e -> (forall c, nested 0 (fst e) = Some c -> wf_tlvs c (snd e)) ->
  walk_packet (enc_elem e) = true.
Proof.
  intros He Hn. unfold walk_packet. rewrite single_tlv_elem by exact He. cbn [andb].
  apply walk_complete; [|lia]. rewrite <- (app_nil_r (enc_elem e)). destruct He as [H1 H2].
  constructor; [exact H1|unfold two64; lia|exact Hn|constructor].
Qed.

Lemma wf_data_value nm cfg content si sv :
  name_ok nm -> fbid_ok cfg -> opt_si_wf si -> small (V_of nm (meta_of cfg) content si sv) ->
  wf_tlvs 6 (V_of nm (meta_of cfg) content si sv).
Proof.
  intros Hn Hfb Hsi Hs. unfold V_of, small in *. apply wf_tlvs_elems.
  { apply elems_wf; [apply data_elems_types|exact Hs]. }
  intros e Hin [_ Hl] c Hc. unfold data_elems in Hin. in_cases Hin; subst e; cbn in Hc; try discriminate; inversion Hc; subst; cbn [snd] in *.
  - apply wf_name. exact Hn.
  - apply wf_meta; assumption.
  - apply wf_si; assumption.
Qed.

Theorem packet_tlv_exact_data_thm sign nm cfg content sg si est e :
  data_siginfo sg = Ok (si, est) -> name_ok nm -> meta_wf (meta_of cfg) -> fbid_ok cfg -> signer_ok sg -> data_fits nm cfg content si est ->
  make_data sign nm cfg content sg = Ok e -> walk_packet (concat (e_wire e)) = true.
Proof.
  intros Hsi Hn Hm Hfb Hsg Hfit Hmk.
  destruct (data_roundtrip_thm sign nm cfg content sg si est e Hsi Hn Hm Hsg Hfit Hmk) as (sv & Hs0 & Hs1 & HW & Hr).
  (* the packet decodes, hence fits; reuse the size bound through a BufferReader view *)
  assert (Hsz : small (V_of nm (meta_of cfg) content si sv)).
  { unfold small, data_fits in *. destruct (N.eq_dec est 0) as [E0|E0].
    - rewrite (Hs0 E0). subst est. fold (blen (V_of nm (meta_of cfg) content si None)). rewrite V_len_unsigned. lia.
    - destruct (Hs1 ltac:(lia)) as (_ & s & -> & Hle). fold (blen (V_of nm (meta_of cfg) content si (Some s))).
      pose proof (V_len_le nm (meta_of cfg) content si est s ltac:(lia) Hle). lia. }
  rewrite HW. apply walk_packet_elem.
  - split; [cbn; unfold two64; lia|exact Hsz].
  - intros c Hc. cbn in Hc. inversion Hc; subst. cbn [snd].
    apply wf_data_value; try assumption. eapply data_siginfo_wf; eassumption.
Qed.

Lemma wf_int_value nmF cfg app si svo :
  name_ok nmF -> iconfig_ok cfg -> opt_si_wf si -> small (IV nmF cfg app si svo) -> wf_tlvs 5 (IV nmF cfg app si svo).
Proof.
  intros Hn [Hfh _] Hsi Hs. unfold IV, small in *. apply wf_tlvs_elems.
  { apply elems_wf; [apply int_elems_types|exact Hs]. }
  intros e Hin [_ Hl] c Hc. unfold int_elems, int_head_elems, int_tail_elems in Hin.
  in_cases Hin; subst e; cbn in Hc; try discriminate; inversion Hc; subst; cbn [snd] in *.
  - apply wf_name. exact Hn.
  - apply wf_links; assumption.
  - apply wf_si; assumption.
Qed.

Section InterestWalk.
Variable sha256 : bytes -> bytes.
Hypothesis sha256_len : forall x, length (sha256 x) = 32%nat.
Variable sign : list bytes -> option bytes.

Theorem packet_tlv_exact_interest_thm nm cfg app sg si est e :
  let need := match app with Some _ => true | None => false end in
  let pre := strip_digest nm in
  let nm1 := if need then pre ++ [mkc 2 zeros32] else pre in
  int_siginfo sg need = Ok (si, est) -> name_ok pre ->
  iconfig_ok cfg -> signer_ok sg -> signer_int_ok sg -> int_fits nm1 cfg app si est ->
  make_interest sha256 sign nm cfg app sg = Ok e -> walk_packet (concat (e_wire e)) = true.
Proof.
  intros need pre nm1 Hsi Hn Hcfg Hsg Hsgi Hfit Hmk.
  destruct (interest_roundtrip_thm sha256 sha256_len sign nm cfg app sg si est e Hsi Hn Hcfg Hsg Hsgi Hfit Hmk)
    as (svo & Hs0 & Hs1 & Hfin & HW & Hr).
  pose proof (int_siginfo_wf _ _ _ _ Hsi Hsg Hsgi) as Hsiwf.
  assert (HnF : name_ok (e_final e)).
  { rewrite Hfin. destruct app; subst need; cbn iota; [|exact Hn].
    apply Forall_app; split; [exact Hn|constructor; [split; cbn [ctyp cval]; [unfold two64; lia|rewrite sha256_len; lia]|constructor]]. }
  assert (Hsz : small (IV (e_final e) cfg app si svo)).
  { unfold small. rewrite Hfin. destruct app as [a|]; subst need nm1; cbn iota in *.
    - set (h := sha256 (enc_elems (int_tail_elems (option_map (@concat N) (Some a)) si svo))).
      pose proof (IV_size sha256 sha256_len sign pre cfg a si est svo h (sha256_len _) Hfit) as Hb.
      rewrite enc_elem_length in Hb. cbn [fst snd] in Hb.
      assert (Hsv : forall sv, svo = Some sv -> 0 < est /\ blen sv <= est).
      { intros sv ->. destruct (N.eq_dec est 0) as [E0|E0]; [specialize (Hs0 E0); discriminate|].
        destruct (Hs1 ltac:(lia)) as (_ & s & Es & Hle). inversion Es; subst. split; lia. }
      specialize (Hb Hsv). unfold pre in *. lia.
    - destruct (int_siginfo_unsigned _ _ _ Hsi) as [-> ->]. rewrite (Hs0 eq_refl).
      pose proof (IV_len_unsigned pre cfg None None pre eq_refl eq_refl) as Hl0. unfold blen in Hl0 at 1. unfold int_fits in Hfit. cbn [option_map] in *. unfold pre in *. lia. }
  rewrite HW. apply walk_packet_elem.
  - split; [cbn; unfold two64; lia|exact Hsz].
  - intros c Hc. cbn in Hc. inversion Hc; subst. cbn [snd]. apply wf_int_value; assumption.
Qed.
End InterestWalk.
