(* Packet/DecGeneric.v — the two generated parse loops run over a stream of well-formed TLV elements.
   An element is (type, value); its wire form is  T L V  with L = |V|.  If each element's handler maps state to state
   while consuming exactly the value (a `step` relation proved sound per model), the loop maps the initial state to the
   final one and stops at the end of the reader.  Stated over View, so valid for both reader kinds. *)
From Packet Require Import Model ReadersProofs.
From Coq Require Import ZifyBool ZifyN ZifyNat.
Open Scope nat_scope.
Arguments HDone {S}. Arguments HUnk {S}. Arguments HNot {S}.

Definition elem := (N * bytes)%type.
Definition enc_elem (e : elem) : bytes := tl_enc (fst e) ++ tl_enc (N.of_nat (length (snd e))) ++ snd e.
Definition enc_elems (es : list elem) : bytes := concat (map enc_elem es).
Definition elem_wf (e : elem) : Prop := (fst e < two64)%N /\ (N.of_nat (length (snd e)) < 9223372036854775808)%N.

Definition oel (t : N) (o : option bytes) : list elem := match o with Some v => [(t, v)] | None => [] end.
Lemma enc_elems_cons e es : enc_elems (e :: es) = enc_elem e ++ enc_elems es.
Proof. reflexivity. Qed.
Lemma enc_elems_app a b : enc_elems (a ++ b) = enc_elems a ++ enc_elems b.
Proof. unfold enc_elems. rewrite map_app, concat_app. reflexivity. Qed.
Lemma tl_len_pos n : 0 < tl_len n.
Proof. unfold tl_len. repeat match goal with |- context[if ?c then _ else _] => destruct c end; lia. Qed.
Lemma enc_elem_length e : length (enc_elem e) = tl_len (fst e) + tl_len (N.of_nat (length (snd e))) + length (snd e).
Proof. unfold enc_elem. rewrite !app_length, !tl_enc_length. lia. Qed.

Lemma enc_elems_one' e : enc_elems [e] = enc_elem e.
Proof. unfold enc_elems. simpl. apply app_nil_r. Qed.

Lemma enc_elem_pos p (e : elem) :
  p + tl_len (fst e) + tl_len (N.of_nat (length (snd e))) + length (snd e) = p + length (enc_elem e).
Proof. rewrite enc_elem_length. rewrite !Nat.add_assoc. reflexivity. Qed.
Lemma enc_elem_ge2 (e : elem) : 2 <= length (enc_elem e).
Proof. rewrite enc_elem_length. pose proof (tl_len_pos (fst e)). generalize (tl_len (N.of_nat (length (snd e)))) (tl_len_pos (N.of_nat (length (snd e)))). intros; lia. Qed.

(* reading the T and L of the element at the current position *)
Lemma read_header r all p (e : elem) rest : View r all p -> skipn p all = enc_elem e ++ rest -> elem_wf e ->
  exists r2, (do (typ, r1) <- read_tlnum r; do (l, r2) <- read_tlnum r1; Ok (typ, l, r2)) =
             Ok (fst e, N.of_nat (length (snd e)), r2) /\
             View r2 all (p + tl_len (fst e) + tl_len (N.of_nat (length (snd e)))) /\
             skipn (p + tl_len (fst e) + tl_len (N.of_nat (length (snd e)))) all = snd e ++ rest /\
             p < length all.
Proof.
  intros V H [Ht Hl]. unfold enc_elem in H. rewrite <- !app_assoc in H.
  destruct (read_tlnum_ok _ _ _ _ _ V H Ht) as (r1 & E1 & V1).
  pose proof (skipn_skipn_eq _ _ _ _ H) as H1. rewrite tl_enc_length in H1.
  destruct (read_tlnum_ok _ _ _ _ _ V1 H1) as (r2 & E2 & V2); [unfold two64; lia|].
  pose proof (skipn_skipn_eq _ _ _ _ H1) as H2. rewrite tl_enc_length in H2.
  exists r2. rewrite E1. cbn. rewrite E2. cbn. split; [reflexivity|]. split; [exact V2|]. split; [exact H2|].
  pose proof (tl_len_pos (fst e)). pose proof (view_le _ _ _ V1). lia.
Qed.

(* ---------------------------------------------------------------- unordered models *)
Section UnordChain.
  Context {S : Type}.
  Variable handle : N -> N -> S -> reader -> res (S * reader).
  Variable step : elem -> S -> S -> Prop.
  Hypothesis step_sound : forall e st st', step e st st' -> forall r all p rest, View r all p -> skipn p all = snd e ++ rest ->
    (N.of_nat (length all) < 9223372036854775808)%N ->
    exists r', handle (fst e) (N.of_nat (length (snd e))) st r = Ok (st', r') /\ View r' all (p + length (snd e)).

  Inductive uchain : list elem -> S -> S -> Prop :=
  | uc_nil st : uchain [] st st
  | uc_cons e es st st' st'' : step e st st' -> uchain es st' st'' -> uchain (e :: es) st st''.

  Lemma uchain_app a b st st' st'' : uchain a st st' -> uchain b st' st'' -> uchain (a ++ b) st st''.
  Proof. induction 1; simpl; auto. intros. econstructor; eauto. Qed.

  Lemma unord_loop_chain es : forall st st' r all p fuel, uchain es st st' -> View r all p -> skipn p all = enc_elems es ->
    Forall elem_wf es -> length all - p < fuel -> (N.of_nat (length all) < 9223372036854775808)%N ->
    exists r', unord_loop handle fuel st r = Ok (st', r') /\ View r' all (length all).
  Proof.
    induction es as [|e es IH]; intros st st' r all p fuel Hc V H Hwf Hf Hbig.
    - inversion Hc; subst. destruct fuel; [lia|]. cbn [unord_loop].
      assert (p = length all).
      { pose proof (view_le _ _ _ V). assert (E : length (skipn p all) = 0) by (rewrite H; reflexivity). rewrite skipn_length in E. lia. }
      subst p. rewrite (view_len _ _ _ V). destruct V as (Hw & Ha & Hp). rewrite Hp. rewrite Nat.leb_refl.
      exists r. split; [reflexivity|]. repeat split; assumption.
    - inversion Hc as [|? ? ? st1 ? Hs Hc']; subst. inversion Hwf as [|? ? He Hwf']; subst.
      rewrite enc_elems_cons in H.
      destruct (read_header _ _ _ _ _ V H He) as (r2 & Eh & V2 & H2 & Hlt).
      destruct fuel; [lia|]. cbn [unord_loop].
      rewrite (view_len _ _ _ V). destruct V as (Hw & Ha & Hp). rewrite Hp.
      replace (length all <=? p) with false by (symmetry; apply Nat.leb_gt; lia).
      destruct (read_tlnum r) as [[typ r1]| |] eqn:E1; cbn in Eh; try discriminate. cbn.
      destruct (read_tlnum r1) as [[l r2']| |] eqn:E2; cbn in Eh; try discriminate.
      inversion Eh; subst typ l r2'. cbn.
      destruct (step_sound _ _ _ Hs _ _ _ _ V2 H2 Hbig) as (r3 & Eh3 & V3). rewrite Eh3. cbn.
      pose proof (skipn_skipn_eq _ _ _ _ H2) as H3.
      pose proof (tl_len_pos (fst e)).
      eapply IH; eauto. pose proof (view_le _ _ _ V3). lia.
  Qed.

  Lemma unord_parse_chain es st st' r hid : uchain es st st' -> View r (hid ++ enc_elems es) (length hid) -> Forall elem_wf es ->
    (N.of_nat (length (hid ++ enc_elems es)) < 9223372036854775808)%N ->
    unord_parse handle st r = Ok st'.
  Proof.
    intros Hc V Hwf Hbig. unfold unord_parse.
    destruct (unord_loop_chain es st st' r _ _ (Datatypes.S (rd_remaining r)) Hc V) as (r' & E & _).
    - rewrite skipn_app_ge by lia. rewrite Nat.sub_diag. reflexivity.
    - exact Hwf.
    - rewrite (view_remaining _ _ _ V). lia.
    - exact Hbig.
    - rewrite E. reflexivity.
  Qed.
End UnordChain.

(* ---------------------------------------------------------------- ordered models *)
Section OrdChain.
  Context {S : Type}.
  Variable nfields : nat.
  Variable handle : N -> N -> nat -> nat -> S -> reader -> hres S.
  Variable skipf : nat -> nat -> S -> reader -> S.

  (* skipping fields nf, nf+1, ..., nf+d-1 *)
  Fixpoint iter_skip (sp : nat) (r : reader) (nf d : nat) (st : S) : S :=
    match d with O => st | Datatypes.S d' => iter_skip sp r (Datatypes.S nf) d' (skipf nf sp st r) end.

  Lemma ord_inner_known typ l sp k (X : S -> res (S * reader)) r :
    (forall i st, i <> k -> handle typ l i sp st r = HNot) ->
    (forall st, handle typ l k sp st r = HDone (X st)) ->
    forall d nf st fuel, nf + d = k -> k <= nfields -> d < fuel ->
      ord_inner nfields handle skipf fuel nf typ l sp st r =
      (do (st', r') <- X (iter_skip sp r nf d st); Ok (st', r', Datatypes.S k)).
  Proof.
    intros Hnot Hdone. induction d as [|d IH]; intros nf st fuel Hk Hle Hf.
    - destruct fuel; [lia|]. cbn [ord_inner iter_skip]. assert (nf = k) by lia. subst nf.
      replace (nfields <? k) with false by (symmetry; apply Nat.ltb_ge; lia). rewrite Hdone. reflexivity.
    - destruct fuel; [lia|]. cbn [ord_inner iter_skip].
      replace (nfields <? nf) with false by (symmetry; apply Nat.ltb_ge; lia).
      rewrite Hnot by lia. apply IH; lia.
  Qed.

  (* one step of the ordered model: element e arrives when the next expected field is nf; the result state and the
     next field index.  The relation receives the element's start position and the byte stream (handlers record
     positions and take ranges). *)
  Variable ostep : bytes -> nat -> elem -> (S * nat) -> (S * nat) -> Prop.
  Hypothesis ostep_sound : forall all sp e st nf st' nf', ostep all sp e (st, nf) (st', nf') ->
    forall r2 rest, let h := sp + tl_len (fst e) + tl_len (N.of_nat (length (snd e))) in
      View r2 all h -> skipn h all = snd e ++ rest -> (N.of_nat (length all) < 9223372036854775808)%N ->
      exists r3, ord_inner nfields handle skipf (nfields + 2) nf (fst e) (N.of_nat (length (snd e))) sp st r2 = Ok (st', r3, nf') /\
                 View r3 all (h + length (snd e)).

  Inductive ochain (all : bytes) : nat -> list elem -> (S * nat) -> (S * nat) -> Prop :=
  | oc_nil sp s : ochain all sp [] s s
  | oc_cons sp e es s s' s'' : ostep all sp e s s' -> ochain all (sp + length (enc_elem e)) es s' s'' -> ochain all sp (e :: es) s s''.

  Lemma ochain_app all a : forall b sp s s' s'', ochain all sp a s s' -> ochain all (sp + length (enc_elems a)) b s' s'' ->
    ochain all sp (a ++ b) s s''.
  Proof.
    induction a as [|e a IH]; intros b sp s s' s'' H1 H2.
    - inversion H1; subst. simpl in H2. rewrite Nat.add_0_r in H2. exact H2.
    - inversion H1; subst. simpl. econstructor; [eassumption|]. eapply IH; [eassumption|].
      rewrite enc_elems_cons, app_length in H2. rewrite <- Nat.add_assoc. exact H2.
  Qed.

  Lemma ord_loop_chain es : forall st nf st' nf' r all p fuel, ochain all p es (st, nf) (st', nf') -> View r all p ->
    skipn p all = enc_elems es -> Forall elem_wf es -> length all - p < fuel -> (N.of_nat (length all) < 9223372036854775808)%N ->
    exists r', ord_loop nfields handle skipf fuel nf st r = Ok (st', r', nf') /\ View r' all (length all).
  Proof.
    induction es as [|e es IH]; intros st nf st' nf' r all p fuel Hc V H Hwf Hf Hbig.
    - inversion Hc; subst. destruct fuel; [lia|]. cbn [ord_loop].
      assert (p = length all).
      { pose proof (view_le _ _ _ V). assert (E : length (skipn p all) = 0) by (rewrite H; reflexivity). rewrite skipn_length in E. lia. }
      subst p. rewrite (view_len _ _ _ V). destruct V as (Hw & Ha & Hp). rewrite Hp. rewrite Nat.leb_refl.
      exists r. split; [reflexivity|]. repeat split; assumption.
    - inversion Hc as [|? ? ? ? [st1 nf1] ? Hs Hc']; subst. inversion Hwf as [|? ? He Hwf']; subst.
      rewrite enc_elems_cons in H.
      destruct (read_header _ _ _ _ _ V H He) as (r2 & Eh & V2 & H2 & Hlt).
      destruct fuel; [lia|]. cbn [ord_loop].
      rewrite (view_len _ _ _ V). pose proof V as (Hw & Ha & Hp). rewrite Hp.
      replace (length all <=? p) with false by (symmetry; apply Nat.leb_gt; lia).
      destruct (read_tlnum r) as [[typ r1]| |] eqn:E1; cbn in Eh; try discriminate. cbn.
      destruct (read_tlnum r1) as [[l r2']| |] eqn:E2; cbn in Eh; try discriminate.
      inversion Eh; subst typ l r2'. cbn.
      destruct (ostep_sound _ _ _ _ _ _ _ Hs r2 _ V2 H2 Hbig) as (r3 & Eh3 & V3). rewrite Eh3. cbn.
      pose proof (skipn_skipn_eq _ _ _ _ H2) as H3.
      pose proof (tl_len_pos (fst e)).
      assert (Epos : p + tl_len (fst e) + tl_len (N.of_nat (length (snd e))) + length (snd e) = p + length (enc_elem e))
        by (rewrite enc_elem_length; lia).
      rewrite Epos in V3, H3.
      eapply IH; try eassumption. pose proof (view_le _ _ _ V3). lia.
  Qed.

  Lemma ord_parse_chain es st st' nf' r hid : ochain (hid ++ enc_elems es) (length hid) es (st, 0) (st', nf') ->
    View r (hid ++ enc_elems es) (length hid) -> Forall elem_wf es -> (N.of_nat (length (hid ++ enc_elems es)) < 9223372036854775808)%N ->
    exists r', ord_parse nfields handle skipf st r = Ok (st', r') /\ View r' (hid ++ enc_elems es) (length (hid ++ enc_elems es)).
  Proof.
    intros Hc V Hwf Hbig. unfold ord_parse.
    destruct (ord_loop_chain es st 0 st' nf' r _ _ (Datatypes.S (rd_remaining r)) Hc V) as (r' & E & V').
    - rewrite skipn_app_ge by lia. rewrite Nat.sub_diag. reflexivity.
    - exact Hwf.
    - rewrite (view_remaining _ _ _ V). lia.
    - exact Hbig.
    - rewrite E. cbn. eauto.
  Qed.
End OrdChain.

(* elements of a stream shorter than 2^63 are well formed as soon as their types are *)
Lemma elems_wf es : Forall (fun e : elem => (fst e < two64)%N) es -> (N.of_nat (length (enc_elems es)) < 9223372036854775808)%N ->
  Forall elem_wf es.
Proof.
  induction es as [|e es IH]; intros Ht Hl; [constructor|].
  inversion Ht; subst. rewrite enc_elems_cons, app_length, enc_elem_length in Hl.
  constructor; [split; [assumption|lia]|apply IH; [assumption|lia]].
Qed.

(* ---------------------------------------------------------------- ordered models, Hoare style
   (needed because ReadWire returns a reader-dependent list of chunks: states are only determined up to joining) *)
Section OrdHoare.
  Context {S : Type}.
  Variable nfields : nat.
  Variable handle : N -> N -> nat -> nat -> S -> reader -> hres S.
  Variable skipf : nat -> nat -> S -> reader -> S.
  Notation big := 9223372036854775808%N.
  (* assertions see the byte stream, the current position, the parser state and the next field index *)
  Definition assertion := bytes -> nat -> S * nat -> Prop.

  Definition hoare (P : assertion) (es : list elem) (Q : assertion) : Prop :=
    forall all p st nf r fuel rest, P all p (st, nf) -> View r all p -> skipn p all = enc_elems es ++ rest -> Forall elem_wf es ->
      length all - p < fuel -> (N.of_nat (length all) < big)%N ->
      exists st' nf' r' fuel', ord_loop nfields handle skipf fuel nf st r = ord_loop nfields handle skipf fuel' nf' st' r' /\
        View r' all (p + length (enc_elems es)) /\ length all - (p + length (enc_elems es)) < fuel' /\
        Q all (p + length (enc_elems es)) (st', nf').

  Lemma hoare_nil (P Q : assertion) : (forall all p s, P all p s -> Q all p s) -> hoare P [] Q.
  Proof.
    intros H all p st nf r fuel rest HP V Hs Hwf Hf Hb. exists st, nf, r, fuel. simpl. rewrite Nat.add_0_r. auto.
  Qed.

  Lemma hoare_app P Q R a b : hoare P a Q -> hoare Q b R -> hoare P (a ++ b) R.
  Proof.
    intros H1 H2 all p st nf r fuel rest HP V Hs Hwf Hf Hb.
    rewrite enc_elems_app, <- app_assoc in Hs. apply Forall_app in Hwf as [Hwa Hwb].
    destruct (H1 all p st nf r fuel _ HP V Hs Hwa Hf Hb) as (st1 & nf1 & r1 & f1 & E1 & V1 & Hf1 & HQ).
    pose proof (skipn_skipn_eq _ _ _ _ Hs) as Hs1.
    destruct (H2 all _ st1 nf1 r1 f1 rest HQ V1 Hs1 Hwb Hf1 Hb) as (st2 & nf2 & r2 & f2 & E2 & V2 & Hf2 & HR).
    exists st2, nf2, r2, f2. rewrite enc_elems_app, app_length, Nat.add_assoc. rewrite E1, E2. auto.
  Qed.

  Lemma hoare_elem (P Q : assertion) e :
    (forall all sp st nf r2 rest, P all sp (st, nf) ->
       let h := sp + tl_len (fst e) + tl_len (N.of_nat (length (snd e))) in
       View r2 all h -> skipn h all = snd e ++ rest -> (N.of_nat (length all) < big)%N -> elem_wf e ->
       exists st' nf' r3, ord_inner nfields handle skipf (nfields + 2) nf (fst e) (N.of_nat (length (snd e))) sp st r2 = Ok (st', r3, nf') /\
                          View r3 all (h + length (snd e)) /\ Q all (sp + length (enc_elem e)) (st', nf')) ->
    hoare P [e] Q.
  Proof.
    intros H all p st nf r fuel rest HP V Hs Hwf Hf Hb. inversion Hwf as [|? ? He _]; subst.
    rewrite enc_elems_one' in *.
    destruct (read_header _ _ _ _ _ V Hs He) as (r2 & Eh & V2 & H2 & Hlt).
    destruct (H all p st nf r2 rest HP V2 H2 Hb He) as (st' & nf' & r3 & E3 & V3 & HQ).
    destruct fuel; [lia|]. cbn [ord_loop].
    rewrite (view_len _ _ _ V). pose proof V as (Hw & Ha & Hp). rewrite Hp.
    replace (length all <=? p) with false by (symmetry; apply Nat.leb_gt; lia).
    destruct (read_tlnum r) as [[typ r1]| |] eqn:E1; cbn in Eh; try discriminate. cbn.
    destruct (read_tlnum r1) as [[l r2']| |] eqn:E2; cbn in Eh; try discriminate.
    inversion Eh; subst typ l r2'. cbn.
    rewrite enc_elem_pos in V3. exists st', nf', r3, fuel. unfold bytes in *. rewrite E3. cbn. split; [reflexivity|]. split; [exact V3|]. split; [|exact HQ].
    pose proof (enc_elem_ge2 e). generalize dependent (length (enc_elem e)). intros; lia.
  Qed.

  Lemma hoare_opt (P Q : assertion) t o : (o = None -> forall all p s, P all p s -> Q all p s) ->
    (forall v, o = Some v -> hoare P [(t, v)] Q) -> hoare P (oel t o) Q.
  Proof. intros H1 H2. destruct o; simpl; [apply H2; reflexivity|apply hoare_nil, H1; reflexivity]. Qed.

  Lemma hoare_weaken (P P' Q Q' : assertion) es : (forall all p s, P' all p s -> P all p s) -> (forall all p s, Q all p s -> Q' all p s) ->
    hoare P es Q -> hoare P' es Q'.
  Proof.
    intros HP HQ H all p st nf r fuel rest HP' V Hs Hwf Hf Hb.
    destruct (H all p st nf r fuel rest (HP _ _ _ HP') V Hs Hwf Hf Hb) as (st' & nf' & r' & f' & E & V' & Hf' & HQ0).
    exists st', nf', r', f'. auto.
  Qed.

  (* running a whole ordered parser over a delegated reader *)
  Lemma hoare_parse (P Q : assertion) es st r hid : hoare P es Q -> P (hid ++ enc_elems es) (length hid) (st, 0) ->
    View r (hid ++ enc_elems es) (length hid) -> Forall elem_wf es -> (N.of_nat (length (hid ++ enc_elems es)) < big)%N ->
    exists st' nf' r', ord_parse nfields handle skipf st r = Ok (st', r') /\
      View r' (hid ++ enc_elems es) (length (hid ++ enc_elems es)) /\ Q (hid ++ enc_elems es) (length (hid ++ enc_elems es)) (st', nf').
  Proof.
    intros H HP V Hwf Hb. unfold ord_parse.
    destruct (H _ _ st 0 r (Datatypes.S (rd_remaining r)) [] HP V) as (st' & nf' & r' & f' & E & V' & Hf' & HQ).
    - rewrite skipn_app_ge by lia. rewrite Nat.sub_diag, app_nil_r. reflexivity.
    - exact Hwf.
    - rewrite (view_remaining _ _ _ V). lia.
    - exact Hb.
    - rewrite <- app_length in V', HQ, Hf'. rewrite E.
      destruct f'; [lia|]. cbn [ord_loop]. rewrite (view_len _ _ _ V'). destruct V' as (Hw & Ha & Hp). rewrite Hp, Nat.leb_refl. cbn.
      exists st', nf', r'. split; [reflexivity|]. split; [repeat split; assumption|exact HQ].
  Qed.
End OrdHoare.

(* assertions pinned to a position *)
Definition at_pos {S} (x : nat) (A : @assertion S) : @assertion S := fun all p s => p = x /\ A all p s.
Lemma hoare_at {S} nfields handle skipf (P Q : @assertion S) es x :
  hoare nfields handle skipf P es Q -> hoare nfields handle skipf (at_pos x P) es (at_pos (x + length (enc_elems es)) Q).
Proof.
  intros H all p st nf r fuel rest [Hp HP] V Hs Hwf Hf Hb. subst p.
  destruct (H all x st nf r fuel rest HP V Hs Hwf Hf Hb) as (st' & nf' & r' & f' & E & V' & Hf' & HQ).
  exists st', nf', r', f'. split; [exact E|]. split; [exact V'|]. split; [exact Hf'|]. split; [reflexivity|exact HQ].
Qed.
