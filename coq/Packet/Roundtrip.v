(* Packet/Roundtrip.v — C03 for Data: whatever MakeData builds decodes, through either reader and under every
   segmentation, to the inputs it was built from; the covered bytes returned by the parser are those handed to the signer. *)
From Packet Require Import Model Spec ReadersProofs EncProofs DecGeneric DecProofs DecData EncData.
From Coq Require Import ZifyBool ZifyN ZifyNat.
Open Scope N_scope.
Arguments ROk {A}. Arguments RErr {A}. Arguments RPanic {A}. Arguments RUnmodelled {A}.

Notation big := 9223372036854775808%N.

(* admissible inputs: names and key names with components below 2^63 bytes and types below 2^64, natural numbers below
   2^64, durations that are whole non-negative milliseconds, and a total size that fits a Go int *)
Definition signer_ok (sg : option signer) : Prop :=
  match sig_active sg with Some s => match sg_key s with Some k => name_ok k | None => True end | None => True end.
Definition data_fits (nm : name) (cfg : dconfig) (content : option (list bytes)) (si : option siginfo) (est : N) : Prop :=
  data_len (mkData (Some nm) (Some (meta_of cfg)) content si None) est + 10 < big.

Lemma uint64_of_bound z : uint64_of z < two64.
Proof. unfold uint64_of, two64, two64z. pose proof (Z.mod_pos_bound z 18446744073709551616). lia. Qed.

Lemma data_siginfo_wf sg si est : data_siginfo sg = Ok (si, est) -> signer_ok sg -> opt_si_wf si.
Proof.
  unfold data_siginfo, signer_ok. destruct (sig_active sg) as [s|]; [|intros H _; inversion H; exact I].
  destruct (sg_nonce s), (sg_seq s), (sg_time s); try discriminate.
  destruct (sg_nb s), (sg_na s); try discriminate; intros H Hk; inversion H; subst; cbn;
    (repeat split; try apply uint64_of_bound; destruct (sg_key s); cbn; auto).
Qed.

Lemma V_len_le nm m content si est sv : 0 < est -> blen sv <= est ->
  blen (V_of nm m content si (Some sv)) <= data_len (mkData (Some nm) (Some m) content si None) est.
Proof.
  intros H0 H. rewrite data_len_ok. replace (0 <? est) with true by lia.
  rewrite V_unfold. cbn [oel]. rewrite enc_elems_one. unfold enc_elem. cbn [fst snd].
  rewrite !blen_app, <- !tlsz_enc. change (tlsz 23) with 1. fold (blen sv). unfold tlv_len. change (tlsz 23) with 1.
  pose proof (tlsz_mono _ _ H). lia.
Qed.
Lemma V_len_unsigned nm m content si :
  blen (V_of nm m content si None) = data_len (mkData (Some nm) (Some m) content si None) 0.
Proof.
  rewrite data_len_ok. change (0 <? 0) with false. cbv iota. rewrite V_unfold. cbn [oel].
  replace (enc_elems []) with (@nil N) by reflexivity. rewrite !blen_app. change (blen (@nil N)) with 0. lia.
Qed.

Lemma packet_size v : blen v + 10 < big -> (N.of_nat (length (enc_elem (6, v))) < big)%N.
Proof.
  intros H. rewrite enc_elem_length. cbn [fst snd]. fold (blen v).
  assert (tl_len 6 = 1%nat) by reflexivity. assert (tl_len (blen v) <= 9)%nat by (unfold tl_len; repeat match goal with |- context[if ?c then _ else _] => destruct c end; lia).
  unfold blen in *. lia.
Qed.

(* C03, Data *)
Theorem data_roundtrip_thm sign nm cfg content sg si est e :
  data_siginfo sg = Ok (si, est) -> name_ok nm -> meta_wf (meta_of cfg) -> signer_ok sg -> data_fits nm cfg content si est ->
  make_data sign nm cfg content sg = Ok e ->
  exists sv, (est = 0 -> sv = None) /\ (0 < est -> sign (e_cov e) = sv /\ exists s, sv = Some s /\ blen s <= est) /\
    concat (e_wire e) = enc_elem (6, V_of nm (meta_of cfg) content si sv) /\
    forall r, View r (concat (e_wire e)) 0 ->
      exists d cov, read_data r = ROk d cov /\ obs_data d = expected_data nm cfg content sg sv /\ concat cov = concat (e_cov e).
Proof.
  intros Hsi Hn Hm Hsg Hfit Hmk. pose proof (data_siginfo_wf _ _ _ Hsi Hsg) as Hsiwf.
  unfold data_fits in Hfit.
  assert (Hexp : forall sv, expected_data nm cfg content sg sv = mkDobs nm (Some (meta_of cfg)) (option_map (@concat N) content) si sv).
  { intros sv. unfold expected_data, data_si_of. rewrite Hsi. reflexivity. }
  destruct (N.eq_dec est 0) as [->|Hne].
  - destruct (make_data_unsigned sign nm cfg content sg si Hsi) as (W & E & HW); [unfold two64; lia|].
    rewrite E in Hmk. inversion Hmk; subst e. cbn [e_wire e_cov].
    exists None. split; [reflexivity|]. split; [lia|]. split; [exact HW|].
    intros r V. rewrite HW in V.
    destruct (read_data_ok r nm (meta_of cfg) (option_map (@concat N) content) si None V Hn Hm Hsiwf) as (d & cov & Er & Ho & Hc).
    { apply packet_size. fold (V_of nm (meta_of cfg) content si None). rewrite V_len_unsigned. lia. }
    exists d, cov. rewrite Hexp. auto.
  - assert (Hest : 0 < est) by lia.
    destruct (make_data_signed sign nm cfg content sg si est Hsi Hest) as (COV & Hcov & Hnone & Hlong & Hok); [unfold two64; lia|].
    destruct (sign COV) as [sv|] eqn:Es; [|rewrite Hnone in Hmk by reflexivity; discriminate].
    destruct (N.le_gt_cases (blen sv) est) as [Hle|Hgt]; [|rewrite (Hlong sv eq_refl) in Hmk by lia; discriminate].
    destruct (Hok sv eq_refl Hle) as (W & E & HW). rewrite E in Hmk. inversion Hmk; subst e. cbn [e_wire e_cov].
    exists (Some sv). split; [lia|]. split; [intros _; split; [exact Es|eauto]|]. split; [exact HW|].
    intros r V. rewrite HW in V.
    destruct (read_data_ok r nm (meta_of cfg) (option_map (@concat N) content) si (Some sv) V Hn Hm Hsiwf) as (d & cov & Er & Ho & Hc).
    { apply packet_size. fold (V_of nm (meta_of cfg) content si (Some sv)). pose proof (V_len_le nm (meta_of cfg) content si est sv Hest Hle). lia. }
    exists d, cov. rewrite Hexp. split; [exact Er|]. split; [exact Ho|]. rewrite Hc, Hcov. reflexivity.
Qed.

(* both readers, any segmentation (empty segments included) *)
Corollary data_any_reader sign nm cfg content sg si est e :
  data_siginfo sg = Ok (si, est) -> name_ok nm -> meta_wf (meta_of cfg) -> signer_ok sg -> data_fits nm cfg content si est ->
  make_data sign nm cfg content sg = Ok e ->
  exists sv, forall segs, concat segs = concat (e_wire e) ->
    exists d1 c1 d2 c2,
      read_data (BR (concat segs) 0) = ROk d1 c1 /\ read_data (new_wire_reader segs) = ROk d2 c2 /\
      obs_data d1 = expected_data nm cfg content sg sv /\ obs_data d2 = expected_data nm cfg content sg sv /\
      concat c1 = concat (e_cov e) /\ concat c2 = concat (e_cov e).
Proof.
  intros Hsi Hn Hm Hsg Hfit Hmk.
  destruct (data_roundtrip_thm sign nm cfg content sg si est e Hsi Hn Hm Hsg Hfit Hmk) as (sv & _ & _ & _ & Hr).
  exists sv. intros segs Hs.
  destruct (Hr (BR (concat segs) 0)) as (d1 & c1 & E1 & O1 & C1); [rewrite <- Hs; apply view_br; simpl; lia|].
  destruct (Hr (new_wire_reader segs)) as (d2 & c2 & E2 & O2 & C2); [rewrite <- Hs; apply view_wr_start|].
  exists d1, c1, d2, c2. auto 10.
Qed.
