(* Packet/Roundtrip.v — C03 for Data: whatever MakeData builds decodes, through either reader and under every
   segmentation, to the inputs it was built from; the covered bytes returned by the parser are those handed to the signer. *)
From Packet Require Import Model Spec ReadersProofs EncProofs DecGeneric DecProofs DecData EncData.
From Coq Require Import ZifyBool ZifyN ZifyNat.
Open Scope N_scope.
Arguments ROk {A}. Arguments RErr {A}. Arguments RPanic {A}. Arguments RUnmodelled {A}.

Notation big := 9223372036854775808%N.

(* admissible inputs: names and key names with components below 2^63 bytes and types below 2^64, natural numbers below
   2^64, durations that are whole non-negative milliseconds, and a total size that fits a Go int *)
Definition signer_ok (sg : option signer) : Prop :=
  match sig_active sg with Some s => match sg_key s with Some k => name_ok k | None => True end | None => True end.
Definition data_fits (nm : name) (cfg : dconfig) (content : option (list bytes)) (si : option siginfo) (est : N) : Prop :=
  data_len (mkData (Some nm) (Some (meta_of cfg)) content si None) est + 10 < big.

(* the domain of the duration fields: every whole number of milliseconds of either sign that fits int64 nanoseconds
   (0 ms, 2^32 ms, 9223372036854 ms, negative values) *)
Lemma dur_wf_whole_ms (ms : Z) : (-9223372036854 <= ms <= 9223372036854)%Z -> dur_wf (ms * 1000000).
Proof. intros H. unfold dur_wf, two63z. split; [apply Z.mod_mul; lia|lia]. Qed.

Lemma uint64_of_bound z : uint64_of z < two64.
Proof. unfold uint64_of, two64, two64z. pose proof (Z.mod_pos_bound z 18446744073709551616). lia. Qed.

Lemma data_siginfo_wf sg si est : data_siginfo sg = Ok (si, est) -> signer_ok sg -> opt_si_wf si.
Proof.
  unfold data_siginfo, signer_ok. destruct (sig_active sg) as [s|]; [|intros H _; inversion H; exact I].
  destruct (sg_nonce s), (sg_seq s), (sg_time s); try discriminate.
  destruct (sg_nb s), (sg_na s); try discriminate; intros H Hk; inversion H; subst; cbn;
    (repeat split; try apply uint64_of_bound; destruct (sg_key s); cbn; auto).
Qed.

Lemma V_len_le nm m content si est sv : 0 < est -> blen sv <= est ->
  blen (V_of nm m content si (Some sv)) <= data_len (mkData (Some nm) (Some m) content si None) est.
Proof.
  intros H0 H. rewrite data_len_ok. replace (0 <? est) with true by lia.
  rewrite V_unfold. cbn [oel]. rewrite enc_elems_one. unfold enc_elem. cbn [fst snd].
  rewrite !blen_app, <- !tlsz_enc. change (tlsz 23) with 1. fold (blen sv). unfold tlv_len. change (tlsz 23) with 1.
  pose proof (tlsz_mono _ _ H). lia.
Qed.
Lemma V_len_unsigned nm m content si :
  blen (V_of nm m content si None) = data_len (mkData (Some nm) (Some m) content si None) 0.
Proof.
  rewrite data_len_ok. change (0 <? 0) with false. cbv iota. rewrite V_unfold. cbn [oel].
  replace (enc_elems []) with (@nil N) by reflexivity. rewrite !blen_app. change (blen (@nil N)) with 0. lia.
Qed.

Lemma packet_size_t t v : t <= 252 -> blen v + 10 < big -> (N.of_nat (length (enc_elem (t, v))) < big)%N.
Proof.
  intros Ht H. rewrite enc_elem_length. cbn [fst snd]. fold (blen v).
  assert (tl_len t = 1%nat) by (unfold tl_len; replace (t <=? 252) with true by lia; reflexivity). assert (tl_len (blen v) <= 9)%nat by (unfold tl_len; repeat match goal with |- context[if ?c then _ else _] => destruct c end; lia).
  unfold blen in *. lia.
Qed.
Lemma packet_size v : blen v + 10 < big -> (N.of_nat (length (enc_elem (6, v))) < big)%N.
Proof. apply packet_size_t. lia. Qed.

(* C03, Data *)
Theorem data_roundtrip_thm sign nm cfg content sg si est e :
  data_siginfo sg = Ok (si, est) -> name_ok nm -> meta_wf (meta_of cfg) -> signer_ok sg -> data_fits nm cfg content si est ->
  make_data sign nm cfg content sg = Ok e ->
  exists sv, (est = 0 -> sv = None) /\ (0 < est -> sign (e_cov e) = sv /\ exists s, sv = Some s /\ blen s <= est) /\
    concat (e_wire e) = enc_elem (6, V_of nm (meta_of cfg) content si sv) /\
    forall r, View r (concat (e_wire e)) 0 ->
      exists d cov, read_data r = ROk d cov /\ obs_data d = expected_data nm cfg content sg sv /\ concat cov = concat (e_cov e).
Proof.
  intros Hsi Hn Hm Hsg Hfit Hmk. pose proof (data_siginfo_wf _ _ _ Hsi Hsg) as Hsiwf.
  unfold data_fits in Hfit.
  assert (Hexp : forall sv, expected_data nm cfg content sg sv = mkDobs nm (Some (meta_of cfg)) (option_map (@concat N) content) si sv).
  { intros sv. unfold expected_data, data_si_of. rewrite Hsi. reflexivity. }
  destruct (N.eq_dec est 0) as [->|Hne].
  - destruct (make_data_unsigned sign nm cfg content sg si Hsi) as (W & E & HW); [unfold two64; lia|].
    rewrite E in Hmk. inversion Hmk; subst e. cbn [e_wire e_cov].
    exists None. split; [reflexivity|]. split; [lia|]. split; [exact HW|].
    intros r V. rewrite HW in V.
    destruct (read_data_ok r nm (meta_of cfg) (option_map (@concat N) content) si None V Hn Hm Hsiwf) as (d & cov & Er & Ho & Hc).
    { apply packet_size. fold (V_of nm (meta_of cfg) content si None). rewrite V_len_unsigned. lia. }
    exists d, cov. rewrite Hexp. auto.
  - assert (Hest : 0 < est) by lia.
    destruct (make_data_signed sign nm cfg content sg si est Hsi Hest) as (COV & Hcov & Hnone & Hlong & Hok); [unfold two64; lia|].
    destruct (sign COV) as [sv|] eqn:Es; [|rewrite Hnone in Hmk by reflexivity; discriminate].
    destruct (N.le_gt_cases (blen sv) est) as [Hle|Hgt]; [|rewrite (Hlong sv eq_refl) in Hmk by lia; discriminate].
    destruct (Hok sv eq_refl Hle) as (W & E & HW). rewrite E in Hmk. inversion Hmk; subst e. cbn [e_wire e_cov].
    exists (Some sv). split; [lia|]. split; [intros _; split; [exact Es|eauto]|]. split; [exact HW|].
    intros r V. rewrite HW in V.
    destruct (read_data_ok r nm (meta_of cfg) (option_map (@concat N) content) si (Some sv) V Hn Hm Hsiwf) as (d & cov & Er & Ho & Hc).
    { apply packet_size. fold (V_of nm (meta_of cfg) content si (Some sv)). pose proof (V_len_le nm (meta_of cfg) content si est sv Hest Hle). lia. }
    exists d, cov. rewrite Hexp. split; [exact Er|]. split; [exact Ho|]. rewrite Hc, Hcov. reflexivity.
Qed.

(* both readers, any segmentation (empty segments included) *)
Corollary data_any_reader sign nm cfg content sg si est e :
  data_siginfo sg = Ok (si, est) -> name_ok nm -> meta_wf (meta_of cfg) -> signer_ok sg -> data_fits nm cfg content si est ->
  make_data sign nm cfg content sg = Ok e ->
  exists sv, forall segs, concat segs = concat (e_wire e) ->
    exists d1 c1 d2 c2,
      read_data (BR (concat segs) 0) = ROk d1 c1 /\ read_data (new_wire_reader segs) = ROk d2 c2 /\
      obs_data d1 = expected_data nm cfg content sg sv /\ obs_data d2 = expected_data nm cfg content sg sv /\
      concat c1 = concat (e_cov e) /\ concat c2 = concat (e_cov e).
Proof.
  intros Hsi Hn Hm Hsg Hfit Hmk.
  destruct (data_roundtrip_thm sign nm cfg content sg si est e Hsi Hn Hm Hsg Hfit Hmk) as (sv & _ & _ & _ & Hr).
  exists sv. intros segs Hs.
  destruct (Hr (BR (concat segs) 0)) as (d1 & c1 & E1 & O1 & C1); [rewrite <- Hs; apply view_br; simpl; lia|].
  destruct (Hr (new_wire_reader segs)) as (d2 & c2 & E2 & O2 & C2); [rewrite <- Hs; apply view_wr_start|].
  exists d1, c1, d2, c2. auto 10.
Qed.

(* ================================================================ Interest *)
From Packet Require Import DecInterest EncInterest.

Definition signer_int_ok (sg : option signer) : Prop :=
  match sig_active sg with
  | Some s => match sg_time s with Some ms => (- two63z <= ms * 1000000 < two63z)%Z | None => True end /\
              match sg_seq s with Some x => x < two64 | None => True end
  | None => True
  end.
Definition iconfig_ok (cfg : iconfig) : Prop :=
  match ic_fh cfg with Some ns => Forall name_ok ns | None => True end /\
  match ic_life cfg with Some d => dur_wf d | None => True end.
Definition int_fits nm1 cfg app si est : Prop := int_len (int_rec nm1 cfg app si) est + 10 < big.

Lemma int_siginfo_wf sg need si est : int_siginfo sg need = Ok (si, est) -> signer_ok sg -> signer_int_ok sg -> opt_si_wf si.
Proof.
  unfold int_siginfo, signer_ok, signer_int_ok. destruct (sig_active sg) as [s|]; [|intros H _ _; inversion H; exact I].
  destruct need; cbn [negb]; [|discriminate].
  destruct (sg_nb s), (sg_na s); try discriminate.
  intros H Hk [Ht Hq].
  assert (Htime : match option_map (fun ms : Z => wrap_int (ms * 1000000)) (sg_time s) with Some d => dur_wf d | None => True end).
  { destruct (sg_time s) as [ms|]; cbn; [|exact I]. unfold two63z in Ht.
    assert (Hw : wrap_int (ms * 1000000) = (ms * 1000000)%Z) by (unfold wrap_int, two63z, two64z; rewrite Z.mod_small by lia; lia).
    rewrite Hw. unfold dur_wf, two63z. split; [apply Z.mod_mul; lia|lia]. }
  destruct (sg_type s =? 0)%Z.
  - destruct (253 <=? sg_est s); [discriminate|]. inversion H; subst. unfold opt_si_wf, si_wf. cbn [si_type si_kl si_time si_seq si_unmodelled]. repeat split; auto using uint64_of_bound.
  - destruct (sg_key s) as [k|]; [|discriminate]. destruct (253 <=? sg_est s); [discriminate|]. inversion H; subst.
    unfold opt_si_wf, si_wf. cbn [si_type si_kl si_time si_seq si_unmodelled]. repeat split; auto using uint64_of_bound.
Qed.

Lemma IV_len_unsigned nmF cfg app si nm1 : name_len nmF = name_len nm1 -> blen (name_inner nmF) = blen (name_inner nm1) ->
  blen (IV nmF cfg app si None) = int_len (int_rec nm1 cfg app si) 0.
Proof.
  intros H1 H2. rewrite int_len_ok, IV_unfold. change (0 <? 0) with false. cbv iota. cbn [oel].
  replace (enc_elems []) with (@nil N) by reflexivity. rewrite !blen_app. change (blen (@nil N)) with 0.
  unfold name_tlv, tlv. rewrite !blen_app, H1, H2. lia.
Qed.

Section InterestRoundtrip.
Variable sha256 : bytes -> bytes.
Hypothesis sha256_len : forall x, length (sha256 x) = 32%nat.
Variable sign : list bytes -> option bytes.

Lemma digest_comp_ok (h : bytes) : length h = 32%nat -> comp_ok (mkc 2 h).
Proof. intros H. split; cbn [ctyp cval]; [unfold two64; lia|rewrite H; lia]. Qed.

(* the encoded Interest is not larger than Init's reservation *)
Lemma IV_size pre cfg a si est svo h :
  length h = 32%nat -> int_fits (pre ++ [mkc 2 zeros32]) cfg (Some a) si est ->
  (forall sv, svo = Some sv -> 0 < est /\ blen sv <= est) ->
  (N.of_nat (length (enc_elem (5, IV (pre ++ [mkc 2 h]) cfg (Some a) si svo))) < big)%N.
Proof.
  intros Hhl Hfit Hsv. unfold int_fits in Hfit. apply packet_size_t; [lia|].
  assert (Hn1 : name_len (pre ++ [mkc 2 h]) = name_len (pre ++ [mkc 2 zeros32])) by (apply name_len_digest; rewrite Hhl; reflexivity).
  assert (Hn2 : blen (name_inner (pre ++ [mkc 2 h])) = blen (name_inner (pre ++ [mkc 2 zeros32]))).
  { rewrite !name_inner_snoc, !blen_app, (comp_enc_digest h), (comp_enc_digest zeros32) by (exact Hhl || reflexivity).
    f_equal. unfold blen. rewrite !app_length. f_equal. f_equal. exact Hhl. }
  rewrite IV_unfold. rewrite int_len_ok in Hfit. unfold name_tlv, tlv in *. rewrite !blen_app in *. rewrite Hn1, Hn2.
  rewrite <- !tlsz_enc in *.
  destruct svo as [sv|]; cbn [oel].
  - destruct (Hsv sv eq_refl) as [Hpos Hle]. rewrite enc_elems_one. unfold enc_elem. cbn [fst snd]. rewrite !blen_app, <- !tlsz_enc. fold (blen sv).
    replace (0 <? est) with true in Hfit by lia. unfold tlv_len in Hfit. pose proof (tlsz_mono _ _ Hle). lia.
  - replace (enc_elems []) with (@nil N) by reflexivity. change (blen (@nil N)) with 0. destruct (0 <? est); lia.
Qed.

Theorem interest_roundtrip_thm nm cfg app sg si est e :
  let need := match app with Some _ => true | None => false end in
  let pre := strip_digest nm in
  let nm1 := if need then pre ++ [mkc 2 zeros32] else pre in
  int_siginfo sg need = Ok (si, est) -> name_ok pre ->
  iconfig_ok cfg -> signer_ok sg -> signer_int_ok sg -> int_fits nm1 cfg app si est ->
  make_interest sha256 sign nm cfg app sg = Ok e ->
  exists svo, (est = 0 -> svo = None) /\ (0 < est -> sign (e_cov e) = svo /\ exists s, svo = Some s /\ blen s <= est) /\
    e_final e = (if need then pre ++ [mkc 2 (sha256 (enc_elems (int_tail_elems (option_map (@concat N) app) si svo)))] else pre) /\
    concat (e_wire e) = enc_elem (5, IV (e_final e) cfg app si svo) /\
    forall r, View r (concat (e_wire e)) 0 ->
      exists i cov, read_interest sha256 r = ROk i cov /\ obs_int i = expected_int (e_final e) cfg app sg svo /\
                    (0 < est -> concat cov = concat (e_cov e)).
Proof.
  intros need pre nm1 Hsi Hpre [Hfh Hlife] Hsg Hsgi Hfit Hmk.
  assert (Hnod : app = None -> existsb is_digest_comp pre = false).
  { intros ->. exact (make_interest_digest_free sha256 sign nm cfg sg e Hmk). }
  pose proof (int_siginfo_wf _ _ _ _ Hsi Hsg Hsgi) as Hsiwf. unfold int_fits in Hfit.
  assert (Hhead : head_wf (ic_fh cfg) (option_map (fun x => x mod 4294967296) (ic_nonce cfg)) (ic_life cfg)).
  { split; [exact Hfh|]. split; [|exact Hlife]. destruct (ic_nonce cfg); cbn; [apply N.mod_lt; lia|exact I]. }
  destruct app as [a|]; subst nm1 need; cbn iota in *.
  - (* with parameters *)
    assert (Hexp : forall final svo, expected_int final cfg (Some a) sg svo =
              mkIobs final (ic_cbp cfg) (ic_mbf cfg) (ic_fh cfg) (option_map (fun x => x mod 4294967296) (ic_nonce cfg)) (ic_life cfg)
                     (option_map (fun x => x mod 256) (ic_hop cfg)) (Some (concat a)) si svo).
    { intros. unfold expected_int, int_si_of. rewrite Hsi. reflexivity. }
    destruct (make_interest_params sha256 sha256_len sign nm cfg a sg si est Hsi) as (COV & Hcov & Hcov0 & Hnone & Hlong & Hok);
      [unfold two64; fold pre; lia|].
    pose proof (int_siginfo_est _ _ _ Hsi) as He252.
    assert (Hcase : exists svo, (est = 0 -> svo = None) /\ (0 < est -> exists sv, svo = Some sv /\ sign COV = Some sv /\ blen sv <= est)).
    { destruct (N.eq_dec est 0) as [->|Hne]; [exists None; split; [reflexivity|lia]|].
      assert (Hpos : 0 < est) by lia.
      destruct (sign COV) as [sv|] eqn:Es; [|rewrite (Hnone Hpos eq_refl) in Hmk; discriminate].
      destruct (N.le_gt_cases (blen sv) est) as [Hle|Hgt]; [|rewrite (Hlong sv Hpos eq_refl) in Hmk by lia; discriminate].
      exists (Some sv). split; [lia|]. intros _. eauto. }
    destruct Hcase as (svo & Hs0 & Hs1).
    destruct (Hok svo Hs0 Hs1) as (W & E & HW). rewrite E in Hmk. inversion Hmk; subst e. cbn [e_wire e_cov e_final].
    set (h := sha256 (AH (Some a) ++ CB (Some a) ++ ST44 si ++ enc_elems (oel 46 svo))) in *.
    set (nmF := strip_digest nm ++ [mkc 2 h]) in *. fold pre in nmF.
    assert (Hh : enc_elems (int_tail_elems (option_map (@concat N) (Some a)) si svo) = AH (Some a) ++ CB (Some a) ++ ST44 si ++ enc_elems (oel 46 svo))
      by apply tail_unfold.
    exists svo. split; [exact Hs0|]. split.
    { intros Hpos. destruct (Hs1 Hpos) as (sv & -> & Hsv & Hle). split; [exact Hsv|eauto]. }
    split; [rewrite Hh; reflexivity|]. split; [exact HW|].
    intros r V. rewrite HW in V.
    assert (HnF : name_ok nmF) by (unfold nmF, name_ok; apply Forall_app; split; [exact Hpre|constructor; [apply digest_comp_ok, sha256_len|constructor]]).
    assert (Hsize : (N.of_nat (length (enc_elem (5, IV nmF cfg (Some a) si svo))) < big)%N).
    { apply packet_size_t; [lia|].
      (* the value is not longer than Init's total *)
      assert (Hni : name_len nmF = name_len (pre ++ [mkc 2 zeros32]) /\ blen (name_inner nmF) = blen (name_inner (pre ++ [mkc 2 zeros32]))).
      { assert (Hhl : length h = 32%nat) by apply sha256_len.
        split; [apply name_len_digest; rewrite Hhl; reflexivity|].
        unfold nmF. rewrite !name_inner_snoc, !blen_app, (comp_enc_digest h), (comp_enc_digest zeros32) by (exact Hhl || reflexivity).
        f_equal. unfold blen. rewrite !app_length. f_equal. f_equal. exact Hhl. }
      destruct Hni as [Hn1 Hn2].
      rewrite IV_unfold. rewrite int_len_ok in Hfit. unfold name_tlv, tlv in *. rewrite !blen_app in *. rewrite Hn1, Hn2.
      destruct svo as [sv|]; cbn [oel].
      - assert (Hpos : 0 < est) by (destruct (N.eq_dec est 0) as [E0|E0]; [specialize (Hs0 E0); discriminate|lia]).
        destruct (Hs1 Hpos) as (sv' & Esv & _ & Hle).
        inversion Esv; subst sv'. rewrite enc_elems_one. unfold enc_elem. cbn [fst snd]. rewrite !blen_app, <- !tlsz_enc. fold (blen sv).
        replace (0 <? est) with true in Hfit by lia. unfold tlv_len in Hfit. rewrite <- !tlsz_enc in Hfit. pose proof (tlsz_mono _ _ Hle). lia.
      - replace (enc_elems []) with (@nil N) by reflexivity. change (blen (@nil N)) with 0. rewrite <- !tlsz_enc in *.
        destruct (0 <? est); lia. }
    destruct (read_interest_ok sha256 r nmF (ic_cbp cfg) (ic_mbf cfg) (ic_fh cfg) (option_map (fun x => x mod 4294967296) (ic_nonce cfg))
                (ic_life cfg) (option_map (fun x => x mod 256) (ic_hop cfg)) (Some (concat a)) si svo V HnF Hhead)
      as (i & cov & Er & Ho & Hc).
    { split; [discriminate|exact Hsiwf]. }
    { exists pre. unfold nmF. f_equal. f_equal. f_equal. unfold h. f_equal. symmetry. exact Hh. }
    { exact Hsize. }
    exists i, cov. split; [exact Er|]. split; [rewrite Hexp; exact Ho|].
    intros Hpos. rewrite Hc. destruct (Hs1 Hpos) as (sv & -> & _ & _).
    rewrite (Hcov Hpos). unfold nmF. rewrite doff_last. rewrite name_inner_snoc.
    rewrite firstn_app_le by lia. rewrite firstn_all. f_equal.
    rewrite enc_elems_app. change (Some (concat a)) with (option_map (@concat N) (Some a)). rewrite <- app_elems, ST44_elem, <- !app_assoc. reflexivity.
  - (* no parameters *)
    destruct (int_siginfo_unsigned _ _ _ Hsi) as [-> ->].
    assert (Hexp : forall final, expected_int final cfg None sg None =
              mkIobs final (ic_cbp cfg) (ic_mbf cfg) (ic_fh cfg) (option_map (fun x => x mod 4294967296) (ic_nonce cfg)) (ic_life cfg)
                     (option_map (fun x => x mod 256) (ic_hop cfg)) None None None).
    { intros. unfold expected_int, int_si_of. unfold int_siginfo in *. destruct (sig_active sg); [discriminate|]. reflexivity. }
    destruct (make_interest_noparams sha256 sha256_len sign nm cfg sg None 0 Hsi (Hnod eq_refl)) as (W & E & HW); [unfold two64; fold pre; lia|].
    rewrite E in Hmk. inversion Hmk; subst e. cbn [e_wire e_cov e_final]. fold pre.
    exists None. split; [reflexivity|]. split; [lia|]. split; [reflexivity|]. split; [exact HW|].
    intros r V. rewrite HW in V. fold pre in V.
    destruct (read_interest_ok sha256 r pre (ic_cbp cfg) (ic_mbf cfg) (ic_fh cfg) (option_map (fun x => x mod 4294967296) (ic_nonce cfg))
                (ic_life cfg) (option_map (fun x => x mod 256) (ic_hop cfg)) None None None V Hpre Hhead)
      as (i & cov & Er & Ho & Hc).
    { split; [auto|exact I]. }
    { exact (Hnod eq_refl). }
    { apply (packet_size_t 5 (IV pre cfg None None None)); [lia|]. rewrite (IV_len_unsigned pre cfg None None pre) by reflexivity. lia. }
    exists i, cov. split; [exact Er|]. split; [rewrite Hexp; exact Ho|lia].
Qed.
End InterestRoundtrip.

Section InterestSegmentation.
Variable sha256 : bytes -> bytes.
Hypothesis sha256_len : forall x, length (sha256 x) = 32%nat.
Variable sign : list bytes -> option bytes.

Corollary interest_any_reader nm cfg app sg si est e :
  let need := match app with Some _ => true | None => false end in
  let pre := strip_digest nm in
  let nm1 := if need then pre ++ [mkc 2 zeros32] else pre in
  int_siginfo sg need = Ok (si, est) -> name_ok pre ->
  iconfig_ok cfg -> signer_ok sg -> signer_int_ok sg -> int_fits nm1 cfg app si est ->
  make_interest sha256 sign nm cfg app sg = Ok e ->
  exists svo, forall segs, concat segs = concat (e_wire e) ->
    exists i1 c1 i2 c2,
      read_interest sha256 (BR (concat segs) 0) = ROk i1 c1 /\ read_interest sha256 (new_wire_reader segs) = ROk i2 c2 /\
      obs_int i1 = expected_int (e_final e) cfg app sg svo /\ obs_int i2 = expected_int (e_final e) cfg app sg svo /\
      (0 < est -> concat c1 = concat (e_cov e) /\ concat c2 = concat (e_cov e)).
Proof.
  intros need pre nm1 Hsi Hn Hcfg Hsg Hsgi Hfit Hmk.
  destruct (interest_roundtrip_thm sha256 sha256_len sign nm cfg app sg si est e Hsi Hn Hcfg Hsg Hsgi Hfit Hmk)
    as (svo & _ & _ & _ & _ & Hr).
  exists svo. intros segs Hs.
  destruct (Hr (BR (concat segs) 0)) as (i1 & c1 & E1 & O1 & C1); [rewrite <- Hs; apply view_br; simpl; lia|].
  destruct (Hr (new_wire_reader segs)) as (i2 & c2 & E2 & O2 & C2); [rewrite <- Hs; apply view_wr_start|].
  exists i1, c1, i2, c2. repeat split; auto.
Qed.
End InterestSegmentation.
