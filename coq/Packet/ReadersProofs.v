(* Packet/ReadersProofs.v — both reader kinds refine one abstract byte stream.
   `View r all p`: reader r is well formed, the bytes it ranges over are `all` and its absolute position is p.  Every
   operation, applied inside the data that is really there, returns what the flat byte string dictates and leaves a
   reader with the same bytes at the advanced position — for a BufferReader and for a WireReader over ANY segmentation
   (empty segments included).  The decoder proofs use only these lemmas, hence hold for both readers. *)
From Packet Require Import Readers.
From Coq Require Import ZifyBool ZifyN ZifyNat.
Open Scope nat_scope.

Ltac nlia := unfold bytes, byte in *; lia.

(* ---------------------------------------------------------------- list helpers *)
Lemma skipn_app_le {A} (a b : list A) n : n <= length a -> skipn n (a ++ b) = skipn n a ++ b.
Proof. intros H. rewrite skipn_app. replace (n - length a) with 0 by lia. reflexivity. Qed.
Lemma firstn_app_le {A} (a b : list A) n : n <= length a -> firstn n (a ++ b) = firstn n a.
Proof. intros H. rewrite firstn_app. replace (n - length a) with 0 by lia. simpl. apply app_nil_r. Qed.
Lemma firstn_app_ge {A} (a b : list A) n : length a <= n -> firstn n (a ++ b) = a ++ firstn (n - length a) b.
Proof. intros H. rewrite firstn_app. rewrite firstn_all2 by lia. reflexivity. Qed.
Lemma skipn_app_ge {A} (a b : list A) n : length a <= n -> skipn n (a ++ b) = skipn (n - length a) b.
Proof. intros H. rewrite skipn_app. rewrite skipn_all2 by lia. reflexivity. Qed.
Lemma skipn_skipn {A} (x y : nat) (l : list A) : skipn x (skipn y l) = skipn (x + y) l.
Proof. revert l. induction y as [|y IH]; intros l; [rewrite Nat.add_0_r; reflexivity|].
  destruct l as [|a l]; [rewrite !skipn_nil; reflexivity|]. rewrite Nat.add_succ_r. simpl. apply IH. Qed.
Lemma skipn_eq_app {A} (l x t : list A) p : p <= length l -> skipn p l = x ++ t -> p + length x <= length l.
Proof. intros Hp H. assert (E : length (skipn p l) = length (x ++ t)) by congruence. rewrite skipn_length, app_length in E. lia. Qed.
Lemma skipn_eq_cons {A} (l t : list A) b p : skipn p l = b :: t -> p < length l.
Proof. intros H. destruct (le_lt_dec (length l) p); [rewrite skipn_all2 in H by lia; discriminate|lia]. Qed.
Lemma skipn_skipn_eq {A} (l x t : list A) p : skipn p l = x ++ t -> skipn (p + length x) l = t.
Proof. intros H. rewrite Nat.add_comm, <- skipn_skipn, H. rewrite skipn_app_ge by lia. rewrite Nat.sub_diag. reflexivity. Qed.
Lemma firstn_skipn_eq {A} (l x t : list A) p : skipn p l = x ++ t -> firstn (length x) (skipn p l) = x.
Proof. intros H. rewrite H. rewrite firstn_app_le by lia. apply firstn_all. Qed.
Lemma nth_error_split_at {A} (l : list A) n x : nth_error l n = Some x -> l = firstn n l ++ x :: skipn (S n) l /\ length (firstn n l) = n.
Proof.
  revert l. induction n as [|n IH]; intros [|y l] H; try discriminate.
  - simpl in H. inversion H; subst. auto.
  - simpl in H. destruct (IH l H) as [E L]. split; [cbn [firstn skipn app]; f_equal; exact E|simpl; lia].
Qed.
Lemma concat_length_app (a b : list bytes) : length (concat (a ++ b)) = length (concat a) + length (concat b).
Proof. rewrite concat_app, app_length. reflexivity. Qed.

(* ---------------------------------------------------------------- accSz *)
Lemma acc_sz_concat w : forall i, acc_sz w i = length (concat (firstn i w)).
Proof. induction w as [|s w IH]; intros [|i]; simpl; auto. rewrite app_length, IH. reflexivity. Qed.
Lemma acc_sz_all w : acc_sz w (length w) = length (concat w).
Proof. rewrite acc_sz_concat, firstn_all. reflexivity. Qed.

(* position (k, p) inside a list of segments denotes this offset in their concatenation *)
Definition off (segs : list bytes) (k p : nat) : nat := length (concat (firstn k segs)) + p.
Definition seg_ok (segs : list bytes) (p : nat) : Prop := match segs with cur :: _ => p <= length cur | [] => p = 0 end.

Lemma off_cons sg tl k p : off (sg :: tl) (S k) p = length sg + off tl k p.
Proof. unfold off. cbn [firstn concat]. rewrite app_length. lia. Qed.

(* the rest of the stream seen from a position *)
Lemma skipn_off segs : forall k p, k <= length segs -> seg_ok (skipn k segs) p ->
  skipn (off segs k p) (concat segs) = skipn p (concat (skipn k segs)).
Proof.
  intros k p Hk Hok. unfold off.
  rewrite <- (firstn_skipn k segs) at 2. rewrite concat_app.
  rewrite skipn_app_ge by lia. f_equal. lia.
Qed.

(* ---------------------------------------------------------------- nextSeg *)
Lemma next_seg_aux_spec segs : forall s p s' p', seg_ok segs p -> next_seg_aux segs s p = (s', p') ->
  exists k, s' = s + k /\ k <= length segs /\ off segs k p' = p /\ seg_ok (skipn k segs) p' /\
            match skipn k segs with cur :: _ => p' < length cur | [] => True end.
Proof.
  induction segs as [|sg tl IH]; intros s p s' p' Hok H.
  - simpl in *. inversion H; subst. exists 0. simpl. unfold off. simpl. repeat split; auto.
  - cbn [next_seg_aux] in H. simpl in Hok. destruct (length sg <=? p) eqn:E.
    + apply Nat.leb_le in E. assert (p = length sg) by lia. subst p.
      destruct (IH (S s) 0 s' p') as (k & -> & Hk & Ho & Hs & Hl); [destruct tl; simpl; lia|exact H|].
      exists (S k). rewrite off_cons. cbn [skipn length]. repeat split; auto; lia.
    + apply Nat.leb_gt in E. inversion H; subst. exists 0. unfold off. simpl. repeat split; auto; lia.
Qed.

(* ---------------------------------------------------------------- the slicing loop *)
Lemma rw_loop_spec segs : forall s p n acc, seg_ok segs p -> p + n <= length (concat segs) ->
  exists chunks k p', rw_loop segs s p (Z.of_nat n) acc = Ok (rev acc ++ chunks, s + k, p') /\
    concat chunks = firstn n (skipn p (concat segs)) /\ k <= length segs /\ off segs k p' = p + n /\ seg_ok (skipn k segs) p'.
Proof.
  induction segs as [|sg tl IH]; intros s p n acc Hok Hn.
  - simpl in *. subst p. assert (n = 0) by lia. subst n. exists [], 0, 0. simpl. rewrite app_nil_r, Nat.add_0_r.
    unfold off. simpl. repeat split; auto.
  - cbn [rw_loop]. simpl in Hok. destruct (Z.of_nat n <=? 0)%Z eqn:E0.
    { assert (n = 0) by lia. subst n. exists [], 0, p. rewrite app_nil_r, Nat.add_0_r. unfold off. simpl. repeat split; auto; lia. }
    replace (length sg <? p) with false by (symmetry; apply Nat.ltb_ge; lia).
    cbn [concat] in *. rewrite app_length in Hn.
    destruct (Z.of_nat (length sg) <? Z.of_nat p + Z.of_nat n)%Z eqn:E1.
    + replace (Z.of_nat n - (Z.of_nat (length sg) - Z.of_nat p))%Z with (Z.of_nat (n - (length sg - p))) by lia.
      destruct (IH (S s) 0 (n - (length sg - p)) (skipn p sg :: acc)) as (ch & k & p' & Hr & Hc & Hk & Ho & Hs).
      { destruct tl; simpl; lia. } { lia. }
      exists (skipn p sg :: ch), (S k), p'. rewrite Hr. cbn [rev]. rewrite <- app_assoc. cbn [app].
      rewrite off_cons. cbn [skipn length concat].
      split; [rewrite Nat.add_succ_r; reflexivity|].
      split.
      { rewrite Hc. rewrite skipn_app_le by lia. rewrite skipn_O.
        rewrite firstn_app_ge by (rewrite skipn_length; lia). rewrite skipn_length. reflexivity. }
      repeat split; auto; lia.
    + exists [firstn n (skipn p sg)], 0, (p + n). rewrite Nat2Z.id. cbn [rev]. unfold off. simpl.
      rewrite app_nil_r, Nat.add_0_r.
      split; [reflexivity|].
      split; [rewrite skipn_app_le by lia; rewrite firstn_app_le by (rewrite skipn_length; lia); reflexivity|].
      repeat split; lia.
Qed.

(* ---------------------------------------------------------------- the Skip / Delegate loop *)
Lemma skip_loop_spec segs : forall s q, q <= length (concat segs) ->
  exists k p', skip_loop segs s (Z.of_nat q) = (s + k, Z.of_nat p') /\ k <= length segs /\ off segs k p' = q /\
               seg_ok (skipn k segs) p' /\ (k = 0 \/ 0 < p').
Proof.
  induction segs as [|sg tl IH]; intros s q Hq.
  - simpl in *. assert (q = 0) by lia. subst. exists 0, 0. rewrite Nat.add_0_r. unfold off. simpl. repeat split; auto.
  - cbn [skip_loop]. cbn [concat] in Hq. rewrite app_length in Hq.
    destruct (Z.of_nat (length sg) <? Z.of_nat q)%Z eqn:E.
    + replace (Z.of_nat q - Z.of_nat (length sg))%Z with (Z.of_nat (q - length sg)) by lia.
      destruct (IH (S s) (q - length sg)) as (k & p' & Hr & Hk & Ho & Hs & Hp); [lia|].
      exists (S k), p'. rewrite Hr, off_cons. cbn [skipn length]. repeat split; auto; try lia.
      * rewrite Nat.add_succ_r. reflexivity.
      * right. destruct Hp as [->|Hp]; [|exact Hp]. unfold off in Ho. simpl in Ho. lia.
    + exists 0, q. rewrite Nat.add_0_r. unfold off. simpl. repeat split; auto; lia.
Qed.

(* ---------------------------------------------------------------- views *)
Definition all_bytes (r : reader) : bytes := match r with BR b _ => b | WR w _ _ => concat w end.
Definition wf_reader (r : reader) : Prop :=
  match r with
  | BR b p => p <= length b
  | WR w s p => s <= length w /\ seg_ok (skipn s w) p
  end.
Definition View (r : reader) (all : bytes) (p : nat) : Prop := wf_reader r /\ all_bytes r = all /\ rd_pos r = p.

Lemma wr_pos_off w s p : rd_pos (WR w s p) = off w s p.
Proof. unfold rd_pos, off. rewrite acc_sz_concat. lia. Qed.

Lemma view_len r all p : View r all p -> rd_len r = length all.
Proof. intros (_ & <- & _). destruct r; simpl; [reflexivity|apply acc_sz_all]. Qed.

Lemma off_le segs k p : k <= length segs -> seg_ok (skipn k segs) p -> off segs k p <= length (concat segs).
Proof.
  intros Hk Hok. unfold off. rewrite <- (firstn_skipn k segs) at 2. rewrite concat_length_app.
  destruct (skipn k segs) as [|c t]; simpl in *; [lia|]. rewrite app_length. lia.
Qed.

Lemma view_le r all p : View r all p -> p <= length all.
Proof.
  intros (Hwf & <- & <-). destruct r as [b q|w s q]; simpl in *; [exact Hwf|].
  destruct Hwf as [Hs Hok]. change (q + acc_sz w s) with (rd_pos (WR w s q)). rewrite wr_pos_off. apply off_le; assumption.
Qed.

Lemma view_remaining r all p : View r all p -> rd_remaining r = length all - p.
Proof. intros H. unfold rd_remaining. rewrite (view_len _ _ _ H). destruct H as (_ & _ & ->). reflexivity. Qed.

Lemma view_br b p : p <= length b -> View (BR b p) b p.
Proof. intros H. repeat split; assumption. Qed.
Lemma view_wr_start w : View (new_wire_reader w) (concat w) 0.
Proof. unfold new_wire_reader, View. simpl. repeat split; try lia; destruct w; simpl; lia. Qed.

(* a WireReader position (s, p) and the sub-position (k, p') reached by a loop started on skipn s w *)
Lemma off_skipn w s k p : s <= length w -> off w (s + k) p = length (concat (firstn s w)) + off (skipn s w) k p.
Proof.
  intros Hs. unfold off. rewrite <- (firstn_skipn s w) at 1. rewrite firstn_app.
  rewrite firstn_length_le by lia. replace (s + k - s) with k by lia.
  rewrite (firstn_all2 (firstn s w)) by (rewrite firstn_length_le; lia).
  rewrite concat_length_app. lia.
Qed.
Lemma off_0 segs p : off segs 0 p = p.
Proof. reflexivity. Qed.

Lemma wr_step w s k p' q : s <= length w -> k <= length (skipn s w) -> seg_ok (skipn k (skipn s w)) p' ->
  off (skipn s w) k p' = q ->
  wf_reader (WR w (s + k) p') /\ rd_pos (WR w (s + k) p') = length (concat (firstn s w)) + q.
Proof.
  intros Hs Hk Hok Ho. rewrite skipn_length in Hk. split.
  - simpl. split; [lia|]. rewrite Nat.add_comm, <- skipn_skipn. exact Hok.
  - rewrite wr_pos_off, off_skipn by lia. lia.
Qed.

(* ---------------------------------------------------------------- ReadByte *)
Lemma nth_error_skipn_hd {A} (l : list A) n : nth_error l n = match skipn n l with x :: _ => Some x | [] => None end.
Proof. revert l; induction n as [|n IH]; intros [|x l]; simpl; auto. Qed.

Lemma seg_rest w s p : s <= length w -> seg_ok (skipn s w) p ->
  skipn (off w s p) (concat w) = skipn p (concat (skipn s w)).
Proof. intros. apply skipn_off; assumption. Qed.

Lemma read_byte_ok r all p b t : View r all p -> skipn p all = b :: t ->
  exists r', read_byte r = Ok (b, r') /\ View r' all (S p).
Proof.
  intros (Hwf & <- & <-) Hs. destruct r as [buf q|w s q].
  - simpl in *. exists (BR buf (S q)).
    assert (Hn : nth_error buf q = Some b).
    { rewrite nth_error_skipn_hd, Hs. reflexivity. }
    rewrite Hn. split; [reflexivity|]. apply view_br.
    apply skipn_eq_cons in Hs. lia.
  - destruct Hwf as [Hsl Hok]. unfold read_byte, next_seg.
    destruct (next_seg_aux (skipn s w) s q) as [s1 p1] eqn:En.
    destruct (next_seg_aux_spec _ _ _ _ _ Hok En) as (k & -> & Hk & Ho & Hok' & Hlt).
    rewrite wr_pos_off in *. cbn [all_bytes] in *.
    rewrite seg_rest in Hs by assumption.
    assert (Hs' : skipn p1 (concat (skipn k (skipn s w))) = b :: t).
    { rewrite <- Hs. rewrite <- (skipn_off (skipn s w) k p1) by assumption. rewrite Ho. reflexivity. }
    rewrite skipn_skipn in Hs', Hok', Hlt. rewrite (Nat.add_comm k s) in Hs', Hok', Hlt.
    rewrite nth_error_skipn_hd.
    destruct (skipn (s + k) w) as [|cur rest] eqn:Ec.
    { simpl in Hs'. rewrite skipn_nil in Hs'. discriminate. }
    cbn [concat] in Hs'. rewrite skipn_app_le in Hs' by lia.
    assert (Hn : nth_error cur p1 = Some b).
    { rewrite nth_error_skipn_hd. destruct (skipn p1 cur) eqn:E2.
      - assert (H0 : length (skipn p1 cur) = 0) by (rewrite E2; reflexivity). rewrite skipn_length in H0. lia.
      - simpl in Hs'. inversion Hs'; subst. reflexivity. }
    rewrite Hn. exists (WR w (s + k) (S p1)). split; [reflexivity|].
    assert (Hk' : k <= length (skipn s w)) by exact Hk.
    destruct (wr_step w s k (S p1) (S q) Hsl Hk') as [Hw Hpos].
    { rewrite skipn_skipn, (Nat.add_comm k s), Ec. simpl. lia. }
    { unfold off in *. lia. }
    split; [exact Hw|]. split; [reflexivity|].
    rewrite Hpos. unfold off. lia.
Qed.

(* ---------------------------------------------------------------- n x ReadByte, ReadTLNum *)
Lemma skipn_S_cons {A} (l t : list A) b p : skipn p l = b :: t -> skipn (S p) l = t.
Proof. intros H. change (S p) with (1 + p). rewrite <- skipn_skipn, H. reflexivity. Qed.

Lemma read_bytes_n_ok x : forall r all p t, View r all p -> skipn p all = x ++ t ->
  exists r', read_bytes_n (length x) r = Ok (x, r') /\ View r' all (p + length x).
Proof.
  induction x as [|b x IH]; intros r all p t V H.
  - exists r. simpl. rewrite Nat.add_0_r. auto.
  - simpl in H. destruct (read_byte_ok _ _ _ _ _ V H) as (r1 & E1 & V1).
    apply skipn_S_cons in H. destruct (IH r1 all (S p) t V1 H) as (r2 & E2 & V2).
    exists r2. cbn [read_bytes_n length]. rewrite E1. cbn. rewrite E2. cbn. split; [reflexivity|].
    replace (p + S (length x)) with (S p + length x) by lia. exact V2.
Qed.

Lemma read_be_ok bs : forall acc r all p t, View r all p -> skipn p all = bs ++ t ->
  exists r', read_be (length bs) acc r = Ok (be_val_acc acc bs, r') /\ View r' all (p + length bs).
Proof.
  induction bs as [|b bs IH]; intros acc r all p t V H.
  - exists r. simpl. rewrite Nat.add_0_r. auto.
  - simpl in H. destruct (read_byte_ok _ _ _ _ _ V H) as (r1 & E1 & V1).
    apply skipn_S_cons in H. destruct (IH (acc * 256 + b)%N r1 all (S p) t V1 H) as (r2 & E2 & V2).
    exists r2. cbn [read_be length be_val_acc]. rewrite E1. cbn. rewrite E2. split; [reflexivity|].
    replace (p + S (length bs)) with (S p + length bs) by lia. exact V2.
Qed.

Lemma read_tlnum_ok r all p n t : View r all p -> skipn p all = tl_enc n ++ t -> (n < two64)%N ->
  exists r', read_tlnum r = Ok (n, r') /\ View r' all (p + tl_len n).
Proof.
  intros V H Hn. unfold tl_enc, tl_len in *. unfold read_tlnum.
  destruct (n <=? 252)%N eqn:E1.
  { simpl in H. destruct (read_byte_ok _ _ _ _ _ V H) as (r1 & Er & V1). exists r1. rewrite Er. cbn. rewrite E1.
    split; [reflexivity|]. rewrite Nat.add_1_r. exact V1. }
  assert (Hgen : forall (x : N) (k : nat), (252 < x)%N -> (n < 256 ^ N.of_nat k)%N ->
            (if (x =? 253)%N then 2 else if (x =? 254)%N then 4 else 8) = k ->
            skipn p all = (x :: be k n) ++ t ->
            exists r', (do (x0, r1) <- read_byte r;
                        if (x0 <=? 252)%N then Ok (x0, r1)
                        else read_be (if (x0 =? 253)%N then 2 else if (x0 =? 254)%N then 4 else 8) 0 r1) = Ok (n, r')
                       /\ View r' all (p + S k)).
  { intros x k Hx Hb Hk Hs. simpl in Hs. destruct (read_byte_ok _ _ _ _ _ V Hs) as (r1 & Er & V1).
    apply skipn_S_cons in Hs. rewrite Er. cbn. replace (x <=? 252)%N with false by lia. rewrite Hk.
    destruct (read_be_ok (be k n) 0%N r1 all (S p) t V1 Hs) as (r2 & E2 & V2).
    rewrite be_length in E2, V2. exists r2. rewrite E2. split.
    - f_equal. f_equal. change (be_val_acc 0 (be k n)) with (be_val (be k n)). apply be_val_be. exact Hb.
    - replace (p + S k) with (S p + k) by lia. exact V2. }
  unfold two64 in Hn.
  destruct (n <=? 65535)%N eqn:E2.
  { apply (Hgen 253%N 2); [lia|change (256 ^ N.of_nat 2)%N with 65536%N; lia|reflexivity|exact H]. }
  destruct (n <=? 4294967295)%N eqn:E3.
  { apply (Hgen 254%N 4); [lia|change (256 ^ N.of_nat 4)%N with 4294967296%N; lia|reflexivity|exact H]. }
  apply (Hgen 255%N 8); [lia|change (256 ^ N.of_nat 8)%N with 18446744073709551616%N; lia|reflexivity|exact H].
Qed.

(* ---------------------------------------------------------------- WireReader: position bookkeeping *)
Lemma wr_next w s q s1 p1 : wf_reader (WR w s q) -> next_seg w s q = (s1, p1) ->
  s1 <= length w /\ seg_ok (skipn s1 w) p1 /\ off w s1 p1 = off w s q /\
  match skipn s1 w with cur :: _ => p1 < length cur | [] => True end.
Proof.
  intros [Hs Hok] En. unfold next_seg in En.
  destruct (next_seg_aux_spec _ _ _ _ _ Hok En) as (k & -> & Hk & Ho & Hok' & Hlt).
  rewrite skipn_length in Hk. rewrite skipn_skipn, (Nat.add_comm k s) in Hok', Hlt.
  repeat split; auto; try lia.
  rewrite !off_skipn by lia. rewrite Ho. unfold off. simpl. lia.
Qed.

Lemma wr_view w s p : s <= length w -> seg_ok (skipn s w) p -> View (WR w s p) (concat w) (off w s p).
Proof. intros Hs Hok. split; [split; assumption|]. split; [reflexivity|apply wr_pos_off]. Qed.

Lemma wr_advance w s k p' q' : s <= length w -> k <= length (skipn s w) -> seg_ok (skipn k (skipn s w)) p' ->
  off (skipn s w) k p' = q' -> View (WR w (s + k) p') (concat w) (length (concat (firstn s w)) + q').
Proof.
  intros Hs Hk Hok Ho. destruct (wr_step w s k p' q' Hs Hk Hok Ho) as [Hw Hp].
  split; [exact Hw|]. split; [reflexivity|exact Hp].
Qed.

Lemma wr_total w s p : s <= length w -> seg_ok (skipn s w) p ->
  length (concat w) = off w s p + length (skipn p (concat (skipn s w))).
Proof.
  intros Hs Hok. rewrite <- (seg_rest w s p) by assumption. rewrite skipn_length.
  pose proof (off_le w s p Hs Hok). lia.
Qed.

(* the bytes in front of a position: x ++ t is the rest of the stream at (s, p) *)
Lemma wr_rest_eq w s p (x t : bytes) : s <= length w -> seg_ok (skipn s w) p ->
  skipn (off w s p) (concat w) = x ++ t -> skipn p (concat (skipn s w)) = x ++ t.
Proof. intros Hs Hok H. rewrite <- seg_rest by assumption. exact H. Qed.

Lemma seg_ok_le segs p : seg_ok segs p -> p <= length (concat segs).
Proof. destruct segs as [|c r]; simpl; [lia|]. rewrite app_length. lia. Qed.

(* ---------------------------------------------------------------- ReadBuf / ReadWire *)
Lemma br_take (b : bytes) p (x t : bytes) : p <= length b -> skipn p b = x ++ t ->
  ((Z.of_nat (length x) <? 0)%Z || (Z.of_nat (length b - p) <? Z.of_nat (length x))%Z)%bool = false.
Proof. intros Hp H. pose proof (skipn_eq_app _ _ _ _ Hp H). apply orb_false_iff. split; lia. Qed.

Lemma wr_take w s p (x t : bytes) : wf_reader (WR w s p) -> skipn (off w s p) (concat w) = x ++ t ->
  ((Z.of_nat (length x) <? 0)%Z ||
   (Z.of_nat (acc_sz w (length w)) - Z.of_nat (p + acc_sz w s) <? Z.of_nat (length x))%Z)%bool = false.
Proof.
  intros [Hs Hok] H. rewrite acc_sz_all. change (p + acc_sz w s) with (rd_pos (WR w s p)). rewrite wr_pos_off.
  pose proof (off_le w s p Hs Hok). pose proof (skipn_eq_app _ _ _ _ H0 H). apply orb_false_iff. split; lia.
Qed.

Lemma read_buf_ok r all p x t : View r all p -> skipn p all = x ++ t ->
  exists r', read_buf r (Z.of_nat (length x)) = Ok (x, r') /\ View r' all (p + length x).
Proof.
  intros (Hwf & <- & <-) H. destruct r as [b q|w s q].
  - simpl in *. rewrite (br_take b q x t Hwf H). rewrite Nat2Z.id. rewrite (firstn_skipn_eq _ _ _ _ H).
    eexists. split; [reflexivity|]. apply view_br. apply (skipn_eq_app _ _ _ _ Hwf H).
  - rewrite wr_pos_off in *. cbn [all_bytes] in *. unfold read_buf.
    rewrite (wr_take w s q x t Hwf H).
    destruct (next_seg w s q) as [s1 p1] eqn:En.
    destruct (wr_next _ _ _ _ _ Hwf En) as (Hs1 & Hok1 & Ho1 & Hlt).
    rewrite <- Ho1 in *. clear Ho1 En Hwf.
    pose proof (wr_rest_eq _ _ _ _ _ Hs1 Hok1 H) as Hr.
    rewrite nth_error_skipn_hd.
    destruct (skipn s1 w) as [|cur rest] eqn:Ec.
    + simpl in Hr. rewrite skipn_nil in Hr. destruct x; [|discriminate]. simpl.
      exists (WR w s1 p1). split; [reflexivity|]. rewrite Nat.add_0_r. apply wr_view; [assumption|rewrite Ec; exact Hok1].
    + cbn [concat] in Hr. simpl in Hok1. rewrite skipn_app_le in Hr by lia.
      destruct (Z.of_nat p1 + Z.of_nat (length x) <=? Z.of_nat (length cur))%Z eqn:Efit.
      * replace (length cur <? p1) with false by (symmetry; apply Nat.ltb_ge; lia).
        rewrite Nat2Z.id.
        assert (Hx : firstn (length x) (skipn p1 cur) = x).
        { rewrite <- (firstn_app_le _ (concat rest)) by (rewrite skipn_length; lia). rewrite Hr. rewrite firstn_app_le by lia. apply firstn_all. }
        rewrite Hx. eexists. split; [reflexivity|].
        pose proof (wr_advance w s1 0 (p1 + length x) (p1 + length x) Hs1) as Ha.
        rewrite Nat.add_0_r in Ha. unfold off in *. rewrite Ec in Ha. simpl in Ha.
        replace (length (concat (firstn s1 w)) + p1 + length x) with (length (concat (firstn s1 w)) + (p1 + length x)) by lia.
        apply Ha; lia.
      * destruct (rw_loop_spec (cur :: rest) s1 p1 (length x) []) as (ch & k & p' & Er & Hc & Hk & Ho & Hok').
        { simpl. lia. }
        { assert (E : length (skipn p1 cur ++ concat rest) = length (x ++ t)) by congruence.
          rewrite !app_length, skipn_length in E. cbn [concat]. rewrite app_length. lia. }
        rewrite Er. cbn. cbn [concat] in Hc. rewrite skipn_app_le in Hc by lia. rewrite Hr in Hc.
        rewrite firstn_app_le in Hc by lia. rewrite firstn_all in Hc. rewrite Hc.
        eexists. split; [reflexivity|].
        pose proof (wr_advance w s1 k p' (p1 + length x) Hs1) as Ha. rewrite Ec in Ha.
        unfold off at 1. replace (length (concat (firstn s1 w)) + p1 + length x) with (length (concat (firstn s1 w)) + (p1 + length x)) by lia.
        apply Ha; assumption.
Qed.

Lemma read_wire_ok r all p x t : View r all p -> skipn p all = x ++ t ->
  exists ws r', read_wire r (Z.of_nat (length x)) = Ok (ws, r') /\ concat ws = x /\ View r' all (p + length x).
Proof.
  intros (Hwf & <- & <-) H. destruct r as [b q|w s q].
  - simpl in *. pose proof (skipn_eq_app _ _ _ _ Hwf H) as Hle.
    replace ((length b <=? q) && (0 <? Z.of_nat (length x))%Z)%bool with false.
    2:{ symmetry. apply andb_false_iff. destruct x; [right; reflexivity|left; apply Nat.leb_gt; simpl in Hle; lia]. }
    rewrite (br_take b q x t Hwf H). rewrite Nat2Z.id. rewrite (firstn_skipn_eq _ _ _ _ H).
    eexists _, _. split; [reflexivity|]. split; [simpl; apply app_nil_r|]. apply view_br. exact Hle.
  - rewrite wr_pos_off in *. cbn [all_bytes] in *. unfold read_wire.
    destruct (next_seg w s q) as [s1 p1] eqn:En.
    destruct (wr_next _ _ _ _ _ Hwf En) as (Hs1 & Hok1 & Ho1 & Hlt).
    rewrite <- Ho1 in *. clear Ho1 En Hwf.
    pose proof (wr_rest_eq _ _ _ _ _ Hs1 Hok1 H) as Hr.
    assert (Hwf1 : wf_reader (WR w s1 p1)) by (split; assumption).
    pose proof (wr_take w s1 p1 x t Hwf1 H) as Hg.
    replace ((length w <=? s1) && (0 <? Z.of_nat (length x))%Z)%bool with false.
    2:{ symmetry. apply andb_false_iff. destruct x; [right; reflexivity|left; apply Nat.leb_gt].
        destruct (skipn s1 w) eqn:Ec; [simpl in Hr; rewrite skipn_nil in Hr; discriminate|].
        destruct (le_lt_dec (length w) s1); [rewrite skipn_all2 in Ec by lia; discriminate|lia]. }
    rewrite Hg.
    destruct (rw_loop_spec (skipn s1 w) s1 p1 (length x) []) as (ch & k & p' & Er & Hc & Hk & Ho & Hok').
    { exact Hok1. }
    { assert (E : length (skipn p1 (concat (skipn s1 w))) = length (x ++ t)) by congruence.
      rewrite app_length, skipn_length in E. pose proof (seg_ok_le _ _ Hok1). lia. }
    rewrite Er. cbn. rewrite Hr in Hc. rewrite firstn_app_le in Hc by lia. rewrite firstn_all in Hc.
    eexists _, _. split; [reflexivity|]. split; [exact Hc|].
    unfold off at 1. replace (length (concat (firstn s1 w)) + p1 + length x) with (length (concat (firstn s1 w)) + (p1 + length x)) by lia.
    apply wr_advance; assumption.
Qed.

(* ---------------------------------------------------------------- Skip *)
Lemma skip_ok r all p n : View r all p -> n <= length all - p ->
  exists r', rd_skip r (Z.of_nat n) = Ok r' /\ View r' all (p + n).
Proof.
  intros (Hwf & <- & <-) Hn. destruct r as [b q|w s q].
  - simpl in *. replace (Z.of_nat n <? 0)%Z with false by lia.
    replace (Z.of_nat (length b - q) <? Z.of_nat n)%Z with false by lia. rewrite Nat2Z.id.
    eexists. split; [reflexivity|]. apply view_br. lia.
  - rewrite wr_pos_off in *. cbn [all_bytes] in *. destruct Hwf as [Hs Hok]. unfold rd_skip.
    replace (Z.of_nat n <? 0)%Z with false by lia.
    pose proof (wr_total w s q Hs Hok) as Ht. rewrite skipn_length in Ht. pose proof (seg_ok_le _ _ Hok) as Hq.
    rewrite acc_sz_all. change (q + acc_sz w s) with (rd_pos (WR w s q)). rewrite wr_pos_off.
    replace (Z.of_nat (length (concat w)) - Z.of_nat (off w s q) <? Z.of_nat n)%Z with false by lia.
    rewrite <- Nat2Z.inj_add.
    destruct (skip_loop_spec (skipn s w) s (q + n)) as (k & p' & Er & Hk & Ho & Hok' & _); [lia|].
    rewrite Er. rewrite Nat2Z.id. eexists. split; [reflexivity|].
    unfold off at 1. replace (length (concat (firstn s w)) + q + n) with (length (concat (firstn s w)) + (q + n)) by lia.
    apply wr_advance; assumption.
Qed.

(* ---------------------------------------------------------------- Range *)
Lemma find_start_spec segs : forall i acc start, acc <= start < acc + length (concat segs) ->
  exists k sp cur, find_start segs i acc start = Some (i + k, sp) /\ nth_error segs k = Some cur /\ sp < length cur /\
                   start = acc + length (concat (firstn k segs)) + sp.
Proof.
  induction segs as [|sg tl IH]; intros i acc start H; [simpl in H; lia|].
  cbn [find_start]. cbn [concat] in H. rewrite app_length in H.
  destruct ((acc <=? start) && (start <? acc + length sg))%bool eqn:E.
  - apply andb_true_iff in E as [E1 E2]. apply Nat.leb_le in E1. apply Nat.ltb_lt in E2.
    exists 0, (start - acc), sg. rewrite Nat.add_0_r. simpl. repeat split; auto; lia.
  - apply andb_false_iff in E. assert (acc + length sg <= start) by (destruct E as [E|E]; [apply Nat.leb_gt in E|apply Nat.ltb_ge in E]; lia).
    destruct (IH (S i) (acc + length sg) start) as (k & sp & cur & Ef & Hn & Hsp & He); [lia|].
    exists (S k), sp, cur. rewrite Ef. cbn [nth_error firstn concat]. rewrite app_length.
    repeat split; auto; try lia. f_equal. f_equal. lia.
Qed.
Lemma find_end_spec segs : forall i acc e, acc < e <= acc + length (concat segs) ->
  exists k ep cur, find_end segs i acc e = Some (i + k, ep) /\ nth_error segs k = Some cur /\ 0 < ep <= length cur /\
                   e = acc + length (concat (firstn k segs)) + ep.
Proof.
  induction segs as [|sg tl IH]; intros i acc e H; [simpl in H; lia|].
  cbn [find_end]. cbn [concat] in H. rewrite app_length in H.
  destruct ((acc <? e) && (e <=? acc + length sg))%bool eqn:E.
  - apply andb_true_iff in E as [E1 E2]. apply Nat.ltb_lt in E1. apply Nat.leb_le in E2.
    exists 0, (e - acc), sg. rewrite Nat.add_0_r. simpl. repeat split; auto; lia.
  - apply andb_false_iff in E. assert (acc + length sg < e) by (destruct E as [E|E]; [apply Nat.ltb_ge in E|apply Nat.leb_gt in E]; lia).
    destruct (IH (S i) (acc + length sg) e) as (k & ep & cur & Ef & Hn & Hep & He); [lia|].
    exists (S k), ep, cur. rewrite Ef. cbn [nth_error firstn concat]. rewrite app_length.
    repeat split; auto; try lia. f_equal. f_equal. lia.
Qed.

(* bytes between two positions of a segmented buffer *)
Lemma between_same (pre post : list bytes) (cs : bytes) sp ep : sp <= ep <= length cs ->
  firstn (ep - sp) (skipn sp cs) =
  firstn ((length (concat pre) + ep) - (length (concat pre) + sp)) (skipn (length (concat pre) + sp) (concat (pre ++ cs :: post))).
Proof.
  intros H. rewrite concat_app. cbn [concat]. rewrite skipn_app_ge by lia.
  replace (length (concat pre) + sp - length (concat pre)) with sp by lia.
  rewrite skipn_app_le by lia. rewrite firstn_app_le by (rewrite skipn_length; lia). f_equal. lia.
Qed.
Lemma between_lt (pre mid post : list bytes) (cs ce : bytes) sp ep : sp <= length cs -> ep <= length ce ->
  skipn sp cs ++ concat mid ++ firstn ep ce =
  firstn ((length (concat pre) + length cs + length (concat mid) + ep) - (length (concat pre) + sp))
         (skipn (length (concat pre) + sp) (concat (pre ++ cs :: mid ++ ce :: post))).
Proof.
  intros H1 H2. rewrite concat_app. cbn [concat]. rewrite concat_app. cbn [concat].
  rewrite skipn_app_ge by lia. replace (length (concat pre) + sp - length (concat pre)) with sp by lia.
  rewrite skipn_app_le by lia.
  rewrite firstn_app_ge by (rewrite skipn_length; lia). f_equal. rewrite skipn_length.
  rewrite firstn_app_ge by lia. f_equal.
  rewrite firstn_app_le by lia. f_equal. lia.
Qed.

Lemma split_two (w : list bytes) k1 k2 cs ce : k1 < k2 -> nth_error w k1 = Some cs -> nth_error w k2 = Some ce ->
  exists pre mid post, w = pre ++ cs :: mid ++ ce :: post /\ length pre = k1 /\ length mid = k2 - k1 - 1 /\
                       mid = firstn (k2 - k1 - 1) (skipn (S k1) w).
Proof.
  intros Hlt H1 H2. destruct (nth_error_split_at _ _ _ H1) as [E1 L1].
  assert (H2' : nth_error (skipn (S k1) w) (k2 - k1 - 1) = Some ce).
  { rewrite nth_error_skipn_hd, skipn_skipn. replace (k2 - k1 - 1 + S k1) with k2 by lia.
    rewrite <- nth_error_skipn_hd. exact H2. }
  destruct (nth_error_split_at _ _ _ H2') as [E2 L2].
  exists (firstn k1 w), (firstn (k2 - k1 - 1) (skipn (S k1) w)), (skipn (S (k2 - k1 - 1)) (skipn (S k1) w)).
  split; [|auto]. rewrite <- E2. exact E1.
Qed.

Lemma firstn_mid (pre mid post : list bytes) cs ce :
  firstn (length pre + S (length mid)) (pre ++ cs :: mid ++ ce :: post) = pre ++ cs :: mid.
Proof.
  rewrite firstn_app_ge by lia. f_equal. replace (length pre + S (length mid) - length pre) with (S (length mid)) by lia.
  cbn [firstn]. f_equal. rewrite firstn_app_le by lia. apply firstn_all.
Qed.

Lemma concat_firstn_S (w : list bytes) : forall k c, nth_error w k = Some c ->
  length (concat (firstn (S k) w)) = length (concat (firstn k w)) + length c.
Proof.
  induction w as [|x w IH]; intros [|k] c H; try discriminate.
  - simpl in *. inversion H; subst. rewrite app_nil_r. reflexivity.
  - simpl in H. specialize (IH k c H). cbn [firstn concat] in *. rewrite !app_length. lia.
Qed.

Lemma range_ok r all p a b : View r all p -> a <= b -> b <= length all ->
  exists ws, rd_range r (Z.of_nat a) (Z.of_nat b) = Some ws /\ concat ws = firstn (b - a) (skipn a all).
Proof.
  intros (Hwf & <- & _) Hab Hb. destruct r as [buf q|w s q]; cbn [all_bytes] in *.
  - unfold rd_range. replace ((Z.of_nat a <? 0)%Z || (Z.of_nat (length buf) <? Z.of_nat b)%Z || (Z.of_nat b <? Z.of_nat a)%Z)%bool with false.
    2:{ symmetry. rewrite !orb_false_iff. repeat split; nlia. }
    rewrite !Nat2Z.id. eexists. split; [reflexivity|]. simpl. apply app_nil_r.
  - unfold rd_range. rewrite acc_sz_all. unfold bytes, byte in *.
    replace ((Z.of_nat a <? 0)%Z || (Z.of_nat (length (concat w)) <? Z.of_nat b)%Z || (Z.of_nat b <? Z.of_nat a)%Z)%bool with false.
    2:{ symmetry. rewrite !orb_false_iff. repeat split; nlia. }
    destruct (Z.of_nat a =? Z.of_nat b)%Z eqn:Eab.
    { assert (a = b) by nlia. subst b. eexists. split; [reflexivity|]. rewrite Nat.sub_diag. reflexivity. }
    assert (a < b) by nlia. rewrite !Nat2Z.id.
    destruct (find_start_spec w 0 0 a) as (k1 & sp & cs & E1 & N1 & Hsp & Ha); [unfold bytes, byte in *; nlia|].
    destruct (find_end_spec w 0 0 b) as (k2 & ep & ce & E2 & N2 & Hep & Hbb); [unfold bytes, byte in *; nlia|].
    unfold bytes, byte in *.
    rewrite E1, E2. cbn [Nat.add] in *.
    assert (Hk : k1 <= k2).
    { destruct (le_lt_dec k1 k2); [assumption|exfalso].
      (* the start segment lies after the end segment: then a >= b *)
      destruct (nth_error_split_at _ _ _ N2) as [Ew Lw].
      assert (length (concat (firstn (S k2) w)) <= length (concat (firstn k1 w))).
      { rewrite <- (firstn_skipn (S k2) (firstn k1 w)). rewrite firstn_firstn. replace (Nat.min (S k2) k1) with (S k2) by nlia.
        rewrite concat_length_app. nlia. }
      pose proof (concat_firstn_S w k2 ce N2).
      unfold bytes, byte in *. nlia. }
    destruct (Nat.eq_dec k1 k2) as [->|Hne].
    + rewrite Nat.eqb_refl. rewrite N1 in N2. inversion N2; subst ce. clear N2.
      rewrite (nth_error_nth _ _ _ N1). eexists. split; [reflexivity|]. simpl. rewrite app_nil_r.
      destruct (nth_error_split_at _ _ _ N1) as [Ew Lw].
      rewrite Ha, Hbb.
      pose proof (between_same (firstn k2 w) (skipn (S k2) w) cs sp ep) as Hb2. unfold bytes, byte in *. rewrite <- Ew in Hb2. apply Hb2. nlia.
    + replace (k1 =? k2) with false by (symmetry; apply Nat.eqb_neq; assumption).
      rewrite (nth_error_nth _ _ _ N1), (nth_error_nth _ _ _ N2).
      destruct (split_two w k1 k2 cs ce) as (pre & mid & post & Ew & Lp & Lm & Em); [nlia|assumption|assumption|].
      unfold bytes, byte in *. rewrite <- Em. eexists. split; [reflexivity|].
      rewrite concat_app. cbn [concat]. rewrite concat_app. cbn [concat]. rewrite !app_nil_r.
      assert (Hf1 : firstn k1 w = pre) by (rewrite Ew, <- Lp; rewrite firstn_app_le by nlia; apply firstn_all).
      assert (Hf2 : firstn k2 w = pre ++ cs :: mid).
      { replace k2 with (length pre + S (length mid)) by nlia. rewrite Ew. apply firstn_mid. }
      rewrite Hf1 in Ha. rewrite Hf2 in Hbb. rewrite concat_length_app in Hbb. cbn [concat] in Hbb. rewrite app_length in Hbb.
      rewrite Ha, Hbb.
      pose proof (between_lt pre mid post cs ce sp ep) as Hb2. unfold bytes, byte in *. rewrite <- Ew in Hb2.
      replace (length (concat pre) + (length cs + length (concat mid)) + ep) with (length (concat pre) + length cs + length (concat mid) + ep) by nlia.
      apply Hb2; nlia.
Qed.

(* ---------------------------------------------------------------- Delegate *)
Lemma firstn_add_skipn {A} (all x t : list A) a : a <= length all -> skipn a all = x ++ t ->
  firstn (a + length x) all = firstn a all ++ x.
Proof.
  intros Ha H. rewrite <- (firstn_skipn a all) at 1. rewrite H.
  rewrite firstn_app_ge by (rewrite firstn_length_le; lia). rewrite firstn_length_le by lia.
  replace (a + length x - a) with (length x) by lia. rewrite firstn_app_le by lia. rewrite firstn_all. reflexivity.
Qed.

Lemma delegate_ok r all p x t : View r all p -> skipn p all = x ++ t ->
  exists sub r' hid, delegate r (Z.of_nat (length x)) = Ok (sub, r') /\ length hid <= p /\
                     View sub (hid ++ x) (length hid) /\ View r' all (p + length x).
Proof.
  intros V H. pose proof V as (Hwf & Ea & Ep). subst all p. destruct r as [b q|w s q].
  - simpl in *. rewrite (br_take b q x t Hwf H). rewrite Nat2Z.id. rewrite (firstn_skipn_eq _ _ _ _ H).
    exists (BR x 0), (BR b (q + length x)), []. split; [reflexivity|]. split; [simpl; nlia|]. split; [apply view_br; simpl; nlia|].
    apply view_br. apply (skipn_eq_app _ _ _ _ Hwf H).
  - rewrite wr_pos_off in *. cbn [all_bytes] in *. destruct Hwf as [Hs Hok]. unfold delegate.
    pose proof (wr_rest_eq _ _ _ _ _ Hs Hok H) as Hr.
    pose proof (wr_take w s q x t (conj Hs Hok) H) as Htake.
    pose proof (off_le w s q Hs Hok) as Hle.
    rewrite nth_error_skipn_hd.
    destruct (skipn s w) as [|cur rest] eqn:Ec.
    + simpl in Hr. rewrite skipn_nil in Hr. destruct x; [|discriminate].
      exists (BR [] 0), (WR w s q), []. split; [reflexivity|]. split; [simpl; nlia|]. split; [apply view_br; simpl; nlia|].
      simpl. rewrite Nat.add_0_r. exact V.
    + rewrite Htake. simpl in Hok. cbn [concat] in Hr. rewrite skipn_app_le in Hr by nlia.
      destruct (Z.of_nat q + Z.of_nat (length x) <=? Z.of_nat (length cur))%Z eqn:Efit.
      * replace (length cur <? q) with false by (symmetry; apply Nat.ltb_ge; nlia). rewrite Nat2Z.id.
        assert (Hx : firstn (length x) (skipn q cur) = x).
        { rewrite <- (firstn_app_le _ (concat rest)) by (rewrite skipn_length; nlia). rewrite Hr. rewrite firstn_app_le by nlia. apply firstn_all. }
        rewrite Hx. exists (BR x 0), (WR w s (q + length x)), []. split; [reflexivity|]. split; [simpl; nlia|]. split; [apply view_br; simpl; nlia|].
        pose proof (wr_advance w s 0 (q + length x) (q + length x) Hs) as Ha.
        rewrite Nat.add_0_r in Ha. unfold off in *. rewrite Ec in Ha. simpl in Ha.
        replace (length (concat (firstn s w)) + q + length x) with (length (concat (firstn s w)) + (q + length x)) by nlia.
        apply Ha; nlia.
      * rewrite <- Nat2Z.inj_add.
        assert (Hlen : q + length x <= length (concat (cur :: rest))).
        { assert (E : length (skipn q cur ++ concat rest) = length (x ++ t)) by congruence.
          rewrite !app_length, skipn_length in E. cbn [concat]. rewrite app_length. nlia. }
        destruct (skip_loop_spec (cur :: rest) s (q + length x) Hlen) as (k & p' & Er & Hk & Ho & Hok' & Hkp).
        rewrite Er. rewrite Nat2Z.id.
        assert (Hk0 : 0 < k).
        { destruct k; [|nlia]. unfold off in Ho. simpl in Ho, Hok'. nlia. }
        assert (Hp' : 0 < p') by (destruct Hkp; nlia).
        assert (Vr : View (WR w (s + k) p') (concat w) (off w s q + length x)).
        { pose proof (wr_advance w s k p' (q + length x) Hs) as Ha. rewrite Ec in Ha.
          unfold off at 1. replace (length (concat (firstn s w)) + q + length x) with (length (concat (firstn s w)) + (q + length x)) by nlia.
          apply Ha; assumption. }
        assert (Ek : skipn k (cur :: rest) = skipn (s + k) w) by (rewrite <- Ec, skipn_skipn; f_equal; nlia).
        rewrite nth_error_skipn_hd, <- Ek.
        unfold bytes, byte in *.
        destruct (skipn k (cur :: rest)) as [|c1 r1] eqn:Ec1; [simpl in Hok'; nlia|]. simpl in Hok'.
        assert (N1 : nth_error (cur :: rest) k = Some c1) by (rewrite nth_error_skipn_hd, Ec1; reflexivity).
        assert (Nw : nth_error w (s + k) = Some c1) by (rewrite nth_error_skipn_hd, <- Ek; reflexivity).
        destruct (p' =? length c1) eqn:Eend.
        -- apply Nat.eqb_eq in Eend.
           exists (WR (firstn (S (s + k)) w) s q), (WR w (s + k) p'), (firstn (off w s q) (concat w)).
           split; [reflexivity|]. split; [rewrite firstn_length; nlia|]. split; [|exact Vr].
           assert (Hall : concat (firstn (S (s + k)) w) = firstn (off w s q) (concat w) ++ x).
           { rewrite <- (firstn_add_skipn _ _ t) by assumption.
             destruct Vr as (_ & _ & Hpos). rewrite wr_pos_off in Hpos. rewrite <- Hpos. unfold off. rewrite Eend.
             pose proof (concat_firstn_S w (s + k) c1 Nw) as Hl. unfold bytes, byte in *.
             rewrite <- Hl.
             replace (concat w) with (concat (firstn (S (s + k)) w) ++ concat (skipn (S (s + k)) w))
               by (rewrite <- concat_app, firstn_skipn; reflexivity).
             rewrite firstn_app_le by nlia. rewrite firstn_all. reflexivity. }
           assert (Hws : s <= length (firstn (S (s + k)) w)).
           { rewrite firstn_length. assert (s + k < length w) by (apply nth_error_Some; congruence). nlia. }
           split; [|split].
           ++ split; [exact Hws|]. rewrite skipn_firstn_comm. replace (S (s + k) - s) with (S k) by nlia. rewrite Ec. simpl. exact Hok.
           ++ exact Hall.
           ++ rewrite wr_pos_off. unfold off. rewrite firstn_firstn. replace (Nat.min s (S (s + k))) with s by nlia.
              rewrite firstn_length_le by exact Hle. reflexivity.
        -- apply Nat.eqb_neq in Eend.
           replace (S (s + k) - s) with (S k) by nlia.
           destruct (split_two (cur :: rest) 0 k cur c1) as (pre & mid & post & Ew & Lp & Lm & Em); [nlia|reflexivity|exact N1|].
           destruct pre; [|discriminate]. cbn [app] in Ew. inversion Ew as [Erest]. clear Ew. unfold bytes, byte in *.
           subst rest.
           assert (Hfk : firstn (S k) (cur :: mid ++ c1 :: post) = cur :: mid ++ [c1]).
           { cbn [firstn]. f_equal. replace k with (length mid + 1) by nlia.
             rewrite firstn_app_ge by nlia. f_equal.
             match goal with |- context[firstn ?n (c1 :: post)] => replace n with 1 by nlia end. reflexivity. }
           rewrite Hfk.
           replace (rev (skipn q cur :: mid ++ [c1])) with (c1 :: rev (skipn q cur :: mid)) by (rewrite app_comm_cons, rev_app_distr; reflexivity).
           cbv iota beta.
           replace (rev (firstn p' c1 :: rev (skipn q cur :: mid))) with ((skipn q cur :: mid) ++ [firstn p' c1])
             by (change (rev (firstn p' c1 :: rev (skipn q cur :: mid))) with (rev (rev (skipn q cur :: mid)) ++ [firstn p' c1]); rewrite rev_involutive; reflexivity).
           exists (new_wire_reader ((skipn q cur :: mid) ++ [firstn p' c1])), (WR w (s + k) p'), [].
           split; [reflexivity|]. split; [simpl; nlia|]. split; [|exact Vr].
           assert (Hcat : concat ((skipn q cur :: mid) ++ [firstn p' c1]) = x).
           { rewrite concat_app. cbn [concat]. rewrite app_nil_r. rewrite <- app_assoc.
             pose proof (between_lt [] mid post cur c1 q p' Hok Hok') as Hb. cbn [concat app length Nat.add] in Hb.
             unfold bytes, byte in *. rewrite Hb. cbn [concat]. rewrite skipn_app_le by nlia.
             cbn [concat] in Hr. rewrite Hr.
             assert (Hoff : length cur + length (concat mid) + p' - q = length x).
             { assert (Hf : firstn k (cur :: mid ++ c1 :: post) = cur :: mid).
               { replace k with (S (length mid)) by nlia. cbn [firstn]. f_equal. rewrite firstn_app_le by nlia. apply firstn_all. }
               unfold off in Ho. unfold bytes, byte in *. rewrite Hf in Ho. cbn [concat] in Ho. rewrite app_length in Ho. nlia. }
             rewrite Hoff. rewrite firstn_app_le by nlia. apply firstn_all. }
           rewrite <- Hcat at 1. apply view_wr_start.
Qed.

(* ---------------------------------------------------------------- io.ReadFull / io.CopyN / numeric fields *)
Lemma to_int_small n : (n < 9223372036854775808)%N -> to_int n = Z.of_N n.
Proof. intros H. unfold to_int. replace (n <? 9223372036854775808)%N with true by lia. reflexivity. Qed.

Lemma read_full_ok r all p x t : View r all p -> skipn p all = x ++ t ->
  exists r', read_full r (N.of_nat (length x)) = Ok (x, r') /\ View r' all (p + length x).
Proof.
  intros V H. unfold read_full. rewrite (view_remaining _ _ _ V).
  pose proof (skipn_eq_app _ _ _ _ (view_le _ _ _ V) H).
  replace (N.of_nat (length all - p) <? N.of_nat (length x))%N with false by lia.
  rewrite Nat2N.id. eapply read_bytes_n_ok; eassumption.
Qed.

Lemma copy_n_ok r all p x t : View r all p -> skipn p all = x ++ t -> (N.of_nat (length x) < 9223372036854775808)%N ->
  exists r', copy_n r (N.of_nat (length x)) = Ok (x, r') /\ View r' all (p + length x).
Proof.
  intros V H Hl. unfold copy_n. rewrite to_int_small by exact Hl.
  replace (Z.of_N (N.of_nat (length x)) <? 0)%Z with false by lia. eapply read_full_ok; eassumption.
Qed.

Lemma read_uint_ok m r all p x t : View r all p -> skipn p all = x ++ t -> 0 < length x ->
  (N.of_nat (length x) < 9223372036854775808)%N ->
  exists r', read_uint m r (N.of_nat (length x)) = Ok (fold_uint m x, r') /\ View r' all (p + length x).
Proof.
  intros V H H0 Hl. unfold read_uint. rewrite to_int_small by exact Hl. rewrite (view_remaining _ _ _ V).
  pose proof (skipn_eq_app _ _ _ _ (view_le _ _ _ V) H).
  replace (Z.of_N (N.of_nat (length x)) <=? 0)%Z with false by lia.
  replace (Z.of_nat (length all - p) <? Z.of_N (N.of_nat (length x)))%Z with false by lia.
  replace (Z.to_nat (Z.of_N (N.of_nat (length x)))) with (length x) by lia.
  destruct (read_bytes_n_ok x r all p t V H) as (r' & E & V'). rewrite E. cbn. eauto.
Qed.

(* the first chunk of a non-empty range is non-empty (needed where generated code indexes Range(..)[0][0]) *)
Lemma range_head r all p a b : View r all p -> a < b -> b <= length all ->
  exists x t cs, rd_range r (Z.of_nat a) (Z.of_nat b) = Some ((x :: t) :: cs).
Proof.
  intros (Hwf & <- & _) Hab Hb. destruct r as [buf q|w s q]; cbn [all_bytes] in *.
  - unfold rd_range. replace ((Z.of_nat a <? 0)%Z || (Z.of_nat (length buf) <? Z.of_nat b)%Z || (Z.of_nat b <? Z.of_nat a)%Z)%bool with false.
    2:{ symmetry. rewrite !orb_false_iff. repeat split; nlia. }
    rewrite !Nat2Z.id. destruct (skipn a buf) as [|x t] eqn:E.
    + assert (H0 : length (skipn a buf) = 0) by (rewrite E; reflexivity). rewrite skipn_length in H0. nlia.
    + destruct (b - a) as [|k] eqn:Ek; [nlia|]. cbn [firstn]. eauto.
  - unfold rd_range. rewrite acc_sz_all. unfold bytes, byte in *.
    replace ((Z.of_nat a <? 0)%Z || (Z.of_nat (length (concat w)) <? Z.of_nat b)%Z || (Z.of_nat b <? Z.of_nat a)%Z)%bool with false.
    2:{ symmetry. rewrite !orb_false_iff. repeat split; nlia. }
    replace (Z.of_nat a =? Z.of_nat b)%Z with false by nlia. rewrite !Nat2Z.id.
    destruct (find_start_spec w 0 0 a) as (k1 & sp & cs & E1 & N1 & Hsp & Ha); [unfold bytes, byte in *; nlia|].
    destruct (find_end_spec w 0 0 b) as (k2 & ep & ce & E2 & N2 & Hep & Hbb); [unfold bytes, byte in *; nlia|].
    unfold bytes, byte in *. rewrite E1, E2. cbn [Nat.add] in *.
    rewrite (nth_error_nth _ _ _ N1).
    assert (Hx : exists x t, skipn sp cs = x :: t).
    { destruct (skipn sp cs) as [|x t] eqn:E; [|eauto].
      assert (H0 : length (skipn sp cs) = 0) by (rewrite E; reflexivity). rewrite skipn_length in H0. nlia. }
    destruct Hx as (x & t & Hx).
    destruct (k1 =? k2) eqn:Ek.
    + apply Nat.eqb_eq in Ek. subst k2. rewrite N1 in N2. inversion N2; subst ce.
      rewrite Hx. destruct (ep - sp) as [|k] eqn:Ee; [nlia|]. cbn [firstn]. eauto.
    + rewrite Hx. cbn [app]. eauto.
Qed.
