(* Packet/EncInterest.v — what MakeInterest builds: one well-formed Interest element; with parameters the last name
   component is the SHA-256 of the parameters element and everything after it; the ranges handed to the signer are the
   name without that component followed by the parameters and SignatureInfo elements. *)
From Packet Require Import Model Spec ReadersProofs EncProofs DecGeneric DecProofs DecData DecInterest EncData.
From Coq Require Import ZifyBool ZifyN ZifyNat.
Open Scope N_scope.

(* ---------------------------------------------------------------- the fields after the name, before the parameters *)
Definition HD (cbp mbf : bool) (fh : option (list name)) (nonce : option N) (life : option Z) (hop : option N) : bytes :=
  (if cbp then [33; 0] else []) ++ (if mbf then [18; 0] else [])
  ++ oenc (fun l => tlv 30 (links_len l) (links_enc l)) fh ++ oenc (fun x => [10; 4] ++ be 4 x) nonce
  ++ oenc (fun t => nat_tlv 12 (ms_of t)) life ++ oenc (fun x => [34; 1; x mod 256]) hop.
Definition HDlen (cbp mbf : bool) (fh : option (list name)) (nonce : option N) (life : option Z) (hop : option N) : N :=
  (if cbp then 2 else 0) + (if mbf then 2 else 0) + osz (fun l => tlv_len 30 (links_len l)) fh + osz (fun _ => 6) nonce
  + osz (fun t => nat_tlv_len 12 (ms_of t)) life + osz (fun _ => 3) hop.

Lemma HD_elems cbp mbf fh nonce life hop :
  HD cbp mbf fh nonce life hop = enc_elems (int_head_elems cbp mbf fh nonce life (option_map (fun x => x mod 256) hop)).
Proof.
  unfold HD, int_head_elems. rewrite !enc_elems_app. f_equal; [destruct cbp; reflexivity|].
  f_equal; [destruct mbf; reflexivity|].
  f_equal; [apply (oenc_oel (fun l => tlv 30 (links_len l) (links_enc l)) links_enc); intros; rewrite links_len_ok; reflexivity|].
  f_equal; [destruct nonce; [cbn [oenc option_map oel]; rewrite enc_elems_one; unfold enc_elem; cbn [fst snd]; rewrite be_length; reflexivity|reflexivity]|].
  f_equal; [apply (oenc_oel (fun t => nat_tlv 12 (ms_of t)) (fun t => nat_enc (ms_of t))); intros; apply nat_tlv_elem|].
  destruct hop; reflexivity.
Qed.
Lemma HD_len cbp mbf fh nonce life hop : HDlen cbp mbf fh nonce life hop = blen (HD cbp mbf fh nonce life hop).
Proof.
  unfold HD, HDlen. rewrite !blen_app.
  rewrite (osz_oenc _ (fun l => tlv 30 (links_len l) (links_enc l))) by (intros; rewrite links_len_ok; apply tlv_len_ok).
  rewrite (osz_oenc (fun _ => 6) (fun x => [10; 4] ++ be 4 x)) by (intros; unfold blen; rewrite app_length, be_length; reflexivity).
  rewrite (osz_oenc _ (fun t => nat_tlv 12 (ms_of t))) by (intros; apply nat_tlv_len_ok).
  rewrite (osz_oenc (fun _ => 3) (fun x => [34; 1; x mod 256])) by reflexivity.
  destruct cbp, mbf; change (blen [33; 0]) with 2; change (blen [18; 0]) with 2; change (blen (@nil N)) with 0; lia.
Qed.

Definition ST44 (si : option siginfo) : bytes := oenc (fun s => tlv 44 (si_len s) (si_enc s)) si.
Lemma ST44_elem si : ST44 si = enc_elems (oel 44 (option_map si_enc si)).
Proof. unfold ST44. apply (oenc_oel (fun s => tlv 44 (si_len s) (si_enc s)) si_enc). intros; rewrite si_len_ok; reflexivity. Qed.
Lemma len_ST44 si : osz (fun s => tlv_len 44 (si_len s)) si = blen (ST44 si).
Proof. unfold ST44. apply osz_oenc. intros; rewrite si_len_ok; apply tlv_len_ok. Qed.
Definition AH (app : option (list bytes)) : bytes := match app with Some w => tl_enc 36 ++ tl_enc (wire_len w) | None => [] end.
Lemma app_elems app : AH app ++ CB app = enc_elems (oel 36 (option_map (@concat N) app)).
Proof. destruct app as [w|]; cbn [AH CB option_map oel]; [rewrite enc_elems_one, <- app_assoc, wire_len_ok|]; reflexivity. Qed.
Lemma len_AH app : osz (fun c => tlv_len 36 (wire_len c)) app = blen (AH app) + blen (CB app).
Proof. destruct app as [w|]; cbn [osz AH CB]; [|reflexivity]. unfold tlv_len. rewrite blen_app, <- !tlsz_enc, <- wire_len_ok. lia. Qed.

(* the interest record MakeInterest encodes *)
Definition int_rec nm1 (cfg : iconfig) app si : interest :=
  mkInt (Some nm1) (ic_cbp cfg) (ic_mbf cfg) (ic_fh cfg) (option_map (fun x => x mod 4294967296) (ic_nonce cfg))
        (ic_life cfg) (option_map (fun x => x mod 256) (ic_hop cfg)) app si None.
Definition HDc (cfg : iconfig) : bytes :=
  HD (ic_cbp cfg) (ic_mbf cfg) (ic_fh cfg) (option_map (fun x => x mod 4294967296) (ic_nonce cfg)) (ic_life cfg) (option_map (fun x => x mod 256) (ic_hop cfg)).

Lemma int_head_enc_ok nm1 cfg app si : int_head_enc (int_rec nm1 cfg app si) = name_tlv nm1 ++ HDc cfg.
Proof.
  unfold int_head_enc, int_rec, HDc, HD. cbn [i_name i_cbp i_mbf i_fh i_nonce i_life i_hop oenc].
  destruct (ic_hop cfg); cbn [option_map oenc]; [rewrite N.mod_mod by lia|]; rewrite <- ?app_assoc; reflexivity.
Qed.
Lemma int_head_len_ok nm1 cfg app si : int_head_len (int_rec nm1 cfg app si) = blen (name_tlv nm1 ++ HDc cfg).
Proof.
  rewrite blen_app. unfold HDc. rewrite <- HD_len. unfold int_head_len, int_rec, HDlen.
  cbn [i_name i_cbp i_mbf i_fh i_nonce i_life i_hop osz]. rewrite name_tlv_len_ok.
  destruct (ic_nonce cfg), (ic_hop cfg); cbn [option_map osz]; lia.
Qed.
Lemma int_len_ok nm1 cfg app si est :
  int_len (int_rec nm1 cfg app si) est =
  blen (name_tlv nm1) + blen (HDc cfg) + blen (AH app) + blen (CB app) + blen (ST44 si) + (if 0 <? est then tlv_len 46 est else 0).
Proof.
  unfold int_len. rewrite int_head_len_ok, blen_app. unfold int_rec. cbn [i_app i_si]. rewrite len_AH, len_ST44. lia.
Qed.

(* the value of the Interest element *)
Definition IV nmF cfg (app : option (list bytes)) si (sv : option bytes) : bytes :=
  enc_elems (int_elems nmF (ic_cbp cfg) (ic_mbf cfg) (ic_fh cfg) (option_map (fun x => x mod 4294967296) (ic_nonce cfg)) (ic_life cfg)
                       (option_map (fun x => x mod 256) (ic_hop cfg)) (option_map (@concat N) app) si sv).
Lemma IV_unfold nmF cfg app si sv :
  IV nmF cfg app si sv = name_tlv nmF ++ HDc cfg ++ AH app ++ CB app ++ ST44 si ++ enc_elems (oel 46 sv).
Proof.
  unfold IV, int_elems, int_tail_elems. rewrite !enc_elems_app. rewrite <- app_elems, ST44_elem.
  rewrite enc_elems_one, <- name_tlv_elem. unfold HDc. rewrite HD_elems.
  replace (option_map (fun x => x mod 256) (option_map (fun x => x mod 256) (ic_hop cfg))) with (option_map (fun x => x mod 256) (ic_hop cfg))
    by (destruct (ic_hop cfg); cbn; [rewrite N.mod_mod by lia|]; reflexivity).
  rewrite <- !app_assoc. reflexivity.
Qed.
Lemma tail_unfold (app : option (list bytes)) si sv :
  enc_elems (int_tail_elems (option_map (@concat N) app) si sv) = AH app ++ CB app ++ ST44 si ++ enc_elems (oel 46 sv).
Proof. unfold int_tail_elems. rewrite !enc_elems_app. rewrite <- app_elems, ST44_elem, <- !app_assoc. reflexivity. Qed.

(* ---------------------------------------------------------------- the signature step (one-octet length patch; estimate < 253) *)
Lemma set_last_app (Y : bytes) e x : set_last (Y ++ [e]) x = Ok (Y ++ [x]).
Proof. unfold set_last. rewrite removelast_last. destruct (Y ++ [e]) eqn:E; [destruct Y; discriminate|reflexivity]. Qed.

Lemma patch_sig_shape (P : list bytes) (X sv : bytes) est : est <= 252 -> blen sv <= est ->
  patch_sig (P ++ [X ++ tl_enc 46 ++ tl_enc est; []]) (S (length P)) sv = Ok (P ++ [X ++ tl_enc 46 ++ tl_enc (blen sv); sv]).
Proof.
  intros He Hs. unfold patch_sig.
  replace (P ++ [X ++ tl_enc 46 ++ tl_enc est; []]) with ((P ++ [X ++ tl_enc 46 ++ tl_enc est]) ++ [[]]) by (rewrite <- app_assoc; reflexivity).
  replace (S (length P)) with (length (P ++ [X ++ tl_enc 46 ++ tl_enc est])) by (rewrite app_length; simpl; lia).
  rewrite set_nth_app. rewrite <- app_assoc. cbn [app]. rewrite nth_error_app_len.
  rewrite (tl_enc_small est) by exact He. rewrite (tl_enc_small (blen sv)) by lia.
  rewrite !app_assoc. rewrite set_last_app. cbn [bind]. rewrite N.mod_small by lia.
  rewrite <- !app_assoc. rewrite set_nth_app. reflexivity.
Qed.

Section WithCrypto.
Variable sha256 : bytes -> bytes.
Hypothesis sha256_len : forall x, length (sha256 x) = 32%nat.
Variable sign : list bytes -> option bytes.

(* ---------------------------------------------------------------- the digest step *)
Lemma name_len_digest pre (a b : bytes) : length a = length b -> name_len (pre ++ [mkc 2 a]) = name_len (pre ++ [mkc 2 b]).
Proof.
  intros H. induction pre as [|c pre IH]; cbn [app name_len]; [|rewrite IH; reflexivity].
  unfold comp_len, blen. cbn [ctyp cval]. rewrite H. reflexivity.
Qed.
Lemma name_inner_snoc pre c : name_inner (pre ++ [c]) = name_inner pre ++ comp_enc c.
Proof. unfold name_inner. rewrite map_app, concat_app. cbn [map concat]. rewrite app_nil_r. reflexivity. Qed.
Lemma comp_enc_digest (v : bytes) : length v = 32%nat -> comp_enc (mkc 2 v) = [2; 32] ++ v.
Proof. intros H. unfold comp_enc. cbn [ctyp cval]. rewrite H. reflexivity. Qed.
Lemma zeros32_len : length zeros32 = 32%nat. Proof. reflexivity. Qed.

Lemma int_digest_block_ok pre (il : N) (HDb : bytes) (app : list bytes) (rest : list bytes) :
  il < two64 ->
  let nm1 := pre ++ [mkc 2 zeros32] in
  let AHb := tl_enc 36 ++ tl_enc (wire_len app) in
  let b0 := tl_enc 5 ++ tl_enc il ++ name_tlv nm1 ++ HDb ++ AHb in
  let npos := (length (tl_enc 7 ++ tl_enc (name_len nm1)) + length (name_inner (removelast nm1)) + 2)%nat in
  let h := sha256 (AHb ++ concat rest) in
  int_digest_block sha256 (b0 :: rest) npos (Some app) nm1 =
  Ok ((tl_enc 5 ++ tl_enc il ++ name_tlv (pre ++ [mkc 2 h]) ++ HDb ++ AHb) :: rest, pre ++ [mkc 2 h]).
Proof.
  intros Hil nm1 AHb b0 npos h. unfold int_digest_block.
  unfold b0 at 1. rewrite parse_tlnum_enc by (unfold two64; lia). change (tl_len 5) with 1%nat.
  replace (skipn 1 b0) with (tl_enc il ++ name_tlv nm1 ++ HDb ++ AHb) by reflexivity.
  rewrite parse_tlnum_enc by exact Hil.
  assert (HAH : length AHb = (tl_len (wire_len app) + 1)%nat).
  { unfold AHb. rewrite app_length, !tl_enc_length. change (tl_len 36) with 1%nat. lia. }
  assert (Hb0 : b0 = (tl_enc 5 ++ tl_enc il ++ name_tlv nm1 ++ HDb) ++ AHb) by (unfold b0; rewrite <- !app_assoc; reflexivity).
  replace (length b0 <? tl_len (wire_len app) + 1)%nat with false
    by (symmetry; apply Nat.ltb_ge; rewrite Hb0, app_length; lia).
  assert (Hsuf : skipn (length b0 - tl_len (wire_len app) - 1) b0 = AHb).
  { rewrite Hb0 at 2. rewrite Hb0, app_length.
    replace (length (tl_enc 5 ++ tl_enc il ++ name_tlv nm1 ++ HDb) + length AHb - tl_len (wire_len app) - 1)%nat
      with (length (tl_enc 5 ++ tl_enc il ++ name_tlv nm1 ++ HDb)) by lia.
    rewrite skipn_app_ge by lia. rewrite Nat.sub_diag. reflexivity. }
  rewrite Hsuf. fold h.
  (* the splice *)
  assert (Hrm : removelast nm1 = pre) by (unfold nm1; apply removelast_last).
  assert (Hh : length h = 32%nat) by apply sha256_len.
  assert (Hf32 : firstn 32 h = h) by (apply firstn_all2; lia).
  rewrite Hf32, Hh. change (skipn 32 zeros32) with (@nil N). rewrite app_nil_r. rewrite Hrm.
  set (nl := name_len nm1).
  assert (Hnl : name_len (pre ++ [mkc 2 h]) = nl) by (unfold nl, nm1; apply name_len_digest; rewrite Hh; reflexivity).
  assert (Hb0' : b0 = (tl_enc 5 ++ tl_enc il ++ tl_enc 7 ++ tl_enc nl ++ name_inner pre ++ [2; 32]) ++ zeros32 ++ HDb ++ AHb).
  { unfold b0, name_tlv, tlv. fold nl. unfold nm1. rewrite name_inner_snoc, (comp_enc_digest zeros32) by reflexivity.
    rewrite <- !app_assoc. reflexivity. }
  assert (Hdpos : (npos + 1 + tl_len il)%nat = length (tl_enc 5 ++ tl_enc il ++ tl_enc 7 ++ tl_enc nl ++ name_inner pre ++ [2; 32])).
  { unfold npos. rewrite Hrm. fold nl. rewrite !app_length, !tl_enc_length. change (tl_len 5) with 1%nat. simpl length. lia. }
  unfold splice. rewrite Hf32, Hh, Hdpos.
  set (F := tl_enc 5 ++ tl_enc il ++ tl_enc 7 ++ tl_enc nl ++ name_inner pre ++ [2; 32]) in *.
  replace (length b0 <? length F + 32)%nat with false
    by (symmetry; apply Nat.ltb_ge; rewrite Hb0', !app_length, zeros32_len; lia).
  cbn [bind]. rewrite Hb0'.
  rewrite firstn_app_le by lia. rewrite firstn_all.
  rewrite skipn_app_ge by lia. replace (length F + 32 - length F)%nat with 32%nat by lia.
  rewrite skipn_app_ge by (rewrite zeros32_len; lia). rewrite zeros32_len, Nat.sub_diag. cbn [skipn].
  f_equal. f_equal. f_equal.
  unfold F, name_tlv, tlv. rewrite Hnl, name_inner_snoc, (comp_enc_digest h) by exact Hh.
  rewrite <- !app_assoc. reflexivity.
Qed.
End WithCrypto.

(* ---------------------------------------------------------------- MakeInterest *)
Definition strip_digest (nm : name) : name :=
  match rev nm with c :: pre => if is_digest_comp c then rev pre else nm | [] => nm end.
Lemma int_name_true nm : int_name nm true = strip_digest nm ++ [mkc 2 zeros32].
Proof. reflexivity. Qed.
Lemma int_name_false nm : int_name nm false = strip_digest nm.
Proof. unfold int_name, strip_digest. destruct (rev nm) as [|c pre]; [reflexivity|]. destruct (is_digest_comp c); reflexivity. Qed.

Lemma int_siginfo_unsigned sg si est : int_siginfo sg false = Ok (si, est) -> si = None /\ est = 0.
Proof. unfold int_siginfo. destruct (sig_active sg); cbn; intros H; inversion H; auto. Qed.
Lemma int_siginfo_est sg si est : int_siginfo sg true = Ok (si, est) -> est <= 252.
Proof.
  unfold int_siginfo. destruct (sig_active sg) as [s|]; cbn; [|intros H; inversion H; lia].
  destruct (sg_nb s), (sg_na s); try discriminate.
  destruct (sg_type s =? 0)%Z; [|destruct (sg_key s); [|discriminate]];
    (destruct (253 <=? sg_est s) eqn:E; [discriminate|]); intros H; inversion H; subst; lia.
Qed.

Section MakeInterest.
Variable sha256 : bytes -> bytes.
Hypothesis sha256_len : forall x, length (sha256 x) = 32%nat.
Variable sign : list bytes -> option bytes.

Ltac int_setup nm1 cfg app si :=
  unfold int_plan, int_bufs; rewrite int_head_enc_ok, int_head_len_ok;
  cbn [int_rec i_name i_app i_si osz oenc]; fold (ST44 si);
  unfold p_add, w_put; cbn [p_done p_l w_done w_cur]; rewrite ?app_nil_l, ?N.add_0_l.

Theorem make_interest_noparams nm cfg sg si est :
  int_siginfo sg false = Ok (si, est) ->
  let nm1 := strip_digest nm in
  existsb is_digest_comp nm1 = false ->
  int_len (int_rec nm1 cfg None None) 0 < two64 ->
  exists W, make_interest sha256 sign nm cfg None sg = Ok (mkEnc W [] nm1) /\ concat W = enc_elem (5, IV nm1 cfg None None None).
Proof.
  intros Hsi nm1 Hnd Hb. destruct (int_siginfo_unsigned _ _ _ Hsi) as [-> ->].
  unfold make_interest. rewrite int_name_false. fold nm1. rewrite Hnd. cbn [negb andb]. rewrite Hsi. cbn [bind].
  change (mkInt (Some nm1) (ic_cbp cfg) (ic_mbf cfg) (ic_fh cfg) (option_map (fun x => x mod 4294967296) (ic_nonce cfg))
                (ic_life cfg) (option_map (fun x => x mod 256) (ic_hop cfg)) None None None) with (int_rec nm1 cfg None None).
  pose proof (int_len_ok nm1 cfg None None 0) as Hil. change (0 <? 0) with false in Hil. cbv iota in Hil.
  cbn [AH CB ST44 oenc] in Hil. change (blen (@nil N)) with 0 in Hil. rewrite !N.add_0_r in Hil.
  set (il := int_len (int_rec nm1 cfg None None) 0) in *.
  destruct (NT_cons nm1) as [nt Hnt].
  assert (Hil0 : 0 < il) by (rewrite Hil; pose proof (blen_pos_cons _ 7 nt Hnt); lia).
  assert (HV : IV nm1 cfg None None None = name_tlv nm1 ++ HDc cfg).
  { rewrite IV_unfold. cbn [AH CB ST44 oenc oel]. replace (enc_elems []) with (@nil N) by reflexivity. rewrite !app_nil_r. reflexivity. }
  assert (HilV : il = blen (IV nm1 cfg None None None)) by (rewrite HV, Hil, blen_app; reflexivity).
  clearbody il. int_setup nm1 cfg (@None (list bytes)) (@None siginfo). change (0 <? 0) with false. cbv iota.
  cbn [ST44 oenc]. rewrite N.add_0_r, app_nil_r.
  unfold p_fin, w_fin. cbn [p_done p_l w_done w_cur].
  replace (0 <? blen (name_tlv nm1 ++ HDc cfg)) with true by (rewrite blen_app; pose proof (blen_pos_cons _ 7 nt Hnt); lia).
  cbv iota.
  destruct (name_tlv nm1 ++ HDc cfg) as [|b l] eqn:Ex; [rewrite Hnt in Ex; discriminate|].
  cbn [app]. rewrite packet_plan_shape by exact Hil0. cbn [bind packet_bufs].
  rewrite plan_ok_intro.
  2:{ cbn [map fst snd]. f_equal. rewrite !blen_app, <- !tlsz_enc. change (tlsz 5) with 1. lia. }
  cbn [negb]. unfold int_sig_block. change (0 <? 0) with false. cbv iota. cbn [bind].
  eexists. split; [reflexivity|].
  unfold bufs_of. cbn [map snd concat]. rewrite app_nil_r.
  rewrite HilV. unfold enc_elem. cbn [fst snd]. rewrite HV. rewrite <- !app_assoc. reflexivity.
Qed.


(* MakeInterest refuses a parameters digest in a name that gets no parameters *)
Lemma make_interest_digest_free nm cfg sg e :
  make_interest sha256 sign nm cfg None sg = Ok e -> existsb is_digest_comp (strip_digest nm) = false.
Proof.
  unfold make_interest. rewrite int_name_false. cbn [negb andb].
  destruct (existsb is_digest_comp (strip_digest nm)); [discriminate|reflexivity].
Qed.

Lemma removelast_snoc {A} (l : list A) x : removelast (l ++ [x]) = l.
Proof. apply removelast_last. Qed.

Theorem make_interest_params nm cfg a sg si est :
  int_siginfo sg true = Ok (si, est) ->
  let pre := strip_digest nm in
  int_len (int_rec (pre ++ [mkc 2 zeros32]) cfg (Some a) si) est < two64 ->
  exists COV, (0 < est -> concat COV = name_inner pre ++ AH (Some a) ++ CB (Some a) ++ ST44 si) /\ (est = 0 -> COV = []) /\
    (0 < est -> sign COV = None -> make_interest sha256 sign nm cfg (Some a) sg = Err) /\
    (forall sv, 0 < est -> sign COV = Some sv -> est < blen sv -> make_interest sha256 sign nm cfg (Some a) sg = Err) /\
    (forall svo, (est = 0 -> svo = None) -> (0 < est -> exists sv, svo = Some sv /\ sign COV = Some sv /\ blen sv <= est) ->
       let h := sha256 (AH (Some a) ++ CB (Some a) ++ ST44 si ++ enc_elems (oel 46 svo)) in
       let nmF := pre ++ [mkc 2 h] in
       exists W, make_interest sha256 sign nm cfg (Some a) sg = Ok (mkEnc W COV nmF) /\ concat W = enc_elem (5, IV nmF cfg (Some a) si svo)).
Proof.
  intros Hsi pre Hb. pose proof (int_siginfo_est _ _ _ Hsi) as He252.
  unfold make_interest. cbn [negb andb]. rewrite Hsi. cbn [bind]. rewrite int_name_true. fold pre.
  set (nm1 := pre ++ [mkc 2 zeros32]) in *.
  change (mkInt (Some nm1) (ic_cbp cfg) (ic_mbf cfg) (ic_fh cfg) (option_map (fun x => x mod 4294967296) (ic_nonce cfg))
                (ic_life cfg) (option_map (fun x => x mod 256) (ic_hop cfg)) (Some a) si None) with (int_rec nm1 cfg (Some a) si).
  pose proof (int_len_ok nm1 cfg (Some a) si est) as Hil.
  set (il := int_len (int_rec nm1 cfg (Some a) si) est) in *.
  destruct (NT_cons nm1) as [nt Hnt].
  assert (Hil0 : 0 < il) by (rewrite Hil; pose proof (blen_pos_cons _ 7 nt Hnt); lia).
  clearbody il. int_setup nm1 cfg (Some a) si.
  rewrite fold_pcut0 by reflexivity. rewrite fold_ext0 by reflexivity.
  unfold p_cut, w_cut. cbn [p_done p_l w_done w_cur app]. rewrite ?N.add_0_l, ?app_nil_l.
  set (HEAD := name_tlv nm1 ++ HDc cfg) in *.
  set (B0 := HEAD ++ tl_enc 36 ++ tl_enc (wire_len a)).
  set (h0 := blen HEAD + (1 + tlsz (wire_len a))).
  assert (Hh0 : h0 = blen B0) by (unfold h0, B0; rewrite !blen_app, <- !tlsz_enc; change (tlsz 36) with 1; lia).
  assert (Hrm : removelast nm1 = pre) by (unfold nm1; apply removelast_last).
  (* the name as finally written has the same sizes *)
  assert (Hfinal : forall svo, (forall sv, svo = Some sv -> blen sv <= est /\ 0 < est) -> (svo = None -> est = 0) ->
            let amt := est - match svo with Some sv => blen sv | None => 0 end in
            forall nmF, name_len nmF = name_len nm1 -> blen (name_inner nmF) = blen (name_inner nm1) ->
            amt <= il /\ il - amt = blen (IV nmF cfg (Some a) si svo)).
  { intros svo Hs1 Hs2 amt nmF Hnl Hni. rewrite IV_unfold, Hil.
    assert (Hnt' : blen (name_tlv nmF) = blen (name_tlv nm1)) by (unfold name_tlv, tlv; rewrite !blen_app, Hnl, Hni; reflexivity).
    rewrite !blen_app, Hnt'. destruct svo as [sv|]; cbn [oel].
    - destruct (Hs1 sv eq_refl) as [Hle Hpos]. replace (0 <? est) with true by lia.
      rewrite enc_elems_one. unfold enc_elem. cbn [fst snd]. rewrite !blen_app, <- !tlsz_enc. fold (blen sv).
      unfold tlv_len. change (tlsz 46) with 1. unfold amt.
      assert (tlsz est = 1) by (unfold tlsz, tl_len; replace (est <=? 252) with true by lia; reflexivity).
      assert (tlsz (blen sv) = 1) by (unfold tlsz, tl_len; replace (blen sv <=? 252) with true by lia; reflexivity).
      lia.
    - rewrite (Hs2 eq_refl). change (0 <? 0) with false. cbv iota. replace (enc_elems []) with (@nil N) by reflexivity.
      change (blen (@nil N)) with 0. unfold amt. lia. }
  assert (Hni : forall v : bytes, length v = 32%nat -> name_len (pre ++ [mkc 2 v]) = name_len nm1 /\ blen (name_inner (pre ++ [mkc 2 v])) = blen (name_inner nm1)).
  { intros v Hv. split; [apply name_len_digest; rewrite Hv; reflexivity|].
    unfold nm1. rewrite !name_inner_snoc, !blen_app, (comp_enc_digest v), (comp_enc_digest zeros32) by (assumption || reflexivity).
    f_equal. unfold blen. rewrite !app_length. f_equal. f_equal. exact Hv. }
  rewrite len_ST44.
  destruct (0 <? est) eqn:Eest.
  - (* signed *)
    unfold p_fin, w_fin. cbn [p_done p_l w_done w_cur app]. change (0 <? 0) with false. cbv iota.
    rewrite <- !app_assoc. cbn [app].
    rewrite packet_plan_shape by exact Hil0. cbn [bind packet_bufs app].
    rewrite plan_ok_intro.
    2:{ cbn [map fst snd]. rewrite map_app, map_ext_len. cbn [map fst snd]. f_equal.
        - rewrite !blen_app, <- !tlsz_enc. fold B0. rewrite <- Hh0. unfold h0. change (tlsz 5) with 1. lia.
        - f_equal. rewrite !blen_app, <- !tlsz_enc. change (tlsz 46) with 1. reflexivity. }
    cbn [negb].
    unfold cover. cbn [w_done w_cur bufs_of map snd length]. fold (bufs_of (map (pair false) a)). rewrite bufs_of_ext.
    cbn [Nat.eqb nth skipn]. rewrite Hrm.
    assert (Hspos : N.to_nat (blen HEAD) = length HEAD) by (unfold blen; apply Nat2N.id).
    rewrite Hspos. fold B0.
    assert (HskB0 : skipn (length HEAD) B0 = tl_enc 36 ++ tl_enc (wire_len a)).
    { unfold B0. rewrite skipn_app_ge by lia. rewrite Nat.sub_diag. reflexivity. }
    rewrite HskB0. rewrite firstn_app_le by lia. rewrite firstn_all.
    match goal with |- context[int_sig_block sign _ _ ?cv est] => exists cv end.
    split; [intros _; cbn [concat]; rewrite !concat_app; cbn [concat AH CB]; rewrite !app_nil_r, <- !app_assoc; reflexivity|].
    split; [intros ->; discriminate|].
    unfold int_sig_block. rewrite Eest.
    split; [intros _ Hs; rewrite Hs; reflexivity|].
    split; [intros sv _ Hs Hlt; rewrite Hs; replace (est <? blen sv) with true by lia; reflexivity|].
    intros svo _ Hsome. destruct Hsome as (sv & -> & Hs & Hle); [lia|]. rewrite Hs.
    set (h := sha256 (AH (Some a) ++ CB (Some a) ++ ST44 si ++ enc_elems (oel 46 (Some sv)))). set (nmF := pre ++ [mkc 2 h]).
    replace (est <? blen sv) with false by lia.
    unfold bufs_of. cbn [map snd]. rewrite map_app. cbn [map snd]. fold (bufs_of (map (pair false) a)). rewrite bufs_of_ext.
    set (P := ((tl_enc 5 ++ tl_enc il) ++ B0) :: a).
    match goal with |- context[patch_sig ?wr ?ix sv] =>
      replace ix with (S (length P)) by (rewrite app_length, repeat_length; unfold P; cbn [length]; unfold bytes, byte in *; lia);
      change wr with (P ++ [ST44 si ++ tl_enc 46 ++ tl_enc est; []]) end.
    rewrite patch_sig_shape by lia. unfold P. cbn [bind app].
    (* digest *)
    replace ((tl_enc 5 ++ tl_enc il) ++ B0) with (tl_enc 5 ++ tl_enc il ++ name_tlv nm1 ++ HDc cfg ++ tl_enc 36 ++ tl_enc (wire_len a))
      by (unfold B0, HEAD; rewrite <- !app_assoc; reflexivity).
    match goal with |- context[int_digest_block sha256 (_ :: ?rs) _ _ _] =>
      pose proof (int_digest_block_ok sha256 sha256_len sign pre il (HDc cfg) a rs Hb) as Hd end;
    cbv zeta in Hd; fold nm1 in Hd; rewrite Hrm in Hd; unfold bytes, byte in *; rewrite Hd; clear Hd.
    cbn [bind].
    assert (Hheq : sha256 ((tl_enc 36 ++ tl_enc (wire_len a)) ++ concat (a ++ [ST44 si ++ tl_enc 46 ++ tl_enc (blen sv); sv])) = h).
    { unfold h. f_equal. rewrite concat_app. cbn [concat AH CB oel]. rewrite enc_elems_one. unfold enc_elem. cbn [fst snd].
      rewrite app_nil_r, <- !app_assoc. reflexivity. }
    unfold bytes, byte in *. rewrite Hheq. fold nmF.
    destruct (Hni h (sha256_len _)) as [Hnl' Hni'].
    destruct (Hfinal (Some sv)) with (nmF := nmF) as [Hamt Hnew]; [intros ? E0; inversion E0; subst; split; lia|discriminate|exact Hnl'|exact Hni'|].
    cbn [blen] in Hamt, Hnew.
    destruct (blen sv <? est) eqn:Elt.
    + rewrite shrink_length_hdr by (try lia; exact Hb). cbn [bind].
      eexists. split; [reflexivity|].
      cbn [concat]. rewrite concat_app. cbn [concat]. rewrite app_nil_r.
      rewrite Hnew. unfold enc_elem. cbn [fst snd]. rewrite IV_unfold. cbn [oel AH CB]. rewrite enc_elems_one. unfold enc_elem. cbn [fst snd].
      rewrite <- !app_assoc. reflexivity.
    + replace (est <? blen sv) with false by lia. assert (Heq : blen sv = est) by lia.
      eexists. split; [reflexivity|].
      cbn [concat]. rewrite concat_app. cbn [concat]. rewrite app_nil_r.
      rewrite Heq, N.sub_diag, N.sub_0_r in Hnew.
      rewrite Hnew. unfold enc_elem. cbn [fst snd]. rewrite IV_unfold. cbn [oel AH CB]. rewrite enc_elems_one. unfold enc_elem. cbn [fst snd].
      rewrite <- !app_assoc. reflexivity.
  - (* parameters only *)
    assert (Hest0 : est = 0) by lia. subst est.
    unfold p_fin, w_fin. cbn [p_done p_l w_done w_cur app].
    exists []. split; [lia|]. split; [reflexivity|]. split; [lia|]. split; [intros; lia|].
    intros svo Hnone _. rewrite (Hnone eq_refl) in *. clear Hnone.
    set (h := sha256 (AH (Some a) ++ CB (Some a) ++ ST44 si ++ enc_elems (oel 46 None))). set (nmF := pre ++ [mkc 2 h]).
    unfold int_sig_block. change (0 <? 0) with false. cbv iota.
    destruct (Hni h (sha256_len _)) as [Hnl' Hni'].
    destruct (Hfinal None) with (nmF := nmF) as [_ Hnew]; [discriminate|reflexivity|exact Hnl'|exact Hni'|].
    rewrite N.sub_0_r in Hnew.
    destruct (ST44 si) as [|s0 st0] eqn:Est.
    + change (0 <? blen []) with false. cbv iota. rewrite packet_plan_shape by exact Hil0. cbn [bind packet_bufs].
      rewrite plan_ok_intro.
      2:{ cbn [map fst snd]. rewrite map_ext_len. f_equal. rewrite !blen_app, <- !tlsz_enc. fold B0. rewrite <- Hh0. unfold h0. change (tlsz 5) with 1. lia. }
      cbn [negb bind].
      unfold bufs_of. cbn [map snd]. fold (bufs_of (map (pair false) a)). rewrite bufs_of_ext.
      replace ((tl_enc 5 ++ tl_enc il) ++ B0) with (tl_enc 5 ++ tl_enc il ++ name_tlv nm1 ++ HDc cfg ++ tl_enc 36 ++ tl_enc (wire_len a))
        by (unfold B0, HEAD; rewrite <- !app_assoc; reflexivity).
      match goal with |- context[int_digest_block sha256 (_ :: ?rs) _ _ _] =>
        pose proof (int_digest_block_ok sha256 sha256_len sign pre il (HDc cfg) a rs Hb) as Hd end;
      cbv zeta in Hd; fold nm1 in Hd; unfold bytes, byte in *; rewrite Hd; clear Hd.
      cbn [bind].
      assert (Hheq : sha256 ((tl_enc 36 ++ tl_enc (wire_len a)) ++ concat a) = h).
      { unfold h. f_equal. cbn [AH CB oel]. replace (enc_elems []) with (@nil N) by reflexivity. rewrite !app_nil_r. reflexivity. }
      unfold bytes, byte in *. rewrite Hheq. fold nmF. change (0 <? 0) with false. cbv iota.
      eexists. split; [reflexivity|].
      cbn [concat]. rewrite Hnew. unfold enc_elem. cbn [fst snd]. rewrite IV_unfold. cbn [oel AH CB].
      replace (enc_elems []) with (@nil N) by reflexivity. rewrite Est, !app_nil_r, <- !app_assoc. reflexivity.
    + replace (0 <? blen (s0 :: st0)) with true by (unfold blen; simpl; lia). cbv iota. cbn [app].
      rewrite packet_plan_shape by exact Hil0. cbn [bind packet_bufs app].
      rewrite plan_ok_intro.
      2:{ cbn [map fst snd]. rewrite map_app, map_ext_len. cbn [map fst snd]. f_equal.
          rewrite !blen_app, <- !tlsz_enc. fold B0. rewrite <- Hh0. unfold h0. change (tlsz 5) with 1. lia. }
      cbn [negb bind].
      unfold bufs_of. cbn [map snd]. rewrite map_app. cbn [map snd]. fold (bufs_of (map (pair false) a)). rewrite bufs_of_ext.
      replace ((tl_enc 5 ++ tl_enc il) ++ B0) with (tl_enc 5 ++ tl_enc il ++ name_tlv nm1 ++ HDc cfg ++ tl_enc 36 ++ tl_enc (wire_len a))
        by (unfold B0, HEAD; rewrite <- !app_assoc; reflexivity).
      match goal with |- context[int_digest_block sha256 (_ :: ?rs) _ _ _] =>
        pose proof (int_digest_block_ok sha256 sha256_len sign pre il (HDc cfg) a rs Hb) as Hd end;
      cbv zeta in Hd; fold nm1 in Hd; unfold bytes, byte in *; rewrite Hd; clear Hd.
      cbn [bind].
      assert (Hheq : sha256 ((tl_enc 36 ++ tl_enc (wire_len a)) ++ concat (a ++ [s0 :: st0])) = h).
      { unfold h. f_equal. rewrite concat_app. cbn [concat AH CB oel]. replace (enc_elems []) with (@nil N) by reflexivity.
        rewrite !app_nil_r, <- !app_assoc. reflexivity. }
      unfold bytes, byte in *. rewrite Hheq. fold nmF. change (0 <? 0) with false. cbv iota.
      eexists. split; [reflexivity|].
      cbn [concat]. rewrite concat_app. cbn [concat]. rewrite app_nil_r.
      rewrite Hnew. unfold enc_elem. cbn [fst snd]. rewrite IV_unfold. cbn [oel AH CB].
      replace (enc_elems []) with (@nil N) by reflexivity. rewrite Est, !app_nil_r, <- !app_assoc. reflexivity.
Qed.
End MakeInterest.
