(* Property C12 — signed packets verify iff untampered; signer and parser cover the same bytes; parameters digest.
   Only theorem statements closed by `exact`, each followed by Print Assumptions.
   Crypto primitives never appear as axioms: sha256 is an arbitrary 32-byte-valued function, `sign` an arbitrary function,
   the validators' checks are arbitrary predicates `chk` accepting what the signing function produces. *)
From Packet Require Import Model Spec ReadersProofs EncProofs DecGeneric DecProofs DecData DecInterest EncData EncInterest Roundtrip GenSigners SigProofs Tamper TamperInt TamperName.
Open Scope N_scope.
Arguments ROk {A}.

(* The bytes handed to the signer are the bytes the parser returns as SigCovered — Data, every reader/segmentation. *)
Theorem sig_covered_agree_data : forall sign nm cfg content sg si est e,
  data_siginfo sg = Ok (si, est) -> name_ok nm -> meta_wf (meta_of cfg) -> signer_ok sg -> data_fits nm cfg content si est ->
  make_data sign nm cfg content sg = Ok e ->
  forall r, View r (concat (e_wire e)) 0 -> exists d cov, read_data r = ROk d cov /\ concat cov = concat (e_cov e).
Proof. exact sig_covered_agree_data_thm. Qed.
Print Assumptions sig_covered_agree_data.

(* ... and Interest (signed: est > 0). *)
Theorem sig_covered_agree_interest : forall (sha256 : bytes -> bytes), (forall x, length (sha256 x) = 32%nat) ->
  forall sign nm cfg app sg si est e,
  let need := match app with Some _ => true | None => false end in
  let pre := strip_digest nm in
  let nm1 := if need then pre ++ [mkc 2 zeros32] else pre in
  int_siginfo sg need = Ok (si, est) -> 0 < est -> name_ok pre ->
  iconfig_ok cfg -> signer_ok sg -> signer_int_ok sg -> int_fits nm1 cfg app si est ->
  make_interest sha256 sign nm cfg app sg = Ok e ->
  forall r, View r (concat (e_wire e)) 0 -> exists i cov, read_interest sha256 r = ROk i cov /\ concat cov = concat (e_cov e).
Proof. exact sig_covered_agree_int_thm. Qed.
Print Assumptions sig_covered_agree_interest.

(* An Interest with parameters always carries the correct parameters digest as its last name component: the SHA-256 of
   the region prescribed by the packet format, located on the encoded bytes by the independent Spec.params_digest_region. *)
Theorem digest_is_last_component : forall (sha256 : bytes -> bytes), (forall x, length (sha256 x) = 32%nat) ->
  forall sign nm cfg a sg si est e,
  let pre := strip_digest nm in
  int_siginfo sg true = Ok (si, est) -> name_ok pre -> iconfig_ok cfg -> signer_ok sg -> signer_int_ok sg ->
  int_fits (pre ++ [mkc 2 zeros32]) cfg (Some a) si est ->
  make_interest sha256 sign nm cfg (Some a) sg = Ok e ->
  exists region, params_digest_region (concat (e_wire e)) = Some region /\ e_final e = pre ++ [mkc 2 (sha256 region)].
Proof. exact digest_is_last_component_thm. Qed.
Print Assumptions digest_is_last_component.

(* ... and an Interest whose last component is not that digest is rejected on decode, whatever the hash function. *)
Theorem bad_digest_rejected : forall (sha256 : bytes -> bytes) i cx nm c a,
  i_name i = Some (nm ++ [c]) -> i_app i = Some a ->
  cval c <> sha256 (concat (ix_dcov cx)) -> check_interest sha256 i cx = false.
Proof. exact check_interest_bad_digest. Qed.
Print Assumptions bad_digest_rejected.

(* The table of shipped signers is re-generated on every run from observations of the live signer objects (GenSigners.v:
   SigInfo(), EstimateSize(), and the type code under which the validator for that kind of key accepts a packet the signer
   signed); every signer announces the signature type its validator insists on. *)
Theorem shipped_signer_types_match : forallb (fun r => (sf_type r =? sf_vtype r)%Z) shipped_signers = true.
Proof. exact shipped_types_match. Qed.
Print Assumptions shipped_signer_types_match.

(* ... reserves room for the signature it produces, and the Interest signers stay below MakeInterest's 253-octet limit. *)
Theorem shipped_signer_estimates_admissible :
  forallb (fun r => (0 <? sf_est r) && sf_fits r && (if sf_intfields r then sf_est r <? 253 else true)) shipped_signers = true.
Proof. exact shipped_estimates_admissible. Qed.
Print Assumptions shipped_signer_estimates_admissible.

(* For every shipped signer type the matching validator accepts an untampered Data ... *)
Theorem shipped_signers_validate_data : forall row, In row shipped_signers ->
  forall (chk : bytes -> bytes -> bool) (sgn : bytes -> bytes), (forall msg, chk msg (sgn msg) = true) ->
  forall nm cfg content sg s si est e,
    sig_active sg = Some s -> sg_type s = sf_type row -> (0 <= sg_type s < two64z)%Z -> 0 < est ->
    data_siginfo sg = Ok (si, est) -> name_ok nm -> meta_wf (meta_of cfg) -> signer_ok sg -> data_fits nm cfg content si est ->
    make_data (fun cov => Some (sgn (concat cov))) nm cfg content sg = Ok e ->
    forall r, View r (concat (e_wire e)) 0 ->
      exists d cov sv, read_data r = ROk d cov /\ do_sv (obs_data d) = Some sv /\
        ((sig_type_of (do_si (obs_data d)) =? sf_vtype row)%Z && chk (concat cov) sv)%bool = true.
Proof. exact shipped_data_validates. Qed.
Print Assumptions shipped_signers_validate_data.

(* ... and an untampered signed Interest. *)
Theorem shipped_signers_validate_interest : forall (sha256 : bytes -> bytes), (forall x, length (sha256 x) = 32%nat) ->
  forall row, In row shipped_signers ->
  forall (chk : bytes -> bytes -> bool) (sgn : bytes -> bytes), (forall msg, chk msg (sgn msg) = true) ->
  forall nm cfg a sg s si est e,
    sig_active sg = Some s -> sg_type s = sf_type row -> (0 <= sg_type s < two64z)%Z -> 0 < est ->
    int_siginfo sg true = Ok (si, est) -> name_ok (strip_digest nm) -> iconfig_ok cfg -> signer_ok sg -> signer_int_ok sg ->
    int_fits (strip_digest nm ++ [mkc 2 zeros32]) cfg (Some a) si est ->
    make_interest sha256 (fun cov => Some (sgn (concat cov))) nm cfg (Some a) sg = Ok e ->
    forall r, View r (concat (e_wire e)) 0 ->
      exists i cov sv, read_interest sha256 r = ROk i cov /\ io_sv (obs_int i) = Some sv /\
        ((sig_type_of (io_si (obs_int i)) =? sf_vtype row)%Z && chk (concat cov) sv)%bool = true.
Proof. exact shipped_interest_validates. Qed.
Print Assumptions shipped_signers_validate_interest.

(* Tampering, Data: ANY single bit inside the signed portion or the SignatureValue element (type, length and value octets
   alike; position value_offset .. end of the packet, i.e. everything after the outer Data header).  For every packet
   MakeData builds with a signer, every such bit i, every reader over the flipped bytes: if the packet still decodes
   (ReadData returns a Data) then the pair (covered bytes, signature value) handed to a validator differs from the pair
   that was signed (covered bytes given to the signer, signature it returned) — acceptance needs a forgery of the primitive.
   No restriction to value octets: the proof runs the parser's invariant on arbitrary bytes (Tamper.parse_data_inv). *)
Theorem tamper_any_bit_data : forall sign nm cfg content sg si est e sv,
  data_siginfo sg = Ok (si, est) -> name_ok nm -> meta_wf (meta_of cfg) -> signer_ok sg -> data_fits nm cfg content si est ->
  0 < est -> make_data sign nm cfg content sg = Ok e -> sign (e_cov e) = Some sv ->
  forall i, (value_offset (concat (e_wire e)) <= i / 8 < length (concat (e_wire e)))%nat ->
  forall r, View r (flip_bit (concat (e_wire e)) i) 0 ->
  forall d' cov', read_data r = ROk d' cov' ->
    ~ (concat cov' = concat (e_cov e) /\ do_sv (obs_data d') = Some sv).
Proof. exact tamper_any_bit_read_data_thm. Qed.
Print Assumptions tamper_any_bit_data.

(* Tampering, signed Interest: ANY single bit inside the signed portion or the signature — the two signed ranges
   (1) the name's value up to, not including, its ParametersSha256Digest component [s1, s1 + |name without digest|), s1 =
   outer header + Name header located on the bytes with value_offset; (2) the ApplicationParameters and SignatureInfo
   elements — and (3) the SignatureValue element: (2)+(3) = everything from the parameters element to the end of the
   packet.  T, L and V octets alike.  If ReadInterest still returns an Interest (whatever the arbitrary hash function makes
   of the parameters digest), the (covered bytes, signature value) pair differs from the signed one.
   Outside the statement because not covered by the signature: the Name's own T/L, the digest component (guarded by the
   parameters digest: bad_digest_rejected) and the unsigned CanBePrefix..HopLimit fields. *)
Theorem tamper_any_bit_interest : forall (sha256 : bytes -> bytes), (forall x, length (sha256 x) = 32%nat) ->
  forall sign nm cfg a sg si est e sv,
  let pre := strip_digest nm in
  int_siginfo sg true = Ok (si, est) -> 0 < est -> name_ok pre ->
  iconfig_ok cfg -> signer_ok sg -> signer_int_ok sg -> int_fits (pre ++ [mkc 2 zeros32]) cfg (Some a) si est ->
  make_interest sha256 sign nm cfg (Some a) sg = Ok e -> sign (e_cov e) = Some sv ->
  let W := concat (e_wire e) in
  let s1 := (value_offset W + value_offset (skipn (value_offset W) W))%nat in
  let tail := enc_elems (int_tail_elems (Some (concat a)) si (Some sv)) in
  forall i, (s1 <= i / 8 < s1 + length (name_inner pre))%nat \/ (length W - length tail <= i / 8 < length W)%nat ->
  forall r, View r (flip_bit W i) 0 ->
  forall i' cov', read_interest sha256 r = ROk i' cov' ->
    ~ (concat cov' = concat (e_cov e) /\ io_sv (obs_int i') = Some sv).
Proof. exact tamper_any_bit_interest_thm. Qed.
Print Assumptions tamper_any_bit_interest.

(* ... hence rejected.  Hypothesis used, stated exactly: for the quantified signer the validator's check accepts no pair
   other than the one that was signed —  forall m s, chk m s = true -> m = covered bytes handed to the signer /\ s = the
   signature it returned  (ideal unforgeability; collision-freedom of the hash and of the signature scheme are instances).
   Then a packet with one flipped bit (any T, L or V octet of the signed portion or of the signature element) that still
   decodes is rejected by chk. *)
Theorem tamper_any_bit_data_rejected : forall (chk : bytes -> bytes -> bool) sign nm cfg content sg si est e sv,
  data_siginfo sg = Ok (si, est) -> name_ok nm -> meta_wf (meta_of cfg) -> signer_ok sg -> data_fits nm cfg content si est ->
  0 < est -> make_data sign nm cfg content sg = Ok e -> sign (e_cov e) = Some sv ->
  (forall m s, chk m s = true -> m = concat (e_cov e) /\ s = sv) ->
  forall i, (value_offset (concat (e_wire e)) <= i / 8 < length (concat (e_wire e)))%nat ->
  forall r, View r (flip_bit (concat (e_wire e)) i) 0 ->
  forall d' cov', read_data r = ROk d' cov' ->
    match do_sv (obs_data d') with Some s' => chk (concat cov') s' = false | None => True end.
Proof. exact tamper_any_bit_data_rejected_thm. Qed.
Print Assumptions tamper_any_bit_data_rejected.
Theorem tamper_any_bit_interest_rejected : forall (chk : bytes -> bytes -> bool) (sha256 : bytes -> bytes), (forall x, length (sha256 x) = 32%nat) ->
  forall sign nm cfg a sg si est e sv,
  let pre := strip_digest nm in
  int_siginfo sg true = Ok (si, est) -> 0 < est -> name_ok pre ->
  iconfig_ok cfg -> signer_ok sg -> signer_int_ok sg -> int_fits (pre ++ [mkc 2 zeros32]) cfg (Some a) si est ->
  make_interest sha256 sign nm cfg (Some a) sg = Ok e -> sign (e_cov e) = Some sv ->
  (forall m s, chk m s = true -> m = concat (e_cov e) /\ s = sv) ->
  let W := concat (e_wire e) in
  let s1 := (value_offset W + value_offset (skipn (value_offset W) W))%nat in
  let tail := enc_elems (int_tail_elems (Some (concat a)) si (Some sv)) in
  forall i, (s1 <= i / 8 < s1 + length (name_inner pre))%nat \/ (length W - length tail <= i / 8 < length W)%nat ->
  forall r, View r (flip_bit W i) 0 ->
  forall i' cov', read_interest sha256 r = ROk i' cov' ->
    match io_sv (obs_int i') with Some s' => chk (concat cov') s' = false | None => True end.
Proof. exact tamper_any_bit_interest_rejected_thm. Qed.
Print Assumptions tamper_any_bit_interest_rejected.

(* NOT proved, named tamper_outer_header_bit_partial — full statement: the same conclusion for a flipped bit in the OUTER type
   or length octets of the packet (positions 0 .. value_offset W - 1: `06 L` / `05 L`, the length ShrinkLength rewrites).
   These octets are not part of the signed portion; a flip there re-frames the whole packet (a shorter outer length hands
   the rest of the bytes to the top-level loop, whose Data/Interest contexts persist across elements).  Covered by the
   harness's exhaustive single-bit sweep of every generated signed packet against the real validators — a test. *)

(* Tampering, well-formed modifications (Data).  Every modification that leaves a well-formed Data with different name /
   MetaInfo / content / SignatureInfo / signature value is decoded to a (covered bytes, signature value) pair different from
   the signed one. *)
Theorem tamper_value_byte_detected : forall n m c si sv n' m' c' si' sv',
  name_ok n -> meta_wf m -> opt_si_wf si -> name_ok n' -> meta_wf m' -> opt_si_wf si' ->
  (blen (enc_elems (data_pre n m c si)) + 10 < 9223372036854775808) ->
  (n, m, c, si, sv) <> (n', m', c', si', sv') ->
  forall r, View r (enc_elem (6, enc_elems (data_elems n' m' c' si' (Some sv')))) 0 ->
    (N.of_nat (length (enc_elem (6, enc_elems (data_elems n' m' c' si' (Some sv'))))) < 9223372036854775808)%N ->
    exists d' cov', read_data r = ROk d' cov' /\
      (concat cov' <> enc_elems (data_pre n m c si) \/ do_sv (obs_data d') <> Some sv).
Proof. exact data_tamper_changes_validator_input. Qed.
Print Assumptions tamper_value_byte_detected.

(* The signed portion of an Interest — name components without the digest, then the ApplicationParameters element, then
   the SignatureInfo element — is an injective function of (name, parameters, SignatureInfo): Interests whose signed
   portions coincide carry the same signed fields (so a valid signature binds exactly one such triple). *)
Theorem signed_portion_injective_interest : forall pre c si pre' c' si',
  name_ok pre -> name_ok pre' -> opt_si_wf si -> opt_si_wf si' ->
  (blen (name_inner pre) + blen (enc_elems (int_tail_elems (Some c) si None)) + 100 < 9223372036854775808) ->
  name_inner pre ++ enc_elems (int_tail_elems (Some c) si None) = name_inner pre' ++ enc_elems (int_tail_elems (Some c') si' None) ->
  (pre, c, si) = (pre', c', si').
Proof. exact int_signed_portion_inj. Qed.
Print Assumptions signed_portion_injective_interest.

(* the same for an Interest's parameters region: different parameters / SignatureInfo / signature value give a different
   digest input, so the parameters-digest check compares against the hash of different bytes *)
Theorem tamper_params_changes_digest_input : forall c si sv c' si' sv', opt_si_wf si -> opt_si_wf si' ->
  (blen (enc_elems (int_tail_elems (Some c) si sv)) + 100 < 9223372036854775808) ->
  enc_elems (int_tail_elems (Some c) si sv) = enc_elems (int_tail_elems (Some c') si' sv') -> (c, si, sv) = (c', si', sv').
Proof. exact int_tail_inj. Qed.
Print Assumptions tamper_params_changes_digest_input.

(* Decoding is a function of the decoded bytes alone: in a sequence of decodes the i-th result (object and covered bytes)
   is the decode of the i-th input, independent of every other decode.  The model has no state in which a violation could
   live; for the Go code (results must not share memory with a reused parsing context) this is the obligation tested by the
   harness's decode-sequence cases, which compare covered bytes and run the validators only after the last decode. *)
Theorem decode_sequence_independent_data : forall (pre post : list reader) r,
  nth (length pre) (map read_data (pre ++ r :: post)) RErr = read_data r.
Proof. exact read_data_seq_independent. Qed.
Print Assumptions decode_sequence_independent_data.
Theorem decode_sequence_independent_interest : forall (sha256 : bytes -> bytes) (pre post : list reader) r,
  nth (length pre) (map (read_interest sha256) (pre ++ r :: post)) RErr = read_interest sha256 r.
Proof. exact read_interest_seq_independent. Qed.
Print Assumptions decode_sequence_independent_interest.

(* non-vacuity: an HMAC-typed (4) signed Interest with parameters; the digest component is the hash of the region and
   a model validator with chk = equality accepts *)
Example c12_example :
  let sha := fun b : bytes => firstn 32 (b ++ repeat 9 32) in
  let sg := Some (mkSigner 4 (Some [mkc 8 [107]]) (Some [1;2]) (Some 1700000000000%Z) (Some 7) None None 32) in
  match make_interest sha (fun cov => Some (sha (concat cov))) [mkc 8 [97]] (mkIC true false None (Some 5) (Some 4000000000%Z) None) (Some [[1]; [2;3]]) sg with
  | Ok e => match read_interest sha (new_wire_reader [firstn 2 (concat (e_wire e)); skipn 2 (concat (e_wire e))]) with
            | ROk i cov => io_sv (obs_int i) = Some (sha (concat cov)) /\ params_digest_region (concat (e_wire e)) <> None
            | _ => False end
  | _ => False end.
Proof. vm_compute. split; [reflexivity|discriminate]. Qed.
