(* Property C12 — signed packets verify iff untampered; signer and parser cover the same bytes; parameters digest.
   Only theorem statements closed by `exact`, each followed by Print Assumptions. *)
From Packet Require Import Model Spec SigProofs.
Open Scope N_scope.

(* An Interest with parameters whose last name component is not the SHA-256 of the digest-covered bytes is rejected,
   whatever the hash function is. *)
Theorem bad_digest_rejected : forall (sha256 : bytes -> bytes) i cx nm c a,
  i_name i = Some (nm ++ [c]) -> i_app i = Some a ->
  cval c <> sha256 (concat (ix_dcov cx)) -> check_interest sha256 i cx = false.
Proof. exact check_interest_bad_digest. Qed.
Print Assumptions bad_digest_rejected.

Example c12_example :
  check_interest (fun _ => repeat 7 32) (mkInt (Some [mkc 8 [97]; mkc 2 (repeat 7 32)]) false false None None None None (Some [[1;2]]) None None)
                 (mkIctx [] [[36;2;1;2]] 0 0 0) = true.
Proof. vm_compute. reflexivity. Qed.
