(* Packet/DecData.v — DataParsingContext.Parse (ordered model) and PacketParsingContext.Parse over a Data. *)
From Packet Require Import Model Spec ReadersProofs EncProofs DecGeneric DecProofs.
From Coq Require Import ZifyBool ZifyN ZifyNat.
Open Scope nat_scope.
Arguments HDone {S}. Arguments HUnk {S}. Arguments HNot {S}.
Arguments ROk {A}. Arguments RErr {A}. Arguments RPanic {A}. Arguments RUnmodelled {A}.

Definition data_elems (n : name) (m : metainfo) (c : option bytes) (si : option siginfo) (sv : option bytes) : list elem :=
  [(7%N, name_inner n); (20%N, meta_enc m)] ++ oel 21 c ++ oel 22 (option_map si_enc si) ++ oel 23 sv.

(* what is known of the parser state between two elements *)
Record dknow := mkDK { k_name : option name; k_meta : option metainfo; k_content : option bytes; k_si : option siginfo;
                       k_sv : option bytes; k_cov : bytes (* joined covered ranges *); k_start : option nat }.
Definition dholds (k : dknow) (lo hi : nat) : @assertion dstate :=
  fun all p s => let '(st, nf) := s in
    lo <= nf <= hi /\ d_name (ds_val st) = k_name k /\ d_meta (ds_val st) = k_meta k /\
    option_map (@concat N) (d_content (ds_val st)) = k_content k /\ d_si (ds_val st) = k_si k /\
    option_map (@concat N) (d_sv (ds_val st)) = k_sv k /\ concat (dx_cov (ds_ctx st)) = k_cov k /\
    match k_start k with Some b => dx_start (ds_ctx st) = b /\ ds_hstart st = true /\ b <= p | None => ds_hstart st = false end.

Ltac dsplit := unfold dholds; cbn [ds_val ds_ctx ds_hstart d_name d_meta d_content d_si d_sv dx_cov dx_start k_name k_meta k_content k_si k_sv k_cov k_start].

Lemma to_int_len (x : bytes) : (N.of_nat (length x) < big)%N -> to_int (N.of_nat (length x)) = Z.of_nat (length x).
Proof. intros H. rewrite to_int_small by exact H. apply nat_N_Z. Qed.

Section DataSteps.
  Variables (base : nat) (cov0 : bytes) (n : name) (m : metainfo).
  Hypothesis Hn : name_ok n.
  Hypothesis Hm : meta_wf m.

  (* Name: the first element; sigCoverStart is recorded on the way *)
  Lemma data_name_step :
    hoare 7 data_handle data_skip
      (fun all p s => p = base /\ dholds (mkDK None None None None None cov0 None) 0 0 all p s)
      [(7%N, name_inner n)]
      (dholds (mkDK (Some n) None None None None cov0 (Some base)) 3 3).
  Proof.
    apply hoare_elem. intros all sp st nf r2 rest [Hsp HP] h V H Hb [_ Hl]. cbn [fst snd] in *. subst sp.
    destruct HP as (Hnf & H1 & H2 & H3 & H4 & H5 & H6 & H7). assert (nf = 0) by lia. subst nf.
    cbn [ord_inner Nat.add Nat.ltb Nat.leb data_handle data_skip N.eqb Pos.eqb Nat.eqb].
    destruct (parse_name_ok _ _ _ _ _ V H Hn Hb) as (r3 & E & V3). rewrite E. cbn.
    exists (set_d (mkDst (ds_val st) (mkDctx (dx_cov (ds_ctx st)) base) true)
                  (mkData (Some n) (d_meta (ds_val st)) (d_content (ds_val st)) (d_si (ds_val st)) (d_sv (ds_val st)))), 3, r3.
    split; [reflexivity|]. split; [exact V3|]. dsplit. unfold set_d. cbn. repeat split; auto; lia.
  Qed.

  Lemma data_meta_step :
    hoare 7 data_handle data_skip
      (dholds (mkDK (Some n) None None None None cov0 (Some base)) 3 3)
      [(20%N, meta_enc m)]
      (dholds (mkDK (Some n) (Some m) None None None cov0 (Some base)) 4 4).
  Proof.
    apply hoare_elem. intros all sp st nf r2 rest HP h V H Hb [_ Hl]. cbn [fst snd] in *.
    destruct HP as (Hnf & H1 & H2 & H3 & H4 & H5 & H6 & H7 & H8 & H9). assert (nf = 3) by lia. subst nf.
    cbn [ord_inner Nat.add Nat.ltb Nat.leb data_handle data_skip N.eqb Pos.eqb Nat.eqb].
    rewrite to_int_len by exact Hl.
    destruct (delegate_sub _ _ _ _ _ V H Hb) as (sub & r3 & hid & E & Vs & Hbs & V3). rewrite E. cbn.
    rewrite (parse_meta_ok sub hid m Vs Hm Hbs). cbn.
    eexists _, 4, r3. split; [reflexivity|]. split; [exact V3|]. dsplit. unfold set_d. cbn. repeat split; auto; lia.
  Qed.

  Lemma data_content_step c :
    hoare 7 data_handle data_skip
      (dholds (mkDK (Some n) (Some m) None None None cov0 (Some base)) 4 4)
      [(21%N, c)]
      (dholds (mkDK (Some n) (Some m) (Some c) None None cov0 (Some base)) 5 5).
  Proof.
    apply hoare_elem. intros all sp st nf r2 rest HP h V H Hb [_ Hl]. cbn [fst snd] in *.
    destruct HP as (Hnf & H1 & H2 & H3 & H4 & H5 & H6 & H7 & H8 & H9). assert (nf = 4) by lia. subst nf.
    cbn [ord_inner Nat.add Nat.ltb Nat.leb data_handle data_skip N.eqb Pos.eqb Nat.eqb].
    rewrite to_int_len by exact Hl.
    destruct (read_wire_ok _ _ _ _ _ V H) as (ws & r3 & E & Hc & V3). rewrite E. cbn.
    eexists _, 5, r3. split; [reflexivity|]. split; [exact V3|]. dsplit. unfold set_d. cbn. repeat split; auto; try lia. f_equal; exact Hc.
  Qed.

  Lemma data_si_step c si : si_wf si ->
    hoare 7 data_handle data_skip
      (dholds (mkDK (Some n) (Some m) c None None cov0 (Some base)) 4 5)
      [(22%N, si_enc si)]
      (dholds (mkDK (Some n) (Some m) c (Some si) None cov0 (Some base)) 6 6).
  Proof.
    intros Hsi. apply hoare_elem. intros all sp st nf r2 rest HP h V H Hb [_ Hl]. cbn [fst snd] in *.
    destruct HP as (Hnf & H1 & H2 & H3 & H4 & H5 & H6 & H7 & H8 & H9).
    destruct (delegate_sub _ _ _ _ _ V H Hb) as (sub & r3 & hid & E & Vs & Hbs & V3).
    assert (Hcase : nf = 4 \/ nf = 5) by lia.
    destruct Hcase; subst nf;
      cbn [ord_inner Nat.add Nat.ltb Nat.leb data_handle data_skip N.eqb Pos.eqb Nat.eqb];
      rewrite ?to_int_len by exact Hl; rewrite E; cbn; rewrite (parse_si_ok sub hid si Vs Hsi Hbs); cbn;
      (eexists _, 6, r3; split; [reflexivity|]; split; [exact V3|]; dsplit; unfold set_d; cbn; repeat split; auto; lia).
  Qed.

  (* SignatureValue: the covered range runs from sigCoverStart to the start of this element *)
  Lemma data_sv_step c si sv :
    hoare 7 data_handle data_skip
      (dholds (mkDK (Some n) (Some m) c si None cov0 (Some base)) 4 6)
      [(23%N, sv)]
      (fun all p s => exists p0, base <= p0 <= length all /\
         dholds (mkDK (Some n) (Some m) c si (Some sv) (cov0 ++ firstn (p0 - base) (skipn base all)) (Some base)) 7 7 all p s /\
         p = p0 + length (enc_elem (23%N, sv))).
  Proof.
    apply hoare_elem. intros all sp st nf r2 rest HP h V H Hb [_ Hl]. cbn [fst snd] in *.
    destruct HP as (Hnf & H1 & H2 & H3 & H4 & H5 & H6 & H7 & H8 & Hbase).
    destruct (read_wire_ok _ _ _ _ _ V H) as (ws & r3 & E & Hc & V3).
    assert (Hsp : sp <= length all).
    { pose proof (view_le _ _ _ V). unfold h in *. lia. }
    destruct (range_ok r3 all _ base sp V3 Hbase Hsp) as (cw & Er & Hcw).
    assert (Hcase : nf = 4 \/ nf = 5 \/ nf = 6) by lia.
    destruct Hcase as [?|[?|?]]; subst nf;
      cbn [ord_inner Nat.add Nat.ltb Nat.leb data_handle data_skip N.eqb Pos.eqb Nat.eqb];
      rewrite ?to_int_len by exact Hl; rewrite E; cbn; unfold range_or_nil; rewrite H7, Er;
      (eexists _, 7, r3; split; [reflexivity|]; split; [exact V3|]; exists sp; split; [lia|]; split; [|reflexivity];
       dsplit; cbn; rewrite concat_app; repeat split; auto; try lia; [f_equal; exact Hc|f_equal; [exact H6|exact Hcw]]).
  Qed.
End DataSteps.

(* the whole Data value *)
Definition opt_si_wf (si : option siginfo) : Prop := match si with Some s => si_wf s | None => True end.

Lemma data_hoare base cov0 n m c si sv : name_ok n -> meta_wf m -> opt_si_wf si ->
  hoare 7 data_handle data_skip
    (fun all p s => p = base /\ dholds (mkDK None None None None None cov0 None) 0 0 all p s)
    (data_elems n m c si sv)
    (fun all p s => match sv with
                    | None => dholds (mkDK (Some n) (Some m) c si None cov0 (Some base)) 4 6 all p s
                    | Some v => exists p0, base <= p0 <= length all /\
                        dholds (mkDK (Some n) (Some m) c si (Some v) (cov0 ++ firstn (p0 - base) (skipn base all)) (Some base)) 7 7 all p s /\
                        p = p0 + length (enc_elem (23%N, v))
                    end).
Proof.
  intros Hn Hm Hsi. unfold data_elems.
  change [(7%N, name_inner n); (20%N, meta_enc m)] with ([(7%N, name_inner n)] ++ [(20%N, meta_enc m)]).
  rewrite <- app_assoc.
  eapply hoare_app; [apply (data_name_step base cov0 n Hn)|].
  eapply hoare_app; [apply (data_meta_step base cov0 n m Hm)|].
  eapply hoare_app with (Q := dholds (mkDK (Some n) (Some m) c None None cov0 (Some base)) 4 5).
  { apply hoare_opt.
    - intros -> all p [st nf] H. unfold dholds in *. intuition lia.
    - intros v ->. eapply hoare_weaken; [| |apply (data_content_step base cov0 n m v)].
      + intros all p s H; exact H.
      + intros all p [st nf] H. unfold dholds in *. intuition lia. }
  eapply hoare_app with (Q := dholds (mkDK (Some n) (Some m) c si None cov0 (Some base)) 4 6).
  { destruct si as [s|]; simpl.
    - eapply hoare_weaken; [| |apply (data_si_step base cov0 n m c s Hsi)].
      + intros all p s0 H; exact H.
      + intros all p [st nf] H. unfold dholds in *. intuition lia.
    - apply hoare_nil. intros all p [st nf] H. unfold dholds in *. intuition lia. }
  destruct sv as [v|]; simpl.
  - apply (data_sv_step base cov0 n m c si v).
  - apply hoare_nil. intros all p s H. exact H.
Qed.

Lemma data_elems_types n m c si sv : Forall (fun e : elem => (fst e < two64)%N) (data_elems n m c si sv).
Proof.
  unfold data_elems. repeat (apply Forall_app; split); try (apply oel_types; unfold two64; lia). repeat constructor.
Qed.

Definition data_pre (n : name) (m : metainfo) (c : option bytes) (si : option siginfo) : list elem :=
  [(7%N, name_inner n); (20%N, meta_enc m)] ++ oel 21 c ++ oel 22 (option_map si_enc si).
Lemma data_elems_pre n m c si sv : data_elems n m c si sv = data_pre n m c si ++ oel 23 sv.
Proof. unfold data_elems, data_pre. rewrite <- !app_assoc. reflexivity. Qed.

Lemma parse_data_ok r hid n m c si sv cx :
  View r (hid ++ enc_elems (data_elems n m c si sv)) (length hid) -> name_ok n -> meta_wf m -> opt_si_wf si ->
  (N.of_nat (length (hid ++ enc_elems (data_elems n m c si sv))) < big)%N ->
  exists d cx', parse_data cx r = Ok (d, cx') /\ obs_data d = mkDobs n (Some m) c si sv /\ d_name d = Some n /\
    concat (dx_cov cx') = concat (dx_cov cx) ++ match sv with Some _ => enc_elems (data_pre n m c si) | None => [] end.
Proof.
  intros V Hn Hm Hsi Hb. unfold parse_data.
  assert (Hwf : Forall elem_wf (data_elems n m c si sv)) by (apply elems_wf; [apply data_elems_types|rewrite app_length in Hb; lia]).
  destruct (hoare_parse 7 data_handle data_skip _ _ (data_elems n m c si sv) (mkDst (mkData None None None None None) cx false) r hid
              (data_hoare (length hid) (concat (dx_cov cx)) n m c si sv Hn Hm Hsi)) as (st' & nf' & r' & E & V' & HQ); auto.
  { split; [reflexivity|]. unfold dholds. cbn. repeat split; auto. }
  rewrite E. cbn [bind]. destruct sv as [v|].
  - destruct HQ as (p0 & Hp0 & HD & Hp). unfold dholds in HD. cbn [ds_val ds_ctx ds_hstart k_name k_meta k_content k_si k_sv k_cov k_start] in HD.
    destruct HD as (_ & H1 & H2 & H3 & H4 & H5 & H6 & H7 & H8 & _). rewrite H8.
    eexists _, _. split; [reflexivity|]. split; [|split].
    + unfold obs_data. rewrite H1, H2, H3, H4, H5. reflexivity.
    + exact H1.
    + rewrite H6. f_equal.
      (* the covered range is everything between the start of the value and the SignatureValue element *)
      rewrite data_elems_pre, enc_elems_app in *. cbn [oel] in *. rewrite enc_elems_one in *.
      set (B := enc_elems (data_pre n m c si)) in *. rewrite !app_length in Hp.
      assert (Hp0' : p0 = length hid + length B) by (unfold elem, bytes, byte in *; lia).
      rewrite Hp0'. replace (length hid + length B - length hid) with (length B) by lia.
      rewrite skipn_app_ge by lia. rewrite Nat.sub_diag. cbn [skipn].
      rewrite firstn_app_le by lia. apply firstn_all.
  - unfold dholds in HQ. cbn [ds_val ds_ctx ds_hstart k_name k_meta k_content k_si k_sv k_cov k_start] in HQ.
    destruct HQ as (_ & H1 & H2 & H3 & H4 & H5 & H6 & H7 & H8 & _). rewrite H8.
    eexists _, _. split; [reflexivity|]. split; [|split].
    + unfold obs_data. rewrite H1, H2, H3, H4, H5. reflexivity.
    + exact H1.
    + rewrite H6, app_nil_r. reflexivity.
Qed.

(* ---------------------------------------------------------------- Packet level: ReadData / ReadPacket on a Data *)
Lemma view_start_full r all : View r all 0 -> skipn 0 all = all.
Proof. reflexivity. Qed.

Lemma parse_packet_data r n m c si sv :
  let V := enc_elems (data_elems n m c si sv) in
  View r (enc_elem (6%N, V)) 0 -> name_ok n -> meta_wf m -> opt_si_wf si -> (N.of_nat (length (enc_elem (6%N, V))) < big)%N ->
  exists d cx, parse_packet r = Ok (mkPst None (Some d) false (mkIctx [] [] 0 0 0) cx) /\ obs_data d = mkDobs n (Some m) c si sv /\
    d_name d = Some n /\ concat (dx_cov cx) = match sv with Some _ => enc_elems (data_pre n m c si) | None => [] end.
Proof.
  intros V0 V Hn Hm Hsi Hb. unfold parse_packet, unord_parse.
  assert (HV0 : V0 = enc_elems (data_elems n m c si sv)) by reflexivity. clearbody V0.
  set (all := enc_elem (6%N, V0)) in *.
  assert (He : elem_wf (6%N, V0)).
  { split; [cbn; unfold two64; lia|]. cbn [snd]. unfold all in Hb. rewrite enc_elem_length in Hb. cbn [snd] in Hb. lia. }
  assert (Hs : skipn 0 all = enc_elem (6%N, V0) ++ []) by (rewrite app_nil_r; reflexivity).
  destruct (read_header _ _ _ _ _ V Hs He) as (r2 & Eh & V2 & H2 & Hlt). cbn [fst snd] in *.
  rewrite (view_remaining _ _ _ V). rewrite Nat.sub_0_r.
  destruct (length all) as [|k] eqn:El; [lia|]. cbn [unord_loop].
  rewrite (view_len _ _ _ V), El. pose proof V as (_ & _ & Hp). rewrite Hp. cbn [Nat.leb].
  destruct (read_tlnum r) as [[typ r1]| |] eqn:E1; cbn in Eh; try discriminate. cbn [bind].
  destruct (read_tlnum r1) as [[l r2']| |] eqn:E2; cbn in Eh; try discriminate.
  inversion Eh; subst typ l r2'. cbn [bind]. unfold pkt_handle at 1.
  change (6 =? 5)%N with false. change (6 =? 6)%N with true. cbv iota.
  assert (Hl : (N.of_nat (length V0) < big)%N) by (destruct He as [_ He]; exact He).
  rewrite to_int_len by exact Hl.
  assert (Hball : (N.of_nat (length all) < big)%N) by (rewrite El; exact Hb).
  destruct (delegate_sub _ _ _ _ _ V2 H2 Hball) as (sub & r3 & hid & E & Vs & Hbs & V3). rewrite E. cbn [bind].
  rewrite HV0 in Vs, Hbs.
  destruct (parse_data_ok sub hid n m c si sv (mkDctx [] 0) Vs Hn Hm Hsi Hbs) as (d & cx & Ep & Ho & Hdn & Hc).
  cbn [ps_dctx]. rewrite Ep. cbn [bind ps_int ps_lp ps_ictx].
  (* the loop ends: the reader is at the end *)
  assert (Hend : 0 + tl_len 6 + tl_len (N.of_nat (length V0)) + length V0 = length all).
  { unfold all. rewrite enc_elem_length. cbn [fst snd]. lia. }
  rewrite Hend in V3.
  destruct k as [|k'].
  { exfalso. pose proof (tl_len_pos 6%N). pose proof (tl_len_pos (N.of_nat (length V0))). lia. }
  cbn [unord_loop]. rewrite (view_len _ _ _ V3). destruct V3 as (Hw3 & Ha3 & Hp3). rewrite Hp3, El, Nat.leb_refl. cbn [bind].
  exists d, cx. split; [reflexivity|]. split; [exact Ho|]. split; [exact Hdn|]. rewrite Hc. reflexivity.
Qed.

Lemma read_data_ok r n m c si sv :
  let V := enc_elems (data_elems n m c si sv) in
  View r (enc_elem (6%N, V)) 0 -> name_ok n -> meta_wf m -> opt_si_wf si -> (N.of_nat (length (enc_elem (6%N, V))) < big)%N ->
  exists d cov, read_data r = ROk d cov /\ obs_data d = mkDobs n (Some m) c si sv /\
    concat cov = match sv with Some _ => enc_elems (data_pre n m c si) | None => [] end.
Proof.
  intros V0 V Hn Hm Hsi Hb.
  destruct (parse_packet_data r n m c si sv V Hn Hm Hsi Hb) as (d & cx & E & Ho & Hn' & Hc).
  unfold read_data. rewrite E. cbn [ps_lp ps_data ps_dctx].
  assert (Hsi' : d_si d = si) by (apply (f_equal do_si) in Ho; exact Ho).
  rewrite Hsi'. replace (si_unm si) with false by (destruct si as [s|]; [destruct Hsi as (_ & _ & _ & _ & Hu); simpl; rewrite Hu|]; reflexivity).
  rewrite Hn'. exists d, (dx_cov cx). auto.
Qed.
