(* Object/ObjSegModel.v — the Produce model satisfies the very oracle that is evaluated on the implementation's store
   dump (produce_obs_ok): returned name, segment names in order with the chunk payloads, FinalBlockId = last chunk,
   one metadata packet naming the object. *)
From Object Require Import ObjSeg ObjSegProofs.
From Coq Require Import Lia Arith PeanoNat.
From Names Require Import Order.
Open Scope nat_scope.

Lemma seg_comp_inj a b : (a < two64)%N -> (b < two64)%N -> seg_comp a = seg_comp b -> a = b.
Proof.
  intros Ha Hb E. unfold seg_comp in E. inversion E as [E'].
  pose proof (nat_dec_enc a Ha) as Da. pose proof (nat_dec_enc b Hb) as Db. rewrite E' in Da. congruence.
Qed.

Lemma name_eqb_refl' n : name_eqb n n = true.
Proof. apply name_eqb_spec. reflexivity. Qed.
Lemma name_eqb_false a b : a <> b -> name_eqb a b = false.
Proof. intros H. destruct (name_eqb a b) eqn:E; [|reflexivity]. apply name_eqb_spec in E. contradiction. Qed.

Section Model.
Variable S : nat.
Hypothesis HS : 0 < S.
Variables (nm : name) (ver : N).

Let base := nm ++ [ver_comp ver].
Definition seg_pkt (fb : comp) (isc : N * wire) : packet :=
  mkpkt (base ++ [seg_comp (fst isc)]) ver (Payload (concat (snd isc))) fb.

Lemma number_from_length {A} (l : list A) : forall i, length (number_from i l) = length l.
Proof. induction l as [|x l IH]; intros i; cbn; auto. Qed.

Lemma find_seg_pkt fb : forall (segs : list wire) (i k : N) rest,
  (i + N.of_nat (length segs) <= two64)%N -> (k < two64)%N ->
  find_pkt (base ++ [seg_comp k]) (map (seg_pkt fb) (number_from i segs) ++ rest) =
  if (i <=? k)%N && (k <? i + N.of_nat (length segs))%N
  then Some (seg_pkt fb (k, nth (N.to_nat (k - i)) segs []))
  else find_pkt (base ++ [seg_comp k]) rest.
Proof.
  induction segs as [|sc segs IH]; intros i k rest Hb Hk.
  - cbn. replace ((i <=? k)%N && (k <? i + 0)%N) with false; [reflexivity|].
    symmetry. apply andb_false_iff. destruct (N.leb_spec i k); [right; apply N.ltb_ge; lia|left; reflexivity].
  - cbn [number_from map app find_pkt seg_pkt fst snd p_name length] in *.
    destruct (N.eq_dec i k) as [->|Hne].
    + rewrite name_eqb_refl'. replace ((k <=? k)%N && (k <? k + N.of_nat (Datatypes.S (length segs)))%N) with true.
      * rewrite N.sub_diag. reflexivity.
      * symmetry. apply andb_true_iff. split; [apply N.leb_le; lia|apply N.ltb_lt; lia].
    + rewrite name_eqb_false.
      2:{ intros E. apply app_inv_head in E. inversion E as [E']. apply Hne. apply seg_comp_inj; [lia|exact Hk|unfold seg_comp; congruence]. }
      rewrite (IH (N.succ i) k rest) by (try exact Hk; lia).
      destruct (N.leb_spec i k) as [Hle|Hgt]; destruct (N.leb_spec (N.succ i) k) as [Hle'|Hgt']; try lia; cbn [andb].
      * destruct (k <? N.succ i + N.of_nat (length segs))%N eqn:E1;
          destruct (k <? i + N.of_nat (Datatypes.S (length segs)))%N eqn:E2;
          try (apply N.ltb_lt in E1); try (apply N.ltb_lt in E2); try (apply N.ltb_ge in E1); try (apply N.ltb_ge in E2); try lia; [|reflexivity].
        replace (N.to_nat (k - i)) with (Datatypes.S (N.to_nat (k - N.succ i))) by lia. reflexivity.
      * reflexivity.
Qed.

Lemma find_pkt_other_len fb x : forall (l : list (N * wire)) rest, length x <> length nm + 2 ->
  find_pkt x (map (seg_pkt fb) l ++ rest) = find_pkt x rest.
Proof.
  induction l as [|isc l IH]; intros rest Hx; [reflexivity|]. cbn [map app find_pkt seg_pkt p_name].
  rewrite name_eqb_false; [apply IH; exact Hx|]. intros E. apply Hx. rewrite <- E. unfold base. rewrite !app_length. cbn. lia.
Qed.

Lemma skipn_nth_cons {A} (d : A) : forall i (l : list A), i < length l -> skipn i l = nth i l d :: skipn (Datatypes.S i) l.
Proof.
  induction i as [|i IH]; intros l Hl; destruct l as [|x l]; cbn in Hl; try lia; [reflexivity|].
  cbn [skipn nth]. apply IH. lia.
Qed.

Lemma comp_num_seg x : (x < two64)%N -> comp_num (seg_comp x) = x.
Proof. intros Hx. unfold comp_num, seg_comp. cbn [cval]. pose proof (nat_dec_enc x Hx) as D. unfold nat_dec in D.
  destruct (length (nat_enc x)) as [|[|[|[|[|[|[|[|[|?]]]]]]]]]; try discriminate; congruence. Qed.

Theorem produce_model_ok (content : wire) ret pkts :
  (N.of_nat (length (segments S content)) < two64)%N ->
  produce S nm ver content = POk ret pkts ->
  produce_obs_ok S nm ver (concat content) ret pkts = true.
Proof.
  intros Hbound Hp. unfold produce in Hp.
  destruct (wire_len content) as [|sz] eqn:Hsz; [discriminate|].
  set (size := Datatypes.S sz) in *.
  set (fb := seg_comp (N.of_nat (last_seg S size))) in *.
  set (segs := segments S content) in *.
  set (meta := mkpkt (nm ++ [kw_metadata; ver_comp ver; seg_comp 0%N]) ver (Meta (nm ++ [ver_comp ver]) (comp_enc fb)) fb) in *.
  inversion Hp; subst ret pkts; clear Hp. fold base.
  change (map (fun isc : N * wire => mkpkt (base ++ [seg_comp (fst isc)]) ver (Payload (concat (snd isc))) fb) (number_from 0%N segs))
    with (map (seg_pkt fb) (number_from 0%N segs)).
  set (pk := map (seg_pkt fb) (number_from 0%N segs) ++ [meta]).
  set (n := length segs) in *.
  assert (Hdata : concat content <> []).
  { unfold wire_len in Hsz. intros E. rewrite E in Hsz. discriminate. }
  assert (Hsize : length (concat content) = size) by exact Hsz.
  (* the segment packets are found by name, in order, and then the search stops *)
  assert (Hmeta_nf : forall k, find_pkt (base ++ [seg_comp k]) [meta] = None).
  { intros k. cbn. rewrite name_eqb_false; [reflexivity|]. unfold base. rewrite <- app_assoc. intros E. apply app_inv_head in E. discriminate. }
  assert (Hfind : forall k, (k < two64)%N -> find_pkt (base ++ [seg_comp k]) pk =
            if (k <? N.of_nat n)%N then Some (seg_pkt fb (k, nth (N.to_nat k) segs [])) else None).
  { intros k Hk. unfold pk. rewrite (find_seg_pkt fb segs 0%N k [meta]) by (auto; fold n; lia).
    rewrite N.sub_0_r, N.add_0_l. fold n. replace (0 <=? k)%N with true by (symmetry; apply N.leb_le; lia). cbn [andb].
    destruct (k <? N.of_nat n)%N; [reflexivity|apply Hmeta_nf]. }
  assert (Hcollect : forall m i, i + m = n -> forall fuel, m < fuel ->
            collect_segs fuel base (N.of_nat i) pk = map (seg_pkt fb) (number_from (N.of_nat i) (skipn i segs))).
  { induction m as [|m IHm]; intros i Hi fuel Hf; destruct fuel as [|fuel]; try lia; cbn [collect_segs].
    - rewrite Hfind by lia. replace (N.of_nat i <? N.of_nat n)%N with false by (symmetry; apply N.ltb_ge; lia).
      rewrite skipn_all2 by (fold n; lia). reflexivity.
    - rewrite Hfind by lia. replace (N.of_nat i <? N.of_nat n)%N with true by (symmetry; apply N.ltb_lt; lia).
      rewrite (skipn_nth_cons (A:=wire) [] i segs) by (fold n; lia). cbn [number_from map]. rewrite Nat2N.id. f_equal.
      rewrite <- Nat2N.inj_succ. apply IHm; lia. }
  assert (Hlenpk : length pk = Datatypes.S n).
  { unfold pk. rewrite app_length, map_length, number_from_length. cbn. fold n. lia. }
  assert (Hsegs : collect_segs (length pk) base 0%N pk = map (seg_pkt fb) (number_from 0%N segs)).
  { rewrite Hlenpk. apply (Hcollect n 0); lia. }
  unfold produce_obs_ok. fold base. change (map _ (number_from 0%N segs) ++ [meta]) with pk. rewrite Hsegs.
  (* payloads and FinalBlockIds of the collected packets *)
  assert (Hpay : forall (l : list (N * wire)), map (fun p => match p_body p with Payload b => b | Meta _ _ => [] end) (map (seg_pkt fb) l) = map (fun isc => concat (snd isc)) l).
  { intros l. rewrite map_map. reflexivity. }
  assert (Hnum : forall {A} (l : list A) i, map (@snd N A) (number_from i l) = l).
  { intros A l. induction l as [|x l IH]; intros i; [reflexivity|]. cbn. rewrite IH. reflexivity. }
  assert (Hpay2 : map (fun p => match p_body p with Payload b => b | Meta _ _ => [] end) (map (seg_pkt fb) (number_from 0%N segs)) = map (@concat byte) segs).
  { rewrite Hpay. rewrite <- (Hnum _ segs 0%N) at 2. rewrite map_map. reflexivity. }
  rewrite Hpay2.
  destruct (segments_refine S content HS) as [extra [Hex [Hx _]]]. fold segs in Hex.
  set (ch := chunks S (concat content)) in *.
  assert (Hnch : length ch = last_seg S size + 1).
  { unfold ch. rewrite (chunks_last_seg S HS) by exact Hdata. rewrite Hsize. reflexivity. }
  assert (Hfb : fb = seg_comp (N.of_nat (length ch - 1))) by (unfold fb; rewrite Hnch; f_equal; f_equal; lia).
  assert (Hlast : (N.of_nat (last_seg S size) < two64)%N).
  { assert (Hl : length (map (@concat byte) segs) = n) by apply map_length. rewrite Hex, app_length in Hl. lia. }
  assert (H1 : name_eqb base base = true) by apply name_eqb_refl'.
  assert (H2 : forallb (fun p => match p_body p with Payload _ => true | Meta _ _ => false end)
                 (map (seg_pkt fb) (number_from 0%N segs)) = true).
  { apply forallb_forall. intros p Hp. apply in_map_iff in Hp. destruct Hp as [isc [<- _]]. reflexivity. }
  assert (H3 : produce_spec_ok S (concat content) (map (@concat byte) segs)
                 (map (fun p => comp_num (p_fb p)) (map (seg_pkt fb) (number_from 0%N segs))) = true).
  { unfold produce_spec_ok. cbv zeta. fold ch. rewrite Hex.
    repeat (apply andb_true_iff; split).
    - rewrite firstn_app, firstn_all, Nat.sub_diag, firstn_O, app_nil_r. apply list_eqb_spec; [apply bytes_eqb_spec|reflexivity].
    - rewrite skipn_app, skipn_all, Nat.sub_diag, skipn_O. destruct Hx as [->| ->]; reflexivity.
    - rewrite skipn_app, skipn_all, Nat.sub_diag, skipn_O. destruct Hx as [->| ->]; reflexivity.
    - apply forallb_forall. intros x Hx'. apply in_map_iff in Hx'. destruct Hx' as [p [<- Hp]].
      apply in_map_iff in Hp. destruct Hp as [isc [<- _]]. cbn [seg_pkt p_fb]. apply N.eqb_eq.
      unfold fb. rewrite comp_num_seg by exact Hlast. f_equal. lia.
    - rewrite Hnch, Nat.add_1_r. reflexivity. }
  assert (H4 : forallb (fun p => comp_eqb (p_fb p) (seg_comp (N.of_nat (length ch - 1))) && (p_ver p =? ver)%N) pk = true).
  { apply forallb_forall. intros p Hp. unfold pk in Hp. apply in_app_or in Hp. rewrite <- Hfb.
    destruct Hp as [Hp|[<-|[]]].
    + apply in_map_iff in Hp. destruct Hp as [isc [<- _]]. cbn [seg_pkt p_fb p_ver].
      apply andb_true_iff. split; [apply comp_eqb_spec; reflexivity|apply N.eqb_refl].
    + cbn [meta p_fb p_ver]. apply andb_true_iff. split; [apply comp_eqb_spec; reflexivity|apply N.eqb_refl]. }
  assert (H5 : match find_pkt (nm ++ [kw_metadata; ver_comp ver; seg_comp 0%N]) pk with
               | Some m => match p_body m with
                           | Meta inner ifb => name_eqb inner base && bytes_eqb ifb (comp_enc (seg_comp (N.of_nat (length ch - 1))))
                           | Payload _ => false
                           end
               | None => false
               end = true).
  { unfold pk. rewrite find_pkt_other_len by (rewrite app_length; cbn; lia). cbn [find_pkt meta p_name].
    rewrite name_eqb_refl'. cbn [p_body]. rewrite <- Hfb. apply andb_true_iff. split; [apply name_eqb_refl'|apply bytes_eqb_spec; reflexivity]. }
  assert (H6 : (length pk =? Datatypes.S (length (map (seg_pkt fb) (number_from 0%N segs)))) = true).
  { rewrite Hlenpk, map_length, number_from_length. fold n. apply Nat.eqb_refl. }
  fold ch. rewrite H1, H2, H3, H4, H5, H6. reflexivity.
Qed.
End Model.
