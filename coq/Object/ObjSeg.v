(* Object/ObjSeg.v — executable model of Client.Produce (std/object/client_produce.go). No proofs here.
   Sizes are `nat` (list lengths); version and segment numbers are `N` (uint64 in the code).
   The segment size is a parameter S of every function; the instance used by the runner and by Props_C15.v is
   GenConsts.pSegmentSize, regenerated from the source on every run. *)
From Base Require Export Bytes VarNum.
From Names Require Export Model.
From Object Require Export GenConsts.
Open Scope nat_scope.

Definition wire := list bytes.                      (* enc.Wire: a list of buffers *)
Definition wire_len (w : wire) : nat := length (concat w).   (* contentSize: sum of len(c) *)

(* Inner loop of Produce (lines 78-91): fill one segment from the front of `content` while there is room.
     for len(content) > 0 && segContentSize < pSegmentSize {
        sizeLeft := min(pSegmentSize-segContentSize, len(content[0])); newContent := content[0][:sizeLeft]
        segContent = append(segContent, newContent); content[0] = content[0][sizeLeft:]
        if len(content[0]) == 0 { content = content[1:] } }
   `room` = pSegmentSize - segContentSize. Returns (segContent, remaining content).
   When content[0] is not exhausted, sizeLeft = room, so the loop condition fails on re-entry. *)
Fixpoint fill_seg (room : nat) (content : wire) : wire * wire :=
  match content with
  | [] => ([], [])
  | b :: rest =>
      match room with
      | O => ([], content)
      | _ =>
          let k := Nat.min room (length b) in
          let nc := firstn k b in
          match skipn k b with
          | [] => let (sc, r) := fill_seg (room - k) rest in (nc :: sc, r)
          | b' => ([nc], b' :: rest)
          end
      end
  end.

(* Outer loop (line 73): for seg = 0; len(content) > 0; seg++. Every iteration removes at least one byte or one
   buffer, so fuel = bytes + buffers suffices (proved in ObjSegProofs: the fuel never runs out). *)
Fixpoint segs_fuel (S : nat) (fuel : nat) (content : wire) : list wire :=
  match fuel with
  | O => []
  | Datatypes.S f =>
      match content with
      | [] => []
      | _ => let (sc, rest) := fill_seg S content in sc :: segs_fuel S f rest
      end
  end.
Definition segments (S : nat) (content : wire) : list wire :=
  segs_fuel S (wire_len content + length content) content.

(* name components built by Produce *)
Definition seg_comp (s : N) : comp := mkc typSegment (nat_enc s).     (* enc.NewSegmentComponent *)
Definition ver_comp (v : N) : comp := mkc typVersion (nat_enc v).     (* enc.NewVersionComponent *)
Definition kw_metadata : comp := mkc typKeyword [109;101;116;97;100;97;116;97]%N.  (* 32=metadata *)

(* what is stored for one packet: name, store version, payload (Content joined), FinalBlockId,
   and for the metadata packet the decoded rdr.MetaData (Name, FinalBlockID bytes) instead of a payload *)
Inductive body := Payload (b : bytes) | Meta (nm : name) (fb : bytes).
Record packet := mkpkt { p_name : name; p_ver : N; p_body : body; p_fb : comp }.

Fixpoint number_from {A} (i : N) (l : list A) : list (N * A) :=
  match l with [] => [] | x :: r => (i, x) :: number_from (N.succ i) r end.

Inductive presult := PErr | POk (ret : name) (pkts : list packet).

(* lastSeg := uint64((contentSize - 1) / pSegmentSize) *)
Definition last_seg (S size : nat) : nat := (size - 1) / S.

Definition produce (S : nat) (nm : name) (ver : N) (content : wire) : presult :=
  let size := wire_len content in
  match size with
  | O => PErr                                              (* "cannot produce empty object" *)
  | _ =>
    let fb := seg_comp (N.of_nat (last_seg S size)) in
    let base := nm ++ [ver_comp ver] in
    let segs := number_from 0%N (segments S content) in
    let pkts := map (fun isc => mkpkt (base ++ [seg_comp (fst isc)]) ver (Payload (concat (snd isc))) fb) segs in
    let meta := mkpkt (nm ++ [kw_metadata; ver_comp ver; seg_comp 0%N]) ver (Meta base (comp_enc fb)) fb in
    POk base (pkts ++ [meta])
  end.

(* ---------------- tiny specification: fixed-size chunking of a byte string ---------------- *)
Fixpoint chunks_fuel {A} (S : nat) (fuel : nat) (l : list A) : list (list A) :=
  match fuel with
  | O => []
  | Datatypes.S f => match l with [] => [] | _ => firstn S l :: chunks_fuel S f (skipn S l) end
  end.
Definition chunks {A} (S : nat) (l : list A) : list (list A) := chunks_fuel S (length l) l.

(* decidable oracle evaluated on the IMPLEMENTATION's stored packets (runner --oracle):
   given the published content and the payloads of the packets named base/seg=0.. in segment order,
   with their FinalBlockId numbers *)
Definition produce_spec_ok (S : nat) (content : bytes) (payloads : list bytes) (fbs : list N) : bool :=
  let n := length (chunks S content) in
  list_eqb bytes_eqb (firstn n payloads) (chunks S content)
  && forallb (fun p => match p with [] => true | _ => false end) (skipn n payloads)
  && (length (skipn n payloads) <=? 1)
  && forallb (fun fb => N.eqb fb (N.of_nat (n - 1))) fbs
  && negb (n =? 0).

(* ---------------- oracle on the implementation's store dump after one Produce into a fresh store -------------
   ret: returned name; pkts: every stored packet. Demands: ret = name/v=ver; the packets named ret/seg=i for
   i = 0.. carry the chunks of the content in order (at most one extra, empty one); FinalBlockId = last chunk index on
   every packet; exactly one metadata packet name/32=metadata/v=ver/seg=0 whose content names ret and the same
   FinalBlockId; every stored version field = ver; nothing else is stored. *)
Definition body_payload (b : body) : option bytes := match b with Payload p => Some p | Meta _ _ => None end.

Fixpoint find_pkt (nm : name) (l : list packet) : option packet :=
  match l with
  | [] => None
  | p :: r => if name_eqb (p_name p) nm then Some p else find_pkt nm r
  end.

Fixpoint collect_segs (fuel : nat) (base : name) (i : N) (l : list packet) : list packet :=
  match fuel with
  | O => []
  | Datatypes.S f => match find_pkt (base ++ [seg_comp i]) l with
                     | Some p => p :: collect_segs f base (N.succ i) l
                     | None => []
                     end
  end.

Definition comp_num (c : comp) : N := be_val (cval c).      (* Component.NumberVal *)

Definition produce_obs_ok (S : nat) (nm : name) (ver : N) (content : bytes) (ret : name) (pkts : list packet) : bool :=
  let base := nm ++ [ver_comp ver] in
  let segs := collect_segs (length pkts) base 0%N pkts in
  let payloads := map (fun p => match p_body p with Payload b => b | Meta _ _ => [] end) segs in
  let nchunks := length (chunks S content) in
  let fb := seg_comp (N.of_nat (nchunks - 1)) in
  name_eqb ret base
  && forallb (fun p => match p_body p with Payload _ => true | Meta _ _ => false end) segs
  && produce_spec_ok S content payloads (map (fun p => comp_num (p_fb p)) segs)
  && forallb (fun p => comp_eqb (p_fb p) fb && N.eqb (p_ver p) ver) pkts
  && match find_pkt (nm ++ [kw_metadata; ver_comp ver; seg_comp 0%N]) pkts with
     | Some m => match p_body m with
                 | Meta inner ifb => name_eqb inner base && bytes_eqb ifb (comp_enc fb)
                 | Payload _ => false
                 end
     | None => false
     end
  && (length pkts =? Datatypes.S (length segs)).
