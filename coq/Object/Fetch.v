(* Object/Fetch.v — executable model of the consumer side of std/object: Consume / consumeObject / fetchMetadata
   (client_consume.go), the round-robin segment fetcher (client_consume_seg.go: add, remove, next, queueCheck, doCheck,
   handleData), ConsumeState.Content, and express-with-retry (client_expressr.go), as ONE state machine whose events
   are the iterations of Client.run (one per channel of its select), Client.Consume calls, and the engine reporting the
   outcome of an expressed Interest. The order of these events is arbitrary: that is the goroutine scheduling of
   Client.run at the granularity of channel operations. The channels are FIFO queues here; their capacities (blocking
   sends) are NOT modelled, except segcheck whose capacity 2 with a non-blocking send is logic (queueCheck).
   No proofs in this file. *)
From Object Require Export ObjSeg.
From Coq Require Import ZArith.
Open Scope nat_scope.

(* ---- what the engine can report for an expressed Interest (ndn.ExpressCallbackArgs) ---- *)
Inductive result :=
| RData (nm : name) (content : bytes) (fb : option comp) (meta : option name)
        (* Data: name, Content().Join(), FinalBlockID(), and rdr.ParseMetaData(content).Name when it parses *)
| RNack | RTimeout | RError | ROther.

Inductive ikind := MetaI | SegI (k : N).
Record xargs := mkx { x_sid : nat; x_kind : ikind; x_name : name; x_retries : nat }.

(* error codes of finalizeError call sites *)
Definition E_NAME_EMPTY : N := 1%N.     (* consume: name cannot be empty *)
Definition E_META_NOVER : N := 2%N.     (* consume: metadata does not have version component *)
Definition E_FETCH_ERROR : N := 3%N.    (* consume: fetch failed with error *)
Definition E_FETCH_RESULT : N := 4%N.   (* consume: fetch failed with result (nack, timeout, ...) *)
Definition E_META_PARSE : N := 5%N.     (* consume: failed to parse object metadata *)
Definition E_NO_FB : N := 6%N.          (* consume: no FinalBlockId in object *)
Definition E_FB_TYPE : N := 7%N.        (* consume: invalid FinalBlockId type *)
Definition E_FB_VALUE : N := 8%N.       (* consume: invalid FinalBlockId= *)
Definition E_SEG_TYPE : N := 9%N.       (* consume: invalid segment number type *)
Definition E_SEG_NUM : N := 10%N.       (* consume: invalid segment number= *)
Definition E_SEG_EMPTY : N := 11%N.     (* consume: empty data segment *)

(* what the harness callback does with a ConsumeState: call Content() at every callback, or only at completion *)
Inductive policy := PolEvery | PolAtEnd.
Record cbrec := mkcb { cb_complete : bool; cb_err : option N; cb_progress : nat; cb_max : option nat;
                       cb_chunk : option bytes }.

Record stream := mkst {
  s_name : name; s_fetch : name; s_hasmeta : bool; s_pol : policy;
  s_segcnt : option nat;                 (* None = -1 *)
  s_content : list (option bytes);       (* enc.Wire with nil slots *)
  s_w0 : nat; s_w1 : nat; s_w2 : nat;    (* wnd[0..2]: consumed / contiguous / requested *)
  s_complete : bool; s_err : option N;
  s_log : list cbrec;                    (* callback invocations, oldest first *)
  s_panic : bool                         (* an unchecked slice/index of the Go code would have panicked *)
}.

Record client := mkcl {
  c_streams : list stream;               (* every ConsumeState ever created, by id *)
  f_streams : list nat;                  (* rrSegFetcher.streams *)
  f_rr : nat; f_out : Z;                 (* rrIndex, outstanding *)
  c_outpipe : list xargs; c_seginpipe : list (nat * result); c_segfetch : list nat; c_segcheck : nat;
  c_pending : list (nat * xargs);        (* Interests handed to engine.Express, by express id *)
  c_nextx : nat
}.
Definition cl_init : client := mkcl [] [] 0 0%Z [] [] [] 0 [] 0.

Definition window : Z := Z.of_N fetchWindow.

(* ---- list helpers ---- *)
Fixpoint upd_nth {A} (i : nat) (f : A -> A) (l : list A) : list A :=
  match l, i with
  | [], _ => []
  | x :: r, O => f x :: r
  | x :: r, Datatypes.S j => x :: upd_nth j f r
  end.
Definition dummy_stream : stream := mkst [] [] false PolEvery None [] 0 0 0 true None [] true.
Definition get_stream (c : client) (sid : nat) : stream := nth sid (c_streams c) dummy_stream.
Definition set_stream (c : client) (sid : nat) (f : stream -> stream) : client :=
  mkcl (upd_nth sid f (c_streams c)) (f_streams c) (f_rr c) (f_out c) (c_outpipe c) (c_seginpipe c) (c_segfetch c)
       (c_segcheck c) (c_pending c) (c_nextx c).

(* ---- ConsumeState.Content(): join content[wnd0:wnd1], free those slots, wnd0 = wnd1 ---- *)
Definition slot_bytes (o : option bytes) : bytes := match o with Some b => b | None => [] end.
Fixpoint clear_range (i n : nat) (l : list (option bytes)) : list (option bytes) :=  (* l[i..i+n) := nil *)
  match l with
  | [] => []
  | x :: r => match i with
              | O => match n with O => l | Datatypes.S m => None :: clear_range O m r end
              | Datatypes.S j => x :: clear_range j n r
              end
  end.
Definition content_call (st : stream) : stream * bytes :=
  if (s_w1 st <? s_w0 st) || (length (s_content st) <? s_w1 st) then
    (mkst (s_name st) (s_fetch st) (s_hasmeta st) (s_pol st) (s_segcnt st) (s_content st) (s_w0 st) (s_w1 st) (s_w2 st)
          (s_complete st) (s_err st) (s_log st) true, [])
  else
    let buf := concat (map slot_bytes (firstn (s_w1 st - s_w0 st) (skipn (s_w0 st) (s_content st)))) in
    (mkst (s_name st) (s_fetch st) (s_hasmeta st) (s_pol st) (s_segcnt st)
          (clear_range (s_w0 st) (s_w1 st - s_w0 st) (s_content st)) (s_w1 st) (s_w1 st) (s_w2 st)
          (s_complete st) (s_err st) (s_log st) (s_panic st), buf).

(* state.callback(state): the harness callback records IsComplete/Error/Progress/ProgressMax and, by policy, Content() *)
Definition do_callback (st : stream) : stream :=
  let call := match s_pol st with PolEvery => true | PolAtEnd => s_complete st end in
  let (st1, chunk) := if call then (let (a, b) := content_call st in (a, Some b)) else (st, None) in
  mkst (s_name st1) (s_fetch st1) (s_hasmeta st1) (s_pol st1) (s_segcnt st1) (s_content st1) (s_w0 st1) (s_w1 st1)
       (s_w2 st1) (s_complete st1) (s_err st1)
       (s_log st1 ++ [mkcb (s_complete st) (s_err st) (s_w1 st) (s_segcnt st) chunk]) (s_panic st1).

(* finalizeError *)
Definition finalize_error (e : N) (st : stream) : stream :=
  if s_complete st then st
  else do_callback (mkst (s_name st) (s_fetch st) (s_hasmeta st) (s_pol st) (s_segcnt st) (s_content st) (s_w0 st)
                         (s_w1 st) (s_w2 st) true (Some e) (s_log st) (s_panic st)).

(* ---- queueCheck: non-blocking send on a channel of capacity 2 ---- *)
Definition queue_check (c : client) : client :=
  mkcl (c_streams c) (f_streams c) (f_rr c) (f_out c) (c_outpipe c) (c_seginpipe c) (c_segfetch c)
       (if c_segcheck c <? 2 then Datatypes.S (c_segcheck c) else c_segcheck c) (c_pending c) (c_nextx c).

Definition push_out (c : client) (x : xargs) : client :=
  mkcl (c_streams c) (f_streams c) (f_rr c) (f_out c) (c_outpipe c ++ [x]) (c_seginpipe c) (c_segfetch c)
       (c_segcheck c) (c_pending c) (c_nextx c).
Definition push_fetch (c : client) (sid : nat) : client :=
  mkcl (c_streams c) (f_streams c) (f_rr c) (f_out c) (c_outpipe c) (c_seginpipe c) (c_segfetch c ++ [sid])
       (c_segcheck c) (c_pending c) (c_nextx c).
Definition push_segin (c : client) (sid : nat) (r : result) : client :=
  mkcl (c_streams c) (f_streams c) (f_rr c) (f_out c) (c_outpipe c) (c_seginpipe c ++ [(sid, r)]) (c_segfetch c)
       (c_segcheck c) (c_pending c) (c_nextx c).

(* ---- consumeObject ---- *)
Definition last_is_version (nm : name) : bool :=
  match rev nm with c :: _ => N.eqb (ctyp c) typVersion | [] => false end.

Definition consume_object (c : client) (sid : nat) : client :=
  let st := get_stream c sid in
  let nm := s_fetch st in
  match nm with
  | [] => set_stream c sid (finalize_error E_NAME_EMPTY)
  | _ =>
    if last_is_version nm then push_fetch c sid                                  (* c.segfetch <- state *)
    else if s_hasmeta st then set_stream c sid (finalize_error E_META_NOVER)
    else push_out c (mkx sid MetaI (nm ++ [kw_metadata]) (N.to_nat metaRetries))   (* fetchMetadata -> ExpressR *)
  end.

(* ---- rrSegFetcher.doCheck (after the fix: completed streams are dropped before the round-robin scan) ---- *)
Definition waiting_or_done (st : stream) : bool :=
  match s_segcnt st with
  | None => 0 <? s_w2 st                                  (* segCnt == -1 && wnd[2] > 0: wait for the first segment *)
  | Some n => (0 <? n) && (n <=? s_w2 st)                 (* all interests are out *)
  end.

(* the round robin: next() is called until a stream with work is met or the first one comes round again.
   strs non-empty, n = length; returns the index picked, or None after n+1 calls of next() *)
Fixpoint rr_scan (c : client) (strs : list nat) (n : nat) (idx : nat) (todo : nat) : option nat :=
  match todo with
  | O => None
  | Datatypes.S t =>
      if waiting_or_done (get_stream c (nth idx strs 0)) then rr_scan c strs n ((idx + 1) mod n) t
      else Some idx
  end.

Fixpoint do_check (fuel : nat) (c : client) : client :=
  match fuel with
  | O => c
  | Datatypes.S f =>
    if (window <=? f_out c)%Z then c
    else
      let strs := filter (fun sid => negb (s_complete (get_stream c sid))) (f_streams c) in
      let n := length strs in
      match n with
      | O => mkcl (c_streams c) strs (f_rr c) (f_out c) (c_outpipe c) (c_seginpipe c) (c_segfetch c) (c_segcheck c)
                  (c_pending c) (c_nextx c)                      (* next() == nil *)
      | _ =>
        let start := (f_rr c + 1) mod n in
        match rr_scan c strs n start n with
        | None =>   (* full circle: next() was called n+1 times *)
            mkcl (c_streams c) strs start (f_out c) (c_outpipe c) (c_seginpipe c) (c_segfetch c) (c_segcheck c)
                 (c_pending c) (c_nextx c)
        | Some idx =>
            let sid := nth idx strs 0 in
            let st := get_stream c sid in
            let seg := N.of_nat (s_w2 st) in
            let c1 := mkcl (upd_nth sid (fun s => mkst (s_name s) (s_fetch s) (s_hasmeta s) (s_pol s) (s_segcnt s)
                                              (s_content s) (s_w0 s) (s_w1 s) (Datatypes.S (s_w2 s)) (s_complete s)
                                              (s_err s) (s_log s) (s_panic s)) (c_streams c))
                           strs idx (f_out c + 1)%Z
                           (c_outpipe c ++ [mkx sid (SegI seg) (s_fetch st ++ [seg_comp seg]) (N.to_nat segRetries)])
                           (c_seginpipe c) (c_segfetch c) (c_segcheck c) (c_pending c) (c_nextx c) in
            do_check f c1                                          (* defer s.doCheck() *)
        end
      end
  end.
Definition check_fuel : nat := Datatypes.S (N.to_nat fetchWindow).

(* rrSegFetcher.remove *)
Fixpoint remove_first (sid : nat) (l : list nat) : list nat :=
  match l with
  | [] => []
  | x :: r => if x =? sid then r else x :: remove_first sid r
  end.

(* ---- rrSegFetcher.handleData ---- *)
Definition comp_num64 (c : comp) : N := (be_val (cval c) mod two64)%N.   (* Component.NumberVal: uint64 shift/or *)

Fixpoint set_nth {A} (i : nat) (v : A) (l : list A) : list A :=
  match l, i with
  | [], _ => []
  | _ :: r, O => v :: r
  | x :: r, Datatypes.S j => x :: set_nth j v r
  end.
Fixpoint advance (content : list (option bytes)) (w1 : nat) (fuel : nat) : nat :=
  (* for wnd1 < segCnt && content[wnd1] != nil { wnd1++ }   (fuel = segCnt - wnd1) *)
  match fuel with
  | O => w1
  | Datatypes.S f => match nth w1 content None with Some _ => advance content (Datatypes.S w1) f | None => w1 end
  end.

Definition with_fields (st : stream) (segcnt : option nat) (content : list (option bytes)) (w1 : nat)
           (complete : bool) : stream :=
  mkst (s_name st) (s_fetch st) (s_hasmeta st) (s_pol st) segcnt content (s_w0 st) w1 (s_w2 st) complete (s_err st)
       (s_log st) (s_panic st).

(* the per-stream part of handleData for a Data result; returns the new stream and whether s.remove(state) ran *)
Definition handle_data_stream (st : stream) (nm : name) (payload : bytes) (fb : option comp) : stream * bool :=
  (* FinalBlockId, only while the segment count is unknown *)
  let step1 : option N + stream :=          (* inl: proceed with segCnt (None = already known); inr: finalized *)
    match s_segcnt st with
    | Some _ => inl None
    | None =>
        match fb with
        | None => inr (finalize_error E_NO_FB st)
        | Some f =>
            if negb (N.eqb (ctyp f) typSegment) then inr (finalize_error E_FB_TYPE st)
            else
              let v := comp_num64 f in
              (* segCnt = int(v) + 1; rejected if > maxObjectSeg or <= 0 (int wrap-around makes every v >= 2^63 <= 0) *)
              if (v + 1 <=? maxObjectSeg)%N then inl (Some (v + 1)%N)
              else inr (finalize_error E_FB_VALUE st)
                   (* the Go code leaves the rejected value in state.segCnt; it is not kept here (the stream is finished
                      with an error, and the harness prints the segment count of a failed stream as "x") *)
        end
    end in
  match step1 with
  | inr st' => (st', false)
  | inl newcnt =>
      let st1 := match newcnt with
                 | Some n => with_fields st (Some (N.to_nat n)) (repeat None (N.to_nat n)) (s_w1 st) (s_complete st)
                 | None => st
                 end in
      let segcnt := match s_segcnt st1 with Some n => n | None => 0 end in
      match rev nm with
      | [] => (mkst (s_name st1) (s_fetch st1) (s_hasmeta st1) (s_pol st1) (s_segcnt st1) (s_content st1) (s_w0 st1)
                    (s_w1 st1) (s_w2 st1) (s_complete st1) (s_err st1) (s_log st1) true, false)  (* name[len-1] panics *)
      | sc :: _ =>
          if negb (N.eqb (ctyp sc) typSegment) then (finalize_error E_SEG_TYPE st1, false)
          else
            let v := comp_num64 sc in
            if (N.of_nat segcnt <=? v)%N then (finalize_error E_SEG_NUM st1, false)
            else
              let k := N.to_nat v in
              let content := set_nth k (Some payload) (s_content st1) in
              let st2 := with_fields st1 (s_segcnt st1) content (s_w1 st1) (s_complete st1) in
              match payload with
              | [] => (finalize_error E_SEG_EMPTY st2, false)
              | _ =>
                  if s_w1 st2 =? k then
                    let w1 := advance content (s_w1 st2) (segcnt - s_w1 st2) in
                    let done := w1 =? segcnt in
                    let st3 := with_fields st2 (s_segcnt st2) content w1 (if done then true else s_complete st2) in
                    (do_callback st3, done)
                  else (st2, false)
              end
      end
  end.

Definition handle_data (c : client) (sid : nat) (r : result) : client :=
  (* s.outstanding--; s.queueCheck() *)
  let c0 := queue_check (mkcl (c_streams c) (f_streams c) (f_rr c) (f_out c - 1)%Z (c_outpipe c) (c_seginpipe c)
                              (c_segfetch c) (c_segcheck c) (c_pending c) (c_nextx c)) in
  let st := get_stream c0 sid in
  if s_complete st then c0
  else
    match r with
    | RError => set_stream c0 sid (finalize_error E_FETCH_ERROR)
    | RData nm payload fb _ =>
        let (st', removed) := handle_data_stream st nm payload fb in
        let c1 := set_stream c0 sid (fun _ => st') in
        if removed then
          mkcl (c_streams c1) (remove_first sid (f_streams c1)) (f_rr c1) (f_out c1) (c_outpipe c1) (c_seginpipe c1)
               (c_segfetch c1) (c_segcheck c1) (c_pending c1) (c_nextx c1)
        else c1
    | _ => set_stream c0 sid (finalize_error E_FETCH_RESULT)
    end.

(* ---- the callback fetchMetadata gives to ExpressR ---- *)
Definition meta_callback (c : client) (sid : nat) (r : result) : client :=
  match r with
  | RError => set_stream c sid (finalize_error E_FETCH_ERROR)
  | RData _ _ _ (Some inner) =>
      let c1 := set_stream c sid (fun st => mkst (s_name st) inner true (s_pol st) (s_segcnt st) (s_content st) (s_w0 st)
                                                 (s_w1 st) (s_w2 st) (s_complete st) (s_err st) (s_log st) (s_panic st)) in
      consume_object c1 sid
  | RData _ _ _ None => set_stream c sid (finalize_error E_META_PARSE)
  | _ => set_stream c sid (finalize_error E_FETCH_RESULT)
  end.

(* ---- events ---- *)
Inductive cev :=
| EvConsume (nm : name) (pol : policy)
| EvRunOut | EvRunSegIn | EvRunFetch | EvRunCheck
| EvResult (xid : nat) (r : result).

Fixpoint take_pending (xid : nat) (l : list (nat * xargs)) : option (xargs * list (nat * xargs)) :=
  match l with
  | [] => None
  | (i, x) :: r => if i =? xid then Some (x, r)
                   else match take_pending xid r with Some (y, r') => Some (y, (i, x) :: r') | None => None end
  end.

Definition step (c : client) (e : cev) : client :=
  match e with
  | EvConsume nm pol =>
      let sid := length (c_streams c) in
      let st := mkst nm nm false pol None [] 0 0 0 false None [] false in
      let c1 := mkcl (c_streams c ++ [st]) (f_streams c) (f_rr c) (f_out c) (c_outpipe c) (c_seginpipe c) (c_segfetch c)
                     (c_segcheck c) (c_pending c) (c_nextx c) in
      consume_object c1 sid
  | EvRunOut =>                                             (* case args := <-c.outpipe: c.expressRImpl(args) *)
      match c_outpipe c with
      | [] => c
      | x :: rest => mkcl (c_streams c) (f_streams c) (f_rr c) (f_out c) rest (c_seginpipe c) (c_segfetch c)
                          (c_segcheck c) (c_pending c ++ [(c_nextx c, x)]) (Datatypes.S (c_nextx c))
      end
  | EvRunSegIn =>                                           (* case args := <-c.seginpipe: handleData *)
      match c_seginpipe c with
      | [] => c
      | (sid, r) :: rest =>
          handle_data (mkcl (c_streams c) (f_streams c) (f_rr c) (f_out c) (c_outpipe c) rest (c_segfetch c)
                            (c_segcheck c) (c_pending c) (c_nextx c)) sid r
      end
  | EvRunFetch =>                                           (* case state := <-c.segfetch: fetcher.add *)
      match c_segfetch c with
      | [] => c
      | sid :: rest =>
          queue_check (mkcl (c_streams c) (f_streams c ++ [sid]) (f_rr c) (f_out c) (c_outpipe c) (c_seginpipe c) rest
                            (c_segcheck c) (c_pending c) (c_nextx c))
      end
  | EvRunCheck =>                                           (* case <-c.segcheck: fetcher.doCheck *)
      match c_segcheck c with
      | O => c
      | Datatypes.S k =>
          do_check check_fuel (mkcl (c_streams c) (f_streams c) (f_rr c) (f_out c) (c_outpipe c) (c_seginpipe c)
                                    (c_segfetch c) k (c_pending c) (c_nextx c))
      end
  | EvResult xid r =>                                       (* the callback expressRImpl gave to engine.Express *)
      match take_pending xid (c_pending c) with
      | None => c
      | Some (x, rest) =>
          let c1 := mkcl (c_streams c) (f_streams c) (f_rr c) (f_out c) (c_outpipe c) (c_seginpipe c) (c_segfetch c)
                         (c_segcheck c) rest (c_nextx c) in
          let final (r : result) :=
            match x_kind x with
            | SegI _ => push_segin c1 (x_sid x) r                (* s.client.seginpipe <- {state, args} *)
            | MetaI => meta_callback c1 (x_sid x) r
            end in
          match r with
          | RTimeout =>
              match x_retries x with
              | O => final r                                     (* retries exhausted: args.callback(res) *)
              | Datatypes.S k => push_out c1 (mkx (x_sid x) (x_kind x) (x_name x) k)   (* c.ExpressR(args, ...) *)
              end
          | _ => final r
          end
      end
  end.

Definition run (evs : list cev) : client := fold_left step evs cl_init.

(* ---- specification side: what the consumer's callback log must look like ---- *)
Definition log_chunks (l : list cbrec) : bytes := concat (map (fun r => slot_bytes (cb_chunk r)) l).
Definition completions (l : list cbrec) : nat := length (filter cb_complete l).
(* decidable oracle for one finished consumer: exactly one completion, it is the last callback, and either it carries
   an error, or everything handed out through Content() concatenates to the published content *)
Definition consume_log_ok (content : bytes) (may_fail : bool) (l : list cbrec) : bool :=
  (completions l =? 1)
  && match rev l with
     | last :: _ =>
         cb_complete last
         && match cb_err last with
            | None => bytes_eqb (log_chunks l) content
            | Some _ => may_fail
            end
     | [] => false
     end.

(* ---- decidable versions of the hypotheses of the consumer theorems (FetchSafe.run_ok, FetchBudget.run_clean, wf_world,
   quiescent), so that the runner can check on every generated trace that the theorem applies, and evaluate its
   conclusion on the implementation's callbacks. Soundness: FetchCheck.v. ---- *)
Definition is_failureb (r : result) : bool := match r with RData _ _ _ _ => false | _ => true end.
Definition honest_datab (segs : list bytes) (k : nat) (r : result) : bool :=
  match r with
  | RData nm payload (Some fbc) _ =>
      match rev nm with
      | c :: _ =>
          (k <? length segs) && bytes_eqb payload (nth k segs []) && N.eqb (ctyp c) typSegment
          && N.eqb (comp_num64 c) (N.of_nat k) && N.eqb (ctyp fbc) typSegment
          && N.eqb (comp_num64 fbc) (N.of_nat (length segs - 1))
      | [] => false
      end
  | _ => false
  end.
Definition ev_okb (W : nat -> list bytes) (c : client) (e : cev) : bool :=
  match e with
  | EvResult xid r =>
      match take_pending xid (c_pending c) with
      | Some (x, _) => match x_kind x with
                       | SegI kN => is_failureb r || honest_datab (W (x_sid x)) (N.to_nat kN) r
                       | MetaI => true
                       end
      | None => true
      end
  | _ => true
  end.
Definition ev_cleanb (c : client) (e : cev) : bool :=
  match e with
  | EvResult xid r =>
      match take_pending xid (c_pending c) with
      | Some (x, _) =>
          match r with
          | RTimeout => 0 <? x_retries x
          | RData _ _ _ meta => match x_kind x with
                                | SegI _ => true
                                | MetaI => match meta with Some inner => last_is_version inner | None => false end
                                end
          | _ => false
          end
      | None => true
      end
  | EvConsume nm _ => match nm with [] => false | _ => true end
  | _ => true
  end.
Fixpoint run_checkb (W : nat -> list bytes) (c : client) (evs : list cev) : bool * bool * client :=
  (* (run_ok, run_clean, final state) *)
  match evs with
  | [] => (true, true, c)
  | e :: r => let '(a, b, c') := run_checkb W (step c e) r in (ev_okb W c e && a, ev_cleanb c e && b, c')
  end.
Definition wf_objectb (segs : list bytes) : bool :=
  (1 <=? length segs) && (N.of_nat (length segs) <=? maxObjectSeg)%N
  && forallb (fun b => match b with [] => false | _ => true end) segs.
Definition quiescentb (c : client) : bool :=
  match c_outpipe c, c_seginpipe c, c_segfetch c, c_segcheck c, c_pending c with
  | [], [], [], O, [] => true
  | _, _, _, _, _ => false
  end.
