(* Object/FetchBudget.v — losses within the retry budget never surface as an error: if no Interest runs out of retries,
   nothing but (honest) Data ever reaches handleData and the metadata names a version, then no stream ever records an
   error. With FetchSafe (content in order, at most one completion) and FetchLive (completion at quiescence) this is
   consume_any_order. *)
From Object Require Import Fetch FetchStream FetchSafe FetchLive.
From Coq Require Import Lia Arith PeanoNat ZArith.
Open Scope nat_scope.
Arguments log_chunks : simpl never.
Arguments completions : simpl never.

Section Budget.
Variable W : nat -> list bytes.
Hypothesis Hwf : wf_world W.

Definition final_ok (c : client) (xid : nat) (r : result) : Prop :=
  forall x rest, take_pending xid (c_pending c) = Some (x, rest) ->
    match r with
    | RTimeout => 0 < x_retries x                    (* the loss is within the retry budget of that Interest *)
    | RData _ _ _ meta =>
        match x_kind x with
        | SegI _ => True                              (* honesty of segment Data is part of ev_ok *)
        | MetaI => exists inner, meta = Some inner /\ last_is_version inner = true
        end
    | _ => False                                      (* no Nack / engine error / unverified *)
    end.
Definition ev_clean (c : client) (e : cev) : Prop :=
  match e with
  | EvResult xid r => final_ok c xid r
  | EvConsume nm _ => nm <> []
  | _ => True
  end.
Fixpoint run_clean (c : client) (evs : list cev) : Prop :=
  match evs with [] => True | e :: r => ev_clean c e /\ run_clean (step c e) r end.

Definition noerr (c : client) : Prop :=
  (forall sid, sid < nstreams c -> s_err (get_stream c sid) = None) /\
  Forall (fun sr => exists k, honest_data (W (fst sr)) k (snd sr)) (c_seginpipe c).

Lemma noerr_frame c c' :
  c_streams c' = c_streams c -> Forall (fun sr => exists k, honest_data (W (fst sr)) k (snd sr)) (c_seginpipe c') ->
  noerr c -> noerr c'.
Proof.
  intros Hs Hq (H1 & _). split; [|exact Hq]. unfold nstreams, get_stream in *. rewrite Hs. exact H1.
Qed.

Lemma noerr_do_check fuel c : noerr c -> noerr (do_check fuel c).
Proof.
  apply do_check_ind; clear fuel c.
  - intros c rr H. eapply noerr_frame; [| |exact H]; [reflexivity|apply H].
  - intros c idx (H1 & H2) _ _. split; [|exact H2].
    intros sid Hs. unfold nstreams, assign in Hs. cbn in Hs. rewrite upd_nth_length in Hs.
    unfold get_stream, assign. cbn.
    destruct (Nat.eq_dec (nth idx (live_streams c) 0) sid) as [->|Hne].
    + rewrite nth_upd_nth_same by exact Hs. cbn. apply H1. exact Hs.
    + rewrite nth_upd_nth_other by exact Hne. apply H1. exact Hs.
Qed.

Lemma last_is_version_nonempty nm : last_is_version nm = true -> nm <> [].
Proof. intros H E. subst. discriminate. Qed.

Lemma noerr_step c e : safe_inv W c -> ev_ok W c e -> ev_clean c e -> noerr c -> noerr (step c e).
Proof.
  intros Hi Hev Hcl Hnc. pose proof Hnc as (H1 & H2). destruct e as [nm pol| | | | |xid r]; cbn [step].
  - (* Consume with a non-empty name: no finalizeError *)
    cbn in Hcl. set (c1 := mkcl _ _ _ _ _ _ _ _ _ _).
    assert (Hn : noerr c1).
    { split; [|exact H2]. intros sid Hs. unfold c1 in Hs. rewrite nstreams_app_one in Hs.
      destruct (Nat.eq_dec sid (nstreams c)) as [->|Hne].
      - unfold c1. rewrite get_stream_app_new. reflexivity.
      - unfold c1. rewrite get_stream_app_old by lia. apply H1. lia. }
    unfold consume_object.
    assert (Hf : s_fetch (get_stream c1 (length (c_streams c))) = nm).
    { unfold c1. fold (nstreams c). rewrite get_stream_app_new. reflexivity. }
    assert (Hm : s_hasmeta (get_stream c1 (length (c_streams c))) = false).
    { unfold c1. fold (nstreams c). rewrite get_stream_app_new. reflexivity. }
    rewrite Hf, Hm. destruct nm as [|c0 nm]; [congruence|].
    destruct (last_is_version (c0 :: nm)); (eapply noerr_frame; [| |exact Hn]; [reflexivity|apply Hn]).
  - destruct (c_outpipe c); [exact Hnc|]. eapply noerr_frame; [| |exact Hnc]; [reflexivity|exact H2].
  - (* handleData on honest Data *)
    destruct (c_seginpipe c) as [|[sid0 r] rest] eqn:Hsq; [exact Hnc|].
    inversion H2 as [|? ? [k0 Hh0] Hrest]; subst. cbn in Hh0.
    destruct Hi as (G1 & G2 & G3 & G4 & G5 & G6).
    rewrite Hsq in G2. inversion G2 as [|? ? [Ha Hb] Hc]; subst. cbn in Ha.
    unfold handle_data. set (c0 := queue_check _).
    assert (Hn0 : noerr c0) by (split; [exact H1|exact Hrest]).
    destruct (s_complete (get_stream c0 sid0)) eqn:Hcomp; [exact Hn0|].
    destruct r as [nm payload fb meta| | | |];
      try (destruct Hh0 as (? & ? & ? & ? & ? & E & _); discriminate).
    assert (Hobj : wf_object (W sid0)).
    { apply Hwf. destruct Hh0 as (? & ? & ? & ? & ? & _ & Hk & _). intros E. rewrite E in Hk. cbn in Hk. lia. }
    assert (Hst : stream_inv (W sid0) (get_stream c0 sid0)) by (apply G1; exact Ha).
    assert (Hk0 : k0 < length (W sid0)) by (destruct Hh0 as (? & ? & ? & ? & ? & _ & Hk & _); exact Hk).
    rewrite (handle_data_stream_is_honest (W sid0) _ k0 _ _ _ meta Hobj (proj1 (proj2 Hst)) Hh0).
    destruct (handle_honest (W sid0) (get_stream c0 sid0) k0) as [st' removed] eqn:Hhh.
    destruct (handle_honest_spec (W sid0) _ k0 Hobj Hst Hcomp Hk0 st' removed Hhh) as (_ & Herr & _).
    assert (Hres : noerr (set_stream c0 sid0 (fun _ => st'))).
    { split; [|exact Hrest]. intros sid Hs. rewrite nstreams_set_stream in Hs.
      destruct (Nat.eq_dec sid0 sid) as [->|Hne].
      - rewrite get_set_stream_same by exact Hs. exact Herr.
      - rewrite get_set_stream_other by exact Hne. apply H1. exact Hs. }
    destruct removed; [|exact Hres]. eapply noerr_frame; [| |exact Hres]; [reflexivity|apply Hres].
  - destruct (c_segfetch c); [exact Hnc|]. eapply noerr_frame; [| |exact Hnc]; [reflexivity|exact H2].
  - destruct (c_segcheck c); [exact Hnc|]. apply noerr_do_check.
    eapply noerr_frame; [| |exact Hnc]; [reflexivity|exact H2].
  - destruct (take_pending xid (c_pending c)) as [[x rest]|] eqn:Ht; [|split; assumption].
    cbn in Hev, Hcl. specialize (Hev x rest Ht). specialize (Hcl x rest Ht).
    destruct (take_pending_spec xid _ _ _ Ht) as [Hin Hsub].
    assert (Hx : x_sid x < nstreams c).
    { destruct Hi as (_ & _ & _ & H4 & _). rewrite Forall_forall in H4. apply (H4 (xid, x)). exact Hin. }
    set (c1 := mkcl _ _ _ _ _ _ _ _ rest _).
    assert (Hn1 : noerr c1) by (split; assumption).
    destruct r as [nm payload fb meta| | | |]; try contradiction.
    + (* Data *)
      destruct (x_kind x) as [|kN] eqn:Hkind.
      * destruct Hcl as (inner & -> & Hver). unfold meta_callback.
        set (f := fun st => mkst _ inner true _ _ _ _ _ _ _ _ _ _).
        set (c2 := set_stream c1 (x_sid x) f).
        assert (Hn2 : noerr c2).
        { split; [|exact H2]. intros sid Hs. unfold c2 in Hs. rewrite nstreams_set_stream in Hs.
          unfold c2. destruct (Nat.eq_dec (x_sid x) sid) as [<-|Hne].
          - rewrite get_set_stream_same by exact Hx. unfold f. cbn. apply H1. exact Hx.
          - rewrite get_set_stream_other by exact Hne. apply H1. exact Hs. }
        unfold consume_object.
        assert (Hf : s_fetch (get_stream c2 (x_sid x)) = inner).
        { unfold c2. rewrite get_set_stream_same by exact Hx. reflexivity. }
        rewrite Hf. pose proof (last_is_version_nonempty inner Hver) as Hne.
        destruct inner as [|c0 inner]; [congruence|]. rewrite Hver.
        eapply noerr_frame; [| |exact Hn2]; [reflexivity|apply Hn2].
      * destruct Hev as [Hf|[k [_ Hh]]]; [contradiction|].
        split; [exact H1|]. cbn. apply Forall_app. split; [exact H2|]. constructor; [|constructor].
        cbn. exists k. exact Hh.
    + (* Timeout within the budget: re-expressed *)
      destruct (x_retries x) as [|n]; [lia|].
      eapply noerr_frame; [| |exact Hn1]; [reflexivity|exact H2].
Qed.

Lemma noerr_init : noerr cl_init.
Proof. split; [intros sid Hs; unfold nstreams in Hs; cbn in Hs; lia|constructor]. Qed.

Theorem run_noerr : forall evs c, run_ok W c evs -> run_clean c evs -> live_inv W c -> noerr c ->
  noerr (fold_left step evs c).
Proof.
  induction evs as [|e evs IH]; intros c Hok Hcl Hl Hn; [exact Hn|].
  cbn in *. destruct Hok as [He Hr]. destruct Hcl as [Hc Hcr].
  apply IH; [exact Hr|exact Hcr|apply live_inv_step; assumption|].
  apply noerr_step; try assumption. apply Hl.
Qed.

(* ---------------- the consumer-facing statement ---------------- *)
Lemma stream_inv_log segs st : stream_inv segs st -> s_complete st = true ->
  consume_log_ok (concat segs) (match s_err st with Some _ => true | None => false end) (s_log st) = true.
Proof.
  intros (_ & _ & (Hl & Hc & Hlast & Hall) & _) Hcomp.
  destruct (Hlast Hcomp) as (l & r & El & Hrc & Hre & Hl0).
  unfold consume_log_ok. rewrite Hc, Hcomp. cbn [Nat.eqb].
  rewrite El, rev_app_distr. cbn [rev app]. rewrite Hrc, Hre. cbn [andb].
  destruct (s_err st) eqn:He; [reflexivity|].
  destruct (Hall Hcomp eq_refl) as [Hw0 _]. rewrite <- El, Hl, Hw0, firstn_all.
  apply bytes_eqb_spec. reflexivity.
Qed.

(* consume_any_order: for every schedule of run-loop iterations, Consume calls and engine results in which segment
   replies are honest (any arrival order, with retransmissions), every stream at every moment has handed out a prefix
   of its object's bytes in order and reported at most one completion; at quiescence every stream HAS reported its
   completion, exactly once and as its last callback; and if moreover the run is clean (losses within the retry
   budget, metadata naming a version, non-empty names) the completion carries no error and the bytes handed out are
   exactly the published content. *)
Theorem consume_any_order : forall evs, run_ok W cl_init evs ->
  let c := fold_left step evs cl_init in
  forall sid, sid < nstreams c ->
  let st := get_stream c sid in
  s_panic st = false /\
  completions (s_log st) <= 1 /\
  (exists m, log_chunks (s_log st) = concat (firstn m (W sid))) /\
  (quiescent c ->
     s_complete st = true /\ completions (s_log st) = 1 /\
     consume_log_ok (concat (W sid)) true (s_log st) = true /\
     (run_clean cl_init evs -> consume_log_ok (concat (W sid)) false (s_log st) = true)).
Proof.
  intros evs Hok c sid Hsid st.
  pose proof (run_live W Hwf evs cl_init Hok (live_inv_init W)) as Hl. fold c in Hl.
  pose proof Hl as (Hs & _). destruct Hs as (Hst & _). specialize (Hst sid Hsid). fold st in Hst.
  pose proof Hst as (Hp & _ & (Hlc & Hcm & _ & _) & _).
  split; [exact Hp|]. split; [rewrite Hcm; destruct (s_complete st); lia|].
  split; [exists (s_w0 st); exact Hlc|].
  intros Hq. pose proof (quiescent_complete W c Hl Hq sid Hsid) as Hcomp. fold st in Hcomp.
  split; [exact Hcomp|]. split; [rewrite Hcm, Hcomp; reflexivity|].
  pose proof (stream_inv_log (W sid) st Hst Hcomp) as Hlog.
  split.
  - destruct (s_err st); [exact Hlog|].
    unfold consume_log_ok in *. destruct (completions (s_log st) =? 1); [|discriminate]. cbn [andb] in *.
    destruct (rev (s_log st)) as [|last tl]; [discriminate|]. destruct (cb_complete last); [|discriminate].
    cbn [andb] in *. destruct (cb_err last); [reflexivity|exact Hlog].
  - intros Hclean.
    pose proof (run_noerr evs cl_init Hok Hclean (live_inv_init W) noerr_init) as (Hne & _). fold c in Hne.
    specialize (Hne sid Hsid). fold st in Hne. rewrite Hne in Hlog. exact Hlog.
Qed.

Theorem error_once : forall evs, run_ok W cl_init evs ->
  let c := fold_left step evs cl_init in
  forall sid e, sid < nstreams c -> s_err (get_stream c sid) = Some e ->
  exists l r, s_log (get_stream c sid) = l ++ [r] /\ cb_complete r = true /\ cb_err r = Some e /\ completions l = 0.
Proof.
  intros evs Hok c sid e Hsid He.
  pose proof (run_live W Hwf evs cl_init Hok (live_inv_init W)) as Hl. fold c in Hl.
  destruct Hl as ((Hst & _) & _). specialize (Hst sid Hsid).
  destruct Hst as (_ & _ & (_ & _ & Hlast & _) & Hne).
  destruct (s_complete (get_stream c sid)) eqn:Hc.
  - destruct (Hlast eq_refl) as (l & r & A & B & C & D). exists l, r. rewrite C, He. auto.
  - rewrite (Hne eq_refl) in He. discriminate.
Qed.
End Budget.

