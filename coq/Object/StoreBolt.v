(* Object/StoreBolt.v — the bolt store model (key-sorted list, cursor loops as written) refines the finite-map
   specification. Ingredients: TLV names are prefix-free, so a key has the query key as a byte prefix exactly when the
   name has the query name as a component prefix; in a key-sorted bucket the keys with a given byte prefix form one
   contiguous block starting where Seek lands; the scan loop keeps the newest of the block — as long as the block is
   shorter than the iteration cap. *)
From Object Require Import Store StoreSpec StoreMem.
From Coq Require Import Lia Permutation Arith PeanoNat Sorted.
From Names Require Import Order.
Open Scope nat_scope.

(* ---------------- byte prefixes ---------------- *)
Lemma has_prefix_bytes_spec p : forall k, has_prefix_bytes p k = true <-> exists y, k = p ++ y.
Proof.
  induction p as [|x p IH]; intros k; cbn.
  - split; [intros _; exists k; reflexivity|reflexivity].
  - destruct k as [|y k]; [split; [discriminate|intros [z E]; discriminate]|].
    rewrite andb_true_iff, N.eqb_eq, IH. split.
    + intros [-> [z ->]]. exists z. reflexivity.
    + intros [z E]. inversion E. split; [reflexivity|exists z; reflexivity].
Qed.

Lemma name_inner_app a b : name_inner (a ++ b) = name_inner a ++ name_inner b.
Proof. unfold name_inner. rewrite map_app, concat_app. reflexivity. Qed.

Lemma comp_enc_nonnil c : comp_enc c <> [].
Proof. pose proof (comp_enc_length_pos c). destruct (comp_enc c); [cbn in *; lia|discriminate]. Qed.

(* TLV names are prefix-free: byte prefix of the encodings = component prefix of the names *)
Lemma prefix_bytes_names : forall p q, Forall comp_wf p -> Forall comp_wf q ->
  (has_prefix_bytes (name_inner p) (name_inner q) = true <-> is_prefix p q = true).
Proof.
  induction p as [|c p IH]; intros q Hp Hq.
  - cbn. tauto.
  - inversion Hp as [|? ? Hc Hp']; subst. destruct q as [|d q].
    + cbn [is_prefix]. split; [|discriminate]. intros H. apply has_prefix_bytes_spec in H. destruct H as [y E].
      unfold name_inner in E. cbn in E. pose proof (comp_enc_nonnil c). destruct (comp_enc c); [congruence|discriminate].
    + inversion Hq as [|? ? Hd Hq']; subst. cbn [is_prefix]. split.
      * intros H. apply has_prefix_bytes_spec in H. destruct H as [y E].
        unfold name_inner in E. cbn [map concat] in E. fold (name_inner q) in E. fold (name_inner p) in E.
        assert (Hr : read_comp (comp_enc d ++ name_inner q) = read_comp (comp_enc c ++ (name_inner p ++ y))).
        { rewrite E, <- app_assoc. reflexivity. }
        rewrite !read_comp_enc in Hr by assumption. inversion Hr; subst.
        apply andb_true_iff. split; [apply comp_eqb_spec; reflexivity|].
        apply IH; [assumption|assumption|]. apply has_prefix_bytes_spec. exists y. assumption.
      * intros H. apply andb_true_iff in H. destruct H as [H1 H2]. apply comp_eqb_spec in H1. subst d.
        apply (IH q Hp' Hq') in H2. apply has_prefix_bytes_spec in H2. destruct H2 as [y E].
        apply has_prefix_bytes_spec. exists y. unfold name_inner in *. cbn [map concat]. rewrite E, app_assoc. reflexivity.
Qed.

Lemma has_prefix_bytes_refl k : has_prefix_bytes k k = true.
Proof. apply has_prefix_bytes_spec. exists []. rewrite app_nil_r. reflexivity. Qed.

Lemma name_inner_inj a b : Forall comp_wf a -> Forall comp_wf b -> name_inner a = name_inner b -> a = b.
Proof.
  intros Ha Hb E. apply is_prefix_antisym.
  - apply (prefix_bytes_names a b Ha Hb). rewrite E. apply has_prefix_bytes_refl.
  - apply (prefix_bytes_names b a Hb Ha). rewrite E. apply has_prefix_bytes_refl.
Qed.

(* ---------------- order facts: between the prefix and one of its extensions there are only extensions ------------- *)
Lemma prefix_not_less p : forall k, has_prefix_bytes p k = true -> bytes_cmp k p <> Lt.
Proof.
  induction p as [|x p IH]; intros k H.
  - destruct k; cbn; discriminate.
  - destruct k as [|y k]; [discriminate|]. cbn in H. apply andb_true_iff in H. destruct H as [H1 H2].
    apply N.eqb_eq in H1. subst y. cbn. rewrite N.compare_refl. apply IH. exact H2.
Qed.

Lemma between_prefix p : forall k1 k2, bytes_cmp k1 p <> Lt -> bytes_cmp k1 k2 = Lt -> has_prefix_bytes p k2 = true ->
  has_prefix_bytes p k1 = true.
Proof.
  induction p as [|x p IH]; intros k1 k2 H1 H2 H3; [reflexivity|].
  destruct k2 as [|z k2]; [discriminate|]. cbn in H3. apply andb_true_iff in H3. destruct H3 as [Hz H3]. apply N.eqb_eq in Hz. subst z.
  destruct k1 as [|y k1]; [cbn in H1; congruence|].
  cbn in H1, H2 |- *. destruct (y ?= x)%N eqn:E.
  - apply N.compare_eq in E. subst y. rewrite N.eqb_refl. cbn. eapply IH; eauto.
  - congruence.
  - discriminate.
Qed.

(* ---------------- the key-sorted bucket ---------------- *)
Definition klt (a b : bytes * bytes) : Prop := bytes_cmp (fst a) (fst b) = Lt.
Definition ksorted (db : bdb) : Prop := StronglySorted klt db.

Lemma bytes_cmp_gt_lt a b : bytes_cmp a b = Gt -> bytes_cmp b a = Lt.
Proof. intros H. rewrite bytes_cmp_antisym, H. reflexivity. Qed.
Lemma bytes_cmp_lt_neq a b : bytes_cmp a b = Lt -> a <> b.
Proof. intros H ->. rewrite bytes_cmp_refl in H. discriminate. Qed.

Lemma b_put_spec k v : forall db, ksorted db ->
  ksorted (b_put k v db) /\
  forall k' v', In (k', v') (b_put k v db) <-> (k' = k /\ v' = v) \/ (In (k', v') db /\ k' <> k).
Proof.
  induction db as [|[k0 v0] db IH]; intros Hs.
  - cbn. split; [repeat constructor|]. intros k' v'. split.
    + intros [H|[]]. inversion H. auto.
    + intros [[-> ->]|[[] _]]. left. reflexivity.
  - inversion Hs as [|? ? Hs' Hall]; subst. cbn [b_put]. destruct (bytes_cmp k k0) eqn:E.
    + apply bytes_cmp_eq in E. subst k0. split.
      * constructor; [exact Hs'|exact Hall].
      * intros k' v'. cbn. split.
        -- intros [H|H]; [inversion H; auto|]. right. split; [right; exact H|].
           rewrite Forall_forall in Hall. specialize (Hall _ H). unfold klt in Hall. cbn in Hall. intros ->.
           rewrite bytes_cmp_refl in Hall. discriminate.
        -- intros [[-> ->]|[[H|H] Hne]]; [left; reflexivity|inversion H; congruence|right; exact H].
    + split.
      * constructor; [exact Hs|]. constructor; [exact E|].
        rewrite Forall_forall in *. intros x Hx. specialize (Hall x Hx). unfold klt in *. cbn in *. eapply bytes_cmp_trans; eauto.
      * intros k' v'. cbn. split.
        -- intros [H|[H|H]]; [inversion H; auto| |].
           ++ inversion H; subst. right. split; [left; reflexivity|]. apply not_eq_sym. apply bytes_cmp_lt_neq. exact E.
           ++ right. split; [right; exact H|]. rewrite Forall_forall in Hall. specialize (Hall _ H). unfold klt in Hall. cbn in Hall.
              intros ->. assert (bytes_cmp k k = Lt) by (eapply bytes_cmp_trans; eauto). rewrite bytes_cmp_refl in H0. discriminate.
        -- intros [[-> ->]|[[H|H] Hne]]; [left; reflexivity|right; left; exact H|right; right; exact H].
    + destruct (IH Hs') as [H1 H2]. apply bytes_cmp_gt_lt in E. split.
      * constructor; [exact H1|]. rewrite Forall_forall in *. intros [k' v'] Hx. apply H2 in Hx. unfold klt. cbn.
        destruct Hx as [[-> ->]|[Hx _]]; [exact E|]. apply (Hall _ Hx).
      * intros k' v'. cbn. rewrite H2. split.
        -- intros [H|[H|[H Hne]]]; [inversion H; subst; right; split; [left; reflexivity|apply bytes_cmp_lt_neq; exact E]|left; exact H|right; split; [right; exact H|exact Hne]].
        -- intros [H|[[H|H] Hne]]; [right; left; exact H|left; exact H|right; right; split; assumption].
Qed.

Lemma ksorted_unique db : ksorted db -> forall k v v', In (k, v) db -> In (k, v') db -> v = v'.
Proof.
  induction db as [|[k0 v0] db IH]; intros Hs k v v' H1 H2; [contradiction|].
  inversion Hs as [|? ? Hs' Hall]; subst. rewrite Forall_forall in Hall.
  destruct H1 as [H1|H1]; destruct H2 as [H2|H2].
  - congruence.
  - inversion H1; subst. specialize (Hall _ H2). unfold klt in Hall. cbn in Hall. rewrite bytes_cmp_refl in Hall. discriminate.
  - inversion H2; subst. specialize (Hall _ H1). unfold klt in Hall. cbn in Hall. rewrite bytes_cmp_refl in Hall. discriminate.
  - eapply IH; eauto.
Qed.

Lemma b_lookup_In db : ksorted db -> forall k v, b_lookup k db = Some v <-> In (k, v) db.
Proof.
  intros Hs k v. split.
  - clear Hs. induction db as [|[k0 v0] db IH]; cbn; [discriminate|]. destruct (bytes_eqb k k0) eqn:E.
    + apply bytes_eqb_spec in E. subst. intros H. inversion H. left. reflexivity.
    + intros H. right. apply IH. exact H.
  - intros Hin. induction db as [|[k0 v0] db IH]; [contradiction|]. cbn. destruct (bytes_eqb k k0) eqn:E.
    + apply bytes_eqb_spec in E. subst k0. f_equal. eapply ksorted_unique; [exact Hs|left; reflexivity|exact Hin].
    + destruct Hin as [Hin|Hin]; [inversion Hin; subst; assert (bytes_eqb k k = true) by (apply bytes_eqb_spec; reflexivity); congruence|].
      inversion Hs; subst. apply IH; assumption.
Qed.

Lemma ksorted_filter (g : bytes * bytes -> bool) db : ksorted db -> ksorted (filter g db).
Proof.
  induction db as [|x db IH]; intros Hs; [constructor|]. inversion Hs as [|? ? Hs' Hall]; subst. cbn.
  destruct (g x); [|apply IH; exact Hs']. constructor; [apply IH; exact Hs'|].
  rewrite Forall_forall in *. intros y Hy. apply filter_In in Hy. apply Hall. apply Hy.
Qed.

Lemma b_delete_spec k db : ksorted db -> ksorted (b_delete k db) /\ forall x, In x (b_delete k db) <-> In x db /\ fst x <> k.
Proof.
  intros Hs. unfold b_delete. split; [apply ksorted_filter; exact Hs|]. intros x. rewrite filter_In. split.
  - intros [H1 H2]. split; [exact H1|]. intros E. apply negb_true_iff in H2. rewrite E in H2.
    assert (bytes_eqb k k = true) by (apply bytes_eqb_spec; reflexivity). congruence.
  - intros [H1 H2]. split; [exact H1|]. apply negb_true_iff. destruct (bytes_eqb (fst x) k) eqn:E; [|reflexivity].
    apply bytes_eqb_spec in E. contradiction.
Qed.

Lemma fold_delete_spec ks : forall db, ksorted db ->
  ksorted (fold_left (fun d k => b_delete k d) ks db) /\
  forall x, In x (fold_left (fun d k => b_delete k d) ks db) <-> In x db /\ ~ In (fst x) ks.
Proof.
  induction ks as [|k ks IH]; intros db Hs; cbn [fold_left].
  - split; [exact Hs|]. intros x. cbn. tauto.
  - destruct (b_delete_spec k db Hs) as [H1 H2]. destruct (IH _ H1) as [H3 H4]. split; [exact H3|].
    intros x. rewrite H4, H2. cbn. split; [intros [[Ha Hb] Hc]; split; [exact Ha|]; intros [E|E]; [congruence|contradiction]|].
    intros [Ha Hb]. split; [split; [exact Ha|]; intros E; apply Hb; left; congruence|intros E; apply Hb; right; exact E].
Qed.

(* Seek and the block of keys carrying the prefix *)
Fixpoint block (key : bytes) (cur : bdb) : bdb :=
  match cur with
  | [] => []
  | (k, v) :: r => if has_prefix_bytes key k then (k, v) :: block key r else []
  end.

Lemma b_seek_spec key : forall db, ksorted db ->
  ksorted (b_seek key db) /\ (forall x, In x (b_seek key db) -> In x db /\ bytes_cmp (fst x) key <> Lt) /\
  (forall x, In x db -> bytes_cmp (fst x) key <> Lt -> In x (b_seek key db)).
Proof.
  induction db as [|[k v] db IH]; intros Hs; cbn [b_seek].
  - split; [constructor|]. split; [intros x []|intros x []].
  - inversion Hs as [|? ? Hs' Hall]; subst. destruct (bytes_cmp k key) eqn:E.
    + split; [exact Hs|]. split.
      * intros x [<-|Hx]; [split; [left; reflexivity|cbn; congruence]|]. split; [right; exact Hx|].
        rewrite Forall_forall in Hall. specialize (Hall _ Hx). unfold klt in Hall. cbn in Hall.
        apply bytes_cmp_eq in E. subst k. intros E2. rewrite bytes_cmp_antisym, Hall in E2. discriminate.
      * intros x Hx _. exact Hx.
    + destruct (IH Hs') as (H1 & H2 & H3). split; [exact H1|]. split.
      * intros x Hx. destruct (H2 x Hx). split; [right; assumption|assumption].
      * intros x [<-|Hx] Hn; [cbn in Hn; congruence|apply H3; assumption].
    + split; [exact Hs|]. split.
      * intros x [<-|Hx]; [split; [left; reflexivity|cbn; congruence]|]. split; [right; exact Hx|].
        rewrite Forall_forall in Hall. specialize (Hall _ Hx). unfold klt in Hall. cbn in Hall.
        intros E2. apply bytes_cmp_gt_lt in E. assert (bytes_cmp key key = Lt).
        { eapply bytes_cmp_trans; [exact E|]. eapply bytes_cmp_trans; eauto. }
        rewrite bytes_cmp_refl in H. discriminate.
      * intros x Hx _. exact Hx.
Qed.

Lemma block_spec key : forall s, ksorted s -> (forall x, In x s -> bytes_cmp (fst x) key <> Lt) ->
  forall x, In x (block key s) <-> In x s /\ has_prefix_bytes key (fst x) = true.
Proof.
  induction s as [|[k v] s IH]; intros Hs Hge x; cbn [block]; [cbn; tauto|].
  inversion Hs as [|? ? Hs' Hall]; subst.
  destruct (has_prefix_bytes key k) eqn:Ep.
  - cbn [In]. rewrite IH by (auto; intros y Hy; apply Hge; right; exact Hy). split.
    + intros [<-|[H1 H2]]; [split; [left; reflexivity|exact Ep]|split; [right; exact H1|exact H2]].
    + intros [[<-|H1] H2]; [left; reflexivity|right; split; assumption].
  - split; [intros []|]. intros [[<-|H1] H2]; [cbn in H2; congruence|]. exfalso.
    rewrite Forall_forall in Hall. specialize (Hall _ H1). unfold klt in Hall. cbn in Hall.
    assert (Hk : has_prefix_bytes key k = true); [|congruence].
    eapply between_prefix; [apply (Hge (k, v)); left; reflexivity|exact Hall|exact H2].
Qed.

Lemma b_delete_run_block key : forall s, b_delete_run key s = map fst (block key s).
Proof.
  induction s as [|[k v] s IH]; [reflexivity|]. cbn. destruct (has_prefix_bytes key k); [cbn; rewrite IH; reflexivity|reflexivity].
Qed.

(* all keys of the bucket carrying the prefix = the block after Seek *)
Lemma seek_block_spec key db : ksorted db ->
  forall x, In x (block key (b_seek key db)) <-> In x db /\ has_prefix_bytes key (fst x) = true.
Proof.
  intros Hs x. destruct (b_seek_spec key db Hs) as (H1 & H2 & H3).
  rewrite (block_spec key _ H1) by (intros y Hy; apply (H2 y Hy)). split.
  - intros [Ha Hb]. split; [apply (H2 x Ha)|exact Hb].
  - intros [Ha Hb]. split; [|exact Hb]. apply H3; [exact Ha|]. apply prefix_not_less. exact Hb.
Qed.

(* ---------------- the scan loop of Get(prefix) ---------------- *)
Definition dec (kv : bytes * bytes) : cand := (be_val (firstn 8 (snd kv)), skipn 8 (snd kv)).

Lemma b_scan_block key : forall cur iter best,
  (forall x, In x cur -> 8 <= length (snd x)) -> (N.of_nat (length (block key cur)) < iter)%N ->
  b_scan iter key cur best = fold_left pick_newest (map dec (block key cur)) best.
Proof.
  induction cur as [|[k v] cur IH]; intros iter best Hlen Hcap; [reflexivity|].
  cbn [b_scan block]. destruct (has_prefix_bytes key k) eqn:Ep; [|reflexivity].
  cbn [block length map fold_left] in *. rewrite Ep in Hcap. cbn [length] in Hcap.
  replace ((iter - 1 <=? 0)%N) with false by (symmetry; apply N.leb_gt; lia).
  assert (Hv : 8 <= length v) by (apply (Hlen (k, v)); left; reflexivity).
  replace (length v <? 8) with false by (symmetry; apply Nat.ltb_ge; exact Hv).
  rewrite IH; [reflexivity| |lia]. intros x Hx. apply Hlen. right. exact Hx.
Qed.

(* ---------------- the invariant tying the bucket to the specification's entries ---------------- *)
Definition enc_e (qc : name * cand) : bytes * bytes := (name_inner (fst qc), b_value (fst (snd qc)) (snd (snd qc))).
Definition entry_wf (qc : name * cand) : Prop := Forall comp_wf (fst qc) /\ (fst (snd qc) < two64)%N.
Definition b_inv (db : bdb) (e : entries) : Prop :=
  ksorted db /\ NoDup (ekeys e) /\ Forall entry_wf e /\ forall x, In x db <-> exists qc, In qc e /\ x = enc_e qc.

Lemma dec_enc qc : entry_wf qc -> dec (enc_e qc) = snd qc.
Proof.
  intros [_ Hv]. destruct qc as [q [v w]]. unfold dec, enc_e, b_value. cbn [fst snd] in *.
  rewrite firstn_app, be_length, Nat.sub_diag, firstn_O, app_nil_r.
  rewrite (firstn_all2 (n := 8)) by (rewrite be_length; lia).
  rewrite be_val_be by exact Hv. rewrite skipn_app, be_length, Nat.sub_diag, skipn_O.
  rewrite (skipn_all2 (n := 8)) by (rewrite be_length; lia). reflexivity.
Qed.

Lemma enc_len qc : 8 <= length (snd (enc_e qc)).
Proof. unfold enc_e, b_value. cbn [snd]. rewrite app_length, be_length. lia. Qed.

Lemma b_inv_init : b_inv [] [].
Proof.
  unfold b_inv. split; [constructor|]. split; [constructor|]. split; [constructor|].
  intros x. split; [intros []|intros [qc [[] _]]].
Qed.

Lemma entry_key_inj qc qc' : entry_wf qc -> entry_wf qc' -> fst (enc_e qc) = fst (enc_e qc') -> fst qc = fst qc'.
Proof. intros [H1 _] [H2 _] E. cbn in E. apply name_inner_inj; assumption. Qed.

Lemma b_inv_put db e nm ver w : b_inv db e -> entry_wf (nm, (ver, w)) ->
  b_inv (b_put (name_inner nm) (b_value ver w) db) (sp_put e nm ver w).
Proof.
  intros (Hs & Hnd & Hwf & Hmem) Hnew. destruct (b_put_spec (name_inner nm) (b_value ver w) db Hs) as [H1 H2].
  destruct (sp_put_spec e nm ver w Hnd) as [H3 _]. rewrite Forall_forall in Hwf.
  unfold b_inv. split; [exact H1|]. split; [exact H3|]. split.
  - unfold sp_put. constructor; [exact Hnew|]. apply Forall_forall. intros x Hx. apply filter_In in Hx. apply Hwf. apply Hx.
  - intros [k v]. rewrite H2. unfold sp_put. split.
    + intros [[-> ->]|[Hin Hne]].
      * exists (nm, (ver, w)). split; [left; reflexivity|reflexivity].
      * apply Hmem in Hin. destruct Hin as [qc [Hq E]]. exists qc. split; [|exact E].
        right. apply filter_In. split; [exact Hq|]. apply negb_true_iff. apply name_eqb_neq. intros En.
        apply Hne. inversion E. rewrite En. reflexivity.
    + intros [qc [[<-|Hq] E]].
      * left. inversion E. auto.
      * apply filter_In in Hq. destruct Hq as [Hq Hn]. right. split; [apply Hmem; exists qc; auto|].
        inversion E. intros Ek. apply negb_true_iff in Hn.
        assert (fst qc = nm); [|subst; rewrite name_eqb_refl in Hn; discriminate].
        apply (entry_key_inj qc (nm, (ver, w))); [apply Hwf; exact Hq|exact Hnew|exact Ek].
Qed.

Lemma b_inv_remove db e nm p : b_inv db e -> Forall comp_wf nm -> b_inv (b_remove db nm p) (sp_remove e nm p).
Proof.
  intros (Hs & Hnd & Hwf & Hmem) Hnm. destruct (sp_remove_spec e nm p Hnd) as [H3 _]. rewrite Forall_forall in Hwf.
  assert (Hwf' : Forall entry_wf (sp_remove e nm p)).
  { apply Forall_forall. intros x Hx. unfold sp_remove in Hx. apply filter_In in Hx. apply Hwf. apply Hx. }
  unfold b_remove. destruct p.
  - (* prefix *)
    destruct (fold_delete_spec (b_delete_run (name_inner nm) (b_seek (name_inner nm) db)) db Hs) as [H1 H2].
    unfold b_inv. split; [exact H1|]. split; [exact H3|]. split; [exact Hwf'|].
    intros x. rewrite H2. rewrite b_delete_run_block.
    assert (Hrun : In (fst x) (map fst (block (name_inner nm) (b_seek (name_inner nm) db))) <->
                   (exists v, In (fst x, v) db) /\ has_prefix_bytes (name_inner nm) (fst x) = true).
    { rewrite in_map_iff. split.
      - intros [y [E Hy]]. apply (seek_block_spec _ db Hs) in Hy. destruct Hy as [Hy1 Hy2]. rewrite <- E.
        split; [exists (snd y); destruct y; exact Hy1|exact Hy2].
      - intros [[v Hv] Hp]. exists (fst x, v). split; [reflexivity|]. apply (seek_block_spec _ db Hs). auto. }
    unfold sp_remove. split.
    + intros [Hin Hn]. pose proof Hin as Hin'. apply Hmem in Hin. destruct Hin as [qc [Hq E]]. exists qc. split; [|exact E].
      apply filter_In. split; [exact Hq|]. apply negb_true_iff. destruct (is_prefix nm (fst qc)) eqn:Ep; [|reflexivity].
      exfalso. apply Hn. apply Hrun. split; [exists (snd x); destruct x; exact Hin'|].
      subst x. cbn. apply prefix_bytes_names; [exact Hnm|apply Hwf; exact Hq|exact Ep].
    + intros [qc [Hq E]]. apply filter_In in Hq. destruct Hq as [Hq Hn]. split; [apply Hmem; exists qc; auto|].
      intros Hr. apply Hrun in Hr. destruct Hr as [_ Hp]. subst x. cbn in Hp.
      apply prefix_bytes_names in Hp; [|exact Hnm|apply Hwf; exact Hq]. rewrite Hp in Hn. discriminate.
  - (* exact *)
    destruct (b_delete_spec (name_inner nm) db Hs) as [H1 H2].
    unfold b_inv. split; [exact H1|]. split; [exact H3|]. split; [exact Hwf'|].
    intros x. rewrite H2. unfold sp_remove. split.
    + intros [Hin Hne]. apply Hmem in Hin. destruct Hin as [qc [Hq E]]. exists qc. split; [|exact E].
      apply filter_In. split; [exact Hq|]. apply negb_true_iff. apply name_eqb_neq. intros En. apply Hne. subst x. cbn. rewrite En. reflexivity.
    + intros [qc [Hq E]]. apply filter_In in Hq. destruct Hq as [Hq Hn]. split; [apply Hmem; exists qc; auto|].
      subst x. cbn. intros Ek. apply negb_true_iff in Hn.
      assert (fst qc = nm); [|subst; rewrite name_eqb_refl in Hn; discriminate].
      apply name_inner_inj; [apply Hwf; exact Hq|exact Hnm|exact Ek].
Qed.

(* ---------------- Get ---------------- *)
Lemma ksorted_NoDup db : ksorted db -> NoDup db.
Proof.
  induction db as [|x db IH]; intros Hs; [constructor|]. inversion Hs as [|? ? Hs' Hall]; subst. constructor; [|apply IH; exact Hs'].
  intros Hin. rewrite Forall_forall in Hall. specialize (Hall _ Hin). unfold klt in Hall. rewrite bytes_cmp_refl in Hall. discriminate.
Qed.

Lemma ksorted_block key s : ksorted s -> ksorted (block key s).
Proof.
  induction s as [|[k v] s IH]; intros Hs; [constructor|]. inversion Hs as [|? ? Hs' Hall]; subst. cbn.
  destruct (has_prefix_bytes key k) eqn:E; [|constructor]. constructor; [apply IH; exact Hs'|].
  rewrite Forall_forall in *. intros y Hy. apply Hall. clear - Hy. induction s as [|[k' v'] s IH]; [contradiction|].
  cbn in Hy. destruct (has_prefix_bytes key k'); [|contradiction]. destruct Hy as [<-|Hy]; [left; reflexivity|right; apply IH; exact Hy].
Qed.

Lemma NoDup_map_inj {A B} (f : A -> B) l : (forall x y, In x l -> In y l -> f x = f y -> x = y) -> NoDup l -> NoDup (map f l).
Proof.
  induction l as [|x l IH]; intros Hinj Hnd; [constructor|]. inversion Hnd; subst. cbn. constructor.
  - intros Hin. apply in_map_iff in Hin. destruct Hin as [y [E Hy]]. assert (y = x) by (apply Hinj; [right; exact Hy|left; reflexivity|exact E]).
    subst. contradiction.
  - apply IH; [|assumption]. intros a b Ha Hb. apply Hinj; right; assumption.
Qed.

Lemma NoDup_entries e : NoDup (ekeys e) -> NoDup e.
Proof.
  induction e as [|x e IH]; intros H; [constructor|]. cbn in H. inversion H; subst. constructor; [|apply IH; assumption].
  intros Hin. apply H2. apply in_map. exact Hin.
Qed.

(* the block the cursor walks = the specification's entries under the name, one for one *)
Lemma block_under db e nm : b_inv db e -> Forall comp_wf nm ->
  Permutation (block (name_inner nm) (b_seek (name_inner nm) db))
              (map enc_e (filter (fun qc => is_prefix nm (fst qc)) e)).
Proof.
  intros (Hs & Hnd & Hwf & Hmem) Hnm. rewrite Forall_forall in Hwf.
  apply NoDup_Permutation.
  - apply ksorted_NoDup. apply ksorted_block. apply (b_seek_spec _ db Hs).
  - apply NoDup_map_inj.
    + intros x y Hx Hy E. apply filter_In in Hx, Hy. destruct Hx as [Hx _]. destruct Hy as [Hy _].
      assert (Ek : fst x = fst y) by (apply entry_key_inj; [apply Hwf; exact Hx|apply Hwf; exact Hy|rewrite E; reflexivity]).
      destruct x as [q c]. destruct y as [q' c']. cbn in Ek. subst q'. f_equal.
      apply (sp_lookup_In e Hnd) in Hx, Hy. congruence.
    + apply NoDup_filter. apply NoDup_entries. exact Hnd.
  - intros x. rewrite (seek_block_spec _ db Hs), in_map_iff. split.
    + intros [Hin Hp]. apply Hmem in Hin. destruct Hin as [qc [Hq E]]. exists qc. split; [symmetry; exact E|].
      apply filter_In. split; [exact Hq|]. subst x. cbn in Hp. apply prefix_bytes_names in Hp; [exact Hp|exact Hnm|apply Hwf; exact Hq].
    + intros [qc [E Hq]]. apply filter_In in Hq. destruct Hq as [Hq Hp]. subst x. split; [apply Hmem; exists qc; auto|].
      cbn. apply prefix_bytes_names; [exact Hnm|apply Hwf; exact Hq|exact Hp].
Qed.

Theorem b_get_ok cap db e nm p : b_inv db e -> Forall comp_wf nm ->
  (p = true -> (N.of_nat (spec_scan_len e nm) < cap)%N) ->
  spec_get_ok e nm p (b_get cap db nm p) = true.
Proof.
  intros Hinv Hnm Hcap. pose proof Hinv as (Hs & Hnd & Hwf & Hmem). rewrite Forall_forall in Hwf.
  unfold spec_get_ok, b_get.
  (* exact lookups *)
  assert (Hex : b_lookup (name_inner nm) db = option_map (fun c => b_value (fst c) (snd c)) (sp_lookup e nm)).
  { destruct (sp_lookup e nm) as [c|] eqn:El.
    - apply (b_lookup_In db Hs). apply Hmem. exists (nm, c). split; [apply (sp_lookup_In e Hnd); exact El|reflexivity].
    - destruct (b_lookup (name_inner nm) db) as [v|] eqn:Eb; [exfalso|reflexivity].
      apply (b_lookup_In db Hs) in Eb. apply Hmem in Eb. destruct Eb as [qc [Hq E]]. inversion E as [[Ek Ev]].
      assert (fst qc = nm) by (apply name_inner_inj; [apply Hwf; exact Hq|exact Hnm|symmetry; exact Ek]).
      destruct qc as [q c]. cbn in H. subst q. apply (sp_lookup_In e Hnd) in Hq. congruence. }
  destruct p.
  - destruct (sp_lookup e nm) as [c|] eqn:El; [reflexivity|].
    pose proof (block_under db e nm Hinv Hnm) as Hperm.
    set (blk := block (name_inner nm) (b_seek (name_inner nm) db)) in *.
    assert (Hlen : length blk = spec_scan_len e nm).
    { rewrite (Permutation_length Hperm). unfold spec_scan_len, sp_under. rewrite !map_length. reflexivity. }
    rewrite (b_scan_block (name_inner nm)).
    2:{ intros x Hx. destruct (b_seek_spec (name_inner nm) db Hs) as (_ & H2 & _). apply H2 in Hx. destruct Hx as [Hx _].
        apply Hmem in Hx. destruct Hx as [qc [_ ->]]. apply enc_len. }
    2:{ fold blk. rewrite Hlen. apply Hcap. reflexivity. }
    fold blk.
    assert (Hset : forall c, In c (map dec blk) <-> In c (sp_under e nm)).
    { intros c. unfold sp_under. rewrite !in_map_iff. split.
      - intros [x [E Hx]]. eapply Permutation_in in Hx; [|exact Hperm]. apply in_map_iff in Hx. destruct Hx as [qc [E2 Hq]].
        exists qc. split; [|exact Hq]. subst x c. symmetry. apply dec_enc. apply Hwf. apply filter_In in Hq. apply Hq.
      - intros [qc [E Hq]]. exists (enc_e qc). split; [subst c; apply dec_enc; apply Hwf; apply filter_In in Hq; apply Hq|].
        eapply Permutation_in; [symmetry; exact Hperm|]. apply in_map. exact Hq. }
    pose proof (fold_pick_spec (map dec blk) None) as Hf.
    destruct (fold_left pick_newest (map dec blk) None) as [c|]; cbn [option_map].
    + destruct Hf as ([Hin|E] & Hmax & _); [|discriminate].
      assert (Hc : In c (sp_under e nm)) by (apply Hset; exact Hin).
      destruct (sp_under e nm) as [|x l] eqn:Eu; [contradiction|]. apply newest_set_spec; [exact Hc|].
      intros c' Hc'. apply Hmax. apply Hset. exact Hc'.
    + destruct Hf as [_ E]. destruct (sp_under e nm) as [|x l] eqn:Eu; [reflexivity|exfalso].
      assert (Hx : In x (map dec blk)) by (apply Hset; left; reflexivity). rewrite E in Hx. contradiction.
  - rewrite Hex. destruct (sp_lookup e nm) as [c|] eqn:El; cbn [option_map]; [|reflexivity].
    unfold b_value. rewrite skipn_app, be_length, Nat.sub_diag, skipn_O.
    rewrite (skipn_all2 (n := 8)) by (rewrite be_length; lia). cbn. apply bytes_eqb_spec. reflexivity.
Qed.

(* ---------------- histories ---------------- *)
(* documented use of the API for bolt: as for the memory store, and no Remove while a write transaction is open
   (Remove opens its own write transaction and would block forever) *)
Fixpoint bbrackets (intx : bool) (ops : list sop) : Prop :=
  match ops with
  | [] => True
  | SBegin :: r => intx = false /\ bbrackets true r
  | (SCommit | SRollback) :: r => intx = true /\ bbrackets false r
  | SRemove _ _ :: r => intx = false /\ bbrackets intx r
  | _ :: r => bbrackets intx r
  end.
(* names are encodable and versions are 64-bit *)
Definition op_wf (o : sop) : Prop :=
  match o with
  | SPut nm ver _ => Forall comp_wf nm /\ (ver < two64)%N
  | SGet nm _ | SRemove nm _ => Forall comp_wf nm
  | _ => True
  end.

Definition puts_into (e : entries) (l : list (name * cand)) : entries :=
  fold_left (fun e p => sp_put e (fst p) (fst (snd p)) (snd (snd p))) l e.

Definition bolt_rel (bs : bstore) (ss : spec_state) : Prop :=
  b_inv (bs_db bs) (ss_e ss) /\
  match bs_tx bs, ss_tx ss with
  | None, None => True
  | Some tdb, Some l => b_inv tdb (puts_into (ss_e ss) l)
  | _, _ => False
  end.

Definition b_in_tx (bs : bstore) : bool := match bs_tx bs with Some _ => true | None => false end.

Lemma bolt_rel_step cap bs ss o ops : bolt_rel bs ss -> bbrackets (b_in_tx bs) (o :: ops) -> op_wf o ->
  bolt_rel (fst (bs_step cap bs o)) (sp_step ss o) /\ bbrackets (b_in_tx (fst (bs_step cap bs o))) ops.
Proof.
  intros (Hinv & Htx) Hb Hw. destruct bs as [db tx]. destruct ss as [e stx]. cbn [bs_db bs_tx ss_e ss_tx b_in_tx] in *.
  destruct o as [nm ver w|nm p|nm p| | |]; cbn [bs_step sp_step bbrackets op_wf] in *.
  - destruct tx as [tdb|]; destruct stx as [l|]; try contradiction; cbn [fst bs_db bs_tx b_in_tx].
    + split; [|exact Hb]. unfold bolt_rel. cbn [bs_db bs_tx ss_e ss_tx]. split; [exact Hinv|].
      unfold puts_into. rewrite fold_left_app. cbn [fold_left fst snd]. apply b_inv_put; [exact Htx|exact Hw].
    + split; [|exact Hb]. unfold bolt_rel. cbn [bs_db bs_tx ss_e ss_tx]. split; [|exact I]. apply b_inv_put; [exact Hinv|exact Hw].
  - split; [|exact Hb]. unfold bolt_rel. cbn [fst bs_db bs_tx ss_e ss_tx]. auto.
  - destruct Hb as [Hf Hb]. destruct tx as [tdb|]; [discriminate|]. destruct stx; [contradiction|]. cbn [fst bs_db bs_tx b_in_tx].
    split; [|exact Hb]. unfold bolt_rel. cbn [bs_db bs_tx ss_e ss_tx]. split; [|exact I]. apply b_inv_remove; assumption.
  - destruct Hb as [Hf Hb]. destruct tx as [tdb|]; [discriminate|]. destruct stx; [contradiction|]. cbn [fst bs_db bs_tx b_in_tx].
    split; [|exact Hb]. unfold bolt_rel. cbn [bs_db bs_tx ss_e ss_tx]. split; [exact Hinv|exact Hinv].
  - destruct Hb as [Hf Hb]. destruct tx as [tdb|]; [|discriminate]. destruct stx as [l|]; [|contradiction]. cbn [fst bs_db bs_tx b_in_tx].
    split; [|exact Hb]. unfold bolt_rel. cbn [bs_db bs_tx ss_e ss_tx]. split; [exact Htx|exact I].
  - destruct Hb as [Hf Hb]. destruct tx as [tdb|]; [|discriminate]. destruct stx as [l|]; [|contradiction]. cbn [fst bs_db bs_tx b_in_tx].
    split; [|exact Hb]. unfold bolt_rel. cbn [bs_db bs_tx ss_e ss_tx]. split; [exact Hinv|exact I].
Qed.

Definition run_bolt (cap : N) (ops : list sop) : bstore := fold_left (fun s o => fst (bs_step cap s o)) ops bs_init.

Lemma bolt_rel_run cap : forall ops bs ss, bolt_rel bs ss -> bbrackets (b_in_tx bs) ops -> Forall op_wf ops ->
  bolt_rel (fold_left (fun s o => fst (bs_step cap s o)) ops bs) (fold_left sp_step ops ss).
Proof.
  induction ops as [|o ops IH]; intros bs ss Hr Hb Hw; [exact Hr|]. cbn [fold_left]. inversion Hw; subst.
  destruct (bolt_rel_step cap bs ss o ops Hr Hb) as (G1 & G2); [assumption|]. apply IH; assumption.
Qed.

(* newest_version_bolt / removed_not_served (bolt store): after ANY history within the documented use of the API,
   every Get answers as the finite-map specification demands — for a prefix query provided fewer than `cap` names are
   stored under the prefix (the scan gives up after cap-1 keys: known finding, see bolt_scan_cap_refuted) *)
Theorem bolt_store_refines cap ops nm p : bbrackets false ops -> Forall op_wf ops -> Forall comp_wf nm ->
  (p = true -> (N.of_nat (spec_scan_len (ss_e (fold_left sp_step ops ss_init)) nm) < cap)%N) ->
  spec_get_ok (ss_e (fold_left sp_step ops ss_init)) nm p (b_get cap (bs_db (run_bolt cap ops)) nm p) = true.
Proof.
  intros Hb Hw Hnm Hcap.
  assert (Hr0 : bolt_rel bs_init ss_init) by (split; [apply b_inv_init|exact I]).
  destruct (bolt_rel_run cap ops bs_init ss_init Hr0 Hb Hw) as (H1 & _).
  apply b_get_ok; assumption.
Qed.

(* ---------------- key order = version order ---------------- *)
(* The pinned tree's BoltStore.Get(prefix) returned the LAST key of the scan; on the metadata packets of one object
   that happened to be the newest because bucket order of version components is numeric order — also across byte-length
   boundaries (255 -> 256): the TLV length byte precedes the value and Nat encoding is shortest-form. *)
Lemma be_add_mul k : forall m q, be k (m + q * 256 ^ N.of_nat k)%N = be k m.
Proof.
  induction k as [|k IH]; intros m q; [reflexivity|]. cbn [be]. f_equal.
  - rewrite Nat2N.inj_succ, N.pow_succ_r'.
    replace (m + q * (256 * 256 ^ N.of_nat k))%N with (m + (q * 256) * 256 ^ N.of_nat k)%N by lia.
    rewrite N.div_add by (apply N.pow_nonzero; lia). rewrite N.add_mod by lia. rewrite N.mod_mul by lia. rewrite N.add_0_r.
    apply N.mod_mod. lia.
  - rewrite Nat2N.inj_succ, N.pow_succ_r'.
    replace (m + q * (256 * 256 ^ N.of_nat k))%N with (m + (q * 256) * 256 ^ N.of_nat k)%N by lia. apply IH.
Qed.

Lemma be_cmp k : forall a b, (a < 256 ^ N.of_nat k)%N -> (b < 256 ^ N.of_nat k)%N -> bytes_cmp (be k a) (be k b) = (a ?= b)%N.
Proof.
  induction k as [|k IH]; intros a b Ha Hb.
  - cbn in *. assert (a = 0%N) by lia. assert (b = 0%N) by lia. subst. reflexivity.
  - rewrite Nat2N.inj_succ, N.pow_succ_r' in Ha, Hb. set (P := (256 ^ N.of_nat k)%N) in *.
    assert (HP : (0 < P)%N) by (subst P; apply N.neq_0_lt_0, N.pow_nonzero; lia).
    cbn [be bytes_cmp]. fold P.
    assert (Hqa : (a / P < 256)%N) by (apply N.div_lt_upper_bound; lia).
    assert (Hqb : (b / P < 256)%N) by (apply N.div_lt_upper_bound; lia).
    rewrite !N.mod_small by assumption.
    pose proof (N.div_mod' a P) as Da. pose proof (N.div_mod' b P) as Db.
    pose proof (N.mod_lt a P ltac:(lia)) as Ma. pose proof (N.mod_lt b P ltac:(lia)) as Mb.
    destruct (a / P ?= b / P)%N eqn:E.
    + apply N.compare_eq in E.
      assert (Hmod : forall n, be k n = be k (n mod P)).
      { intros n. rewrite (N.div_mod' n P) at 1. replace (P * (n / P) + n mod P)%N with (n mod P + (n / P) * P)%N by lia.
        apply be_add_mul. }
      rewrite (Hmod a), (Hmod b). rewrite IH by assumption.
      destruct (N.compare_spec (a mod P) (b mod P)); symmetry; [apply N.compare_eq_iff|apply N.compare_lt_iff|apply N.compare_gt_iff]; rewrite Da, Db, E; lia.
    + apply (proj1 (N.compare_lt_iff _ _)) in E. symmetry. apply N.compare_lt_iff.
      assert (Hm : (P * (a / P + 1) <= P * (b / P))%N) by (apply N.mul_le_mono_l; lia).
      rewrite N.mul_add_distr_l, N.mul_1_r in Hm. lia.
    + apply (proj1 (N.compare_gt_iff _ _)) in E. symmetry. apply N.compare_gt_iff.
      assert (Hm : (P * (b / P + 1) <= P * (a / P))%N) by (apply N.mul_le_mono_l; lia).
      rewrite N.mul_add_distr_l, N.mul_1_r in Hm. lia.
Qed.

Theorem version_key_order a b : (a < two64)%N -> (b < two64)%N ->
  bytes_cmp (comp_enc (ver_comp a)) (comp_enc (ver_comp b)) = (a ?= b)%N.
Proof.
  intros Ha Hb. unfold comp_enc, ver_comp, nat_enc. cbn [ctyp cval]. rewrite !be_length.
  unfold typVersion. change (tl_enc 54) with [54%N]. cbn [app bytes_cmp]. rewrite N.compare_refl.
  unfold two64 in *.
  assert (Hl : forall n, (n < 18446744073709551616)%N ->
     tl_enc (N.of_nat (nat_len n)) = [N.of_nat (nat_len n)] /\ (n < 256 ^ N.of_nat (nat_len n))%N /\
     (nat_len n = 1%nat /\ (n <= 255)%N \/ nat_len n = 2%nat /\ (255 < n <= 65535)%N \/
      nat_len n = 4%nat /\ (65535 < n <= 4294967295)%N \/ nat_len n = 8%nat /\ (4294967295 < n)%N)).
  { intros n Hn. unfold nat_len. destruct (n <=? 255)%N eqn:E1; [apply N.leb_le in E1; cbn; split; [reflexivity|split; [lia|left; lia]]|].
    apply N.leb_gt in E1. destruct (n <=? 65535)%N eqn:E2; [apply N.leb_le in E2; cbn; split; [reflexivity|split; [lia|right; left; lia]]|].
    apply N.leb_gt in E2. destruct (n <=? 4294967295)%N eqn:E3; [apply N.leb_le in E3; cbn; split; [reflexivity|split; [lia|right; right; left; lia]]|].
    apply N.leb_gt in E3. cbn. split; [reflexivity|split; [lia|right; right; right; lia]]. }
  destruct (Hl a Ha) as (Ea & Pa & Ca). destruct (Hl b Hb) as (Eb & Pb & Cb). rewrite Ea, Eb. cbn [app bytes_cmp].
  destruct (N.of_nat (nat_len a) ?= N.of_nat (nat_len b))%N eqn:E.
  - apply N.compare_eq in E. apply Nat2N.inj in E. rewrite <- E in *. apply be_cmp; assumption.
  - apply (proj1 (N.compare_lt_iff _ _)) in E. symmetry. apply N.compare_lt_iff. lia.
  - apply (proj1 (N.compare_gt_iff _ _)) in E. symmetry. apply N.compare_gt_iff. lia.
Qed.
