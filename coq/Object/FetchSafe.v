(* Object/FetchSafe.v — safety of the consumer state machine for EVERY schedule: whatever the order of run-loop
   iterations, Consume calls and engine results (losses, retransmissions, any arrival order of the segment replies),
   every stream keeps the invariant of FetchStream: the bytes handed out are the published content in order, a
   completion is reported at most once and then carries all of the content (or an error), no unchecked index. *)
From Object Require Import Fetch FetchStream.
From Coq Require Import Lia Arith PeanoNat.
Open Scope nat_scope.
Arguments log_chunks : simpl never.
Arguments completions : simpl never.

(* streams that agree on everything the stream invariant reads (wnd[2], fetchName, meta are free) *)
Definition same_data (a b : stream) : Prop :=
  s_panic a = s_panic b /\ s_segcnt a = s_segcnt b /\ s_content a = s_content b /\ s_w0 a = s_w0 b /\ s_w1 a = s_w1 b /\
  s_complete a = s_complete b /\ s_err a = s_err b /\ s_log a = s_log b.

Lemma same_data_refl a : same_data a a.
Proof. unfold same_data; auto 10. Qed.

Lemma stream_inv_same segs a b : same_data a b -> stream_inv segs a -> stream_inv segs b.
Proof.
  intros (H1 & H2 & H3 & H4 & H5 & H6 & H7 & H8).
  unfold stream_inv, slots_ok, log_ok. rewrite H1, H2, H3, H4, H5, H6, H7, H8. auto.
Qed.

Section World.
Variable W : nat -> list bytes.            (* stream id -> segments of the object that stream fetches *)
Definition wf_world : Prop := forall sid, W sid <> [] -> wf_object (W sid).

Definition good_result (sid : nat) (r : result) : Prop :=
  is_failure r \/ exists k, honest_data (W sid) k r.

(* the engine reports, for a segment Interest, either a failure or the honest Data of THAT segment *)
Definition honest_result (c : client) (xid : nat) (r : result) : Prop :=
  forall x rest, take_pending xid (c_pending c) = Some (x, rest) ->
    match x_kind x with
    | SegI kN => is_failure r \/ exists k, kN = N.of_nat k /\ honest_data (W (x_sid x)) k r
    | MetaI => True
    end.
Definition ev_ok (c : client) (e : cev) : Prop :=
  match e with EvResult xid r => honest_result c xid r | _ => True end.
Fixpoint run_ok (c : client) (evs : list cev) : Prop :=
  match evs with [] => True | e :: r => ev_ok c e /\ run_ok (step c e) r end.

Definition nstreams (c : client) : nat := length (c_streams c).

Definition safe_inv (c : client) : Prop :=
  (forall sid, sid < nstreams c -> stream_inv (W sid) (get_stream c sid)) /\
  Forall (fun sr => fst sr < nstreams c /\ good_result (fst sr) (snd sr)) (c_seginpipe c) /\
  Forall (fun x => x_sid x < nstreams c) (c_outpipe c) /\
  Forall (fun ix => x_sid (snd ix) < nstreams c) (c_pending c) /\
  Forall (fun sid => sid < nstreams c) (c_segfetch c) /\
  Forall (fun sid => sid < nstreams c) (f_streams c).

(* ---- projections of the primitive state updates ---- *)
Lemma get_set_stream_same c sid f : sid < nstreams c -> get_stream (set_stream c sid f) sid = f (get_stream c sid).
Proof. intros H. unfold get_stream, set_stream. cbn. apply nth_upd_nth_same. exact H. Qed.
Lemma get_set_stream_other c sid f j : sid <> j -> get_stream (set_stream c sid f) j = get_stream c j.
Proof. intros H. unfold get_stream, set_stream. cbn. apply nth_upd_nth_other. exact H. Qed.
Lemma nstreams_set_stream c sid f : nstreams (set_stream c sid f) = nstreams c.
Proof. unfold nstreams, set_stream. cbn. apply upd_nth_length. Qed.

Lemma Forall_impl_len {A} (P Q : A -> Prop) l : (forall x, P x -> Q x) -> Forall P l -> Forall Q l.
Proof. intros H. apply Forall_impl. exact H. Qed.

(* a state update that leaves queues alone and rewrites one stream keeping the per-stream invariant *)
Lemma safe_inv_set_stream c sid f :
  safe_inv c -> (forall st, stream_inv (W sid) st -> stream_inv (W sid) (f st)) -> safe_inv (set_stream c sid f).
Proof.
  intros (H1 & H2 & H3 & H4 & H5 & H6) Hf. unfold safe_inv. rewrite nstreams_set_stream.
  split; [|unfold set_stream; cbn; auto].
  intros j Hj. destruct (Nat.eq_dec sid j) as [->|Hne].
  - rewrite get_set_stream_same by exact Hj. apply Hf. apply H1. exact Hj.
  - rewrite get_set_stream_other by exact Hne. apply H1. exact Hj.
Qed.

Lemma safe_inv_queues c c' :
  c_streams c' = c_streams c ->
  safe_inv c ->
  Forall (fun sr => fst sr < nstreams c /\ good_result (fst sr) (snd sr)) (c_seginpipe c') ->
  Forall (fun x => x_sid x < nstreams c) (c_outpipe c') ->
  Forall (fun ix => x_sid (snd ix) < nstreams c) (c_pending c') ->
  Forall (fun sid => sid < nstreams c) (c_segfetch c') ->
  Forall (fun sid => sid < nstreams c) (f_streams c') ->
  safe_inv c'.
Proof.
  intros Hs (H1 & _) H2 H3 H4 H5 H6. unfold safe_inv, nstreams, get_stream in *. rewrite Hs. auto 10.
Qed.

(* consumeObject *)
Lemma consume_object_safe c sid : sid < nstreams c -> safe_inv c -> safe_inv (consume_object c sid).
Proof.
  intros Hsid Hi. unfold consume_object.
  destruct (s_fetch (get_stream c sid)) as [|c0 nm].
  - apply safe_inv_set_stream; [exact Hi|]. intros st. apply finalize_error_inv.
  - destruct (last_is_version (c0 :: nm)).
    + destruct Hi as (H1 & H2 & H3 & H4 & H5 & H6).
      apply (safe_inv_queues c); cbn; auto. { unfold safe_inv; auto 10. }
      apply Forall_app; split; auto.
    + destruct (s_hasmeta (get_stream c sid)).
      * apply safe_inv_set_stream; [exact Hi|]. intros st. apply finalize_error_inv.
      * destruct Hi as (H1 & H2 & H3 & H4 & H5 & H6).
        apply (safe_inv_queues c); cbn; auto. { unfold safe_inv; auto 10. }
        apply Forall_app; split; auto.
Qed.

(* ---- doCheck only moves wnd[2] and queues Interests ---- *)
Lemma rr_scan_lt c strs n : 0 < n -> forall todo idx i, idx < n -> rr_scan c strs n idx todo = Some i -> i < n.
Proof.
  intros Hn. induction todo as [|t IH]; intros idx i Hidx H; cbn in H; [discriminate|].
  destruct (waiting_or_done (get_stream c (nth idx strs 0))).
  - eapply IH; [|exact H]. apply Nat.mod_upper_bound. lia.
  - inversion H; subst. exact Hidx.
Qed.

Lemma filter_Forall {A} (P : A -> Prop) f l : Forall P l -> Forall P (filter f l).
Proof. intros H. rewrite Forall_forall in *. intros x Hx. apply filter_In in Hx. apply H. tauto. Qed.

Lemma do_check_safe : forall fuel c, safe_inv c -> safe_inv (do_check fuel c).
Proof.
  induction fuel as [|f IH]; intros c Hi; [exact Hi|].
  cbn [do_check]. destruct (window <=? f_out c)%Z; [exact Hi|].
  set (strs := filter (fun sid => negb (s_complete (get_stream c sid))) (f_streams c)).
  destruct Hi as (H1 & H2 & H3 & H4 & H5 & H6).
  assert (Hstrs : Forall (fun sid => sid < nstreams c) strs) by (apply filter_Forall; exact H6).
  destruct (length strs) as [|n'] eqn:Hn.
  - apply (safe_inv_queues c); cbn; auto. unfold safe_inv; auto 10.
  - set (n := S n') in *.
    destruct (rr_scan c strs n ((f_rr c + 1) mod n) n) as [idx|] eqn:Hscan.
    + apply IH.
      assert (Hidx : idx < n).
      { eapply rr_scan_lt; [| |exact Hscan]; [lia|]. apply Nat.mod_upper_bound. lia. }
      assert (Hsid : nth idx strs 0 < nstreams c).
      { rewrite Forall_forall in Hstrs. apply Hstrs. apply nth_In. lia. }
      set (sid := nth idx strs 0) in *.
      unfold safe_inv, nstreams, get_stream. cbn. rewrite upd_nth_length.
      split; [|split; [exact H2|split; [|split; [exact H4|split; [exact H5|exact Hstrs]]]]].
      * intros j Hj. destruct (Nat.eq_dec sid j) as [<-|Hne].
        -- rewrite nth_upd_nth_same by exact Hsid.
           eapply stream_inv_same; [|apply H1; exact Hsid]. unfold same_data. cbn. auto 10.
        -- rewrite nth_upd_nth_other by exact Hne. apply H1. exact Hj.
      * apply Forall_app; split; [exact H3|]. constructor; [exact Hsid|constructor].
    + apply (safe_inv_queues c); cbn; auto. unfold safe_inv; auto 10.
Qed.

Lemma remove_first_Forall (P : nat -> Prop) sid l : Forall P l -> Forall P (remove_first sid l).
Proof.
  induction l as [|x l IH]; intros H; [constructor|]. inversion H; subst. cbn.
  destruct (x =? sid); [assumption|]. constructor; auto.
Qed.

(* handleData *)
Lemma handle_data_safe c sid r : wf_world -> sid < nstreams c -> good_result sid r ->
  safe_inv c -> safe_inv (handle_data c sid r).
Proof.
  intros Hwf Hsid Hgood Hi. unfold handle_data.
  set (c0 := queue_check _).
  assert (Hi0 : safe_inv c0).
  { destruct Hi as (H1 & H2 & H3 & H4 & H5 & H6). apply (safe_inv_queues c); cbn; auto. unfold safe_inv; auto 10. }
  assert (Hn0 : nstreams c0 = nstreams c) by reflexivity.
  destruct (s_complete (get_stream c0 sid)) eqn:Hcomp; [exact Hi0|].
  destruct r as [nm payload fb meta| | | |].
  - (* Data *)
    destruct Hgood as [Hf|[k Hh]]; [contradiction|].
    assert (Hobj : wf_object (W sid)).
    { apply Hwf. destruct Hh as (? & ? & ? & ? & ? & _ & Hk & _). intros E. rewrite E in Hk. cbn in Hk. lia. }
    assert (Hst : stream_inv (W sid) (get_stream c0 sid)) by (apply Hi0; rewrite Hn0; exact Hsid).
    assert (Hk : k < length (W sid)) by (destruct Hh as (? & ? & ? & ? & ? & _ & Hk & _); exact Hk).
    rewrite (handle_data_stream_is_honest (W sid) _ k _ _ _ meta Hobj (proj1 (proj2 Hst)) Hh).
    destruct (handle_honest (W sid) (get_stream c0 sid) k) as [st' removed] eqn:Hhh.
    destruct (handle_honest_spec (W sid) _ k Hobj Hst Hcomp Hk st' removed Hhh) as (Hinv' & _).
    assert (Hi1 : safe_inv (set_stream c0 sid (fun _ => st'))).
    { apply safe_inv_set_stream; [exact Hi0|]. intros _ _. exact Hinv'. }
    destruct removed; [|exact Hi1].
    destruct Hi1 as (H1 & H2 & H3 & H4 & H5 & H6).
    apply (safe_inv_queues (set_stream c0 sid (fun _ => st'))); cbn; auto. { unfold safe_inv; auto 10. }
    apply remove_first_Forall. exact H6.
  - apply safe_inv_set_stream; [exact Hi0|]. intros st. apply finalize_error_inv.
  - apply safe_inv_set_stream; [exact Hi0|]. intros st. apply finalize_error_inv.
  - apply safe_inv_set_stream; [exact Hi0|]. intros st. apply finalize_error_inv.
  - apply safe_inv_set_stream; [exact Hi0|]. intros st. apply finalize_error_inv.
Qed.

(* the metadata callback *)
Lemma meta_callback_safe c sid r : sid < nstreams c -> safe_inv c -> safe_inv (meta_callback c sid r).
Proof.
  intros Hsid Hi. unfold meta_callback.
  destruct r as [nm payload fb [inner|]| | | |];
    try (apply safe_inv_set_stream; [exact Hi|]; intros st; apply finalize_error_inv).
  apply consume_object_safe; [rewrite nstreams_set_stream; exact Hsid|].
  apply safe_inv_set_stream; [exact Hi|]. intros st. apply stream_inv_same. unfold same_data. cbn. auto 10.
Qed.

Lemma take_pending_spec xid : forall l x rest, take_pending xid l = Some (x, rest) ->
  In (xid, x) l /\ (forall y, In y rest -> In y l).
Proof.
  induction l as [|[i y] l IH]; intros x rest H; cbn in H; [discriminate|].
  destruct (i =? xid) eqn:E.
  - inversion H; subst. apply Nat.eqb_eq in E. subst. split; [left; reflexivity|]. intros z Hz. right. exact Hz.
  - destruct (take_pending xid l) as [[y' r']|] eqn:Ht; [|discriminate]. inversion H; subst.
    destruct (IH _ _ eq_refl) as [Ha Hb]. split; [right; exact Ha|].
    intros z [Hz|Hz]; [left; exact Hz|right; apply Hb; exact Hz].
Qed.

Lemma nstreams_app_one c st :
  nstreams (mkcl (c_streams c ++ [st]) (f_streams c) (f_rr c) (f_out c) (c_outpipe c) (c_seginpipe c) (c_segfetch c)
                 (c_segcheck c) (c_pending c) (c_nextx c)) = S (nstreams c).
Proof. unfold nstreams. cbn. rewrite app_length. cbn. lia. Qed.

Lemma safe_inv_append c nm pol : safe_inv c ->
  safe_inv (mkcl (c_streams c ++ [mkst nm nm false pol None [] 0 0 0 false None [] false]) (f_streams c) (f_rr c) (f_out c)
                 (c_outpipe c) (c_seginpipe c) (c_segfetch c) (c_segcheck c) (c_pending c) (c_nextx c)).
Proof.
  intros (H1 & H2 & H3 & H4 & H5 & H6).
  unfold safe_inv. rewrite nstreams_app_one. unfold get_stream. cbn.
  split; [|repeat split; eapply Forall_impl; try eassumption; cbn; intros; try lia; intuition lia].
  intros sid Hsid. destruct (Nat.eq_dec sid (nstreams c)) as [->|Hne].
  + unfold nstreams. rewrite app_nth2 by lia. rewrite Nat.sub_diag. cbn. apply stream_inv_init.
  + rewrite app_nth1 by (unfold nstreams in *; lia). apply H1. lia.
Qed.

Theorem step_safe c e : wf_world -> ev_ok c e -> safe_inv c -> safe_inv (step c e).
Proof.
  intros Hwf Hev Hi. destruct e as [nm pol| | | | |xid r]; cbn [step].
  - (* Consume *)
    apply consume_object_safe; [rewrite nstreams_app_one; unfold nstreams; lia|].
    apply safe_inv_append. exact Hi.
  - (* run: outpipe *)
    destruct (c_outpipe c) as [|x rest] eqn:Ho; [exact Hi|].
    destruct Hi as (H1 & H2 & H3 & H4 & H5 & H6). rewrite Ho in H3. inversion H3; subst.
    apply (safe_inv_queues c); cbn; auto. { unfold safe_inv; rewrite Ho; auto 10. }
    apply Forall_app; split; [exact H4|]. constructor; [cbn; assumption|constructor].
  - (* run: seginpipe *)
    destruct (c_seginpipe c) as [|[sid r] rest] eqn:Hs; [exact Hi|].
    destruct Hi as (H1 & H2 & H3 & H4 & H5 & H6). rewrite Hs in H2. inversion H2 as [|? ? [Ha Hb] Hc]; subst. cbn in Ha, Hb.
    apply handle_data_safe; auto.
    apply (safe_inv_queues c); cbn; auto. unfold safe_inv; rewrite Hs; auto 10.
  - (* run: segfetch *)
    destruct (c_segfetch c) as [|sid rest] eqn:Hf; [exact Hi|].
    destruct Hi as (H1 & H2 & H3 & H4 & H5 & H6). rewrite Hf in H5. inversion H5; subst.
    apply (safe_inv_queues c); cbn; auto. { unfold safe_inv; rewrite Hf; auto 10. }
    apply Forall_app; split; [exact H6|]. constructor; [assumption|constructor].
  - (* run: segcheck *)
    destruct (c_segcheck c) as [|k] eqn:Hk; [exact Hi|].
    apply do_check_safe.
    destruct Hi as (H1 & H2 & H3 & H4 & H5 & H6). apply (safe_inv_queues c); cbn; auto. unfold safe_inv; auto 10.
  - (* engine result *)
    destruct (take_pending xid (c_pending c)) as [[x rest]|] eqn:Ht; [|exact Hi].
    cbn in Hev. specialize (Hev x rest Ht).
    destruct (take_pending_spec xid _ _ _ Ht) as [Hin Hsub].
    destruct Hi as (H1 & H2 & H3 & H4 & H5 & H6).
    assert (Hx : x_sid x < nstreams c).
    { rewrite Forall_forall in H4. apply (H4 (xid, x)). exact Hin. }
    assert (Hrest : Forall (fun ix => x_sid (snd ix) < nstreams c) rest).
    { rewrite Forall_forall in *. intros y Hy. apply H4. apply Hsub. exact Hy. }
    set (c1 := mkcl (c_streams c) (f_streams c) (f_rr c) (f_out c) (c_outpipe c) (c_seginpipe c) (c_segfetch c)
                    (c_segcheck c) rest (c_nextx c)).
    assert (Hi1 : safe_inv c1).
    { apply (safe_inv_queues c); cbn; auto. unfold safe_inv; auto 10. }
    assert (Hfinal : forall r', (match x_kind x with SegI _ => good_result (x_sid x) r' | MetaI => True end) ->
              safe_inv (match x_kind x with
                        | SegI _ => push_segin c1 (x_sid x) r'
                        | MetaI => meta_callback c1 (x_sid x) r'
                        end)).
    { intros r' Hr'. destruct (x_kind x) as [|kN].
      - apply meta_callback_safe; [exact Hx|exact Hi1].
      - destruct Hi1 as (G1 & G2 & G3 & G4 & G5 & G6).
        apply (safe_inv_queues c1); cbn; auto. { unfold safe_inv; auto 10. }
        apply Forall_app; split; [exact G2|]. constructor; [cbn; split; [exact Hx|exact Hr']|constructor]. }
    assert (Hgood : match x_kind x with SegI _ => good_result (x_sid x) r | MetaI => True end).
    { destruct (x_kind x) as [|kN]; [exact I|]. destruct Hev as [Hf|[k [_ Hh]]]; [left; exact Hf|right; exists k; exact Hh]. }
    destruct r as [nm payload fb meta| | | |]; try (apply Hfinal; exact Hgood).
    destruct (x_retries x) as [|k]; [apply Hfinal; exact Hgood|].
    destruct Hi1 as (G1 & G2 & G3 & G4 & G5 & G6).
    apply (safe_inv_queues c1); cbn; auto. { unfold safe_inv; auto 10. }
    apply Forall_app; split; [exact G3|]. constructor; [cbn; exact Hx|constructor].
Qed.

Lemma safe_inv_init : safe_inv cl_init.
Proof. unfold safe_inv, cl_init, nstreams. cbn. repeat match goal with |- _ /\ _ => split end; auto. intros s H. lia. Qed.

Theorem run_safe : wf_world -> forall evs c, run_ok c evs -> safe_inv c -> safe_inv (fold_left step evs c).
Proof.
  intros Hwf. induction evs as [|e evs IH]; intros c Hok Hi; [exact Hi|].
  cbn in *. destruct Hok as [He Hr]. apply IH; [exact Hr|]. apply step_safe; assumption.
Qed.
End World.
