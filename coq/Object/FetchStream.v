(* Object/FetchStream.v — per-stream safety of the segment fetcher: whatever the order in which the (honest) segment
   replies are handed to handleData, the bytes given out through Content() are a prefix of the published content in
   order, completion is reported at most once, with all of the content, and no unchecked index is reached. *)
From Object Require Import Fetch.
From Coq Require Import Lia Arith PeanoNat.
Open Scope nat_scope.
Arguments log_chunks : simpl never.
Arguments completions : simpl never.

(* ---------------- list helpers ---------------- *)
Lemma upd_nth_length {A} (f : A -> A) l : forall i, length (upd_nth i f l) = length l.
Proof. induction l as [|x l IH]; intros [|i]; simpl; auto. Qed.

Lemma nth_upd_nth_same {A} (f : A -> A) d l : forall i, i < length l -> nth i (upd_nth i f l) d = f (nth i l d).
Proof. induction l as [|x l IH]; intros [|i] H; simpl in *; try lia; auto. apply IH. lia. Qed.

Lemma nth_upd_nth_other {A} (f : A -> A) d l : forall i j, i <> j -> nth j (upd_nth i f l) d = nth j l d.
Proof. induction l as [|x l IH]; intros [|i] [|j] H; simpl; auto; try lia. Qed.

Lemma set_nth_length {A} (v : A) l : forall i, length (set_nth i v l) = length l.
Proof. induction l as [|x l IH]; intros [|i]; simpl; auto. Qed.

Lemma nth_set_nth_same {A} (v d : A) l : forall i, i < length l -> nth i (set_nth i v l) d = v.
Proof. induction l as [|x l IH]; intros [|i] H; simpl in *; try lia; auto. apply IH. lia. Qed.

Lemma nth_set_nth_other {A} (v d : A) l : forall i j, i <> j -> nth j (set_nth i v l) d = nth j l d.
Proof. induction l as [|x l IH]; intros [|i] [|j] H; simpl; auto; try lia. Qed.

Lemma clear_range_length l : forall i n, length (clear_range i n l) = length l.
Proof.
  induction l as [|x l IH]; intros i n; [reflexivity|].
  destruct i as [|i]; cbn [clear_range].
  - destruct n as [|n]; [reflexivity|]. cbn [length]. rewrite IH. reflexivity.
  - cbn [length]. rewrite IH. reflexivity.
Qed.

Lemma nth_clear_range l : forall i n j,
  nth j (clear_range i n l) None = if (i <=? j) && (j <? i + n) then None else nth j l None.
Proof.
  induction l as [|x l IH]; intros i n j.
  - cbn [clear_range]. destruct ((i <=? j) && (j <? i + n)); destruct j; reflexivity.
  - destruct i as [|i]; cbn [clear_range].
    + destruct n as [|n].
      * replace ((0 <=? j) && (j <? 0 + 0)) with false by (symmetry; apply andb_false_iff; right; apply Nat.ltb_ge; lia).
        reflexivity.
      * destruct j as [|j]; [reflexivity|].
        cbn [nth]. rewrite IH.
        replace ((0 <=? S j) && (S j <? 0 + S n)) with ((0 <=? j) && (j <? 0 + n)); [reflexivity|].
        f_equal.
    + destruct j as [|j]; [reflexivity|].
      cbn [nth]. rewrite IH.
      replace ((S i <=? S j) && (S j <? S i + n)) with ((i <=? j) && (j <? i + n)); [reflexivity|].
      f_equal.
Qed.

Lemma concat_firstn_add {A} (l : list (list A)) a b :
  concat (firstn a l) ++ concat (firstn b (skipn a l)) = concat (firstn (a + b) l).
Proof.
  revert l; induction a as [|a IH]; intros l; [reflexivity|].
  destruct l as [|x l]; [simpl; rewrite firstn_nil; reflexivity|].
  cbn [firstn skipn Nat.add concat]. rewrite <- app_assoc. f_equal. apply IH.
Qed.

(* ---------------- the published object and honest replies ---------------- *)
Section Stream.
Variable segs : list bytes.                 (* payloads of the published segments, in order *)
Local Notation n := (length segs).

Definition seg_at (i : nat) : bytes := nth i segs [].

(* what an honest producer of `segs` answers to the Interest for segment k: the segment, with FinalBlockId = n-1 *)
Definition honest_data (k : nat) (r : result) : Prop :=
  exists nm fbc meta c pre,
    r = RData nm (seg_at k) (Some fbc) meta /\ k < n /\
    nm = pre ++ [c] /\ ctyp c = typSegment /\ comp_num64 c = N.of_nat k /\
    ctyp fbc = typSegment /\ comp_num64 fbc = N.of_nat (n - 1).
Definition is_failure (r : result) : Prop := match r with RData _ _ _ _ => False | _ => True end.

Definition wf_object : Prop := 1 <= n /\ (N.of_nat n <= maxObjectSeg)%N /\ Forall (fun b => b <> []) segs.

(* ---------------- the invariant of one stream ---------------- *)
Definition slots_ok (st : stream) : Prop :=
  match s_segcnt st with
  | None => s_content st = [] /\ s_w0 st = 0 /\ s_w1 st = 0
  | Some m =>
      m = n /\ length (s_content st) = n /\ s_w0 st <= s_w1 st /\ s_w1 st <= n /\
      (forall i, i < n -> nth i (s_content st) None = None \/ nth i (s_content st) None = Some (seg_at i)) /\
      (forall i, s_w0 st <= i -> i < s_w1 st -> nth i (s_content st) None = Some (seg_at i)) /\
      (s_w1 st < n -> nth (s_w1 st) (s_content st) None = None) /\
      (s_w1 st = n -> s_complete st = true)
  end.

Definition log_ok (st : stream) : Prop :=
  log_chunks (s_log st) = concat (firstn (s_w0 st) segs) /\
  completions (s_log st) = (if s_complete st then 1 else 0) /\
  (s_complete st = true ->
     exists l r, s_log st = l ++ [r] /\ cb_complete r = true /\ cb_err r = s_err st /\ completions l = 0) /\
  (s_complete st = true -> s_err st = None -> s_w0 st = n /\ s_segcnt st = Some n).

Definition stream_inv (st : stream) : Prop :=
  s_panic st = false /\ slots_ok st /\ log_ok st /\ (s_complete st = false -> s_err st = None).

Lemma stream_inv_init nm pol : stream_inv (mkst nm nm false pol None [] 0 0 0 false None [] false).
Proof.
  unfold stream_inv, slots_ok, log_ok. cbn. repeat split; auto; try discriminate.
Qed.
End Stream.

(* ---------------- more list helpers ---------------- *)
Lemma nth_firstn_lt {A} (d : A) : forall k l i, i < k -> nth i (firstn k l) d = nth i l d.
Proof.
  induction k as [|k IH]; intros l i H; [lia|].
  destruct l as [|x l]; [destruct i; reflexivity|].
  destruct i as [|i]; [reflexivity|]. cbn [firstn nth]. apply IH. lia.
Qed.

Lemma nth_skipn_add {A} (d : A) : forall a l i, nth i (skipn a l) d = nth (a + i) l d.
Proof.
  induction a as [|a IH]; intros l i; [reflexivity|].
  destruct l as [|x l]; [destruct i; reflexivity|]. cbn [skipn Nat.add nth]. apply IH.
Qed.

Lemma slots_join (segs : list bytes) (content : list (option bytes)) w0 w1 :
  length content = length segs -> w0 <= w1 -> w1 <= length segs ->
  (forall i, w0 <= i -> i < w1 -> nth i content None = Some (nth i segs [])) ->
  map slot_bytes (firstn (w1 - w0) (skipn w0 content)) = firstn (w1 - w0) (skipn w0 segs).
Proof.
  intros Hl H01 H1 Hr.
  apply nth_ext with (d := []) (d' := []).
  - rewrite map_length, !firstn_length, !skipn_length. lia.
  - intros i Hi. rewrite map_length, firstn_length, skipn_length in Hi.
    change (@nil byte) with (slot_bytes None) at 1. rewrite map_nth.
    rewrite !nth_firstn_lt by lia. rewrite !nth_skipn_add. rewrite Hr by lia. reflexivity.
Qed.

Lemma completions_app l1 l2 : completions (l1 ++ l2) = completions l1 + completions l2.
Proof. unfold completions. rewrite filter_app, app_length. reflexivity. Qed.

Lemma log_chunks_app l1 l2 : log_chunks (l1 ++ l2) = log_chunks l1 ++ log_chunks l2.
Proof. unfold log_chunks. rewrite map_app, concat_app. reflexivity. Qed.

Lemma log_chunks_single r : log_chunks [r] = slot_bytes (cb_chunk r).
Proof. unfold log_chunks. cbn. apply app_nil_r. Qed.
Lemma completions_single r : completions [r] = if cb_complete r then 1 else 0.
Proof. unfold completions. cbn. destruct (cb_complete r); reflexivity. Qed.

Section Stream2.
Variable segs : list bytes.
Local Notation n := (length segs).

(* the state handed to the callback: the invariant except that the completion has not been logged yet *)
Definition pre_cb (st : stream) : Prop :=
  s_panic st = false /\ slots_ok segs st /\
  log_chunks (s_log st) = concat (firstn (s_w0 st) segs) /\ completions (s_log st) = 0 /\
  (s_complete st = true -> s_err st = None -> s_w1 st = n /\ s_segcnt st = Some n) /\
  (s_complete st = false -> s_err st = None).

Lemma slots_ok_bounds st : slots_ok segs st -> s_w0 st <= s_w1 st /\ s_w1 st <= length (s_content st).
Proof.
  unfold slots_ok. destruct (s_segcnt st) as [m|].
  - intros (Hm & Hl & H01 & H1 & _). lia.
  - intros (Hc & -> & ->). rewrite Hc. simpl. lia.
Qed.

(* Content(): hands out exactly segments w0..w1-1 and moves w0 to w1 *)
Lemma content_call_spec st st' buf :
  s_panic st = false -> slots_ok segs st -> content_call st = (st', buf) ->
  buf = concat (firstn (s_w1 st - s_w0 st) (skipn (s_w0 st) segs)) /\
  s_panic st' = false /\ slots_ok segs st' /\ s_w0 st' = s_w1 st /\ s_w1 st' = s_w1 st /\
  s_log st' = s_log st /\ s_complete st' = s_complete st /\ s_err st' = s_err st /\ s_segcnt st' = s_segcnt st /\
  s_w2 st' = s_w2 st /\ s_fetch st' = s_fetch st /\ s_hasmeta st' = s_hasmeta st /\ s_pol st' = s_pol st /\
  (forall i, s_w1 st <= i -> nth i (s_content st') None = nth i (s_content st) None).
Proof.
  intros Hp Hs Hc. pose proof (slots_ok_bounds st Hs) as [Hb1 Hb2].
  unfold content_call in Hc.
  replace (s_w1 st <? s_w0 st) with false in Hc by (symmetry; apply Nat.ltb_ge; lia).
  replace (length (s_content st) <? s_w1 st) with false in Hc by (symmetry; apply Nat.ltb_ge; lia).
  cbn [orb] in Hc. inversion Hc; subst st' buf; clear Hc. cbn.
  repeat split; auto.
  - (* the bytes *)
    unfold slots_ok in Hs. destruct (s_segcnt st) as [m|].
    + destruct Hs as (Hm & Hl & H01 & H1 & _ & Hr & _).
      rewrite (slots_join segs) by (auto; lia). reflexivity.
    + destruct Hs as (Hcn & -> & ->). rewrite Hcn. reflexivity.
  - (* slots *)
    unfold slots_ok in *. cbn. destruct (s_segcnt st) as [m|].
    + destruct Hs as (Hm & Hl & H01 & H1 & Hany & Hr & Hnext & Hdone).
      rewrite clear_range_length. repeat split; auto; try lia.
      * intros i Hi. rewrite nth_clear_range. destruct ((s_w0 st <=? i) && (i <? s_w0 st + (s_w1 st - s_w0 st))); auto.
      * intros Hlt. rewrite nth_clear_range.
        replace ((s_w0 st <=? s_w1 st) && (s_w1 st <? s_w0 st + (s_w1 st - s_w0 st))) with false; [auto|].
        symmetry. apply andb_false_iff. right. apply Nat.ltb_ge. lia.
    + destruct Hs as (Hcn & -> & ->). rewrite Hcn. cbn. auto.
  - intros i Hi. rewrite nth_clear_range.
    replace ((s_w0 st <=? i) && (i <? s_w0 st + (s_w1 st - s_w0 st))) with false; [reflexivity|].
    symmetry. apply andb_false_iff. right. apply Nat.ltb_ge. lia.
Qed.

Lemma do_callback_inv st : pre_cb st -> stream_inv segs (do_callback st).
Proof.
  intros (Hp & Hs & Hlog & Hcomp & Hdone & Herr).
  unfold do_callback.
  set (call := match s_pol st with PolEvery => true | PolAtEnd => s_complete st end).
  destruct call eqn:Hcall.
  - destruct (content_call st) as [st1 buf] eqn:Hc.
    destruct (content_call_spec st st1 buf Hp Hs Hc) as
      (Hbuf & Hp1 & Hs1 & Hw0 & Hw1 & Hl1 & Hc1 & He1 & Hsc1 & Hw21 & _).
    unfold stream_inv, log_ok. cbn.
    split; [exact Hp1|]. split.
    { (* slots_ok only reads segcnt content w0 w1 complete *)
      unfold slots_ok in *. cbn. exact Hs1. }
    rewrite Hl1, Hc1, He1, Hw0. split; [|exact Herr].
    split; [|split; [|split]].
    + rewrite log_chunks_app, Hlog, log_chunks_single. cbn. rewrite Hbuf.
      pose proof (slots_ok_bounds st Hs) as [Hb1 _].
      replace (s_w1 st) with (s_w0 st + (s_w1 st - s_w0 st)) at 2 by lia.
      apply (concat_firstn_add (A:=byte)).
    + rewrite completions_app, Hcomp, completions_single. cbn. reflexivity.
    + intros Hct. exists (s_log st), (mkcb (s_complete st) (s_err st) (s_w1 st) (s_segcnt st) (Some buf)).
      cbn. auto.
    + intros Hct He. rewrite Hsc1. destruct (Hdone Hct He) as [Ha Hb]. auto.
  - (* no Content() call: PolAtEnd and not complete *)
    assert (Hnc : s_complete st = false).
    { subst call. destruct (s_pol st); [discriminate|exact Hcall]. }
    unfold stream_inv, log_ok. cbn. rewrite Hnc.
    split; [exact Hp|]. split; [unfold slots_ok in *; cbn; rewrite Hnc in Hs; exact Hs|]. split; [|intros _; exact (Herr Hnc)].
    split; [|split; [|split]]; try discriminate.
    + rewrite log_chunks_app, Hlog, log_chunks_single. cbn. rewrite app_nil_r. reflexivity.
    + rewrite completions_app, Hcomp, completions_single. cbn. reflexivity.
Qed.

Lemma stream_inv_pre_cb st : stream_inv segs st -> s_complete st = false -> pre_cb st.
Proof.
  intros (Hp & Hs & (Hl & Hc & _ & _) & He) Hnc. unfold pre_cb.
  rewrite Hnc in Hc. repeat split; auto; congruence.
Qed.

(* finalizeError keeps the invariant; it reports completion (with the error) unless the stream is already complete *)
Lemma finalize_error_inv e st : stream_inv segs st -> stream_inv segs (finalize_error e st).
Proof.
  intros Hi. unfold finalize_error. destruct (s_complete st) eqn:Hc; [exact Hi|].
  apply do_callback_inv. pose proof (stream_inv_pre_cb st Hi Hc) as (Hp & Hs & Hl & Hcm & _ & _).
  unfold pre_cb. cbn. repeat split; auto; try discriminate.
  unfold slots_ok in *. cbn. destruct (s_segcnt st); intuition.
Qed.

Lemma finalize_error_complete e st : s_complete (finalize_error e st) = true.
Proof.
  unfold finalize_error. destruct (s_complete st) eqn:Hc; [exact Hc|].
  unfold do_callback. cbn. destruct (s_pol st); cbn.
  - destruct (content_call _) as [a b] eqn:H. unfold content_call in H.
    destruct (_ || _) in H; inversion H; subst; reflexivity.
  - destruct (content_call _) as [a b] eqn:H. unfold content_call in H.
    destruct (_ || _) in H; inversion H; subst; reflexivity.
Qed.
End Stream2.

(* ---------------- the window advance loop ---------------- *)
Lemma advance_spec content : forall fuel w1,
  let w := advance content w1 fuel in
  w1 <= w /\ w <= w1 + fuel /\
  (forall i, w1 <= i -> i < w -> nth i content None <> None) /\
  (w < w1 + fuel -> nth w content None = None).
Proof.
  induction fuel as [|f IH]; intros w1; cbn [advance].
  - repeat split; try lia.
  - destruct (nth w1 content None) as [b|] eqn:Hn.
    + specialize (IH (S w1)). cbn zeta in IH. destruct IH as (H1 & H2 & H3 & H4).
      repeat split; try lia.
      * intros i Hi1 Hi2. destruct (Nat.eq_dec i w1) as [->|Hne]; [rewrite Hn; discriminate|]. apply H3; lia.
      * intros Hlt. apply H4. lia.
    + repeat split; try lia. intros _. exact Hn.
Qed.

Section Stream3.
Variable segs : list bytes.
Local Notation n := (length segs).

(* what the callback leaves untouched *)
Lemma do_callback_fields st : pre_cb segs st ->
  let st' := do_callback st in
  s_err st' = s_err st /\ s_w2 st' = s_w2 st /\ s_fetch st' = s_fetch st /\ s_hasmeta st' = s_hasmeta st /\
  s_segcnt st' = s_segcnt st /\ s_w1 st' = s_w1 st /\ s_complete st' = s_complete st /\ s_pol st' = s_pol st /\
  s_name st' = s_name st /\
  (forall i, s_w1 st <= i -> nth i (s_content st') None = nth i (s_content st) None).
Proof.
  intros (Hp & Hs & _). cbv zeta. unfold do_callback.
  destruct (match s_pol st with PolEvery => true | PolAtEnd => s_complete st end).
  - destruct (content_call st) as [a b] eqn:Hcc.
    destruct (content_call_spec segs st a b Hp Hs Hcc) as
      (_ & _ & _ & _ & Hq1 & _ & Hq2 & Hq3 & Hq4 & Hq5 & Hq6 & Hq7 & Hq8 & Hq9).
    cbn. rewrite Hq1, Hq2, Hq3, Hq4, Hq5, Hq6, Hq7, Hq8. repeat split; auto.
    unfold content_call in Hcc. destruct (_ || _) in Hcc; inversion Hcc; subst; reflexivity.
  - cbn. repeat split; auto.
Qed.

(* segment k has been handled: its slot is filled or the window has moved past it *)
Definition handled (st : stream) (k : nat) : Prop :=
  s_segcnt st = Some n /\ (k < s_w1 st \/ nth k (s_content st) None <> None).

Lemma comp_last_rev (pre : name) c : rev (pre ++ [c]) = c :: rev pre.
Proof. rewrite rev_app_distr. reflexivity. Qed.

(* the state after the FinalBlockId step of handleData, for an honest reply *)
Definition after_fb (st : stream) : stream :=
  match s_segcnt st with
  | Some _ => st
  | None => with_fields st (Some n) (repeat None n) (s_w1 st) (s_complete st)
  end.

(* what handleData does with an honest reply for segment k, once the validation branches are resolved *)
Definition handle_honest (st : stream) (k : nat) : stream * bool :=
  let st1 := after_fb st in
  let content := set_nth k (Some (seg_at segs k)) (s_content st1) in
  let st2 := with_fields st1 (s_segcnt st1) content (s_w1 st1) (s_complete st1) in
  if s_w1 st1 =? k then
    let w1 := advance content (s_w1 st1) (n - s_w1 st1) in
    let done := w1 =? n in
    (do_callback (with_fields st2 (s_segcnt st2) content w1 (if done then true else s_complete st2)), done)
  else (st2, false).

Lemma handle_data_stream_is_honest st k nm payload fb meta :
  wf_object segs -> slots_ok segs st ->
  honest_data segs k (RData nm payload fb meta) ->
  handle_data_stream st nm payload fb = handle_honest st k.
Proof.
  intros (Hn1 & Hnmax & Hne) Hs (nm0 & fbc & meta0 & c & pre & Heq & Hk & Hnm & Hct & Hcn & Hft & Hfn).
  inversion Heq; subst nm payload fb meta0; clear Heq. subst nm0.
  assert (Hpay : seg_at segs k <> []).
  { unfold seg_at. rewrite Forall_forall in Hne. apply Hne. apply nth_In. exact Hk. }
  assert (Hfb : (comp_num64 fbc + 1 <=? maxObjectSeg)%N = true) by (rewrite Hfn; apply N.leb_le; lia).
  assert (Hcnt : N.to_nat (comp_num64 fbc + 1) = n) by (rewrite Hfn; lia).
  unfold handle_data_stream, handle_honest, after_fb.
  assert (Hsc : s_segcnt st = None \/ s_segcnt st = Some n).
  { unfold slots_ok in Hs. destruct (s_segcnt st) as [m|]; [right|left; reflexivity]. destruct Hs as (-> & _). reflexivity. }
  destruct Hsc as [Hsc|Hsc]; rewrite Hsc.
  - rewrite Hft, N.eqb_refl. cbn [negb]. rewrite Hfb, Hcnt.
    rewrite comp_last_rev. rewrite Hct, N.eqb_refl. cbn [negb].
    cbn [with_fields s_segcnt]. rewrite Hcn.
    replace (N.of_nat n <=? N.of_nat k)%N with false by (symmetry; apply N.leb_gt; lia).
    rewrite Nat2N.id. cbv zeta. cbn [s_content s_w1 s_segcnt s_complete with_fields].
    destruct (seg_at segs k) eqn:Hsk; [congruence|]. reflexivity.
  - rewrite comp_last_rev. rewrite Hct, N.eqb_refl. cbn [negb]. rewrite Hsc, Hcn.
    replace (N.of_nat n <=? N.of_nat k)%N with false by (symmetry; apply N.leb_gt; lia).
    rewrite Nat2N.id. cbv zeta. cbn [s_content s_w1 s_segcnt s_complete with_fields]. try rewrite Hsc.
    destruct (seg_at segs k) eqn:Hsk; [congruence|]. reflexivity.
Qed.

Lemma after_fb_spec st : stream_inv segs st -> s_complete st = false -> 1 <= n ->
  let st1 := after_fb st in
  s_segcnt st1 = Some n /\ length (s_content st1) = n /\ s_w0 st1 = s_w0 st /\ s_w1 st1 = s_w1 st /\
  s_w2 st1 = s_w2 st /\ s_complete st1 = false /\ s_err st1 = None /\ s_log st1 = s_log st /\
  s_panic st1 = false /\ s_fetch st1 = s_fetch st /\ s_hasmeta st1 = s_hasmeta st /\ s_pol st1 = s_pol st /\
  s_name st1 = s_name st /\
  slots_ok segs st1 /\ (forall k', handled st k' -> handled st1 k').
Proof.
  intros (Hp & Hs & _ & Herr) Hnc Hn1. specialize (Herr Hnc). cbv zeta. unfold after_fb.
  unfold slots_ok in Hs. destruct (s_segcnt st) as [m|] eqn:Hsc.
  - destruct Hs as (Hm & Hlen & Hrest). subst m.
    assert (Hso : slots_ok segs st) by (unfold slots_ok; rewrite Hsc; tauto).
    assert (Hh : forall k', handled st k' -> handled st k') by auto.
    repeat match goal with |- _ /\ _ => split end; auto.
  - destruct Hs as (Hc0 & Hw0 & Hw1). cbn [with_fields s_segcnt s_content s_w0 s_w1 s_w2 s_complete s_err s_log s_panic s_fetch s_hasmeta s_pol s_name].
    rewrite repeat_length.
    repeat match goal with |- _ /\ _ => split end; auto.
    + unfold slots_ok. cbn [with_fields s_segcnt s_content s_w0 s_w1 s_complete]. rewrite repeat_length, Hw0, Hw1.
      repeat match goal with |- _ /\ _ => split end; auto; try lia.
      * intros i Hi. left. apply nth_repeat.
      * intros _. apply nth_repeat.
    + intros k' [Hx _]. congruence.
Qed.

Lemma handle_honest_spec st k : wf_object segs -> stream_inv segs st -> s_complete st = false -> k < n ->
  forall st' removed, handle_honest st k = (st', removed) ->
  stream_inv segs st' /\ s_err st' = None /\ (removed = true -> s_complete st' = true) /\
  handled st' k /\ (forall k', handled st k' -> handled st' k') /\
  s_w2 st' = s_w2 st /\ s_fetch st' = s_fetch st /\ s_hasmeta st' = s_hasmeta st /\ s_pol st' = s_pol st /\
  s_name st' = s_name st /\ s_segcnt st' = Some n.
Proof.
  intros (Hn1 & Hnmax & Hne) Hinv Hnc Hk st' removed Hh.
  pose proof (after_fb_spec st Hinv Hnc Hn1) as Hst1. cbv zeta in Hst1.
  destruct Hinv as (Hp & Hs & (Hl & Hcm & _ & _) & Herr). rewrite Hnc in Hcm.
  unfold handle_honest in Hh. set (st1 := after_fb st) in *.
  destruct Hst1 as (H1c & H1l & H1w0 & H1w1 & H1w2 & H1cm & H1e & H1log & H1p & H1f & H1hm & H1pol & H1nm & H1s & H1h).
  unfold slots_ok in H1s. rewrite H1c in H1s.
  destruct H1s as (_ & _ & Hw01 & Hw1n & Hany & Hrange & Hnext & Hdone).
  cbv zeta in Hh.
  set (content := set_nth k (Some (seg_at segs k)) (s_content st1)) in *.
  assert (Hclen : length content = n) by (subst content; rewrite set_nth_length; exact H1l).
  assert (Hcany : forall i, i < n -> nth i content None = None \/ nth i content None = Some (seg_at segs i)).
  { intros i Hi. subst content. destruct (Nat.eq_dec k i) as [->|Hne'].
    - right. apply nth_set_nth_same. lia.
    - rewrite nth_set_nth_other by exact Hne'. apply Hany. exact Hi. }
  assert (Hck : nth k content None = Some (seg_at segs k)).
  { subst content. apply nth_set_nth_same. lia. }
  assert (Hcold : forall i, nth i (s_content st1) None <> None -> nth i content None <> None).
  { intros i Hi. subst content. destruct (Nat.eq_dec k i) as [->|Hne'].
    - rewrite nth_set_nth_same by lia. discriminate.
    - rewrite nth_set_nth_other by exact Hne'. exact Hi. }
  assert (Hcoth : forall i, k <> i -> nth i content None = nth i (s_content st1) None).
  { intros i Hi. subst content. apply nth_set_nth_other. exact Hi. }
  clearbody content. clearbody st1. clear Hne Hnmax Hp Hs Herr.
  destruct (s_w1 st1 =? k) eqn:Hwk.
  - (* the first outstanding segment: the window moves *)
    apply Nat.eqb_eq in Hwk.
    pose proof (advance_spec content (n - s_w1 st1) (s_w1 st1)) as Hadv. cbv zeta in Hadv.
    set (w1 := advance content (s_w1 st1) (n - s_w1 st1)) in *.
    destruct Hadv as (Ha1 & Ha2 & Ha3 & Ha4). clearbody w1.
    assert (Hw1n' : w1 <= n) by lia.
    inversion Hh; subst st' removed; clear Hh.
    set (st3 := with_fields _ _ _ _ _).
    assert (Hpre : pre_cb segs st3).
    { subst st3. unfold pre_cb.
      cbn [with_fields s_segcnt s_content s_w0 s_w1 s_w2 s_complete s_err s_log s_panic s_fetch s_hasmeta s_pol s_name].
      rewrite H1p, H1log, H1w0, H1e. repeat match goal with |- _ /\ _ => split end; auto.
      - unfold slots_ok. cbn [with_fields s_segcnt s_content s_w0 s_w1 s_complete]. rewrite H1c, H1w0.
        repeat match goal with |- _ /\ _ => split end; auto; try lia.
        + intros i Hi1 Hi2. destruct (Nat.lt_ge_cases i (s_w1 st1)) as [Hlt|Hge].
          * rewrite Hcoth by lia. apply Hrange; lia.
          * destruct (Hcany i ltac:(lia)) as [Hx|Hx]; [|exact Hx]. exfalso. apply (Ha3 i); auto.
        + intros Hlt. apply Ha4. lia.
        + intros Hw. apply Nat.eqb_eq in Hw. rewrite Hw. reflexivity.
      - intros Hc _. destruct (w1 =? n) eqn:Hd; [apply Nat.eqb_eq in Hd; auto|].
        rewrite H1cm in Hc. discriminate. }
    pose proof (do_callback_inv segs st3 Hpre) as Hinv'.
    pose proof (do_callback_fields st3 Hpre) as Hf. cbv zeta in Hf.
    destruct Hf as (Hf1 & Hf2 & Hf3 & Hf4 & Hf5 & Hf6 & Hf7 & Hf8 & Hf9 & Hf10).
    assert (Hst3 : s_err st3 = None /\ s_w2 st3 = s_w2 st /\ s_fetch st3 = s_fetch st /\ s_hasmeta st3 = s_hasmeta st /\
                   s_segcnt st3 = Some n /\ s_w1 st3 = w1 /\ s_complete st3 = (if w1 =? n then true else false) /\
                   s_pol st3 = s_pol st /\ s_name st3 = s_name st /\ s_content st3 = content).
    { subst st3. cbn. rewrite H1cm. auto 12. }
    destruct Hst3 as (Hg1 & Hg2 & Hg3 & Hg4 & Hg5 & Hg6 & Hg7 & Hg8 & Hg9 & Hg10).
    rewrite Hg6, Hg10 in Hf10. clearbody st3. clear Hpre.
    split; [exact Hinv'|]. split; [congruence|]. split.
    { intros Hr. rewrite Hf7, Hg7, Hr. reflexivity. }
    assert (Hkw : k < w1).
    { destruct (Nat.eq_dec w1 k) as [He|Hne']; [|clear - Hne' Ha1 Hwk; lia].
      exfalso. assert (Hkn : w1 < s_w1 st1 + (n - s_w1 st1)) by (clear - Hwk He Hk; lia).
      specialize (Ha4 Hkn). rewrite He, Hck in Ha4. discriminate. }
    split.
    { unfold handled. rewrite Hf5, Hg5, Hf6, Hg6. split; [reflexivity|]. left. exact Hkw. }
    split.
    { intros k' Hk'. apply H1h in Hk'. destruct Hk' as [_ Hk']. unfold handled. rewrite Hf5, Hg5, Hf6, Hg6.
      split; [reflexivity|].
      destruct Hk' as [Hlt|Hnn]; [left; clear - Hlt Ha1; lia|].
      destruct (Nat.lt_ge_cases k' w1) as [Hlt|Hge]; [left; exact Hlt|]. right.
      rewrite Hf10 by exact Hge. apply Hcold. exact Hnn. }
    repeat split; congruence.
  - (* some later (or repeated) segment: only its slot is filled *)
    apply Nat.eqb_neq in Hwk.
    inversion Hh; subst st' removed; clear Hh.
    set (st2 := with_fields st1 (s_segcnt st1) content (s_w1 st1) (s_complete st1)).
    assert (Hst2 : s_segcnt st2 = Some n /\ s_content st2 = content /\ s_w0 st2 = s_w0 st /\ s_w1 st2 = s_w1 st1 /\
                   s_w2 st2 = s_w2 st /\ s_complete st2 = false /\ s_err st2 = None /\ s_log st2 = s_log st /\
                   s_panic st2 = false /\ s_fetch st2 = s_fetch st /\ s_hasmeta st2 = s_hasmeta st /\
                   s_pol st2 = s_pol st /\ s_name st2 = s_name st).
    { subst st2. cbn [with_fields s_segcnt s_content s_w0 s_w1 s_w2 s_complete s_err s_log s_panic s_fetch s_hasmeta s_pol s_name].
      repeat match goal with |- _ /\ _ => split end; auto. }
    destruct Hst2 as (G1 & G2 & G3 & G4 & G5 & G6 & G7 & G8 & G9 & G10 & G11 & G12 & G13).
    split.
    { unfold stream_inv, slots_ok, log_ok. rewrite G1, G2, G3, G4, G6, G7, G8, G9.
      repeat match goal with |- _ /\ _ => split end; auto; try discriminate; try (clear - Hw01 Hw1n H1w0; lia).
      - intros i Hi1 Hi2. destruct (Nat.eq_dec k i) as [<-|Hne'].
        + exact Hck.
        + rewrite Hcoth by exact Hne'. apply Hrange; clear - Hi1 Hi2 H1w0; lia.
      - intros Hlt. rewrite Hcoth by (clear - Hwk; lia). apply Hnext. exact Hlt.
      - intros Hw. specialize (Hdone Hw). congruence. }
    split; [exact G7|]. split; [discriminate|]. split.
    { unfold handled. rewrite G1, G2. split; [reflexivity|]. right. rewrite Hck. discriminate. }
    split.
    { intros k' Hk'. apply H1h in Hk'. destruct Hk' as [_ Hk']. unfold handled. rewrite G1, G2, G4. split; [reflexivity|].
      destruct Hk' as [Hlt|Hnn]; [left; exact Hlt|right; apply Hcold; exact Hnn]. }
    repeat match goal with |- _ /\ _ => split end; auto.
Qed.
End Stream3.
