(* Object/FetchCheck.v — the boolean checkers of Fetch.v are sound for the hypotheses of the consumer theorems. *)
From Object Require Import Fetch FetchStream FetchSafe FetchLive FetchBudget.
From Coq Require Import Lia Arith PeanoNat ZArith.
Open Scope nat_scope.

Lemma honest_datab_sound segs k r : honest_datab segs k r = true -> honest_data segs k r.
Proof.
  unfold honest_datab. destruct r as [nm payload [fbc|] meta| | | |]; try discriminate.
  destruct (rev nm) as [|c rpre] eqn:Hr; [discriminate|].
  intros H. repeat (apply andb_true_iff in H; destruct H as [H ?]).
  apply Nat.ltb_lt in H. apply bytes_eqb_spec in H4. apply N.eqb_eq in H3, H2, H1, H0.
  exists nm, fbc, meta, c, (rev rpre). subst payload.
  repeat split; auto.
  rewrite <- (rev_involutive nm), Hr. reflexivity.
Qed.

Lemma is_failureb_sound r : is_failureb r = true -> is_failure r.
Proof. destruct r; cbn; auto; discriminate. Qed.

Lemma ev_okb_sound W c e : ev_okb W c e = true -> ev_ok W c e.
Proof.
  destruct e as [nm pol| | | | |xid r]; cbn; auto.
  intros H x rest Ht. rewrite Ht in H. destruct (x_kind x) as [|kN]; [exact I|].
  apply orb_true_iff in H. destruct H as [H|H].
  - left. apply is_failureb_sound. exact H.
  - right. exists (N.to_nat kN). split; [symmetry; apply N2Nat.id|]. apply honest_datab_sound. exact H.
Qed.

Lemma ev_cleanb_sound c e : ev_cleanb c e = true -> ev_clean c e.
Proof.
  destruct e as [nm pol| | | | |xid r]; cbn; auto.
  - destruct nm; [discriminate|]. intros _. discriminate.
  - intros H x rest Ht. rewrite Ht in H. destruct r as [nm payload fb meta| | | |]; try discriminate.
    + destruct (x_kind x); [|exact I]. destruct meta as [inner|]; [|discriminate]. exists inner. auto.
    + apply Nat.ltb_lt. exact H.
Qed.

Lemma run_checkb_sound W : forall evs c a b c', run_checkb W c evs = (a, b, c') ->
  c' = fold_left step evs c /\ (a = true -> run_ok W c evs) /\ (b = true -> run_clean c evs).
Proof.
  induction evs as [|e evs IH]; intros c a b c' H; cbn in H.
  - inversion H; subst. cbn. auto.
  - destruct (run_checkb W (step c e) evs) as [[a1 b1] c1] eqn:Hr. inversion H; subst.
    destruct (IH _ _ _ _ Hr) as (E & Ha & Hb). cbn. split; [exact E|]. split.
    + intros Hx. apply andb_true_iff in Hx. destruct Hx as [H1 H2]. split; [apply ev_okb_sound; exact H1|auto].
    + intros Hx. apply andb_true_iff in Hx. destruct Hx as [H1 H2]. split; [apply ev_cleanb_sound; exact H1|auto].
Qed.

Lemma wf_objectb_sound segs : wf_objectb segs = true -> wf_object segs.
Proof.
  unfold wf_objectb, wf_object. intros H. repeat (apply andb_true_iff in H; destruct H as [H ?]).
  apply Nat.leb_le in H. apply N.leb_le in H1. split; [exact H|]. split; [exact H1|].
  rewrite forallb_forall in H0. apply Forall_forall. intros b Hb E. specialize (H0 b Hb). subst. discriminate.
Qed.

Lemma quiescentb_sound c : quiescentb c = true -> quiescent c.
Proof.
  unfold quiescentb, quiescent.
  destruct (c_outpipe c); [|discriminate]. destruct (c_seginpipe c); [|discriminate].
  destruct (c_segfetch c); [|discriminate]. destruct (c_segcheck c); [|discriminate].
  destruct (c_pending c); [|discriminate]. auto.
Qed.

(* ---------------- non-vacuity: a concrete three-segment fetch with out-of-order replies and a retransmission -------- *)
Definition ex_segs : list bytes := [[1;2]; [3]; [4;5;6]]%N.
Definition ex_W (sid : nat) : list bytes := ex_segs.
Definition ex_name : name := [mkc 8%N [97%N]; ver_comp 7%N].
Definition ex_data (k : N) : result :=
  RData (ex_name ++ [seg_comp k]) (nth (N.to_nat k) ex_segs []) (Some (seg_comp 2%N)) None.
Definition ex_evs : list cev :=
  [EvConsume ex_name PolEvery; EvRunFetch; EvRunCheck; EvRunOut; EvResult 0 (ex_data 0%N); EvRunSegIn;
   EvRunCheck; EvRunOut; EvRunOut; EvResult 2 (ex_data 2%N); EvResult 1 RTimeout; EvRunSegIn; EvRunOut;
   EvResult 3 (ex_data 1%N); EvRunSegIn; EvRunCheck; EvRunCheck].

Lemma ex_wf : wf_world ex_W.
Proof. intros sid _. apply wf_objectb_sound. vm_compute. reflexivity. Qed.

Lemma example_check :
  (let '(a, b, c) := run_checkb ex_W cl_init ex_evs in
   a && b && quiescentb c && bytes_eqb (log_chunks (s_log (get_stream c 0))) [1;2;3;4;5;6]%N) = true.
Proof. vm_compute. reflexivity. Qed.

Example consume_example :
  run_ok ex_W cl_init ex_evs /\ run_clean cl_init ex_evs /\ quiescent (fold_left step ex_evs cl_init) /\
  log_chunks (s_log (get_stream (fold_left step ex_evs cl_init) 0)) = [1;2;3;4;5;6]%N.
Proof.
  pose proof example_check as Hc.
  destruct (run_checkb ex_W cl_init ex_evs) as [[a b] c'] eqn:Hr.
  destruct (run_checkb_sound ex_W _ _ _ _ _ Hr) as (E & Ha & Hb).
  repeat (apply andb_true_iff in Hc; destruct Hc as [Hc ?]).
  rewrite <- E. split; [auto|]. split; [auto|]. split; [apply quiescentb_sound; assumption|].
  apply bytes_eqb_spec. assumption.
Qed.
