(* Object/StoreMem.v — the memory store model (trie as a set of node paths) refines the finite-map specification:
   node paths stay unique and prefix-closed, `children == nil` nodes have no children, and the wires reachable by
   lookup are exactly those of the specification, through insert, remove (with its prune loop), and merge. *)
From Object Require Import Store StoreSpec.
From Coq Require Import Lia Permutation Arith PeanoNat.
From Names Require Import Order.
Open Scope nat_scope.

(* ---------------- association-list facts for mtree ---------------- *)
Definition keys (t : mtree) : list name := map fst t.

Lemma mt_node_In t : forall q i, mt_node t q = Some i -> In (q, i) t.
Proof.
  induction t as [|[p j] t IH]; intros q i H; cbn in H; [discriminate|].
  destruct (name_eqb p q) eqn:E.
  - apply name_eqb_spec in E. inversion H; subst. left. reflexivity.
  - right. apply IH. exact H.
Qed.

Lemma mt_node_none t q : mt_node t q = None <-> ~ In q (keys t).
Proof.
  induction t as [|[p j] t IH]; cbn; [tauto|].
  destruct (name_eqb p q) eqn:E.
  - apply name_eqb_spec in E. subst. split; [discriminate|]. intros H. exfalso. apply H. left. reflexivity.
  - rewrite IH. split; [intros H [H1|H1]; [subst; rewrite name_eqb_refl in E; discriminate|contradiction]|tauto].
Qed.

Lemma In_mt_node t : NoDup (keys t) -> forall q i, In (q, i) t -> mt_node t q = Some i.
Proof.
  induction t as [|[p j] t IH]; intros Hnd q i H; [contradiction|].
  cbn in Hnd. inversion Hnd as [|? ? Hnin Hnd']; subst. cbn.
  destruct H as [H|H].
  - inversion H; subst. rewrite name_eqb_refl. reflexivity.
  - destruct (name_eqb p q) eqn:E.
    + apply name_eqb_spec in E. subst. exfalso. apply Hnin. apply in_map_iff. exists (q, i). auto.
    + apply IH; assumption.
Qed.

Lemma mt_has_In t q : mt_has t q = true <-> In q (keys t).
Proof.
  unfold mt_has. destruct (mt_node t q) eqn:E.
  - split; [|reflexivity]. intros _. apply mt_node_In in E. apply in_map_iff. exists (q, m). auto.
  - apply mt_node_none in E. split; [discriminate|contradiction].
Qed.

Lemma keys_upd t p f : keys (mt_upd t p f) = keys t.
Proof.
  induction t as [|[q i] t IH]; [reflexivity|]. cbn. destruct (name_eqb q p); cbn; [reflexivity|]. unfold keys in IH. rewrite IH. reflexivity.
Qed.

Lemma mt_node_upd t p f : forall q, mt_node (mt_upd t p f) q =
  if name_eqb p q then option_map f (mt_node t p) else mt_node t q.
Proof.
  induction t as [|[r i] t IH]; intros q; cbn.
  - destruct (name_eqb p q); reflexivity.
  - destruct (name_eqb r p) eqn:E1.
    + apply name_eqb_spec in E1. subst r. cbn. destruct (name_eqb p q) eqn:E2; reflexivity.
    + cbn. destruct (name_eqb r q) eqn:E2.
      * destruct (name_eqb p q) eqn:E3; [|reflexivity].
        apply name_eqb_spec in E2, E3. subst. rewrite name_eqb_refl in E1. discriminate.
      * apply IH.
Qed.

Lemma keys_app t t' : keys (t ++ t') = keys t ++ keys t'.
Proof. unfold keys. apply map_app. Qed.

Lemma mt_node_app t t' q : mt_node (t ++ t') q = match mt_node t q with Some i => Some i | None => mt_node t' q end.
Proof.
  induction t as [|[r i] t IH]; cbn; [reflexivity|]. destruct (name_eqb r q); [reflexivity|apply IH].
Qed.

Lemma keys_filter (t : mtree) g : keys (filter g t) = map fst (filter g t).
Proof. reflexivity. Qed.

Lemma mt_node_filter_keys t (g : name -> bool) : forall q,
  mt_node (filter (fun qi => g (fst qi)) t) q = if g q then mt_node t q else None.
Proof.
  induction t as [|[r i] t IH]; intros q; cbn.
  - destruct (g q); reflexivity.
  - destruct (g r) eqn:Eg; cbn.
    + destruct (name_eqb r q) eqn:E.
      * apply name_eqb_spec in E. subst. rewrite Eg. reflexivity.
      * apply IH.
    + destruct (name_eqb r q) eqn:E.
      * apply name_eqb_spec in E. subst. rewrite Eg. rewrite IH, Eg. reflexivity.
      * apply IH.
Qed.

Lemma NoDup_filter_keys t (g : name -> bool) : NoDup (keys t) -> NoDup (keys (filter (fun qi => g (fst qi)) t)).
Proof.
  induction t as [|[r i] t IH]; intros H; cbn; [constructor|].
  cbn in H. inversion H as [|? ? Hn Hd]; subst.
  destruct (g r); cbn; [|apply IH; exact Hd].
  constructor; [|apply IH; exact Hd].
  intros Hin. apply Hn. unfold keys in *. apply in_map_iff in Hin. destruct Hin as [[a b] [E Hin]]. cbn in E. subst a.
  apply filter_In in Hin. apply in_map_iff. exists (r, b). split; [reflexivity|apply Hin].
Qed.

Lemma In_keys_filter t (g : name -> bool) q : In q (keys (filter (fun qi => g (fst qi)) t)) <-> In q (keys t) /\ g q = true.
Proof.
  unfold keys. rewrite !in_map_iff. split.
  - intros [[a b] [E Hin]]. cbn in E. subst a. apply filter_In in Hin. cbn in Hin. split; [exists (q, b); tauto|tauto].
  - intros [[[a b] [E Hin]] Hg]. cbn in E. subst a. exists (q, b). split; [reflexivity|]. apply filter_In. auto.
Qed.

(* ---------------- is_prefix facts ---------------- *)
Lemma is_prefix_refl p : is_prefix p p = true.
Proof. apply is_prefix_spec. exists []. rewrite app_nil_r. reflexivity. Qed.
Lemma is_prefix_app p r : is_prefix p (p ++ r) = true.
Proof. apply is_prefix_spec. exists r. reflexivity. Qed.
Lemma is_prefix_trans a b c : is_prefix a b = true -> is_prefix b c = true -> is_prefix a c = true.
Proof.
  intros H1 H2. apply is_prefix_spec in H1, H2. destruct H1 as [x ->]. destruct H2 as [y ->].
  apply is_prefix_spec. exists (x ++ y). rewrite app_assoc. reflexivity.
Qed.
Lemma is_prefix_length a b : is_prefix a b = true -> length a <= length b.
Proof. intros H. apply is_prefix_spec in H. destruct H as [x ->]. rewrite app_length. lia. Qed.
Lemma is_prefix_firstn a b : is_prefix a b = true -> a = firstn (length a) b.
Proof. intros H. apply is_prefix_spec in H. destruct H as [x ->]. rewrite firstn_app, firstn_all, Nat.sub_diag. cbn. rewrite app_nil_r. reflexivity. Qed.
Lemma is_prefix_antisym a b : is_prefix a b = true -> is_prefix b a = true -> a = b.
Proof.
  intros H1 H2. pose proof (is_prefix_length _ _ H1). pose proof (is_prefix_length _ _ H2).
  apply is_prefix_spec in H1. destruct H1 as [x E]. subst b. rewrite app_length in *.
  destruct x; [rewrite app_nil_r; reflexivity|cbn in *; lia].
Qed.

(* ---------------- what the trie stores ---------------- *)
Definition info_cand (i : minfo) : option cand := option_map (fun w => (mv i, w)) (mw i).
Definition mt_lookup (t : mtree) (q : name) : option cand :=
  match mt_node t q with Some i => info_cand i | None => None end.

Lemma mt_lookup_upd_same_cand t p f : (forall i, info_cand (f i) = info_cand i) ->
  forall q, mt_lookup (mt_upd t p f) q = mt_lookup t q.
Proof.
  intros Hf q. unfold mt_lookup. rewrite mt_node_upd. destruct (name_eqb p q) eqn:E; [|reflexivity].
  apply name_eqb_spec in E. subst q. destruct (mt_node t p); cbn; [apply Hf|reflexivity].
Qed.

Lemma NoDup_app_intro_one {A} (l : list A) x : NoDup l -> ~ In x l -> NoDup (l ++ [x]).
Proof.
  induction l as [|y l IH]; intros H Hx; cbn; [constructor; [intros []|constructor]|].
  inversion H; subst. constructor.
  - intros Hin. apply in_app_or in Hin. destruct Hin as [Hin|[Hin|[]]]; [contradiction|]. subst. apply Hx. left. reflexivity.
  - apply IH; [assumption|]. intros Hin. apply Hx. right. exact Hin.
Qed.

Lemma NoDup_keys_app_new t q i : NoDup (keys t) -> ~ In q (keys t) -> NoDup (keys (t ++ [(q, i)])).
Proof.
  intros Hn Hq. rewrite keys_app. cbn. apply NoDup_app_intro_one; assumption.
Qed.

Lemma mt_lookup_app_new t q0 i0 : mw i0 = None -> forall q, mt_lookup (t ++ [(q0, i0)]) q = mt_lookup t q.
Proof.
  intros Hw q. unfold mt_lookup. rewrite mt_node_app. destruct (mt_node t q); [reflexivity|].
  cbn. destruct (name_eqb q0 q); [|reflexivity]. unfold info_cand. rewrite Hw. reflexivity.
Qed.

(* insert: the target gets (version, wire), nothing else changes for lookups *)
Lemma insert_from_lookup ver w : forall rest pre t, NoDup (keys t) -> In pre (keys t) ->
  NoDup (keys (mt_insert_from pre rest ver w t)) /\
  forall q, mt_lookup (mt_insert_from pre rest ver w t) q =
            if name_eqb q (pre ++ rest) then Some (ver, w) else mt_lookup t q.
Proof.
  induction rest as [|c r IH]; intros pre t Hnd Hpre; cbn [mt_insert_from].
  - rewrite app_nil_r. split; [rewrite keys_upd; exact Hnd|].
    intros q. unfold mt_lookup. rewrite mt_node_upd. rewrite (name_eqb_sym q pre).
    destruct (name_eqb pre q) eqn:E; [|reflexivity].
    apply mt_has_In in Hpre. unfold mt_has in Hpre. destruct (mt_node t pre); [reflexivity|discriminate].
  - set (t1 := mt_upd t pre (fun i => mkmi (mw i) (mv i) false)).
    assert (Hl1 : forall q, mt_lookup t1 q = mt_lookup t q) by (apply mt_lookup_upd_same_cand; reflexivity).
    assert (Hk1 : keys t1 = keys t) by apply keys_upd.
    set (child := pre ++ [c]).
    set (t2 := if mt_has t1 child then t1 else t1 ++ [(child, new_node)]).
    assert (H2 : NoDup (keys t2) /\ In child (keys t2) /\ forall q, mt_lookup t2 q = mt_lookup t q).
    { unfold t2. destruct (mt_has t1 child) eqn:Eh.
      - split; [rewrite Hk1; exact Hnd|]. split; [apply mt_has_In; exact Eh|exact Hl1].
      - assert (Hnin : ~ In child (keys t1)).
        { intros Hin. apply mt_has_In in Hin. congruence. }
        split; [apply NoDup_keys_app_new; [rewrite Hk1; exact Hnd|exact Hnin]|].
        split; [rewrite keys_app; apply in_or_app; right; left; reflexivity|].
        intros q. rewrite mt_lookup_app_new by reflexivity. apply Hl1. }
    destruct H2 as (Hnd2 & Hc2 & Hl2).
    destruct (IH child t2 Hnd2 Hc2) as (Hnd3 & Hl3). split; [exact Hnd3|].
    intros q. rewrite Hl3. unfold child. rewrite <- app_assoc. cbn [app]. rewrite Hl2. reflexivity.
Qed.

(* ---------------- structural invariant of the trie ---------------- *)
Definition closed (t : mtree) : Prop := forall q, In q (keys t) -> forall p, is_prefix p q = true -> In p (keys t).
Definition chnil_ok (t : mtree) : Prop :=
  forall q i, mt_node t q = Some i -> chnil i = true -> forall r, In r (keys t) -> is_child q r = false.
Definition mt_wf (t : mtree) : Prop := NoDup (keys t) /\ In [] (keys t) /\ closed t /\ chnil_ok t.

Lemma mt_wf_init : mt_wf mt_init.
Proof.
  unfold mt_wf, mt_init, closed, chnil_ok, keys. cbn. split; [repeat constructor; intros []|]. split; [auto|]. split.
  - intros q [<-|[]] p Hp. destruct p; [left; reflexivity|discriminate].
  - intros q i H _ r [<-|[]]. unfold is_child. cbn. destruct q; reflexivity.
Qed.

Lemma is_child_snoc q pre c : is_child q (pre ++ [c]) = true -> q = pre.
Proof.
  unfold is_child. intros H. apply andb_true_iff in H. destruct H as [Hl Hp]. apply Nat.eqb_eq in Hl.
  rewrite app_length in Hl. cbn in Hl.
  apply is_prefix_firstn in Hp. rewrite Hp. replace (length q) with (length pre) by lia.
  rewrite firstn_app, firstn_all, Nat.sub_diag. cbn. apply app_nil_r.
Qed.

Lemma is_prefix_snoc p pre c : is_prefix p (pre ++ [c]) = true -> p = pre ++ [c] \/ is_prefix p pre = true.
Proof.
  intros H. apply is_prefix_spec in H. destruct H as [x E].
  destruct x as [|y x] using rev_ind; [left; rewrite app_nil_r in E; auto|].
  right. rewrite app_assoc in E. apply app_inj_tail in E. destruct E as [E _]. apply is_prefix_spec. exists x. auto.
Qed.

Lemma is_child_irrefl q : is_child q q = false.
Proof. unfold is_child. replace (length q =? S (length q)) with false; [reflexivity|]. symmetry. apply Nat.eqb_neq. lia. Qed.

Lemma is_child_prefix q r : is_child q r = true -> is_prefix q r = true.
Proof. unfold is_child. intros H. apply andb_true_iff in H. tauto. Qed.

(* one level of insert: mark the node as having children, create the child if missing *)
Lemma insert_level_wf t pre c : mt_wf t -> In pre (keys t) ->
  let t1 := mt_upd t pre (fun i => mkmi (mw i) (mv i) false) in
  let child := pre ++ [c] in
  let t2 := if mt_has t1 child then t1 else t1 ++ [(child, new_node)] in
  mt_wf t2 /\ In child (keys t2).
Proof.
  intros (Hnd & Hroot & Hcl & Hch) Hpre. cbv zeta.
  set (t1 := mt_upd t pre (fun i => mkmi (mw i) (mv i) false)).
  assert (Hk1 : keys t1 = keys t) by apply keys_upd.
  assert (Hch1 : chnil_ok t1 /\ forall i, mt_node t1 pre = Some i -> chnil i = false).
  { split.
    - intros q i Hn Hc r Hr. unfold t1 in Hn. rewrite mt_node_upd in Hn. rewrite Hk1 in Hr.
      destruct (name_eqb pre q) eqn:E.
      + destruct (mt_node t pre); cbn in Hn; inversion Hn; subst; cbn in Hc; discriminate.
      + eapply Hch; eauto.
    - intros i Hn. unfold t1 in Hn. rewrite mt_node_upd, name_eqb_refl in Hn.
      destruct (mt_node t pre); cbn in Hn; inversion Hn; reflexivity. }
  destruct Hch1 as [Hch1 Hpre1].
  destruct (mt_has t1 (pre ++ [c])) eqn:Eh.
  - split; [|apply mt_has_In; exact Eh]. unfold mt_wf, closed. rewrite Hk1. auto.
  - assert (Hnin : ~ In (pre ++ [c]) (keys t1)) by (intros Hin; apply mt_has_In in Hin; congruence).
    split; [|rewrite keys_app; apply in_or_app; right; left; reflexivity].
    unfold mt_wf. split; [apply NoDup_keys_app_new; [rewrite Hk1; exact Hnd|exact Hnin]|].
    split; [rewrite keys_app, Hk1; apply in_or_app; left; exact Hroot|]. split.
    + intros q Hq p Hp. rewrite keys_app in *. change (keys [(pre ++ [c], new_node)]) with [pre ++ [c]] in *.
      apply in_app_or in Hq. apply in_or_app.
      destruct Hq as [Hq|[<-|[]]].
      * left. rewrite Hk1 in *. eapply Hcl; eauto.
      * destruct (is_prefix_snoc _ _ _ Hp) as [->|Hp']; [right; left; reflexivity|].
        left. rewrite Hk1. eapply Hcl; eauto.
    + intros q i Hn Hc r Hr. rewrite mt_node_app in Hn. rewrite keys_app in Hr.
      change (keys [(pre ++ [c], new_node)]) with [pre ++ [c]] in Hr. apply in_app_or in Hr.
      destruct (mt_node t1 q) as [j|] eqn:Ej.
      * inversion Hn; subst j. destruct Hr as [Hr|[<-|[]]]; [eapply Hch1; eauto|].
        destruct (is_child q (pre ++ [c])) eqn:Ec; [|reflexivity].
        apply is_child_snoc in Ec. subst q. rewrite (Hpre1 i Ej) in Hc. discriminate.
      * cbn in Hn. destruct (name_eqb (pre ++ [c]) q) eqn:E; [|discriminate].
        apply name_eqb_spec in E. subst q. destruct Hr as [Hr|[<-|[]]]; [|apply is_child_irrefl].
        destruct (is_child (pre ++ [c]) r) eqn:Ec; [|reflexivity]. exfalso. apply Hnin.
        rewrite Hk1 in *. eapply Hcl; [exact Hr|apply is_child_prefix; exact Ec].
Qed.

Lemma insert_from_wf ver w : forall rest pre t, mt_wf t -> In pre (keys t) -> mt_wf (mt_insert_from pre rest ver w t).
Proof.
  induction rest as [|c r IH]; intros pre t Hwf Hpre; cbn [mt_insert_from].
  - destruct Hwf as (Hnd & Hroot & Hcl & Hch). unfold mt_wf, closed. rewrite keys_upd. split; [exact Hnd|]. split; [exact Hroot|].
    split; [exact Hcl|].
    intros q i Hn Hc r Hr. rewrite mt_node_upd in Hn. rewrite keys_upd in Hr.
    destruct (name_eqb pre q) eqn:E; [|eapply Hch; eauto].
    apply name_eqb_spec in E. subst q. destruct (mt_node t pre) as [j|] eqn:Ej; cbn in Hn; [|discriminate].
    inversion Hn; subst i. cbn in Hc. eapply Hch; eauto.
  - destruct (insert_level_wf t pre c Hwf Hpre) as [H1 H2]. apply IH; assumption.
Qed.

Lemma mt_insert_spec nm ver w t : mt_wf t ->
  mt_wf (mt_insert nm ver w t) /\
  forall q, mt_lookup (mt_insert nm ver w t) q = if name_eqb q nm then Some (ver, w) else mt_lookup t q.
Proof.
  intros Hwf. unfold mt_insert. split; [apply insert_from_wf; [exact Hwf|apply Hwf]|].
  apply (insert_from_lookup ver w nm [] t); apply Hwf.
Qed.

(* ---------------- remove ---------------- *)
Lemma descend_from_spec t : closed t -> forall rest pre, In pre (keys t) ->
  let d := mt_descend_from t pre rest in
  d <= length rest /\ In (pre ++ firstn d rest) (keys t) /\
  (d < length rest -> ~ In (pre ++ firstn (S d) rest) (keys t)).
Proof.
  intros Hcl. induction rest as [|c r IH]; intros pre Hpre; cbn [mt_descend_from].
  - cbn. rewrite app_nil_r. split; [lia|]. split; [exact Hpre|lia].
  - destruct (mt_has t (pre ++ [c])) eqn:Eh.
    + apply mt_has_In in Eh. destruct (IH (pre ++ [c]) Eh) as (H1 & H2 & H3). cbn zeta in *.
      cbn [length firstn]. rewrite <- app_assoc in H2. cbn [app] in H2. split; [lia|]. split; [exact H2|].
      intros Hlt. rewrite <- app_assoc in H3. cbn [app] in H3. apply H3. lia.
    + cbn. rewrite app_nil_r. split; [lia|]. split; [exact Hpre|]. intros _ Hin. apply mt_has_In in Hin.
      cbn in Hin. congruence.
Qed.

Lemma descend_full t nm : closed t -> In [] (keys t) -> (mt_descend t nm = length nm <-> In nm (keys t)).
Proof.
  intros Hcl Hroot. unfold mt_descend. destruct (descend_from_spec t Hcl nm [] Hroot) as (H1 & H2 & H3). cbn zeta in *. cbn [app] in *.
  split.
  - intros E. rewrite E, firstn_all in H2. exact H2.
  - intros Hin. destruct (Nat.eq_dec (mt_descend_from t [] nm) (length nm)) as [E|Hne]; [exact E|exfalso].
    apply H3; [lia|]. eapply Hcl; [exact Hin|]. apply is_prefix_spec. exists (skipn (S (mt_descend_from t [] nm)) nm).
    symmetry. apply firstn_skipn.
Qed.

Lemma nchildren_zero t p : (mt_nchildren t p =? 0) = true <-> forall r, In r (keys t) -> is_child p r = false.
Proof.
  unfold mt_nchildren. rewrite Nat.eqb_eq. split.
  - intros H r Hr. apply in_map_iff in Hr. destruct Hr as [[a b] [E Hin]]. cbn in E. subst a.
    destruct (is_child p r) eqn:Ec; [|reflexivity]. exfalso.
    assert (Hf : In (r, b) (filter (fun qi => is_child p (fst qi)) t)) by (apply filter_In; auto).
    destruct (filter (fun qi => is_child p (fst qi)) t); [contradiction|discriminate].
  - intros H. destruct (filter (fun qi => is_child p (fst qi)) t) as [|[a b] l] eqn:Ef; [reflexivity|exfalso].
    assert (Hin : In (a, b) (filter (fun qi => is_child p (fst qi)) t)) by (rewrite Ef; left; reflexivity).
    apply filter_In in Hin. destruct Hin as [Hin Hc]. cbn in Hc. rewrite H in Hc; [discriminate|].
    apply in_map_iff. exists (a, b). auto.
Qed.

Lemma mt_del_keys t p q : In q (keys (mt_del t p)) <-> In q (keys t) /\ q <> p.
Proof.
  unfold mt_del. rewrite (In_keys_filter t (fun k => negb (name_eqb k p))). split.
  - intros [H1 H2]. split; [exact H1|]. intros ->. rewrite name_eqb_refl in H2. discriminate.
  - intros [H1 H2]. split; [exact H1|]. rewrite name_eqb_neq by exact H2. reflexivity.
Qed.

Lemma mt_del_node t p q : mt_node (mt_del t p) q = if name_eqb q p then None else mt_node t q.
Proof.
  unfold mt_del. rewrite (mt_node_filter_keys t (fun k => negb (name_eqb k p))). destruct (name_eqb q p); reflexivity.
Qed.

Lemma no_children_no_desc t x : closed t -> (forall r, In r (keys t) -> is_child x r = false) ->
  forall q, In q (keys t) -> is_prefix x q = true -> q = x.
Proof.
  intros Hcl Hnc q Hq Hp. pose proof (is_prefix_length _ _ Hp) as Hl.
  destruct (Nat.eq_dec (length x) (length q)) as [E|Hne].
  - apply is_prefix_firstn in Hp. rewrite E, firstn_all in Hp. auto.
  - exfalso. set (r := firstn (S (length x)) q).
    assert (Hr : In r (keys t)).
    { eapply Hcl; [exact Hq|]. apply is_prefix_spec. exists (skipn (S (length x)) q). symmetry. apply firstn_skipn. }
    specialize (Hnc r Hr). unfold is_child in Hnc. apply andb_false_iff in Hnc. destruct Hnc as [Hnc|Hnc].
    + apply Nat.eqb_neq in Hnc. apply Hnc. unfold r. rewrite firstn_length. lia.
    + assert (is_prefix x r = true); [|congruence].
      apply is_prefix_spec in Hp. destruct Hp as [y ->]. unfold r. rewrite firstn_app.
      rewrite firstn_all2 by lia. apply is_prefix_app.
Qed.

(* deleting a childless node keeps the invariant (root excepted) *)
Lemma del_leaf_wf t x : mt_wf t -> x <> [] -> (forall r, In r (keys t) -> is_child x r = false) -> mt_wf (mt_del t x).
Proof.
  intros (Hnd & Hroot & Hcl & Hch) Hx Hnc. unfold mt_wf. split; [apply NoDup_filter_keys with (g := fun k => negb (name_eqb k x)); exact Hnd|].
  split; [apply mt_del_keys; split; [exact Hroot|congruence]|]. split.
  - intros q Hq p Hp. apply mt_del_keys in Hq. destruct Hq as [Hq Hqx]. apply mt_del_keys. split; [eapply Hcl; eauto|].
    intros ->. apply Hqx. eapply no_children_no_desc; eauto.
  - intros q i Hn Hc r Hr. rewrite mt_del_node in Hn. destruct (name_eqb q x); [discriminate|].
    apply mt_del_keys in Hr. eapply Hch; eauto. apply Hr.
Qed.

Lemma del_lookup t x : mt_lookup t x = None -> forall q, mt_lookup (mt_del t x) q = mt_lookup t q.
Proof.
  intros Hx q. unfold mt_lookup in *. rewrite mt_del_node. destruct (name_eqb q x) eqn:E; [|reflexivity].
  apply name_eqb_spec in E. subst q. symmetry. exact Hx.
Qed.

(* the upward prune loop *)
Lemma prune_up_spec : forall fuel t child flag, mt_wf t ->
  (flag = true -> mt_lookup t child = None /\ forall r, In r (keys t) -> is_child child r = false) ->
  mt_wf (mt_prune_up fuel t child flag) /\ forall q, mt_lookup (mt_prune_up fuel t child flag) q = mt_lookup t q.
Proof.
  induction fuel as [|f IH]; intros t child flag Hwf Hflag; cbn [mt_prune_up]; [auto|].
  destruct child as [|c0 cs]; [auto|]. set (child := c0 :: cs) in *.
  destruct flag; [|auto]. destruct (Hflag eq_refl) as [Hl Hnc].
  assert (Hwf1 : mt_wf (mt_del t child)) by (apply del_leaf_wf; [exact Hwf|discriminate|exact Hnc]).
  set (t1 := mt_del t child) in *. set (parent := removelast child).
  set (pflag := match mt_node t1 parent with
                | Some i => match mw i with None => (mt_nchildren t1 parent =? 0) | Some _ => false end
                | None => false end).
  destruct (IH t1 parent pflag Hwf1) as [H1 H2].
  - intros Hp. unfold pflag in Hp. destruct (mt_node t1 parent) as [i|] eqn:En; [|discriminate].
    destruct (mw i) eqn:Ew; [discriminate|]. split; [unfold mt_lookup, info_cand; rewrite En, Ew; reflexivity|].
    apply nchildren_zero. exact Hp.
  - split; [exact H1|]. intros q. rewrite H2. apply del_lookup. exact Hl.
Qed.

Lemma is_strict_desc_spec a b : is_strict_desc a b = true <-> is_prefix a b = true /\ a <> b.
Proof.
  unfold is_strict_desc. rewrite andb_true_iff, Nat.ltb_lt. split.
  - intros [Hl Hp]. split; [exact Hp|]. intros ->. lia.
  - intros [Hp Hne]. split; [|exact Hp]. pose proof (is_prefix_length _ _ Hp).
    destruct (Nat.eq_dec (length a) (length b)) as [E|]; [|lia]. exfalso. apply Hne.
    apply is_prefix_firstn in Hp. rewrite E, firstn_all in Hp. exact Hp.
Qed.

Lemma lookup_absent t q : ~ In q (keys t) -> mt_lookup t q = None.
Proof. intros H. unfold mt_lookup. apply mt_node_none in H. rewrite H. reflexivity. Qed.

Theorem mt_remove_spec nm p t : mt_wf t ->
  mt_wf (mt_remove nm p t) /\
  forall q, mt_lookup (mt_remove nm p t) q =
            if (if p then is_prefix nm q else name_eqb q nm) then None else mt_lookup t q.
Proof.
  intros Hwf. pose proof Hwf as (Hnd & Hroot & Hcl & Hch). unfold mt_remove.
  destruct (mt_descend t nm =? length nm) eqn:Ed.
  - (* the target exists *)
    apply Nat.eqb_eq in Ed. apply (descend_full t nm Hcl Hroot) in Ed.
    set (f := fun i => mkmi None 0%N (if p then true else chnil i)).
    set (t1 := mt_upd t nm f).
    assert (Hk1 : keys t1 = keys t) by apply keys_upd.
    assert (Hl1 : forall q, mt_lookup t1 q = if name_eqb q nm then None else mt_lookup t q).
    { intros q. unfold mt_lookup, t1. rewrite mt_node_upd. rewrite (name_eqb_sym q nm).
      destruct (name_eqb nm q); [|reflexivity]. destruct (mt_node t nm); reflexivity. }
    set (t2 := if p then filter (fun qi => negb (is_strict_desc nm (fst qi))) t1 else t1).
    assert (H2 : mt_wf t2 /\ (forall q, mt_lookup t2 q = if (if p then is_prefix nm q else name_eqb q nm) then None else mt_lookup t q)
                 /\ mt_lookup t2 nm = None).
    { unfold t2. destruct p.
      - (* prefix: the subtree is dropped *)
        set (g := fun k => negb (is_strict_desc nm k)).
        assert (Hkeys : forall q, In q (keys (filter (fun qi => g (fst qi)) t1)) <-> In q (keys t) /\ is_strict_desc nm q = false).
        { intros q. rewrite (In_keys_filter t1 g), Hk1. unfold g. rewrite negb_true_iff. tauto. }
        change (filter (fun qi : name * minfo => negb (is_strict_desc nm (fst qi))) t1) with (filter (fun qi => g (fst qi)) t1).
        split; [|split].
        + unfold mt_wf. split; [apply (NoDup_filter_keys t1 g); rewrite Hk1; exact Hnd|].
          split; [apply Hkeys; split; [exact Hroot|unfold is_strict_desc; destruct nm; reflexivity]|]. split.
          * intros q Hq p' Hp'. apply Hkeys in Hq. destruct Hq as [Hq Hs]. apply Hkeys. split; [eapply Hcl; eauto|].
            destruct (is_strict_desc nm p') eqn:E; [|reflexivity]. exfalso.
            apply is_strict_desc_spec in E. destruct E as [E1 E2].
            assert (Hx : is_strict_desc nm q = true); [|congruence].
            apply is_strict_desc_spec. split; [eapply is_prefix_trans; eauto|].
            intros ->. apply E2. apply is_prefix_antisym; assumption.
          * intros q i Hn Hc r Hr. rewrite (mt_node_filter_keys t1 g) in Hn. apply Hkeys in Hr. destruct Hr as [Hr Hs].
            destruct (g q) eqn:Eg; [|discriminate]. unfold t1 in Hn. rewrite mt_node_upd in Hn.
            destruct (name_eqb nm q) eqn:E.
            -- apply name_eqb_spec in E. subst q. destruct (is_child nm r) eqn:Ec; [|reflexivity]. exfalso.
               assert (Hx : is_strict_desc nm r = true); [|congruence].
               unfold is_child in Ec. apply andb_true_iff in Ec. destruct Ec as [El Ep]. apply Nat.eqb_eq in El.
               unfold is_strict_desc. rewrite Ep, andb_true_r. apply Nat.ltb_lt. lia.
            -- eapply Hch; eauto.
        + intros q. unfold mt_lookup. rewrite (mt_node_filter_keys t1 g). unfold g.
          destruct (is_strict_desc nm q) eqn:Es; cbn [negb].
          * apply is_strict_desc_spec in Es. destruct Es as [Es _]. rewrite Es. reflexivity.
          * fold (mt_lookup t1 q). rewrite Hl1. destruct (name_eqb q nm) eqn:E.
            -- apply name_eqb_spec in E. subst q. rewrite is_prefix_refl. reflexivity.
            -- destruct (is_prefix nm q) eqn:Ep; [|reflexivity]. exfalso.
               assert (Hx : is_strict_desc nm q = true); [|congruence].
               apply is_strict_desc_spec. split; [exact Ep|]. intros ->. rewrite name_eqb_refl in E. discriminate.
        + unfold mt_lookup. rewrite (mt_node_filter_keys t1 g). unfold g.
          replace (is_strict_desc nm nm) with false by (unfold is_strict_desc; rewrite Nat.ltb_irrefl; reflexivity).
          cbn [negb]. fold (mt_lookup t1 nm). rewrite Hl1, name_eqb_refl. reflexivity.
      - split; [|split; [exact Hl1|rewrite Hl1, name_eqb_refl; reflexivity]].
        unfold mt_wf, closed. rewrite Hk1. split; [exact Hnd|]. split; [exact Hroot|]. split; [exact Hcl|].
        intros q i Hn Hc r Hr. unfold t1 in Hn. rewrite mt_node_upd in Hn. rewrite Hk1 in Hr.
        destruct (name_eqb nm q) eqn:E; [|eapply Hch; eauto].
        apply name_eqb_spec in E. subst q. destruct (mt_node t nm) as [j|] eqn:Ej; cbn in Hn; [|discriminate].
        inversion Hn; subst i. cbn in Hc. eapply Hch; eauto. }
    destruct H2 as (Hwf2 & Hl2 & Hnone).
    set (flag := match mt_node t2 nm with Some i => chnil i | None => false end).
    destruct (prune_up_spec (S (length nm)) t2 nm flag Hwf2) as [H3 H4].
    + intros Hf. split; [exact Hnone|]. unfold flag in Hf. destruct (mt_node t2 nm) as [i|] eqn:En; [|discriminate].
      destruct Hwf2 as (_ & _ & _ & Hch2). intros r Hr. eapply Hch2; eauto.
    + split; [exact H3|]. intros q. rewrite H4. apply Hl2.
  - (* some node on the way is missing: nothing is stored at or below nm *)
    apply Nat.eqb_neq in Ed.
    assert (Hnin : ~ In nm (keys t)) by (intros Hin; apply Ed; apply (descend_full t nm Hcl Hroot); exact Hin).
    assert (Hcond : forall q, (if p then is_prefix nm q else name_eqb q nm) = true -> mt_lookup t q = None).
    { intros q Hc. apply lookup_absent. intros Hin. apply Hnin. destruct p.
      - eapply Hcl; eauto.
      - apply name_eqb_spec in Hc. subst q. exact Hin. }
    assert (Hsame : forall t', (forall q, mt_lookup t' q = mt_lookup t q) ->
              forall q, mt_lookup t' q = if (if p then is_prefix nm q else name_eqb q nm) then None else mt_lookup t q).
    { intros t' Ht' q. rewrite Ht'. destruct (if p then is_prefix nm q else name_eqb q nm) eqn:Ec; [apply Hcond; exact Ec|reflexivity]. }
    set (dn := firstn (mt_descend t nm) nm).
    destruct (mt_node t dn) as [i|] eqn:En; [|split; [exact Hwf|apply Hsame; reflexivity]].
    destruct (chnil i); [split; [exact Hwf|apply Hsame; reflexivity]|].
    set (flag := match mw i with None => mt_nchildren t dn =? 0 | Some _ => false end).
    destruct (prune_up_spec (S (length nm)) t dn flag Hwf) as [H3 H4].
    + intros Hf. unfold flag in Hf. destruct (mw i) eqn:Ew; [discriminate|].
      split; [unfold mt_lookup, info_cand; rewrite En, Ew; reflexivity|apply nchildren_zero; exact Hf].
    + split; [exact H3|apply Hsame; exact H4].
Qed.

(* ---------------- merge (Commit) ---------------- *)
Lemma NoDup_app_disjoint {A} (l1 l2 : list A) : NoDup l1 -> NoDup l2 -> (forall x, In x l1 -> ~ In x l2) -> NoDup (l1 ++ l2).
Proof.
  induction l1 as [|x l1 IH]; intros H1 H2 Hd; [exact H2|]. cbn. inversion H1; subst. constructor.
  - intros Hin. apply in_app_or in Hin. destruct Hin as [Hin|Hin]; [contradiction|]. apply (Hd x); [left; reflexivity|exact Hin].
  - apply IH; auto. intros y Hy. apply Hd. right. exact Hy.
Qed.

Definition merge_info (tx : mtree) (q : name) (i : minfo) : minfo :=
  match mt_node tx q with
  | Some ti =>
      let i1 := match mw ti with Some _ => mkmi (mw ti) (mv ti) (chnil i) | None => i end in
      if (0 <? mt_nchildren tx q) then mkmi (mw i1) (mv i1) false else i1
  | None => i
  end.

Lemma mt_merge_unfold root tx :
  mt_merge root tx = map (fun qi => (fst qi, merge_info tx (fst qi) (snd qi))) root
                     ++ filter (fun qi => negb (mt_has root (fst qi))) tx.
Proof.
  unfold mt_merge. f_equal. apply map_ext. intros [q i]. unfold merge_info. cbn. destruct (mt_node tx q); reflexivity.
Qed.

Lemma keys_map_info (t : mtree) (h : name -> minfo -> minfo) : keys (map (fun qi => (fst qi, h (fst qi) (snd qi))) t) = keys t.
Proof. unfold keys. rewrite map_map. reflexivity. Qed.

Lemma mt_node_map_info (t : mtree) (h : name -> minfo -> minfo) q :
  mt_node (map (fun qi => (fst qi, h (fst qi) (snd qi))) t) q = option_map (h q) (mt_node t q).
Proof.
  induction t as [|[r i] t IH]; [reflexivity|]. cbn. destruct (name_eqb r q) eqn:E; [|exact IH].
  apply name_eqb_spec in E. subst. reflexivity.
Qed.

Theorem mt_merge_spec root tx : mt_wf root -> mt_wf tx ->
  mt_wf (mt_merge root tx) /\
  forall q, mt_lookup (mt_merge root tx) q = match mt_lookup tx q with Some c => Some c | None => mt_lookup root q end.
Proof.
  intros (Rnd & Rroot & Rcl & Rch) (Tnd & Troot & Tcl & Tch). rewrite mt_merge_unfold.
  set (g := fun k => negb (mt_has root k)).
  set (A := map (fun qi => (fst qi, merge_info tx (fst qi) (snd qi))) root).
  set (B := filter (fun qi => g (fst qi)) tx).
  assert (HkA : keys A = keys root) by apply keys_map_info.
  assert (HkB : forall q, In q (keys B) <-> In q (keys tx) /\ ~ In q (keys root)).
  { intros q. unfold B. rewrite (In_keys_filter tx g). unfold g. rewrite negb_true_iff. split; intros [H1 H2]; split; auto.
    - intros Hin. apply mt_has_In in Hin. congruence.
    - destruct (mt_has root q) eqn:E; [|reflexivity]. apply mt_has_In in E. contradiction. }
  assert (Hnode : forall q, mt_node (A ++ B) q =
            match mt_node root q with Some i => Some (merge_info tx q i) | None => mt_node tx q end).
  { intros q. rewrite mt_node_app. unfold A. rewrite mt_node_map_info. destruct (mt_node root q) as [i|] eqn:En; [reflexivity|].
    cbn. unfold B. rewrite (mt_node_filter_keys tx g). unfold g, mt_has. rewrite En. reflexivity. }
  assert (Hkeys : forall q, In q (keys (A ++ B)) <-> In q (keys root) \/ In q (keys tx)).
  { intros q. rewrite keys_app, in_app_iff, HkA, HkB. split; [tauto|].
    intros [H|H]; [left; exact H|]. destruct (mt_has root q) eqn:E.
    - left. apply mt_has_In. exact E.
    - right. split; [exact H|]. intros Hin. apply mt_has_In in Hin. congruence. }
  split.
  - unfold mt_wf. split.
    + rewrite keys_app. apply NoDup_app_disjoint.
      * rewrite HkA. exact Rnd.
      * apply (NoDup_filter_keys tx g). exact Tnd.
      * intros x Hx Hb. rewrite HkA in Hx. apply HkB in Hb. tauto.
    + split; [apply Hkeys; left; exact Rroot|]. split.
      * intros q Hq p Hp. apply Hkeys in Hq. apply Hkeys. destruct Hq as [Hq|Hq]; [left; eapply Rcl; eauto|right; eapply Tcl; eauto].
      * intros q i' Hn Hc r Hr. rewrite Hnode in Hn. apply Hkeys in Hr.
        destruct (is_child q r) eqn:Ec; [exfalso|reflexivity].
        destruct (mt_node root q) as [i|] eqn:En.
        -- inversion Hn; subst i'. unfold merge_info in Hc.
           assert (Hci : chnil i = true /\ (forall ti, mt_node tx q = Some ti -> (0 <? mt_nchildren tx q) = false)).
           { destruct (mt_node tx q) as [ti|] eqn:Et; [|split; [exact Hc|intros; discriminate]].
             destruct (0 <? mt_nchildren tx q) eqn:E0; [cbn in Hc; discriminate|].
             split; [destruct (mw ti); exact Hc|intros; reflexivity]. }
           destruct Hci as [Hci Htx]. destruct Hr as [Hr|Hr].
           ++ rewrite (Rch q i En Hci r Hr) in Ec. discriminate.
           ++ assert (Hq : In q (keys tx)) by (eapply Tcl; [exact Hr|apply is_child_prefix; exact Ec]).
              apply mt_has_In in Hq. unfold mt_has in Hq. destruct (mt_node tx q) as [ti|] eqn:Et; [|discriminate].
              specialize (Htx ti eq_refl). apply Nat.ltb_ge in Htx.
              assert (Hz : (mt_nchildren tx q =? 0) = true) by (apply Nat.eqb_eq; lia).
              rewrite (proj1 (nchildren_zero tx q) Hz r Hr) in Ec. discriminate.
        -- destruct Hr as [Hr|Hr].
           ++ assert (Hq : In q (keys root)) by (eapply Rcl; [exact Hr|apply is_child_prefix; exact Ec]).
              apply mt_node_none in En. contradiction.
           ++ rewrite (Tch q i' Hn Hc r Hr) in Ec. discriminate.
  - intros q. unfold mt_lookup. rewrite Hnode. destruct (mt_node root q) as [i|] eqn:En.
    + unfold merge_info. destruct (mt_node tx q) as [ti|] eqn:Et; [|reflexivity].
      destruct (0 <? mt_nchildren tx q); destruct (mw ti) as [w|] eqn:Ew; unfold info_cand; cbn [mw mv]; rewrite ?Ew; reflexivity.
    + destruct (mt_node tx q) as [ti|]; [|reflexivity]. destruct (info_cand ti); reflexivity.
Qed.

(* ---------------- the specification's finite map ---------------- *)
Definition ekeys (e : entries) : list name := map fst e.

Lemma sp_lookup_In e : NoDup (ekeys e) -> forall q c, In (q, c) e <-> sp_lookup e q = Some c.
Proof.
  induction e as [|[r d] e IH]; intros Hnd q c; cbn; [split; [intros []|discriminate]|].
  cbn in Hnd. inversion Hnd as [|? ? Hn Hd]; subst.
  destruct (name_eqb r q) eqn:E.
  - apply name_eqb_spec in E. subst r. split.
    + intros [H|H]; [inversion H; reflexivity|]. exfalso. apply Hn. apply in_map_iff. exists (q, c). auto.
    + intros H. inversion H. left. reflexivity.
  - rewrite <- (IH Hd). split; [intros [H|H]; [inversion H; subst; rewrite name_eqb_refl in E; discriminate|exact H]|auto].
Qed.

Lemma sp_lookup_filter e (g : name -> bool) q :
  sp_lookup (filter (fun qc => g (fst qc)) e) q = if g q then sp_lookup e q else None.
Proof.
  induction e as [|[r d] e IH]; cbn; [destruct (g q); reflexivity|].
  destruct (g r) eqn:Eg; cbn; destruct (name_eqb r q) eqn:E; try exact IH.
  - apply name_eqb_spec in E. subst. rewrite Eg. reflexivity.
  - apply name_eqb_spec in E. subst. rewrite IH, Eg. reflexivity.
Qed.

Lemma NoDup_efilter e (g : name -> bool) : NoDup (ekeys e) -> NoDup (ekeys (filter (fun qc => g (fst qc)) e)).
Proof.
  induction e as [|[r d] e IH]; intros H; cbn; [constructor|]. cbn in H. inversion H as [|? ? Hn Hd]; subst.
  destruct (g r); cbn; [|apply IH; exact Hd]. constructor; [|apply IH; exact Hd].
  intros Hin. apply Hn. unfold ekeys in *. apply in_map_iff in Hin. destruct Hin as [[a b] [E Hin]]. cbn in E. subst a.
  apply filter_In in Hin. apply in_map_iff. exists (r, b). split; [reflexivity|apply Hin].
Qed.

Lemma sp_put_spec e nm ver w : NoDup (ekeys e) ->
  NoDup (ekeys (sp_put e nm ver w)) /\
  forall q, sp_lookup (sp_put e nm ver w) q = if name_eqb q nm then Some (ver, w) else sp_lookup e q.
Proof.
  intros Hnd. unfold sp_put. split.
  - cbn. constructor; [|apply (NoDup_efilter e (fun k => negb (name_eqb k nm))); exact Hnd].
    intros Hin. unfold ekeys in Hin. apply in_map_iff in Hin. destruct Hin as [[a b] [E Hin]]. cbn in E. subst a.
    apply filter_In in Hin. destruct Hin as [_ Hin]. cbn in Hin. rewrite name_eqb_refl in Hin. discriminate.
  - intros q. cbn. rewrite (name_eqb_sym q nm). destruct (name_eqb nm q) eqn:E; [reflexivity|].
    rewrite (sp_lookup_filter e (fun k => negb (name_eqb k nm))). rewrite (name_eqb_sym q nm), E. reflexivity.
Qed.

Lemma sp_remove_spec e nm p : NoDup (ekeys e) ->
  NoDup (ekeys (sp_remove e nm p)) /\
  forall q, sp_lookup (sp_remove e nm p) q = if (if p then is_prefix nm q else name_eqb q nm) then None else sp_lookup e q.
Proof.
  intros Hnd. unfold sp_remove.
  set (g := fun k => negb (if p then is_prefix nm k else name_eqb k nm)).
  split; [apply (NoDup_efilter e g); exact Hnd|].
  intros q. rewrite (sp_lookup_filter e g). unfold g. destruct (if p then is_prefix nm q else name_eqb q nm); reflexivity.
Qed.

(* the last Put of a name among the buffered ones of a transaction *)
Definition last_put (l : list (name * cand)) (q : name) : option cand :=
  fold_left (fun acc p => if name_eqb (fst p) q then Some (snd p) else acc) l None.

Lemma last_put_acc l q : forall acc,
  fold_left (fun acc p => if name_eqb (fst p) q then Some (snd p) else acc) l acc =
  match last_put l q with Some c => Some c | None => acc end.
Proof.
  unfold last_put. induction l as [|p l IH]; intros acc; [reflexivity|]. cbn [fold_left].
  rewrite IH. rewrite (IH (if name_eqb (fst p) q then Some (snd p) else None)).
  destruct (fold_left _ l None); [reflexivity|]. destruct (name_eqb (fst p) q); reflexivity.
Qed.

Lemma last_put_snoc l p q : last_put (l ++ [p]) q = if name_eqb (fst p) q then Some (snd p) else last_put l q.
Proof. unfold last_put. rewrite fold_left_app. reflexivity. Qed.

Lemma commit_lookup : forall l e, NoDup (ekeys e) ->
  let e' := fold_left (fun e p => sp_put e (fst p) (fst (snd p)) (snd (snd p))) l e in
  NoDup (ekeys e') /\ forall q, sp_lookup e' q = match last_put l q with Some c => Some c | None => sp_lookup e q end.
Proof.
  induction l as [|[nm [v w]] l IH]; intros e Hnd; cbn [fold_left].
  - split; [exact Hnd|]. intros q. reflexivity.
  - destruct (sp_put_spec e nm v w Hnd) as [Hnd1 Hl1]. destruct (IH _ Hnd1) as [Hnd2 Hl2]. cbv zeta in *. cbn [fst snd] in *.
    split; [exact Hnd2|]. intros q. rewrite Hl2, Hl1. unfold last_put at 2. cbn [fold_left fst snd].
    rewrite last_put_acc. destruct (last_put l q); [reflexivity|]. rewrite (name_eqb_sym q nm). destruct (name_eqb nm q); reflexivity.
Qed.

(* ---------------- Get answers according to the specification ---------------- *)
Lemma mt_cands_In t nm : NoDup (keys t) -> forall c,
  In c (mt_cands t nm) <-> exists q, is_prefix nm q = true /\ mt_lookup t q = Some c.
Proof.
  intros Hnd c. unfold mt_cands. rewrite in_flat_map. split.
  - intros [[q i] [Hin Hc]]. cbn in Hc. destruct (is_prefix nm q) eqn:Ep; [|contradiction].
    destruct (mw i) as [w|] eqn:Ew; [|contradiction]. destruct Hc as [<-|[]].
    exists q. split; [exact Ep|]. unfold mt_lookup. rewrite (In_mt_node t Hnd q i Hin). unfold info_cand. rewrite Ew. reflexivity.
  - intros [q [Ep Hl]]. unfold mt_lookup in Hl. destruct (mt_node t q) as [i|] eqn:En; [|discriminate].
    exists (q, i). split; [apply mt_node_In; exact En|]. cbn. rewrite Ep. unfold info_cand in Hl.
    destruct (mw i); cbn in Hl; [inversion Hl; left; reflexivity|discriminate].
Qed.

Lemma sp_under_In e nm : NoDup (ekeys e) -> forall c,
  In c (sp_under e nm) <-> exists q, is_prefix nm q = true /\ sp_lookup e q = Some c.
Proof.
  intros Hnd c. unfold sp_under. rewrite in_map_iff. split.
  - intros [[q d] [E Hin]]. cbn in E. subst d. apply filter_In in Hin. destruct Hin as [Hin Hp]. cbn in Hp.
    exists q. split; [exact Hp|]. apply (sp_lookup_In e Hnd). exact Hin.
  - intros [q [Hp Hl]]. exists (q, c). split; [reflexivity|]. apply filter_In. split; [apply (sp_lookup_In e Hnd); exact Hl|exact Hp].
Qed.

Section Order.
Variable order : list cand -> list cand.
Hypothesis order_perm : forall l, Permutation (order l) l.

Theorem mt_get_ok t e nm p : mt_wf t -> NoDup (ekeys e) -> (forall q, mt_lookup t q = sp_lookup e q) ->
  spec_get_ok e nm p (mt_get order t nm p) = true.
Proof.
  intros (Hnd & Hroot & Hcl & Hch) Hne Hl. unfold spec_get_ok, mt_get.
  pose proof (Hl nm) as Hnm. unfold mt_lookup in Hnm.
  destruct (sp_lookup e nm) as [c|] eqn:Es.
  - destruct p; [reflexivity|]. destruct (mt_node t nm) as [i|]; [|discriminate].
    unfold info_cand in Hnm. destruct (mw i) as [w|]; cbn in Hnm; [|discriminate]. inversion Hnm; subst c. cbn.
    apply bytes_eqb_spec. reflexivity.
  - assert (Hset : forall c, In c (mt_cands t nm) <-> In c (sp_under e nm)).
    { intros c. rewrite (mt_cands_In t nm Hnd), (sp_under_In e nm Hne). split; intros [q [Hp Hq]]; exists q; split; auto; congruence. }
    destruct (mt_node t nm) as [i|] eqn:En.
    + unfold info_cand in Hnm. destruct (mw i) as [w|]; cbn in Hnm; [discriminate|].
      destruct p; [|reflexivity].
      pose proof (fold_pick_spec (order (mt_cands t nm)) None) as Hf.
      destruct (fold_left pick_newest (order (mt_cands t nm)) None) as [c|]; cbn [option_map].
      * destruct Hf as ([Hin|E] & Hmax & _); [|discriminate].
        assert (Hc : In c (sp_under e nm)) by (apply Hset; eapply Permutation_in; [apply order_perm|exact Hin]).
        assert (Hm : forall c', In c' (sp_under e nm) -> (fst c' <= fst c)%N).
        { intros c' Hc'. apply Hmax. eapply Permutation_in; [symmetry; apply order_perm|]. apply Hset. exact Hc'. }
        destruct (sp_under e nm) as [|x l] eqn:Eu; [contradiction|]. apply newest_set_spec; assumption.
      * destruct Hf as [_ E]. destruct (sp_under e nm) as [|x l] eqn:Eu; [reflexivity|exfalso].
        assert (Hx : In x (mt_cands t nm)) by (apply Hset; left; reflexivity).
        assert (Hx' : In x (order (mt_cands t nm))) by (eapply Permutation_in; [symmetry; apply order_perm|exact Hx]).
        rewrite E in Hx'. contradiction.
    + (* no node at nm: by prefix-closedness nothing is stored below it *)
      destruct p; [|reflexivity].
      destruct (sp_under e nm) as [|x l] eqn:Eu; [reflexivity|exfalso].
      assert (Hx : In x (sp_under e nm)) by (rewrite Eu; left; reflexivity).
      apply (sp_under_In e nm Hne) in Hx. destruct Hx as [q [Hp Hq]]. rewrite <- Hl in Hq.
      unfold mt_lookup in Hq. destruct (mt_node t q) as [j|] eqn:Ej; [|discriminate].
      apply mt_node_none in En. apply En. eapply Hcl; [|exact Hp]. apply mt_has_In. unfold mt_has. rewrite Ej. reflexivity.
Qed.

(* ---------------- histories ---------------- *)
(* the API is used as documented: Commit/Rollback only inside a transaction, no nested Begin *)
Fixpoint brackets (intx : bool) (ops : list sop) : Prop :=
  match ops with
  | [] => True
  | SBegin :: r => intx = false /\ brackets true r
  | (SCommit | SRollback) :: r => intx = true /\ brackets false r
  | _ :: r => brackets intx r
  end.

Definition mem_rel (ms : mstore) (ss : spec_state) : Prop :=
  mt_wf (ms_root ms) /\ NoDup (ekeys (ss_e ss)) /\ (forall q, mt_lookup (ms_root ms) q = sp_lookup (ss_e ss) q) /\
  match ms_tx ms, ss_tx ss with
  | None, None => True
  | Some tx, Some l => mt_wf tx /\ forall q, mt_lookup tx q = last_put l q
  | _, _ => False
  end.

Lemma mem_rel_init : mem_rel ms_init ss_init.
Proof.
  unfold mem_rel. cbn. split; [apply mt_wf_init|]. split; [constructor|]. split; [|exact I].
  intros q. unfold mt_lookup. cbn. destruct q; reflexivity.
Qed.

Definition in_tx (ms : mstore) : bool := match ms_tx ms with Some _ => true | None => false end.

Lemma mem_rel_step ms ss o ops : mem_rel ms ss -> brackets (in_tx ms) (o :: ops) ->
  mem_rel (fst (ms_step order ms o)) (sp_step ss o) /\ brackets (in_tx (fst (ms_step order ms o))) ops /\
  (forall nm p, o = SGet nm p -> snd (ms_step order ms o) = SGot (mt_get order (ms_root ms) nm p)).
Proof.
  intros (Hwf & Hne & Hl & Htx) Hb. destruct ms as [root tx]. destruct ss as [e stx]. cbn [ms_root ms_tx ss_e ss_tx in_tx] in *.
  destruct o as [nm ver w|nm p|nm p| | |]; cbn [ms_step sp_step brackets] in *.
  - (* Put *)
    destruct tx as [tx|]; destruct stx as [l|]; try contradiction; cbn [fst snd ms_root ms_tx in_tx].
    + destruct Htx as [Hwtx Hltx]. destruct (mt_insert_spec nm ver w tx Hwtx) as [H1 H2].
      split; [|split; [exact Hb|intros; discriminate]]. unfold mem_rel. cbn [ms_root ms_tx ss_e ss_tx fst snd].
      split; [exact Hwf|]. split; [exact Hne|]. split; [exact Hl|]. split; [exact H1|].
      intros q. rewrite H2, last_put_snoc. cbn [fst snd]. rewrite (name_eqb_sym q nm). destruct (name_eqb nm q); [reflexivity|apply Hltx].
    + destruct (mt_insert_spec nm ver w root Hwf) as [H1 H2]. destruct (sp_put_spec e nm ver w Hne) as [H3 H4].
      split; [|split; [exact Hb|intros; discriminate]]. unfold mem_rel. cbn [ms_root ms_tx ss_e ss_tx fst snd].
      split; [exact H1|]. split; [exact H3|]. split; [|exact I].
      intros q. rewrite H2, H4, Hl. reflexivity.
  - (* Get *)
    split; [unfold mem_rel; cbn [ms_root ms_tx ss_e ss_tx fst snd]; split; [exact Hwf|split; [exact Hne|split; [exact Hl|exact Htx]]]|]. split; [exact Hb|]. intros nm' p' E. inversion E. reflexivity.
  - (* Remove *)
    destruct (mt_remove_spec nm p root Hwf) as [H1 H2]. destruct (sp_remove_spec e nm p Hne) as [H3 H4].
    split; [|split; [exact Hb|intros; discriminate]]. unfold mem_rel. cbn [ms_root ms_tx ss_e ss_tx fst snd]. split; [exact H1|]. split; [exact H3|]. split; [|exact Htx].
    intros q. rewrite H2, H4, Hl. reflexivity.
  - (* Begin *)
    destruct Hb as [Hf Hb]. destruct tx as [tx|]; [discriminate|]. destruct stx; [contradiction|]. cbn [fst snd ms_root ms_tx in_tx].
    split; [|split; [exact Hb|intros; discriminate]]. unfold mem_rel. cbn [ms_root ms_tx ss_e ss_tx fst snd].
    split; [exact Hwf|]. split; [exact Hne|]. split; [exact Hl|]. split; [apply mt_wf_init|].
    intros q. unfold mt_lookup, last_put. cbn. destruct q; reflexivity.
  - (* Commit *)
    destruct Hb as [Hf Hb]. destruct tx as [tx|]; [|discriminate]. destruct stx as [l|]; [|contradiction]. cbn.
    destruct Htx as [Hwtx Hltx]. destruct (mt_merge_spec root tx Hwf Hwtx) as [H1 H2].
    destruct (commit_lookup l e Hne) as [H3 H4]. cbv zeta in *.
    split; [|split; [exact Hb|intros; discriminate]]. unfold mem_rel. cbn [ms_root ms_tx ss_e ss_tx fst snd]. split; [exact H1|]. split; [exact H3|]. split; [|exact I].
    intros q. rewrite H2, H4, Hltx, Hl. reflexivity.
  - (* Rollback *)
    destruct Hb as [Hf Hb]. destruct tx as [tx|]; [|discriminate]. destruct stx as [l|]; [|contradiction]. cbn.
    split; [|split; [exact Hb|intros; discriminate]]. unfold mem_rel. cbn [ms_root ms_tx ss_e ss_tx fst snd].
    split; [exact Hwf|]. split; [exact Hne|]. split; [exact Hl|exact I].
Qed.

Definition run_mem (ops : list sop) : mstore := fold_left (fun s o => fst (ms_step order s o)) ops ms_init.
Definition run_spec (ops : list sop) : spec_state := fold_left sp_step ops ss_init.

Lemma mem_rel_run : forall ops ms ss, mem_rel ms ss -> brackets (in_tx ms) ops ->
  mem_rel (fold_left (fun s o => fst (ms_step order s o)) ops ms) (fold_left sp_step ops ss).
Proof.
  induction ops as [|o ops IH]; intros ms ss Hr Hb; [exact Hr|]. cbn [fold_left].
  destruct (mem_rel_step ms ss o ops Hr Hb) as (H1 & H2 & _). apply IH; assumption.
Qed.

(* newest_version_mem / removed_not_served (memory store): after ANY well-bracketed history, every Get answers as the
   finite-map specification demands, for every iteration order of the children maps *)
Theorem mem_store_refines ops nm p : brackets false ops ->
  spec_get_ok (ss_e (run_spec ops)) nm p (mt_get order (ms_root (run_mem ops)) nm p) = true.
Proof.
  intros Hb. destruct (mem_rel_run ops ms_init ss_init mem_rel_init Hb) as (H1 & H2 & H3 & _).
  apply mt_get_ok; assumption.
Qed.
End Order.
