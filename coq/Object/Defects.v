(* Object/Defects.v — models of the code as it was on the pinned tree where it violated C15, each with the refuting
   witness (found by the checks and replayed on the real code, see docs/C15.md). The defects are repaired by `fix:`
   commits in /repo; the models in ObjSeg/Store/Fetch follow the repaired code. *)
From Object Require Import ObjSeg Store Fetch.
Open Scope nat_scope.

(* D1. Produce built every name with append(args.Name, ...). `spare` = cap(args.Name) - len(args.Name).
   basename := append(args.Name, ver) shares args.Name's backing array when spare >= 1; the metadata name
   append(args.Name, kw, ver, seg0) is written in place when spare >= 3 and overwrites basename's last component
   with 32=metadata before basename is used for MetaData.Name and for the return value. *)
Definition produce_ret_prefix (nm : name) (ver : N) (spare : nat) : name :=
  if 3 <=? spare then nm ++ [kw_metadata] else nm ++ [ver_comp ver].

Lemma produce_alias_refuted :
  exists nm ver spare, produce_ret_prefix nm ver spare <> nm ++ [ver_comp ver].
Proof. exists [mkc 8%N [97%N]], 7%N, 3. vm_compute. discriminate. Qed.

(* D2. BoltStore.Get(prefix): `maxVer` was never assigned, so every entry with version > 0 replaced the answer: the last
   key of the scan won, and a version-0 entry was never returned. *)
Fixpoint b_scan_old (iter : N) (key : bytes) (cur : bdb) (best : option bytes) : option bytes :=
  match cur with
  | [] => best
  | (k, v) :: r =>
      if has_prefix_bytes key k then
        let iter' := (iter - 1)%N in
        if (iter' <=? 0)%N then best
        else if (length v <? 8) then b_scan_old iter' key r best
        else b_scan_old iter' key r (if (0 <? be_val (firstn 8 v))%N then Some (skipn 8 v) else best)
      else best
  end.
Definition b_get_prefix_old (cap : N) (db : bdb) (nm : name) : option bytes :=
  b_scan_old cap (name_inner nm) (b_seek (name_inner nm) db) None.

Definition d2_db : bdb :=
  b_put (name_inner [mkc 8%N [97%N]; mkc 8%N [99%N]]) (b_value 3 [3%N])
        (b_put (name_inner [mkc 8%N [97%N]; mkc 8%N [98%N]]) (b_value 5 [5%N]) []).
Lemma bolt_prefix_refuted :
  b_get_prefix_old boltIterCap d2_db [mkc 8%N [97%N]] = Some [3%N] /\      (* /a/c, version 3 *)
  b_get boltIterCap d2_db [mkc 8%N [97%N]] true = Some [5%N].               (* the repaired code: /a/b, version 5 *)
Proof. split; vm_compute; reflexivity. Qed.

Lemma bolt_version0_refuted :
  b_get_prefix_old boltIterCap (b_put (name_inner [mkc 8%N [97%N]; ver_comp 0%N]) (b_value 0 [7%N]) []) [mkc 8%N [97%N]] = None.
Proof. vm_compute. reflexivity. Qed.

(* the scan cap that is still there (known finding): with cap = 4 the fourth key is not looked at *)
Lemma bolt_scan_cap_refuted :
  let db := fold_right (fun v d => b_put (name_inner [mkc 8%N [97%N]; ver_comp v]) (b_value v [v]) d) [] [1;2;3;4]%N in
  b_get 4 db [mkc 8%N [97%N]] true = Some [3%N].
Proof. vm_compute. reflexivity. Qed.

(* D3. memoryStoreNode.findNewest compared `cl.version > known.version` starting from the wireless node itself
   (version 0): an entry of version 0 never won. *)
Definition pick_newest_old (known : cand) (c : cand) : cand := if (fst known <? fst c)%N then c else known.
Definition mt_get_prefix_old (t : mtree) (nm : name) : option bytes :=
  match mt_node t nm with
  | None => None
  | Some i => match mw i with
              | Some w => Some w
              | None => let r := fold_left pick_newest_old (mt_cands t nm) (0%N, []) in
                        match snd r with [] => None | w => Some w end
              end
  end.
Lemma mem_version0_refuted :
  let t := mt_insert [mkc 8%N [97%N]; ver_comp 0%N] 0 [7%N] mt_init in
  mt_get_prefix_old t [mkc 8%N [97%N]] = None /\ mt_get id_order t [mkc 8%N [97%N]] true = Some [7%N].
Proof. split; vm_compute; reflexivity. Qed.

(* D4. rrSegFetcher.doCheck removed completed streams INSIDE the round-robin loop. If the removed stream was the one
   remembered as `first`, the full-circle test could never fire again. The loop, as it was:
     for { state = next(); if state == nil return; if first == nil {first = state} else if state == first return;
           if state.complete { remove(state); continue }; if waiting_or_done(state) continue; break }           *)
Inductive scan_result := Picked (sid : nat) | NoWork | OutOfFuel.
Fixpoint scan_old (fuel : nat) (complete waiting : nat -> bool) (strs : list nat) (rr : nat) (first : option nat)
  : scan_result :=
  match fuel with
  | O => OutOfFuel
  | S f =>
      match strs with
      | [] => NoWork
      | _ =>
        let rr' := (rr + 1) mod length strs in
        let st := nth rr' strs 0 in
        match first with
        | Some fs => if fs =? st then NoWork
                     else if complete st then scan_old f complete waiting (remove_first st strs) rr' first
                     else if waiting st then scan_old f complete waiting strs rr' first
                     else Picked st
        | None => if complete st then scan_old f complete waiting (remove_first st strs) rr' (Some st)
                  else if waiting st then scan_old f complete waiting strs rr' (Some st)
                  else Picked st
        end
      end
  end.
(* streams [0;1], rrIndex 0; stream 1 has failed (complete), stream 0 waits for its first segment: never returns *)
Lemma docheck_loop_refuted : forall fuel,
  scan_old fuel (fun s => s =? 1) (fun s => s =? 0) [0; 1] 0 None = OutOfFuel.
Proof.
  assert (H : forall fuel, scan_old fuel (fun s => s =? 1) (fun s => s =? 0) [0] 0 (Some 1) = OutOfFuel).
  { induction fuel as [|f IH]; [reflexivity|]. cbn. exact IH. }
  intros [|[|f]]; try reflexivity. cbn. apply H.
Qed.

(* D5. doCheck built each Interest name with append(state.fetchName, seg). With spare capacity in fetchName all
   names queued in outpipe during one doCheck share the slot of the segment component: when they are finally
   encoded (expressRImpl runs after doCheck returns) they all carry the LAST segment number. *)
Definition queued_names_old (spare : nat) (fetch : name) (segs : list N) : list name :=
  match spare with
  | O => map (fun s => fetch ++ [seg_comp s]) segs
  | _ => map (fun _ => fetch ++ [seg_comp (last segs 0%N)]) segs
  end.
Lemma consumer_alias_refuted :
  queued_names_old 1 [mkc 8%N [97%N]] [1;2;3]%N <> map (fun s => [mkc 8%N [97%N]] ++ [seg_comp s]) [1;2;3]%N.
Proof. vm_compute. discriminate. Qed.

(* D6. MemoryStore keyed its children by Component.String(), which prints numeric components in decimal whatever their
   length (names finding comp_to_str_injective_refuted): 54=%00%05 and v=5 got the same key. *)
Lemma string_key_refuted : comp_to_str (mkc 54%N [0;5]%N) = comp_to_str (mkc 54%N [5]%N) /\ mkc 54%N [0;5]%N <> mkc 54%N [5]%N.
Proof. split; [vm_compute; reflexivity|discriminate]. Qed.
