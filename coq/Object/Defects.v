(* Object/Defects.v — models of the code as it was on the pinned tree where it violated C15, with the refuting witness.
   Each witness was replayed on the real code (docs/C15.md); the defects are repaired by `fix:` commits in /repo and the
   models in ObjSeg/Store/Fetch follow the repaired code. *)
From Object Require Import ObjSeg.
Open Scope nat_scope.

(* D1. Produce (before the fix) built every name with append(args.Name, ...). `spare` = cap(args.Name) - len(args.Name).
   basename := append(args.Name, ver) shares args.Name's backing array when spare >= 1; the metadata name
   append(args.Name, kw, ver, seg0) is written in place when spare >= 3 and overwrites basename's last component
   with 32=metadata before basename is used for MetaData.Name and for the return value. *)
Definition produce_ret_prefix (nm : name) (ver : N) (spare : nat) : name :=
  if 3 <=? spare then nm ++ [kw_metadata] else nm ++ [ver_comp ver].

Lemma produce_alias_refuted :
  exists nm ver spare, produce_ret_prefix nm ver spare <> nm ++ [ver_comp ver].
Proof. exists [mkc 8%N [97%N]], 7%N, 3. vm_compute. discriminate. Qed.
