(* Object/StoreThm.v — the store statements of C15 drawn from the refinement theorems of StoreMem / StoreBolt. *)
From Object Require Import Store StoreSpec StoreMem StoreBolt.
From Coq Require Import Lia Permutation.
From Names Require Import Order.
Open Scope N_scope.

(* what the oracle spec_get_ok says for a prefix query with nothing stored under exactly that name *)
Lemma newest_meaning e nm res : spec_get_ok e nm true res = true -> sp_lookup e nm = None ->
  (res = None <-> sp_under e nm = []) /\
  (forall w, res = Some w -> exists c, In c (sp_under e nm) /\ snd c = w /\ forall c', In c' (sp_under e nm) -> fst c' <= fst c).
Proof.
  unfold spec_get_ok. intros H El. rewrite El in H. split.
  - destruct (sp_under e nm) as [|x l]; destruct res; try discriminate; split; auto; discriminate.
  - intros w ->. destruct (sp_under e nm) as [|x l] eqn:Eu; [discriminate|]. rewrite <- Eu in *.
    unfold mem_bytes, newest_set in H. apply existsb_exists in H. destruct H as [w' [Hin Hw]]. apply bytes_eqb_spec in Hw. subst w'.
    apply in_map_iff in Hin. destruct Hin as [c [Hs Hc]]. apply filter_In in Hc. destruct Hc as [Hc Hm]. apply N.eqb_eq in Hm.
    exists c. split; [exact Hc|]. split; [exact Hs|]. intros c' Hc'. rewrite Hm. unfold max_ver.
    destruct (max_ver_acc (map fst (sp_under e nm)) 0) as (_ & H2 & _). apply H2. apply in_map. exact Hc'.
Qed.

Lemma spec_get_none e q p res : sp_lookup e q = None -> sp_under e q = [] -> spec_get_ok e q p res = true -> res = None.
Proof.
  unfold spec_get_ok. intros El Eu H. rewrite El, Eu in H. destruct p; destruct res; try discriminate; reflexivity.
Qed.

(* the specification after a Remove: nothing is stored under the removed name / prefix *)
Lemma sp_after_remove_prefix e nm q : NoDup (ekeys e) -> is_prefix nm q = true ->
  sp_lookup (sp_remove e nm true) q = None /\ sp_under (sp_remove e nm true) q = [].
Proof.
  intros Hnd Hp. destruct (sp_remove_spec e nm true Hnd) as [Hnd' Hl]. split; [rewrite Hl, Hp; reflexivity|].
  destruct (sp_under (sp_remove e nm true) q) as [|c l] eqn:Eu; [reflexivity|exfalso].
  assert (Hc : In c (sp_under (sp_remove e nm true) q)) by (rewrite Eu; left; reflexivity).
  apply (sp_under_In _ q Hnd') in Hc. destruct Hc as [r [Hr Hlr]]. rewrite Hl in Hlr.
  rewrite (is_prefix_trans nm q r Hp Hr) in Hlr. discriminate.
Qed.

Lemma run_spec_app ops o : fold_left sp_step (ops ++ [o]) ss_init = sp_step (fold_left sp_step ops ss_init) o.
Proof. rewrite fold_left_app. reflexivity. Qed.

Lemma brackets_app : forall ops b o, brackets b (ops ++ [o]) -> exists b', brackets b ops /\ brackets b' [o].
Proof.
  induction ops as [|x ops IH]; intros b o H; [exists b; split; [exact I|exact H]|].
  cbn [app] in H. destruct x; cbn [brackets] in *;
    try (destruct (IH _ _ H) as [b' [H1 H2]]; exists b'; auto);
    try (destruct H as [Hb H]; destruct (IH _ _ H) as [b' [H1 H2]]; exists b'; auto).
Qed.

Section Mem.
Variable order : list cand -> list cand.
Hypothesis order_perm : forall l, Permutation (order l) l.

(* newest_version_mem: whatever the history (Puts, Removes, transactions) and whatever order Go iterates the children
   maps in, a prefix query on the memory store with nothing stored under exactly that name returns nothing iff nothing is
   stored under the prefix, and otherwise a wire whose version is maximal among everything stored under it; an exact
   query returns exactly what is stored under that name *)
Theorem newest_version_mem ops nm p : brackets false ops ->
  spec_get_ok (ss_e (run_spec ops)) nm p (mt_get order (ms_root (run_mem order ops)) nm p) = true.
Proof. exact (mem_store_refines order order_perm ops nm p). Qed.

(* removed_not_served (memory): right after Remove(nm, prefix) no name under nm is served, by exact or by prefix query;
   right after Remove(nm, exact) that name is not served by an exact query *)
Theorem removed_not_served_mem ops nm : brackets false (ops ++ [SRemove nm true]) ->
  forall q p, is_prefix nm q = true -> mt_get order (ms_root (run_mem order (ops ++ [SRemove nm true]))) q p = None.
Proof.
  intros Hb q p Hq. pose proof (mem_store_refines order order_perm _ q p Hb) as H.
  unfold run_spec in H. rewrite run_spec_app in H. cbn [sp_step ss_e] in H.
  destruct (brackets_app _ _ _ Hb) as [b' [Hb1 _]].
  destruct (mem_rel_run order ops ms_init ss_init (mem_rel_init) Hb1) as (_ & Hnd & _).
  destruct (sp_after_remove_prefix _ nm q Hnd Hq) as [H1 H2].
  eapply spec_get_none; eauto.
Qed.

Theorem removed_exact_not_served_mem ops nm : brackets false (ops ++ [SRemove nm false]) ->
  mt_get order (ms_root (run_mem order (ops ++ [SRemove nm false]))) nm false = None.
Proof.
  intros Hb. pose proof (mem_store_refines order order_perm _ nm false Hb) as H.
  unfold run_spec in H. rewrite run_spec_app in H. cbn [sp_step ss_e] in H.
  destruct (brackets_app _ _ _ Hb) as [b' [Hb1 _]].
  destruct (mem_rel_run order ops ms_init ss_init (mem_rel_init) Hb1) as (_ & Hnd & _).
  destruct (sp_remove_spec _ nm false Hnd) as [_ Hl]. unfold spec_get_ok in H. rewrite Hl, name_eqb_refl in H.
  destruct (mt_get order _ nm false); [discriminate|reflexivity].
Qed.
End Mem.

Lemma bbrackets_app : forall ops b o, bbrackets b (ops ++ [o]) -> exists b', bbrackets b ops /\ bbrackets b' [o].
Proof.
  induction ops as [|x ops IH]; intros b o H; [exists b; split; [exact I|exact H]|].
  cbn [app] in H. destruct x; cbn [bbrackets] in *;
    try (destruct (IH _ _ H) as [b' [H1 H2]]; exists b'; auto);
    try (destruct H as [Hb H]; destruct (IH _ _ H) as [b' [H1 H2]]; exists b'; auto).
Qed.

(* newest_version_bolt: the same for the on-disk store (bucket = key-sorted list, cursor loops as written), for names
   that are encodable, 64-bit versions, and — for prefix queries — fewer than `cap` names stored under the prefix *)
Theorem newest_version_bolt cap ops nm p : bbrackets false ops -> Forall op_wf ops -> Forall comp_wf nm ->
  (p = true -> (N.of_nat (spec_scan_len (ss_e (fold_left sp_step ops ss_init)) nm) < cap)) ->
  spec_get_ok (ss_e (fold_left sp_step ops ss_init)) nm p (b_get cap (bs_db (run_bolt cap ops)) nm p) = true.
Proof. exact (bolt_store_refines cap ops nm p). Qed.

Theorem removed_not_served_bolt cap ops nm : 0 < cap -> bbrackets false (ops ++ [SRemove nm true]) ->
  Forall op_wf (ops ++ [SRemove nm true]) ->
  forall q p, Forall comp_wf q -> is_prefix nm q = true ->
  b_get cap (bs_db (run_bolt cap (ops ++ [SRemove nm true]))) q p = None.
Proof.
  intros Hcap Hb Hw q p Hqw Hq.
  destruct (bbrackets_app _ _ _ Hb) as [b' [Hb1 _]].
  assert (Hw1 : Forall op_wf ops) by (apply Forall_app in Hw; apply Hw).
  assert (Hr0 : bolt_rel bs_init ss_init) by (split; [apply b_inv_init|exact I]).
  destruct (bolt_rel_run cap ops bs_init ss_init Hr0 Hb1 Hw1) as ((_ & Hnd & _) & _).
  destruct (sp_after_remove_prefix _ nm q Hnd Hq) as [H1 H2].
  pose proof (bolt_store_refines cap _ q p Hb Hw Hqw) as H.
  rewrite run_spec_app in H. cbn [sp_step ss_e] in H.
  eapply spec_get_none; [exact H1|exact H2|]. apply H.
  intros _. unfold spec_scan_len. rewrite H2. cbn. lia.
Qed.
