(* Object/FetchLive.v — progress of the consumer state machine: in every reachable state in which nothing is queued or
   in flight any more (quiescence), every stream has reported its completion; if moreover no Interest ran out of
   retries (losses within the retry budget) the completion carries no error. Together with FetchSafe this gives
   "completion exactly once, with the complete content" for every schedule. *)
From Object Require Import Fetch FetchStream FetchSafe.
From Coq Require Import Lia Arith PeanoNat ZArith.
Open Scope nat_scope.
Arguments log_chunks : simpl never.
Arguments completions : simpl never.
Ltac splits := repeat match goal with |- _ /\ _ => split end.

(* ---------------- doCheck decomposed: purge, then repeatedly assign one segment ---------------- *)
Definition live_streams (c : client) : list nat :=
  filter (fun sid => negb (s_complete (get_stream c sid))) (f_streams c).
Definition purge (c : client) (rr : nat) : client :=
  mkcl (c_streams c) (live_streams c) rr (f_out c) (c_outpipe c) (c_seginpipe c) (c_segfetch c) (c_segcheck c)
       (c_pending c) (c_nextx c).
Definition bump_w2 (s : stream) : stream :=
  mkst (s_name s) (s_fetch s) (s_hasmeta s) (s_pol s) (s_segcnt s) (s_content s) (s_w0 s) (s_w1 s) (S (s_w2 s))
       (s_complete s) (s_err s) (s_log s) (s_panic s).
Definition assign (c : client) (idx : nat) : client :=
  let strs := live_streams c in
  let sid := nth idx strs 0 in
  let st := get_stream c sid in
  let seg := N.of_nat (s_w2 st) in
  mkcl (upd_nth sid bump_w2 (c_streams c)) strs idx (f_out c + 1)%Z
       (c_outpipe c ++ [mkx sid (SegI seg) (s_fetch st ++ [seg_comp seg]) (N.to_nat segRetries)])
       (c_seginpipe c) (c_segfetch c) (c_segcheck c) (c_pending c) (c_nextx c).

(* an index the round robin may pick: a live stream that is neither waiting for its first segment nor fully requested *)
Definition pickable (c : client) (idx : nat) : Prop :=
  idx < length (live_streams c) /\ waiting_or_done (get_stream c (nth idx (live_streams c) 0)) = false.

Lemma rr_scan_some c strs n : 0 < n -> forall todo idx i, idx < n -> rr_scan c strs n idx todo = Some i ->
  i < n /\ waiting_or_done (get_stream c (nth i strs 0)) = false.
Proof.
  intros Hn. induction todo as [|t IH]; intros idx i Hidx H; cbn in H; [discriminate|].
  destruct (waiting_or_done (get_stream c (nth idx strs 0))) eqn:Hw.
  - eapply IH; [|exact H]. apply Nat.mod_upper_bound. lia.
  - inversion H; subst. auto.
Qed.

(* induction principle: whatever is kept by purge and by assign (at a pickable index) is kept by doCheck *)
Lemma do_check_ind (P : client -> Prop) :
  (forall c rr, P c -> P (purge c rr)) ->
  (forall c idx, P c -> (f_out c < window)%Z -> pickable c idx -> P (assign c idx)) ->
  forall fuel c, P c -> P (do_check fuel c).
Proof.
  intros Hpurge Hassign. induction fuel as [|f IH]; intros c Hc; [exact Hc|].
  cbn [do_check]. destruct (window <=? f_out c)%Z eqn:Hw; [exact Hc|]. apply Z.leb_gt in Hw.
  fold (live_streams c).
  destruct (length (live_streams c)) as [|n'] eqn:Hn.
  - apply (Hpurge c (f_rr c)). exact Hc.
  - destruct (rr_scan c (live_streams c) (S n') ((f_rr c + 1) mod S n') (S n')) as [idx|] eqn:Hscan.
    + apply IH. apply (Hassign c idx Hc Hw).
      assert (Hpos : 0 < S n') by lia.
      assert (Hlt : (f_rr c + 1) mod S n' < S n') by (apply Nat.mod_upper_bound; lia).
      destruct (rr_scan_some c (live_streams c) (S n') Hpos _ _ idx Hlt Hscan) as [H1 H2].
      split; [rewrite Hn; exact H1|exact H2].
    + apply (Hpurge c ((f_rr c + 1) mod S n')). exact Hc.
Qed.

(* ---------------- outstanding = segment Interests queued, expressed or answered-but-unprocessed ---------------- *)
Definition is_seg (x : xargs) : bool := match x_kind x with SegI _ => true | MetaI => false end.
Definition nseg (l : list xargs) : nat := length (filter is_seg l).
Arguments nseg : simpl never.
Definition count_inv (c : client) : Prop :=
  f_out c = Z.of_nat (nseg (c_outpipe c) + nseg (map snd (c_pending c)) + length (c_seginpipe c)).

Lemma nseg_app a b : nseg (a ++ b) = nseg a + nseg b.
Proof. unfold nseg. rewrite filter_app, app_length. reflexivity. Qed.
Lemma nseg_one x : nseg [x] = if is_seg x then 1 else 0.
Proof. unfold nseg. cbn. destruct (is_seg x); reflexivity. Qed.
Lemma nseg_cons x l : nseg (x :: l) = (if is_seg x then 1 else 0) + nseg l.
Proof. unfold nseg. cbn. destruct (is_seg x); reflexivity. Qed.

Lemma take_pending_nseg xid : forall l x rest, take_pending xid l = Some (x, rest) ->
  nseg (map snd l) = (if is_seg x then 1 else 0) + nseg (map snd rest).
Proof.
  induction l as [|[i y] l IH]; intros x rest H; cbn in H; [discriminate|].
  destruct (i =? xid).
  - inversion H; subst. cbn [map snd]. apply nseg_cons.
  - destruct (take_pending xid l) as [[y' r']|] eqn:Ht; [|discriminate]. inversion H; subst.
    cbn [map snd]. rewrite !nseg_cons. rewrite (IH _ _ eq_refl). lia.
Qed.

Lemma count_inv_do_check fuel c : count_inv c -> count_inv (do_check fuel c).
Proof.
  apply do_check_ind; clear.
  - intros c rr H. exact H.
  - intros c idx H _ _. unfold count_inv in *. cbn. rewrite nseg_app, nseg_one. cbn. rewrite H. lia.
Qed.

Lemma count_inv_consume_object c sid : count_inv c -> count_inv (consume_object c sid).
Proof.
  intros H. unfold consume_object. destruct (s_fetch (get_stream c sid)); [exact H|].
  destruct (last_is_version _); [exact H|]. destruct (s_hasmeta _); [exact H|].
  unfold count_inv in *. cbn. rewrite nseg_app, nseg_one. cbn. rewrite H. lia.
Qed.

Lemma count_inv_step c e : count_inv c -> count_inv (step c e).
Proof.
  intros H. destruct e as [nm pol| | | | |xid r]; cbn [step].
  - apply count_inv_consume_object. exact H.
  - destruct (c_outpipe c) as [|x rest] eqn:Ho; [exact H|].
    unfold count_inv in *. cbn. rewrite Ho in H. rewrite nseg_cons in H.
    rewrite map_app, nseg_app. cbn [map snd]. rewrite nseg_one. lia.
  - destruct (c_seginpipe c) as [|[sid r] rest] eqn:Hs; [exact H|].
    assert (Hh : forall c' sid r,
               (f_out c' = Z.of_nat (nseg (c_outpipe c') + nseg (map snd (c_pending c')) + length (c_seginpipe c')) + 1)%Z ->
               count_inv (handle_data c' sid r)).
    { clear. intros c sid r H. unfold handle_data.
      destruct (s_complete _).
      - unfold count_inv. cbn. lia.
      - destruct r as [nm payload fb meta| | | |]; try (unfold count_inv; cbn; lia).
        destruct (handle_data_stream _ _ _ _) as [st' removed]. destruct removed; unfold count_inv; cbn; lia. }
    apply Hh. unfold count_inv in H. cbn. rewrite Hs in H. cbn [length] in H. lia.
  - destruct (c_segfetch c) as [|sid rest]; [exact H|]. exact H.
  - destruct (c_segcheck c) as [|k]; [exact H|]. apply count_inv_do_check. exact H.
  - destruct (take_pending xid (c_pending c)) as [[x rest]|] eqn:Ht; [|exact H].
    pose proof (take_pending_nseg xid _ _ _ Ht) as Hn.
    assert (Hfinal : forall r', count_inv
              (match x_kind x with
               | SegI _ => push_segin (mkcl (c_streams c) (f_streams c) (f_rr c) (f_out c) (c_outpipe c) (c_seginpipe c)
                                            (c_segfetch c) (c_segcheck c) rest (c_nextx c)) (x_sid x) r'
               | MetaI => meta_callback (mkcl (c_streams c) (f_streams c) (f_rr c) (f_out c) (c_outpipe c) (c_seginpipe c)
                                              (c_segfetch c) (c_segcheck c) rest (c_nextx c)) (x_sid x) r'
               end)).
    { intros r'. unfold is_seg in Hn. destruct (x_kind x) as [|kN].
      - unfold meta_callback. destruct r' as [nm payload fb [inner|]| | | |];
          try (unfold count_inv in *; cbn; lia).
        apply count_inv_consume_object. unfold count_inv in *; cbn; lia.
      - unfold count_inv in *. cbn. rewrite app_length. cbn. lia. }
    destruct r as [nm payload fb meta| | | |]; try apply Hfinal.
    destruct (x_retries x) as [|k]; [apply Hfinal|].
    unfold count_inv in *. cbn. rewrite nseg_app, nseg_one. unfold is_seg in *. cbn. destruct (x_kind x); lia.
Qed.

Lemma count_inv_init : count_inv cl_init.
Proof. reflexivity. Qed.

(* ---------------- a check is scheduled whenever a queued stream could use the window ---------------- *)
Definition workable (c : client) (sid : nat) : Prop :=
  s_complete (get_stream c sid) = false /\ waiting_or_done (get_stream c sid) = false.
Definition idle (c : client) : Prop :=
  (window <= f_out c)%Z \/ forall sid, In sid (f_streams c) -> ~ workable c sid.
Definition sched_inv (c : client) : Prop := 0 < c_segcheck c \/ idle c.

Lemma rr_scan_none c strs n : 0 < n -> forall todo idx, idx < n -> rr_scan c strs n idx todo = None ->
  forall j, j < todo -> waiting_or_done (get_stream c (nth ((idx + j) mod n) strs 0)) = true.
Proof.
  intros Hn. induction todo as [|t IH]; intros idx Hidx H j Hj; [lia|].
  cbn in H. destruct (waiting_or_done (get_stream c (nth idx strs 0))) eqn:Hw; [|discriminate].
  destruct j as [|j].
  - rewrite Nat.add_0_r, Nat.mod_small by exact Hidx. exact Hw.
  - assert (Hm : (idx + 1) mod n < n) by (apply Nat.mod_upper_bound; lia).
    specialize (IH _ Hm H j ltac:(lia)).
    rewrite Nat.add_mod_idemp_l in IH by lia.
    replace (idx + S j) with (idx + 1 + j) by lia. exact IH.
Qed.

Lemma rr_scan_none_all c strs n idx : 0 < n -> idx < n -> rr_scan c strs n idx n = None ->
  forall i, i < n -> waiting_or_done (get_stream c (nth i strs 0)) = true.
Proof.
  intros Hn Hidx H i Hi.
  assert (Hm : (i + n - idx) mod n < n) by (apply Nat.mod_upper_bound; lia).
  pose proof (rr_scan_none c strs n Hn n idx Hidx H ((i + n - idx) mod n) Hm) as Hx.
  rewrite Nat.add_mod_idemp_r in Hx by lia.
  replace (idx + (i + n - idx)) with (i + 1 * n) in Hx by lia.
  rewrite Nat.mod_add in Hx by lia. rewrite Nat.mod_small in Hx by exact Hi. exact Hx.
Qed.

Lemma get_stream_purge c rr sid : get_stream (purge c rr) sid = get_stream c sid.
Proof. reflexivity. Qed.

Lemma do_check_idle : forall fuel c, Z.to_nat (window - f_out c) < fuel -> idle (do_check fuel c).
Proof.
  induction fuel as [|f IH]; intros c Hf; [lia|].
  cbn [do_check]. destruct (window <=? f_out c)%Z eqn:Hw.
  - left. apply Z.leb_le. exact Hw.
  - apply Z.leb_gt in Hw. fold (live_streams c).
    destruct (length (live_streams c)) as [|n'] eqn:Hn.
    + right. cbn. intros sid Hin. destruct (live_streams c); [contradiction|discriminate].
    + destruct (rr_scan c (live_streams c) (S n') ((f_rr c + 1) mod S n') (S n')) as [idx|] eqn:Hscan.
      * apply IH. cbn [f_out]. lia.
      * right. cbn. intros sid Hin [_ Hwk].
        destruct (In_nth _ _ 0 Hin) as [i [Hi Hnth]]. rewrite Hn in Hi.
        assert (Hlt : (f_rr c + 1) mod S n' < S n') by (apply Nat.mod_upper_bound; lia).
        assert (Hpos : 0 < S n') by lia.
        pose proof (rr_scan_none_all c (live_streams c) (S n') _ Hpos Hlt Hscan i Hi) as Hx.
        rewrite Hnth in Hx. unfold get_stream in *. cbn in Hwk. congruence.
Qed.

(* b is a, or a that has meanwhile completed *)
Definition stream_le (a b : stream) : Prop :=
  s_complete b = true \/ (s_complete b = s_complete a /\ s_segcnt b = s_segcnt a /\ s_w2 b = s_w2 a).
Lemma stream_le_refl a : stream_le a a.
Proof. right. auto. Qed.

Lemma sched_inv_frame c c' :
  f_streams c' = f_streams c -> c_segcheck c' = c_segcheck c -> f_out c' = f_out c ->
  (forall sid, In sid (f_streams c) -> stream_le (get_stream c sid) (get_stream c' sid)) ->
  sched_inv c -> sched_inv c'.
Proof.
  intros Hf Hk Ho Hle [H|[H|H]]; [left; lia|right; left; lia|].
  right. right. intros sid Hin [Hc Hw]. rewrite Hf in Hin. apply (H sid Hin).
  destruct (Hle sid Hin) as [Hx|(Ha & Hb & Hd)]; [congruence|].
  unfold workable, waiting_or_done in *. rewrite <- Ha, <- Hb, <- Hd. auto.
Qed.

Lemma stream_le_finalize e st : stream_le st (finalize_error e st).
Proof. left. apply finalize_error_complete. Qed.

Lemma get_stream_over c sid (Hs : sid >= nstreams c) : get_stream c sid = dummy_stream.
Proof. unfold get_stream. apply nth_overflow. exact Hs. Qed.

Lemma stream_le_set c sid f j :
  (forall st, stream_le st (f st)) -> stream_le (get_stream c j) (get_stream (set_stream c sid f) j).
Proof.
  intros Hf. destruct (Nat.eq_dec sid j) as [->|Hne].
  - destruct (Nat.lt_ge_cases j (nstreams c)) as [Hlt|Hge].
    + rewrite get_set_stream_same by exact Hlt. apply Hf.
    + rewrite (get_stream_over c) by exact Hge. rewrite get_stream_over by (rewrite nstreams_set_stream; exact Hge).
      apply stream_le_refl.
  - rewrite get_set_stream_other by exact Hne. apply stream_le_refl.
Qed.

Lemma consume_object_frame c sid :
  f_streams (consume_object c sid) = f_streams c /\ c_segcheck (consume_object c sid) = c_segcheck c /\
  f_out (consume_object c sid) = f_out c /\
  (forall j, stream_le (get_stream c j) (get_stream (consume_object c sid) j)).
Proof.
  unfold consume_object. destruct (s_fetch (get_stream c sid)).
  - repeat split; auto. intros j. apply stream_le_set. intros st. apply stream_le_finalize.
  - destruct (last_is_version _); [repeat split; auto; intros; apply stream_le_refl|].
    destruct (s_hasmeta _); [|repeat split; auto; intros; apply stream_le_refl].
    repeat split; auto. intros j. apply stream_le_set. intros st. apply stream_le_finalize.
Qed.

Lemma stream_le_trans a b c0 : stream_le a b -> stream_le b c0 -> stream_le a c0.
Proof.
  intros [H1|(H1 & H2 & H3)] [H4|(H4 & H5 & H6)]; unfold stream_le; auto.
  - left. congruence.
  - right. repeat split; congruence.
Qed.

Lemma queue_check_pos c : 0 < c_segcheck (queue_check c).
Proof. unfold queue_check. cbn [c_segcheck]. destruct (c_segcheck c <? 2) eqn:E; [lia|]. apply Nat.ltb_ge in E. lia. Qed.

Lemma handle_data_segcheck c sid r : c_segcheck (handle_data c sid r) = c_segcheck (queue_check c).
Proof.
  unfold handle_data. cbn. destruct (s_complete _); [reflexivity|].
  destruct r as [nm payload fb meta| | | |]; try reflexivity.
  destruct (handle_data_stream _ _ _ _) as [st' removed]. destruct removed; reflexivity.
Qed.

Lemma check_fuel_enough c : (0 <= f_out c)%Z -> Z.to_nat (window - f_out c) < check_fuel.
Proof. intros H. unfold check_fuel, window. lia. Qed.

Lemma sched_inv_step c e : (0 <= f_out c)%Z ->
  Forall (fun sid => sid < nstreams c) (f_streams c) -> sched_inv c -> sched_inv (step c e).
Proof.
  intros Hout Hfs H. destruct e as [nm pol| | | | |xid r]; cbn [step].
  - (* Consume: the new stream is not in the fetcher's list *)
    set (c1 := mkcl _ _ _ _ _ _ _ _ _ _).
    destruct (consume_object_frame c1 (length (c_streams c))) as (Ha & Hb & Hd & He).
    apply (sched_inv_frame c); try (rewrite ?Ha, ?Hb, ?Hd; reflexivity); [|exact H].
    intros sid Hin. eapply stream_le_trans; [|apply He].
    rewrite Forall_forall in Hfs. specialize (Hfs sid Hin).
    unfold get_stream, c1. cbn. rewrite app_nth1 by exact Hfs. apply stream_le_refl.
  - destruct (c_outpipe c); [exact H|].
    apply (sched_inv_frame c); auto. intros; apply stream_le_refl.
  - destruct (c_seginpipe c) as [|[sid r] rest]; [exact H|].
    left. rewrite handle_data_segcheck. apply queue_check_pos.
  - destruct (c_segfetch c) as [|sid rest]; [exact H|]. left. apply queue_check_pos.
  - destruct (c_segcheck c) as [|k] eqn:Hk; [exact H|].
    right. apply do_check_idle. apply check_fuel_enough. exact Hout.
  - destruct (take_pending xid (c_pending c)) as [[x rest]|]; [|exact H].
    set (c1 := mkcl _ _ _ _ _ _ _ _ rest _).
    assert (H1 : sched_inv c1) by (apply (sched_inv_frame c); auto; intros; apply stream_le_refl).
    assert (Hfinal : forall r', sched_inv (match x_kind x with
                                            | SegI _ => push_segin c1 (x_sid x) r'
                                            | MetaI => meta_callback c1 (x_sid x) r'
                                            end)).
    { intros r'. destruct (x_kind x).
      - unfold meta_callback. destruct r' as [nm payload fb [inner|]| | | |];
          try (apply (sched_inv_frame c1); auto; intros; apply stream_le_set; intros; apply stream_le_finalize).
        set (c2 := set_stream c1 (x_sid x) _).
        destruct (consume_object_frame c2 (x_sid x)) as (Ha & Hb & Hd & He).
        apply (sched_inv_frame c1); try (rewrite ?Ha, ?Hb, ?Hd; reflexivity); [|exact H1].
        intros sid Hin. eapply stream_le_trans; [|apply He].
        apply stream_le_set. intros st. right. cbn. auto.
      - apply (sched_inv_frame c1); auto. intros; apply stream_le_refl. }
    destruct r as [nm payload fb meta| | | |]; try apply Hfinal.
    destruct (x_retries x); [apply Hfinal|].
    apply (sched_inv_frame c1); auto. intros; apply stream_le_refl.
Qed.

(* ---------------- every requested segment is in flight, handled, or the stream is finished ---------------- *)
Section Live.
Variable W : nat -> list bytes.
Hypothesis Hwf : wf_world W.

Definition covers_x (sid k : nat) (x : xargs) : Prop := x_sid x = sid /\ x_kind x = SegI (N.of_nat k).
Definition covers_r (sid k : nat) (sr : nat * result) : Prop :=
  fst sr = sid /\ (is_failure (snd sr) \/ honest_data (W sid) k (snd sr)).
Definition inflight (c : client) (sid k : nat) : Prop :=
  Exists (covers_x sid k) (c_outpipe c) \/ Exists (fun ix => covers_x sid k (snd ix)) (c_pending c) \/
  Exists (covers_r sid k) (c_seginpipe c).
Definition served (c : client) (sid k : nat) : Prop :=
  inflight c sid k \/ handled (W sid) (get_stream c sid) k \/ s_complete (get_stream c sid) = true.
Definition req_inv (c : client) : Prop :=
  forall sid k, sid < nstreams c -> k < s_w2 (get_stream c sid) -> served c sid k.

(* b continues a: same requests, nothing handled is forgotten, completion is kept *)
Definition st_adv (segs : list bytes) (a b : stream) : Prop :=
  s_w2 b = s_w2 a /\ (forall k, handled segs a k -> handled segs b k) /\ (s_complete a = true -> s_complete b = true).
Lemma st_adv_refl segs a : st_adv segs a a.
Proof. unfold st_adv; auto. Qed.
Lemma st_adv_trans segs a b d : st_adv segs a b -> st_adv segs b d -> st_adv segs a d.
Proof. intros (A1 & A2 & A3) (B1 & B2 & B3). unfold st_adv. split; [congruence|]. split; auto. Qed.

Definition st_keep (segs : list bytes) (a b : stream) : Prop :=
  (forall k, handled segs a k -> handled segs b k) /\ (s_complete a = true -> s_complete b = true).
Lemma st_adv_keep segs a b : st_adv segs a b -> st_keep segs a b.
Proof. intros (_ & H1 & H2). split; auto. Qed.

Lemma Exists_incl {A} (P : A -> Prop) l l' : (forall x, In x l -> In x l') -> Exists P l -> Exists P l'.
Proof. intros H Hx. rewrite Exists_exists in *. destruct Hx as [x [Hi Hp]]. exists x. auto. Qed.

Lemma served_mono c c' sid k :
  (forall x, In x (c_outpipe c) -> In x (c_outpipe c')) ->
  (forall x, In x (c_pending c) -> In x (c_pending c')) ->
  (forall x, In x (c_seginpipe c) -> In x (c_seginpipe c')) ->
  st_keep (W sid) (get_stream c sid) (get_stream c' sid) ->
  served c sid k -> served c' sid k.
Proof.
  intros Ho Hp Hs (Hh & Hc) [[H|[H|H]]|[H|H]].
  - left. left. eapply Exists_incl; eauto.
  - left. right. left. eapply Exists_incl; eauto.
  - left. right. right. eapply Exists_incl; eauto.
  - right. left. auto.
  - right. right. auto.
Qed.

(* finalizeError / the callback keep what was handled *)
Lemma finalize_error_adv segs e st : stream_inv segs st -> st_adv segs st (finalize_error e st).
Proof.
  intros Hi. unfold finalize_error. destruct (s_complete st) eqn:Hc; [apply st_adv_refl|].
  set (st1 := mkst _ _ _ _ _ _ _ _ _ true _ _ _).
  assert (Hpre : pre_cb segs st1).
  { pose proof (stream_inv_pre_cb segs st Hi Hc) as (Hp & Hs & Hl & Hcm & _ & _).
    unfold pre_cb, st1. cbn. repeat split; auto; try discriminate.
    unfold slots_ok in *. cbn. destruct (s_segcnt st); intuition. }
  pose proof (do_callback_fields segs st1 Hpre) as Hf. cbv zeta in Hf.
  destruct Hf as (_ & Hf2 & _ & _ & Hf5 & Hf6 & Hf7 & _ & _ & Hf10).
  unfold st_adv. split; [rewrite Hf2; reflexivity|]. split.
  - intros k [Hk1 Hk2]. unfold handled. rewrite Hf5, Hf6. cbn [st1 s_segcnt s_w1]. split; [exact Hk1|].
    destruct Hk2 as [Hlt|Hnn]; [left; exact Hlt|].
    destruct (Nat.lt_ge_cases k (s_w1 st)) as [Hlt|Hge]; [left; exact Hlt|right].
    rewrite Hf10 by exact Hge. exact Hnn.
  - intros _. rewrite Hf7. reflexivity.
Qed.

Lemma get_stream_app_old c st sid : sid < nstreams c ->
  get_stream (mkcl (c_streams c ++ [st]) (f_streams c) (f_rr c) (f_out c) (c_outpipe c) (c_seginpipe c) (c_segfetch c)
                   (c_segcheck c) (c_pending c) (c_nextx c)) sid = get_stream c sid.
Proof. intros H. unfold get_stream. cbn. apply app_nth1. exact H. Qed.
Lemma get_stream_app_new c st :
  get_stream (mkcl (c_streams c ++ [st]) (f_streams c) (f_rr c) (f_out c) (c_outpipe c) (c_seginpipe c) (c_segfetch c)
                   (c_segcheck c) (c_pending c) (c_nextx c)) (nstreams c) = st.
Proof. unfold get_stream, nstreams. cbn. rewrite app_nth2 by lia. rewrite Nat.sub_diag. reflexivity. Qed.

(* consumeObject: queues only grow, streams only advance *)
Lemma consume_object_adv c sid : safe_inv W c -> sid < nstreams c ->
  (forall x, In x (c_outpipe c) -> In x (c_outpipe (consume_object c sid))) /\
  c_pending (consume_object c sid) = c_pending c /\ c_seginpipe (consume_object c sid) = c_seginpipe c /\
  nstreams (consume_object c sid) = nstreams c /\
  (forall j, j < nstreams c -> st_adv (W j) (get_stream c j) (get_stream (consume_object c sid) j)).
Proof.
  intros Hi Hsid. unfold consume_object.
  assert (Hfin : forall e,
    (forall x, In x (c_outpipe c) -> In x (c_outpipe (set_stream c sid (finalize_error e)))) /\
    c_pending (set_stream c sid (finalize_error e)) = c_pending c /\
    c_seginpipe (set_stream c sid (finalize_error e)) = c_seginpipe c /\
    nstreams (set_stream c sid (finalize_error e)) = nstreams c /\
    (forall j, j < nstreams c -> st_adv (W j) (get_stream c j) (get_stream (set_stream c sid (finalize_error e)) j))).
  { intros e. splits; auto. { apply nstreams_set_stream. }
    intros j Hj. destruct (Nat.eq_dec sid j) as [->|Hne].
    - rewrite get_set_stream_same by exact Hj. apply finalize_error_adv. apply Hi. exact Hj.
    - rewrite get_set_stream_other by exact Hne. apply st_adv_refl. }
  destruct (s_fetch (get_stream c sid)); [apply Hfin|].
  destruct (last_is_version _).
  { splits; auto. intros; apply st_adv_refl. }
  destruct (s_hasmeta _); [apply Hfin|].
  splits; auto. { intros x Hx. cbn. apply in_or_app. left. exact Hx. } intros; apply st_adv_refl.
Qed.

Lemma take_pending_cases xid : forall l x rest y, take_pending xid l = Some (x, rest) -> In y l ->
  y = (xid, x) \/ In y rest.
Proof.
  induction l as [|[i z] l IH]; intros x rest y H Hy; cbn in H; [discriminate|].
  destruct (i =? xid) eqn:E.
  - inversion H; subst. apply Nat.eqb_eq in E. subst. destruct Hy as [<-|Hy]; auto.
  - destruct (take_pending xid l) as [[y' r']|] eqn:Ht; [|discriminate]. inversion H; subst.
    destruct Hy as [<-|Hy]; [right; left; reflexivity|].
    destruct (IH _ _ _ eq_refl Hy) as [->|Hr]; [left; reflexivity|right; right; exact Hr].
Qed.

Lemma honest_data_inj segs k k0 r : honest_data segs k r -> honest_data segs k0 r -> k = k0.
Proof.
  intros (n1 & f1 & m1 & c1 & p1 & E & _ & En & _ & Ec & _) (n2 & f2 & m2 & c2 & p2 & E' & _ & En' & _ & Ec' & _).
  rewrite E in E'. inversion E' as [[Hnm Hpay Hfb Hm]]. rewrite En, En' in Hnm.
  apply app_inj_tail in Hnm. destruct Hnm as [_ Hc]. subst c2. rewrite Ec in Ec'. lia.
Qed.

(* handleData: the other queues are untouched, every stream advances, and what the processed reply covered is served *)
Lemma handle_data_adv c sid0 r : safe_inv W c -> sid0 < nstreams c -> good_result W sid0 r ->
  let c' := handle_data c sid0 r in
  c_outpipe c' = c_outpipe c /\ c_pending c' = c_pending c /\ c_seginpipe c' = c_seginpipe c /\
  nstreams c' = nstreams c /\
  (forall j, j < nstreams c -> st_adv (W j) (get_stream c j) (get_stream c' j)) /\
  (forall k, covers_r sid0 k (sid0, r) ->
     handled (W sid0) (get_stream c' sid0) k \/ s_complete (get_stream c' sid0) = true).
Proof.
  intros Hi Hsid Hgood. cbv zeta. unfold handle_data.
  set (c0 := queue_check _).
  assert (Hg0 : forall j, get_stream c0 j = get_stream c j) by reflexivity.
  assert (Hn0 : nstreams c0 = nstreams c) by reflexivity.
  assert (Hfin : forall e, s_complete (get_stream c0 sid0) = false ->
     c_outpipe (set_stream c0 sid0 (finalize_error e)) = c_outpipe c /\
     c_pending (set_stream c0 sid0 (finalize_error e)) = c_pending c /\
     c_seginpipe (set_stream c0 sid0 (finalize_error e)) = c_seginpipe c /\
     nstreams (set_stream c0 sid0 (finalize_error e)) = nstreams c /\
     (forall j, j < nstreams c -> st_adv (W j) (get_stream c j) (get_stream (set_stream c0 sid0 (finalize_error e)) j)) /\
     (forall k, covers_r sid0 k (sid0, r) ->
        handled (W sid0) (get_stream (set_stream c0 sid0 (finalize_error e)) sid0) k \/
        s_complete (get_stream (set_stream c0 sid0 (finalize_error e)) sid0) = true)).
  { intros e _. splits; auto. { rewrite nstreams_set_stream; exact Hn0. }
    - intros j Hj. destruct (Nat.eq_dec sid0 j) as [->|Hne].
      + rewrite get_set_stream_same by exact Hj. rewrite Hg0. apply finalize_error_adv. apply Hi. exact Hj.
      + rewrite get_set_stream_other by exact Hne. apply st_adv_refl.
    - intros k _. right. rewrite get_set_stream_same by exact Hsid. apply finalize_error_complete. }
  destruct (s_complete (get_stream c0 sid0)) eqn:Hcomp.
  { splits; auto. intros; apply st_adv_refl. }
  destruct r as [nm payload fb meta| | | |]; try (apply Hfin; auto).
  destruct Hgood as [Hf|[k0 Hh0]]; [contradiction|].
  assert (Hobj : wf_object (W sid0)).
  { apply Hwf. destruct Hh0 as (? & ? & ? & ? & ? & _ & Hk & _). intros E. rewrite E in Hk. cbn in Hk. lia. }
  assert (Hst : stream_inv (W sid0) (get_stream c0 sid0)) by (rewrite Hg0; apply Hi; exact Hsid).
  assert (Hk0 : k0 < length (W sid0)) by (destruct Hh0 as (? & ? & ? & ? & ? & _ & Hk & _); exact Hk).
  rewrite (handle_data_stream_is_honest (W sid0) _ k0 _ _ _ meta Hobj (proj1 (proj2 Hst)) Hh0).
  destruct (handle_honest (W sid0) (get_stream c0 sid0) k0) as [st' removed] eqn:Hhh.
  destruct (handle_honest_spec (W sid0) _ k0 Hobj Hst Hcomp Hk0 st' removed Hhh)
    as (Hinv' & _ & _ & Hhk0 & Hmono & Hw2 & _).
  assert (Hres : forall cc, c_outpipe cc = c_outpipe (set_stream c0 sid0 (fun _ => st')) ->
            c_pending cc = c_pending (set_stream c0 sid0 (fun _ => st')) ->
            c_seginpipe cc = c_seginpipe (set_stream c0 sid0 (fun _ => st')) ->
            c_streams cc = c_streams (set_stream c0 sid0 (fun _ => st')) ->
     c_outpipe cc = c_outpipe c /\ c_pending cc = c_pending c /\ c_seginpipe cc = c_seginpipe c /\
     nstreams cc = nstreams c /\
     (forall j, j < nstreams c -> st_adv (W j) (get_stream c j) (get_stream cc j)) /\
     (forall k, covers_r sid0 k (sid0, RData nm payload fb meta) ->
        handled (W sid0) (get_stream cc sid0) k \/ s_complete (get_stream cc sid0) = true)).
  { intros cc E1 E2 E3 E4.
    assert (Hgc : forall j, get_stream cc j = get_stream (set_stream c0 sid0 (fun _ => st')) j)
      by (intros j; unfold get_stream; rewrite E4; reflexivity).
    splits; auto.
    - unfold nstreams. rewrite E4. fold (nstreams (set_stream c0 sid0 (fun _ => st'))). rewrite nstreams_set_stream. exact Hn0.
    - intros j Hj. rewrite Hgc. destruct (Nat.eq_dec sid0 j) as [->|Hne].
      + rewrite get_set_stream_same by exact Hj. rewrite <- Hg0. unfold st_adv. splits; auto. congruence.
      + rewrite get_set_stream_other by exact Hne. apply st_adv_refl.
    - intros k [_ [Hf|Hh]]; [contradiction|]. left. rewrite Hgc, get_set_stream_same by exact Hsid.
      (* honest for k and for k0: the same segment *)
      assert (k = k0) by (eapply honest_data_inj; eauto).
      subst k. exact Hhk0. }
  destruct removed; apply Hres; reflexivity.
Qed.

Lemma meta_callback_adv c sid r : safe_inv W c -> sid < nstreams c ->
  let c' := meta_callback c sid r in
  (forall x, In x (c_outpipe c) -> In x (c_outpipe c')) /\
  c_pending c' = c_pending c /\ c_seginpipe c' = c_seginpipe c /\ nstreams c' = nstreams c /\
  (forall j, j < nstreams c -> st_adv (W j) (get_stream c j) (get_stream c' j)).
Proof.
  intros Hi Hsid. cbv zeta. unfold meta_callback.
  assert (Hfin : forall e,
    (forall x, In x (c_outpipe c) -> In x (c_outpipe (set_stream c sid (finalize_error e)))) /\
    c_pending (set_stream c sid (finalize_error e)) = c_pending c /\
    c_seginpipe (set_stream c sid (finalize_error e)) = c_seginpipe c /\
    nstreams (set_stream c sid (finalize_error e)) = nstreams c /\
    (forall j, j < nstreams c -> st_adv (W j) (get_stream c j) (get_stream (set_stream c sid (finalize_error e)) j))).
  { intros e. splits; auto. { apply nstreams_set_stream. }
    intros j Hj. destruct (Nat.eq_dec sid j) as [->|Hne].
    - rewrite get_set_stream_same by exact Hj. apply finalize_error_adv. apply Hi. exact Hj.
    - rewrite get_set_stream_other by exact Hne. apply st_adv_refl. }
  destruct r as [nm payload fb [inner|]| | | |]; try apply Hfin.
  set (f := fun st => mkst (s_name st) inner true (s_pol st) (s_segcnt st) (s_content st) (s_w0 st) (s_w1 st) (s_w2 st)
                           (s_complete st) (s_err st) (s_log st) (s_panic st)).
  set (c2 := set_stream c sid f).
  assert (Hi2 : safe_inv W c2).
  { apply safe_inv_set_stream; [exact Hi|]. intros st. apply stream_inv_same. unfold same_data, f. cbn. auto 10. }
  assert (Hn2 : nstreams c2 = nstreams c) by (unfold c2; rewrite nstreams_set_stream; reflexivity).
  destruct (consume_object_adv c2 sid Hi2 ltac:(rewrite Hn2; exact Hsid)) as (A1 & A2 & A3 & A4 & A5).
  splits.
  - intros x Hx. apply A1. exact Hx.
  - rewrite A2. reflexivity.
  - rewrite A3. reflexivity.
  - rewrite A4. exact Hn2.
  - intros j Hj. eapply st_adv_trans; [|apply A5; rewrite Hn2; exact Hj].
    unfold c2. destruct (Nat.eq_dec sid j) as [->|Hne].
    + rewrite get_set_stream_same by exact Hj. unfold st_adv, handled, f. cbn. auto.
    + rewrite get_set_stream_other by exact Hne. apply st_adv_refl.
Qed.

Lemma bump_w2_adv segs st : (forall k, handled segs st k -> handled segs (bump_w2 st) k) /\
  s_complete (bump_w2 st) = s_complete st /\ s_w2 (bump_w2 st) = S (s_w2 st).
Proof. unfold handled, bump_w2. cbn. auto. Qed.

Lemma served_frame_streams c c' sid k :
  c_outpipe c' = c_outpipe c -> c_pending c' = c_pending c -> c_seginpipe c' = c_seginpipe c ->
  st_keep (W sid) (get_stream c sid) (get_stream c' sid) -> served c sid k -> served c' sid k.
Proof. intros E1 E2 E3. apply served_mono; rewrite ?E1, ?E2, ?E3; auto. Qed.

Lemma req_inv_do_check fuel c : req_inv c -> req_inv (do_check fuel c).
Proof.
  apply do_check_ind; clear fuel c.
  - intros c rr H sid k Hs Hk. specialize (H sid k Hs Hk).
    eapply served_frame_streams; [| | | |exact H]; try reflexivity. apply st_adv_keep, st_adv_refl.
  - intros c idx H _ _ sid k Hs Hk.
    set (psid := nth idx (live_streams c) 0) in *.
    assert (Hn : nstreams (assign c idx) = nstreams c) by (unfold nstreams, assign; cbn; apply upd_nth_length).
    rewrite Hn in Hs.
    assert (Hg : get_stream (assign c idx) sid = if Nat.eq_dec psid sid then bump_w2 (get_stream c sid) else get_stream c sid).
    { unfold get_stream, assign. cbn. fold psid. destruct (Nat.eq_dec psid sid) as [->|Hne].
      - apply nth_upd_nth_same. exact Hs.
      - apply nth_upd_nth_other. exact Hne. }
    assert (Hold : served c sid k -> served (assign c idx) sid k).
    { apply served_mono; cbn; auto.
      - intros x Hx. apply in_or_app. left. exact Hx.
      - fold psid. change (upd_nth psid bump_w2 (c_streams c)) with (c_streams (assign c idx)).
        fold (get_stream (assign c idx) sid). rewrite Hg.
        destruct (Nat.eq_dec psid sid); [|apply st_adv_keep, st_adv_refl].
        destruct (bump_w2_adv (W sid) (get_stream c sid)) as (B1 & B2 & B3).
        split; [exact B1|rewrite B2; auto]. }
    rewrite Hg in Hk. destruct (Nat.eq_dec psid sid) as [E|Hne].
    + destruct (bump_w2_adv (W sid) (get_stream c sid)) as (_ & _ & B3). rewrite B3 in Hk.
      destruct (Nat.eq_dec k (s_w2 (get_stream c sid))) as [->|Hk'].
      * left. left. unfold assign. cbn. apply Exists_exists. eexists. split; [apply in_or_app; right; left; reflexivity|].
        unfold covers_x. cbn. fold psid. rewrite E. auto.
      * apply Hold. apply H; [exact Hs|lia].
    + apply Hold. apply H; assumption.
Qed.

Lemma finalize_error_w2 e st : s_w2 (finalize_error e st) = s_w2 st.
Proof.
  unfold finalize_error. destruct (s_complete st); [reflexivity|].
  unfold do_callback. cbn. destruct (s_pol st); cbn.
  - destruct (content_call _) as [a b] eqn:H. unfold content_call in H. destruct (_ || _) in H; inversion H; subst; reflexivity.
  - destruct (content_call _) as [a b] eqn:H. unfold content_call in H. destruct (_ || _) in H; inversion H; subst; reflexivity.
Qed.

Lemma req_inv_step c e : safe_inv W c -> ev_ok W c e -> req_inv c -> req_inv (step c e).
Proof.
  intros Hi Hev H. destruct e as [nm pol| | | | |xid r]; cbn [step].
  - (* Consume *)
    set (c1 := mkcl _ _ _ _ _ _ _ _ _ _).
    assert (Hi1 : safe_inv W c1) by (apply safe_inv_append; exact Hi).
    assert (Hn1 : nstreams c1 = S (nstreams c)) by apply nstreams_app_one.
    destruct (consume_object_adv c1 (length (c_streams c)) Hi1 ltac:(rewrite Hn1; unfold nstreams; lia))
      as (A1 & A2 & A3 & A4 & A5).
    intros sid k Hs Hk. rewrite A4, Hn1 in Hs.
    destruct (A5 sid ltac:(lia)) as (Hw2 & Hkeep).
    rewrite Hw2 in Hk.
    destruct (Nat.eq_dec sid (nstreams c)) as [->|Hne].
    + unfold c1 in Hk. rewrite get_stream_app_new in Hk. cbn in Hk. lia.
    + assert (Hlt : sid < nstreams c) by lia.
      unfold c1 in Hk. rewrite get_stream_app_old in Hk by exact Hlt.
      specialize (H sid k Hlt Hk).
      assert (H1 : served c1 sid k).
      { eapply served_frame_streams; [| | | |exact H]; try reflexivity.
        unfold c1. rewrite get_stream_app_old by exact Hlt. apply st_adv_keep, st_adv_refl. }
      revert H1. apply served_mono; rewrite ?A2, ?A3; auto; try (split; apply Hkeep).
  - (* run: outpipe -> pending *)
    destruct (c_outpipe c) as [|x rest] eqn:Ho; [exact H|].
    intros sid k Hs Hk. specialize (H sid k Hs Hk).
    destruct H as [[Hx|[Hx|Hx]]|Hx].
    + rewrite Ho in Hx. apply Exists_cons in Hx. destruct Hx as [Hx|Hx].
      * left. right. left. cbn. apply Exists_app. right. constructor. exact Hx.
      * left. left. exact Hx.
    + left. right. left. cbn. apply Exists_app. left. exact Hx.
    + left. right. right. exact Hx.
    + right. exact Hx.
  - (* run: seginpipe -> handleData *)
    destruct (c_seginpipe c) as [|[sid0 r] rest] eqn:Hsq; [exact H|].
    set (c1 := mkcl _ _ _ _ _ rest _ _ _ _).
    destruct Hi as (H1 & H2 & H3 & H4 & H5 & H6).
    rewrite Hsq in H2. inversion H2 as [|? ? [Ha Hb] Hc]; subst. cbn in Ha, Hb.
    assert (Hi1 : safe_inv W c1).
    { apply (safe_inv_queues W c); cbn; auto. unfold safe_inv; rewrite Hsq; auto 10. }
    destruct (handle_data_adv c1 sid0 r Hi1 Ha Hb) as (A1 & A2 & A3 & A4 & A5 & A6).
    intros sid k Hs Hk. rewrite A4 in Hs. change (nstreams c1) with (nstreams c) in Hs.
    destruct (A5 sid Hs) as (Hw2 & Hkeep). rewrite Hw2 in Hk. change (get_stream c1 sid) with (get_stream c sid) in Hk.
    specialize (H sid k Hs Hk).
    destruct H as [[Hx|[Hx|Hx]]|Hx].
    + left. left. rewrite A1. exact Hx.
    + left. right. left. rewrite A2. exact Hx.
    + rewrite Hsq in Hx. apply Exists_cons in Hx. destruct Hx as [Hx|Hx].
      * destruct Hx as [Hsid Hx]. cbn in Hsid. subst sid0.
        right. apply A6. split; [reflexivity|exact Hx].
      * left. right. right. rewrite A3. exact Hx.
    + right. destruct Hkeep as [Hk1 Hk2]. destruct Hx as [Hx|Hx]; [left; apply Hk1; exact Hx|right; apply Hk2; exact Hx].
  - (* run: segfetch *)
    destruct (c_segfetch c) as [|sid0 rest]; [exact H|].
    intros sid k Hs Hk. specialize (H sid k Hs Hk).
    eapply served_frame_streams; [| | | |exact H]; try reflexivity. apply st_adv_keep, st_adv_refl.
  - (* run: segcheck -> doCheck *)
    destruct (c_segcheck c) as [|n]; [exact H|]. apply req_inv_do_check.
    intros sid k Hs Hk. specialize (H sid k Hs Hk).
    eapply served_frame_streams; [| | | |exact H]; try reflexivity. apply st_adv_keep, st_adv_refl.
  - (* engine result *)
    destruct (take_pending xid (c_pending c)) as [[x rest]|] eqn:Ht; [|exact H].
    cbn in Hev. specialize (Hev x rest Ht).
    destruct (take_pending_spec xid _ _ _ Ht) as [Hin Hsub].
    set (c1 := mkcl _ _ _ _ _ _ _ _ rest _).
    assert (Hi1 : safe_inv W c1).
    { destruct Hi as (H1 & H2 & H3 & H4 & H5 & H6). apply (safe_inv_queues W c); cbn; auto.
      { unfold safe_inv; auto 10. } rewrite Forall_forall in *. intros y Hy. apply H4. apply Hsub. exact Hy. }
    assert (Hx : x_sid x < nstreams c).
    { destruct Hi as (_ & _ & _ & H4 & _). rewrite Forall_forall in H4. apply (H4 (xid, x)). exact Hin. }
    (* served in c, except through the pending entry that was taken *)
    assert (Hsplit : forall sid k, served c sid k -> served c1 sid k \/ covers_x sid k x).
    { intros sid k [[Hy|[Hy|Hy]]|Hy].
      - left. left. left. exact Hy.
      - apply Exists_exists in Hy. destruct Hy as [y [Hy1 Hy2]].
        destruct (take_pending_cases xid _ _ _ y Ht Hy1) as [->|Hr]; [right; exact Hy2|].
        left. left. right. left. apply Exists_exists. exists y. auto.
      - left. left. right. right. exact Hy.
      - left. right. exact Hy. }
    assert (Hfinal : forall r', (match x_kind x with
                                 | SegI kN => is_failure r' \/ exists k, kN = N.of_nat k /\ honest_data (W (x_sid x)) k r'
                                 | MetaI => True end) ->
              req_inv (match x_kind x with
                       | SegI _ => push_segin c1 (x_sid x) r'
                       | MetaI => meta_callback c1 (x_sid x) r'
                       end)).
    { intros r' Hr'. destruct (x_kind x) as [|kN] eqn:Hkind.
      - destruct (meta_callback_adv c1 (x_sid x) r' Hi1 Hx) as (A1 & A2 & A3 & A4 & A5).
        intros sid k Hs Hk. rewrite A4 in Hs. change (nstreams c1) with (nstreams c) in Hs.
        destruct (A5 sid Hs) as (Hw2 & Hkeep). rewrite Hw2 in Hk. change (get_stream c1 sid) with (get_stream c sid) in Hk.
        destruct (Hsplit sid k (H sid k Hs Hk)) as [Hy|[_ Hy]]; [|congruence].
        revert Hy. apply served_mono; rewrite ?A2, ?A3; auto; try (split; apply Hkeep).
      - intros sid k Hs Hk. change (nstreams (push_segin c1 (x_sid x) r')) with (nstreams c) in Hs.
        change (get_stream (push_segin c1 (x_sid x) r') sid) with (get_stream c sid) in Hk.
        destruct (Hsplit sid k (H sid k Hs Hk)) as [Hy|[Hy1 Hy2]].
        + revert Hy. apply served_mono; cbn; auto. { intros y Hy. apply in_or_app. left. exact Hy. }
          apply st_adv_keep, st_adv_refl.
        + left. right. right. cbn. apply Exists_app. right. constructor. unfold covers_r. cbn. split; [exact Hy1|].
          rewrite Hy2 in Hkind. inversion Hkind; subst kN.
          destruct Hr' as [Hf|[k' [Hk' Hh]]]; [left; exact Hf|right].
          apply Nat2N.inj in Hk'. subst k'. rewrite <- Hy1. exact Hh. }
    assert (Hretry : forall n, req_inv (push_out c1 (mkx (x_sid x) (x_kind x) (x_name x) n))).
    { intros n sid k Hs Hk. change (nstreams (push_out c1 _)) with (nstreams c) in Hs.
      change (get_stream (push_out c1 _) sid) with (get_stream c sid) in Hk.
      destruct (Hsplit sid k (H sid k Hs Hk)) as [Hy|[Hy1 Hy2]].
      + revert Hy. apply served_mono; cbn; auto. { intros y Hy. apply in_or_app. left. exact Hy. }
        apply st_adv_keep, st_adv_refl.
      + left. left. cbn. apply Exists_app. right. constructor. unfold covers_x. cbn. auto. }
    destruct r as [nm payload fb meta| | | |]; try (apply Hfinal; exact Hev).
    destruct (x_retries x) as [|n]; [apply Hfinal; exact Hev|apply Hretry].
Qed.

Lemma req_inv_init : req_inv cl_init.
Proof. intros sid k Hs. unfold nstreams in Hs. cbn in Hs. lia. Qed.

(* ---------------- every unfinished stream is queued for the fetcher, in its list, or waiting for its metadata -------- *)
Definition meta_x (sid : nat) (x : xargs) : Prop := x_sid x = sid /\ x_kind x = MetaI.
Definition meta_inflight (c : client) (sid : nat) : Prop :=
  Exists (meta_x sid) (c_outpipe c) \/ Exists (fun ix => meta_x sid (snd ix)) (c_pending c).
Definition placed (c : client) (sid : nat) : Prop :=
  s_complete (get_stream c sid) = true \/ In sid (c_segfetch c) \/ In sid (f_streams c) \/ meta_inflight c sid.
Definition place_inv (c : client) : Prop := forall sid, sid < nstreams c -> placed c sid.

Lemma placed_mono c c' sid :
  (s_complete (get_stream c sid) = true -> s_complete (get_stream c' sid) = true) ->
  (forall x, In x (c_segfetch c) -> In x (c_segfetch c')) ->
  (In sid (f_streams c) -> In sid (f_streams c') \/ s_complete (get_stream c' sid) = true) ->
  (forall x, In x (c_outpipe c) -> In x (c_outpipe c')) ->
  (forall x, In x (c_pending c) -> In x (c_pending c')) ->
  placed c sid -> placed c' sid.
Proof.
  intros Hc Hf Hs Ho Hp [H|[H|[H|[H|H]]]].
  - left. auto.
  - right. left. auto.
  - destruct (Hs H) as [Hx|Hx]; [right; right; left; exact Hx|left; exact Hx].
  - right. right. right. left. eapply Exists_incl; eauto.
  - right. right. right. right. eapply Exists_incl; eauto.
Qed.

Lemma consume_object_placed c sid : safe_inv W c -> sid < nstreams c ->
  placed (consume_object c sid) sid /\
  c_pending (consume_object c sid) = c_pending c /\ f_streams (consume_object c sid) = f_streams c /\
  (forall x, In x (c_segfetch c) -> In x (c_segfetch (consume_object c sid))).
Proof.
  intros Hi Hsid. unfold consume_object.
  assert (Hfin : forall e, placed (set_stream c sid (finalize_error e)) sid /\
     c_pending (set_stream c sid (finalize_error e)) = c_pending c /\
     f_streams (set_stream c sid (finalize_error e)) = f_streams c /\
     (forall x, In x (c_segfetch c) -> In x (c_segfetch (set_stream c sid (finalize_error e))))).
  { intros e. splits; auto. left. rewrite get_set_stream_same by exact Hsid. apply finalize_error_complete. }
  destruct (s_fetch (get_stream c sid)); [apply Hfin|].
  destruct (last_is_version _).
  { splits; auto. - right. left. cbn. apply in_or_app. right. left. reflexivity.
    - intros x Hx. cbn. apply in_or_app. left. exact Hx. }
  destruct (s_hasmeta _); [apply Hfin|].
  splits; auto. right. right. right. left. cbn. apply Exists_app. right. constructor. unfold meta_x. cbn. auto.
Qed.

Lemma handle_data_place c sid0 r : safe_inv W c -> sid0 < nstreams c -> good_result W sid0 r ->
  let c' := handle_data c sid0 r in
  c_segfetch c' = c_segfetch c /\
  (forall x, In x (f_streams c) -> In x (f_streams c') \/ s_complete (get_stream c' x) = true).
Proof.
  intros Hi Hsid Hgood. cbv zeta. unfold handle_data.
  set (c0 := queue_check _).
  destruct (s_complete (get_stream c0 sid0)) eqn:Hcomp; [split; auto|].
  destruct r as [nm payload fb meta| | | |]; [|split; auto|split; auto|split; auto|split; auto].
  destruct Hgood as [Hf|[k0 Hh0]]; [contradiction|].
  assert (Hobj : wf_object (W sid0)).
  { apply Hwf. destruct Hh0 as (? & ? & ? & ? & ? & _ & Hk & _). intros E. rewrite E in Hk. cbn in Hk. lia. }
  assert (Hst : stream_inv (W sid0) (get_stream c0 sid0)) by (apply Hi; exact Hsid).
  assert (Hk0 : k0 < length (W sid0)) by (destruct Hh0 as (? & ? & ? & ? & ? & _ & Hk & _); exact Hk).
  rewrite (handle_data_stream_is_honest (W sid0) _ k0 _ _ _ meta Hobj (proj1 (proj2 Hst)) Hh0).
  destruct (handle_honest (W sid0) (get_stream c0 sid0) k0) as [st' removed] eqn:Hhh.
  destruct (handle_honest_spec (W sid0) _ k0 Hobj Hst Hcomp Hk0 st' removed Hhh) as (_ & _ & Hrem & _).
  destruct removed; [|split; auto].
  split; [reflexivity|]. intros x Hx. cbn.
  destruct (Nat.eq_dec x sid0) as [->|Hne].
  - right. unfold nstreams in Hsid. rewrite nth_upd_nth_same by exact Hsid. auto.
  - left. clear - Hx Hne. induction (f_streams c) as [|y l IH]; [contradiction|]. cbn.
    destruct (y =? sid0) eqn:E.
    + apply Nat.eqb_eq in E. destruct Hx as [Hx|Hx]; [congruence|exact Hx].
    + destruct Hx as [Hx|Hx]; [left; exact Hx|right; apply IH; exact Hx].
Qed.

Lemma place_inv_do_check fuel c : place_inv c -> place_inv (do_check fuel c).
Proof.
  assert (Hlive : forall c0 sid, In sid (f_streams c0) ->
            In sid (live_streams c0) \/ s_complete (get_stream c0 sid) = true).
  { intros c0 sid Hx. destruct (s_complete (get_stream c0 sid)) eqn:Hc; [right; reflexivity|].
    left. unfold live_streams. apply filter_In. split; [exact Hx|]. rewrite Hc. reflexivity. }
  apply do_check_ind; clear fuel c.
  - intros c rr H sid Hs. specialize (H sid Hs). revert H. apply placed_mono; auto.
    intros Hx. exact (Hlive c sid Hx).
  - intros c idx H _ _ sid Hs.
    assert (Hn : nstreams (assign c idx) = nstreams c) by (unfold nstreams, assign; cbn; apply upd_nth_length).
    rewrite Hn in Hs. specialize (H sid Hs).
    set (psid := nth idx (live_streams c) 0).
    assert (Hc : s_complete (get_stream (assign c idx) sid) = s_complete (get_stream c sid)).
    { unfold get_stream, assign. cbn. fold psid. destruct (Nat.eq_dec psid sid) as [->|Hne].
      - rewrite nth_upd_nth_same by exact Hs. reflexivity.
      - rewrite nth_upd_nth_other by exact Hne. reflexivity. }
    revert H. apply placed_mono; auto.
    + rewrite Hc. auto.
    + intros Hx. rewrite Hc. exact (Hlive c sid Hx).
    + intros x Hx. cbn. apply in_or_app. left. exact Hx.
Qed.

Lemma place_inv_step c e : safe_inv W c -> ev_ok W c e -> place_inv c -> place_inv (step c e).
Proof.
  intros Hi Hev H. destruct e as [nm pol| | | | |xid r]; cbn [step].
  - (* Consume *)
    set (c1 := mkcl _ _ _ _ _ _ _ _ _ _).
    assert (Hi1 : safe_inv W c1) by (apply safe_inv_append; exact Hi).
    assert (Hn1 : nstreams c1 = S (nstreams c)) by apply nstreams_app_one.
    assert (Hnew : length (c_streams c) < nstreams c1) by (rewrite Hn1; unfold nstreams; lia).
    destruct (consume_object_adv c1 _ Hi1 Hnew) as (A1 & A2 & A3 & A4 & A5).
    destruct (consume_object_placed c1 _ Hi1 Hnew) as (B1 & B2 & B3 & B4).
    intros sid Hs. rewrite A4, Hn1 in Hs.
    destruct (Nat.eq_dec sid (nstreams c)) as [->|Hne]; [exact B1|].
    assert (Hlt : sid < nstreams c) by lia.
    assert (H1 : placed c1 sid).
    { specialize (H sid Hlt). revert H. apply placed_mono; auto.
      unfold c1. rewrite get_stream_app_old by exact Hlt. auto. }
    revert H1. apply placed_mono; auto.
    + apply (A5 sid ltac:(lia)).
    + rewrite B3. auto.
    + rewrite B2. auto.
  - destruct (c_outpipe c) as [|x rest] eqn:Ho; [exact H|].
    intros sid Hs. specialize (H sid Hs). destruct H as [Hx|[Hx|[Hx|[Hx|Hx]]]].
    + left. exact Hx.
    + right. left. exact Hx.
    + right. right. left. exact Hx.
    + rewrite Ho in Hx. apply Exists_cons in Hx. destruct Hx as [Hx|Hx].
      * right. right. right. right. cbn. apply Exists_app. right. constructor. exact Hx.
      * right. right. right. left. exact Hx.
    + right. right. right. right. cbn. apply Exists_app. left. exact Hx.
  - destruct (c_seginpipe c) as [|[sid0 r] rest] eqn:Hsq; [exact H|].
    set (c1 := mkcl _ _ _ _ _ rest _ _ _ _).
    destruct Hi as (H1 & H2 & H3 & H4 & H5 & H6).
    rewrite Hsq in H2. inversion H2 as [|? ? [Ha Hb] Hc]; subst. cbn in Ha, Hb.
    assert (Hi1 : safe_inv W c1).
    { apply (safe_inv_queues W c); cbn; auto. unfold safe_inv; rewrite Hsq; auto 10. }
    destruct (handle_data_adv c1 sid0 r Hi1 Ha Hb) as (A1 & A2 & A3 & A4 & A5 & A6).
    destruct (handle_data_place c1 sid0 r Hi1 Ha Hb) as (B1 & B2).
    intros sid Hs. rewrite A4 in Hs. change (nstreams c1) with (nstreams c) in Hs.
    specialize (H sid Hs). change (placed c1 sid) in H.
    revert H. apply placed_mono; rewrite ?A1, ?A2, ?B1; auto.
    apply (A5 sid Hs).
  - destruct (c_segfetch c) as [|sid0 rest] eqn:Hf; [exact H|].
    intros sid Hs. specialize (H sid Hs). destruct H as [Hx|[Hx|[Hx|Hx]]].
    + left. exact Hx.
    + rewrite Hf in Hx. destruct Hx as [->|Hx].
      * right. right. left. cbn. apply in_or_app. right. left. reflexivity.
      * right. left. exact Hx.
    + right. right. left. cbn. apply in_or_app. left. exact Hx.
    + right. right. right. exact Hx.
  - destruct (c_segcheck c) as [|n]; [exact H|]. apply place_inv_do_check.
    intros sid Hs. specialize (H sid Hs). revert H. apply placed_mono; auto.
  - destruct (take_pending xid (c_pending c)) as [[x rest]|] eqn:Ht; [|exact H].
    destruct (take_pending_spec xid _ _ _ Ht) as [Hin Hsub].
    set (c1 := mkcl _ _ _ _ _ _ _ _ rest _).
    assert (Hi1 : safe_inv W c1).
    { destruct Hi as (H1 & H2 & H3 & H4 & H5 & H6). apply (safe_inv_queues W c); cbn; auto.
      { unfold safe_inv; auto 10. } rewrite Forall_forall in *. intros y Hy. apply H4. apply Hsub. exact Hy. }
    assert (Hx : x_sid x < nstreams c).
    { destruct Hi as (_ & _ & _ & H4 & _). rewrite Forall_forall in H4. apply (H4 (xid, x)). exact Hin. }
    assert (Hsplit : forall sid, placed c sid -> placed c1 sid \/ meta_x sid x).
    { intros sid [Hy|[Hy|[Hy|[Hy|Hy]]]].
      - left. left. exact Hy.
      - left. right. left. exact Hy.
      - left. right. right. left. exact Hy.
      - left. right. right. right. left. exact Hy.
      - apply Exists_exists in Hy. destruct Hy as [y [Hy1 Hy2]].
        destruct (take_pending_cases xid _ _ _ y Ht Hy1) as [->|Hr]; [right; exact Hy2|].
        left. right. right. right. right. apply Exists_exists. exists y. auto. }
    assert (Hfinal : forall r', place_inv (match x_kind x with
                                            | SegI _ => push_segin c1 (x_sid x) r'
                                            | MetaI => meta_callback c1 (x_sid x) r'
                                            end)).
    { intros r'. destruct (x_kind x) as [|kN] eqn:Hkind.
      - destruct (meta_callback_adv c1 (x_sid x) r' Hi1 Hx) as (A1 & A2 & A3 & A4 & A5).
        intros sid Hs. rewrite A4 in Hs. change (nstreams c1) with (nstreams c) in Hs.
        assert (Hmono : placed c1 sid -> placed (meta_callback c1 (x_sid x) r') sid).
        { unfold meta_callback. destruct r' as [nm payload fb [inner|]| | | |];
            try (apply placed_mono; auto; intros Hc;
                 destruct (Nat.eq_dec (x_sid x) sid) as [<-|Hne];
                 [rewrite get_set_stream_same by exact Hx; apply finalize_error_complete
                 |rewrite get_set_stream_other by exact Hne; exact Hc]).
          set (f := fun st => mkst _ inner true _ _ _ _ _ _ _ _ _ _).
          set (c2 := set_stream c1 (x_sid x) f).
          assert (Hi2 : safe_inv W c2).
          { apply safe_inv_set_stream; [exact Hi1|]. intros st. apply stream_inv_same. unfold same_data, f. cbn. auto 10. }
          assert (Hn2 : nstreams c2 = nstreams c) by (unfold c2; rewrite nstreams_set_stream; reflexivity).
          assert (Hx2 : x_sid x < nstreams c2) by (rewrite Hn2; exact Hx).
          destruct (consume_object_adv c2 _ Hi2 Hx2) as (C1 & C2 & C3 & C4 & C5).
          destruct (consume_object_placed c2 _ Hi2 Hx2) as (D1 & D2 & D3 & D4).
          intros Hp. assert (Hp2 : placed c2 sid).
          { revert Hp. apply placed_mono; auto. unfold c2. intros Hc.
            destruct (Nat.eq_dec (x_sid x) sid) as [<-|Hne].
            - rewrite get_set_stream_same by exact Hx. unfold f. cbn. exact Hc.
            - rewrite get_set_stream_other by exact Hne. exact Hc. }
          revert Hp2. apply placed_mono; auto.
          + apply (C5 sid ltac:(rewrite Hn2; exact Hs)).
          + rewrite D3. auto.
          + rewrite D2. auto. }
        destruct (Hsplit sid (H sid Hs)) as [Hy|[Hy1 Hy2]]; [apply Hmono; exact Hy|].
        (* the metadata Interest of this very stream was answered *)
        subst sid. unfold meta_callback.
        destruct r' as [nm payload fb [inner|]| | | |];
          try (left; rewrite get_set_stream_same by exact Hx; apply finalize_error_complete).
        set (f := fun st => mkst _ inner true _ _ _ _ _ _ _ _ _ _).
        set (c2 := set_stream c1 (x_sid x) f).
        assert (Hi2 : safe_inv W c2).
        { apply safe_inv_set_stream; [exact Hi1|]. intros st. apply stream_inv_same. unfold same_data, f. cbn. auto 10. }
        assert (Hn2 : nstreams c2 = nstreams c) by (unfold c2; rewrite nstreams_set_stream; reflexivity).
        assert (Hx2 : x_sid x < nstreams c2) by (rewrite Hn2; exact Hx).
        apply (consume_object_placed c2 _ Hi2 Hx2).
      - intros sid Hs. change (nstreams (push_segin c1 (x_sid x) r')) with (nstreams c) in Hs.
        destruct (Hsplit sid (H sid Hs)) as [Hy|[_ Hy]]; [|congruence].
        revert Hy. apply placed_mono; auto. }
    assert (Hretry : forall n, place_inv (push_out c1 (mkx (x_sid x) (x_kind x) (x_name x) n))).
    { intros n sid Hs. change (nstreams (push_out c1 _)) with (nstreams c) in Hs.
      destruct (Hsplit sid (H sid Hs)) as [Hy|[Hy1 Hy2]].
      + revert Hy. apply placed_mono; auto. intros y Hy. cbn. apply in_or_app. left. exact Hy.
      + right. right. right. left. cbn. apply Exists_app. right. constructor. unfold meta_x. cbn. auto. }
    destruct r as [nm payload fb meta| | | |]; try apply Hfinal.
    destruct (x_retries x) as [|n]; [apply Hfinal|apply Hretry].
Qed.

Lemma place_inv_init : place_inv cl_init.
Proof. intros sid Hs. unfold nstreams in Hs. cbn in Hs. lia. Qed.

(* ---------------- all invariants together, for every schedule ---------------- *)
Definition live_inv (c : client) : Prop :=
  safe_inv W c /\ count_inv c /\ sched_inv c /\ req_inv c /\ place_inv c.

Lemma live_inv_init : live_inv cl_init.
Proof.
  unfold live_inv. splits.
  - apply safe_inv_init.
  - apply count_inv_init.
  - right. right. intros sid Hin. inversion Hin.
  - apply req_inv_init.
  - apply place_inv_init.
Qed.

Lemma live_inv_step c e : ev_ok W c e -> live_inv c -> live_inv (step c e).
Proof.
  intros Hev (H1 & H2 & H3 & H4 & H5). unfold live_inv. splits.
  - apply step_safe; assumption.
  - apply count_inv_step. exact H2.
  - apply sched_inv_step; [unfold count_inv in H2; lia|apply H1|exact H3].
  - apply req_inv_step; assumption.
  - apply place_inv_step; assumption.
Qed.

Theorem run_live : forall evs c, run_ok W c evs -> live_inv c -> live_inv (fold_left step evs c).
Proof.
  induction evs as [|e evs IH]; intros c Hok Hi; [exact Hi|].
  cbn in *. destruct Hok as [He Hr]. apply IH; [exact Hr|]. apply live_inv_step; assumption.
Qed.

(* nothing queued, nothing in flight *)
Definition quiescent (c : client) : Prop :=
  c_outpipe c = [] /\ c_seginpipe c = [] /\ c_segfetch c = [] /\ c_segcheck c = 0 /\ c_pending c = [].

Lemma window_pos : (0 < window)%Z.
Proof. reflexivity. Qed.

Theorem quiescent_complete c : live_inv c -> quiescent c ->
  forall sid, sid < nstreams c -> s_complete (get_stream c sid) = true.
Proof.
  intros (Hs & Hc & Hj & Hr & Hp) (Q1 & Q2 & Q3 & Q4 & Q5) sid Hsid.
  destruct (s_complete (get_stream c sid)) eqn:Hcomp; [reflexivity|exfalso].
  (* the stream sits in the fetcher's list *)
  assert (Hin : In sid (f_streams c)).
  { destruct (Hp sid Hsid) as [Hx|[Hx|[Hx|[Hx|Hx]]]].
    - congruence.
    - rewrite Q3 in Hx. inversion Hx.
    - exact Hx.
    - rewrite Q1 in Hx. inversion Hx.
    - rewrite Q5 in Hx. inversion Hx. }
  (* nothing is outstanding, so the last check found it without work *)
  assert (Hout : f_out c = 0%Z).
  { unfold count_inv in Hc. rewrite Q1, Q2, Q5 in Hc. cbn in Hc. exact Hc. }
  assert (Hnw : ~ workable c sid).
  { destruct Hj as [Hx|[Hx|Hx]]; [lia|pose proof window_pos; lia|apply Hx; exact Hin]. }
  assert (Hwd : waiting_or_done (get_stream c sid) = true).
  { destruct (waiting_or_done (get_stream c sid)) eqn:E; [reflexivity|]. exfalso. apply Hnw. split; assumption. }
  (* no request of this stream is in flight *)
  assert (Hserved : forall k, k < s_w2 (get_stream c sid) -> handled (W sid) (get_stream c sid) k).
  { intros k Hk. destruct (Hr sid k Hsid Hk) as [[Hx|[Hx|Hx]]|[Hx|Hx]].
    - rewrite Q1 in Hx. inversion Hx.
    - rewrite Q5 in Hx. inversion Hx.
    - rewrite Q2 in Hx. inversion Hx.
    - exact Hx.
    - congruence. }
  destruct Hs as (Hst & _). specialize (Hst sid Hsid). destruct Hst as (_ & Hslots & _).
  unfold waiting_or_done in Hwd. unfold slots_ok in Hslots.
  destruct (s_segcnt (get_stream c sid)) as [m|] eqn:Hsc.
  - destruct Hslots as (Hm & Hlen & H01 & H1n & Hany & Hrange & Hnext & Hdone).
    apply andb_true_iff in Hwd. destruct Hwd as [Hm0 Hmw]. apply Nat.ltb_lt in Hm0. apply Nat.leb_le in Hmw.
    assert (Hw1 : s_w1 (get_stream c sid) = length (W sid)).
    { destruct (Nat.eq_dec (s_w1 (get_stream c sid)) (length (W sid))) as [E|Hne]; [exact E|exfalso].
      assert (Hlt : s_w1 (get_stream c sid) < length (W sid)) by lia.
      destruct (Hserved (s_w1 (get_stream c sid)) ltac:(lia)) as [_ [Hx|Hx]]; [lia|].
      apply Hx. apply Hnext. exact Hlt. }
    rewrite (Hdone Hw1) in Hcomp. discriminate.
  - apply Nat.ltb_lt in Hwd. destruct (Hserved 0 Hwd) as [Hx _]. congruence.
Qed.
End Live.
