(* Object/ProduceStore.v — newest version after any number of Produce calls: the metadata query a consumer issues
   (Get(name/32=metadata, prefix)) is answered, by the memory store and by the bolt store, with the metadata packet of the
   numerically largest published version. `wire_of` stands for spec.MakeData + Join (any function from packets to bytes). *)
From Object Require Import ObjSeg ObjSegProofs ObjSegModel Store StoreSpec StoreMem StoreBolt StoreThm.
From Coq Require Import Lia Permutation Arith PeanoNat.
From Names Require Import Order.
Open Scope nat_scope.

Section PS.
Variable wire_of : packet -> bytes.
Variable S : nat.
Variable nm : name.

Definition pkt_put (p : packet) : sop := SPut (p_name p) (p_ver p) (wire_of p).
Definition pkt_entry (p : packet) : name * cand := (p_name p, (p_ver p, wire_of p)).
Definition produced (ver : N) (content : wire) : list packet :=
  match produce S nm ver content with POk _ pkts => pkts | PErr => [] end.
(* Produce = store.Begin; Put of every segment packet and of the metadata packet; store.Commit
   (an empty object is rejected before Begin) *)
Definition produce_ops (vc : N * wire) : list sop :=
  match produce S nm (fst vc) (snd vc) with
  | POk _ pkts => [SBegin] ++ map pkt_put pkts ++ [SCommit]
  | PErr => []
  end.
Definition history (vs : list (N * wire)) : list sop := flat_map produce_ops vs.
Definition all_entries (vs : list (N * wire)) : list (name * cand) :=
  flat_map (fun vc => map pkt_entry (produced (fst vc) (snd vc))) vs.
Definition meta_name (ver : N) : name := nm ++ [kw_metadata; ver_comp ver; seg_comp 0%N].
Definition meta_pkt (ver : N) (content : wire) : packet :=
  let fb := seg_comp (N.of_nat (last_seg S (wire_len content))) in
  mkpkt (meta_name ver) ver (Meta (nm ++ [ver_comp ver]) (comp_enc fb)) fb.

(* ---- the specification after the history: all Puts applied in order ---- *)
Lemma spec_puts_tx : forall (l : list packet) e acc,
  fold_left sp_step (map pkt_put l) (mkss e (Some acc)) = mkss e (Some (acc ++ map pkt_entry l)).
Proof.
  induction l as [|p l IH]; intros e acc; cbn [map fold_left]; [rewrite app_nil_r; reflexivity|].
  cbn [sp_step pkt_put ss_tx ss_e]. rewrite IH. rewrite <- app_assoc. reflexivity.
Qed.

Lemma spec_history : forall vs e,
  fold_left sp_step (history vs) (mkss e None) = mkss (puts_into e (all_entries vs)) None.
Proof.
  induction vs as [|vc vs IH]; intros e; [reflexivity|].
  unfold history, all_entries in *. cbn [flat_map]. rewrite fold_left_app. unfold produce_ops, produced at 1.
  destruct (produce S nm (fst vc) (snd vc)) as [|ret pkts] eqn:Ep.
  - cbn [fold_left app map]. apply IH.
  - rewrite !fold_left_app. cbn [fold_left sp_step ss_e ss_tx]. rewrite spec_puts_tx. cbn [fold_left sp_step ss_tx ss_e app].
    rewrite IH. unfold puts_into. rewrite fold_left_app. reflexivity.
Qed.

(* ---- names of the produced packets ---- *)
Lemma produced_names ver content p : In p (produced ver content) ->
  (exists i, p_name p = nm ++ [ver_comp ver; seg_comp i]) \/ (wire_len content <> 0 /\ p = meta_pkt ver content).
Proof.
  unfold produced, produce. destruct (wire_len content) as [|sz] eqn:Hs; [intros []|]. intros Hin.
  apply in_app_or in Hin. destruct Hin as [Hin|[<-|[]]].
  - left. apply in_map_iff in Hin. destruct Hin as [isc [<- _]]. exists (fst isc). cbn. rewrite <- app_assoc. reflexivity.
  - right. split; [lia|]. unfold meta_pkt, meta_name. rewrite Hs. reflexivity.
Qed.

Lemma produced_meta ver content : wire_len content <> 0 -> In (meta_pkt ver content) (produced ver content).
Proof.
  intros Hs. unfold produced, produce. destruct (wire_len content) as [|sz] eqn:E; [congruence|].
  apply in_or_app. right. left. unfold meta_pkt, meta_name. rewrite E. reflexivity.
Qed.

Lemma is_prefix_app_l (a b c : name) : is_prefix (a ++ b) (a ++ c) = is_prefix b c.
Proof. induction a as [|x a IH]; [reflexivity|]. cbn. rewrite IH. replace (comp_eqb x x) with true; [reflexivity|]. symmetry. apply comp_eqb_spec. reflexivity. Qed.

Definition q_meta : name := nm ++ [kw_metadata].

Lemma seg_name_not_under ver i : is_prefix q_meta (nm ++ [ver_comp ver; seg_comp i]) = false.
Proof. unfold q_meta. rewrite is_prefix_app_l. reflexivity. Qed.
Lemma meta_name_under ver : is_prefix q_meta (meta_name ver) = true.
Proof. unfold q_meta, meta_name. rewrite is_prefix_app_l. cbn. replace (comp_eqb kw_metadata kw_metadata) with true; [reflexivity|]. symmetry. apply comp_eqb_spec. reflexivity. Qed.

Lemma ver_comp_inj a b : (a < two64)%N -> (b < two64)%N -> ver_comp a = ver_comp b -> a = b.
Proof.
  intros Ha Hb E. unfold ver_comp in E. inversion E as [E'].
  pose proof (nat_dec_enc a Ha) as Da. pose proof (nat_dec_enc b Hb) as Db. rewrite E' in Da. congruence.
Qed.

Lemma meta_name_inj a b : (a < two64)%N -> (b < two64)%N -> meta_name a = meta_name b -> a = b.
Proof. intros Ha Hb E. unfold meta_name in E. apply app_inv_head in E. inversion E as [E']. apply ver_comp_inj; [assumption|assumption|unfold ver_comp; congruence]. Qed.

(* ---- last_put facts ---- *)
Lemma last_put_In l q c : last_put l q = Some c -> In (q, c) l.
Proof.
  induction l as [|p l IH] using rev_ind; [discriminate|]. rewrite last_put_snoc.
  destruct (name_eqb (fst p) q) eqn:E.
  - apply name_eqb_spec in E. intros H. inversion H. subst. apply in_or_app. right. left. destruct p; reflexivity.
  - intros H. apply in_or_app. left. apply IH. exact H.
Qed.
Lemma In_last_put l q c : In (q, c) l -> last_put l q <> None.
Proof.
  induction l as [|p l IH] using rev_ind; [intros []|]. rewrite last_put_snoc. intros Hin. apply in_app_or in Hin.
  destruct (name_eqb (fst p) q) eqn:E; [discriminate|]. destruct Hin as [Hin|[Hin|[]]]; [apply IH; exact Hin|].
  subst p. cbn in E. rewrite name_eqb_refl in E. discriminate.
Qed.

(* ---- what is stored under the metadata prefix after the history ---- *)
Definition vs_ok (vs : list (N * wire)) : Prop :=
  NoDup (map fst vs) /\ Forall (fun vc => (fst vc < two64)%N /\ wire_len (snd vc) <> 0) vs.

Lemma entries_under_meta vs : vs_ok vs ->
  let e := ss_e (run_spec (history vs)) in
  NoDup (ekeys e) /\ sp_lookup e q_meta = None /\
  (forall c, In c (sp_under e q_meta) <-> exists v content, In (v, content) vs /\ c = (v, wire_of (meta_pkt v content))) /\
  (forall n c, sp_lookup e n = Some c -> is_prefix q_meta n = true ->
     exists v content, In (v, content) vs /\ n = meta_name v /\ c = (v, wire_of (meta_pkt v content))).
Proof.
  intros [Hnd Hall]. cbv zeta. unfold run_spec. change ss_init with (mkss [] None). rewrite spec_history. cbn [ss_e].
  destruct (commit_lookup (all_entries vs) [] (NoDup_nil _)) as [Hnde Hl]. cbv zeta in *. fold (puts_into [] (all_entries vs)) in *.
  split; [exact Hnde|].
  (* every entry comes from a produced packet *)
  assert (Hent : forall q c, In (q, c) (all_entries vs) -> exists v content p, In (v, content) vs /\ In p (produced v content) /\ (q, c) = pkt_entry p).
  { intros q c Hin. unfold all_entries in Hin. apply in_flat_map in Hin. destruct Hin as [[v content] [Hv Hin]].
    apply in_map_iff in Hin. destruct Hin as [p [E Hp]]. exists v, content, p. auto. }
  split.
  - rewrite Hl. cbn [sp_lookup]. destruct (last_put (all_entries vs) q_meta) as [c|] eqn:E; [exfalso|reflexivity].
    apply last_put_In in E. destruct (Hent _ _ E) as (v & content & p & Hv & Hp & Ep). inversion Ep as [[En Ec]].
    destruct (produced_names v content p Hp) as [[i Hn]|[_ ->]].
    + rewrite Hn in En. unfold q_meta in En. apply app_inv_head in En. discriminate.
    + cbn in En. unfold q_meta, meta_name in En. apply app_inv_head in En. discriminate.
  - assert (Hnames : forall q c, sp_lookup (puts_into [] (all_entries vs)) q = Some c -> is_prefix q_meta q = true ->
              exists v content, In (v, content) vs /\ q = meta_name v /\ c = (v, wire_of (meta_pkt v content))).
    { intros q c Hq Hp. rewrite Hl in Hq. cbn [sp_lookup] in Hq.
      destruct (last_put (all_entries vs) q) as [c'|] eqn:E; [|discriminate]. inversion Hq; subst c'.
      apply last_put_In in E. destruct (Hent _ _ E) as (v & content & p & Hv & Hpp & Ep). inversion Ep as [[En Ec]].
      destruct (produced_names v content p Hpp) as [[i Hn]|[_ ->]].
      * rewrite Hn in En. subst q. rewrite seg_name_not_under in Hp. discriminate.
      * exists v, content. split; [exact Hv|]. split; reflexivity. }
    split; [|exact Hnames].
    intros c. rewrite (sp_under_In _ q_meta Hnde). split.
    + intros [q [Hp Hq]]. destruct (Hnames q c Hq Hp) as (v & content & Hv & _ & Ec). exists v, content. auto.
    + intros (v & content & Hv & ->). exists (meta_name v). split; [apply meta_name_under|].
      rewrite Hl. cbn [sp_lookup]. rewrite Forall_forall in Hall. destruct (Hall _ Hv) as [Hv64 Hne]. cbn [fst snd] in *.
      assert (Hin : In (meta_name v, (v, wire_of (meta_pkt v content))) (all_entries vs)).
      { unfold all_entries. apply in_flat_map. exists (v, content). split; [exact Hv|]. apply in_map_iff.
        exists (meta_pkt v content). split; [reflexivity|apply produced_meta; exact Hne]. }
      destruct (last_put (all_entries vs) (meta_name v)) as [c'|] eqn:E; [|exfalso; eapply In_last_put; eauto].
      f_equal. apply last_put_In in E. destruct (Hent _ _ E) as (v' & content' & p & Hv' & Hpp & Ep). inversion Ep as [[En Ec]].
      destruct (produced_names v' content' p Hpp) as [[i Hn]|[_ ->]].
      * rewrite Hn in En. unfold meta_name in En. apply app_inv_head in En. discriminate.
      * cbn in En. destruct (Hall _ Hv') as [Hv'64 _]. cbn in Hv'64.
        assert (v = v') by (apply meta_name_inj; assumption). subst v'.
        assert (content = content').
        { clear - Hnd Hv Hv'. induction vs as [|[a b] vs IH]; [contradiction|]. cbn in Hnd. inversion Hnd as [|? ? Hn Hd]; subst.
          destruct Hv as [Hv|Hv]; destruct Hv' as [Hv'|Hv'].
          - congruence.
          - inversion Hv; subst. exfalso. apply Hn. apply in_map_iff. exists (v, content'). auto.
          - inversion Hv'; subst. exfalso. apply Hn. apply in_map_iff. exists (v, content). auto.
          - apply IH; assumption. }
        subst content'. reflexivity.
Qed.
End PS.

(* ---------------- the consumer's metadata query after any number of Produce calls ---------------- *)
Section Newest.
Variable wire_of : packet -> bytes.
Variable S : nat.
Variable nm : name.
Hypothesis nm_wf : Forall comp_wf nm.

Lemma brackets_history vs : brackets false (history wire_of S nm vs) /\ bbrackets false (history wire_of S nm vs).
Proof.
  assert (Hblock : forall (l : list packet) (rest : list sop),
            (brackets false rest -> brackets true (map (pkt_put wire_of) l ++ SCommit :: rest)) /\
            (bbrackets false rest -> bbrackets true (map (pkt_put wire_of) l ++ SCommit :: rest))).
  { induction l as [|p l IH]; intros rest; cbn; [auto|]. apply IH. }
  induction vs as [|vc vs IH]; [split; exact I|]. unfold history in *. cbn [flat_map]. unfold produce_ops at 1 3.
  destruct (produce S nm (fst vc) (snd vc)) as [|ret pkts]; [exact IH|].
  rewrite <- !app_assoc. cbn [app brackets bbrackets]. destruct IH as [I1 I2].
  split; (split; [reflexivity|]); apply Hblock; assumption.
Qed.

Lemma comp_wf_small t v : (t < two64)%N -> (N.of_nat (length v) < two64)%N -> comp_wf (mkc t v).
Proof. intros; split; assumption. Qed.

Lemma nat_enc_short x : (N.of_nat (length (nat_enc x)) < two64)%N.
Proof. unfold nat_enc. rewrite be_length. unfold nat_len, two64. repeat destruct (_ <=? _)%N; cbn; lia. Qed.

Lemma op_wf_history vs : vs_ok vs -> Forall op_wf (history wire_of S nm vs).
Proof.
  intros [_ Hall]. unfold history. apply Forall_forall. intros o Ho. apply in_flat_map in Ho. destruct Ho as [[v content] [Hv Ho]].
  rewrite Forall_forall in Hall. destruct (Hall _ Hv) as [Hv64 _]. cbn in Hv64.
  unfold produce_ops in Ho. cbn [fst snd] in Ho. destruct (produce S nm v content) as [|ret pkts] eqn:Ep; [contradiction|].
  cbn [app In] in Ho. destruct Ho as [<-|Ho]; [exact I|]. apply in_app_or in Ho. destruct Ho as [Ho|[<-|[]]]; [|exact I].
  apply in_map_iff in Ho. destruct Ho as [p [<- Hp]]. cbn [pkt_put op_wf].
  assert (Hpp : In p (produced S nm v content)) by (unfold produced; rewrite Ep; exact Hp).
  assert (Hver : p_ver p = v).
  { unfold produce in Ep. destruct (wire_len content); [discriminate|]. inversion Ep; subst pkts.
    apply in_app_or in Hp. destruct Hp as [Hp|[<-|[]]]; [|reflexivity]. apply in_map_iff in Hp. destruct Hp as [isc [<- _]]. reflexivity. }
  rewrite Hver. split; [|exact Hv64].
  assert (Hkw : comp_wf kw_metadata) by (apply comp_wf_small; unfold typKeyword, two64; cbn; lia).
  assert (Hvc : forall x, comp_wf (ver_comp x)) by (intros x; apply comp_wf_small; [unfold typVersion, two64; lia|apply nat_enc_short]).
  assert (Hsc : forall x, comp_wf (seg_comp x)) by (intros x; apply comp_wf_small; [unfold typSegment, two64; lia|apply nat_enc_short]).
  destruct (produced_names S nm v content p Hpp) as [[i Hn]|[_ ->]].
  - rewrite Hn. apply Forall_app. split; [exact nm_wf|]. constructor; [apply Hvc|]. constructor; [apply Hsc|constructor].
  - cbn. unfold meta_name. apply Forall_app. split; [exact nm_wf|]. constructor; [exact Hkw|]. constructor; [apply Hvc|]. constructor; [apply Hsc|constructor].
Qed.

Lemma q_meta_wf : Forall comp_wf (q_meta nm).
Proof. unfold q_meta. apply Forall_app. split; [exact nm_wf|]. constructor; [|constructor]. apply comp_wf_small; unfold typKeyword, two64; cbn; lia. Qed.

(* what a correct answer to the metadata query is: the metadata packet of the largest published version *)
Definition newest_meta (vs : list (N * wire)) (w : bytes) : Prop :=
  exists v content, In (v, content) vs /\ w = wire_of (meta_pkt S nm v content) /\ forall v' c', In (v', c') vs -> (v' <= v)%N.

Lemma newest_from_spec vs res : vs_ok vs -> vs <> [] ->
  spec_get_ok (ss_e (run_spec (history wire_of S nm vs))) (q_meta nm) true res = true ->
  exists w, res = Some w /\ newest_meta vs w.
Proof.
  intros Hok Hne Hs. destruct (entries_under_meta wire_of S nm vs Hok) as (Hnd & Hl & Hu & _). cbv zeta in *.
  destruct (newest_meaning _ _ _ Hs Hl) as [Hnone Hsome].
  destruct res as [w|].
  - exists w. split; [reflexivity|]. destruct (Hsome w eq_refl) as (c & Hc & Hw & Hmax).
    apply Hu in Hc. destruct Hc as (v & content & Hv & ->). cbn in Hw. subst w.
    exists v, content. split; [exact Hv|]. split; [reflexivity|].
    intros v' c' Hv'. specialize (Hmax (v', wire_of (meta_pkt S nm v' c'))). cbn in Hmax. apply Hmax. apply Hu. exists v', c'. auto.
  - exfalso. destruct vs as [|[v content] vs]; [congruence|].
    assert (Hin : In (v, wire_of (meta_pkt S nm v content)) (sp_under (ss_e (run_spec (history wire_of S nm ((v, content) :: vs)))) (q_meta nm))).
    { apply Hu. exists v, content. split; [left; reflexivity|reflexivity]. }
    rewrite (proj1 Hnone eq_refl) in Hin. contradiction.
Qed.

(* the number of names under the metadata prefix = the number of published versions *)
Lemma scan_len_versions vs : vs_ok vs ->
  spec_scan_len (ss_e (run_spec (history wire_of S nm vs))) (q_meta nm) = length vs.
Proof.
  intros Hok. destruct (entries_under_meta wire_of S nm vs Hok) as (Hnd & _ & Hu & Hnames). cbv zeta in *.
  set (e := ss_e (run_spec (history wire_of S nm vs))) in *.
  unfold spec_scan_len. rewrite <- (map_length (fun vc => (fst vc, wire_of (meta_pkt S nm (fst vc) (snd vc)))) vs).
  apply Permutation_length. apply NoDup_Permutation.
  - unfold sp_under. apply NoDup_map_inj.
    + intros [n1 c1] [n2 c2] H1 H2 E. cbn in E. subst c2. apply filter_In in H1, H2. destruct H1 as [H1 P1]. destruct H2 as [H2 P2].
      cbn in P1, P2. apply (sp_lookup_In e Hnd) in H1, H2.
      destruct (Hnames _ _ H1 P1) as (v1 & k1 & _ & -> & E1). destruct (Hnames _ _ H2 P2) as (v2 & k2 & _ & -> & E2).
      rewrite E1 in E2. inversion E2. reflexivity.
    + apply NoDup_filter. apply NoDup_entries. exact Hnd.
  - destruct Hok as [Hv _]. clear - Hv. induction vs as [|[v c] vs IH]; [constructor|]. cbn in *. inversion Hv; subst. constructor; [|apply IH; assumption].
    intros Hin. apply in_map_iff in Hin. destruct Hin as [[v' c'] [E Hin]]. cbn in E. inversion E; subst. apply H1. apply in_map_iff. exists (v, c'). auto.
  - intros c. rewrite Hu, in_map_iff. split.
    + intros (v & content & Hv & ->). exists (v, content). auto.
    + intros [[v content] [<- Hv]]. exists v, content. auto.
Qed.

(* newest version, in-memory store: for every iteration order of the children maps *)
Theorem newest_after_produce_mem (order : list cand -> list cand) : (forall l, Permutation (order l) l) ->
  forall vs, vs_ok vs -> vs <> [] ->
  exists w, mt_get order (ms_root (run_mem order (history wire_of S nm vs))) (q_meta nm) true = Some w /\ newest_meta vs w.
Proof.
  intros Hperm vs Hok Hne. apply newest_from_spec; [exact Hok|exact Hne|].
  apply (StoreThm.newest_version_mem order Hperm). apply brackets_history.
Qed.

(* newest version, on-disk store: as long as fewer than `cap` versions are stored *)
Theorem newest_after_produce_bolt cap : forall vs, vs_ok vs -> vs <> [] -> (N.of_nat (length vs) < cap)%N ->
  exists w, b_get cap (bs_db (run_bolt cap (history wire_of S nm vs))) (q_meta nm) true = Some w /\ newest_meta vs w.
Proof.
  intros vs Hok Hne Hcap. apply newest_from_spec; [exact Hok|exact Hne|].
  apply StoreThm.newest_version_bolt; [apply brackets_history|apply op_wf_history; exact Hok|apply q_meta_wf|].
  intros _. fold (run_spec (history wire_of S nm vs)). rewrite scan_len_versions by exact Hok. exact Hcap.
Qed.
End Newest.
