(* Object/StoreSpec.v — facts about the specification side of Store.v: choosing the newest candidate, and the
   decidable oracle spec_get_ok expressed through lookups. *)
From Object Require Import Store.
From Coq Require Import Lia Permutation.
From Names Require Import Order.
Open Scope N_scope.

Lemma name_eqb_refl n : name_eqb n n = true.
Proof. apply name_eqb_spec. reflexivity. Qed.
Lemma name_eqb_neq a b : a <> b -> name_eqb a b = false.
Proof. intros H. destruct (name_eqb a b) eqn:E; [|reflexivity]. apply name_eqb_spec in E. contradiction. Qed.
Lemma name_eqb_sym a b : name_eqb a b = name_eqb b a.
Proof.
  destruct (name_eqb a b) eqn:E.
  - apply name_eqb_spec in E. subst. symmetry. apply name_eqb_refl.
  - destruct (name_eqb b a) eqn:E'; [|reflexivity]. apply name_eqb_spec in E'. subst. rewrite name_eqb_refl in E. discriminate.
Qed.

(* ---------------- the fold that keeps the newest candidate ---------------- *)
Lemma fold_pick_spec : forall (l : list cand) (init : option cand),
  match fold_left pick_newest l init with
  | None => init = None /\ l = []
  | Some c => (In c l \/ init = Some c) /\ (forall c', In c' l -> fst c' <= fst c) /\
              (forall k, init = Some k -> fst k <= fst c)
  end.
Proof.
  induction l as [|x l IH]; intros init; cbn [fold_left].
  - destruct init as [k|]; [|auto]. split; [right; reflexivity|]. split; [intros c' []|]. intros k' E. inversion E. lia.
  - specialize (IH (pick_newest init x)).
    destruct (fold_left pick_newest l (pick_newest init x)) as [c|] eqn:Hf.
    + destruct IH as (H1 & H2 & H3). unfold pick_newest in *.
      destruct init as [k|].
      * destruct (fst k <? fst x) eqn:E.
        -- apply N.ltb_lt in E. split; [destruct H1 as [H1|H1]; [left; right; exact H1|inversion H1; subst; left; left; reflexivity]|].
           specialize (H3 x eq_refl). split.
           ++ intros c' [<-|Hc']; [exact H3|apply H2; exact Hc'].
           ++ intros k' Ek. inversion Ek; subst. lia.
        -- apply N.ltb_ge in E. split; [destruct H1 as [H1|H1]; [left; right; exact H1|right; exact H1]|].
           specialize (H3 k eq_refl). split.
           ++ intros c' [<-|Hc']; [lia|apply H2; exact Hc'].
           ++ intros k' Ek. inversion Ek; subst. exact H3.
      * split; [destruct H1 as [H1|H1]; [left; right; exact H1|inversion H1; subst; left; left; reflexivity]|].
        specialize (H3 x eq_refl). split.
        -- intros c' [<-|Hc']; [exact H3|apply H2; exact Hc'].
        -- intros k' Ek. discriminate.
    + destruct IH as (H1 & H2). unfold pick_newest in H1. destruct init as [k|]; [destruct (fst k <? fst x)|]; discriminate.
Qed.

Lemma max_ver_acc : forall (l : list N) a, a <= fold_left N.max l a /\ (forall x, In x l -> x <= fold_left N.max l a) /\
  (fold_left N.max l a = a \/ In (fold_left N.max l a) l).
Proof.
  induction l as [|y l IH]; intros a; cbn [fold_left].
  - split; [lia|]. split; [intros x []|left; reflexivity].
  - destruct (IH (N.max a y)) as (H1 & H2 & H3). split; [lia|]. split.
    + intros x [<-|Hx]; [lia|apply H2; exact Hx].
    + destruct H3 as [H3|H3]; [|right; right; exact H3].
      rewrite H3. destruct (N.max_spec a y) as [[_ E]|[_ E]]; rewrite E; [right; left; reflexivity|left; reflexivity].
Qed.

Lemma newest_set_spec (l : list cand) (c : cand) :
  In c l -> (forall c', In c' l -> fst c' <= fst c) -> mem_bytes (snd c) (newest_set l) = true.
Proof.
  intros Hin Hmax. unfold mem_bytes, newest_set. apply existsb_exists. exists (snd c). split; [|apply bytes_eqb_spec; reflexivity].
  apply in_map. apply filter_In. split; [exact Hin|]. apply N.eqb_eq.
  unfold max_ver. destruct (max_ver_acc (map fst l) 0) as (H1 & H2 & H3).
  assert (Hle : fst c <= fold_left N.max (map fst l) 0) by (apply H2; apply in_map; exact Hin).
  destruct H3 as [H3|H3].
  - rewrite H3 in *. lia.
  - apply in_map_iff in H3. destruct H3 as [c' [E Hc']]. specialize (Hmax c' Hc'). lia.
Qed.

(* whatever the iteration order, the fold answers with a candidate of maximal version, and with nothing only if there
   is no candidate *)
Lemma newest_pick_ok (l l' : list cand) : Permutation l' l ->
  match fold_left pick_newest l' None with
  | None => l = []
  | Some c => mem_bytes (snd c) (newest_set l) = true
  end.
Proof.
  intros Hp. pose proof (fold_pick_spec l' None) as H.
  destruct (fold_left pick_newest l' None) as [c|].
  - destruct H as ([Hin|E] & Hmax & _); [|discriminate].
    apply newest_set_spec.
    + eapply Permutation_in; eauto.
    + intros c' Hc'. apply Hmax. eapply Permutation_in; [symmetry; exact Hp|exact Hc'].
  - destruct H as [_ E]. subst l'. apply Permutation_nil in Hp. exact Hp.
Qed.
