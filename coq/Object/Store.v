(* Object/Store.v — executable models of the two ndn.Store implementations of std/object. No proofs here.
   MemoryStore (store_memory.go): the pointer trie is represented as a finite set of node paths with payloads
   (DESIGN section 5, PathTree): `mtree = list (name * minfo)`, one entry per trie node, root = []. The white-box dump
   hook lets the harness compare node sets (path, wire?, version, #children, children==nil), not just lookups.
   BoltStore (store_bolt.go): the bucket is a key-sorted association list; ASSUMPTION: a bbolt cursor iterates keys in
   bytewise order (bytes.Compare) and Seek(k) positions at the first key >= k; Delete during a cursor scan removes
   every key the loop visits. Keys = concatenated component TLVs of the name (name_inner); values = 8-byte big-endian
   version followed by the wire. *)
From Object Require Export ObjSeg.
Open Scope N_scope.

(* ------------------------------------------------------------------------------------------ memory store *)
Record minfo := mkmi { mw : option bytes; mv : N; chnil : bool }.   (* wire, version, children == nil *)
Definition mtree := list (name * minfo).
Definition new_node : minfo := mkmi None 0 true.                    (* &memoryStoreNode{} *)
Definition mt_init : mtree := [([], new_node)].

Fixpoint mt_node (t : mtree) (p : name) : option minfo :=
  match t with
  | [] => None
  | (q, i) :: r => if name_eqb q p then Some i else mt_node r p
  end.
Definition mt_has (t : mtree) (p : name) : bool := match mt_node t p with Some _ => true | None => false end.
Fixpoint mt_upd (t : mtree) (p : name) (f : minfo -> minfo) : mtree :=
  match t with
  | [] => []
  | (q, i) :: r => if name_eqb q p then (q, f i) :: r else (q, i) :: mt_upd r p f
  end.
Definition mt_del (t : mtree) (p : name) : mtree := filter (fun qi => negb (name_eqb (fst qi) p)) t.
Definition is_child (p q : name) : bool := (length q =? Datatypes.S (length p))%nat && is_prefix p q.
Definition is_strict_desc (p q : name) : bool := (length p <? length q)%nat && is_prefix p q.
Definition mt_nchildren (t : mtree) (p : name) : nat := length (filter (fun qi => is_child p (fst qi)) t).

(* node.insert(name, version, wire), started at the node with path `pre` *)
Fixpoint mt_insert_from (pre rest : name) (ver : N) (w : bytes) (t : mtree) : mtree :=
  match rest with
  | [] => mt_upd t pre (fun i => mkmi (Some w) ver (chnil i))
  | c :: r =>
      let t1 := mt_upd t pre (fun i => mkmi (mw i) (mv i) false) in      (* children map made if nil *)
      let child := pre ++ [c] in
      let t2 := if mt_has t1 child then t1 else t1 ++ [(child, new_node)] in
      mt_insert_from child r ver w t2
  end.
Definition mt_insert (nm : name) (ver : N) (w : bytes) (t : mtree) : mtree := mt_insert_from [] nm ver w t.

(* length of the longest prefix of nm that is a node (find stops at the first missing child) *)
Fixpoint mt_descend_from (t : mtree) (pre rest : name) : nat :=
  match rest with
  | [] => O
  | c :: r => if mt_has t (pre ++ [c]) then Datatypes.S (mt_descend_from t (pre ++ [c]) r) else O
  end.
Definition mt_descend (t : mtree) (nm : name) : nat := mt_descend_from t [] nm.

(* the upward part of node.remove: `child` is the path of the node whose prune flag is `flag`;
   its parent deletes it when the flag is set and then reports wire == nil && len(children) == 0 *)
Fixpoint mt_prune_up (fuel : nat) (t : mtree) (child : name) (flag : bool) : mtree :=
  match fuel with
  | O => t
  | Datatypes.S f =>
      match child with
      | [] => t                                   (* the root's own flag is ignored by MemoryStore.Remove *)
      | _ =>
        if flag then
          let parent := removelast child in
          let t1 := mt_del t child in
          let pflag := match mt_node t1 parent with
                       | Some i => match mw i with None => (mt_nchildren t1 parent =? 0)%nat | Some _ => false end
                       | None => false
                       end in
          mt_prune_up f t1 parent pflag
        else t                                    (* every ancestor still has this child: flags stay false *)
      end
  end.

Definition mt_remove (nm : name) (prefix : bool) (t : mtree) : mtree :=
  let d := mt_descend t nm in
  if (d =? length nm)%nat then
    (* target exists: wire = nil, version = 0; prefix -> children = nil (the subtree is dropped) *)
    let t1 := mt_upd t nm (fun i => mkmi None 0 (if prefix then true else chnil i)) in
    let t2 := if prefix then filter (fun qi => negb (is_strict_desc nm (fst qi))) t1 else t1 in
    let flag := match mt_node t2 nm with Some i => chnil i | None => false end in   (* return n.children == nil *)
    mt_prune_up (Datatypes.S (length nm)) t2 nm flag
  else
    (* node D = firstn d nm exists, its child on the path does not *)
    let dn := firstn d nm in
    match mt_node t dn with
    | Some i =>
        if chnil i then t                          (* if n.children == nil { return false } *)
        else
          let flag := match mw i with None => (mt_nchildren t dn =? 0)%nat | Some _ => false end in
          mt_prune_up (Datatypes.S (length nm)) t dn flag
    | None => t
    end.

(* node.merge(tx): nodes present in both are merged in place, the others are adopted as they are *)
Definition mt_merge (root tx : mtree) : mtree :=
  map (fun qi =>
         match mt_node tx (fst qi) with
         | Some ti =>
             let i := snd qi in
             let i1 := match mw ti with Some _ => mkmi (mw ti) (mv ti) (chnil i) | None => i end in
             let i2 := if (0 <? mt_nchildren tx (fst qi))%nat then mkmi (mw i1) (mv i1) false else i1 in
             (fst qi, i2)
         | None => qi
         end) root
  ++ filter (fun qi => negb (mt_has root (fst qi))) tx.

(* findNewest (after the fix: only nodes holding a wire compete; the newest is kept, the first one met wins ties).
   Go iterates children in map order: `order` is an arbitrary permutation of the candidate list (theorems quantify
   over it; the runner uses the identity and separately computes the set of admissible answers). *)
Definition cand := (N * bytes)%type.
Definition pick_newest (known : option cand) (c : cand) : option cand :=
  match known with
  | None => Some c
  | Some k => if fst k <? fst c then Some c else known
  end.
Definition mt_cands (t : mtree) (p : name) : list cand :=
  flat_map (fun qi => if is_prefix p (fst qi) then
                        match mw (snd qi) with Some w => [(mv (snd qi), w)] | None => [] end
                      else []) t.
Definition mt_get (order : list cand -> list cand) (t : mtree) (nm : name) (prefix : bool) : option bytes :=
  match mt_node t nm with
  | None => None
  | Some i =>
      match mw i with
      | Some w => Some w
      | None => if prefix then option_map snd (fold_left pick_newest (order (mt_cands t nm)) None) else None
      end
  end.
(* every answer findNewest can give for some iteration order: the wires of maximal version *)
Definition max_ver (l : list cand) : N := fold_left N.max (map fst l) 0.
Definition newest_set (l : list cand) : list bytes :=
  map snd (filter (fun c => fst c =? max_ver l) l).

Record mstore := mkms { ms_root : mtree; ms_tx : option mtree }.
Definition ms_init : mstore := mkms mt_init None.

(* ------------------------------------------------------------------------------------------ bolt store *)
Definition bdb := list (bytes * bytes).

Fixpoint has_prefix_bytes (p k : bytes) : bool :=            (* bytes.HasPrefix(k, p) *)
  match p, k with
  | [], _ => true
  | _, [] => false
  | x :: p', y :: k' => (x =? y) && has_prefix_bytes p' k'
  end.

Fixpoint b_put (k v : bytes) (db : bdb) : bdb :=              (* bucket.Put *)
  match db with
  | [] => [(k, v)]
  | (k', v') :: r =>
      match bytes_cmp k k' with
      | Lt => (k, v) :: db
      | Eq => (k, v) :: r
      | Gt => (k', v') :: b_put k v r
      end
  end.
Fixpoint b_lookup (k : bytes) (db : bdb) : option bytes :=    (* bucket.Get *)
  match db with
  | [] => None
  | (k', v) :: r => if bytes_eqb k k' then Some v else b_lookup k r
  end.
Fixpoint b_seek (k : bytes) (db : bdb) : bdb :=               (* Cursor.Seek: the suffix starting at the first key >= k *)
  match db with
  | [] => []
  | (k', v) :: r => match bytes_cmp k' k with Lt => b_seek k r | _ => db end
  end.
Definition b_value (ver : N) (w : bytes) : bytes := be 8 ver ++ w.

(* the cursor loop of BoltStore.Get(prefix = true) as written (after the maxVer fix):
     iter := cap; found := false; maxVer := 0
     for k, v := c.Seek(key); k != nil && HasPrefix(k, key); k, v = c.Next() {
        if iter--; iter <= 0 { break }; if len(v) < 8 { continue }
        ver := BigEndian(v[:8]); if !found || ver > maxVer { found = true; maxVer = ver; wire = v[8:] } } *)
Fixpoint b_scan (iter : N) (key : bytes) (cur : bdb) (best : option cand) : option cand :=
  match cur with
  | [] => best
  | (k, v) :: r =>
      if has_prefix_bytes key k then
        let iter' := iter - 1 in
        if iter' <=? 0 then best
        else if (length v <? 8)%nat then b_scan iter' key r best
        else b_scan iter' key r (pick_newest best (be_val (firstn 8 v), skipn 8 v))
      else best
  end.

Definition b_get (cap : N) (db : bdb) (nm : name) (prefix : bool) : option bytes :=
  let key := name_inner nm in
  if prefix then option_map snd (b_scan cap key (b_seek key db) None)
  else option_map (skipn 8) (b_lookup key db).

Definition b_delete (k : bytes) (db : bdb) : bdb := filter (fun kv => negb (bytes_eqb (fst kv) k)) db.
(* the cursor loop of Remove(prefix = true): Seek, then delete while the key has the prefix *)
Fixpoint b_delete_run (key : bytes) (cur : bdb) : list bytes :=
  match cur with
  | [] => []
  | (k, _) :: r => if has_prefix_bytes key k then k :: b_delete_run key r else []
  end.
Definition b_remove (db : bdb) (nm : name) (prefix : bool) : bdb :=
  let key := name_inner nm in
  if prefix then fold_left (fun d k => b_delete k d) (b_delete_run key (b_seek key db)) db
  else b_delete key db.

Record bstore := mkbs { bs_db : bdb; bs_tx : option bdb }.
Definition bs_init : bstore := mkbs [] None.

(* ------------------------------------------------------------------------------------------ the Store API *)
Inductive sop :=
| SPut (nm : name) (ver : N) (w : bytes)
| SGet (nm : name) (prefix : bool)
| SRemove (nm : name) (prefix : bool)
| SBegin | SCommit | SRollback.

(* observation of one call; SMisuse = the Go code would panic / deadlock (Commit or Rollback without Begin, nested
   Begin, bolt Remove inside an open write transaction): excluded by `wf_ops`, never generated by the harness *)
Inductive sobs := SNone | SGot (r : option bytes) | SMisuse.

Definition ms_step (order : list cand -> list cand) (s : mstore) (o : sop) : mstore * sobs :=
  match o with
  | SPut nm ver w =>
      match ms_tx s with
      | Some tx => (mkms (ms_root s) (Some (mt_insert nm ver w tx)), SNone)
      | None => (mkms (mt_insert nm ver w (ms_root s)) None, SNone)
      end
  | SGet nm p => (s, SGot (mt_get order (ms_root s) nm p))
  | SRemove nm p => (mkms (mt_remove nm p (ms_root s)) (ms_tx s), SNone)
  | SBegin => match ms_tx s with Some _ => (s, SMisuse) | None => (mkms (ms_root s) (Some mt_init), SNone) end
  | SCommit => match ms_tx s with
               | Some tx => (mkms (mt_merge (ms_root s) tx) None, SNone)
               | None => (s, SMisuse)
               end
  | SRollback => match ms_tx s with Some _ => (mkms (ms_root s) None, SNone) | None => (s, SMisuse) end
  end.

Definition bs_step (cap : N) (s : bstore) (o : sop) : bstore * sobs :=
  match o with
  | SPut nm ver w =>
      let k := name_inner nm in
      match bs_tx s with
      | Some tx => (mkbs (bs_db s) (Some (b_put k (b_value ver w) tx)), SNone)
      | None => (mkbs (b_put k (b_value ver w) (bs_db s)) None, SNone)
      end
  | SGet nm p => (s, SGot (b_get cap (bs_db s) nm p))
  | SRemove nm p => match bs_tx s with
                    | Some _ => (s, SMisuse)
                    | None => (mkbs (b_remove (bs_db s) nm p) None, SNone)
                    end
  | SBegin => match bs_tx s with Some _ => (s, SMisuse) | None => (mkbs (bs_db s) (Some (bs_db s)), SNone) end
  | SCommit => match bs_tx s with Some tx => (mkbs tx None, SNone) | None => (s, SMisuse) end
  | SRollback => match bs_tx s with Some _ => (mkbs (bs_db s) None, SNone) | None => (s, SMisuse) end
  end.

Definition id_order (l : list cand) : list cand := l.

(* candidates a prefix Get may legitimately return from the memory store (for the runner's admissibility check) *)
Definition mt_get_admissible (t : mtree) (nm : name) (prefix : bool) : list (option bytes) :=
  match mt_node t nm with
  | None => [None]
  | Some i =>
      match mw i with
      | Some w => [Some w]
      | None => if prefix then
                  match mt_cands t nm with
                  | [] => [None]
                  | l => map Some (newest_set l)
                  end
                else [None]
      end
  end.

(* ------------------------------------------------------------------------------------------ specification *)
(* What a store is for (ndn.Store): a finite map name -> (version, wire). Put overwrites, Remove deletes the name or
   every name under the prefix, a transaction buffers its Puts until Commit. Get(name, false) returns the wire stored
   under exactly that name; Get(name, true), when nothing is stored under exactly that name, returns a wire of maximal
   version among the names having `name` as a prefix, and nothing only if there is none.
   (When something IS stored under exactly `name`, MemoryStore returns it and BoltStore returns the newest of it and its
   descendants; the specification leaves that case open — Consume never issues such a query.) *)
Definition entries := list (name * cand).
Fixpoint sp_lookup (e : entries) (nm : name) : option cand :=
  match e with
  | [] => None
  | (q, c) :: r => if name_eqb q nm then Some c else sp_lookup r nm
  end.
Definition sp_put (e : entries) (nm : name) (ver : N) (w : bytes) : entries :=
  (nm, (ver, w)) :: filter (fun qc => negb (name_eqb (fst qc) nm)) e.
Definition sp_remove (e : entries) (nm : name) (prefix : bool) : entries :=
  filter (fun qc => negb (if prefix then is_prefix nm (fst qc) else name_eqb (fst qc) nm)) e.
Definition sp_under (e : entries) (nm : name) : list cand :=
  map snd (filter (fun qc => is_prefix nm (fst qc)) e).

Record spec_state := mkss { ss_e : entries; ss_tx : option (list (name * cand)) }.
Definition ss_init : spec_state := mkss [] None.
Definition sp_step (s : spec_state) (o : sop) : spec_state :=
  match o with
  | SPut nm ver w =>
      match ss_tx s with
      | Some l => mkss (ss_e s) (Some (l ++ [(nm, (ver, w))]))
      | None => mkss (sp_put (ss_e s) nm ver w) None
      end
  | SGet _ _ => s
  | SRemove nm p => mkss (sp_remove (ss_e s) nm p) (ss_tx s)
  | SBegin => mkss (ss_e s) (Some [])
  | SCommit => match ss_tx s with
               | Some l => mkss (fold_left (fun e p => sp_put e (fst p) (fst (snd p)) (snd (snd p))) l (ss_e s)) None
               | None => s
               end
  | SRollback => mkss (ss_e s) None
  end.

Definition opt_bytes_eqb (a b : option bytes) : bool :=
  match a, b with
  | None, None => true
  | Some x, Some y => bytes_eqb x y
  | _, _ => false
  end.
Definition mem_bytes (w : bytes) (l : list bytes) : bool := existsb (bytes_eqb w) l.

(* the decidable oracle: is `res` an acceptable answer to Get(nm, prefix) when the store holds `e`? *)
Definition spec_get_ok (e : entries) (nm : name) (prefix : bool) (res : option bytes) : bool :=
  match sp_lookup e nm with
  | Some c => if prefix then true else opt_bytes_eqb res (Some (snd c))
  | None =>
      if prefix then
        match sp_under e nm, res with
        | [], None => true
        | [], Some _ => false
        | _ :: _, None => false
        | l, Some w => mem_bytes w (newest_set l)
        end
      else opt_bytes_eqb res None
  end.
(* number of stored names the bolt cursor has to walk for this query *)
Definition spec_scan_len (e : entries) (nm : name) : nat := length (sp_under e nm).
