(* Object/Extract.v — extraction of the executable models for the correspondence runner.
   ExtrOcamlBasic only: bool, option, unit, list, prod, sumbool, sumor -> OCaml natives; N/positive/nat stay Coq datatypes. *)
From Coq Require Import Extraction ExtrOcamlBasic.
From Object Require Import ObjSeg.
Extraction Language OCaml.
Extraction "object_model.ml"
  produce produce_obs_ok segments chunks pSegmentSize
  name_inner name_eqb comp_enc bytes_cmp
  N.add N.mul N.of_nat N.to_nat N.eqb N.ltb N.div N.modulo.
