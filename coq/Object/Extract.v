(* Object/Extract.v — extraction of the executable models for the correspondence runner.
   ExtrOcamlBasic only: bool, option, unit, list, prod, sumbool, sumor -> OCaml natives; N/positive/nat stay Coq datatypes. *)
From Coq Require Import Extraction ExtrOcamlBasic.
From Object Require Import ObjSeg Store Fetch.
Extraction Language OCaml.
Extraction "object_model.ml"
  produce produce_obs_ok segments chunks pSegmentSize
  name_inner name_eqb comp_enc bytes_cmp
  ms_init bs_init ss_init ms_step bs_step sp_step id_order mt_get_admissible b_get mt_nchildren spec_get_ok spec_scan_len boltIterCap
  cl_init step consume_log_ok log_chunks completions
  run_checkb wf_objectb quiescentb b_put
  typVersion be_val two64
  N.add N.mul N.of_nat N.to_nat N.eqb N.ltb N.div N.modulo.
