(* Object/FetchProgress.v — bounded progress: in an honest run every event other than a new Consume call either leaves
   the state unchanged (it found its queue empty / an unknown express id) or strictly decreases a natural-number
   potential. Hence after finitely many productive events nothing is queued or in flight (quiescence), where
   FetchLive.quiescent_complete applies: every consumer has reported its completion. *)
From Object Require Import Fetch FetchStream FetchSafe FetchLive.
From Coq Require Import Lia Arith PeanoNat ZArith.
Open Scope nat_scope.
Ltac splits5 := repeat match goal with |- _ /\ _ => split end.

Section Progress.
Variable W : nat -> list bytes.
Hypothesis Hwf : wf_world W.

Definition bound (sid : nat) : nat := Nat.max 1 (length (W sid)).
Definition per_assign : nat := 3 * N.to_nat segRetries + 5.       (* cost of one queued segment Interest, plus one *)
Definition sp (sid : nat) (st : stream) : nat :=
  if s_complete st then 0 else per_assign * (bound sid - s_w2 st).
Fixpoint sp_sum (i : nat) (l : list stream) : nat :=
  match l with [] => 0 | st :: r => sp i st + sp_sum (S i) r end.
Definition xw_out (x : xargs) : nat := 3 * x_retries x + 4.
Definition xw_pend (ix : nat * xargs) : nat := 3 * x_retries (snd ix) + 3.
Definition lsum {A} (f : A -> nat) (l : list A) : nat := fold_right (fun a s => f a + s) 0 l.

Definition potential (c : client) : nat :=
  lsum xw_out (c_outpipe c) + lsum xw_pend (c_pending c) + 2 * length (c_seginpipe c) + 2 * length (c_segfetch c)
  + c_segcheck c + sp_sum 0 (c_streams c).

Lemma lsum_cons {A} (f : A -> nat) a l : lsum f (a :: l) = f a + lsum f l.
Proof. reflexivity. Qed.
Lemma lsum_nil {A} (f : A -> nat) : lsum f [] = 0.
Proof. reflexivity. Qed.

Lemma lsum_app {A} (f : A -> nat) l1 l2 : lsum f (l1 ++ l2) = lsum f l1 + lsum f l2.
Proof. unfold lsum. induction l1 as [|a l1 IH]; cbn [app fold_right]; [reflexivity|]. rewrite IH. lia. Qed.

(* requests never exceed the object; a known segment count is positive *)
Definition w2_inv (c : client) : Prop :=
  forall sid, sid < nstreams c ->
    let st := get_stream c sid in
    (forall m, s_segcnt st = Some m -> 1 <= m) /\ (s_complete st = false -> s_w2 st <= bound sid).

Lemma sp_sum_app i l1 l2 : sp_sum i (l1 ++ l2) = sp_sum i l1 + sp_sum (i + length l1) l2.
Proof.
  revert i. induction l1 as [|st l1 IH]; intros i; cbn; [rewrite Nat.add_0_r; reflexivity|].
  rewrite IH. replace (S i + length l1) with (i + S (length l1)) by lia. lia.
Qed.

(* replacing one stream by one with a smaller potential *)
Lemma sp_sum_upd (f : stream -> stream) : forall l i k d, k < length l ->
  sp_sum i (upd_nth k f l) + sp (i + k) (nth k l d) = sp_sum i l + sp (i + k) (f (nth k l d)).
Proof.
  induction l as [|st l IH]; intros i k d Hk; [cbn in Hk; lia|].
  destruct k as [|k]; cbn [upd_nth sp_sum nth].
  - rewrite Nat.add_0_r. lia.
  - cbn in Hk. specialize (IH (S i) k d ltac:(lia)). replace (i + S k) with (S i + k) by lia. lia.
Qed.

Lemma potential_set_stream c sid f : sid < nstreams c ->
  potential (set_stream c sid f) + sp sid (get_stream c sid) = potential c + sp sid (f (get_stream c sid)).
Proof.
  intros Hs. unfold potential, set_stream, get_stream. cbn [c_outpipe c_pending c_seginpipe c_segfetch c_segcheck c_streams].
  pose proof (sp_sum_upd f (c_streams c) 0 sid dummy_stream Hs) as H. cbn [Nat.add] in H. lia.
Qed.

Lemma finalize_error_sp sid e st : sp sid (finalize_error e st) <= sp sid st.
Proof. unfold sp. rewrite finalize_error_complete. lia. Qed.

(* ---- w2_inv is an invariant ---- *)
Lemma w2_inv_frame c c' : nstreams c' = nstreams c ->
  (forall sid, sid < nstreams c ->
     (s_segcnt (get_stream c' sid) = s_segcnt (get_stream c sid) \/
      (exists m, s_segcnt (get_stream c' sid) = Some m /\ 1 <= m)) /\
     (s_complete (get_stream c' sid) = false -> s_complete (get_stream c sid) = false /\ s_w2 (get_stream c' sid) = s_w2 (get_stream c sid))) ->
  w2_inv c -> w2_inv c'.
Proof.
  intros Hn Hf Hi sid Hs. rewrite Hn in Hs. destruct (Hf sid Hs) as [Hseg Hcw]. destruct (Hi sid Hs) as [I1 I2]. cbv zeta in *. split.
  - intros m Hm. destruct Hseg as [E|[m' [E Hm']]]; [apply I1; congruence|]. rewrite E in Hm. inversion Hm; subst. exact Hm'.
  - intros Hc. destruct (Hcw Hc) as [Hc' Hw]. rewrite Hw. apply I2. exact Hc'.
Qed.

Lemma finalize_error_segcnt e st : s_segcnt (finalize_error e st) = s_segcnt st.
Proof.
  unfold finalize_error. destruct (s_complete st); [reflexivity|].
  unfold do_callback. cbn. destruct (s_pol st); cbn;
    destruct (content_call _) as [a b] eqn:H; unfold content_call in H; destruct (_ || _) in H; inversion H; subst; reflexivity.
Qed.

Lemma w2_inv_set_finalize c sid e : w2_inv c -> w2_inv (set_stream c sid (finalize_error e)).
Proof.
  apply w2_inv_frame; [apply nstreams_set_stream|]. intros j Hj. destruct (Nat.eq_dec sid j) as [->|Hne].
  - rewrite get_set_stream_same by exact Hj. split; [left; apply finalize_error_segcnt|].
    intros Hc. rewrite finalize_error_complete in Hc. discriminate.
  - rewrite get_set_stream_other by exact Hne. split; [left; reflexivity|auto].
Qed.

Lemma w2_inv_same_streams c c' : c_streams c' = c_streams c -> w2_inv c -> w2_inv c'.
Proof. intros E H sid Hs. unfold nstreams, get_stream in *. rewrite E in *. apply H. exact Hs. Qed.

Lemma w2_inv_consume_object c sid : w2_inv c -> w2_inv (consume_object c sid).
Proof.
  intros H. unfold consume_object. destruct (s_fetch (get_stream c sid)); [apply w2_inv_set_finalize; exact H|].
  destruct (last_is_version _); [eapply w2_inv_same_streams; [|exact H]; reflexivity|].
  destruct (s_hasmeta _); [apply w2_inv_set_finalize; exact H|eapply w2_inv_same_streams; [|exact H]; reflexivity].
Qed.

(* ---- potential of the primitive steps ---- *)
Lemma potential_consume_object_meta c sid : sid < nstreams c -> s_hasmeta (get_stream c sid) = true ->
  potential (consume_object c sid) <= potential c + 2.
Proof.
  intros Hs Hm. unfold consume_object. rewrite Hm.
  assert (Hfin : forall e, potential (set_stream c sid (finalize_error e)) <= potential c + 2).
  { intros e. pose proof (potential_set_stream c sid (finalize_error e) Hs). pose proof (finalize_error_sp sid e (get_stream c sid)). lia. }
  destruct (s_fetch (get_stream c sid)); [apply Hfin|]. destruct (last_is_version _); [|apply Hfin].
  unfold potential, push_fetch. cbn [c_outpipe c_pending c_seginpipe c_segfetch c_segcheck c_streams]. rewrite app_length. cbn. lia.
Qed.

Lemma queue_check_potential c : potential (queue_check c) <= potential c + 1.
Proof. unfold potential, queue_check. cbn [c_outpipe c_pending c_seginpipe c_segfetch c_segcheck c_streams]. destruct (c_segcheck c <? 2); lia. Qed.

(* handleData: at most one more queued check; the stream's own potential does not grow *)
Lemma handle_data_progress c sid0 r : safe_inv W c -> w2_inv c -> sid0 < nstreams c -> good_result W sid0 r ->
  potential (handle_data c sid0 r) <= potential c + 1 /\ w2_inv (handle_data c sid0 r).
Proof.
  intros Hi Hw Hsid Hgood. unfold handle_data.
  set (c0 := queue_check _).
  assert (Hp0 : potential c0 <= potential c + 1).
  { unfold c0. eapply Nat.le_trans; [apply queue_check_potential|]. unfold potential. cbn [c_outpipe c_pending c_seginpipe c_segfetch c_segcheck c_streams]. lia. }
  assert (Hw0 : w2_inv c0) by (eapply w2_inv_same_streams; [|exact Hw]; reflexivity).
  assert (Hn0 : nstreams c0 = nstreams c) by reflexivity.
  assert (Hfin : forall e, potential (set_stream c0 sid0 (finalize_error e)) <= potential c + 1 /\
                           w2_inv (set_stream c0 sid0 (finalize_error e))).
  { intros e. split; [|apply w2_inv_set_finalize; exact Hw0].
    pose proof (potential_set_stream c0 sid0 (finalize_error e) ltac:(rewrite Hn0; exact Hsid)).
    pose proof (finalize_error_sp sid0 e (get_stream c0 sid0)). lia. }
  destruct (s_complete (get_stream c0 sid0)) eqn:Hcomp; [split; assumption|].
  destruct r as [nm payload fb meta| | | |]; try apply Hfin.
  destruct Hgood as [Hf|[k0 Hh0]]; [contradiction|].
  assert (Hobj : wf_object (W sid0)).
  { apply Hwf. destruct Hh0 as (? & ? & ? & ? & ? & _ & Hk & _). intros E. rewrite E in Hk. cbn in Hk. lia. }
  assert (Hst : stream_inv (W sid0) (get_stream c0 sid0)) by (apply Hi; exact Hsid).
  assert (Hk0 : k0 < length (W sid0)) by (destruct Hh0 as (? & ? & ? & ? & ? & _ & Hk & _); exact Hk).
  rewrite (handle_data_stream_is_honest (W sid0) _ k0 _ _ _ meta Hobj (proj1 (proj2 Hst)) Hh0).
  destruct (handle_honest (W sid0) (get_stream c0 sid0) k0) as [st' removed] eqn:Hhh.
  destruct (handle_honest_spec (W sid0) _ k0 Hobj Hst Hcomp Hk0 st' removed Hhh)
    as (_ & _ & _ & _ & _ & Hw2 & _ & _ & _ & _ & Hsc).
  assert (Hsp : sp sid0 st' <= sp sid0 (get_stream c0 sid0)).
  { unfold sp. rewrite Hcomp, Hw2. destruct (s_complete st'); [apply Nat.le_0_l|apply Nat.le_refl]. }
  assert (Hres : potential (set_stream c0 sid0 (fun _ => st')) <= potential c + 1 /\ w2_inv (set_stream c0 sid0 (fun _ => st'))).
  { split.
    - pose proof (potential_set_stream c0 sid0 (fun _ => st') ltac:(rewrite Hn0; exact Hsid)). lia.
    - revert Hw0. apply w2_inv_frame; [apply nstreams_set_stream|]. intros j Hj. destruct (Nat.eq_dec sid0 j) as [->|Hne].
      + rewrite get_set_stream_same by exact Hj. split; [right; exists (length (W j)); split; [exact Hsc|lia]|].
        intros _. split; [exact Hcomp|exact Hw2].
      + rewrite get_set_stream_other by exact Hne. split; [left; reflexivity|auto]. }
  destruct removed; [|exact Hres]. destruct Hres as [H1 H2]. split.
  - unfold potential in *. cbn [c_outpipe c_pending c_seginpipe c_segfetch c_segcheck c_streams] in *. exact H1.
  - eapply w2_inv_same_streams; [|exact H2]. reflexivity.
Qed.

(* doCheck: every assignment pays for the Interest it queues *)
Lemma live_streams_In c sid : In sid (live_streams c) -> In sid (f_streams c) /\ s_complete (get_stream c sid) = false.
Proof. unfold live_streams. intros H. apply filter_In in H. destruct H as [H1 H2]. apply negb_true_iff in H2. auto. Qed.

Lemma assign_progress c idx : safe_inv W c -> w2_inv c -> pickable c idx ->
  safe_inv W (assign c idx) /\ w2_inv (assign c idx) /\ potential (assign c idx) + 1 <= potential c.
Proof.
  intros Hi Hw [Hidx Hnw].
  set (sid := nth idx (live_streams c) 0) in *.
  assert (Hin : In sid (live_streams c)) by (apply nth_In; exact Hidx).
  destruct (live_streams_In c sid Hin) as [Hinf Hnc].
  pose proof Hi as (H1 & H2 & H3 & H4 & H5 & H6).
  assert (Hsid : sid < nstreams c) by (rewrite Forall_forall in H6; apply H6; exact Hinf).
  (* the stream still has something to request *)
  assert (Hlt : s_w2 (get_stream c sid) < bound sid).
  { destruct (Hw sid Hsid) as [W1 _]. cbv zeta in W1. destruct (H1 sid Hsid) as (_ & Hslots & _).
    unfold waiting_or_done in Hnw. unfold slots_ok in Hslots. unfold bound.
    destruct (s_segcnt (get_stream c sid)) as [m|] eqn:Esc.
    - destruct Hslots as (Hm & _). specialize (W1 m eq_refl).
      apply andb_false_iff in Hnw. destruct Hnw as [Hx|Hx]; [apply Nat.ltb_ge in Hx; lia|apply Nat.leb_gt in Hx; lia].
    - apply Nat.ltb_ge in Hnw. lia. }
  assert (Hget : forall j, get_stream (assign c idx) j = if Nat.eq_dec sid j then bump_w2 (get_stream c j) else get_stream c j).
  { intros j. unfold get_stream, assign. cbn. fold sid. destruct (Nat.eq_dec sid j) as [<-|Hne].
    - apply nth_upd_nth_same. exact Hsid.
    - apply nth_upd_nth_other. exact Hne. }
  assert (Hn : nstreams (assign c idx) = nstreams c) by (unfold nstreams, assign; cbn; apply upd_nth_length).
  split; [|split].
  - (* safe_inv *)
    unfold safe_inv. rewrite Hn. split.
    2:{ unfold assign. cbn [c_outpipe c_pending c_seginpipe c_segfetch f_streams]. fold sid. splits5; auto.
        - apply Forall_app. split; [exact H3|]. constructor; [exact Hsid|constructor].
        - apply filter_Forall. exact H6. }
    intros j Hj. rewrite Hget. destruct (Nat.eq_dec sid j) as [<-|Hne]; [|apply H1; exact Hj].
    eapply stream_inv_same; [|apply H1; exact Hsid]. unfold same_data, bump_w2. cbn. auto 10.
  - (* w2_inv *)
    intros j Hj. rewrite Hn in Hj. rewrite Hget. destruct (Hw j Hj) as [W1 W2]. cbv zeta in *.
    destruct (Nat.eq_dec sid j) as [<-|Hne]; [|split; assumption].
    unfold bump_w2. cbn [s_w2 s_complete s_segcnt]. split; [exact W1|]. intros _. lia.
  - (* potential *)
    unfold potential, assign. cbn [c_outpipe c_pending c_seginpipe c_segfetch c_segcheck c_streams]. fold sid.
    rewrite lsum_app, lsum_cons, lsum_nil.
    pose proof (sp_sum_upd bump_w2 (c_streams c) 0 sid dummy_stream Hsid) as Hs. cbn [Nat.add] in Hs.
    fold (get_stream c sid) in Hs.
    assert (Hsp : sp sid (bump_w2 (get_stream c sid)) + per_assign <= sp sid (get_stream c sid)).
    { unfold sp, bump_w2. cbn [s_complete s_w2]. rewrite Hnc.
      replace (bound sid - s_w2 (get_stream c sid)) with (S (bound sid - S (s_w2 (get_stream c sid)))) by lia. lia. }
    unfold per_assign in *. unfold xw_out at 2. cbn [x_retries]. lia.
Qed.

Lemma purge_facts c rr : safe_inv W c -> w2_inv c ->
  safe_inv W (purge c rr) /\ w2_inv (purge c rr) /\ potential (purge c rr) = potential c.
Proof.
  intros (H1 & H2 & H3 & H4 & H5 & H6) Hw. split; [|split; [eapply w2_inv_same_streams; [|exact Hw]; reflexivity|reflexivity]].
  apply (safe_inv_queues W c); cbn; auto. { unfold safe_inv; auto 10. } apply filter_Forall. exact H6.
Qed.

Lemma do_check_progress fuel c : safe_inv W c -> w2_inv c ->
  w2_inv (do_check fuel c) /\ potential (do_check fuel c) <= potential c.
Proof.
  intros Hi Hw.
  assert (H : safe_inv W (do_check fuel c) /\ w2_inv (do_check fuel c) /\ potential (do_check fuel c) <= potential c).
  { apply (do_check_ind (fun c' => safe_inv W c' /\ w2_inv c' /\ potential c' <= potential c)).
    - intros c' rr (A & B & C). destruct (purge_facts c' rr A B) as (A' & B' & C'). rewrite C'. auto.
    - intros c' idx (A & B & C) _ Hp. destruct (assign_progress c' idx A B Hp) as (A' & B' & C'). split; [exact A'|]. split; [exact B'|lia].
    - auto. }
  destruct H as (_ & H2 & H3). auto.
Qed.

(* ---- the step theorems ---- *)
Lemma w2_inv_step c e : safe_inv W c -> ev_ok W c e -> w2_inv c -> w2_inv (step c e).
Proof.
  intros Hi Hev Hw. destruct e as [nm pol| | | | |xid r]; cbn [step].
  - apply w2_inv_consume_object.
    intros sid Hs. rewrite nstreams_app_one in Hs. destruct (Nat.eq_dec sid (nstreams c)) as [->|Hne].
    + rewrite get_stream_app_new. cbn. split; [intros m E; discriminate|intros _; lia].
    + rewrite get_stream_app_old by lia. apply Hw. lia.
  - destruct (c_outpipe c); [exact Hw|]. eapply w2_inv_same_streams; [|exact Hw]. reflexivity.
  - destruct (c_seginpipe c) as [|[sid0 r] rest] eqn:Hsq; [exact Hw|].
    destruct Hi as (H1 & H2 & H3 & H4 & H5 & H6). rewrite Hsq in H2. inversion H2 as [|? ? [Ha Hb] Hc]; subst. cbn in Ha, Hb.
    set (c1 := mkcl _ _ _ _ _ rest _ _ _ _).
    assert (Hi1 : safe_inv W c1) by (apply (safe_inv_queues W c); cbn; auto; unfold safe_inv; rewrite Hsq; auto 10).
    assert (Hw1 : w2_inv c1) by (eapply w2_inv_same_streams; [|exact Hw]; reflexivity).
    exact (proj2 (handle_data_progress c1 sid0 r Hi1 Hw1 Ha Hb)).
  - destruct (c_segfetch c); [exact Hw|]. eapply w2_inv_same_streams; [|exact Hw]. reflexivity.
  - destruct (c_segcheck c); [exact Hw|]. apply do_check_progress.
    + destruct Hi as (H1 & H2 & H3 & H4 & H5 & H6). apply (safe_inv_queues W c); cbn; auto. unfold safe_inv; auto 10.
    + eapply w2_inv_same_streams; [|exact Hw]. reflexivity.
  - destruct (take_pending xid (c_pending c)) as [[x rest]|] eqn:Ht; [|exact Hw].
    set (c1 := mkcl _ _ _ _ _ _ _ _ rest _).
    assert (Hw1 : w2_inv c1) by (eapply w2_inv_same_streams; [|exact Hw]; reflexivity).
    assert (Hfinal : forall r', w2_inv (match x_kind x with
                                        | SegI _ => push_segin c1 (x_sid x) r'
                                        | MetaI => meta_callback c1 (x_sid x) r'
                                        end)).
    { intros r'. destruct (x_kind x); [|eapply w2_inv_same_streams; [|exact Hw1]; reflexivity].
      unfold meta_callback. destruct r' as [nm payload fb [inner|]| | | |]; try (apply w2_inv_set_finalize; exact Hw1).
      apply w2_inv_consume_object. revert Hw1. apply w2_inv_frame; [apply nstreams_set_stream|].
      intros j Hj. destruct (Nat.eq_dec (x_sid x) j) as [<-|Hne].
      - rewrite get_set_stream_same by exact Hj. cbn. split; [left; reflexivity|auto].
      - rewrite get_set_stream_other by exact Hne. split; [left; reflexivity|auto]. }
    destruct r as [nm payload fb meta| | | |]; try apply Hfinal.
    destruct (x_retries x); [apply Hfinal|]. eapply w2_inv_same_streams; [|exact Hw1]. reflexivity.
Qed.

Lemma take_pending_lsum xid : forall l x rest, take_pending xid l = Some (x, rest) ->
  lsum xw_pend l = 3 * x_retries x + 3 + lsum xw_pend rest.
Proof.
  induction l as [|[i y] l IH]; intros x rest H; cbn in H; [discriminate|].
  destruct (i =? xid).
  - inversion H; subst. rewrite lsum_cons. reflexivity.
  - destruct (take_pending xid l) as [[y' r']|] eqn:Ht; [|discriminate]. inversion H; subst.
    rewrite !lsum_cons, (IH _ _ eq_refl). lia.
Qed.

(* bounded progress: an event that is not a new Consume either changes nothing or lowers the potential *)
Theorem step_progress c e : safe_inv W c -> w2_inv c -> ev_ok W c e ->
  (forall nm pol, e <> EvConsume nm pol) -> step c e = c \/ potential (step c e) < potential c.
Proof.
  intros Hi Hw Hev Hnc. destruct e as [nm pol| | | | |xid r]; cbn [step].
  - exfalso. eapply Hnc. reflexivity.
  - destruct (c_outpipe c) as [|x rest] eqn:Ho; [left; reflexivity|right].
    unfold potential. cbn [c_outpipe c_pending c_seginpipe c_segfetch c_segcheck c_streams]. rewrite Ho, lsum_app.
    rewrite !lsum_cons, lsum_nil. assert (xw_pend (c_nextx c, x) + 1 = xw_out x) by (unfold xw_pend, xw_out; cbn [snd]; lia). lia.
  - destruct (c_seginpipe c) as [|[sid0 r] rest] eqn:Hsq; [left; reflexivity|right].
    destruct Hi as (H1 & H2 & H3 & H4 & H5 & H6). rewrite Hsq in H2. inversion H2 as [|? ? [Ha Hb] Hc]; subst. cbn in Ha, Hb.
    set (c1 := mkcl _ _ _ _ _ rest _ _ _ _).
    assert (Hi1 : safe_inv W c1) by (apply (safe_inv_queues W c); cbn; auto; unfold safe_inv; rewrite Hsq; auto 10).
    assert (Hw1 : w2_inv c1) by (eapply w2_inv_same_streams; [|exact Hw]; reflexivity).
    destruct (handle_data_progress c1 sid0 r Hi1 Hw1 Ha Hb) as [Hp _].
    assert (potential c = potential c1 + 2).
    { unfold potential, c1. cbn [c_outpipe c_pending c_seginpipe c_segfetch c_segcheck c_streams]. rewrite Hsq. cbn [length]. lia. }
    lia.
  - destruct (c_segfetch c) as [|sid0 rest] eqn:Hf; [left; reflexivity|right].
    eapply Nat.le_lt_trans; [apply queue_check_potential|].
    unfold potential. cbn [c_outpipe c_pending c_seginpipe c_segfetch c_segcheck c_streams]. rewrite Hf. cbn [length]. lia.
  - destruct (c_segcheck c) as [|k] eqn:Hk; [left; reflexivity|right].
    set (c1 := mkcl _ _ _ _ _ _ _ k _ _).
    assert (Hi1 : safe_inv W c1).
    { destruct Hi as (H1 & H2 & H3 & H4 & H5 & H6). apply (safe_inv_queues W c); cbn; auto. unfold safe_inv; auto 10. }
    assert (Hw1 : w2_inv c1) by (eapply w2_inv_same_streams; [|exact Hw]; reflexivity).
    destruct (do_check_progress check_fuel c1 Hi1 Hw1) as [_ Hp].
    assert (potential c = potential c1 + 1).
    { unfold potential, c1. cbn [c_outpipe c_pending c_seginpipe c_segfetch c_segcheck c_streams]. rewrite Hk. lia. }
    lia.
  - destruct (take_pending xid (c_pending c)) as [[x rest]|] eqn:Ht; [|left; reflexivity]. right.
    pose proof (take_pending_lsum xid _ _ _ Ht) as Hl.
    destruct (take_pending_spec xid _ _ _ Ht) as [Hin _].
    assert (Hx : x_sid x < nstreams c).
    { destruct Hi as (_ & _ & _ & H4 & _). rewrite Forall_forall in H4. apply (H4 (xid, x)). exact Hin. }
    set (c1 := mkcl _ _ _ _ _ _ _ _ rest _).
    assert (Hc1 : potential c = potential c1 + 3 * x_retries x + 3).
    { unfold potential, c1. cbn [c_outpipe c_pending c_seginpipe c_segfetch c_segcheck c_streams]. lia. }
    assert (Hfinal : forall r', potential (match x_kind x with
                                           | SegI _ => push_segin c1 (x_sid x) r'
                                           | MetaI => meta_callback c1 (x_sid x) r'
                                           end) <= potential c1 + 2).
    { intros r'. destruct (x_kind x).
      - unfold meta_callback.
        assert (Hfin : forall e, potential (set_stream c1 (x_sid x) (finalize_error e)) <= potential c1 + 2).
        { intros e. pose proof (potential_set_stream c1 (x_sid x) (finalize_error e) Hx).
          pose proof (finalize_error_sp (x_sid x) e (get_stream c1 (x_sid x))). lia. }
        destruct r' as [nm payload fb [inner|]| | | |]; try apply Hfin.
        set (f := fun st => mkst _ inner true _ _ _ _ _ _ _ _ _ _).
        eapply Nat.le_trans; [apply potential_consume_object_meta|].
        + rewrite nstreams_set_stream. exact Hx.
        + rewrite get_set_stream_same by exact Hx. reflexivity.
        + pose proof (potential_set_stream c1 (x_sid x) f Hx) as Hp.
          assert (sp (x_sid x) (f (get_stream c1 (x_sid x))) = sp (x_sid x) (get_stream c1 (x_sid x))) by reflexivity. lia.
      - unfold potential, push_segin. cbn [c_outpipe c_pending c_seginpipe c_segfetch c_segcheck c_streams]. rewrite app_length. cbn. lia. }
    destruct r as [nm payload fb meta| | | |]; try (specialize (Hfinal (RData nm payload fb meta)); lia);
      try (match goal with |- potential (match x_kind x with SegI _ => push_segin _ _ ?r | MetaI => _ end) < _ => specialize (Hfinal r); lia end).
    destruct (x_retries x) as [|k] eqn:Er; [specialize (Hfinal RTimeout); lia|].
    unfold potential, push_out, c1 in *. cbn [c_outpipe c_pending c_seginpipe c_segfetch c_segcheck c_streams] in *.
    rewrite lsum_app, lsum_cons, lsum_nil. unfold xw_out at 2. cbn [x_retries]. lia.
Qed.

(* consequence: an honest run without new Consume calls changes the state at most `potential c` times; in particular it
   cannot go on forever, and when nothing changes any more every queue is empty and nothing is pending — quiescence —
   which by FetchLive.quiescent_complete means every consumer has reported its completion *)
Fixpoint changes (c : client) (evs : list cev) (k : nat) : Prop :=
  (* k events of evs changed the state *)
  match evs with
  | [] => k = 0
  | e :: r => (step c e = c /\ changes c r k) \/ (step c e <> c /\ exists k', k = S k' /\ changes (step c e) r k')
  end.

Theorem bounded_progress : forall evs c k, live_inv W c -> w2_inv c -> run_ok W c evs ->
  Forall (fun e => forall nm pol, e <> EvConsume nm pol) evs -> changes c evs k ->
  k + potential (fold_left step evs c) <= potential c.
Proof.
  induction evs as [|e evs IH]; intros c k Hl Hw Hok Hnc Hch; cbn in *.
  - subst k. lia.
  - destruct Hok as [He Hr]. inversion Hnc as [|? ? Hne Hnc']; subst.
    pose proof (live_inv_step W Hwf c e He Hl) as Hl'. pose proof (w2_inv_step c e (proj1 Hl) He Hw) as Hw'.
    destruct Hch as [[Es Hch]|[Hns [k' [-> Hch]]]].
    + rewrite Es in *. apply IH; assumption.
    + specialize (IH (step c e) k' Hl' Hw' Hr Hnc' Hch).
      destruct (step_progress c e (proj1 Hl) Hw He Hne) as [E|Hlt]; [contradiction|lia].
Qed.

Lemma w2_inv_init : w2_inv cl_init.
Proof. intros sid Hs. unfold nstreams in Hs. cbn in Hs. lia. Qed.

Lemma reachable_invs : forall evs c, run_ok W c evs -> live_inv W c -> w2_inv c ->
  live_inv W (fold_left step evs c) /\ w2_inv (fold_left step evs c).
Proof.
  induction evs as [|e evs IH]; intros c Hok Hl Hw; [auto|]. cbn in *. destruct Hok as [He Hr].
  apply IH; [exact Hr|apply live_inv_step; assumption|apply w2_inv_step; [apply Hl|exact He|exact Hw]].
Qed.

(* from any state reachable in an honest run: at most `potential` further state-changing events without a new Consume *)
Theorem bounded_progress_reachable : forall evs0 evs k, run_ok W cl_init evs0 ->
  let c := fold_left step evs0 cl_init in
  run_ok W c evs -> Forall (fun e => forall nm pol, e <> EvConsume nm pol) evs -> changes c evs k ->
  k + potential (fold_left step evs c) <= potential c.
Proof.
  intros evs0 evs k Hok0 c Hok Hnc Hch.
  destruct (reachable_invs evs0 cl_init Hok0 (live_inv_init W) w2_inv_init) as [Hl Hw].
  apply bounded_progress; assumption.
Qed.
End Progress.
