(* Object/ObjSegProofs.v — Produce segmentation refines fixed-size chunking of the concatenated input, for every
   split of the content into buffers and every segment size S > 0 (arithmetic, no enumeration). *)
From Object Require Import ObjSeg.
From Coq Require Import Lia Arith PeanoNat.
Open Scope nat_scope.

Definition measure (w : wire) : nat := wire_len w + length w.

Lemma wire_len_cons b w : wire_len (b :: w) = length b + wire_len w.
Proof. unfold wire_len. simpl. rewrite app_length. reflexivity. Qed.

Lemma skipn_nil_length {A} k (b : list A) : skipn k b = [] -> length b <= k.
Proof. intros H. pose proof (skipn_length k b) as L. rewrite H in L. simpl in L. lia. Qed.

Lemma skipn_cons_length {A} k (b : list A) x r : skipn k b = x :: r -> k < length b.
Proof. intros H. pose proof (skipn_length k b) as L. rewrite H in L. simpl in L. lia. Qed.

(* one segment = the first `room` bytes of what is left; the rest = the remaining bytes *)
Lemma fill_seg_spec : forall w room sc rest, fill_seg room w = (sc, rest) ->
  concat sc = firstn room (concat w) /\ concat rest = skipn room (concat w).
Proof.
  induction w as [|b w IH]; intros room sc rest H.
  - simpl in H. inversion H; subst. simpl. rewrite firstn_nil, skipn_nil. auto.
  - cbn [fill_seg] in H. destruct room as [|r].
    + inversion H; subst. simpl. auto.
    + set (room := S r) in *. set (k := Nat.min room (length b)) in *.
      destruct (skipn k b) as [|x b'] eqn:Hs.
      * apply skipn_nil_length in Hs. assert (Hk : k = length b) by (subst k; lia).
        destruct (fill_seg (room - k) w) as [sc' r'] eqn:Hf. inversion H; subst sc rest.
        apply IH in Hf as [H1 H2]. rewrite Hk in *. rewrite firstn_all.
        cbn [concat]. rewrite firstn_app, skipn_app. rewrite H1, H2.
        rewrite (firstn_all2 (n:=room) b) by lia. rewrite (skipn_all2 (n:=room) b) by lia. simpl. auto.
      * pose proof (skipn_cons_length _ _ _ _ Hs) as Hlt. assert (Hk : k = room) by (subst k; lia).
        inversion H; subst sc rest. rewrite <- Hs. rewrite Hk in *.
        cbn [concat]. rewrite firstn_app, skipn_app, app_nil_r.
        replace (room - length b) with 0 by lia. rewrite firstn_O, app_nil_r. simpl. auto.
Qed.

Lemma fill_seg_measure_le : forall w room sc rest, fill_seg room w = (sc, rest) -> measure rest <= measure w.
Proof.
  induction w as [|b w IH]; intros room sc rest H.
  - simpl in H. inversion H; subst. lia.
  - cbn [fill_seg] in H. destruct room as [|r].
    + inversion H; subst. lia.
    + set (room := S r) in *. set (k := Nat.min room (length b)) in *.
      destruct (skipn k b) as [|x b'] eqn:Hs.
      * destruct (fill_seg (room - k) w) as [sc' r'] eqn:Hf. inversion H; subst sc rest.
        apply IH in Hf. unfold measure in *. rewrite wire_len_cons. simpl. lia.
      * inversion H; subst sc rest. rewrite <- Hs. unfold measure. rewrite !wire_len_cons.
        rewrite skipn_length. simpl. lia.
Qed.

Lemma fill_seg_measure_lt : forall w room sc rest, w <> [] -> 0 < room ->
  fill_seg room w = (sc, rest) -> measure rest < measure w.
Proof.
  intros [|b w] room sc rest Hw Hr H; [congruence|].
  cbn [fill_seg] in H. destruct room as [|r]; [lia|].
  set (room := S r) in *. set (k := Nat.min room (length b)) in *.
  destruct (skipn k b) as [|x b'] eqn:Hs.
  - destruct (fill_seg (room - k) w) as [sc' r'] eqn:Hf. inversion H; subst sc rest.
    apply fill_seg_measure_le in Hf. unfold measure in *. rewrite wire_len_cons. simpl. lia.
  - pose proof (skipn_cons_length _ _ _ _ Hs) as Hlt. assert (Hk : k = room) by (subst k; lia).
    inversion H; subst sc rest. rewrite <- Hs. unfold measure. rewrite !wire_len_cons.
    rewrite skipn_length. simpl. lia.
Qed.

Definition nonempty (b : bytes) : Prop := b <> [].

Lemma fill_seg_nonempty : forall w room sc rest, Forall nonempty w -> fill_seg room w = (sc, rest) ->
  Forall nonempty rest.
Proof.
  induction w as [|b w IH]; intros room sc rest Hne H.
  - simpl in H. inversion H; subst. constructor.
  - cbn [fill_seg] in H. destruct room as [|r].
    + inversion H; subst. exact Hne.
    + set (room := S r) in *. set (k := Nat.min room (length b)) in *.
      inversion Hne as [|? ? Hb Hw]; subst.
      destruct (skipn k b) as [|x b'] eqn:Hs.
      * destruct (fill_seg (room - k) w) as [sc' r'] eqn:Hf. inversion H; subst sc rest.
        eapply IH; eauto.
      * inversion H; subst sc rest. constructor; [unfold nonempty; discriminate|exact Hw].
Qed.

(* a run of empty buffers is swallowed whole by one segment *)
Lemma fill_seg_all_empty : forall w room, 0 < room -> concat w = [] -> fill_seg room w = (w, []).
Proof.
  induction w as [|b w IH]; intros room Hr Hc; [reflexivity|].
  cbn [concat] in Hc. apply app_eq_nil in Hc as [Hb Hw]. subst b.
  cbn [fill_seg]. destruct room as [|r]; [lia|].
  cbn [length]. rewrite Nat.min_0_r. cbn [skipn firstn]. rewrite Nat.sub_0_r.
  rewrite IH by (auto; lia). reflexivity.
Qed.

(* ---------------- chunks ---------------- *)
Section Chunks.
Context {A : Type}.
Variable S : nat.
Hypothesis HS : 0 < S.

Lemma chunks_fuel_indep : forall f f' (l : list A), length l <= f -> length l <= f' ->
  chunks_fuel S f l = chunks_fuel S f' l.
Proof.
  induction f as [|f IH]; intros f' l Hl Hl'.
  - destruct l; [destruct f'; reflexivity|cbn [length] in Hl; lia].
  - destruct l as [|x l]; [destruct f'; reflexivity|].
    destruct f' as [|f']; [cbn [length] in Hl'; lia|].
    cbn [chunks_fuel]. f_equal.
    assert (Hlen : length (skipn S (x :: l)) <= length l).
    { rewrite skipn_length. cbn [length]. lia. }
    cbn [length] in Hl, Hl'. apply IH; lia.
Qed.

Lemma chunks_fuel_enough : forall f (l : list A), length l <= f -> chunks_fuel S f l = chunks S l.
Proof. intros f l Hl. unfold chunks. apply chunks_fuel_indep; lia. Qed.

Lemma chunks_nil : chunks S (@nil A) = [].
Proof. reflexivity. Qed.

Lemma chunks_step (l : list A) : l <> [] -> chunks S l = firstn S l :: chunks S (skipn S l).
Proof.
  intros Hl. destruct l as [|x l]; [congruence|].
  unfold chunks at 1. cbn [length chunks_fuel]. f_equal.
  apply chunks_fuel_enough. rewrite skipn_length. cbn [length]. lia.
Qed.

Lemma chunks_ind (P : list A -> Prop) :
  P [] -> (forall l, l <> [] -> P (skipn S l) -> P l) -> forall l, P l.
Proof.
  intros H0 Hs l. remember (length l) as n eqn:Hn. revert l Hn.
  induction n as [n IH] using lt_wf_ind. intros l Hn.
  destruct l as [|x l]; [exact H0|].
  apply Hs; [discriminate|]. eapply IH; [|reflexivity]. rewrite skipn_length. cbn [length] in *. lia.
Qed.

Lemma chunks_concat (l : list A) : concat (chunks S l) = l.
Proof.
  induction l as [|l Hl IH] using chunks_ind; [reflexivity|].
  rewrite chunks_step by exact Hl. cbn [concat]. rewrite IH. apply firstn_skipn.
Qed.

Lemma chunks_length (l : list A) : length (chunks S l) = (length l + S - 1) / S.
Proof.
  induction l as [|l Hl IH] using chunks_ind.
  - simpl. symmetry. apply Nat.div_small. lia.
  - rewrite chunks_step by exact Hl. cbn [length]. rewrite IH. rewrite skipn_length.
    assert (Hpos : 0 < length l) by (destruct l; [congruence|simpl; lia]).
    destruct (Nat.le_gt_cases S (length l)) as [Hge|Hlt].
    + replace (length l + S - 1) with ((length l - S + S - 1) + 1 * S) by lia.
      rewrite Nat.div_add by lia. lia.
    + replace (length l - S) with 0 by lia.
      rewrite (Nat.div_small (0 + S - 1)) by lia.
      replace (length l + S - 1) with ((length l - 1) + 1 * S) by lia.
      rewrite Nat.div_add by lia. rewrite Nat.div_small by lia. reflexivity.
Qed.

Lemma skipn_add (l : list A) : forall a b, skipn a (skipn b l) = skipn (b + a) l.
Proof.
  induction l as [|x l IH]; intros a b.
  - rewrite !skipn_nil. reflexivity.
  - destruct b as [|b]; [reflexivity|]. cbn [skipn Nat.add]. apply IH.
Qed.

Lemma chunks_nth (l : list A) : forall i, nth i (chunks S l) [] = firstn S (skipn (i * S) l).
Proof.
  induction l as [|l Hl IH] using chunks_ind; intros i.
  - rewrite skipn_nil, firstn_nil. destruct i; reflexivity.
  - rewrite chunks_step by exact Hl. destruct i as [|i]; [reflexivity|].
    cbn [nth]. rewrite IH. rewrite skipn_add. f_equal; f_equal; lia.
Qed.

Lemma chunks_last_seg (l : list A) : l <> [] -> length (chunks S l) = (length l - 1) / S + 1.
Proof.
  intros Hl. rewrite chunks_length.
  assert (Hpos : 0 < length l) by (destruct l; [congruence|simpl; lia]).
  replace (length l + S - 1) with ((length l - 1) + 1 * S) by lia.
  rewrite Nat.div_add by lia. reflexivity.
Qed.

Lemma chunk_size_full (l : list A) i : (i + 1) * S <= length l -> length (nth i (chunks S l) []) = S.
Proof. intros H. rewrite chunks_nth, firstn_length, skipn_length. lia. Qed.

Lemma chunk_size_last (l : list A) i : i * S <= length l -> length l <= (i + 1) * S ->
  length (nth i (chunks S l) []) = length l - i * S.
Proof. intros H1 H2. rewrite chunks_nth, firstn_length, skipn_length. lia. Qed.
End Chunks.

(* ---------------- the outer loop refines chunks ---------------- *)
Lemma segs_fuel_refine S : 0 < S -> forall fuel w, measure w <= fuel ->
  exists extra, map (@concat byte) (segs_fuel S fuel w) = chunks S (concat w) ++ extra
    /\ (extra = [] \/ extra = [[]]) /\ (Forall nonempty w -> extra = []).
Proof.
  intros HS. induction fuel as [|f IH]; intros w Hm.
  - destruct w as [|b w]; [|unfold measure in Hm; simpl in Hm; lia].
    exists []. simpl. auto.
  - destruct w as [|b w'].
    + exists []. simpl. auto.
    + remember (b :: w') as w0 eqn:Ew. assert (Hw : w0 <> []) by (subst; discriminate).
      assert (Hstep : segs_fuel S (Datatypes.S f) w0 =
                      let (sc, rest) := fill_seg S w0 in sc :: segs_fuel S f rest).
      { subst w0. reflexivity. }
      rewrite Hstep. clear Hstep.
      destruct (fill_seg S w0) as [sc rest] eqn:Hf.
      destruct (concat w0) as [|y ys] eqn:Hc.
      * (* only empty buffers are left: one extra, empty segment *)
        rewrite fill_seg_all_empty in Hf by (auto; lia). inversion Hf; subst sc rest.
        exists [[]]. split; [|split; [auto|]].
        { cbn [map]. rewrite Hc. destruct f; reflexivity. }
        intros Hne. subst w0. inversion Hne as [|? ? Hb _]; subst.
        cbn [concat] in Hc. apply app_eq_nil in Hc as [Hb0 _]. contradiction.
      * pose proof (fill_seg_spec _ _ _ _ Hf) as [H1 H2].
        pose proof (fill_seg_measure_lt _ _ _ _ Hw HS Hf) as Hlt.
        destruct (IH rest ltac:(lia)) as [extra [He [Hx Hn]]].
        exists extra. cbn [map]. rewrite He, H1, H2. rewrite <- Hc.
        rewrite (chunks_step S HS (concat w0)) by (rewrite Hc; discriminate).
        split; [reflexivity|split; [exact Hx|]].
        intros Hne. apply Hn. eapply fill_seg_nonempty; eauto.
Qed.

Theorem segments_refine S content : 0 < S ->
  exists extra, map (@concat byte) (segments S content) = chunks S (concat content) ++ extra
    /\ (extra = [] \/ extra = [[]]) /\ (Forall nonempty content -> extra = []).
Proof. intros HS. apply segs_fuel_refine; [exact HS|unfold measure; lia]. Qed.

(* the payloads concatenate to the input, byte for byte, whatever the split into buffers *)
Theorem segments_concat_bytes S content : 0 < S ->
  concat (map (@concat byte) (segments S content)) = concat content.
Proof.
  intros HS. destruct (segments_refine S content HS) as [extra [He [Hx _]]].
  rewrite He, concat_app, (chunks_concat S HS).
  destruct Hx as [->| ->]; simpl; rewrite ?app_nil_r; reflexivity.
Qed.
