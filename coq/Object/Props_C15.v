(* Property C15 — a published object is retrieved byte-for-byte, newest version, completing once.
   Only theorem statements closed by `exact`, each followed by Print Assumptions. *)
From Object Require Import ObjSeg ObjSegProofs Defects.
Open Scope nat_scope.

Definition S8000 : nat := N.to_nat pSegmentSize.

(* segments_concat: for EVERY split of the content into input buffers and every segment size S > 0 the payloads of the
   produced segments are exactly the S-sized chunks of the concatenated input (at most one extra, empty segment, and none
   when no input buffer is empty), hence they concatenate to the input byte for byte. *)
Theorem segments_concat : forall S (content : wire), 0 < S ->
  (exists extra, map (@concat byte) (segments S content) = chunks S (concat content) ++ extra
     /\ (extra = [] \/ extra = [[]]) /\ (Forall nonempty content -> extra = []))
  /\ concat (map (@concat byte) (segments S content)) = concat content.
Proof. exact (fun S c H => conj (segments_refine S c H) (segments_concat_bytes S c H)). Qed.
Print Assumptions segments_concat.

(* sizes / counts / FinalBlockId are exact (arithmetic): n = (len-1)/S + 1 chunks; FinalBlockId = (len-1)/S = n-1;
   every chunk before the last has S bytes; the last has len - (n-1)*S bytes. *)
Theorem segment_count_and_sizes : forall S (data : bytes), 0 < S -> data <> [] ->
  length (chunks S data) = last_seg S (length data) + 1
  /\ (forall i, (i + 1) * S <= length data -> length (nth i (chunks S data) []) = S)
  /\ (forall i, i * S <= length data -> length data <= (i + 1) * S ->
        length (nth i (chunks S data) []) = length data - i * S).
Proof.
  exact (fun S d HS Hd => conj (chunks_last_seg S HS d Hd)
          (conj (fun i H => chunk_size_full S HS d i H) (fun i H1 H2 => chunk_size_last S HS d i H1 H2))).
Qed.
Print Assumptions segment_count_and_sizes.

(* the pinned tree returned a wrong name when the caller's name slice had spare capacity (fixed in /repo) *)
Theorem produce_alias_refuted_before_fix :
  exists nm ver spare, produce_ret_prefix nm ver spare <> nm ++ [ver_comp ver].
Proof. exact produce_alias_refuted. Qed.
Print Assumptions produce_alias_refuted_before_fix.

(* non-vacuity: the source constant is positive and a 3-buffer split of 5 bytes with S = 2 gives 3 segments *)
Example c15_example :
  0 < S8000 /\ map (@concat byte) (segments 2 [[1;2;3]; []; [4;5]]%N) = [[1;2];[3;4];[5]]%N.
Proof. split; [unfold S8000, pSegmentSize; lia|vm_compute; reflexivity]. Qed.
