(* Property C15 — a published object is retrieved byte-for-byte, newest version, completing once.
   Only theorem statements closed by `exact`, each followed by Print Assumptions. *)
From Coq Require Import Permutation.
From Names Require Import Order.
From Object Require Import ObjSeg ObjSegProofs ObjSegModel Store StoreSpec StoreMem StoreBolt StoreThm ProduceStore Defects Fetch FetchStream FetchSafe FetchLive FetchProgress FetchBudget FetchCheck.
Open Scope nat_scope.

Definition S8000 : nat := N.to_nat pSegmentSize.

(* segments_concat: for EVERY split of the content into input buffers and every segment size S > 0 the payloads of the
   produced segments are exactly the S-sized chunks of the concatenated input (at most one extra, empty segment, and none
   when no input buffer is empty), hence they concatenate to the input byte for byte. *)
Theorem segments_concat : forall S (content : wire), 0 < S ->
  (exists extra, map (@concat byte) (segments S content) = chunks S (concat content) ++ extra
     /\ (extra = [] \/ extra = [[]]) /\ (Forall nonempty content -> extra = []))
  /\ concat (map (@concat byte) (segments S content)) = concat content.
Proof. exact (fun S c H => conj (segments_refine S c H) (segments_concat_bytes S c H)). Qed.
Print Assumptions segments_concat.

(* sizes / counts / FinalBlockId are exact (arithmetic): n = (len-1)/S + 1 chunks; FinalBlockId = (len-1)/S = n-1;
   every chunk before the last has S bytes; the last has len - (n-1)*S bytes. *)
Theorem segment_count_and_sizes : forall S (data : bytes), 0 < S -> data <> [] ->
  length (chunks S data) = last_seg S (length data) + 1
  /\ (forall i, (i + 1) * S <= length data -> length (nth i (chunks S data) []) = S)
  /\ (forall i, i * S <= length data -> length data <= (i + 1) * S ->
        length (nth i (chunks S data) []) = length data - i * S).
Proof.
  exact (fun S d HS Hd => conj (chunks_last_seg S HS d Hd)
          (conj (fun i H => chunk_size_full S HS d i H) (fun i H1 H2 => chunk_size_last S HS d i H1 H2))).
Qed.
Print Assumptions segment_count_and_sizes.

(* the Produce model satisfies the oracle that every run evaluates on the IMPLEMENTATION's store dump: returned name
   name/v=ver, packets name/v=ver/seg=i carrying the chunks in order, FinalBlockId = last chunk index on every packet, one
   metadata packet name/32=metadata/v=ver/seg=0 naming name/v=ver, nothing else *)
Theorem produce_satisfies_oracle : forall S nm ver (content : wire) ret pkts, 0 < S ->
  (N.of_nat (length (segments S content)) < two64)%N ->
  produce S nm ver content = POk ret pkts ->
  produce_obs_ok S nm ver (concat content) ret pkts = true.
Proof. exact (fun S nm ver content ret pkts HS => produce_model_ok S HS nm ver content ret pkts). Qed.
Print Assumptions produce_satisfies_oracle.

(* the pinned tree returned a wrong name when the caller's name slice had spare capacity (fixed in /repo) *)
Theorem produce_alias_refuted_before_fix :
  exists nm ver spare, produce_ret_prefix nm ver spare <> nm ++ [ver_comp ver].
Proof. exact produce_alias_refuted. Qed.
Print Assumptions produce_alias_refuted_before_fix.

(* ---- the two stores refine one finite-map specification (Store.v: sp_step, spec_get_ok) ----
   spec_get_ok e nm prefix res: exact query = the wire stored under exactly nm; prefix query with nothing stored under exactly
   nm = nothing iff nothing is stored under the prefix, else a wire of MAXIMAL version among the names under it
   (StoreThm.newest_meaning spells this out). run_spec = the specification run on the same history. *)
Theorem newest_version_mem : forall (order : list cand -> list cand), (forall l, Permutation (order l) l) ->
  forall ops nm p, brackets false ops ->
  spec_get_ok (ss_e (run_spec ops)) nm p (mt_get order (ms_root (run_mem order ops)) nm p) = true.
Proof. exact StoreThm.newest_version_mem. Qed.
Print Assumptions newest_version_mem.

Theorem newest_version_bolt : forall cap ops nm p, bbrackets false ops -> Forall op_wf ops -> Forall comp_wf nm ->
  (p = true -> (N.of_nat (spec_scan_len (ss_e (fold_left sp_step ops ss_init)) nm) < cap)%N) ->
  spec_get_ok (ss_e (fold_left sp_step ops ss_init)) nm p (b_get cap (bs_db (run_bolt cap ops)) nm p) = true.
Proof. exact StoreThm.newest_version_bolt. Qed.
Print Assumptions newest_version_bolt.

Theorem removed_not_served_mem : forall (order : list cand -> list cand), (forall l, Permutation (order l) l) ->
  forall ops nm, brackets false (ops ++ [SRemove nm true]) ->
  forall q p, is_prefix nm q = true -> mt_get order (ms_root (run_mem order (ops ++ [SRemove nm true]))) q p = None.
Proof. exact StoreThm.removed_not_served_mem. Qed.
Print Assumptions removed_not_served_mem.

Theorem removed_not_served_bolt : forall cap ops nm, (0 < cap)%N -> bbrackets false (ops ++ [SRemove nm true]) ->
  Forall op_wf (ops ++ [SRemove nm true]) ->
  forall q p, Forall comp_wf q -> is_prefix nm q = true ->
  b_get cap (bs_db (run_bolt cap (ops ++ [SRemove nm true]))) q p = None.
Proof. exact StoreThm.removed_not_served_bolt. Qed.
Print Assumptions removed_not_served_bolt.

(* newest version after any number of Produce calls: `history` = for each (version, content) the store calls Produce makes
   (Begin; Put of every segment packet and of the metadata packet; Commit), versions pairwise distinct and 64-bit, contents
   non-empty; `wire_of` = spec.MakeData (any function). The consumer's metadata query Get(name/32=metadata, prefix) is
   answered with the metadata packet of the numerically largest version — by the memory store for every iteration order
   of its maps, by the bolt store as long as fewer than `cap` versions are stored. *)
Theorem newest_after_produce_mem : forall (wire_of : packet -> bytes) S nm (order : list cand -> list cand),
  (forall l, Permutation (order l) l) -> forall vs, vs_ok vs -> vs <> [] ->
  exists w, mt_get order (ms_root (run_mem order (history wire_of S nm vs))) (q_meta nm) true = Some w /\
            newest_meta wire_of S nm vs w.
Proof. exact ProduceStore.newest_after_produce_mem. Qed.
Print Assumptions newest_after_produce_mem.

Theorem newest_after_produce_bolt : forall (wire_of : packet -> bytes) S nm, Forall comp_wf nm ->
  forall cap vs, vs_ok vs -> vs <> [] -> (N.of_nat (length vs) < cap)%N ->
  exists w, b_get cap (bs_db (run_bolt cap (history wire_of S nm vs))) (q_meta nm) true = Some w /\
            newest_meta wire_of S nm vs w.
Proof. exact ProduceStore.newest_after_produce_bolt. Qed.
Print Assumptions newest_after_produce_bolt.

(* bucket order of version components is numeric order, also across byte-length boundaries (255 -> 256) *)
Theorem version_key_order : forall a b, (a < two64)%N -> (b < two64)%N ->
  bytes_cmp (comp_enc (ver_comp a)) (comp_enc (ver_comp b)) = (a ?= b)%N.
Proof. exact StoreBolt.version_key_order. Qed.
Print Assumptions version_key_order.

(* further refutations of the pinned tree's behaviour (all repaired in /repo except the scan cap, a known finding) *)
Theorem bolt_prefix_refuted_before_fix :
  b_get_prefix_old boltIterCap d2_db [mkc 8%N [97%N]] = Some [3%N] /\ b_get boltIterCap d2_db [mkc 8%N [97%N]] true = Some [5%N].
Proof. exact bolt_prefix_refuted. Qed.
Print Assumptions bolt_prefix_refuted_before_fix.

Theorem docheck_loop_refuted_before_fix : forall fuel,
  scan_old fuel (fun s => s =? 1) (fun s => s =? 0) [0; 1] 0 None = OutOfFuel.
Proof. exact docheck_loop_refuted. Qed.
Print Assumptions docheck_loop_refuted_before_fix.

Theorem consumer_alias_refuted_before_fix :
  queued_names_old 1 [mkc 8%N [97%N]] [1;2;3]%N <> map (fun s => [mkc 8%N [97%N]] ++ [seg_comp s]) [1;2;3]%N.
Proof. exact consumer_alias_refuted. Qed.
Print Assumptions consumer_alias_refuted_before_fix.

(* known finding (still in the code): the bolt prefix scan stops after cap-1 keys *)
Theorem bolt_scan_cap_refuted :
  let db := fold_right (fun v d => b_put (name_inner [mkc 8%N [97%N]; ver_comp v]) (b_value v [v]) d) [] [1;2;3;4]%N in
  b_get 4 db [mkc 8%N [97%N]] true = Some [3%N].
Proof. exact Defects.bolt_scan_cap_refuted. Qed.
Print Assumptions bolt_scan_cap_refuted.

(* consume_any_order — the consumer state machine (Consume / consumeObject / fetchMetadata / rrSegFetcher / Content /
   ExpressR) under EVERY schedule of run-loop iterations, Consume calls and engine results:
   W sid = the segments of the object stream sid fetches; run_ok = every result the engine reports for a segment Interest
   is a failure (timeout, nack, ...) or the honest Data of that segment (so: any arrival order, any losses, any
   retransmissions); run_clean = no Interest runs out of retries, no nack/engine error, names non-empty, metadata names a
   version. Then, for every stream, at every moment: no unchecked index, at most one completion, the bytes handed out
   are a prefix of the object in order; and in every quiescent state (nothing queued or in flight) the completion HAS
   been reported, exactly once, as the last callback, with an error or with exactly the published bytes — and with the
   published bytes if the run is clean. *)
Theorem consume_any_order : forall (W : nat -> list bytes), wf_world W ->
  forall evs, run_ok W cl_init evs ->
  let c := fold_left step evs cl_init in
  forall sid, sid < nstreams c ->
  let st := get_stream c sid in
  s_panic st = false /\
  completions (s_log st) <= 1 /\
  (exists m, log_chunks (s_log st) = concat (firstn m (W sid))) /\
  (quiescent c ->
     s_complete st = true /\ completions (s_log st) = 1 /\
     consume_log_ok (concat (W sid)) true (s_log st) = true /\
     (run_clean cl_init evs -> consume_log_ok (concat (W sid)) false (s_log st) = true)).
Proof. exact FetchBudget.consume_any_order. Qed.
Print Assumptions consume_any_order.

(* bounded progress: from any state c reachable in an honest run, a continuation without new Consume calls changes the
   state at most `potential W c` times (a natural number computed from the queues, the remaining retries and the segments
   not yet requested); so the consumer state machine cannot run forever, and once nothing changes any more it is
   quiescent, where consume_any_order says every consumer has completed *)
Theorem bounded_progress : forall (W : nat -> list bytes), wf_world W ->
  forall evs0 evs k, run_ok W cl_init evs0 ->
  let c := fold_left step evs0 cl_init in
  run_ok W c evs -> Forall (fun e => forall nm pol, e <> EvConsume nm pol) evs -> changes c evs k ->
  k + potential W (fold_left step evs c) <= potential W c.
Proof. exact FetchProgress.bounded_progress_reachable. Qed.
Print Assumptions bounded_progress.

(* error_once: a consumer that ends with an error has exactly one completion callback, the last one, carrying that
   error (finalizeError is idempotent and handleData ignores finished streams), for every schedule *)
Theorem error_once : forall (W : nat -> list bytes), wf_world W ->
  forall evs, run_ok W cl_init evs ->
  let c := fold_left step evs cl_init in
  forall sid e, sid < nstreams c -> s_err (get_stream c sid) = Some e ->
  exists l r, s_log (get_stream c sid) = l ++ [r] /\ cb_complete r = true /\ cb_err r = Some e /\ completions l = 0.
Proof. exact FetchBudget.error_once. Qed.
Print Assumptions error_once.

(* non-vacuity: the source constant is positive and a 3-buffer split of 5 bytes with S = 2 gives 3 segments *)
Example c15_example :
  0 < S8000 /\ map (@concat byte) (segments 2 [[1;2;3]; []; [4;5]]%N) = [[1;2];[3;4];[5]]%N.
Proof. split; [unfold S8000, pSegmentSize; lia|vm_compute; reflexivity]. Qed.

(* non-vacuity of consume_any_order: a three-segment object, replies arriving in the order 0, 2, (timeout of 1), 1 —
   the run is honest, clean and quiescent, and the consumer was handed exactly the six published bytes *)
Example c15_consume_example :
  wf_world ex_W /\ run_ok ex_W cl_init ex_evs /\ run_clean cl_init ex_evs /\
  quiescent (fold_left step ex_evs cl_init) /\
  log_chunks (s_log (get_stream (fold_left step ex_evs cl_init) 0)) = [1;2;3;4;5;6]%N.
Proof. exact (conj ex_wf consume_example). Qed.
