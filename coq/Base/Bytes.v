(* Base/Bytes.v — bytes as N, big-endian numbers, list helpers shared by all families. *)
From Coq Require Export List NArith ZArith Lia Bool.
From Coq Require Import ZifyBool ZifyN ZifyNat.
Export ListNotations.
Open Scope N_scope.

Definition byte := N.
Definition bytes := list byte.

Definition is_byte (b : N) : bool := b <? 256.
Definition bytes_ok (l : bytes) : Prop := Forall (fun b => b < 256) l.
Definition bytes_okb (l : bytes) : bool := forallb is_byte l.

Lemma bytes_okb_spec l : bytes_okb l = true <-> bytes_ok l.
Proof.
  unfold bytes_okb, bytes_ok. rewrite forallb_forall, Forall_forall.
  split; intros H x Hx; specialize (H x Hx); unfold is_byte in *; lia.
Qed.

Lemma bytes_ok_app a b : bytes_ok (a ++ b) <-> bytes_ok a /\ bytes_ok b.
Proof. unfold bytes_ok. apply Forall_app. Qed.

(* big-endian encoding of n on exactly k bytes (n taken mod 256^k) *)
Fixpoint be (k : nat) (n : N) : bytes :=
  match k with
  | O => []
  | S k' => (n / 256 ^ N.of_nat k') mod 256 :: be k' n
  end.

Fixpoint be_val_acc (acc : N) (l : bytes) : N :=
  match l with
  | [] => acc
  | b :: r => be_val_acc (acc * 256 + b) r
  end.
Definition be_val (l : bytes) : N := be_val_acc 0 l.

Lemma be_length k n : length (be k n) = k.
Proof. induction k; simpl; congruence. Qed.

Lemma be_ok k n : bytes_ok (be k n).
Proof.
  induction k; simpl; constructor; auto.
  apply N.mod_lt. lia.
Qed.

Lemma be_val_acc_app acc a b : be_val_acc acc (a ++ b) = be_val_acc (be_val_acc acc a) b.
Proof. revert acc; induction a as [|x a IH]; simpl; intros; auto. Qed.

Lemma be_val_acc_be k : forall acc n, n < 256 ^ N.of_nat k ->
  be_val_acc acc (be k n) = acc * 256 ^ N.of_nat k + n.
Proof.
  induction k as [|k IH]; intros acc n Hn.
  - simpl in *. lia.
  - cbn [be be_val_acc].
    assert (Hp : 256 ^ N.of_nat (S k) = 256 * 256 ^ N.of_nat k).
    { rewrite Nat2N.inj_succ, N.pow_succ_r'. reflexivity. }
    rewrite Hp in *.
    set (P := 256 ^ N.of_nat k) in *.
    assert (HP : 0 < P) by (subst P; apply N.neq_0_lt_0, N.pow_nonzero; lia).
    assert (Hq : n / P < 256) by (apply N.div_lt_upper_bound; lia).
    rewrite (N.mod_small (n / P) 256) by exact Hq.
    (* be k n only depends on n mod P *)
    assert (Hbe : forall j m q, be j (m + q * 256 ^ N.of_nat j) = be j m).
    { clear. induction j as [|j IHj]; intros m q; [reflexivity|].
      cbn [be]. f_equal.
      - rewrite Nat2N.inj_succ, N.pow_succ_r'.
        replace (m + q * (256 * 256 ^ N.of_nat j)) with (m + (q*256) * 256 ^ N.of_nat j) by lia.
        rewrite N.div_add by (apply N.pow_nonzero; lia).
        rewrite N.add_mod by lia. rewrite N.mod_mul by lia. rewrite N.add_0_r.
        apply N.mod_mod. lia.
      - rewrite Nat2N.inj_succ, N.pow_succ_r'.
        replace (m + q * (256 * 256 ^ N.of_nat j)) with (m + (q*256) * 256 ^ N.of_nat j) by lia.
        apply IHj. }
    rewrite (N.div_mod' n P) at 2.
    replace (P * (n / P) + n mod P) with (n mod P + (n / P) * 256 ^ N.of_nat k) by (subst P; lia).
    rewrite Hbe.
    rewrite IH by (apply N.mod_lt; lia).
    fold P. pose proof (N.div_mod' n P). lia.
Qed.

Lemma be_val_be k n : n < 256 ^ N.of_nat k -> be_val (be k n) = n.
Proof. intros H. unfold be_val. rewrite be_val_acc_be by exact H. lia. Qed.

Lemma be_val_acc_bound l : forall acc, bytes_ok l ->
  be_val_acc acc l < (acc + 1) * 256 ^ N.of_nat (length l).
Proof.
  induction l as [|b l IH]; intros acc H.
  - simpl. lia.
  - inversion H as [|? ? Hb Hl]; subst. cbn [be_val_acc length].
    specialize (IH (acc * 256 + b) Hl).
    rewrite Nat2N.inj_succ, N.pow_succ_r'.
    eapply N.lt_le_trans; [exact IH|].
    assert (0 < 256 ^ N.of_nat (length l)) by (apply N.neq_0_lt_0, N.pow_nonzero; lia).
    nia.
Qed.

Lemma be_val_bound l : bytes_ok l -> be_val l < 256 ^ N.of_nat (length l).
Proof. intros H. pose proof (be_val_acc_bound l 0 H). unfold be_val. lia. Qed.

(* list helpers *)
Fixpoint list_eqb {A} (eqb : A -> A -> bool) (a b : list A) : bool :=
  match a, b with
  | [], [] => true
  | x :: a', y :: b' => eqb x y && list_eqb eqb a' b'
  | _, _ => false
  end.

Lemma list_eqb_spec {A} (eqb : A -> A -> bool) :
  (forall x y, eqb x y = true <-> x = y) ->
  forall a b, list_eqb eqb a b = true <-> a = b.
Proof.
  intros He a; induction a as [|x a IH]; intros [|y b]; simpl; split; intros H;
    try discriminate; auto.
  - apply andb_true_iff in H as [H1 H2]. apply He in H1. apply IH in H2. congruence.
  - inversion H; subst. apply andb_true_iff; split; [apply He|apply IH]; reflexivity.
Qed.

Definition bytes_eqb : bytes -> bytes -> bool := list_eqb N.eqb.
Lemma bytes_eqb_spec a b : bytes_eqb a b = true <-> a = b.
Proof. apply list_eqb_spec. intros; apply N.eqb_eq. Qed.
