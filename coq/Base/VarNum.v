(* Base/VarNum.v — NDN TLV variable-size numbers (std/encoding/primitives.go).
   tl_enc/tl_dec : TLNum.EncodeInto / ReadTLNum (1/3/5/9 bytes; the decoder accepts non-minimal forms)
   nat_enc/nat_dec: Nat.EncodeInto / ParseNat    (1/2/4/8 bytes) *)
From Base Require Export Bytes.
From Coq Require Import ZifyBool ZifyN ZifyNat.
Open Scope N_scope.

Definition two64 : N := 18446744073709551616.

Definition tl_len (n : N) : nat :=
  if n <=? 252 then 1%nat else if n <=? 65535 then 3%nat else if n <=? 4294967295 then 5%nat else 9%nat.

Definition tl_enc (n : N) : bytes :=
  if n <=? 252 then [n]
  else if n <=? 65535 then 253 :: be 2 n
  else if n <=? 4294967295 then 254 :: be 4 n
  else 255 :: be 8 n.

(* ReadTLNum on a byte list: Some (value, rest) or None (EOF / unexpected EOF) *)
Definition take_be (k : nat) (l : bytes) : option (N * bytes) :=
  if (k <=? length l)%nat then Some (be_val (firstn k l), skipn k l) else None.

Definition tl_dec (l : bytes) : option (N * bytes) :=
  match l with
  | [] => None
  | x :: r =>
      if x <=? 252 then Some (x, r)
      else if x =? 253 then take_be 2 r
      else if x =? 254 then take_be 4 r
      else take_be 8 r
  end.

Definition nat_len (n : N) : nat :=
  if n <=? 255 then 1%nat else if n <=? 65535 then 2%nat else if n <=? 4294967295 then 4%nat else 8%nat.
Definition nat_enc (n : N) : bytes := be (nat_len n) n.
Definition nat_dec (l : bytes) : option N :=
  match length l with
  | 1%nat | 2%nat | 4%nat | 8%nat => Some (be_val l)
  | _ => None
  end.

Lemma tl_enc_length n : length (tl_enc n) = tl_len n.
Proof.
  unfold tl_enc, tl_len.
  destruct (n <=? 252); [reflexivity|].
  destruct (n <=? 65535); [reflexivity|].
  destruct (n <=? 4294967295); reflexivity.
Qed.

Lemma tl_enc_ok n : n < two64 -> bytes_ok (tl_enc n).
Proof.
  intros Hn. unfold tl_enc.
  destruct (n <=? 252) eqn:E1; [repeat constructor; lia|].
  destruct (n <=? 65535); [constructor; [lia|apply be_ok]|].
  destruct (n <=? 4294967295); (constructor; [lia|apply be_ok]).
Qed.

Lemma take_be_app k n r : n < 256 ^ N.of_nat k -> take_be k (be k n ++ r) = Some (n, r).
Proof.
  intros Hn. unfold take_be.
  assert (Hl : length (be k n) = k) by apply be_length.
  rewrite app_length, Hl.
  replace (k <=? k + length r)%nat with true by (symmetry; apply Nat.leb_le; lia).
  rewrite <- Hl at 1. rewrite firstn_app, firstn_all, Nat.sub_diag. simpl. rewrite app_nil_r.
  rewrite <- Hl at 2. rewrite skipn_app, skipn_all, Nat.sub_diag. simpl.
  rewrite be_val_be by exact Hn. reflexivity.
Qed.

Theorem tl_dec_enc n r : n < two64 -> tl_dec (tl_enc n ++ r) = Some (n, r).
Proof.
  intros Hn. unfold tl_enc, two64 in *.
  destruct (n <=? 252) eqn:E1.
  { simpl. rewrite E1. reflexivity. }
  destruct (n <=? 65535) eqn:E2.
  { cbn [app tl_dec]. change (253 <=? 252) with false. change (253 =? 253) with true. cbv iota.
    apply take_be_app. change (256 ^ N.of_nat 2) with 65536. lia. }
  destruct (n <=? 4294967295) eqn:E3.
  { cbn [app tl_dec]. change (254 <=? 252) with false. change (254 =? 253) with false.
    change (254 =? 254) with true. cbv iota.
    apply take_be_app. change (256 ^ N.of_nat 4) with 4294967296. lia. }
  cbn [app tl_dec]. change (255 <=? 252) with false. change (255 =? 253) with false.
  change (255 =? 254) with false. cbv iota.
  apply take_be_app. change (256 ^ N.of_nat 8) with 18446744073709551616. lia.
Qed.

Lemma take_be_shorter k l v r : take_be k l = Some (v, r) -> length l = (k + length r)%nat.
Proof.
  unfold take_be. destruct (k <=? length l)%nat eqn:E; [|discriminate].
  intros H; inversion H; subst. rewrite skipn_length. apply Nat.leb_le in E. lia.
Qed.

Lemma tl_dec_shorter l v r : tl_dec l = Some (v, r) -> (length r < length l)%nat.
Proof.
  destruct l as [|x l]; simpl; [discriminate|].
  destruct (x <=? 252); [intros H; inversion H; subst; lia|].
  destruct (x =? 253); [intros H; apply take_be_shorter in H; lia|].
  destruct (x =? 254); intros H; apply take_be_shorter in H; lia.
Qed.

Lemma take_be_bound k l v r : bytes_ok l -> take_be k l = Some (v, r) -> v < 256 ^ N.of_nat k /\ bytes_ok r.
Proof.
  unfold take_be. destruct (k <=? length l)%nat eqn:E; [|discriminate].
  intros Hok H; inversion H; subst. apply Nat.leb_le in E. split.
  - pose proof (be_val_bound (firstn k l)) as Hb.
    rewrite firstn_length_le in Hb by lia. apply Hb.
    unfold bytes_ok in *. rewrite <- (firstn_skipn k l) in Hok. apply Forall_app in Hok. tauto.
  - unfold bytes_ok in *. rewrite <- (firstn_skipn k l) in Hok. apply Forall_app in Hok. tauto.
Qed.

Lemma tl_dec_bound l v r : bytes_ok l -> tl_dec l = Some (v, r) -> v < two64 /\ bytes_ok r.
Proof.
  destruct l as [|x l]; simpl; [discriminate|]. intros Hok. inversion Hok as [|? ? Hx Hl]; subst.
  unfold two64.
  destruct (x <=? 252) eqn:E; [intros H; inversion H; subst; split; [lia|assumption]|].
  destruct (x =? 253).
  { intros H. apply take_be_bound in H; [|assumption]. change (256 ^ N.of_nat 2) with 65536 in H. split; [lia|tauto]. }
  destruct (x =? 254).
  { intros H. apply take_be_bound in H; [|assumption]. change (256 ^ N.of_nat 4) with 4294967296 in H. split; [lia|tauto]. }
  intros H. apply take_be_bound in H; [|assumption]. change (256 ^ N.of_nat 8) with 18446744073709551616 in H. tauto.
Qed.

Lemma nat_enc_length n : length (nat_enc n) = nat_len n.
Proof. apply be_length. Qed.

Theorem nat_dec_enc n : n < two64 -> nat_dec (nat_enc n) = Some n.
Proof.
  intros Hn. unfold nat_dec, nat_enc. rewrite be_length. unfold nat_len, two64 in *.
  destruct (n <=? 255) eqn:E1.
  { rewrite be_val_be; [reflexivity|]. change (256 ^ N.of_nat 1) with 256. lia. }
  destruct (n <=? 65535) eqn:E2.
  { rewrite be_val_be; [reflexivity|]. change (256 ^ N.of_nat 2) with 65536. lia. }
  destruct (n <=? 4294967295) eqn:E3.
  { rewrite be_val_be; [reflexivity|]. change (256 ^ N.of_nat 4) with 4294967296. lia. }
  rewrite be_val_be; [reflexivity|]. change (256 ^ N.of_nat 8) with 18446744073709551616. lia.
Qed.

(* Nat and TLNum length prefixes coincide exactly below 253: the root of the C03 defect. *)
Lemma nat_enc_eq_tl_enc_small n : n <= 252 -> nat_enc n = tl_enc n.
Proof.
  intros H. unfold nat_enc, nat_len, tl_enc.
  replace (n <=? 255) with true by lia. replace (n <=? 252) with true by lia.
  cbn [be]. change (256 ^ N.of_nat 0) with 1. rewrite N.div_1_r, N.mod_small by lia. reflexivity.
Qed.
