(* Dv/Model.v — executable model of the distance-vector routing tables of ndnd's dv daemon.
   No proofs here.

   Modelled code (line by line where it matters):
     dv/table/rib.go            Rib.Set, RibEntry.Set, RibEntry.refresh, Rib.DirtyResetNextHop, Rib.Prune,
                                Rib.RemoveNextHop, Rib.Advert, Rib.Entries
     dv/dv/table_algo.go        Router.ribUpdate (cost+1, poison reverse through OtherCost, skip >= infinity,
                                reset-then-set per neighbour, prune), Router.checkDeadNeighbors (per dead neighbour)
     dv/table/neighbor_table.go NeighborTable.Add / Remove (only the set of neighbour names matters here)
     dv/dv/router.go            Start: rib.Set(self, self, 0)
     dv/dv/advert_sync.go       advertSyncOnInterest: a neighbour entry is created when none exists

   Identities: a router / destination / next hop is identified by the 64-bit hash of its name (the keys of
   the Go maps); the same number is the tie-break key of refresh.  Hash collisions between router names are
   assumed away (the harness checks the generated names are collision free).
   Go maps are association lists with unique keys; every place where Go iterates over a map is a fold over the
   list in list order, and the theorems show the result does not depend on that order. *)
From Coq Require Export List NArith ZArith Bool.
From Dv Require Export GenConsts.
Export ListNotations.
Open Scope N_scope.

Definition node := N.
Definition INF : N := cost_infinity.          (* config.CostInfinity *)
Definition wrap64 (x : N) : N := x mod 18446744073709551616.   (* uint64 arithmetic *)

(* ---- association lists (Go maps keyed by uint64) ---- *)
Fixpoint aget {A : Type} (k : N) (l : list (N * A)) : option A :=
  match l with
  | [] => None
  | (k', v) :: t => if k =? k' then Some v else aget k t
  end.

Fixpoint aset {A : Type} (k : N) (v : A) (l : list (N * A)) : list (N * A) :=
  match l with
  | [] => [(k, v)]
  | (k', v') :: t => if k =? k' then (k, v) :: t else (k', v') :: aset k v t
  end.

Fixpoint adel {A : Type} (k : N) (l : list (N * A)) : list (N * A) :=
  match l with
  | [] => []
  | (k', v') :: t => if k =? k' then adel k t else (k', v') :: adel k t
  end.

Fixpoint memN (k : N) (l : list N) : bool :=
  match l with [] => false | x :: t => (k =? x) || memN k t end.

Fixpoint delN (k : N) (l : list N) : list N :=
  match l with [] => [] | x :: t => if k =? x then delN k t else x :: delN k t end.

(* ---- RibEntry ---- *)
Record entry := mkEntry {
  costs : list (node * N);      (* neighbor hash -> cost *)
  nh1 : node;                   (* nextHop1 *)
  nh2 : node;                   (* nextHop2 *)
  low1 : N;                     (* lowest1 *)
  low2 : N;                     (* lowest2 *)
  dirty : bool
}.

Definition with_costs (e : entry) (cs : list (node * N)) : entry :=
  mkEntry cs (nh1 e) (nh2 e) (low1 e) (low2 e) (dirty e).

(* the zero-valued entry created by Rib.Set *)
Definition new_entry : entry := mkEntry [] 0 0 0 0 false.

(* (lowest1, nextHop1, lowest2, nextHop2) *)
Definition best4 := (N * node * N * node)%type.

(* The tie-break among next hops of equal cost.  The property only asks that ties are broken "the same way every time";
   which hop wins is a parameter: a rank function key (smaller rank wins).  refresh_step_k is the loop body for an
   arbitrary rank; the executable model uses the direction measured on the implementation (GenConsts.tie_smaller_wins,
   a behavioural probe): the smaller or the larger name hash.  The test `cost <? INF` is vacuous in the shipped code (an
   empty slot is (INF, 0) and no hash is below 0) and is what a larger-hash-wins variant has to add. *)
Definition refresh_step_k (key : node -> Z) (acc : best4) (hc : node * N) : best4 :=
  let '(l1, h1, l2, h2) := acc in
  let (hop, cost) := hc in
  if (cost <? l1) || ((cost =? l1) && (cost <? INF) && (key hop <? key h1)%Z) then (cost, hop, l1, h1)
  else if (cost <? l2) || ((cost =? l2) && (cost <? INF) && (key hop <? key h2)%Z) then (l1, h1, cost, hop)
  else acc.

Definition tie_key (h : node) : Z := if tie_smaller_wins then Z.of_N h else (- Z.of_N h)%Z.

(* one iteration of the loop `for hop, cost := range e.costs` in RibEntry.refresh *)
Definition refresh_step : best4 -> node * N -> best4 := refresh_step_k tie_key.

Definition refresh_fold_k (key : node -> Z) (cs : list (node * N)) : best4 :=
  fold_left (refresh_step_k key) cs (INF, 0, INF, 0).
Definition refresh_fold (cs : list (node * N)) : best4 := refresh_fold_k tie_key cs.

(* RibEntry.refresh: returns the entry and whether lowest/next hops changed *)
Definition refresh (e : entry) : entry * bool :=
  let '(l1, h1, l2, h2) := refresh_fold (costs e) in
  let same := (low1 e =? l1) && (low2 e =? l2) && (nh1 e =? h1) && (nh2 e =? h2) in
  (mkEntry (costs e) h1 h2 l1 l2 false, negb same).

(* RibEntry.Set *)
Definition entry_set (e : entry) (hop : node) (cost : N) : entry * bool :=
  match aget hop (costs e) with
  | Some known => if known =? cost then (e, false)
                  else refresh (with_costs e (aset hop cost (costs e)))
  | None => refresh (with_costs e (aset hop cost (costs e)))
  end.

(* ---- Rib ---- *)
Definition rib := list (node * entry).     (* destination hash -> entry *)

(* Rib.Set *)
Definition rib_set (r : rib) (dest hop : node) (cost : N) : rib * bool :=
  let e := match aget dest r with Some e => e | None => new_entry end in
  let (e', ch) := entry_set e hop cost in
  (aset dest e' r, ch).

(* Rib.DirtyResetNextHop *)
Definition dirty_reset (r : rib) (hop : node) : rib :=
  map (fun de : node * entry =>
         let e := snd de in
         (fst de, mkEntry (aset hop INF (costs e)) (nh1 e) (nh2 e) (low1 e) (low2 e) true)) r.

(* Rib.Prune *)
Fixpoint prune (r : rib) : rib * bool :=
  match r with
  | [] => ([], false)
  | (d, e) :: t =>
      let (e', ch) := if dirty e then refresh e else (e, false) in
      let (t', cht) := prune t in
      if low1 e' =? INF then (t', true) else ((d, e') :: t', ch || cht)
  end.

(* Rib.RemoveNextHop *)
Fixpoint remove_next_hop (r : rib) (hop : node) : rib * bool :=
  match r with
  | [] => ([], false)
  | (d, e) :: t =>
      let (t', cht) := remove_next_hop t hop in
      match aget hop (costs e) with
      | Some _ => let (e', ch) := refresh (with_costs e (adel hop (costs e))) in ((d, e') :: t', ch || cht)
      | None => ((d, e) :: t', cht)
      end
  end.

(* Rib.Advert: one AdvEntry per RIB entry *)
Record adv_entry := mkAdv { a_dest : node; a_nh : node; a_cost : N; a_other : N }.

Definition advert (r : rib) : list adv_entry :=
  map (fun de : node * entry => mkAdv (fst de) (nh1 (snd de)) (low1 (snd de)) (low2 (snd de))) r.

(* Rib.Entries: destinations with lowest1 < infinity, with best cost and next hop *)
Definition rib_entries (r : rib) : list (node * (N * node)) :=
  map (fun de : node * entry => (fst de, (low1 (snd de), nh1 (snd de))))
      (filter (fun de : node * entry => low1 (snd de) <? INF) r).

(* ---- ribUpdate ---- *)
(* the cost computed for one advertisement entry *)
Definition adv_cost (self : node) (a : adv_entry) : N :=
  if a_nh a =? self then
    (if a_other a <? INF then wrap64 (a_other a + local_cost) else INF)
  else wrap64 (a_cost a + local_cost).

Definition rib_update_step (self nbr : node) (acc : rib * bool) (a : adv_entry) : rib * bool :=
  let c := adv_cost self a in
  if INF <=? c then acc
  else let (r', ch) := rib_set (fst acc) (a_dest a) nbr c in (r', ch || snd acc).

Definition rib_update (self : node) (r : rib) (nbr : node) (adv : list adv_entry) : rib * bool :=
  let r1 := dirty_reset r nbr in
  let (r2, d2) := fold_left (rib_update_step self nbr) adv (r1, false) in
  let (r3, d3) := prune r2 in
  (r3, d3 || d2).

(* checkDeadNeighbors for one dead neighbour: RemoveNextHop then Prune *)
Definition rib_dead (r : rib) (nbr : node) : rib * bool :=
  let (r1, d1) := remove_next_hop r nbr in
  let (r2, d2) := prune r1 in
  (r2, d2 || d1).

(* ---- the per-neighbour state object (table.NeighborState), as far as ribUpdate looks at it ---- *)
Record nstate := mkNs { ns_name : node; ns_advert : option (list adv_entry) }.

(* NeighborState.delete (run by NeighborTable.Remove when checkDeadNeighbors removes the neighbour): ns.Advert = nil *)
Definition ns_delete (ns : nstate) : nstate := mkNs (ns_name ns) None.

(* ---- routers and the network ---- *)
Record router := mkRouter { self : node; rrib : rib; nbrs : list node }.

Definition init_router (i : node) : router :=
  mkRouter i (fst (rib_set [] i i 0)) [].

Definition net := list router.

Fixpoint getr (S : net) (i : node) : option router :=
  match S with
  | [] => None
  | r :: t => if self r =? i then Some r else getr t i
  end.

Fixpoint setr (S : net) (r : router) : net :=
  match S with
  | [] => [r]
  | r' :: t => if self r' =? self r then r :: t else r' :: setr t r
  end.

Fixpoint delr (S : net) (i : node) : net :=
  match S with
  | [] => []
  | r :: t => if self r =? i then delr t i else r :: delr t i
  end.

Inductive event :=
| Fetch (i j : node)        (* i processes j's current advertisement (advertDataHandler + ribUpdate) *)
| Deliver (i j : node) (adv : list adv_entry)
                            (* i processes an advertisement received from j earlier (possibly stale, or
                               arbitrary: ribUpdate does not know where it came from)                  *)
| LateUpdate (i j : node) (adv : list adv_entry)
                            (* `go dv.ribUpdate(ns)` started by advertDataHandler for neighbour j (whose advertisement
                               adv it had just stored in ns) runs only after checkDeadNeighbors removed j and
                               deleted ns: ribUpdate is handed the stale, deleted state object                  *)
| NbrUp (i j : node)        (* i creates a neighbour entry for j (first Sync Interest heard)           *)
| NbrDead (i j : node)      (* i declares j dead (checkDeadNeighbors)                                   *)
| RouterUp (i : node)       (* a router starts with fresh tables                                        *)
| RouterDown (i : node).    (* a router disappears with its tables                                      *)

(* one event; the boolean is the "advertisement might have changed" flag of the Go code *)
Definition step (S : net) (e : event) : net * bool :=
  match e with
  | Fetch i j =>
      match getr S i, getr S j with
      | Some ri, Some rj =>
          if memN j (nbrs ri) then
            let (rb, d) := rib_update i (rrib ri) j (advert (rrib rj)) in
            (setr S (mkRouter i rb (nbrs ri)), d)
          else (S, false)
      | _, _ => (S, false)
      end
  | Deliver i j adv =>
      match getr S i with
      | Some ri =>
          if memN j (nbrs ri) then
            let (rb, d) := rib_update i (rrib ri) j adv in
            (setr S (mkRouter i rb (nbrs ri)), d)
          else (S, false)
      | None => (S, false)
      end
  | LateUpdate i j adv =>
      match getr S i with
      | Some ri =>
          (* ribUpdate: `if ns.Advert == nil { return }` on the deleted object *)
          match ns_advert (ns_delete (mkNs j (Some adv))) with
          | None => (S, false)
          | Some a => let (rb, d) := rib_update i (rrib ri) (ns_name (ns_delete (mkNs j (Some adv)))) a in
                      (setr S (mkRouter i rb (nbrs ri)), d)
          end
      | None => (S, false)
      end
  | NbrUp i j =>
      match getr S i with
      | Some ri => if memN j (nbrs ri) || (i =? j) then (S, false)
                   else (setr S (mkRouter i (rrib ri) (nbrs ri ++ [j])), false)
      | None => (S, false)
      end
  | NbrDead i j =>
      match getr S i with
      | Some ri => if memN j (nbrs ri) then
                     let (rb, d) := rib_dead (rrib ri) j in
                     (setr S (mkRouter i rb (delN j (nbrs ri))), d)
                   else (S, false)
      | None => (S, false)
      end
  | RouterUp i =>
      match getr S i with
      | Some _ => (S, false)
      | None => (S ++ [init_router i], false)
      end
  | RouterDown i => (delr S i, false)
  end.

Definition run (S : net) (evs : list event) : net :=
  fold_left (fun S e => fst (step S e)) evs S.
