(* Dv/Quiet.v — phase 3: after the best costs and next hops have converged, the remaining per-hop costs (those
   learnt through poison reverse from a router's own children in the shortest-path tree, i.e. the second-best
   costs) converge too, bottom-up along the tree, within INF + 1 further rounds.  The whole RIB of every router
   is then a fixed point: processing any neighbour's advertisement changes nothing. *)
From Coq Require Import Lia ZifyBool ZifyN ZifyNat PeanoNat Nnat.
From Dv Require Import Model Spec Refresh RibFacts Net Graph Conv.
Open Scope N_scope.

(* ---- minimum of a list of costs, INF if empty ---- *)
Definition lmin (l : list N) : N := fold_right N.min INF l.

Lemma lmin_le : forall l x, In x l -> lmin l <= x.
Proof.
  induction l as [|y l IH]; intros x Hin; [destruct Hin|].
  simpl. destruct Hin as [-> | Hin]; [lia|].
  specialize (IH x Hin). lia.
Qed.

Lemma lmin_le_INF : forall l, lmin l <= INF.
Proof. induction l as [|y l IH]; simpl; lia. Qed.

Lemma lmin_in : forall l, lmin l = INF \/ In (lmin l) l.
Proof.
  induction l as [|y l IH]; simpl; [left; reflexivity|].
  destruct (N.min_spec y (lmin l)) as [[_ ->] | [_ ->]]; [right; left; reflexivity|].
  destruct IH as [-> | H]; [left; reflexivity | right; right; exact H].
Qed.

Lemma lmin_ge : forall l b, b <= INF -> (forall x, In x l -> b <= x) -> b <= lmin l.
Proof.
  intros l b Hb H. destruct (lmin_in l) as [-> | Hin]; [exact Hb | apply H; exact Hin].
Qed.

Lemma lmin_map_ext : forall (A : Type) (f f' : A -> N) l, (forall x, In x l -> f x = f' x) ->
  lmin (map f l) = lmin (map f' l).
Proof. intros A f f' l H. f_equal. apply map_ext_in. exact H. Qed.

(* cost after one more hop, cut at INF (what adv_cost and the skip test of ribUpdate compute) *)
Definition cap1 (x : N) : N := if INF <=? x + 1 then INF else x + 1.

Lemma b2_le_INF : forall r d, rib_ok r -> b2 r d <= INF.
Proof.
  intros r d Hok. unfold b2. destruct (aget d r) as [e|] eqn:He; [|lia].
  destruct (entry_two_least r d e Hok He) as ([_ S] & _ & _).
  destruct S as [(-> & _) | (Hlt & _)]; lia.
Qed.

(* the second-best cost is the least per-hop cost over the neighbours other than the best next hop *)
Lemma b2_lmin : forall ro d, router_ok ro -> self ro <> d ->
  b2 (rrib ro) d = lmin (map (fun h => rv (rrib ro) d h) (filter (fun h => negb (h =? n1 (rrib ro) d)) (nbrs ro))).
Proof.
  intros ro d (Rok & Hh & _ & _) Hsd.
  apply N.le_antisymm.
  - apply lmin_ge; [apply b2_le_INF; exact Rok|].
    intros x Hx. apply in_map_iff in Hx. destruct Hx as (h & <- & Hin).
    apply filter_In in Hin. destruct Hin as [_ Hne]. apply b2_le_rv; [exact Rok | lia].
  - destruct (N.lt_ge_cases (b2 (rrib ro) d) INF) as [Hlt | Hge].
    + destruct (b2_attained (rrib ro) d Rok Hlt) as [Hatt Hne].
      apply lmin_le. apply in_map_iff. exists (n2 (rrib ro) d). split; [exact Hatt|].
      apply filter_In. split; [|lia].
      assert (Hlt' : rv (rrib ro) d (n2 (rrib ro) d) < INF) by lia.
      destruct (Hh d _ Hlt') as [H | [_ H]]; [exact H | congruence].
    + pose proof (lmin_le_INF (map (fun h => rv (rrib ro) d h) (filter (fun h => negb (h =? n1 (rrib ro) d)) (nbrs ro)))). lia.
Qed.

(* what a router stores after processing an advertisement, in terms of the sender's best / second best *)
Lemma newc_form : forall i rj d, rib_ok rj ->
  newc i rj d = if b1 rj d <? INF then (if n1 rj d =? i then cap1 (b2 rj d) else cap1 (b1 rj d)) else INF.
Proof.
  intros i rj d Hok. pose proof (b2_le_INF rj d Hok) as H2. pose proof (proj1 (b1_lt_INF_iff rj d Hok)) as H1.
  unfold newc, b1, b2, n1 in *. destruct (aget d rj) as [e|] eqn:He.
  - destruct Hok as [_ H]. destruct (H d e He) as [_ Hl].
    assert (Hl' : (low1 e <? INF) = true) by lia. rewrite Hl'.
    unfold adv_cost, cap1. simpl. destruct (nh1 e =? i).
    + destruct (low2 e <? INF) eqn:E2.
      * rewrite wrap64_small by lia. reflexivity.
      * assert (low2 e = INF) by lia. rewrite H0.
        destruct (INF <=? INF) eqn:E3; [|lia]. destruct (INF <=? INF + 1) eqn:E4; [reflexivity | lia].
    + rewrite wrap64_small by lia. reflexivity.
  - destruct (INF <? INF) eqn:E; [lia | reflexivity].
Qed.

Section Phase3.
Variable g : graph.
Hypothesis g_settled : settled g = true.
Hypothesis g_noself : forall j, ~ In j (nb g j).
Variable K : N.
Hypothesis K_bound : dist_bound g K.

(* the converged best cost and next hop, as functions of the topology alone (instantiated below) *)
Variable Dn : node -> node -> N.
Variable Pn : node -> node -> node.

(* the invariant of phase 3: phases 1 and 2 are complete *)
Definition I3 (S : net) : Prop := at_g g S /\ NU g S /\ UB g K S.

Hypothesis HD : forall S j rj d, I3 S -> getr S j = Some rj ->
  b1 (rrib rj) d = Dn j d /\ n1 (rrib rj) d = Pn j d.
Hypothesis HP1 : forall h d, Dn h d < INF -> h <> d -> Dn (Pn h d) d + 1 = Dn h d.
Hypothesis HPself : forall d, Dn d d < INF -> Pn d d = d.

(* the limit of the cost router i stores for destination d through neighbour j, by bounded recursion down the
   shortest-path tree of d *)
Fixpoint X (f : nat) (i j d : node) : N :=
  match f with
  | O => INF
  | S f' =>
      if Dn j d <? INF then
        (if Pn j d =? i
         then cap1 (lmin (map (fun h => X f' j h d) (filter (fun h => negb (h =? i)) (nb g j))))
         else cap1 (Dn j d))
      else INF
  end.

(* when the value of (i, j, d) is final *)
Definition rank (i j d : node) : N :=
  if (Dn j d <? INF) && (Pn j d =? i) then 1 + (INF - Dn j d) else 1.

Lemma X_stable : forall f i j d, i <> j -> rank i j d <= N.of_nat f -> X f i j d = X (S f) i j d.
Proof.
  induction f as [|f IH]; intros i j d Hij Hr.
  - unfold rank in Hr. destruct ((Dn j d <? INF) && (Pn j d =? i)); lia.
  - change (X (S f) i j d) with
      (if Dn j d <? INF then
         (if Pn j d =? i
          then cap1 (lmin (map (fun h => X f j h d) (filter (fun h => negb (h =? i)) (nb g j))))
          else cap1 (Dn j d))
       else INF).
    change (X (S (S f)) i j d) with
      (if Dn j d <? INF then
         (if Pn j d =? i
          then cap1 (lmin (map (fun h => X (S f) j h d) (filter (fun h => negb (h =? i)) (nb g j))))
          else cap1 (Dn j d))
       else INF).
    destruct (Dn j d <? INF) eqn:Ed; [|reflexivity].
    destruct (Pn j d =? i) eqn:Ep; [|reflexivity].
    f_equal. apply lmin_map_ext. intros h Hin. apply filter_In in Hin. destruct Hin as [Hnb Hne].
    (* j is not d: its next hop is a neighbour, not itself *)
    assert (Hjd : j <> d).
    { intros ->. rewrite (HPself d) in Ep by lia. lia. }
    assert (Hjh : j <> h) by (intros ->; exact (g_noself h Hnb)).
    apply IH; [exact Hjh|].
    unfold rank in *. rewrite Ed, Ep in Hr. cbn [andb] in Hr.
    destruct ((Dn h d <? INF) && (Pn h d =? j)) eqn:Ec; [|lia].
    apply andb_true_iff in Ec. destruct Ec as [Ec1 Ec2].
    assert (Hhd : h <> d).
    { intros ->. rewrite (HPself d) in Ec2 by lia. lia. }
    pose proof (HP1 h d) as H1. assert (Pn h d = j) by lia. rewrite H in H1. lia.
Qed.

Lemma X_S : forall f i j d,
  X (S f) i j d =
  if Dn j d <? INF then
    (if Pn j d =? i
     then cap1 (lmin (map (fun h => X f j h d) (filter (fun h => negb (h =? i)) (nb g j))))
     else cap1 (Dn j d))
  else INF.
Proof. reflexivity. Qed.

Lemma rank_le : forall i j d, rank i j d <= INF + 1.
Proof. intros i j d. unfold rank. destruct ((Dn j d <? INF) && (Pn j d =? i)); pose proof INF_pos; lia. Qed.

Lemma E_neq : forall i j, E g i j -> i <> j.
Proof. intros i j He ->. exact (g_noself j He). Qed.

(* the per-pair predicate of phase 3: values of rank <= l are final *)
Definition Fp (l : N) (S : net) (i j : node) : Prop :=
  forall ri d, getr S i = Some ri -> rank i j d <= l -> rv (rrib ri) d j = X (N.to_nat l) i j d.

Definition allF (l : N) (S : net) : Prop := forall i j, E g i j -> Fp l S i j.

(* the value computed from the advertisement of a router of a level-l state is final at level l+1 *)
Lemma F_core : forall l Sp i j rj d, I3 Sp -> allF l Sp -> getr Sp j = Some rj -> E g i j ->
  rank i j d <= l + 1 -> newc i (rrib rj) d = X (N.to_nat (l + 1)) i j d.
Proof.
  intros l Sp i j rj d HI HF Gj He Hr.
  pose proof HI as (Hat & HNU & HUB). pose proof Hat as [[_ Hall] Hg].
  destruct (getr_some _ _ _ Gj) as [Ij Sj]. pose proof (Hall rj Ij) as Hrok. pose proof Hrok as (Rj & Hhj & Zj & Nj).
  destruct (HD Sp j rj d HI Gj) as [Hb Hn].
  replace (N.to_nat (l + 1)) with (Datatypes.S (N.to_nat l)) by lia.
  rewrite newc_form by exact Rj. rewrite X_S, Hb, Hn.
  destruct (Dn j d <? INF) eqn:Ed; [|reflexivity].
  destruct (Pn j d =? i) eqn:Ep; [|reflexivity].
  pose proof (E_neq i j He) as Hij.
  assert (Hjd : j <> d).
  { intros ->. rewrite (HPself d) in Ep by lia. lia. }
  f_equal. rewrite (b2_lmin rj d Hrok) by (rewrite Sj; exact Hjd).
  rewrite Hn. assert (Pn j d = i) by lia. rewrite H.
  rewrite <- (proj1 (topo_nb Sp j rj Gj)). rewrite Hg.
  apply lmin_map_ext. intros h Hin. apply filter_In in Hin. destruct Hin as [Hnb Hne].
  apply (HF j h Hnb rj d Gj).
  unfold rank in *. rewrite Ed, Ep in Hr. cbn [andb] in Hr.
  destruct ((Dn h d <? INF) && (Pn h d =? j)) eqn:Ec; [|lia].
  apply andb_true_iff in Ec. destruct Ec as [Ec1 Ec2].
  assert (Hhd : h <> d).
  { intros ->. rewrite (HPself d) in Ec2 by lia. lia. }
  pose proof (HP1 h d) as H1. assert (Pn h d = j) by lia. rewrite H0 in H1. lia.
Qed.

Lemma F_up : forall l S Sp i j rj, at_g g S -> I3 Sp -> allF l Sp -> getr Sp j = Some rj -> E g i j ->
  Fp (l + 1) (fst (step S (Deliver i j (advert (rrib rj))))) i j.
Proof.
  intros l S Sp i j rj Hat HI HF Gj He.
  destruct (deliver_cases g S i j (advert (rrib rj)) Hat)
    as [[_ Hn] | (_ & ri & ri' & Gi & Hj & Si' & Nb' & Hrv & Hget & Hat')]; [contradiction|].
  intros rx d Gx Hr. rewrite Hget, N.eqb_refl in Gx. inversion Gx; subst rx; clear Gx.
  pose proof HI as (Hatp & _). pose proof Hatp as [[_ Hall] _].
  destruct (getr_some _ _ _ Gj) as [Ij Sj]. destruct (Hall rj Ij) as (Rj & _).
  rewrite Hrv, N.eqb_refl. rewrite lastc_advert by (destruct Rj as [Hn _]; exact Hn).
  apply (F_core l Sp i j rj d HI HF Gj He Hr).
Qed.

Lemma F_keep : forall l S i j adv i' j', at_g g S -> E g i' j' -> Fp l S i' j' -> (i' <> i \/ j' <> j) ->
  Fp l (fst (step S (Deliver i j adv))) i' j'.
Proof.
  intros l S i j adv i' j' Hat He HP Hne.
  destruct (deliver_cases g S i j adv Hat)
    as [[-> _] | (_ & ri & ri' & Gi & Hj & Si' & Nb' & Hrv & Hget & Hat')]; [exact HP|].
  intros rx d Gx. rewrite Hget in Gx. destruct (i' =? i) eqn:Ei.
  - inversion Gx; subst rx; clear Gx. assert (i' = i) by lia. subst i'.
    assert (Hjj : (j' =? j) = false) by (destruct Hne; lia).
    rewrite Hrv, Hjj. apply HP. exact Gi.
  - apply HP. exact Gx.
Qed.

(* the level predicate handed to the round lemma: phases 1 and 2 stay complete, phase 3 advances.
   (E i j is carried inside because the round lemma's monotonicity hypothesis does not provide it) *)
Definition P3 (l : N) (S : net) (i j : node) : Prop := P2 g K S i j /\ (E g i j -> Fp l S i j).

Lemma allP3 : forall l S, allP g P3 l S <-> NU g S /\ UB g K S /\ allF l S.
Proof.
  intros l S. split.
  - intros H. split; [|split]; intros i j He; destruct (H i j He) as [[A B] C]; auto.
  - intros (H1 & H2 & H3) i j He. split; [split; [apply H1 | apply H2]; exact He | intros _; apply H3; exact He].
Qed.

Lemma P3_up : forall l S Sp i j rj, at_g g S -> at_g g Sp -> allP g P3 l Sp -> getr Sp j = Some rj -> E g i j ->
  P3 (l + 1) (fst (step S (Deliver i j (advert (rrib rj))))) i j.
Proof.
  intros l S Sp i j rj Hat Hatp Hall Gj He.
  apply allP3 in Hall. destruct Hall as (HNU & HUB & HF).
  split.
  - apply P2_mono. apply (P2_up g K S Sp i j rj Hat Hatp); [|exact Gj | exact He].
    apply allP2. split; assumption.
  - intros _. apply (F_up l S Sp i j rj Hat); [split; [exact Hatp | split; assumption] | exact HF | exact Gj | exact He].
Qed.

Lemma P3_keep : forall l S i j adv i' j', at_g g S -> E g i' j' -> P3 l S i' j' -> (i' <> i \/ j' <> j) ->
  P3 l (fst (step S (Deliver i j adv))) i' j'.
Proof.
  intros l S i j adv i' j' Hat He [H1 H2] Hne. split.
  - apply P2_keep; assumption.
  - intros _. apply F_keep; auto.
Qed.

Lemma P3_mono : forall l S i j, P3 (l + 1) S i j -> P3 l S i j.
Proof.
  intros l S i j [H1 H2]. split; [exact H1|]. intros He ri d Gi Hr.
  rewrite (H2 He ri d Gi) by lia.
  replace (N.to_nat (l + 1)) with (Datatypes.S (N.to_nat l)) by lia.
  symmetry. apply X_stable; [apply E_neq; exact He | lia].
Qed.

Theorem phase3_rounds : forall n S evs, I3 S -> arounds g n S evs ->
  I3 (run S evs) /\ allF (N.of_nat n) (run S evs).
Proof.
  intros n S evs (Hat & HNU & HUB) Hn.
  assert (H0 : allP g P3 0 S).
  { apply allP3. split; [exact HNU|]. split; [exact HUB|].
    intros i j He ri d _ Hr. unfold rank in Hr. destruct ((Dn j d <? INF) && (Pn j d =? i)); lia. }
  destruct (rounds_up g g_settled P3 P3_up P3_keep P3_mono n S evs Hn 0 Hat H0) as [A B].
  apply allP3 in B. destruct B as (B1 & B2 & B3).
  split; [split; [exact A | split; assumption] | exact B3].
Qed.

(* once every value is final the state is a fixed point *)
Lemma final_fixed_point : forall l S, INF + 1 <= l -> I3 S -> allF l S -> fixed_point S.
Proof.
  intros l S Hl HI HF i j ri rj d Gi Gj Hj.
  pose proof HI as (Hat & _).
  assert (He : E g i j) by exact (getr_E g S i ri j Hat Gi Hj).
  pose proof (rank_le i j d) as Hr.
  rewrite (HF i j He ri d Gi) by lia.
  rewrite (F_core l S i j rj d HI HF Gj He) by lia.
  replace (N.to_nat (l + 1)) with (Datatypes.S (N.to_nat l)) by lia.
  apply X_stable; [apply E_neq; exact He | lia].
Qed.
End Phase3.

(* ------------------------------------------------------------------------------------------ *)
(* instantiation: the converged best costs and next hops are those of any state that completed  *)
(* phases 1 and 2                                                                             *)
(* ------------------------------------------------------------------------------------------ *)
Section Instance.
Variable g : graph.
Hypothesis g_settled : settled g = true.
Variable K : N.
Hypothesis K_bound : dist_bound g K.
Variable S2 : net.
Hypothesis S2_ok : I3 g K S2.

Definition Dn0 (j d : node) : N := match getr S2 j with Some rj => b1 (rrib rj) d | None => INF end.
Definition Pn0 (j d : node) : node := match getr S2 j with Some rj => n1 (rrib rj) d | None => 0 end.

Lemma I3_conv : forall S, I3 g K S -> conv_at g S.
Proof.
  intros S (Hat & HNU & HUB). apply (converged_state g K S (conj Hat HNU) HUB K_bound).
Qed.

Lemma same_alive : forall S S' j rj, at_g g S -> at_g g S' -> getr S j = Some rj -> exists rj', getr S' j = Some rj'.
Proof.
  intros S S' j rj Hat [_ Hg'] Gj. pose proof (getr_alive g S j rj Hat Gj) as Ha.
  rewrite <- Hg' in Ha. apply topo_alive in Ha. exact Ha.
Qed.

(* two converged states agree on best cost and next hop *)
Lemma conv_unique : forall S S' j rj rj' d, at_g g S -> at_g g S' -> conv_at g S -> conv_at g S' ->
  getr S j = Some rj -> getr S' j = Some rj' ->
  b1 (rrib rj) d = b1 (rrib rj') d /\ n1 (rrib rj) d = n1 (rrib rj') d.
Proof.
  intros S S' j rj rj' d Hat Hat' Hc Hc' Gj Gj'.
  destruct (Hc j rj d Gj) as [C1 C2]. destruct (Hc' j rj' d Gj') as [C1' C2'].
  destruct (distb g j d) as [m|] eqn:Hd.
  - apply distb_some in Hd. destruct Hd as [Hd Hm].
    destruct (C1 _ Hd Hm) as (Hb & Hs & Ho). destruct (C1' _ Hd Hm) as (Hb' & Hs' & Ho').
    split; [congruence|].
    destruct (N.eq_dec j d) as [Hjd | Hjd].
    + rewrite (Hs Hjd), (Hs' Hjd). reflexivity.
    + destruct (Ho Hjd) as (He & Hdn & Hl). destruct (Ho' Hjd) as (He' & Hdn' & Hl').
      pose proof (Hl _ He' Hdn'). pose proof (Hl' _ He Hdn). apply tie_key_inj. lia.
  - pose proof (distb_none g j d Hd) as Hfar.
    pose proof (C2 Hfar) as A. pose proof (C2' Hfar) as A'.
    unfold b1, n1. rewrite A, A'. auto.
Qed.

Lemma HD0 : forall S j rj d, I3 g K S -> getr S j = Some rj ->
  b1 (rrib rj) d = Dn0 j d /\ n1 (rrib rj) d = Pn0 j d.
Proof.
  intros S j rj d HI Gj. pose proof HI as (Hat & _). pose proof S2_ok as (Hat2 & _).
  destruct (same_alive S S2 j rj Hat Hat2 Gj) as [rj2 Gj2].
  unfold Dn0, Pn0. rewrite Gj2.
  apply (conv_unique S S2 j rj rj2 d Hat Hat2 (I3_conv S HI) (I3_conv S2 S2_ok) Gj Gj2).
Qed.

Lemma Dn0_isdist : forall j rj d, getr S2 j = Some rj -> b1 (rrib rj) d < INF -> isdist g j d (b1 (rrib rj) d).
Proof.
  intros j rj d Gj Hlt. pose proof S2_ok as (Hat & HNU & HUB).
  pose proof (NU_b1_reach g S2 j rj d (conj Hat HNU) Gj Hlt) as Hr.
  destruct (reach_isdist g _ j d Hr) as (m & Hd & Hle).
  destruct (I3_conv S2 S2_ok j rj d Gj) as [C1 _].
  assert (Hm : m < INF) by lia.
  destruct (C1 m Hd Hm) as (Hb & _). rewrite Hb. exact Hd.
Qed.

Lemma HP10 : forall h d, Dn0 h d < INF -> h <> d -> Dn0 (Pn0 h d) d + 1 = Dn0 h d.
Proof.
  intros h d. unfold Dn0 at 1 3, Pn0. destruct (getr S2 h) as [rh|] eqn:Gh; [|lia].
  intros Hlt Hne. pose proof S2_ok as (Hat & HNU & HUB).
  pose proof (Dn0_isdist h rh d Gh Hlt) as Hd.
  destruct (I3_conv S2 S2_ok h rh d Gh) as [C1 _].
  destruct (C1 _ Hd Hlt) as (_ & _ & Ho). destruct (Ho Hne) as (He & Hdp & _).
  (* the next hop is a live router whose own best cost is one less *)
  assert (Hap : alive g (n1 (rrib rh) d) = true).
  { apply (settled_alive g h _ g_settled); [eapply getr_alive; eauto | exact He]. }
  destruct Hat as [Hok Hg]. rewrite <- Hg in Hap. apply topo_alive in Hap. destruct Hap as [rp Gp].
  unfold Dn0. rewrite Gp.
  destruct (I3_conv S2 S2_ok _ rp d Gp) as [C1p _].
  assert (Hm1 : 1 <= b1 (rrib rh) d).
  { destruct (N.eq_dec (b1 (rrib rh) d) 0) as [H0 | H0]; [|lia].
    rewrite H0 in Hd. apply isdist_0 in Hd. destruct Hd as [Hd _]. contradiction. }
  destruct (C1p _ Hdp) as (Hbp & _); [lia|]. rewrite Hbp. lia.
Qed.

Lemma HPself0 : forall d, Dn0 d d < INF -> Pn0 d d = d.
Proof.
  intros d. unfold Dn0, Pn0. destruct (getr S2 d) as [rd|] eqn:Gd; [|lia].
  intros Hlt. pose proof (Dn0_isdist d rd d Gd Hlt) as Hd.
  destruct (I3_conv S2 S2_ok d rd d Gd) as [C1 _].
  destruct (C1 _ Hd Hlt) as (_ & Hs & _). apply Hs. reflexivity.
Qed.

Lemma noself0 : forall j, ~ In j (nb g j).
Proof.
  intros j Hin. pose proof S2_ok as (Hat & _). pose proof Hat as [[_ Hall] Hg].
  unfold nb in Hin. rewrite <- Hg, topo_get in Hin.
  destruct (getr S2 j) as [rj|] eqn:Gj; [|destruct Hin].
  destruct (getr_some _ _ _ Gj) as [Ij Sj]. destruct (Hall rj Ij) as (_ & _ & _ & Nj).
  apply Nj. rewrite Sj. exact Hin.
Qed.

(* INF + 1 more rounds after phases 1 and 2: the whole state is a fixed point *)
Theorem phase3_fixed_point : forall n evs, (N.to_nat INF + 1 <= n)%nat -> arounds g n S2 evs ->
  fixed_point (run S2 evs) /\ I3 g K (run S2 evs).
Proof.
  intros n evs Hn Hr.
  destruct (phase3_rounds g g_settled noself0 K Dn0 Pn0 HD0 HP10 HPself0 n S2 evs S2_ok Hr) as [HI HF].
  split; [|exact HI].
  apply (final_fixed_point g g_settled noself0 K Dn0 Pn0 HD0 HP10 HPself0 (N.of_nat n) (run S2 evs)); [lia | exact HI | exact HF].
Qed.
End Instance.

(* from any well-formed state: INF rounds (no underestimates), K rounds (best costs exact), INF + 1 rounds (rest) *)
Theorem full_fixed_point : forall g, settled g = true -> forall K n S evs, at_g g S -> dist_bound g K ->
  (N.to_nat INF + N.to_nat K + (N.to_nat INF + 1) <= n)%nat -> arounds g n S evs ->
  fixed_point (run S evs) /\ conv_at g (run S evs) /\ at_g g (run S evs).
Proof.
  intros g Hs K n S evs Hat Hk Hn Hr.
  apply (arounds_weaken g n (N.to_nat INF + (N.to_nat K + (N.to_nat INF + 1)))) in Hr; [|lia].
  destruct (arounds_split g _ _ S evs Hr) as (e1 & e23 & -> & H1 & H23).
  destruct (arounds_split g _ _ _ e23 H23) as (e2 & e3 & -> & H2 & H3).
  destruct (lower_bound_rounds g Hs _ S e1 Hat H1) as [Hat1 HLB].
  assert (HNU1 : NU g (run S e1)) by (apply (LB_NU g (N.of_nat (N.to_nat INF))); [lia | exact HLB]).
  destruct (upper_bound_rounds g Hs _ (run S e1) e2 (conj Hat1 HNU1) H2) as [[Hat2 HNU2] HUB2].
  rewrite N2Nat.id in HUB2.
  assert (HI : I3 g K (run (run S e1) e2)) by (split; [exact Hat2 | split; assumption]).
  rewrite !run_app.
  destruct (phase3_fixed_point g Hs K Hk _ HI (N.to_nat INF + 1) e3 (Nat.le_refl _) H3) as [Hfp HI3].
  split; [exact Hfp|]. split; [apply (I3_conv g K Hk _ HI3) | apply HI3].
Qed.
