(* Dv/ProtoModel.v — the sequence-number and liveness layer of the dv daemon on top of the table-level model
   (no proofs here).

   Modelled code:
     dv/dv/advert_sync.go   advertSyncOnInterest: per Sync Interest entry (neighbour j, sequence s): an unknown
                            neighbour is created; markRecvPing refreshes lastSeen IN EVERY BRANCH (also when the
                            sequence number is not newer); AdvertSeq := s only when newer (or for a new neighbour)
     dv/dv/advert_data.go   advertDataHandler: Data named (j, s) is processed only if j is a neighbour and
                            ns.AdvertSeq == s (`if ns.AdvertSeq != seqNo { return }`); then ns.Advert := it, ribUpdate
     dv/dv/table_algo.go    checkDeadNeighbors: every neighbour with now - lastSeen > RouterDeadInterval is removed
     dv/table/neighbor_table.go  Add (AdvertSeq = 0, lastSeen = now), IsDead, RecvPing (lastSeen = now)

   The state adds, per (router, neighbour): the latest announced sequence number (NeighborState.AdvertSeq) and the
   time the neighbour was last heard from (lastSeen); and a clock.  Every protocol event executes a list of
   table-level events (ptrace) on the table-level state: an accepted Data is a Deliver, a new neighbour an NbrUp,
   a sweep a list of NbrDead. *)
From Dv Require Export Model.
Open Scope N_scope.

Definition pkey := (node * node)%type.
Definition pk_eqb (p q : pkey) : bool := (fst p =? fst q) && (snd p =? snd q).

Fixpoint pget (k : pkey) (l : list (pkey * N)) : N :=      (* 0 if absent: the zero value of the Go field *)
  match l with
  | [] => 0
  | (k', v) :: t => if pk_eqb k k' then v else pget k t
  end.

Fixpoint pdel (k : pkey) (l : list (pkey * N)) : list (pkey * N) :=
  match l with
  | [] => []
  | (k', v) :: t => if pk_eqb k k' then pdel k t else (k', v) :: pdel k t
  end.

Definition pset (k : pkey) (v : N) (l : list (pkey * N)) : list (pkey * N) := (k, v) :: pdel k l.

Definition pdel_router (i : node) (l : list (pkey * N)) : list (pkey * N) :=
  filter (fun kv : pkey * N => negb (fst (fst kv) =? i)) l.

Fixpoint sget (k : node) (l : list (node * N)) : N :=
  match l with [] => 0 | (k', v) :: t => if k =? k' then v else sget k t end.
Definition sset (k : node) (v : N) (l : list (node * N)) : list (node * N) :=
  (k, v) :: filter (fun kv : node * N => negb (fst kv =? k)) l.

Record pstate := mkP {
  base : net;                       (* routers: RIB and neighbour table *)
  myseq : list (node * N);          (* i -> Router.advertSyncSeq, the sequence number i announces *)
  nseq : list (pkey * N);           (* (i, j) -> NeighborState.AdvertSeq of j at i *)
  seen : list (pkey * N);           (* (i, j) -> lastSeen of j at i (clock units) *)
  now : N;                          (* the clock *)
  fetching : list (pkey * N)        (* (i, j) -> sequence number of the advertisement fetch of i towards j that is
                                       outstanding (advertDataFetch keeps re-issuing it until its Data arrives, the
                                       neighbour is gone, or a newer sequence number supersedes it); 0 = none *)
}.

Inductive pevent :=
| PClock (t : N)                                      (* the clock shows t *)
| PSync (i j : node) (s : N)                          (* i receives a Sync Interest of j carrying sequence s *)
| PData (i j : node) (s : N) (adv : list adv_entry)   (* i receives advertisement Data named (j, s) *)
| PSweep (i : node) (dead : N)                        (* checkDeadNeighbors at i, RouterDeadInterval = dead *)
| PFetchFail (i j : node) (s : N)                     (* the fetch of i for (j, s) failed (NACK, timeout): retried later *)
| PBase (e : event).                                  (* a table-level event driven directly *)

Definition nbrs_of (S : net) (i : node) : list node :=
  match getr S i with Some r => nbrs r | None => [] end.

(* neighbours of i that the sweep finds dead: IsDead = time.Since(lastSeen) > RouterDeadInterval *)
Definition victims (P : pstate) (i : node) (dead : N) : list node :=
  filter (fun j => pget (i, j) (seen P) + dead <? now P) (nbrs_of (base P) i).

(* the table-level events a protocol event executes *)
Definition ptrace (P : pstate) (e : pevent) : list event :=
  match e with
  | PClock _ => []
  | PSync i j s =>
      match getr (base P) i with
      | Some ri => if memN j (nbrs ri) || (i =? j) then [] else [NbrUp i j]
      | None => []
      end
  | PData i j s adv =>
      match getr (base P) i with
      | Some ri => if memN j (nbrs ri) && (pget (i, j) (nseq P) =? s) then [Deliver i j adv] else []
      | None => []
      end
  | PSweep i dead => map (fun j => NbrDead i j) (victims P i dead)
  | PFetchFail _ _ _ => []
  | PBase e => [e]
  end.

(* the table-level run with the disjunction of the change flags *)
Fixpoint run_flag (S : net) (evs : list event) : net * bool :=
  match evs with
  | [] => (S, false)
  | e :: t => let (S1, d1) := step S e in let (S2, d2) := run_flag S1 t in (S2, d1 || d2)
  end.

Definition refresh_seen (i : node) (t : N) (js : list node) (l : list (pkey * N)) : list (pkey * N) :=
  fold_left (fun acc j => pset (i, j) t acc) js l.

(* the router whose table an event may change (and whose sequence number is bumped if it reports a change:
   ribUpdate / checkDeadNeighbors -> advertSyncNotifyNew -> advertSyncSeq++) *)
Definition actor (e : pevent) : option node :=
  match e with
  | PData i _ _ _ | PSweep i _ => Some i
  | PFetchFail _ _ _ => None
  | PBase (Fetch i _) | PBase (Deliver i _ _) | PBase (NbrDead i _) | PBase (LateUpdate i _ _) => Some i
  | _ => None
  end.

(* div = how many clock units (ms) make one unit of the initial sequence number: NewRouter sets
   advertSyncSeq := time.Now().UnixMilli()  (div = 1); the value is translated from the source (GenConsts.seq_clock_div) *)
Definition pstep_gen (div : N) (P : pstate) (e : pevent) : pstate * bool :=
  let (S', d) := run_flag (base P) (ptrace P e) in
  let MS :=
    match e with
    | PBase (RouterUp i) => match getr (base P) i with
                            | Some _ => myseq P
                            | None => sset i (now P / div) (myseq P)     (* NewRouter *)
                            end
    | _ => match actor e with
           | Some i => if d then sset i (sget i (myseq P) + 1) (myseq P) else myseq P
           | None => myseq P
           end
    end in
  match e with
  | PClock t => (mkP S' (MS) (nseq P) (seen P) t (fetching P), d)
  | PFetchFail _ _ _ => (P, false)     (* nothing changes: AdvertSeq stays, the fetch stays outstanding *)
  | PSync i j s =>
      match getr (base P) i with
      | Some ri =>
          if i =? j then (P, false)
          else if memN j (nbrs ri) then
            (* known neighbour: markRecvPing always; the sequence number only if newer *)
            (mkP S' (MS) (if s <=? pget (i, j) (nseq P) then nseq P else pset (i, j) s (nseq P))
                 (pset (i, j) (now P) (seen P)) (now P)
                 (if s <=? pget (i, j) (nseq P) then fetching P else pset (i, j) s (fetching P)), d)
          else
            (* new neighbour: Add, markRecvPing, AdvertSeq := s *)
            (mkP S' (MS) (pset (i, j) s (nseq P)) (pset (i, j) (now P) (seen P)) (now P) (pset (i, j) s (fetching P)), d)
      | None => (P, false)
      end
  | PData i j s adv => (mkP S' (MS) (nseq P) (seen P) (now P)
                            (match ptrace P e with [] => fetching P | _ => pdel (i, j) (fetching P) end), d)
  | PSweep i dead =>
      let vs := victims P i dead in
      (mkP S' (MS) (fold_left (fun acc j => pdel (i, j) acc) vs (nseq P))
              (fold_left (fun acc j => pdel (i, j) acc) vs (seen P)) (now P)
              (fold_left (fun acc j => pdel (i, j) acc) vs (fetching P)), d)
  | PBase ev =>
      match ev with
      | NbrUp i j =>
          (* Vf18AddNeighbor / neighbors.Add: AdvertSeq = 0, lastSeen = now (only if it was created) *)
          if memN j (nbrs_of (base P) i) || (i =? j) || negb (memN j (nbrs_of S' i)) then (mkP S' (MS) (nseq P) (seen P) (now P) (fetching P), d)
          else (mkP S' (MS) (pdel (i, j) (nseq P)) (pset (i, j) (now P) (seen P)) (now P) (fetching P), d)
      | NbrDead i j =>
          (* the harness-forced removal: the harness owns the clock and marks every other neighbour as just heard *)
          if memN j (nbrs_of (base P) i)
          then (mkP S' (MS) (pdel (i, j) (nseq P))
                    (refresh_seen i (now P) (nbrs_of S' i) (pdel (i, j) (seen P))) (now P) (pdel (i, j) (fetching P)), d)
          else (mkP S' (MS) (nseq P) (seen P) (now P) (fetching P), d)
      | RouterDown i => (mkP S' (MS) (pdel_router i (nseq P)) (pdel_router i (seen P)) (now P) (pdel_router i (fetching P)), d)
      | _ => (mkP S' (MS) (nseq P) (seen P) (now P) (fetching P), d)
      end
  end.

Definition pstep : pstate -> pevent -> pstate * bool := pstep_gen seq_clock_div.

Definition prun (P : pstate) (evs : list pevent) : pstate :=
  fold_left (fun P e => fst (pstep P e)) evs P.
Definition prun_gen (div : N) (P : pstate) (evs : list pevent) : pstate :=
  fold_left (fun P e => fst (pstep_gen div P e)) evs P.

(* all table-level events executed along a protocol run *)
Fixpoint ptrace_all (P : pstate) (evs : list pevent) : list event :=
  match evs with
  | [] => []
  | e :: t => ptrace P e ++ ptrace_all (fst (pstep P e)) t
  end.

Definition pinit : pstate := mkP [] [] [] [] 0 [].
