(* Dv/Flag.v — the "advertisement might have changed" flag of ribUpdate / checkDeadNeighbors is sound:
   if it is false, the advertisement (destination, next hop, cost, other cost per entry) is unchanged.
   The flag is what makes the router bump its sequence number, i.e. what makes neighbours fetch again —
   the implementation-side basis of the fairness assumption of the convergence theorems. *)
From Coq Require Import Lia ZifyBool ZifyN.
From Dv Require Import Model Refresh RibFacts.
Open Scope N_scope.

(* same destinations with the same cached (lowest1, nextHop1, lowest2, nextHop2) *)
Definition csame (r r' : rib) : Prop :=
  forall d, option_map cached (aget d r) = option_map cached (aget d r').

Lemma csame_refl : forall r, csame r r. Proof. intros r d. reflexivity. Qed.
Lemma csame_trans : forall a b c, csame a b -> csame b c -> csame a c.
Proof. intros a b c H1 H2 d. rewrite H1. apply H2. Qed.

Lemma refresh_flag : forall e, snd (refresh e) = false -> cached (fst (refresh e)) = cached e.
Proof.
  intros e. unfold refresh, cached. destruct (refresh_fold (costs e)) as [[[l1 h1] l2] h2]. simpl.
  intros H. apply negb_false_iff in H. repeat (apply andb_true_iff in H; destruct H as [H ?]).
  f_equal; [f_equal; [f_equal|]|]; lia.
Qed.

Lemma entry_set_flag : forall e h c, snd (entry_set e h c) = false ->
  cached (fst (entry_set e h c)) = cached e.
Proof.
  intros e h c. unfold entry_set.
  destruct (aget h (costs e)) as [known|].
  - destruct (known =? c); [reflexivity|]. intros H. rewrite (refresh_flag _ H). reflexivity.
  - intros H. rewrite (refresh_flag _ H). reflexivity.
Qed.

(* a freshly created entry always reports a change *)
Lemma new_entry_flag : forall h c, snd (entry_set new_entry h c) = true.
Proof.
  intros h c. unfold entry_set. change (aget h (costs new_entry)) with (@None N). cbv iota.
  set (e0 := with_costs new_entry (aset h c (costs new_entry))).
  destruct (snd (refresh e0)) eqn:E; [reflexivity | exfalso].
  pose proof (refresh_flag _ E) as H. rewrite refresh_cached in H.
  assert (Hnd : NoDup (map fst (costs e0))) by (simpl; constructor; [intros [] | constructor]).
  pose proof (refresh_fold_spec (costs e0) Hnd) as T. rewrite H in T.
  pose proof INF_pos as Hp. unfold cached, e0 in T. simpl in T. destruct T as [F S].
  destruct S as [(S1 & _) | (_ & _ & S3 & _)]; [lia | apply S3; reflexivity].
Qed.

Lemma rib_set_flag : forall r d0 j c, snd (rib_set r d0 j c) = false -> csame r (fst (rib_set r d0 j c)).
Proof.
  intros r d0 j c. unfold rib_set.
  destruct (aget d0 r) as [e|] eqn:He.
  - destruct (entry_set e j c) as [e' ch] eqn:Es. simpl. intros ->.
    intros d. rewrite aget_aset. destruct (d =? d0) eqn:Ed; [|reflexivity].
    assert (d = d0) by lia. subst d. rewrite He. simpl. f_equal.
    pose proof (entry_set_flag e j c) as H. rewrite Es in H. simpl in H. symmetry. apply H. reflexivity.
  - pose proof (new_entry_flag j c) as H. destruct (entry_set new_entry j c) as [e' ch]. simpl in *.
    intros ->. discriminate.
Qed.

Lemma fold_flag : forall self j adv r fl,
  snd (fold_left (rib_update_step self j) adv (r, fl)) = false ->
  fl = false /\ csame r (fst (fold_left (rib_update_step self j) adv (r, fl))).
Proof.
  intros self j. induction adv as [|a adv IH]; intros r fl.
  - simpl. intros ->. split; [reflexivity | apply csame_refl].
  - cbn [fold_left]. destruct (INF <=? adv_cost self a) eqn:Ec.
    + assert (Es : rib_update_step self j (r, fl) a = (r, fl)).
      { unfold rib_update_step. rewrite Ec. reflexivity. }
      rewrite Es. apply IH.
    + destruct (rib_set r (a_dest a) j (adv_cost self a)) as [r' ch] eqn:Er.
      assert (Es : rib_update_step self j (r, fl) a = (r', ch || fl)).
      { unfold rib_update_step. rewrite Ec. simpl. rewrite Er. reflexivity. }
      rewrite Es.
      intros H. destruct (IH r' (ch || fl) H) as [Hf Hc].
      apply orb_false_iff in Hf. destruct Hf as [-> ->]. split; [reflexivity|].
      eapply csame_trans; [|exact Hc].
      pose proof (rib_set_flag r (a_dest a) j (adv_cost self a)) as Hs. rewrite Er in Hs. apply Hs. reflexivity.
Qed.

Lemma dirty_reset_csame : forall r j, csame r (dirty_reset r j).
Proof.
  intros r j d. unfold dirty_reset.
  set (f := fun de : node * entry =>
              mkEntry (aset j INF (costs (snd de))) (nh1 (snd de)) (nh2 (snd de)) (low1 (snd de)) (low2 (snd de)) true).
  change (map _ r) with (map (fun de => (fst de, f de)) r).
  rewrite aget_map_snd. destruct (aget d r); reflexivity.
Qed.

Lemma prune_flag : forall r, snd (prune r) = false -> csame r (fst (prune r)).
Proof.
  induction r as [|[d0 e] r IH]; [intros _; apply csame_refl|].
  rewrite prune_cons. cbv zeta.
  set (e1 := if dirty e then fst (refresh e) else e).
  set (ch := if dirty e then snd (refresh e) else false).
  destruct (low1 e1 =? INF); [simpl; discriminate|]. simpl.
  intros H. apply orb_false_iff in H. destruct H as [Hch Hr].
  specialize (IH Hr). intros d. simpl. destruct (d =? d0); [|apply IH].
  simpl. f_equal. subst e1 ch. destruct (dirty e); [|reflexivity].
  symmetry. apply refresh_flag. exact Hch.
Qed.

Lemma remove_flag : forall r j, snd (remove_next_hop r j) = false -> csame r (fst (remove_next_hop r j)).
Proof.
  induction r as [|[d0 e] r IH]; intros j; [intros _; apply csame_refl|].
  simpl. specialize (IH j). destruct (remove_next_hop r j) as [t' cht]. simpl in IH.
  destruct (aget j (costs e)).
  - destruct (refresh (with_costs e (adel j (costs e)))) as [e' ch] eqn:Er. simpl.
    intros H. apply orb_false_iff in H. destruct H as [-> ->].
    intros d. simpl. destruct (d =? d0); [|apply IH; reflexivity].
    simpl. f_equal. pose proof (refresh_flag (with_costs e (adel j (costs e)))) as Hf.
    rewrite Er in Hf. simpl in Hf. symmetry. apply Hf. reflexivity.
  - simpl. intros ->. intros d. simpl. destruct (d =? d0); [reflexivity | apply IH; reflexivity].
Qed.

Theorem rib_update_flag : forall self r j adv,
  snd (rib_update self r j adv) = false -> csame r (fst (rib_update self r j adv)).
Proof.
  intros self r j adv. unfold rib_update.
  pose proof (fold_flag self j adv (dirty_reset r j) false) as Hf.
  destruct (fold_left (rib_update_step self j) adv (dirty_reset r j, false)) as [r2 d2]. simpl in Hf.
  pose proof (prune_flag r2) as Hp. destruct (prune r2) as [r3 d3]. simpl in *.
  intros H. apply orb_false_iff in H. destruct H as [-> ->].
  eapply csame_trans; [apply dirty_reset_csame|].
  eapply csame_trans; [apply Hf; reflexivity | apply Hp; reflexivity].
Qed.

Theorem rib_dead_flag : forall r j, snd (rib_dead r j) = false -> csame r (fst (rib_dead r j)).
Proof.
  intros r j. unfold rib_dead.
  pose proof (remove_flag r j) as Hr. destruct (remove_next_hop r j) as [r1 d1]. simpl in Hr.
  pose proof (prune_flag r1) as Hp. destruct (prune r1) as [r2 d2]. simpl in *.
  intros H. apply orb_false_iff in H. destruct H as [-> ->].
  eapply csame_trans; [apply Hr; reflexivity | apply Hp; reflexivity].
Qed.

(* in terms of the advertisement: the same set of entries *)
Lemma csame_advert : forall r r', NoDup (map fst r) -> NoDup (map fst r') -> csame r r' ->
  forall a, In a (advert r) <-> In a (advert r').
Proof.
  assert (H : forall r r', NoDup (map fst r) -> csame r r' -> forall a, In a (advert r) -> In a (advert r')).
  { intros r r' Hnd Hc a Ha. unfold advert in Ha. apply in_map_iff in Ha. destruct Ha as ([d e] & <- & Hin).
    simpl. apply in_aget in Hin; [|exact Hnd]. specialize (Hc d). rewrite Hin in Hc. simpl in Hc.
    destruct (aget d r') as [e'|] eqn:He'; [|discriminate]. simpl in Hc. inversion Hc.
    replace (mkAdv d (nh1 e) (low1 e) (low2 e)) with (mkAdv d (nh1 e') (low1 e') (low2 e')) by congruence.
    apply advert_in. exact He'. }
  intros r r' Hnd Hnd' Hc a. split; [apply H; assumption|].
  apply H; [exact Hnd'|]. intros d. symmetry. apply Hc.
Qed.

Theorem update_flag_sound : forall self r j adv, rib_ok r ->
  snd (rib_update self r j adv) = false ->
  forall a, In a (advert r) <-> In a (advert (fst (rib_update self r j adv))).
Proof.
  intros self r j adv Hok Hf.
  destruct (rib_update_spec self r j adv Hok) as [[Hnd' _] _].
  apply csame_advert; [apply Hok | exact Hnd' | apply rib_update_flag; exact Hf].
Qed.

Theorem dead_flag_sound : forall r j, rib_ok r ->
  snd (rib_dead r j) = false ->
  forall a, In a (advert r) <-> In a (advert (fst (rib_dead r j))).
Proof.
  intros r j Hok Hf.
  destruct (rib_dead_spec r j Hok) as [[Hnd' _] _].
  apply csame_advert; [apply Hok | exact Hnd' | apply rib_dead_flag; exact Hf].
Qed.

(* network level: an event whose flag is false leaves every router's advertisement as it was *)
From Dv Require Import Net.

Theorem step_flag_sound : forall S e i r r', net_ok S -> snd (step S e) = false ->
  getr S i = Some r -> getr (fst (step S e)) i = Some r' ->
  forall a, In a (advert (rrib r)) <-> In a (advert (rrib r')).
Proof.
  intros S e i r r' [Hnd Hall] Hf Gi Gi'.
  assert (Hsame : r' = r -> forall a, In a (advert (rrib r)) <-> In a (advert (rrib r'))) by (intros ->; tauto).
  destruct e as [x j | x j adv | x j adv | x j | x j | x | x]; simpl in *.
  - destruct (getr S x) as [rx|] eqn:Gx; [|(simpl in *; apply Hsame; congruence)].
    destruct (getr S j) as [rj|] eqn:Gj; [|(simpl in *; apply Hsame; congruence)].
    destruct (memN j (nbrs rx)); [|(simpl in *; apply Hsame; congruence)].
    destruct (getr_some _ _ _ Gx) as [Ix Sx]. destruct (Hall rx Ix) as (Rx & _).
    pose proof (update_flag_sound x (rrib rx) j (advert (rrib rj)) Rx) as Hu.
    destruct (rib_update x (rrib rx) j (advert (rrib rj))) as [rb d]. simpl in *.
    rewrite getr_setr in Gi' by (simpl; rewrite <- Sx; apply in_map; exact Ix). simpl in Gi'.
    destruct (i =? x) eqn:E; [|(simpl in *; apply Hsame; congruence)].
    inversion Gi'; subst r'. simpl. assert (i = x) by lia. subst i. rewrite Gx in Gi. inversion Gi; subst rx.
    apply Hu. exact Hf.
  - destruct (getr S x) as [rx|] eqn:Gx; [|(simpl in *; apply Hsame; congruence)].
    destruct (memN j (nbrs rx)); [|(simpl in *; apply Hsame; congruence)].
    destruct (getr_some _ _ _ Gx) as [Ix Sx]. destruct (Hall rx Ix) as (Rx & _).
    pose proof (update_flag_sound x (rrib rx) j adv Rx) as Hu.
    destruct (rib_update x (rrib rx) j adv) as [rb d]. simpl in *.
    rewrite getr_setr in Gi' by (simpl; rewrite <- Sx; apply in_map; exact Ix). simpl in Gi'.
    destruct (i =? x) eqn:E; [|(simpl in *; apply Hsame; congruence)].
    inversion Gi'; subst r'. simpl. assert (i = x) by lia. subst i. rewrite Gx in Gi. inversion Gi; subst rx.
    apply Hu. exact Hf.
  - destruct (getr S x); simpl in *; apply Hsame; congruence.
  - destruct (getr S x) as [rx|] eqn:Gx; [|(simpl in *; apply Hsame; congruence)].
    destruct (memN j (nbrs rx) || (x =? j)); [(simpl in *; apply Hsame; congruence)|]. simpl in *.
    destruct (getr_some _ _ _ Gx) as [Ix Sx].
    rewrite getr_setr in Gi' by (simpl; rewrite <- Sx; apply in_map; exact Ix). simpl in Gi'.
    destruct (i =? x) eqn:E; [|(simpl in *; apply Hsame; congruence)].
    inversion Gi'; subst r'. simpl. assert (i = x) by lia. subst i. rewrite Gx in Gi. inversion Gi; subst rx. tauto.
  - destruct (getr S x) as [rx|] eqn:Gx; [|(simpl in *; apply Hsame; congruence)].
    destruct (memN j (nbrs rx)); [|(simpl in *; apply Hsame; congruence)].
    destruct (getr_some _ _ _ Gx) as [Ix Sx]. destruct (Hall rx Ix) as (Rx & _).
    pose proof (dead_flag_sound (rrib rx) j Rx) as Hu.
    destruct (rib_dead (rrib rx) j) as [rb d]. simpl in *.
    rewrite getr_setr in Gi' by (simpl; rewrite <- Sx; apply in_map; exact Ix). simpl in Gi'.
    destruct (i =? x) eqn:E; [|(simpl in *; apply Hsame; congruence)].
    inversion Gi'; subst r'. simpl. assert (i = x) by lia. subst i. rewrite Gx in Gi. inversion Gi; subst rx.
    apply Hu. exact Hf.
  - destruct (getr S x) as [rx|] eqn:Gx; [(simpl in *; apply Hsame; congruence)|]. simpl in Gi'.
    apply Hsame. clear - Gi Gi'. induction S as [|r0 S IH]; simpl in *; [discriminate|].
    destruct (self r0 =? i); [congruence | apply IH; assumption].
  - apply Hsame. clear - Gi Gi' Hnd. induction S as [|r0 S IH]; simpl in *; [discriminate|].
    inversion Hnd as [|y ys Hnin Hnd']; subst.
    destruct (self r0 =? x) eqn:Ex.
    + destruct (self r0 =? i) eqn:Ei; [|apply IH; assumption].
      (* the removed router is i itself: it cannot still be found *)
      exfalso. apply getr_some in Gi'. destruct Gi' as [Hin Hs]. apply delr_in in Hin.
      apply Hnin. assert (self r0 = i) by lia. rewrite H, <- Hs. apply in_map. tauto.
    + simpl in Gi'. destruct (self r0 =? i); [congruence | apply IH; assumption].
Qed.
