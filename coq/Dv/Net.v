(* Dv/Net.v — invariants of every reachable network state, for every event sequence (fetches in any order,
   neighbours appearing and being declared dead, routers starting and disappearing). *)
From Coq Require Import Lia ZifyBool ZifyN.
From Dv Require Import Model Spec Refresh RibFacts.
Open Scope N_scope.

(* every usable cost goes through a current neighbour, except the router's own entry *)
Definition hops_ok (ro : router) : Prop :=
  forall d h, rv (rrib ro) d h < INF -> In h (nbrs ro) \/ (h = self ro /\ d = self ro).

Definition router_ok (ro : router) : Prop :=
  rib_ok (rrib ro) /\ hops_ok ro /\ rv (rrib ro) (self ro) (self ro) = 0 /\ ~ In (self ro) (nbrs ro).

Definition net_ok (S : net) : Prop :=
  NoDup (map self S) /\ forall ro, In ro S -> router_ok ro.

(* ---- lookups in the network ---- *)
Lemma getr_some : forall S i r, getr S i = Some r -> In r S /\ self r = i.
Proof.
  induction S as [|r0 S IH]; intros i r; simpl; [discriminate|].
  destruct (self r0 =? i) eqn:E.
  - intros H. inversion H; subst. split; [auto | lia].
  - intros H. destruct (IH i r H). auto.
Qed.

Lemma getr_none : forall S i, getr S i = None <-> ~ In i (map self S).
Proof.
  induction S as [|r0 S IH]; intros i; simpl.
  - intuition.
  - destruct (self r0 =? i) eqn:E.
    + split; [discriminate|]. intros H. exfalso. apply H. left. lia.
    + rewrite IH. split; intros H.
      * intros [H1 | H1]; [lia | exact (H H1)].
      * intro H1. apply H. right. exact H1.
Qed.

Lemma in_getr : forall S r, NoDup (map self S) -> In r S -> getr S (self r) = Some r.
Proof.
  induction S as [|r0 S IH]; intros r Hnd Hin; [destruct Hin|].
  simpl in Hnd. inversion Hnd as [|x xs Hnin Hnd']; subst.
  simpl. destruct Hin as [-> | Hin].
  - rewrite N.eqb_refl. reflexivity.
  - destruct (self r0 =? self r) eqn:E.
    + exfalso. apply Hnin. assert (self r0 = self r) by lia. rewrite H. apply in_map. exact Hin.
    + apply IH; assumption.
Qed.

Lemma setr_keys : forall S r, In (self r) (map self S) -> map self (setr S r) = map self S.
Proof.
  induction S as [|r0 S IH]; intros r Hin; [destruct Hin|].
  simpl. destruct (self r0 =? self r) eqn:E.
  - simpl. f_equal. lia.
  - simpl. f_equal. apply IH. destruct Hin as [H | H]; [lia | exact H].
Qed.

Lemma setr_in : forall S r x, NoDup (map self S) -> In x (setr S r) ->
  x = r \/ (In x S /\ self x <> self r).
Proof.
  induction S as [|r0 S IH]; intros r x Hnd; simpl.
  - intros [H | []]. auto.
  - simpl in Hnd. inversion Hnd as [|y ys Hnin Hnd']; subst.
    destruct (self r0 =? self r) eqn:E.
    + intros [H | H]; [auto|]. right. split; [auto|].
      intro Heq. apply Hnin. assert (self r0 = self r) by lia. rewrite H0, <- Heq. apply in_map. exact H.
    + intros [H | H]; [subst; right; split; [auto | lia]|].
      destruct (IH r x Hnd' H) as [H1 | [H1 H2]]; auto.
Qed.

Lemma getr_setr : forall S r i, In (self r) (map self S) ->
  getr (setr S r) i = if i =? self r then Some r else getr S i.
Proof.
  induction S as [|r0 S IH]; intros r i Hin; [destruct Hin|].
  simpl. destruct (self r0 =? self r) eqn:E.
  - simpl. assert (self r0 = self r) by lia. rewrite H.
    destruct (self r =? i) eqn:E2.
    + assert (self r = i) by lia. subst i. rewrite N.eqb_refl. reflexivity.
    + destruct (i =? self r) eqn:E3; [lia | reflexivity].
  - simpl. destruct (self r0 =? i) eqn:E2.
    + destruct (i =? self r) eqn:E3; [lia | reflexivity].
    + apply IH. destruct Hin as [H | H]; [lia | exact H].
Qed.

Lemma delr_in : forall S i x, In x (delr S i) <-> In x S /\ self x <> i.
Proof.
  induction S as [|r0 S IH]; intros i x; simpl.
  - tauto.
  - destruct (self r0 =? i) eqn:E.
    + rewrite IH. split; [tauto|]. intros [[H | H] Hne]; [subst; lia | auto].
    + simpl. rewrite IH. split.
      * intros [H | H]; [subst; split; [auto | lia] | tauto].
      * tauto.
Qed.

Lemma delr_nodup : forall S i, NoDup (map self S) -> NoDup (map self (delr S i)).
Proof.
  induction S as [|r0 S IH]; intros i Hnd; simpl; [constructor|].
  simpl in Hnd. inversion Hnd as [|y ys Hnin Hnd']; subst.
  destruct (self r0 =? i).
  - apply IH. exact Hnd'.
  - simpl. constructor; [|apply IH; exact Hnd'].
    intro Hin. apply Hnin. apply in_map_iff in Hin. destruct Hin as (x & Hx & Hin).
    apply delr_in in Hin. rewrite <- Hx. apply in_map. tauto.
Qed.

(* ---- a fresh router ---- *)
Lemma init_router_ok : forall i, router_ok (init_router i).
Proof.
  intros i.
  set (e0 := with_costs new_entry (aset i 0 (costs new_entry))).
  assert (Hrib : rrib (init_router i) = [(i, fst (refresh e0))]).
  { unfold init_router, rib_set, entry_set. simpl. change (with_costs new_entry [(i, 0)]) with e0.
    destruct (refresh e0); reflexivity. }
  assert (Hnd : NoDup (map fst (costs e0))) by (simpl; constructor; [intros [] | constructor]).
  assert (Hcap : capped e0).
  { intros h c. simpl. destruct (h =? i); [|discriminate]. intros H. inversion H. pose proof INF_pos. lia. }
  pose proof (refresh_ok e0 Hnd Hcap) as Hok.
  pose proof (refresh_costs e0) as Hc. simpl in Hc.
  set (e' := fst (refresh e0)) in *.
  assert (Hlow : low1 e' < INF).
  { pose proof (refresh_fold_spec (costs e0) Hnd) as T. rewrite <- (refresh_cached e0) in T. fold e' in T.
    unfold cached in T. destruct T as [[(_ & _ & Fa) | (Fl & _)] _]; [|exact Fl].
    specialize (Fa i 0). simpl in Fa. pose proof INF_pos. assert (INF <= 0) by (apply Fa; left; reflexivity). lia. }
  unfold router_ok, hops_ok. rewrite !Hrib.
  change (self (init_router i)) with i. change (nbrs (init_router i)) with (@nil node).
  split; [|split; [|split]].
  - split; [constructor; [intros [] | constructor]|].
    intros d e. simpl. destruct (d =? i); [|discriminate].
    intros H. inversion H; subst e. split; [exact Hok | exact Hlow].
  - intros d h. unfold rv. cbn [aget]. destruct (d =? i) eqn:Ed; [|intros H; exfalso; lia].
    unfold cvE. rewrite Hc. cbn [aget]. destruct (h =? i) eqn:Eh; [|intros H; exfalso; lia].
    intros _. right. split; lia.
  - unfold rv. cbn [aget]. rewrite N.eqb_refl. unfold cvE. rewrite Hc. cbn [aget]. rewrite N.eqb_refl. reflexivity.
  - intros [].
Qed.

(* ---- one event preserves the invariant ---- *)
Lemma step_ok : forall S e, net_ok S -> net_ok (fst (step S e)).
Proof.
  intros S e [Hnd Hall]. destruct e as [i j | i j adv | i j adv | i j | i j | i | i]; simpl.
  - (* Fetch *)
    destruct (getr S i) as [ri|] eqn:Gi; [|split; assumption].
    destruct (getr S j) as [rj|] eqn:Gj; [|split; assumption].
    destruct (memN j (nbrs ri)) eqn:Mj; [|split; assumption].
    destruct (getr_some _ _ _ Gi) as [Ii Si]. destruct (getr_some _ _ _ Gj) as [Ij Sj].
    destruct (Hall ri Ii) as (Ri & Hi & Zi & Ni).
    destruct (Hall rj Ij) as (Rj & _).
    pose proof (rib_update_spec i (rrib ri) j (advert (rrib rj)) Ri) as [U1 U2].
    destruct (rib_update i (rrib ri) j (advert (rrib rj))) as [rb d] eqn:Eu. simpl in U1, U2. simpl.
    assert (Hin : In (self (mkRouter i rb (nbrs ri))) (map self S)).
    { simpl. rewrite <- Si. apply in_map. exact Ii. }
    split; [rewrite setr_keys; assumption|].
    intros ro Hro. apply setr_in in Hro; [|exact Hnd].
    destruct Hro as [-> | [Hro _]]; [|apply Hall; exact Hro].
    apply memN_In in Mj.
    assert (Hij : i <> j) by (intros ->; apply Ni; rewrite Si; exact Mj).
    unfold router_ok. simpl. split; [exact U1|]. split; [|split].
    + intros d0 h. simpl. rewrite U2. destruct (h =? j) eqn:Eh.
      * intros _. left. assert (h = j) by lia. subst. exact Mj.
      * intros Hlt. destruct (Hi d0 h Hlt) as [H | [H1 H2]]; [left; exact H|].
        right. rewrite <- Si. auto.
    + rewrite U2. destruct (i =? j) eqn:E; [lia|]. rewrite <- Si. exact Zi.
    + rewrite <- Si. exact Ni.
  - (* Deliver: any advertisement whatsoever *)
    destruct (getr S i) as [ri|] eqn:Gi; [|split; assumption].
    destruct (memN j (nbrs ri)) eqn:Mj; [|split; assumption].
    destruct (getr_some _ _ _ Gi) as [Ii Si].
    destruct (Hall ri Ii) as (Ri & Hi & Zi & Ni).
    pose proof (rib_update_spec i (rrib ri) j adv Ri) as [U1 U2].
    destruct (rib_update i (rrib ri) j adv) as [rb d] eqn:Eu. simpl in U1, U2. simpl.
    assert (Hin : In (self (mkRouter i rb (nbrs ri))) (map self S)).
    { simpl. rewrite <- Si. apply in_map. exact Ii. }
    split; [rewrite setr_keys; assumption|].
    intros ro Hro. apply setr_in in Hro; [|exact Hnd].
    destruct Hro as [-> | [Hro _]]; [|apply Hall; exact Hro].
    apply memN_In in Mj.
    assert (Hij : i <> j) by (intros ->; apply Ni; rewrite Si; exact Mj).
    unfold router_ok. simpl. split; [exact U1|]. split; [|split].
    + intros d0 h. simpl. rewrite U2. destruct (h =? j) eqn:Eh.
      * intros _. left. assert (h = j) by lia. subst. exact Mj.
      * intros Hlt. destruct (Hi d0 h Hlt) as [H | [H1 H2]]; [left; exact H|].
        right. rewrite <- Si. auto.
    + rewrite U2. destruct (i =? j) eqn:E; [lia|]. rewrite <- Si. exact Zi.
    + rewrite <- Si. exact Ni.
  - (* LateUpdate: the deleted neighbour object carries no advertisement; nothing happens *)
    destruct (getr S i); split; assumption.
  - (* NbrUp *)
    destruct (getr S i) as [ri|] eqn:Gi; [|split; assumption].
    destruct (memN j (nbrs ri) || (i =? j)) eqn:Mj; [split; assumption|]. simpl.
    destruct (getr_some _ _ _ Gi) as [Ii Si].
    destruct (Hall ri Ii) as (Ri & Hi & Zi & Ni).
    assert (Hin : In (self (mkRouter i (rrib ri) (nbrs ri ++ [j]))) (map self S)).
    { simpl. rewrite <- Si. apply in_map. exact Ii. }
    split; [rewrite setr_keys; assumption|].
    intros ro Hro. apply setr_in in Hro; [|exact Hnd].
    destruct Hro as [-> | [Hro _]]; [|apply Hall; exact Hro].
    unfold router_ok. simpl. split; [exact Ri|]. split; [|split].
    + intros d0 h Hlt. simpl in *. destruct (Hi d0 h Hlt) as [H | [H1 H2]].
      * left. apply in_or_app. left. exact H.
      * right. rewrite <- Si. auto.
    + rewrite <- Si. exact Zi.
    + rewrite <- Si. intro H. apply in_app_or in H. destruct H as [H | [H | []]]; [exact (Ni H)|].
      apply orb_false_iff in Mj. destruct Mj as [_ Mj]. lia.
  - (* NbrDead *)
    destruct (getr S i) as [ri|] eqn:Gi; [|split; assumption].
    destruct (memN j (nbrs ri)) eqn:Mj; [|split; assumption].
    destruct (getr_some _ _ _ Gi) as [Ii Si].
    destruct (Hall ri Ii) as (Ri & Hi & Zi & Ni).
    pose proof (rib_dead_spec (rrib ri) j Ri) as [U1 U2].
    destruct (rib_dead (rrib ri) j) as [rb d] eqn:Eu. simpl in U1, U2. simpl.
    assert (Hin : In (self (mkRouter i rb (delN j (nbrs ri)))) (map self S)).
    { simpl. rewrite <- Si. apply in_map. exact Ii. }
    split; [rewrite setr_keys; assumption|].
    intros ro Hro. apply setr_in in Hro; [|exact Hnd].
    destruct Hro as [-> | [Hro _]]; [|apply Hall; exact Hro].
    apply memN_In in Mj.
    assert (Hij : i <> j) by (intros ->; apply Ni; rewrite Si; exact Mj).
    unfold router_ok. simpl. split; [exact U1|]. split; [|split].
    + intros d0 h. simpl. rewrite U2. destruct (h =? j) eqn:Eh; [lia|].
      intros Hlt. destruct (Hi d0 h Hlt) as [H | [H1 H2]].
      * left. apply delN_In. split; [exact H | lia].
      * right. rewrite <- Si. auto.
    + rewrite U2. destruct (i =? j) eqn:E; [lia|]. rewrite <- Si. exact Zi.
    + rewrite <- Si. intro H. apply delN_In in H. exact (Ni (proj1 H)).
  - (* RouterUp *)
    destruct (getr S i) as [ri|] eqn:Gi; [split; assumption|]. simpl.
    apply getr_none in Gi. split.
    + rewrite map_app. simpl.
      assert (H : NoDup (map self S ++ [i])).
      { clear Hall. induction (map self S) as [|x xs IHx]; simpl.
        - constructor; [intros [] | constructor].
        - inversion Hnd; subst. constructor.
          + intro H. apply in_app_or in H. destruct H as [H | [H | []]]; [auto|].
            apply Gi. left. auto.
          + apply IHx; [assumption|]. intro H. apply Gi. right. exact H. }
      exact H.
    + intros ro Hro. apply in_app_or in Hro. destruct Hro as [Hro | [<- | []]].
      * apply Hall. exact Hro.
      * apply init_router_ok.
  - (* RouterDown *)
    split; [apply delr_nodup; exact Hnd|].
    intros ro Hro. apply delr_in in Hro. apply Hall. tauto.
Qed.

Lemma net_ok_nil : net_ok [].
Proof. split; [constructor | intros ro []]. Qed.

Lemma run_ok : forall evs S, net_ok S -> net_ok (run S evs).
Proof.
  unfold run. induction evs as [|e evs IH]; intros S H; simpl; [exact H|].
  apply IH. apply step_ok. exact H.
Qed.

Lemma run_app : forall evs1 evs2 S, run S (evs1 ++ evs2) = run (run S evs1) evs2.
Proof. intros. unfold run. apply fold_left_app. Qed.

(* ---- no advertisement ever lists a destination at or above infinity ---- *)
Lemma rib_ok_adv_ok : forall r, rib_ok r -> adv_ok (advert r) = true.
Proof.
  intros r [Hnd H]. unfold adv_ok, advert. apply forallb_forall.
  intros a Ha. apply in_map_iff in Ha. destruct Ha as ([d e] & <- & Hin). simpl.
  apply N.ltb_lt. apply (H d e). apply in_aget; assumption.
Qed.

Theorem advert_below_infinity_gen : forall S evs i ro, net_ok S ->
  getr (run S evs) i = Some ro -> adv_ok (advert (rrib ro)) = true.
Proof.
  intros S evs i ro Hok Hg. destruct (run_ok evs S Hok) as [_ Hall].
  apply getr_some in Hg. destruct (Hall ro (proj1 Hg)) as (R & _). apply rib_ok_adv_ok. exact R.
Qed.

(* a ribUpdate that runs late, on the state object of a neighbour already removed, changes nothing *)
Lemma late_update_noop : forall S i j adv, step S (LateUpdate i j adv) = (S, false).
Proof. intros S i j adv. simpl. destruct (getr S i); reflexivity. Qed.
