(* Dv/Graph.v — hop distance in the directed graph given by the neighbour tables: the breadth-first layers
   of Spec.within are exactly "reachable in at most k hops", and Spec.distb is the least such k below INF. *)
From Coq Require Import Lia ZifyBool ZifyN ZifyNat PeanoNat Nnat.
From Dv Require Import Model Spec Refresh RibFacts Net.
Open Scope N_scope.

Lemma alive_in : forall g i, alive g i = true <-> In i (map fst g).
Proof.
  intros g i. unfold alive. destruct (aget i g) eqn:E.
  - split; [intros _; eapply aget_some_key; eauto | reflexivity].
  - split; [discriminate|]. intros H. apply aget_none in E. contradiction.
Qed.

(* ---- reachability in at most k hops ---- *)
Lemma reachb_0 : forall g i d, reachb g 0 i d = true <-> i = d /\ alive g d = true.
Proof.
  intros g i d. unfold reachb. simpl. destruct (alive g d).
  - simpl. rewrite orb_false_r. split; [intros H; split; [lia | reflexivity] | intros [-> _]; apply N.eqb_refl].
  - simpl. split; [discriminate | intros [_ H]; discriminate].
Qed.

Lemma memN_app : forall l1 l2 k, memN k (l1 ++ l2) = memN k l1 || memN k l2.
Proof.
  induction l1 as [|x l1 IH]; intros l2 k; simpl; [reflexivity|].
  rewrite IH. rewrite orb_assoc. reflexivity.
Qed.

Lemma reachb_S : forall g k i d,
  reachb g (S k) i d = true <->
  reachb g k i d = true \/ (alive g i = true /\ exists j, In j (nb g i) /\ reachb g k j d = true).
Proof.
  intros g k i d. unfold reachb. simpl. rewrite memN_app. rewrite orb_true_iff.
  split.
  - intros [H | H]; [left; exact H|].
    apply memN_In in H. apply filter_In in H. destruct H as [Hin Hc].
    apply andb_true_iff in Hc. destruct Hc as [_ Hex].
    apply existsb_exists in Hex. destruct Hex as (j & Hj & Hm).
    right. split; [apply alive_in; exact Hin|]. exists j. auto.
  - intros [H | (Ha & j & Hj & Hm)]; [left; exact H|].
    destruct (memN i (within g d k)) eqn:E; [left; reflexivity|].
    right. apply memN_In. apply filter_In. split; [apply alive_in; exact Ha|].
    rewrite E. simpl. apply existsb_exists. exists j. auto.
Qed.

Lemma reachb_mono1 : forall g k i d, reachb g k i d = true -> reachb g (S k) i d = true.
Proof. intros. apply reachb_S. left. assumption. Qed.

Lemma reachb_mono : forall g k k' i d, (k <= k')%nat -> reachb g k i d = true -> reachb g k' i d = true.
Proof.
  intros g k k' i d Hle H. induction Hle; [exact H|]. apply reachb_mono1. exact IHHle.
Qed.

Lemma reachb_alive : forall g k i d, reachb g k i d = true -> alive g i = true /\ alive g d = true.
Proof.
  intros g. induction k as [|k IH]; intros i d H.
  - apply reachb_0 in H. destruct H as [-> H]. auto.
  - apply reachb_S in H. destruct H as [H | (Ha & j & Hj & Hm)]; [apply IH; exact H|].
    split; [exact Ha | apply (IH j d Hm)].
Qed.

(* costs are N: the same with N indices *)
Definition reachN (g : graph) (c : N) (i d : node) : Prop := reachb g (N.to_nat c) i d = true.

Lemma reachN_0 : forall g i d, reachN g 0 i d <-> i = d /\ alive g d = true.
Proof. intros. unfold reachN. simpl. apply reachb_0. Qed.

Lemma reachN_S : forall g c i d,
  reachN g (c + 1) i d <->
  reachN g c i d \/ (alive g i = true /\ exists j, In j (nb g i) /\ reachN g c j d).
Proof.
  intros g c i d. unfold reachN. replace (N.to_nat (c + 1)) with (S (N.to_nat c)) by lia. apply reachb_S.
Qed.

Lemma reachN_mono : forall g c c' i d, c <= c' -> reachN g c i d -> reachN g c' i d.
Proof. intros g c c' i d H. unfold reachN. apply reachb_mono. lia. Qed.

Lemma reachN_step : forall g c i j d, alive g i = true -> In j (nb g i) -> reachN g c j d -> reachN g (c + 1) i d.
Proof. intros g c i j d Ha Hj Hr. apply reachN_S. right. split; [exact Ha|]. exists j. auto. Qed.

(* hop distance *)
Definition isdist (g : graph) (i d : node) (m : N) : Prop :=
  reachN g m i d /\ forall m', reachN g m' i d -> m <= m'.

Lemma isdist_unique : forall g i d m m', isdist g i d m -> isdist g i d m' -> m = m'.
Proof.
  intros g i d m m' [R1 M1] [R2 M2]. specialize (M1 _ R2). specialize (M2 _ R1). lia.
Qed.

Lemma isdist_0 : forall g i d, isdist g i d 0 <-> i = d /\ alive g d = true.
Proof.
  intros g i d. unfold isdist. rewrite reachN_0. split; [tauto|]. intros H. split; [exact H | intros; lia].
Qed.

(* a router at distance m+1 has a neighbour at distance m *)
Lemma isdist_S : forall g i d m, isdist g i d (m + 1) ->
  alive g i = true /\ exists j, In j (nb g i) /\ isdist g j d m.
Proof.
  intros g i d m [R M]. apply reachN_S in R. destruct R as [R | (Ha & j & Hj & Rj)].
  - specialize (M _ R). lia.
  - split; [exact Ha|]. exists j. split; [exact Hj|]. split; [exact Rj|].
    intros m' Rm'. pose proof (reachN_step g m' i j d Ha Hj Rm') as R'. specialize (M _ R'). lia.
Qed.

(* every reachable pair has a distance *)
Lemma reach_isdist : forall g k i d, reachb g k i d = true -> exists m, isdist g i d m /\ (N.to_nat m <= k)%nat.
Proof.
  intros g. induction k as [|k IH]; intros i d H.
  - exists 0. split; [|simpl; lia]. split; [exact H | intros; lia].
  - destruct (reachb g k i d) eqn:E.
    + destruct (IH i d E) as (m & Hm & Hle). exists m. split; [exact Hm | lia].
    + exists (N.of_nat (S k)). split; [|lia]. split.
      * unfold reachN. rewrite Nnat.Nat2N.id. exact H.
      * intros m' Hm'. unfold reachN in Hm'.
        destruct (N.lt_ge_cases m' (N.of_nat (S k))) as [Hlt | Hge]; [|exact Hge].
        assert (reachb g k i d = true) by (apply (reachb_mono g (N.to_nat m')); [lia | exact Hm']).
        congruence.
Qed.

(* ---- distb computes the distance when it is below INF ---- *)
Lemma dist_from_spec : forall g i d fuel base,
  (forall m', (m' < base)%nat -> reachb g m' i d = false) ->
  match dist_from g i d base fuel with
  | Some m => reachb g m i d = true /\ (forall m', (m' < m)%nat -> reachb g m' i d = false) /\ (m <= base + fuel)%nat
  | None => forall m', (m' <= base + fuel)%nat -> reachb g m' i d = false
  end.
Proof.
  intros g i d. induction fuel as [|fuel IH]; intros base Hb; simpl.
  - destruct (reachb g base i d) eqn:E.
    + split; [exact E|]. split; [exact Hb | lia].
    + intros m' Hm'. destruct (Nat.eq_dec m' base) as [-> | Hne]; [exact E | apply Hb; lia].
  - destruct (reachb g base i d) eqn:E.
    + split; [exact E|]. split; [exact Hb | lia].
    + assert (Hb' : forall m', (m' < S base)%nat -> reachb g m' i d = false).
      { intros m' Hm'. destruct (Nat.eq_dec m' base) as [-> | Hne]; [exact E | apply Hb; lia]. }
      specialize (IH (S base) Hb'). destruct (dist_from g i d (S base) fuel).
      * destruct IH as (A & B & C). split; [exact A|]. split; [exact B | lia].
      * intros m' Hm'. apply IH. lia.
Qed.

Lemma distb_some : forall g i d m, distb g i d = Some m <-> isdist g i d (N.of_nat m) /\ N.of_nat m < INF.
Proof.
  intros g i d m. unfold distb. pose proof INF_pos as Hp.
  destruct (N.to_nat INF) as [|f] eqn:Ef; [lia|].
  pose proof (dist_from_spec g i d f 0%nat) as H.
  assert (H0 : forall m', (m' < 0)%nat -> reachb g m' i d = false) by (intros; lia).
  specialize (H H0). split.
  - intros Hd. rewrite Hd in H. destruct H as (A & B & C). split; [|lia]. split.
    + unfold reachN. rewrite Nnat.Nat2N.id. exact A.
    + intros m' Hm'. unfold reachN in Hm'.
      destruct (N.lt_ge_cases m' (N.of_nat m)) as [Hlt | Hge]; [|exact Hge].
      rewrite B in Hm' by lia. discriminate.
  - intros [[R M] Hlt]. unfold reachN in R. rewrite Nnat.Nat2N.id in R.
    destruct (dist_from g i d 0 f) as [m0|].
    + destruct H as (A & B & C). f_equal.
      destruct (Nat.lt_trichotomy m0 m) as [Hl | [He | Hg]]; [|exact He|].
      * assert (Hr : reachN g (N.of_nat m0) i d) by (unfold reachN; rewrite Nnat.Nat2N.id; exact A).
        specialize (M _ Hr). lia.
      * rewrite B in R by lia. discriminate.
    + rewrite H in R by lia. discriminate.
Qed.

Lemma distb_none : forall g i d, distb g i d = None -> forall m, isdist g i d m -> INF <= m.
Proof.
  intros g i d Hn m Hm. destruct (N.lt_ge_cases m INF) as [Hlt | Hge]; [|exact Hge].
  assert (distb g i d = Some (N.to_nat m)).
  { apply distb_some. rewrite Nnat.N2Nat.id. auto. }
  congruence.
Qed.

(* ---- the graph of a network state ---- *)
Lemma topo_get : forall S i,
  aget i (topo_of S) = match getr S i with Some r => Some (nbrs r) | None => None end.
Proof.
  induction S as [|r S IH]; intros i; simpl; [reflexivity|].
  rewrite (N.eqb_sym i). destruct (self r =? i); [reflexivity | apply IH].
Qed.

Lemma topo_nb : forall S i r, getr S i = Some r -> nb (topo_of S) i = nbrs r /\ alive (topo_of S) i = true.
Proof.
  intros S i r H. unfold nb, alive. rewrite topo_get, H. auto.
Qed.

Lemma topo_alive : forall S i, alive (topo_of S) i = true -> exists r, getr S i = Some r.
Proof.
  intros S i. unfold alive. rewrite topo_get. destruct (getr S i) as [r|]; [eauto | discriminate].
Qed.

Lemma topo_setr : forall S r r0, getr S (self r) = Some r0 -> nbrs r0 = nbrs r -> topo_of (setr S r) = topo_of S.
Proof.
  induction S as [|r1 S IH]; intros r r0; simpl; [discriminate|].
  destruct (self r1 =? self r) eqn:E.
  - intros H Hn. inversion H; subst r0. simpl. f_equal. f_equal; [lia | congruence].
  - intros H Hn. simpl. f_equal. eapply IH; eauto.
Qed.

Lemma settled_alive : forall g i j, settled g = true -> alive g i = true -> In j (nb g i) -> alive g j = true.
Proof.
  intros g i j Hs Ha Hj. unfold settled in Hs. rewrite forallb_forall in Hs.
  unfold nb in Hj. unfold alive in Ha. destruct (aget i g) as [l|] eqn:E; [|discriminate].
  apply aget_in in E. specialize (Hs _ E). simpl in Hs. rewrite forallb_forall in Hs. apply Hs. exact Hj.
Qed.
