(* Dv/Spec.v — what property C18 demands, as decidable predicates (no proofs here).
   These are extracted and evaluated on the observations of the implementation (spec oracle) and are the
   conclusions of the theorems in Props_C18.v. *)
From Dv Require Export Model.
Open Scope N_scope.

(* The topology as the routers see it: the live routers and, for each, its neighbour table. *)
Definition graph := list (node * list node).
Definition topo_of (S : net) : graph := map (fun r => (self r, nbrs r)) S.

Definition alive (g : graph) (i : node) : bool :=
  match aget i g with Some _ => true | None => false end.
Definition nb (g : graph) (i : node) : list node :=
  match aget i g with Some l => l | None => [] end.
Definition edge (g : graph) (i j : node) : bool := memN j (nb g i).

(* all dead neighbours have been detected: every neighbour-table entry names a live router *)
Definition settled (g : graph) : bool :=
  forallb (fun il : node * list node => forallb (alive g) (snd il)) g.

(* within g d k = the routers from which d can be reached in at most k hops (breadth-first layers) *)
Fixpoint within (g : graph) (d : node) (k : nat) : list node :=
  match k with
  | O => if alive g d then [d] else []
  | S k' => let w := within g d k' in
            w ++ filter (fun i => negb (memN i w) && existsb (fun j => memN j w) (nb g i)) (map fst g)
  end.

Definition reachb (g : graph) (k : nat) (i d : node) : bool := memN i (within g d k).

(* least m <= fuel + base with reachb m *)
Fixpoint dist_from (g : graph) (i d : node) (base fuel : nat) : option nat :=
  if reachb g base i d then Some base
  else match fuel with O => None | S f => dist_from g i d (S base) f end.

(* hop distance if it is below the infinity metric *)
Definition distb (g : graph) (i d : node) : option nat :=
  match N.to_nat INF with
  | O => None
  | S f => dist_from g i d 0 f
  end.

(* ---- the oracle predicates ---- *)

(* no advertisement lists a destination at or above infinity *)
Definition adv_ok (adv : list adv_entry) : bool :=
  forallb (fun a => a_cost a <? INF) adv.

(* the deterministic next hop: among the neighbours that are one hop closer, the one the tie-break prefers
   (tie_key: the smaller or the larger name hash, as measured on the implementation) *)
Definition on_path (g : graph) (d : node) (m : nat) (h : node) : bool :=
  match distb g h d with Some m' => Nat.eqb (S m') m | None => false end.

Definition hop_ok (g : graph) (i d : node) (m : nat) (h : node) : bool :=
  if i =? d then h =? i
  else edge g i h && on_path g d m h &&
       forallb (fun h' => negb (on_path g d m h') || (tie_key h <=? tie_key h')%Z) (nb g i).

(* router i's table (destination -> (best cost, next hop), as returned by Rib.Entries) is exactly the
   shortest-path table of g: every destination at distance m < INF is present with cost m and the
   deterministic next hop; nothing else is present *)
Definition table_ok (g : graph) (i : node) (tbl : list (node * (N * node))) : bool :=
  forallb (fun dc : node * (N * node) =>
             let '(d, (c, h)) := dc in
             match distb g i d with
             | Some m => (c =? N.of_nat m) && hop_ok g i d m h
             | None => false
             end) tbl
  && forallb (fun d => match distb g i d with
                       | Some _ => match aget d tbl with Some _ => true | None => false end
                       | None => true
                       end) (map fst g).

(* what the property itself demands of a table (the oracle evaluated on the implementation): the same, except that any
   neighbour one hop closer is an acceptable next hop — that ties are broken "the same way every time" is checked
   separately (agreement with the model, identical results on re-delivery) *)
Definition hop_okw (g : graph) (i d : node) (m : nat) (h : node) : bool :=
  if i =? d then h =? i else edge g i h && on_path g d m h.

Definition table_okw (g : graph) (i : node) (tbl : list (node * (N * node))) : bool :=
  forallb (fun dc : node * (N * node) =>
             let '(d, (c, h)) := dc in
             match distb g i d with
             | Some m => (c =? N.of_nat m) && hop_okw g i d m h
             | None => false
             end) tbl
  && forallb (fun d => match distb g i d with
                       | Some _ => match aget d tbl with Some _ => true | None => false end
                       | None => true
                       end) (map fst g).

Definition convergedw (S : net) : bool :=
  forallb (fun r => table_okw (topo_of S) (self r) (rib_entries (rrib r)) && adv_ok (advert (rrib r))) S.

Definition converged (S : net) : bool :=
  forallb (fun r => table_ok (topo_of S) (self r) (rib_entries (rrib r)) && adv_ok (advert (rrib r))) S.

(* ---- schedules ---- *)
Definition pair_eqb (p q : node * node) : bool := (fst p =? fst q) && (snd p =? snd q).
Definition all_pairs (g : graph) : list (node * node) :=
  flat_map (fun il : node * list node => map (fun j => (fst il, j)) (snd il)) g.

Definition is_fetch (e : event) : bool := match e with Fetch _ _ => true | _ => false end.
Definition fetches (p : node * node) (e : event) : bool :=
  match e with Fetch i j => pair_eqb p (i, j) | _ => false end.
(* a late ribUpdate on a deleted neighbour object (no transfer: it must leave the state alone) *)
Definition is_late (e : event) : bool := match e with LateUpdate _ _ _ => true | _ => false end.
(* advertisement transfers, atomic (Fetch) or of an advertisement generated earlier (Deliver) *)
Definition is_xfer (e : event) : bool := match e with Fetch _ _ | Deliver _ _ _ => true | _ => false end.
Definition xfers (p : node * node) (e : event) : bool :=
  match e with Fetch i j | Deliver i j _ => pair_eqb p (i, j) | _ => false end.

(* a round: only Fetch events, and every ordered adjacent pair occurs at least once *)
Definition is_round (g : graph) (evs : list event) : bool :=
  forallb is_fetch evs && forallb (fun p => existsb (fetches p) evs) (all_pairs g).

(* the largest hop distance below INF (a diameter bound for the rounds needed) *)
Definition maxdist (g : graph) : nat :=
  list_max (flat_map (fun i => map (fun d => match distb g i d with Some m => m | None => O end) (map fst g))
                     (map fst g)).

(* histories in which nothing is ever lost: routers start, neighbours appear, advertisements are fetched *)
Definition is_growth (e : event) : bool :=
  match e with Fetch _ _ | NbrUp _ _ | RouterUp _ => true | _ => false end.

(* ---- quiescence ---- *)
(* the cost router r stores for destination d through next hop h (INF if none) *)
Definition cost_via (r : rib) (d h : node) : N :=
  match aget d r with
  | Some e => match aget h (costs e) with Some c => c | None => INF end
  | None => INF
  end.

(* the cost a router named self would store for d after processing the advertisement of a router whose RIB is rj *)
Definition offered (self : node) (rj : rib) (d : node) : N :=
  match aget d rj with
  | Some e => let c := adv_cost self (mkAdv d (nh1 e) (low1 e) (low2 e)) in if INF <=? c then INF else c
  | None => INF
  end.

(* every router has processed the current advertisement of each of its neighbours: nothing is left to do *)
Definition fixedb (S : net) : bool :=
  forallb (fun ri =>
    forallb (fun j =>
      match getr S j with
      | Some rj => forallb (fun d => cost_via (rrib ri) d j =? offered (self ri) (rrib rj) d)
                           (map fst (rrib ri) ++ map fst (rrib rj))
      | None => true
      end) (nbrs ri)) S.

(* no usable route through somebody who is not (any more) in the neighbour table: every per-hop cost below INF belongs
   to a current neighbour, or is the router's own entry *)
Definition hops_okb (r : router) : bool :=
  forallb (fun de : node * entry =>
    forallb (fun hc : node * N =>
      negb (snd hc <? INF) || memN (fst hc) (nbrs r) || ((fst hc =? self r) && (fst de =? self r)))
      (costs (snd de))) (rrib r).
