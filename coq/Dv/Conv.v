(* Dv/Conv.v — convergence of the distance-vector computation on a fixed topology, for every fair schedule.
   Phase 1 (lower bound): after r rounds every stored cost below r is witnessed by a real path.
   Phase 2 (upper bound): once no cost underestimates, after k more rounds every cost on a shortest path
   to a destination at distance <= k is exact.  Both are per-(router, neighbour) invariants that a Fetch of
   that pair raises by one level and that no other Fetch disturbs. *)
From Coq Require Import Lia ZifyBool ZifyN ZifyNat PeanoNat Nnat.
From Dv Require Import Model Spec Refresh RibFacts Net Graph.
Open Scope N_scope.

(* ------------------------------------------------------------------------------------------ *)
(* what a neighbour's advertisement turns into                                                *)
(* ------------------------------------------------------------------------------------------ *)
Lemma wrap64_small : forall x, x < INF -> wrap64 (x + local_cost) = x + 1.
Proof.
  intros x Hx. unfold wrap64. rewrite local_cost_val. apply N.mod_small.
  pose proof INF_small. lia.
Qed.

Lemma newc_lt : forall i rj d, rib_ok rj -> newc i rj d < INF ->
  exists a, newc i rj d = a + 1 /\ a < INF /\
            ((a = b1 rj d /\ n1 rj d <> i) \/ (a = b2 rj d /\ n1 rj d = i)).
Proof.
  intros i rj d Hok. unfold newc, b1, b2, n1.
  destruct (aget d rj) as [e|] eqn:He; [|lia].
  destruct Hok as [_ H]. destruct (H d e He) as [_ Hl].
  unfold adv_cost. simpl.
  destruct (nh1 e =? i) eqn:En.
  - destruct (low2 e <? INF) eqn:E2.
    + rewrite wrap64_small by lia.
      destruct (INF <=? low2 e + 1) eqn:Ec; [lia|]. intros _.
      exists (low2 e). split; [reflexivity|]. split; [lia|]. right. split; [reflexivity | lia].
    + destruct (INF <=? INF) eqn:Ec; lia.
  - rewrite wrap64_small by lia.
    destruct (INF <=? low1 e + 1) eqn:Ec; [lia|]. intros _.
    exists (low1 e). split; [reflexivity|]. split; [lia|]. left. split; [reflexivity | lia].
Qed.

Lemma newc_eq : forall i rj d m, rib_ok rj -> b1 rj d = m -> n1 rj d <> i -> m + 1 < INF ->
  newc i rj d = m + 1.
Proof.
  intros i rj d m Hok. unfold newc, b1, n1.
  destruct (aget d rj) as [e|] eqn:He; [|lia].
  intros Hb Hn Hm. unfold adv_cost. simpl.
  destruct (nh1 e =? i) eqn:En; [lia|].
  rewrite wrap64_small by lia.
  destruct (INF <=? low1 e + 1) eqn:Ec; lia.
Qed.

(* ------------------------------------------------------------------------------------------ *)
(* a fixed topology                                                                           *)
(* ------------------------------------------------------------------------------------------ *)
Section Fixed.
Variable g : graph.

Definition E (i j : node) : Prop := In j (nb g i).
Definition at_g (S : net) : Prop := net_ok S /\ topo_of S = g.

Lemma E_getr : forall S i j, at_g S -> E i j -> exists ri, getr S i = Some ri /\ In j (nbrs ri).
Proof.
  intros S i j [_ Hg] He. unfold E, nb in He. rewrite <- Hg in He. rewrite topo_get in He.
  destruct (getr S i) as [ri|]; [|destruct He]. exists ri. auto.
Qed.

Lemma getr_E : forall S i ri j, at_g S -> getr S i = Some ri -> In j (nbrs ri) -> E i j.
Proof.
  intros S i ri j [_ Hg] Hi Hj. unfold E. rewrite <- Hg. rewrite (proj1 (topo_nb S i ri Hi)). exact Hj.
Qed.

Lemma getr_alive : forall S i ri, at_g S -> getr S i = Some ri -> alive g i = true.
Proof. intros S i ri [_ Hg] Hi. rewrite <- Hg. apply (topo_nb S i ri Hi). Qed.

(* the effect of one Fetch *)
Lemma fetch_cases : forall S i j, at_g S ->
  (fst (step S (Fetch i j)) = S /\ (settled g = true -> ~ E i j)) \/
  (E i j /\ exists ri rj ri',
     getr S i = Some ri /\ getr S j = Some rj /\ In j (nbrs ri) /\ self ri' = i /\ nbrs ri' = nbrs ri /\
     (forall d h, rv (rrib ri') d h = if h =? j then newc i (rrib rj) d else rv (rrib ri) d h) /\
     (forall i', getr (fst (step S (Fetch i j))) i' = if i' =? i then Some ri' else getr S i') /\
     at_g (fst (step S (Fetch i j)))).
Proof.
  intros S i j Hat. pose proof Hat as [Hok Hg].
  pose proof (step_ok S (Fetch i j) Hok) as Hok'.
  simpl in *. destruct (getr S i) as [ri|] eqn:Gi.
  2:{ left. split; [reflexivity|]. intros _. unfold E, nb. rewrite <- Hg, topo_get, Gi. intros []. }
  destruct (memN j (nbrs ri)) eqn:Mj.
  2:{ left. split; [destruct (getr S j); reflexivity|]. intros _. unfold E, nb. rewrite <- Hg, topo_get, Gi.
      intro H. apply memN_In in H. congruence. }
  apply memN_In in Mj.
  assert (He : E i j) by (eapply getr_E; eauto).
  destruct (getr S j) as [rj|] eqn:Gj.
  2:{ left. split; [reflexivity|]. intros Hs _.
      assert (Haj : alive g j = true).
      { apply (settled_alive g i j Hs); [eapply getr_alive; eauto | exact He]. }
      rewrite <- Hg in Haj. apply topo_alive in Haj. destruct Haj as [rj Gj']. congruence. }
  right. split; [exact He|].
  destruct Hok as [Hnd Hall].
  destruct (getr_some _ _ _ Gi) as [Ii Si]. destruct (getr_some _ _ _ Gj) as [Ij Sj].
  destruct (Hall ri Ii) as (Ri & _). destruct (Hall rj Ij) as (Rj & _).
  pose proof (rib_update_spec i (rrib ri) j (advert (rrib rj)) Ri) as [U1 U2].
  destruct (rib_update i (rrib ri) j (advert (rrib rj))) as [rb db] eqn:Eu. simpl in *.
  exists ri, rj, (mkRouter i rb (nbrs ri)). simpl.
  assert (Hin : In (self (mkRouter i rb (nbrs ri))) (map self S)).
  { simpl. rewrite <- Si. apply in_map. exact Ii. }
  split; [reflexivity|]. split; [reflexivity|]. split; [exact Mj|]. split; [reflexivity|]. split; [reflexivity|].
  split; [|split; [|split]].
  - intros d h. rewrite U2. destruct (h =? j); [|reflexivity].
    apply lastc_advert. destruct Rj as [Hn _]. exact Hn.
  - intros i'. rewrite getr_setr by exact Hin. reflexivity.
  - exact Hok'.
  - rewrite <- Hg. apply (topo_setr S (mkRouter i rb (nbrs ri)) ri); [simpl; exact Gi | reflexivity].
Qed.

Lemma fetch_at_g : forall S i j, at_g S -> at_g (fst (step S (Fetch i j))).
Proof.
  intros S i j Hat. destruct (fetch_cases S i j Hat) as [[-> _] | (_ & ri & rj & ri' & H)]; [exact Hat|].
  apply H.
Qed.

(* ------------------------------------------------------------------------------------------ *)
(* rounds                                                                                     *)
(* ------------------------------------------------------------------------------------------ *)
Definition fetch_only (evs : list event) : Prop := forallb is_fetch evs = true.

Lemma is_round_covers : forall evs, is_round g evs = true ->
  fetch_only evs /\ forall i j, E i j -> In (Fetch i j) evs.
Proof.
  intros evs H. unfold is_round in H. apply andb_true_iff in H. destruct H as [H1 H2].
  split; [exact H1|]. intros i j He. rewrite forallb_forall in H2.
  assert (Hp : In (i, j) (all_pairs g)).
  { unfold all_pairs. apply in_flat_map. unfold E, nb in He.
    destruct (aget i g) as [l|] eqn:Ea; [|destruct He].
    exists (i, l). split; [apply aget_in; exact Ea|]. simpl. apply in_map. exact He. }
  specialize (H2 _ Hp). apply existsb_exists in H2. destruct H2 as (e & He1 & He2).
  destruct e as [a b | | | |]; simpl in He2; try discriminate.
  unfold pair_eqb in He2. simpl in He2.
  assert (i = a /\ j = b) by lia. destruct H as [-> ->]. exact He1.
Qed.

Section Round.
Variable I : net -> Prop.
Variable P : N -> net -> node -> node -> Prop.
Hypothesis I_step : forall S i j, I S -> I (fst (step S (Fetch i j))).
Hypothesis P_up : forall r S i j, I S -> (forall i' j', E i' j' -> P r S i' j') -> E i j ->
  P (r + 1) (fst (step S (Fetch i j))) i j.
Hypothesis P_keep : forall r S i j i' j', I S -> E i' j' -> P r S i' j' -> (i' <> i \/ j' <> j) ->
  P r (fst (step S (Fetch i j))) i' j'.
Hypothesis P_mono : forall r S i j, P (r + 1) S i j -> P r S i j.

Lemma level_step : forall r S i j, I S -> (forall i' j', E i' j' -> P r S i' j') ->
  forall i' j', E i' j' -> P r (fst (step S (Fetch i j))) i' j'.
Proof.
  intros r S i j HI Hall i' j' He.
  destruct (N.eq_dec i' i) as [-> | Hi].
  - destruct (N.eq_dec j' j) as [-> | Hj].
    + apply P_mono. apply P_up; assumption.
    + apply P_keep; auto.
  - apply P_keep; auto.
Qed.

Lemma round_gen : forall r evs S (done : node -> node -> Prop), I S -> fetch_only evs ->
  (forall i j, E i j -> P r S i j) ->
  (forall i j, E i j -> done i j -> P (r + 1) S i j) ->
  I (run S evs) /\ (forall i j, E i j -> P r (run S evs) i j) /\
  (forall i j, E i j -> done i j \/ In (Fetch i j) evs -> P (r + 1) (run S evs) i j).
Proof.
  intros r. induction evs as [|e evs IH]; intros S done HI Hf Hall Hdone.
  - simpl. split; [exact HI|]. split; [exact Hall|]. intros i j He [H | []]. apply Hdone; assumption.
  - unfold fetch_only in Hf. simpl in Hf. apply andb_true_iff in Hf. destruct Hf as [Hfe Hf].
    destruct e as [a b | | | |]; simpl in Hfe; try discriminate.
    change (run S (Fetch a b :: evs)) with (run (fst (step S (Fetch a b))) evs).
    set (S1 := fst (step S (Fetch a b))).
    specialize (IH S1 (fun i j => done i j \/ (i = a /\ j = b))).
    destruct IH as (I1 & I2 & I3).
    + apply I_step. exact HI.
    + exact Hf.
    + apply level_step; assumption.
    + intros i j He [Hd | [-> ->]].
      * destruct (N.eq_dec i a) as [-> | Hi].
        -- destruct (N.eq_dec j b) as [-> | Hj].
           ++ apply P_up; assumption.
           ++ apply P_keep; auto.
        -- apply P_keep; auto.
      * apply P_up; assumption.
    + split; [exact I1|]. split; [exact I2|].
      intros i j He [Hd | [Heq | Hin]].
      * apply I3; auto.
      * inversion Heq; subst. apply I3; auto.
      * apply I3; auto.
Qed.

Lemma fetches_keep : forall r evs S, I S -> fetch_only evs -> (forall i j, E i j -> P r S i j) ->
  I (run S evs) /\ forall i j, E i j -> P r (run S evs) i j.
Proof.
  intros r evs S HI Hf Hall.
  destruct (round_gen r evs S (fun _ _ => False) HI Hf Hall) as (A & B & _); [tauto | auto].
Qed.

Lemma round_up : forall r evs S, I S -> is_round g evs = true -> (forall i j, E i j -> P r S i j) ->
  I (run S evs) /\ forall i j, E i j -> P (r + 1) (run S evs) i j.
Proof.
  intros r evs S HI Hr Hall. destruct (is_round_covers evs Hr) as [Hf Hc].
  destruct (round_gen r evs S (fun _ _ => False) HI Hf Hall) as (A & _ & C); [tauto|].
  split; [exact A|]. intros i j He. apply C; auto.
Qed.

(* n rounds followed by any further fetches *)
Inductive nrounds : nat -> list event -> Prop :=
| nr_tail : forall evs, fetch_only evs -> nrounds 0 evs
| nr_round : forall n r evs, is_round g r = true -> nrounds n evs -> nrounds (S n) (r ++ evs).

Lemma rounds_up : forall n evs, nrounds n evs -> forall r S, I S -> (forall i j, E i j -> P r S i j) ->
  I (run S evs) /\ forall i j, E i j -> P (r + N.of_nat n) (run S evs) i j.
Proof.
  induction 1 as [evs Hf | n rd evs Hr Hn IH]; intros r S HI Hall.
  - replace (r + N.of_nat 0) with r by lia. apply fetches_keep; assumption.
  - rewrite run_app. destruct (round_up r rd S HI Hr Hall) as [I1 A1].
    destruct (IH (r + 1) (run S rd) I1 A1) as [I2 A2]. split; [exact I2|].
    replace (r + N.of_nat (Datatypes.S n)) with (r + 1 + N.of_nat n) by lia. exact A2.
Qed.
End Round.

Lemma nrounds_split : forall n m evs, nrounds (n + m) evs ->
  exists evs1 evs2, evs = evs1 ++ evs2 /\ nrounds n evs1 /\ nrounds m evs2.
Proof.
  induction n as [|n IH]; intros m evs H.
  - exists [], evs. split; [reflexivity|]. split; [constructor; reflexivity | exact H].
  - simpl in H. inversion H as [|n' r evs' Hr Hn]; subst.
    destruct (IH m evs' Hn) as (e1 & e2 & -> & H1 & H2).
    exists (r ++ e1), e2. split; [rewrite app_assoc; reflexivity|]. split; [constructor; assumption | exact H2].
Qed.

Lemma nrounds_fetch_only : forall n evs, nrounds n evs -> fetch_only evs.
Proof.
  induction 1 as [evs Hf | n r evs Hr Hn IH]; [exact Hf|].
  unfold fetch_only in *. rewrite forallb_app.
  destruct (is_round_covers r Hr) as [Hfr _]. unfold fetch_only in Hfr. rewrite Hfr, IH. reflexivity.
Qed.

Lemma nrounds_app_tail : forall n e1 e2, nrounds n e1 -> fetch_only e2 -> nrounds n (e1 ++ e2).
Proof.
  intros n e1 e2 H1 H2. induction H1 as [e1 Hf | n r e1 Hr Hn IH].
  - constructor. unfold fetch_only in *. rewrite forallb_app, Hf, H2. reflexivity.
  - rewrite <- app_assoc. constructor; [exact Hr | exact IH].
Qed.

Lemma nrounds_weaken : forall n m evs, (m <= n)%nat -> nrounds n evs -> nrounds m evs.
Proof.
  intros n m evs Hle H. replace n with (m + (n - m))%nat in H by lia.
  destruct (nrounds_split m (n - m) evs H) as (e1 & e2 & -> & H1 & H2).
  apply nrounds_app_tail; [exact H1 | eapply nrounds_fetch_only; eauto].
Qed.

(* ------------------------------------------------------------------------------------------ *)
(* phase 1: stored costs below the round number are witnessed by paths                        *)
(* ------------------------------------------------------------------------------------------ *)
Definition LBp (r : N) (S : net) (i j : node) : Prop :=
  forall ri d, getr S i = Some ri -> rv (rrib ri) d j < r -> rv (rrib ri) d j < INF ->
  exists c, rv (rrib ri) d j = c + 1 /\ reachN g c j d.

Definition LB (r : N) (S : net) : Prop := forall i j, E i j -> LBp r S i j.

(* any usable cost of router j below level r is the length of a real path from j *)
Lemma witness_rv : forall r S j rj d h, at_g S -> LB r S -> getr S j = Some rj ->
  rv (rrib rj) d h < r -> rv (rrib rj) d h < INF -> reachN g (rv (rrib rj) d h) j d.
Proof.
  intros r S j rj d h Hat HLB Gj Hr Hlt.
  pose proof Hat as [[_ Hall] _]. destruct (getr_some _ _ _ Gj) as [Ij Sj].
  destruct (Hall rj Ij) as (Rj & Hj & Zj & Nj).
  destruct (Hj d h Hlt) as [Hn | [Hh Hd]].
  - assert (He : E j h) by exact (getr_E S j rj h Hat Gj Hn).
    destruct (HLB j h He rj d Gj Hr Hlt) as (c & Hc & Hreach).
    rewrite Hc. eapply reachN_step; [eapply getr_alive; eauto | exact He | exact Hreach].
  - rewrite Sj in Hh, Hd. subst h d. rewrite Sj in Zj. rewrite Zj.
    apply reachN_0. split; [reflexivity | eapply getr_alive; eauto].
Qed.

Lemma LB_up_or : forall r S i j, at_g S -> (forall i' j', E i' j' -> LBp r S i' j') -> E i j ->
  (fst (step S (Fetch i j)) = S /\ (settled g = true -> ~ E i j)) \/
  LBp (r + 1) (fst (step S (Fetch i j))) i j.
Proof.
  intros r S i j Hat HLB He.
  destruct (fetch_cases S i j Hat) as [Hn | (_ & ri & rj & ri' & Gi & Gj & Hj & Si' & Nb' & Hrv & Hget & Hat')];
    [left; exact Hn | right].
  intros rx d Gx Hr Hlt. rewrite Hget, N.eqb_refl in Gx. inversion Gx; subst rx; clear Gx.
  rewrite Hrv, N.eqb_refl in *.
  pose proof Hat as [[_ Hall] _]. destruct (getr_some _ _ _ Gj) as [Ij Sj].
  destruct (Hall rj Ij) as (Rj & _).
  destruct (newc_lt i (rrib rj) d Rj Hlt) as (a & Ha & Halt & Hcase).
  exists a. split; [exact Ha|].
  assert (Har : a < r) by lia.
  destruct Hcase as [[Hb _] | [Hb _]].
  - pose proof (b1_attained (rrib rj) d Rj) as Hatt. rewrite <- Hb in Hatt. specialize (Hatt Halt).
    rewrite <- Hatt. apply (witness_rv r S j rj d _ Hat HLB Gj); rewrite Hatt; assumption.
  - pose proof (b2_attained (rrib rj) d Rj) as Hatt. rewrite <- Hb in Hatt. destruct (Hatt Halt) as [Hatt' _].
    rewrite <- Hatt'. apply (witness_rv r S j rj d _ Hat HLB Gj); rewrite Hatt'; assumption.
Qed.

Lemma LB_up : settled g = true -> forall r S i j, at_g S -> (forall i' j', E i' j' -> LBp r S i' j') -> E i j ->
  LBp (r + 1) (fst (step S (Fetch i j))) i j.
Proof.
  intros Hs r S i j Hat HLB He.
  destruct (LB_up_or r S i j Hat HLB He) as [[_ Hn] | H]; [exfalso; exact (Hn Hs He) | exact H].
Qed.

Lemma LB_keep : forall r S i j i' j', at_g S -> E i' j' -> LBp r S i' j' -> (i' <> i \/ j' <> j) ->
  LBp r (fst (step S (Fetch i j))) i' j'.
Proof.
  intros r S i j i' j' Hat He HP Hne.
  destruct (fetch_cases S i j Hat) as [[-> _] | (_ & ri & rj & ri' & Gi & Gj & Hj & Si' & Nb' & Hrv & Hget & Hat')];
    [exact HP|].
  intros rx d Gx. rewrite Hget in Gx. destruct (i' =? i) eqn:Ei.
  - inversion Gx; subst rx; clear Gx. assert (i' = i) by lia. subst i'.
    assert (Hjj : (j' =? j) = false) by (destruct Hne; lia).
    rewrite Hrv, Hjj. apply HP. exact Gi.
  - apply HP. exact Gx.
Qed.

Lemma LB_mono : forall r S i j, LBp (r + 1) S i j -> LBp r S i j.
Proof. intros r S i j H ri d G Hr Hlt. apply H; [exact G | lia | exact Hlt]. Qed.

Lemma LB_zero : forall S, LB 0 S.
Proof. intros S i j _ ri d _ H. lia. Qed.

(* no stored cost underestimates *)
Definition NU (S : net) : Prop := LB INF S.

Lemma LB_NU : forall r S, INF <= r -> LB r S -> NU S.
Proof.
  intros r S Hr H i j He ri d G _ Hlt. apply (H i j He ri d G); [lia | exact Hlt].
Qed.

Lemma NU_LB : forall r S, NU S -> LB r S.
Proof. intros r S H i j He ri d G _ Hlt. apply (H i j He ri d G); [exact Hlt | exact Hlt]. Qed.

Theorem lower_bound_rounds : settled g = true -> forall n evs S, at_g S -> nrounds n evs ->
  at_g (run S evs) /\ LB (N.of_nat n) (run S evs).
Proof.
  intros Hs n evs S Hat Hn.
  pose proof (rounds_up at_g LBp fetch_at_g (LB_up Hs) LB_keep LB_mono n evs Hn 0 S Hat (LB_zero S)) as [A B].
  split; [exact A|]. exact B.
Qed.

(* NU is stable under fetches *)
Lemma NU_step : forall S i j, at_g S -> NU S -> NU (fst (step S (Fetch i j))).
Proof.
  intros S i j Hat H i' j' He.
  destruct (N.eq_dec i' i) as [-> | Hi]; [destruct (N.eq_dec j' j) as [-> | Hj]|].
  - destruct (LB_up_or INF S i j Hat H He) as [[-> _] | H']; [apply H; exact He | apply LB_mono; exact H'].
  - apply LB_keep; auto.
  - apply LB_keep; auto.
Qed.

(* ------------------------------------------------------------------------------------------ *)
(* phase 2: exact costs along shortest paths                                                  *)
(* ------------------------------------------------------------------------------------------ *)
Definition UBp (k : N) (S : net) (i j : node) : Prop :=
  forall ri d m, getr S i = Some ri -> m < k -> isdist g j d m -> isdist g i d (m + 1) -> m + 1 < INF ->
  rv (rrib ri) d j = m + 1.

Definition UB (k : N) (S : net) : Prop := forall i j, E i j -> UBp k S i j.

Definition I2 (S : net) : Prop := at_g S /\ NU S.

Lemma I2_step : forall S i j, I2 S -> I2 (fst (step S (Fetch i j))).
Proof. intros S i j [A B]. split; [apply fetch_at_g; exact A | apply NU_step; assumption]. Qed.

(* under NU, a finite best cost is the length of a real path *)
Lemma NU_b1_reach : forall S j rj d, I2 S -> getr S j = Some rj -> b1 (rrib rj) d < INF ->
  reachN g (b1 (rrib rj) d) j d.
Proof.
  intros S j rj d [Hat HNU] Gj Hlt.
  pose proof Hat as [[_ Hall] _]. destruct (getr_some _ _ _ Gj) as [Ij Sj].
  destruct (Hall rj Ij) as (Rj & _).
  rewrite <- (b1_attained (rrib rj) d Rj Hlt).
  apply (witness_rv INF S j rj d _ Hat HNU Gj); rewrite (b1_attained (rrib rj) d Rj Hlt); exact Hlt.
Qed.

(* if all shortest-path costs are exact up to level k, the best cost of a router at distance <= k is exact *)
Lemma UB_b1 : forall k S j rj d m, I2 S -> UB k S -> getr S j = Some rj ->
  isdist g j d m -> m <= k -> m < INF -> b1 (rrib rj) d = m.
Proof.
  intros k S j rj d m HI HUB Gj Hd Hk Hm.
  pose proof HI as [Hat HNU].
  pose proof Hat as [[_ Hall] _]. destruct (getr_some _ _ _ Gj) as [Ij Sj].
  destruct (Hall rj Ij) as (Rj & Hj & Zj & Nj).
  assert (Hle : b1 (rrib rj) d <= m).
  { destruct (N.eq_dec m 0) as [-> | Hm0].
    - apply isdist_0 in Hd. destruct Hd as [<- _]. rewrite Sj in Zj. rewrite <- Zj. apply b1_le_rv. exact Rj.
    - replace m with (m - 1 + 1) in Hd by lia.
      destruct (isdist_S g j d (m - 1) Hd) as (Ha & n & Hn & Hdn).
      assert (Hrv : rv (rrib rj) d n = m - 1 + 1).
      { apply (HUB j n Hn rj d (m - 1) Gj); [lia | exact Hdn | exact Hd | lia]. }
      pose proof (b1_le_rv (rrib rj) d n Rj). lia. }
  destruct (N.lt_ge_cases (b1 (rrib rj) d) m) as [Hlt | Hge]; [|lia].
  assert (Hr : reachN g (b1 (rrib rj) d) j d) by (apply (NU_b1_reach S j rj d HI Gj); lia).
  destruct Hd as [_ Hmin]. specialize (Hmin _ Hr). lia.
Qed.

Lemma UB_up : settled g = true -> forall k S i j, I2 S -> (forall i' j', E i' j' -> UBp k S i' j') -> E i j ->
  UBp (k + 1) (fst (step S (Fetch i j))) i j.
Proof.
  intros Hs k S i j HI HUB He. pose proof HI as [Hat HNU].
  destruct (fetch_cases S i j Hat) as [[_ Hn] | (_ & ri & rj & ri' & Gi & Gj & Hj & Si' & Nb' & Hrv & Hget & Hat')];
    [exfalso; exact (Hn Hs He)|].
  intros rx d m Gx Hmk Hdj Hdi Hm. rewrite Hget, N.eqb_refl in Gx. inversion Gx; subst rx; clear Gx.
  rewrite Hrv, N.eqb_refl.
  pose proof Hat as [[_ Hall] _].
  destruct (getr_some _ _ _ Gj) as [Ij Sj]. destruct (Hall rj Ij) as (Rj & Hhj & Zj & Nj).
  destruct (getr_some _ _ _ Gi) as [Ii Si]. destruct (Hall ri Ii) as (Ri & Hhi & Zi & Ni).
  assert (Hb : b1 (rrib rj) d = m) by (apply (UB_b1 k S j rj d m HI HUB Gj Hdj); lia).
  apply newc_eq; [exact Rj | exact Hb | | exact Hm].
  (* poison reverse does not strike: j's best next hop towards d is not i *)
  intro Hn1.
  assert (Hatt : rv (rrib rj) d i = m).
  { rewrite <- Hn1, <- Hb. apply b1_attained; [exact Rj | lia]. }
  assert (Hlt : rv (rrib rj) d i < INF) by lia.
  destruct (Hhj d i Hlt) as [Hin | [Hself _]].
  - assert (Hji : E j i) by exact (getr_E S j rj i Hat Gj Hin).
    destruct (HNU j i Hji rj d Gj Hlt Hlt) as (c & Hc & Hreach).
    destruct Hdi as [_ Hmin]. specialize (Hmin _ Hreach). lia.
  - (* i = j is impossible: j is a neighbour of i and no router is its own neighbour *)
    apply Ni. rewrite Si. rewrite Hself, Sj. exact Hj.
Qed.

Lemma UB_keep : forall k S i j i' j', I2 S -> E i' j' -> UBp k S i' j' -> (i' <> i \/ j' <> j) ->
  UBp k (fst (step S (Fetch i j))) i' j'.
Proof.
  intros k S i j i' j' [Hat _] He HP Hne.
  destruct (fetch_cases S i j Hat) as [[-> _] | (_ & ri & rj & ri' & Gi & Gj & Hj & Si' & Nb' & Hrv & Hget & Hat')];
    [exact HP|].
  intros rx d m Gx. rewrite Hget in Gx. destruct (i' =? i) eqn:Ei.
  - inversion Gx; subst rx; clear Gx. assert (i' = i) by lia. subst i'.
    assert (Hjj : (j' =? j) = false) by (destruct Hne; lia).
    rewrite Hrv, Hjj. apply HP. exact Gi.
  - apply HP. exact Gx.
Qed.

Lemma UB_mono : forall k S i j, UBp (k + 1) S i j -> UBp k S i j.
Proof. intros k S i j H ri d m G Hm. apply H; [exact G | lia]. Qed.

Lemma UB_zero : forall S, UB 0 S.
Proof. intros S i j _ ri d m _ H. lia. Qed.

Theorem upper_bound_rounds : settled g = true -> forall n evs S, I2 S -> nrounds n evs ->
  I2 (run S evs) /\ UB (N.of_nat n) (run S evs).
Proof.
  intros Hs n evs S HI Hn.
  pose proof (rounds_up I2 UBp I2_step (UB_up Hs) UB_keep UB_mono n evs Hn 0 S HI (UB_zero S)) as [A B].
  split; [exact A | exact B].
Qed.

(* ------------------------------------------------------------------------------------------ *)
(* the converged state                                                                        *)
(* ------------------------------------------------------------------------------------------ *)
(* k bounds every distance that is below INF *)
Definition dist_bound (k : N) : Prop := forall i d m, isdist g i d m -> m < INF -> m <= k.

Definition conv_at (S : net) : Prop :=
  forall i ri d, getr S i = Some ri ->
    (forall m, isdist g i d m -> m < INF ->
       b1 (rrib ri) d = m /\
       (i = d -> n1 (rrib ri) d = i) /\
       (i <> d -> E i (n1 (rrib ri) d) /\ isdist g (n1 (rrib ri) d) d (m - 1) /\
                  forall h, E i h -> isdist g h d (m - 1) -> n1 (rrib ri) d <= h)) /\
    ((forall m, isdist g i d m -> INF <= m) -> aget d (rrib ri) = None).

Lemma converged_state : forall k S, I2 S -> UB k S -> dist_bound k -> conv_at S.
Proof.
  intros k S HI HUB Hk i ri d Gi. pose proof HI as [Hat HNU].
  pose proof Hat as [[_ Hall] _].
  destruct (getr_some _ _ _ Gi) as [Ii Si]. destruct (Hall ri Ii) as (Ri & Hhi & Zi & Ni).
  split.
  - intros m Hd Hm.
    assert (Hb : b1 (rrib ri) d = m) by (apply (UB_b1 k S i ri d m HI HUB Gi Hd); [eapply Hk; eauto | exact Hm]).
    split; [exact Hb|].
    assert (Hatt : rv (rrib ri) d (n1 (rrib ri) d) = m) by (rewrite <- Hb; apply b1_attained; [exact Ri | lia]).
    assert (Hlt : rv (rrib ri) d (n1 (rrib ri) d) < INF) by lia.
    split.
    + intros <-. destruct (Hhi i _ Hlt) as [Hin | [Hs _]]; [|rewrite Hs; exact Si].
      (* a neighbour cannot offer cost 0 *)
      assert (He : E i (n1 (rrib ri) i)) by exact (getr_E S i ri _ Hat Gi Hin).
      destruct (HNU i _ He ri i Gi Hlt Hlt) as (c & Hc & _).
      assert (m = 0). { apply (isdist_unique g i i m 0 Hd). apply isdist_0. split; [reflexivity|]. eapply getr_alive; eauto. }
      lia.
    + intros Hne.
      destruct (Hhi d _ Hlt) as [Hin | [_ Hs]]; [|rewrite Si in Hs; congruence].
      assert (He : E i (n1 (rrib ri) d)) by exact (getr_E S i ri _ Hat Gi Hin).
      destruct (HNU i _ He ri d Gi Hlt Hlt) as (c & Hc & Hreach).
      assert (Hcm : c = m - 1) by lia.
      assert (Hdn : isdist g (n1 (rrib ri) d) d (m - 1)).
      { split; [rewrite <- Hcm; exact Hreach|].
        intros m' Hm'. pose proof (reachN_step g m' i _ d (getr_alive S i ri Hat Gi) He Hm') as R.
        destruct Hd as [_ Hmin]. specialize (Hmin _ R). lia. }
      split; [exact He|]. split; [exact Hdn|].
      intros h Heh Hdh.
      assert (Hm1 : 1 <= m) by lia.
      assert (Hrvh : rv (rrib ri) d h = m - 1 + 1).
      { apply (HUB i h Heh ri d (m - 1) Gi); [|exact Hdh | replace (m - 1 + 1) with m by lia; exact Hd | lia].
        assert (m <= k) by (eapply Hk; eauto). lia. }
      apply (n1_least (rrib ri) d h Ri); [rewrite Hb; lia | lia].
  - intros Hfar. destruct (aget d (rrib ri)) as [e|] eqn:He; [|reflexivity].
    exfalso.
    assert (Hlt : b1 (rrib ri) d < INF) by (apply b1_lt_INF_iff; [exact Ri | congruence]).
    pose proof (NU_b1_reach S i ri d HI Gi Hlt) as Hr.
    destruct (reach_isdist g _ i d Hr) as (m & Hd & Hle).
    specialize (Hfar m Hd). lia.
Qed.

(* ---- the two convergence theorems on a fixed topology ---- *)

(* from any state without underestimates (in particular a clean start), k rounds suffice *)
Theorem converges_from_NU : settled g = true -> forall k n evs S, at_g S -> NU S -> dist_bound k ->
  (N.to_nat k <= n)%nat -> nrounds n evs -> conv_at (run S evs) /\ at_g (run S evs).
Proof.
  intros Hs k n evs S Hat HNU Hk Hn Hr.
  destruct (upper_bound_rounds Hs n evs S (conj Hat HNU) Hr) as [HI HUB].
  split; [|apply HI].
  apply (converged_state (N.of_nat n) (run S evs) HI HUB).
  intros i d m Hd Hm. specialize (Hk i d m Hd Hm). lia.
Qed.

(* from any well-formed state, INF + k rounds suffice *)
Theorem self_stabilises : settled g = true -> forall k n evs S, at_g S -> dist_bound k ->
  (N.to_nat INF + N.to_nat k <= n)%nat -> nrounds n evs -> conv_at (run S evs) /\ at_g (run S evs).
Proof.
  intros Hs k n evs S Hat Hk Hn Hr.
  apply (nrounds_weaken n (N.to_nat INF + N.to_nat k)) in Hr; [|exact Hn].
  destruct (nrounds_split _ _ evs Hr) as (e1 & e2 & -> & H1 & H2).
  destruct (lower_bound_rounds Hs _ e1 S Hat H1) as [Hat1 HLB].
  rewrite run_app.
  apply (converges_from_NU Hs k (N.to_nat k) e2 (run S e1) Hat1); [|exact Hk | lia | exact H2].
  apply (LB_NU (N.of_nat (N.to_nat INF))); [lia | exact HLB].
Qed.

End Fixed.
