(* Dv/Conv.v — convergence of the distance-vector computation on a fixed topology, for every fair schedule.
   Phase 1 (lower bound): after r rounds every stored cost below r is witnessed by a real path.
   Phase 2 (upper bound): once no cost underestimates, after k more rounds every cost on a shortest path
   to a destination at distance <= k is exact.  Both are per-(router, neighbour) invariants that a Fetch of
   that pair raises by one level and that no other Fetch disturbs. *)
From Coq Require Import Lia ZifyBool ZifyN ZifyNat PeanoNat Nnat.
From Dv Require Import Model Spec Refresh RibFacts Net Graph.
Open Scope N_scope.

(* ------------------------------------------------------------------------------------------ *)
(* what a neighbour's advertisement turns into                                                *)
(* ------------------------------------------------------------------------------------------ *)
Lemma wrap64_small : forall x, x < INF -> wrap64 (x + local_cost) = x + 1.
Proof.
  intros x Hx. unfold wrap64. rewrite local_cost_val. apply N.mod_small.
  pose proof INF_small. lia.
Qed.

Lemma newc_lt : forall i rj d, rib_ok rj -> newc i rj d < INF ->
  exists a, newc i rj d = a + 1 /\ a < INF /\
            ((a = b1 rj d /\ n1 rj d <> i) \/ (a = b2 rj d /\ n1 rj d = i)).
Proof.
  intros i rj d Hok. unfold newc, b1, b2, n1.
  destruct (aget d rj) as [e|] eqn:He; [|lia].
  destruct Hok as [_ H]. destruct (H d e He) as [_ Hl].
  unfold adv_cost. simpl.
  destruct (nh1 e =? i) eqn:En.
  - destruct (low2 e <? INF) eqn:E2.
    + rewrite wrap64_small by lia.
      destruct (INF <=? low2 e + 1) eqn:Ec; [lia|]. intros _.
      exists (low2 e). split; [reflexivity|]. split; [lia|]. right. split; [reflexivity | lia].
    + destruct (INF <=? INF) eqn:Ec; lia.
  - rewrite wrap64_small by lia.
    destruct (INF <=? low1 e + 1) eqn:Ec; [lia|]. intros _.
    exists (low1 e). split; [reflexivity|]. split; [lia|]. left. split; [reflexivity | lia].
Qed.

Lemma newc_eq : forall i rj d m, rib_ok rj -> b1 rj d = m -> n1 rj d <> i -> m + 1 < INF ->
  newc i rj d = m + 1.
Proof.
  intros i rj d m Hok. unfold newc, b1, n1.
  destruct (aget d rj) as [e|] eqn:He; [|lia].
  intros Hb Hn Hm. unfold adv_cost. simpl.
  destruct (nh1 e =? i) eqn:En; [lia|].
  rewrite wrap64_small by lia.
  destruct (INF <=? low1 e + 1) eqn:Ec; lia.
Qed.

(* ------------------------------------------------------------------------------------------ *)
(* a fixed topology                                                                           *)
(* ------------------------------------------------------------------------------------------ *)
Section Fixed.
Variable g : graph.

Definition E (i j : node) : Prop := In j (nb g i).
Definition at_g (S : net) : Prop := net_ok S /\ topo_of S = g.

Lemma E_getr : forall S i j, at_g S -> E i j -> exists ri, getr S i = Some ri /\ In j (nbrs ri).
Proof.
  intros S i j [_ Hg] He. unfold E, nb in He. rewrite <- Hg in He. rewrite topo_get in He.
  destruct (getr S i) as [ri|]; [|destruct He]. exists ri. auto.
Qed.

Lemma getr_E : forall S i ri j, at_g S -> getr S i = Some ri -> In j (nbrs ri) -> E i j.
Proof.
  intros S i ri j [_ Hg] Hi Hj. unfold E. rewrite <- Hg. rewrite (proj1 (topo_nb S i ri Hi)). exact Hj.
Qed.

Lemma getr_alive : forall S i ri, at_g S -> getr S i = Some ri -> alive g i = true.
Proof. intros S i ri [_ Hg] Hi. rewrite <- Hg. apply (topo_nb S i ri Hi). Qed.

(* the effect of processing an advertisement, whatever it contains *)
Lemma deliver_cases : forall S i j adv, at_g S ->
  (fst (step S (Deliver i j adv)) = S /\ ~ E i j) \/
  (E i j /\ exists ri ri',
     getr S i = Some ri /\ In j (nbrs ri) /\ self ri' = i /\ nbrs ri' = nbrs ri /\
     (forall d h, rv (rrib ri') d h = if h =? j then lastc i adv d INF else rv (rrib ri) d h) /\
     (forall i', getr (fst (step S (Deliver i j adv))) i' = if i' =? i then Some ri' else getr S i') /\
     at_g (fst (step S (Deliver i j adv)))).
Proof.
  intros S i j adv Hat. pose proof Hat as [Hok Hg].
  pose proof (step_ok S (Deliver i j adv) Hok) as Hok'.
  simpl in *. destruct (getr S i) as [ri|] eqn:Gi.
  2:{ left. split; [reflexivity|]. unfold E, nb. rewrite <- Hg, topo_get, Gi. intros []. }
  destruct (memN j (nbrs ri)) eqn:Mj.
  2:{ left. split; [reflexivity|]. unfold E, nb. rewrite <- Hg, topo_get, Gi.
      intro H. apply memN_In in H. congruence. }
  apply memN_In in Mj.
  assert (He : E i j) by (eapply getr_E; eauto).
  right. split; [exact He|].
  destruct Hok as [Hnd Hall].
  destruct (getr_some _ _ _ Gi) as [Ii Si].
  destruct (Hall ri Ii) as (Ri & _).
  pose proof (rib_update_spec i (rrib ri) j adv Ri) as [U1 U2].
  destruct (rib_update i (rrib ri) j adv) as [rb db] eqn:Eu. simpl in *.
  exists ri, (mkRouter i rb (nbrs ri)). simpl.
  assert (Hin : In (self (mkRouter i rb (nbrs ri))) (map self S)).
  { simpl. rewrite <- Si. apply in_map. exact Ii. }
  split; [reflexivity|]. split; [exact Mj|]. split; [reflexivity|]. split; [reflexivity|].
  split; [exact U2|]. split; [|split].
  - intros i'. rewrite getr_setr by exact Hin. reflexivity.
  - exact Hok'.
  - rewrite <- Hg. apply (topo_setr S (mkRouter i rb (nbrs ri)) ri); [simpl; exact Gi | reflexivity].
Qed.

Lemma deliver_at_g : forall S i j adv, at_g S -> at_g (fst (step S (Deliver i j adv))).
Proof.
  intros S i j adv Hat. destruct (deliver_cases S i j adv Hat) as [[-> _] | (_ & ri & ri' & H)]; [exact Hat|].
  apply H.
Qed.

(* an atomic fetch is the delivery of the neighbour's current advertisement *)
Lemma fetch_as_deliver : forall S i j, at_g S ->
  (fst (step S (Fetch i j)) = S /\ (settled g = true -> ~ E i j)) \/
  (exists rj, getr S j = Some rj /\
              fst (step S (Fetch i j)) = fst (step S (Deliver i j (advert (rrib rj))))).
Proof.
  intros S i j Hat. destruct (getr S j) as [rj|] eqn:Gj.
  - right. exists rj. split; [reflexivity|]. simpl. rewrite Gj.
    destruct (getr S i) as [ri|]; [|reflexivity]. destruct (memN j (nbrs ri)); reflexivity.
  - left. split.
    + simpl. rewrite Gj. destruct (getr S i); reflexivity.
    + intros Hs He. destruct (E_getr S i j Hat He) as (ri & Gi & Hj).
      assert (Haj : alive g j = true).
      { apply (settled_alive g i j Hs); [eapply getr_alive; eauto | exact He]. }
      destruct Hat as [_ Hg]. rewrite <- Hg in Haj. apply topo_alive in Haj. destruct Haj as [rj Gj']. congruence.
Qed.

(* ------------------------------------------------------------------------------------------ *)
(* schedules: transfers of advertisements that may be stale                                   *)
(* ------------------------------------------------------------------------------------------ *)
(* the advertisement carried by a Deliver was the sender's advertisement in one of the states `past` *)
Definition src_ok (past : list net) (e : event) : Prop :=
  match e with
  | Fetch _ _ => True
  | Deliver _ j adv => exists Sp rj, In Sp past /\ getr Sp j = Some rj /\ adv = advert (rrib rj)
  | LateUpdate _ _ _ => True          (* late updates on deleted neighbour objects may occur anywhere *)
  | _ => False
  end.

(* every event is a transfer whose advertisement was generated no earlier than the state `past` started from *)
Fixpoint valid_from (past : list net) (S : net) (evs : list event) : Prop :=
  match evs with
  | [] => True
  | e :: t => src_ok (S :: past) e /\ valid_from (S :: past) (fst (step S e)) t
  end.

Definition covers (evs : list event) : Prop := forall i j, E i j -> existsb (xfers (i, j)) evs = true.

(* an asynchronous round from state S: every advertisement processed was generated within the round,
   and every ordered adjacent pair is served at least once *)
Definition around (S : net) (evs : list event) : Prop := valid_from [] S evs /\ covers evs.

Lemma src_ok_mono : forall past past' e, (forall x, In x past -> In x past') -> src_ok past e -> src_ok past' e.
Proof.
  intros past past' e Hsub. destruct e; simpl; auto.
  intros (Sp & rj & Hin & H). exists Sp, rj. split; [apply Hsub; exact Hin | exact H].
Qed.

Lemma valid_from_mono : forall evs past past' S, (forall x, In x past -> In x past') ->
  valid_from past S evs -> valid_from past' S evs.
Proof.
  induction evs as [|e evs IH]; intros past past' S Hsub; simpl; [auto|].
  intros [H1 H2]. split.
  - eapply src_ok_mono; [|exact H1]. intros x [Hx | Hx]; [left; exact Hx | right; apply Hsub; exact Hx].
  - eapply IH; [|exact H2]. intros x [Hx | Hx]; [left; exact Hx | right; apply Hsub; exact Hx].
Qed.

Lemma valid_from_app : forall e1 e2 past S, valid_from past S e1 -> valid_from [] (run S e1) e2 ->
  valid_from past S (e1 ++ e2).
Proof.
  induction e1 as [|e e1 IH]; intros e2 past S H1 H2; simpl in *.
  - eapply valid_from_mono; [|exact H2]. intros x [].
  - destruct H1 as [A B]. split; [exact A|]. apply IH; [exact B | exact H2].
Qed.

Inductive arounds : nat -> net -> list event -> Prop :=
| ar_tail : forall S evs, valid_from [] S evs -> arounds 0 S evs
| ar_round : forall n S r evs, around S r -> arounds n (run S r) evs -> arounds (Datatypes.S n) S (r ++ evs).

Lemma arounds_valid : forall n S evs, arounds n S evs -> valid_from [] S evs.
Proof.
  induction 1 as [S evs H | n S r evs [Hr _] Hn IH]; [exact H|].
  apply valid_from_app; assumption.
Qed.

Lemma arounds_split : forall n m S evs, arounds (n + m) S evs ->
  exists e1 e2, evs = e1 ++ e2 /\ arounds n S e1 /\ arounds m (run S e1) e2.
Proof.
  induction n as [|n IH]; intros m S evs H.
  - exists [], evs. split; [reflexivity|]. split; [constructor; exact I | exact H].
  - simpl in H. inversion H as [|n' S' r evs' Hr Hn]; subst.
    destruct (IH m (run S r) evs' Hn) as (e1 & e2 & -> & H1 & H2).
    exists (r ++ e1), e2. split; [rewrite app_assoc; reflexivity|]. split; [constructor; assumption|].
    rewrite run_app. exact H2.
Qed.

Lemma arounds_app_tail : forall n S e1 e2, arounds n S e1 -> valid_from [] (run S e1) e2 -> arounds n S (e1 ++ e2).
Proof.
  intros n S e1 e2 H1. induction H1 as [S e1 Hv | n S r e1 Hr Hn IH]; intros H2.
  - constructor. apply valid_from_app; assumption.
  - rewrite <- app_assoc. constructor; [exact Hr|]. apply IH. rewrite <- run_app. exact H2.
Qed.

Lemma arounds_weaken : forall n m S evs, (m <= n)%nat -> arounds n S evs -> arounds m S evs.
Proof.
  intros n m S evs Hle H. replace n with (m + (n - m))%nat in H by lia.
  destruct (arounds_split m (n - m) S evs H) as (e1 & e2 & -> & H1 & H2).
  apply arounds_app_tail; [exact H1 | eapply arounds_valid; eauto].
Qed.

(* synchronous rounds (Spec.is_round: atomic fetches only) are a special case *)
Definition fetch_only (evs : list event) : Prop := forallb is_fetch evs = true.

Lemma fetch_only_valid : forall evs past S, fetch_only evs -> valid_from past S evs.
Proof.
  induction evs as [|e evs IH]; intros past S H; simpl; [exact I|].
  unfold fetch_only in H. simpl in H. apply andb_true_iff in H. destruct H as [He H].
  split; [destruct e; simpl in *; try discriminate; exact I | apply IH; exact H].
Qed.

Lemma is_round_around : forall evs S, is_round g evs = true -> around S evs.
Proof.
  intros evs S H. unfold is_round in H. apply andb_true_iff in H. destruct H as [H1 H2].
  split; [apply fetch_only_valid; exact H1|].
  intros i j He. rewrite forallb_forall in H2.
  assert (Hp : In (i, j) (all_pairs g)).
  { unfold all_pairs. apply in_flat_map. unfold E, nb in He.
    destruct (aget i g) as [l|] eqn:Ea; [|destruct He].
    exists (i, l). split; [apply aget_in; exact Ea|]. simpl. apply in_map. exact He. }
  specialize (H2 _ Hp). apply existsb_exists in H2. destruct H2 as (e & He1 & He2).
  apply existsb_exists. exists e. split; [exact He1|].
  destruct e; simpl in *; try discriminate. exact He2.
Qed.

Inductive nrounds : nat -> list event -> Prop :=
| nr_tail : forall evs, fetch_only evs -> nrounds 0 evs
| nr_round : forall n r evs, is_round g r = true -> nrounds n evs -> nrounds (Datatypes.S n) (r ++ evs).

Lemma nrounds_arounds : forall n evs, nrounds n evs -> forall S, arounds n S evs.
Proof.
  induction 1 as [evs Hf | n r evs Hr Hn IH]; intros S.
  - constructor. apply fetch_only_valid. exact Hf.
  - constructor; [apply is_round_around; exact Hr | apply IH].
Qed.

(* ------------------------------------------------------------------------------------------ *)
(* per-pair levels raised by rounds                                                           *)
(* ------------------------------------------------------------------------------------------ *)
Section Round.
Hypothesis g_settled : settled g = true.
Variable P : N -> net -> node -> node -> Prop.
Definition allP (r : N) (S : net) : Prop := forall i j, E i j -> P r S i j.

Hypothesis P_up : forall r S Sp i j rj, at_g S -> at_g Sp -> allP r Sp -> getr Sp j = Some rj -> E i j ->
  P (r + 1) (fst (step S (Deliver i j (advert (rrib rj))))) i j.
Hypothesis P_keep : forall r S i j adv i' j', at_g S -> E i' j' -> P r S i' j' -> (i' <> i \/ j' <> j) ->
  P r (fst (step S (Deliver i j adv))) i' j'.
Hypothesis P_mono : forall r S i j, P (r + 1) S i j -> P r S i j.

Lemma deliver_level : forall r S Sp a b rj, at_g S -> at_g Sp -> allP r Sp -> allP r S -> getr Sp b = Some rj ->
  let S1 := fst (step S (Deliver a b (advert (rrib rj)))) in
  at_g S1 /\ allP r S1 /\
  forall i j, E i j -> (P (r + 1) S i j \/ (i = a /\ j = b)) -> P (r + 1) S1 i j.
Proof.
  intros r S Sp a b rj Hat Hatp Hallp Hall Gb S1. subst S1.
  split; [apply deliver_at_g; exact Hat|]. split.
  - intros i j He.
    destruct (N.eq_dec i a) as [-> | Hi]; [destruct (N.eq_dec j b) as [-> | Hj]|].
    + apply P_mono. eapply P_up; eauto.
    + apply P_keep; auto.
    + apply P_keep; auto.
  - intros i j He Hor.
    destruct (N.eq_dec i a) as [-> | Hi]; [destruct (N.eq_dec j b) as [-> | Hj]|].
    + eapply P_up; eauto.
    + destruct Hor as [H | [_ H]]; [apply P_keep; auto | contradiction].
    + destruct Hor as [H | [H _]]; [apply P_keep; auto | contradiction].
Qed.

Lemma xfer_level : forall r S past e, at_g S -> (forall Sp, In Sp past -> at_g Sp /\ allP r Sp) -> allP r S ->
  src_ok (S :: past) e ->
  let S1 := fst (step S e) in
  at_g S1 /\ allP r S1 /\
  forall i j, E i j -> (P (r + 1) S i j \/ xfers (i, j) e = true) -> P (r + 1) S1 i j.
Proof.
  intros r S past e Hat Hpast Hall Hsrc S1. subst S1.
  destruct e as [a b | a b adv | a b adv | | | |]; simpl in Hsrc; try contradiction.
  - (* Fetch *)
    destruct (fetch_as_deliver S a b Hat) as [[Heq Hn] | (rj & Gj & Heq)]; rewrite Heq.
    + split; [exact Hat|]. split; [exact Hall|].
      intros i j He [H | H]; [exact H|].
      simpl in H. unfold pair_eqb in H. simpl in H. assert (i = a /\ j = b) by lia. destruct H0 as [-> ->].
      exfalso. exact (Hn g_settled He).
    + destruct (deliver_level r S S a b rj Hat Hat Hall Hall Gj) as (A & B & C).
      split; [exact A|]. split; [exact B|].
      intros i j He [H | H]; [apply C; auto|].
      simpl in H. unfold pair_eqb in H. simpl in H. apply C; [exact He|]. right. lia.
  - (* Deliver *)
    destruct Hsrc as (Sp & rj & Hin & Gj & ->).
    assert (Hsp : at_g Sp /\ allP r Sp).
    { destruct Hin as [<- | Hin]; [split; assumption | apply Hpast; exact Hin]. }
    destruct Hsp as [Hatp Hallp].
    destruct (deliver_level r S Sp a b rj Hat Hatp Hallp Hall Gj) as (A & B & C).
    split; [exact A|]. split; [exact B|].
    intros i j He [H | H]; [apply C; auto|].
    simpl in H. unfold pair_eqb in H. simpl in H. apply C; [exact He|]. right. lia.
  - (* LateUpdate: nothing happens *)
    rewrite late_update_noop. simpl. split; [exact Hat|]. split; [exact Hall|].
    intros i j He [H | H]; [exact H | discriminate].
Qed.

Lemma round_gen : forall r evs S past (done : node -> node -> Prop), at_g S ->
  (forall Sp, In Sp past -> at_g Sp /\ allP r Sp) -> allP r S ->
  (forall i j, E i j -> done i j -> P (r + 1) S i j) ->
  valid_from past S evs ->
  at_g (run S evs) /\ allP r (run S evs) /\
  (forall i j, E i j -> done i j \/ existsb (xfers (i, j)) evs = true -> P (r + 1) (run S evs) i j).
Proof.
  intros r. induction evs as [|e evs IH]; intros S past done Hat Hpast Hall Hdone Hv.
  - simpl. split; [exact Hat|]. split; [exact Hall|]. intros i j He [H | H]; [apply Hdone; assumption | discriminate].
  - simpl in Hv. destruct Hv as [Hsrc Hv].
    change (run S (e :: evs)) with (run (fst (step S e)) evs).
    destruct (xfer_level r S past e Hat Hpast Hall Hsrc) as (A & B & C).
    destruct (IH (fst (step S e)) (S :: past) (fun i j => done i j \/ xfers (i, j) e = true)) as (I1 & I2 & I3).
    + exact A.
    + intros Sp [<- | Hin]; [split; assumption | apply Hpast; exact Hin].
    + exact B.
    + intros i j He [Hd | Hx]; apply C; auto.
    + exact Hv.
    + split; [exact I1|]. split; [exact I2|].
      intros i j He [Hd | Hx]; [apply I3; auto|].
      simpl in Hx. apply orb_true_iff in Hx. destruct Hx as [Hx | Hx]; apply I3; auto.
Qed.

Lemma xfers_keep : forall r evs S, at_g S -> allP r S -> valid_from [] S evs ->
  at_g (run S evs) /\ allP r (run S evs).
Proof.
  intros r evs S Hat Hall Hv.
  destruct (round_gen r evs S [] (fun _ _ => False) Hat) as (A & B & _); auto.
  - intros Sp [].
  - intros i j _ [].
Qed.

Lemma round_up : forall r evs S, at_g S -> allP r S -> around S evs ->
  at_g (run S evs) /\ allP (r + 1) (run S evs).
Proof.
  intros r evs S Hat Hall [Hv Hc].
  destruct (round_gen r evs S [] (fun _ _ => False) Hat) as (A & _ & C); auto.
  - intros Sp [].
  - intros i j _ [].
  - split; [exact A|]. intros i j He. apply C; [exact He|]. right. apply Hc. exact He.
Qed.

Lemma rounds_up : forall n S evs, arounds n S evs -> forall r, at_g S -> allP r S ->
  at_g (run S evs) /\ allP (r + N.of_nat n) (run S evs).
Proof.
  induction 1 as [S evs Hv | n S rd evs Hr Hn IH]; intros r Hat Hall.
  - replace (r + N.of_nat 0) with r by lia. apply xfers_keep; assumption.
  - rewrite run_app. destruct (round_up r rd S Hat Hall Hr) as [A1 B1].
    destruct (IH (r + 1) A1 B1) as [A2 B2]. split; [exact A2|].
    replace (r + N.of_nat (Datatypes.S n)) with (r + 1 + N.of_nat n) by lia. exact B2.
Qed.
End Round.

(* ------------------------------------------------------------------------------------------ *)
(* phase 1: stored costs below the round number are witnessed by paths                        *)
(* ------------------------------------------------------------------------------------------ *)
Definition LBp (r : N) (S : net) (i j : node) : Prop :=
  forall ri d, getr S i = Some ri -> rv (rrib ri) d j < r -> rv (rrib ri) d j < INF ->
  exists c, rv (rrib ri) d j = c + 1 /\ reachN g c j d.

Definition LB (r : N) (S : net) : Prop := forall i j, E i j -> LBp r S i j.

(* any usable cost of router j below level r is the length of a real path from j *)
Lemma witness_rv : forall r S j rj d h, at_g S -> LB r S -> getr S j = Some rj ->
  rv (rrib rj) d h < r -> rv (rrib rj) d h < INF -> reachN g (rv (rrib rj) d h) j d.
Proof.
  intros r S j rj d h Hat HLB Gj Hr Hlt.
  pose proof Hat as [[_ Hall] _]. destruct (getr_some _ _ _ Gj) as [Ij Sj].
  destruct (Hall rj Ij) as (Rj & Hj & Zj & Nj).
  destruct (Hj d h Hlt) as [Hn | [Hh Hd]].
  - assert (He : E j h) by exact (getr_E S j rj h Hat Gj Hn).
    destruct (HLB j h He rj d Gj Hr Hlt) as (c & Hc & Hreach).
    rewrite Hc. eapply reachN_step; [eapply getr_alive; eauto | exact He | exact Hreach].
  - rewrite Sj in Hh, Hd. subst h d. rewrite Sj in Zj. rewrite Zj.
    apply reachN_0. split; [reflexivity | eapply getr_alive; eauto].
Qed.

(* the value a router computes from an advertisement of a level-r state is witnessed at level r+1 *)
Lemma LB_core : forall r Sp i j rj d, at_g Sp -> LB r Sp -> getr Sp j = Some rj ->
  newc i (rrib rj) d < r + 1 -> newc i (rrib rj) d < INF ->
  exists c, newc i (rrib rj) d = c + 1 /\ reachN g c j d.
Proof.
  intros r Sp i j rj d Hatp HLB Gj Hr Hlt.
  pose proof Hatp as [[_ Hall] _]. destruct (getr_some _ _ _ Gj) as [Ij Sj].
  destruct (Hall rj Ij) as (Rj & _).
  destruct (newc_lt i (rrib rj) d Rj Hlt) as (a & Ha & Halt & Hcase).
  exists a. split; [exact Ha|].
  assert (Har : a < r) by lia.
  destruct Hcase as [[Hb _] | [Hb _]].
  - pose proof (b1_attained (rrib rj) d Rj) as Hatt. rewrite <- Hb in Hatt. specialize (Hatt Halt).
    rewrite <- Hatt. apply (witness_rv r Sp j rj d _ Hatp HLB Gj); rewrite Hatt; assumption.
  - pose proof (b2_attained (rrib rj) d Rj) as Hatt. rewrite <- Hb in Hatt. destruct (Hatt Halt) as [Hatt' _].
    rewrite <- Hatt'. apply (witness_rv r Sp j rj d _ Hatp HLB Gj); rewrite Hatt'; assumption.
Qed.

Lemma LB_up : forall r S Sp i j rj, at_g S -> at_g Sp -> LB r Sp -> getr Sp j = Some rj -> E i j ->
  LBp (r + 1) (fst (step S (Deliver i j (advert (rrib rj))))) i j.
Proof.
  intros r S Sp i j rj Hat Hatp HLB Gj He.
  destruct (deliver_cases S i j (advert (rrib rj)) Hat)
    as [[_ Hn] | (_ & ri & ri' & Gi & Hj & Si' & Nb' & Hrv & Hget & Hat')]; [contradiction|].
  intros rx d Gx Hr Hlt. rewrite Hget, N.eqb_refl in Gx. inversion Gx; subst rx; clear Gx.
  pose proof Hatp as [[_ Hall] _]. destruct (getr_some _ _ _ Gj) as [Ij Sj].
  destruct (Hall rj Ij) as (Rj & _).
  rewrite Hrv, N.eqb_refl in *. rewrite lastc_advert in * by (destruct Rj as [Hn _]; exact Hn).
  apply (LB_core r Sp i j rj d Hatp HLB Gj Hr Hlt).
Qed.

Lemma LB_keep : forall r S i j adv i' j', at_g S -> E i' j' -> LBp r S i' j' -> (i' <> i \/ j' <> j) ->
  LBp r (fst (step S (Deliver i j adv))) i' j'.
Proof.
  intros r S i j adv i' j' Hat He HP Hne.
  destruct (deliver_cases S i j adv Hat)
    as [[-> _] | (_ & ri & ri' & Gi & Hj & Si' & Nb' & Hrv & Hget & Hat')]; [exact HP|].
  intros rx d Gx. rewrite Hget in Gx. destruct (i' =? i) eqn:Ei.
  - inversion Gx; subst rx; clear Gx. assert (i' = i) by lia. subst i'.
    assert (Hjj : (j' =? j) = false) by (destruct Hne; lia).
    rewrite Hrv, Hjj. apply HP. exact Gi.
  - apply HP. exact Gx.
Qed.

Lemma LB_mono : forall r S i j, LBp (r + 1) S i j -> LBp r S i j.
Proof. intros r S i j H ri d G Hr Hlt. apply H; [exact G | lia | exact Hlt]. Qed.

Lemma LB_zero : forall S, LB 0 S.
Proof. intros S i j _ ri d _ H. lia. Qed.

(* no stored cost underestimates *)
Definition NU (S : net) : Prop := LB INF S.

Lemma LB_NU : forall r S, INF <= r -> LB r S -> NU S.
Proof.
  intros r S Hr H i j He ri d G _ Hlt. apply (H i j He ri d G); [lia | exact Hlt].
Qed.

Theorem lower_bound_rounds : settled g = true -> forall n S evs, at_g S -> arounds n S evs ->
  at_g (run S evs) /\ LB (N.of_nat n) (run S evs).
Proof.
  intros Hs n S evs Hat Hn.
  exact (rounds_up Hs LBp LB_up LB_keep LB_mono n S evs Hn 0 Hat (LB_zero S)).
Qed.

(* NU is kept by an atomic fetch (no assumption on the topology being settled) *)
Lemma NU_fetch : forall S i j, at_g S -> NU S -> NU (fst (step S (Fetch i j))).
Proof.
  intros S i j Hat H.
  destruct (fetch_as_deliver S i j Hat) as [[-> _] | (rj & Gj & ->)]; [exact H|].
  intros i' j' He.
  destruct (N.eq_dec i' i) as [-> | Hi]; [destruct (N.eq_dec j' j) as [-> | Hj]|].
  - apply LB_mono. apply (LB_up INF S S i j rj Hat Hat H Gj He).
  - apply LB_keep; auto.
  - apply LB_keep; auto.
Qed.

(* ------------------------------------------------------------------------------------------ *)
(* phase 2: exact costs along shortest paths                                                  *)
(* ------------------------------------------------------------------------------------------ *)
Definition UBp (k : N) (S : net) (i j : node) : Prop :=
  forall ri d m, getr S i = Some ri -> m < k -> isdist g j d m -> isdist g i d (m + 1) -> m + 1 < INF ->
  rv (rrib ri) d j = m + 1.

Definition UB (k : N) (S : net) : Prop := forall i j, E i j -> UBp k S i j.

(* the level predicate of phase 2 carries the no-underestimate invariant along *)
Definition P2 (k : N) (S : net) (i j : node) : Prop := LBp INF S i j /\ UBp k S i j.
Definition I2 (S : net) : Prop := at_g S /\ NU S.

Lemma allP2 : forall k S, allP P2 k S <-> NU S /\ UB k S.
Proof.
  intros k S. split.
  - intros H. split; intros i j He; apply (H i j He).
  - intros [H1 H2] i j He. split; [apply H1 | apply H2]; exact He.
Qed.

(* under NU, a finite best cost is the length of a real path *)
Lemma NU_b1_reach : forall S j rj d, I2 S -> getr S j = Some rj -> b1 (rrib rj) d < INF ->
  reachN g (b1 (rrib rj) d) j d.
Proof.
  intros S j rj d [Hat HNU] Gj Hlt.
  pose proof Hat as [[_ Hall] _]. destruct (getr_some _ _ _ Gj) as [Ij Sj].
  destruct (Hall rj Ij) as (Rj & _).
  rewrite <- (b1_attained (rrib rj) d Rj Hlt).
  apply (witness_rv INF S j rj d _ Hat HNU Gj); rewrite (b1_attained (rrib rj) d Rj Hlt); exact Hlt.
Qed.

(* if all shortest-path costs are exact up to level k, the best cost of a router at distance <= k is exact *)
Lemma UB_b1 : forall k S j rj d m, I2 S -> UB k S -> getr S j = Some rj ->
  isdist g j d m -> m <= k -> m < INF -> b1 (rrib rj) d = m.
Proof.
  intros k S j rj d m HI HUB Gj Hd Hk Hm.
  pose proof HI as [Hat HNU].
  pose proof Hat as [[_ Hall] _]. destruct (getr_some _ _ _ Gj) as [Ij Sj].
  destruct (Hall rj Ij) as (Rj & Hj & Zj & Nj).
  assert (Hle : b1 (rrib rj) d <= m).
  { destruct (N.eq_dec m 0) as [-> | Hm0].
    - apply isdist_0 in Hd. destruct Hd as [<- _]. rewrite Sj in Zj. rewrite <- Zj. apply b1_le_rv. exact Rj.
    - replace m with (m - 1 + 1) in Hd by lia.
      destruct (isdist_S g j d (m - 1) Hd) as (Ha & n & Hn & Hdn).
      assert (Hrv : rv (rrib rj) d n = m - 1 + 1).
      { apply (HUB j n Hn rj d (m - 1) Gj); [lia | exact Hdn | exact Hd | lia]. }
      pose proof (b1_le_rv (rrib rj) d n Rj). lia. }
  destruct (N.lt_ge_cases (b1 (rrib rj) d) m) as [Hlt | Hge]; [|lia].
  assert (Hr : reachN g (b1 (rrib rj) d) j d) by (apply (NU_b1_reach S j rj d HI Gj); lia).
  destruct Hd as [_ Hmin]. specialize (Hmin _ Hr). lia.
Qed.

(* the value computed from an advertisement of a state at level k is exact at level k+1 *)
Lemma UB_core : forall k Sp i j rj d m, at_g Sp -> NU Sp -> UB k Sp -> getr Sp j = Some rj -> i <> j ->
  m < k + 1 -> isdist g j d m -> isdist g i d (m + 1) -> m + 1 < INF ->
  newc i (rrib rj) d = m + 1.
Proof.
  intros k Sp i j rj d m Hatp HNU HUB Gj Hij Hmk Hdj Hdi Hm.
  pose proof Hatp as [[_ Hallr] _].
  destruct (getr_some _ _ _ Gj) as [Ij Sj]. destruct (Hallr rj Ij) as (Rj & Hhj & Zj & Nj).
  assert (Hb : b1 (rrib rj) d = m) by (apply (UB_b1 k Sp j rj d m (conj Hatp HNU) HUB Gj Hdj); lia).
  apply newc_eq; [exact Rj | exact Hb | | exact Hm].
  (* poison reverse does not strike: j's best next hop towards d is not i *)
  intro Hn1.
  assert (Hatt : rv (rrib rj) d i = m).
  { rewrite <- Hn1, <- Hb. apply b1_attained; [exact Rj | lia]. }
  assert (Hlt : rv (rrib rj) d i < INF) by lia.
  destruct (Hhj d i Hlt) as [Hin | [Hself _]].
  - assert (Hji : E j i) by exact (getr_E Sp j rj i Hatp Gj Hin).
    destruct (HNU j i Hji rj d Gj Hlt Hlt) as (c & Hc & Hreach).
    destruct Hdi as [_ Hmin]. specialize (Hmin _ Hreach). lia.
  - apply Hij. rewrite Hself. exact Sj.
Qed.

Lemma P2_up : forall k S Sp i j rj, at_g S -> at_g Sp -> allP P2 k Sp -> getr Sp j = Some rj -> E i j ->
  P2 (k + 1) (fst (step S (Deliver i j (advert (rrib rj))))) i j.
Proof.
  intros k S Sp i j rj Hat Hatp Hallp Gj He.
  apply allP2 in Hallp. destruct Hallp as [HNU HUB].
  split.
  - apply LB_mono. apply (LB_up INF S Sp i j rj Hat Hatp HNU Gj He).
  - destruct (deliver_cases S i j (advert (rrib rj)) Hat)
      as [[_ Hn] | (_ & ri & ri' & Gi & Hj & Si' & Nb' & Hrv & Hget & Hat')]; [contradiction|].
    intros rx d m Gx Hmk Hdj Hdi Hm. rewrite Hget, N.eqb_refl in Gx. inversion Gx; subst rx; clear Gx.
    pose proof Hatp as [[_ Hallr] _].
    destruct (getr_some _ _ _ Gj) as [Ij Sj]. destruct (Hallr rj Ij) as (Rj & _).
    pose proof Hat as [[_ Hallc] _].
    destruct (getr_some _ _ _ Gi) as [Ii Si]. destruct (Hallc ri Ii) as (Ri & Hhi & Zi & Ni).
    rewrite Hrv, N.eqb_refl. rewrite lastc_advert by (destruct Rj as [Hn _]; exact Hn).
    apply (UB_core k Sp i j rj d m Hatp HNU HUB Gj); try assumption.
    (* no router is its own neighbour *)
    intros ->. apply Ni. rewrite Si. exact Hj.
Qed.

Lemma UB_keep : forall k S i j adv i' j', at_g S -> E i' j' -> UBp k S i' j' -> (i' <> i \/ j' <> j) ->
  UBp k (fst (step S (Deliver i j adv))) i' j'.
Proof.
  intros k S i j adv i' j' Hat He HP Hne.
  destruct (deliver_cases S i j adv Hat)
    as [[-> _] | (_ & ri & ri' & Gi & Hj & Si' & Nb' & Hrv & Hget & Hat')]; [exact HP|].
  intros rx d m Gx. rewrite Hget in Gx. destruct (i' =? i) eqn:Ei.
  - inversion Gx; subst rx; clear Gx. assert (i' = i) by lia. subst i'.
    assert (Hjj : (j' =? j) = false) by (destruct Hne; lia).
    rewrite Hrv, Hjj. apply HP. exact Gi.
  - apply HP. exact Gx.
Qed.

Lemma P2_keep : forall k S i j adv i' j', at_g S -> E i' j' -> P2 k S i' j' -> (i' <> i \/ j' <> j) ->
  P2 k (fst (step S (Deliver i j adv))) i' j'.
Proof.
  intros k S i j adv i' j' Hat He [H1 H2] Hne. split; [apply LB_keep | apply UB_keep]; assumption.
Qed.

Lemma P2_mono : forall k S i j, P2 (k + 1) S i j -> P2 k S i j.
Proof.
  intros k S i j [H1 H2]. split; [exact H1|]. intros ri d m G Hm. apply H2; [exact G | lia].
Qed.

Lemma UB_zero : forall S, UB 0 S.
Proof. intros S i j _ ri d m _ H. lia. Qed.

Theorem upper_bound_rounds : settled g = true -> forall n S evs, I2 S -> arounds n S evs ->
  I2 (run S evs) /\ UB (N.of_nat n) (run S evs).
Proof.
  intros Hs n S evs [Hat HNU] Hn.
  assert (H0 : allP P2 0 S) by (apply allP2; split; [exact HNU | apply UB_zero]).
  destruct (rounds_up Hs P2 P2_up P2_keep P2_mono n S evs Hn 0 Hat H0) as [A B].
  apply allP2 in B. destruct B as [B1 B2]. split; [split; assumption | exact B2].
Qed.

(* ------------------------------------------------------------------------------------------ *)
(* the converged state                                                                        *)
(* ------------------------------------------------------------------------------------------ *)
(* k bounds every distance that is below INF *)
Definition dist_bound (k : N) : Prop := forall i d m, isdist g i d m -> m < INF -> m <= k.

Definition conv_at (S : net) : Prop :=
  forall i ri d, getr S i = Some ri ->
    (forall m, isdist g i d m -> m < INF ->
       b1 (rrib ri) d = m /\
       (i = d -> n1 (rrib ri) d = i) /\
       (i <> d -> E i (n1 (rrib ri) d) /\ isdist g (n1 (rrib ri) d) d (m - 1) /\
                  forall h, E i h -> isdist g h d (m - 1) -> (tie_key (n1 (rrib ri) d) <= tie_key h)%Z)) /\
    ((forall m, isdist g i d m -> INF <= m) -> aget d (rrib ri) = None).

Lemma converged_state : forall k S, I2 S -> UB k S -> dist_bound k -> conv_at S.
Proof.
  intros k S HI HUB Hk i ri d Gi. pose proof HI as [Hat HNU].
  pose proof Hat as [[_ Hall] _].
  destruct (getr_some _ _ _ Gi) as [Ii Si]. destruct (Hall ri Ii) as (Ri & Hhi & Zi & Ni).
  split.
  - intros m Hd Hm.
    assert (Hb : b1 (rrib ri) d = m) by (apply (UB_b1 k S i ri d m HI HUB Gi Hd); [eapply Hk; eauto | exact Hm]).
    split; [exact Hb|].
    assert (Hatt : rv (rrib ri) d (n1 (rrib ri) d) = m) by (rewrite <- Hb; apply b1_attained; [exact Ri | lia]).
    assert (Hlt : rv (rrib ri) d (n1 (rrib ri) d) < INF) by lia.
    split.
    + intros <-. destruct (Hhi i _ Hlt) as [Hin | [Hs _]]; [|rewrite Hs; exact Si].
      (* a neighbour cannot offer cost 0 *)
      assert (He : E i (n1 (rrib ri) i)) by exact (getr_E S i ri _ Hat Gi Hin).
      destruct (HNU i _ He ri i Gi Hlt Hlt) as (c & Hc & _).
      assert (m = 0). { apply (isdist_unique g i i m 0 Hd). apply isdist_0. split; [reflexivity|]. eapply getr_alive; eauto. }
      lia.
    + intros Hne.
      destruct (Hhi d _ Hlt) as [Hin | [_ Hs]]; [|rewrite Si in Hs; congruence].
      assert (He : E i (n1 (rrib ri) d)) by exact (getr_E S i ri _ Hat Gi Hin).
      destruct (HNU i _ He ri d Gi Hlt Hlt) as (c & Hc & Hreach).
      assert (Hcm : c = m - 1) by lia.
      assert (Hdn : isdist g (n1 (rrib ri) d) d (m - 1)).
      { split; [rewrite <- Hcm; exact Hreach|].
        intros m' Hm'. pose proof (reachN_step g m' i _ d (getr_alive S i ri Hat Gi) He Hm') as R.
        destruct Hd as [_ Hmin]. specialize (Hmin _ R). lia. }
      split; [exact He|]. split; [exact Hdn|].
      intros h Heh Hdh.
      assert (Hm1 : 1 <= m) by lia.
      assert (Hrvh : rv (rrib ri) d h = m - 1 + 1).
      { apply (HUB i h Heh ri d (m - 1) Gi); [|exact Hdh | replace (m - 1 + 1) with m by lia; exact Hd | lia].
        assert (m <= k) by (eapply Hk; eauto). lia. }
      apply (n1_least (rrib ri) d h Ri); [rewrite Hb; lia | lia].
  - intros Hfar. destruct (aget d (rrib ri)) as [e|] eqn:He; [|reflexivity].
    exfalso.
    assert (Hlt : b1 (rrib ri) d < INF) by (apply b1_lt_INF_iff; [exact Ri | congruence]).
    pose proof (NU_b1_reach S i ri d HI Gi Hlt) as Hr.
    destruct (reach_isdist g _ i d Hr) as (m & Hd & Hle).
    specialize (Hfar m Hd). lia.
Qed.

(* ---- the two convergence theorems on a fixed topology ---- *)

(* from any state without underestimates (in particular a clean start), k rounds suffice *)
Theorem converges_from_NU : settled g = true -> forall k n S evs, at_g S -> NU S -> dist_bound k ->
  (N.to_nat k <= n)%nat -> arounds n S evs -> conv_at (run S evs) /\ at_g (run S evs).
Proof.
  intros Hs k n S evs Hat HNU Hk Hn Hr.
  destruct (upper_bound_rounds Hs n S evs (conj Hat HNU) Hr) as [HI HUB].
  split; [|apply HI].
  apply (converged_state (N.of_nat n) (run S evs) HI HUB).
  intros i d m Hd Hm. specialize (Hk i d m Hd Hm). lia.
Qed.

(* from any well-formed state, INF + k rounds suffice *)
Theorem self_stabilises : settled g = true -> forall k n S evs, at_g S -> dist_bound k ->
  (N.to_nat INF + N.to_nat k <= n)%nat -> arounds n S evs -> conv_at (run S evs) /\ at_g (run S evs).
Proof.
  intros Hs k n S evs Hat Hk Hn Hr.
  apply (arounds_weaken n (N.to_nat INF + N.to_nat k)) in Hr; [|exact Hn].
  destruct (arounds_split _ _ S evs Hr) as (e1 & e2 & -> & H1 & H2).
  destruct (lower_bound_rounds Hs _ S e1 Hat H1) as [Hat1 HLB].
  rewrite run_app.
  apply (converges_from_NU Hs k (N.to_nat k) (run S e1) e2 Hat1); [|exact Hk | lia | exact H2].
  apply (LB_NU (N.of_nat (N.to_nat INF))); [lia | exact HLB].
Qed.

(* ------------------------------------------------------------------------------------------ *)
(* every fixed point is the converged state                                                   *)
(* ------------------------------------------------------------------------------------------ *)
(* quiescence: every router's stored costs through each neighbour are exactly what that neighbour's current
   advertisement yields (processing it again changes nothing) *)
Definition fixed_point (S : net) : Prop :=
  forall i j ri rj d, getr S i = Some ri -> getr S j = Some rj -> In j (nbrs ri) ->
    rv (rrib ri) d j = newc i (rrib rj) d.

Lemma E_alive_r : settled g = true -> forall S i j ri, at_g S -> getr S i = Some ri -> In j (nbrs ri) ->
  exists rj, getr S j = Some rj.
Proof.
  intros Hs S i j ri Hat Gi Hj.
  assert (He : E i j) by exact (getr_E S i ri j Hat Gi Hj).
  assert (Haj : alive g j = true).
  { apply (settled_alive g i j Hs); [eapply getr_alive; eauto | exact He]. }
  destruct Hat as [_ Hg]. rewrite <- Hg in Haj. apply topo_alive in Haj. exact Haj.
Qed.

Lemma fp_LB : settled g = true -> forall S r, at_g S -> fixed_point S -> LB r S -> LB (r + 1) S.
Proof.
  intros Hs S r Hat Hfp HLB i j He ri d Gi Hr Hlt.
  destruct (E_getr S i j Hat He) as (ri' & Gi' & Hj). rewrite Gi in Gi'. inversion Gi'; subst ri'.
  destruct (E_alive_r Hs S i j ri Hat Gi Hj) as [rj Gj].
  rewrite (Hfp i j ri rj d Gi Gj Hj) in *.
  apply (LB_core r S i j rj d Hat HLB Gj Hr Hlt).
Qed.

Lemma fp_NU : settled g = true -> forall S, at_g S -> fixed_point S -> NU S.
Proof.
  intros Hs S Hat Hfp.
  assert (H : forall n : nat, LB (N.of_nat n) S).
  { induction n as [|n IH]; [apply LB_zero|].
    replace (N.of_nat (Datatypes.S n)) with (N.of_nat n + 1) by lia. apply fp_LB; assumption. }
  apply (LB_NU (N.of_nat (N.to_nat INF))); [lia | apply H].
Qed.

Lemma fp_UB : settled g = true -> forall S k, at_g S -> fixed_point S -> NU S -> UB k S -> UB (k + 1) S.
Proof.
  intros Hs S k Hat Hfp HNU HUB i j He ri d m Gi Hmk Hdj Hdi Hm.
  destruct (E_getr S i j Hat He) as (ri' & Gi' & Hj). rewrite Gi in Gi'. inversion Gi'; subst ri'.
  destruct (E_alive_r Hs S i j ri Hat Gi Hj) as [rj Gj].
  rewrite (Hfp i j ri rj d Gi Gj Hj).
  apply (UB_core k S i j rj d m Hat HNU HUB Gj); try assumption.
  pose proof Hat as [[_ Hall] _]. destruct (getr_some _ _ _ Gi) as [Ii Si]. destruct (Hall ri Ii) as (_ & _ & _ & Ni).
  intros ->. apply Ni. rewrite Si. exact Hj.
Qed.

Theorem fixed_point_conv : settled g = true -> forall S k, at_g S -> fixed_point S -> dist_bound k -> conv_at S.
Proof.
  intros Hs S k Hat Hfp Hk.
  pose proof (fp_NU Hs S Hat Hfp) as HNU.
  assert (H : forall n : nat, UB (N.of_nat n) S).
  { induction n as [|n IH]; [apply UB_zero|].
    replace (N.of_nat (Datatypes.S n)) with (N.of_nat n + 1) by lia. apply fp_UB; assumption. }
  apply (converged_state (N.of_nat (N.to_nat k)) S (conj Hat HNU) (H (N.to_nat k))).
  intros i d m Hd Hm. specialize (Hk i d m Hd Hm). lia.
Qed.

End Fixed.
