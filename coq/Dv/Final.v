(* Dv/Final.v — the statements of property C18 assembled: from the per-topology results of Conv.v to
   closed theorems about event histories, with the conclusion expressed by the executable spec oracle
   (Spec.converged), and the "nothing was lost" histories that satisfy the no-underestimate invariant. *)
From Coq Require Import Lia ZifyBool ZifyN ZifyNat PeanoNat Nnat.
From Dv Require Import Model Spec Refresh RibFacts Net Graph Conv Quiet.
Open Scope N_scope.

(* ------------------------------------------------------------------------------------------ *)
(* conv_at implies the executable predicate                                                   *)
(* ------------------------------------------------------------------------------------------ *)
Lemma rib_entries_in : forall r d c h,
  In (d, (c, h)) (rib_entries r) <-> exists e, In (d, e) r /\ c = low1 e /\ h = nh1 e /\ low1 e < INF.
Proof.
  intros r d c h. unfold rib_entries. rewrite in_map_iff. split.
  - intros ([d' e] & Heq & Hin). apply filter_In in Hin. destruct Hin as [Hin Hp]. simpl in *.
    inversion Heq; subst. exists e. repeat split; auto. lia.
  - intros (e & Hin & -> & -> & Hlt). exists (d, e). split; [reflexivity|].
    apply filter_In. split; [exact Hin | simpl; lia].
Qed.

Lemma on_path_true : forall g d m h, on_path g d m h = true <-> exists m', distb g h d = Some m' /\ S m' = m.
Proof.
  intros g d m h. unfold on_path. destruct (distb g h d) as [m'|].
  - rewrite Nat.eqb_eq. split; [intros H; exists m'; auto | intros (m'' & Heq & H0); injection Heq as Heq; lia].
  - split; [discriminate | intros (m'' & Heq & _); discriminate].
Qed.

Lemma conv_table_ok : forall g S i ri, at_g g S -> conv_at g S -> getr S i = Some ri ->
  table_ok g i (rib_entries (rrib ri)) = true.
Proof.
  intros g S i ri Hat Hc Gi. pose proof Hat as [[_ Hall] Hg].
  destruct (getr_some _ _ _ Gi) as [Ii Si]. destruct (Hall ri Ii) as (Ri & _).
  destruct Ri as [Hnd Hent].
  unfold table_ok. apply andb_true_iff. split.
  - apply forallb_forall. intros [d [c h]] Hin.
    apply rib_entries_in in Hin. destruct Hin as (e & Hin & -> & -> & Hlt).
    assert (He : aget d (rrib ri) = Some e) by (apply in_aget; assumption).
    destruct (Hc i ri d Gi) as [C1 C2].
    destruct (distb g i d) as [m|] eqn:Hd.
    2:{ pose proof (C2 (distb_none g i d Hd)). congruence. }
    apply distb_some in Hd. destruct Hd as [Hd Hm].
    destruct (C1 _ Hd Hm) as (Hb & Hself & Hother).
    assert (Hb1 : low1 e = N.of_nat m) by (unfold b1 in Hb; rewrite He in Hb; exact Hb).
    assert (Hn1 : n1 (rrib ri) d = nh1 e) by (unfold n1; rewrite He; reflexivity).
    apply andb_true_iff. split; [lia|].
    unfold hop_ok. destruct (i =? d) eqn:Eid.
    + assert (i = d) by lia. rewrite <- Hn1, (Hself H). lia.
    + assert (Hne : i <> d) by lia. destruct (Hother Hne) as (Hedge & Hdn & Hleast).
      rewrite Hn1 in *.
      assert (Hm1 : (1 <= m)%nat).
      { destruct m; [|lia]. simpl in Hd. apply isdist_0 in Hd. tauto. }
      apply andb_true_iff. split; [apply andb_true_iff; split|].
      * unfold edge. apply memN_In. exact Hedge.
      * apply on_path_true. exists (m - 1)%nat. split; [|lia].
        apply distb_some. replace (N.of_nat (m - 1)) with (N.of_nat m - 1) by lia. split; [exact Hdn | lia].
      * apply forallb_forall. intros h' Hh'.
        destruct (on_path g d m h') eqn:Hop; [|reflexivity]. simpl.
        apply on_path_true in Hop. destruct Hop as (m' & Hd' & Hm').
        apply distb_some in Hd'. destruct Hd' as [Hd' _].
        apply Z.leb_le. apply Hleast; [exact Hh'|].
        replace (N.of_nat m - 1) with (N.of_nat m') by lia. exact Hd'.
  - apply forallb_forall. intros d _.
    destruct (distb g i d) as [m|] eqn:Hd; [|reflexivity].
    apply distb_some in Hd. destruct Hd as [Hd Hm].
    destruct (Hc i ri d Gi) as [C1 _]. destruct (C1 _ Hd Hm) as (Hb & _).
    unfold b1 in Hb. destruct (aget d (rrib ri)) as [e|] eqn:He; [|lia].
    destruct (aget d (rib_entries (rrib ri))) eqn:Ht; [reflexivity|].
    exfalso. apply aget_none in Ht. apply Ht.
    apply in_map_iff. exists (d, (low1 e, nh1 e)). split; [reflexivity|].
    apply rib_entries_in. exists e. split; [apply aget_in; exact He|]. repeat split. lia.
Qed.

Lemma conv_converged : forall S, net_ok S -> conv_at (topo_of S) S -> converged S = true.
Proof.
  intros S Hok Hc. unfold converged. apply forallb_forall. intros r Hr.
  destruct Hok as [Hnd Hall]. pose proof (in_getr S r Hnd Hr) as Gr.
  apply andb_true_iff. split.
  - apply (conv_table_ok (topo_of S) S (self r) r); [split; [split; assumption | reflexivity] | exact Hc | exact Gr].
  - apply rib_ok_adv_ok. apply (Hall r Hr).
Qed.

(* ------------------------------------------------------------------------------------------ *)
(* maxdist bounds every distance below INF                                                    *)
(* ------------------------------------------------------------------------------------------ *)
Lemma list_max_ge : forall l x, In x l -> (x <= list_max l)%nat.
Proof.
  intros l x Hin. pose proof (proj1 (list_max_le l (list_max l)) (Nat.le_refl _)) as H.
  rewrite Forall_forall in H. apply H. exact Hin.
Qed.

Lemma maxdist_bound : forall g, dist_bound g (N.of_nat (maxdist g)).
Proof.
  intros g i d m Hd Hm.
  assert (Hdb : distb g i d = Some (N.to_nat m)).
  { apply distb_some. rewrite N2Nat.id. auto. }
  destruct Hd as [Hr _]. unfold reachN in Hr. apply reachb_alive in Hr. destruct Hr as [Hi Hdd].
  apply alive_in in Hi. apply alive_in in Hdd.
  assert (H : (N.to_nat m <= maxdist g)%nat).
  { unfold maxdist. apply list_max_ge. apply in_flat_map. exists i. split; [exact Hi|].
    apply in_map_iff. exists d. split; [rewrite Hdb; reflexivity | exact Hdd]. }
  lia.
Qed.

Lemma INF_bound : forall g, dist_bound g (INF - 1).
Proof. intros g i d m _ Hm. lia. Qed.

(* ------------------------------------------------------------------------------------------ *)
(* self-stabilisation, closed form                                                            *)
(* ------------------------------------------------------------------------------------------ *)
Theorem self_stabilises_converged : forall S n evs,
  net_ok S -> settled (topo_of S) = true ->
  (N.to_nat INF + maxdist (topo_of S) <= n)%nat -> arounds (topo_of S) n S evs ->
  converged (run S evs) = true.
Proof.
  intros S n evs Hok Hs Hn Hr.
  destruct (self_stabilises (topo_of S) Hs (N.of_nat (maxdist (topo_of S))) n S evs) as [Hc [Hok' Hg']].
  - split; [exact Hok | reflexivity].
  - apply maxdist_bound.
  - lia.
  - exact Hr.
  - apply conv_converged; [exact Hok'|]. rewrite Hg'. exact Hc.
Qed.

(* the same for every history, faults included, from the empty network *)
Theorem reconverges_after_any_history : forall hist n evs,
  let S := run [] hist in
  settled (topo_of S) = true ->
  (N.to_nat INF + maxdist (topo_of S) <= n)%nat -> arounds (topo_of S) n S evs ->
  converged (run S evs) = true.
Proof.
  intros hist n evs S Hs Hn Hr.
  apply (self_stabilises_converged S n evs); try assumption.
  apply run_ok. apply net_ok_nil.
Qed.

(* ------------------------------------------------------------------------------------------ *)
(* the lower bound in the usual form: estimates are at least min(distance, rounds, INF)       *)
(* ------------------------------------------------------------------------------------------ *)
Theorem lower_bound : forall S n evs i ri d,
  net_ok S -> settled (topo_of S) = true -> arounds (topo_of S) n S evs ->
  getr (run S evs) i = Some ri ->
  (forall m, isdist (topo_of S) i d m -> N.min (N.min m (N.of_nat n)) INF <= b1 (rrib ri) d) /\
  ((forall m, ~ isdist (topo_of S) i d m) -> N.min (N.of_nat n) INF <= b1 (rrib ri) d).
Proof.
  intros S n evs i ri d Hok Hs Hr Gi.
  destruct (lower_bound_rounds (topo_of S) Hs n S evs (conj Hok eq_refl) Hr) as [Hat HLB].
  pose proof Hat as [[_ Hall] _].
  destruct (getr_some _ _ _ Gi) as [Ii Si]. destruct (Hall ri Ii) as (Ri & _).
  assert (Hw : b1 (rrib ri) d < N.of_nat n -> b1 (rrib ri) d < INF -> reachN (topo_of S) (b1 (rrib ri) d) i d).
  { intros H1 H2. rewrite <- (b1_attained (rrib ri) d Ri H2).
    apply (witness_rv (topo_of S) (N.of_nat n) (run S evs) i ri d _ Hat HLB Gi);
      rewrite (b1_attained (rrib ri) d Ri H2); assumption. }
  split.
  - intros m [_ Hmin].
    destruct (N.lt_ge_cases (b1 (rrib ri) d) (N.of_nat n)) as [H1 | H1]; [|lia].
    destruct (N.lt_ge_cases (b1 (rrib ri) d) INF) as [H2 | H2]; [|lia].
    specialize (Hmin _ (Hw H1 H2)). lia.
  - intros Hno.
    destruct (N.lt_ge_cases (b1 (rrib ri) d) (N.of_nat n)) as [H1 | H1]; [|lia].
    destruct (N.lt_ge_cases (b1 (rrib ri) d) INF) as [H2 | H2]; [|lia].
    exfalso. destruct (reach_isdist _ _ _ _ (Hw H1 H2)) as (m & Hm & _). exact (Hno m Hm).
Qed.

(* ------------------------------------------------------------------------------------------ *)
(* histories in which nothing is lost never underestimate                                     *)
(* ------------------------------------------------------------------------------------------ *)
Definition sub_graph (g g' : graph) : Prop :=
  (forall x, alive g x = true -> alive g' x = true) /\ (forall x y, In y (nb g x) -> In y (nb g' x)).

Lemma reachb_sub : forall g g' k i d, sub_graph g g' -> reachb g k i d = true -> reachb g' k i d = true.
Proof.
  intros g g' k i d [Ha Hn]. revert i. induction k as [|k IH]; intros i H.
  - apply reachb_0 in H. apply reachb_0. destruct H as [-> H]. auto.
  - apply reachb_S in H. apply reachb_S. destruct H as [H | (Hi & j & Hj & Hr)]; [left; apply IH; exact H|].
    right. split; [apply Ha; exact Hi|]. exists j. split; [apply Hn; exact Hj | apply IH; exact Hr].
Qed.

Definition NUs (S : net) : Prop := NU (topo_of S) S.

Lemma NU_transport : forall S S', net_ok S -> sub_graph (topo_of S) (topo_of S') ->
  NUs S ->
  (forall i ri' j d, getr S' i = Some ri' -> In j (nbrs ri') -> rv (rrib ri') d j < INF ->
     exists ri, getr S i = Some ri /\ In j (nbrs ri) /\ rv (rrib ri) d j = rv (rrib ri') d j) ->
  NUs S'.
Proof.
  intros S S' Hok Hsub HNU Hsame i j He ri' d Gi _ Hlt.
  unfold E in He. rewrite (proj1 (topo_nb S' i ri' Gi)) in He.
  destruct (Hsame i ri' j d Gi He Hlt) as (ri & Gi0 & Hj0 & Heq).
  assert (He0 : E (topo_of S) i j) by (unfold E; rewrite (proj1 (topo_nb S i ri Gi0)); exact Hj0).
  rewrite <- Heq in Hlt |- *.
  destruct (HNU i j He0 ri d Gi0 Hlt Hlt) as (c & Hc & Hr).
  exists c. split; [exact Hc|]. unfold reachN in *. eapply reachb_sub; eauto.
Qed.

Lemma growth_step_NU : forall S e, net_ok S -> NUs S -> is_growth e = true -> NUs (fst (step S e)).
Proof.
  intros S e Hok HNU Hg. destruct e as [i j | i j adv | i j adv | i j | i j | i | i]; simpl in Hg; try discriminate.
  - (* Fetch *)
    assert (Hat : at_g (topo_of S) S) by (split; [exact Hok | reflexivity]).
    pose proof (NU_fetch (topo_of S) S i j Hat HNU) as H.
    assert (Hg' : topo_of (fst (step S (Fetch i j))) = topo_of S).
    { destruct (fetch_as_deliver (topo_of S) S i j Hat) as [[-> _] | (rj & _ & ->)]; [reflexivity|].
      apply (deliver_at_g (topo_of S) S i j _ Hat). }
    unfold NUs. rewrite Hg'. exact H.
  - (* NbrUp *)
    simpl. destruct (getr S i) as [ri|] eqn:Gi; [|exact HNU].
    destruct (memN j (nbrs ri) || (i =? j)) eqn:Mj; [exact HNU|]. simpl.
    apply orb_false_iff in Mj. destruct Mj as [Mj Hij].
    destruct Hok as [Hnd Hall]. destruct (getr_some _ _ _ Gi) as [Ii Si].
    destruct (Hall ri Ii) as (Ri & Hi & Zi & Ni).
    set (r' := mkRouter i (rrib ri) (nbrs ri ++ [j])).
    assert (Hin : In (self r') (map self S)) by (simpl; rewrite <- Si; apply in_map; exact Ii).
    assert (Hget : forall x, getr (setr S r') x = if x =? i then Some r' else getr S x).
    { intros x. rewrite getr_setr by exact Hin. reflexivity. }
    apply (NU_transport S (setr S r')); [split; assumption | | exact HNU |].
    + split.
      * intros x. unfold alive. rewrite !topo_get, Hget. destruct (x =? i) eqn:Ex; [reflexivity | tauto].
      * intros x y. unfold nb. rewrite !topo_get, Hget. destruct (x =? i) eqn:Ex.
        -- assert (x = i) by lia. subst x. rewrite Gi. simpl. intros H. apply in_or_app. left. exact H.
        -- tauto.
    + intros x rx' y d Gx Hy Hlt. rewrite Hget in Gx. destruct (x =? i) eqn:Ex.
      * inversion Gx; subst rx'; clear Gx. assert (x = i) by lia. subst x. simpl in *.
        exists ri. split; [exact Gi|]. split; [|reflexivity].
        apply in_app_or in Hy. destruct Hy as [Hy | [<- | []]]; [exact Hy|].
        (* the new neighbour has no usable cost yet *)
        destruct (Hi d j Hlt) as [H | [H _]]; [exact H | lia].
      * exists rx'. auto.
  - (* RouterUp *)
    simpl. destruct (getr S i) as [ri|] eqn:Gi; [exact HNU|]. simpl.
    assert (Hget : forall x, getr (S ++ [init_router i]) x =
                             match getr S x with Some r => Some r | None => if x =? i then Some (init_router i) else None end).
    { intros x. clear. induction S as [|r S IH]; simpl.
      - rewrite (N.eqb_sym i x). reflexivity.
      - destruct (self r =? x); [reflexivity | exact IH]. }
    apply (NU_transport S (S ++ [init_router i])); [exact Hok | | exact HNU |].
    + split.
      * intros x. unfold alive. rewrite !topo_get, Hget. destruct (getr S x); [reflexivity | discriminate].
      * intros x y. unfold nb. rewrite !topo_get, Hget. destruct (getr S x); [tauto | intros []].
    + intros x rx' y d Gx Hy Hlt. rewrite Hget in Gx. destruct (getr S x) as [rx|] eqn:Gx0.
      * inversion Gx; subst. exists rx'. auto.
      * destruct (x =? i); [|discriminate]. inversion Gx; subst. destruct Hy.
Qed.

Lemma growth_run_NU : forall hist S, net_ok S -> NUs S -> forallb is_growth hist = true -> NUs (run S hist).
Proof.
  induction hist as [|e hist IH]; intros S Hok HNU Hg; [exact HNU|].
  simpl in Hg. apply andb_true_iff in Hg. destruct Hg as [He Hg].
  change (run S (e :: hist)) with (run (fst (step S e)) hist).
  apply IH; [apply step_ok; exact Hok | apply growth_step_NU; assumption | exact Hg].
Qed.

Lemma NUs_nil : NUs [].
Proof. intros i j He ri d G. discriminate. Qed.

(* clean start: any history without losses, then maxdist rounds *)
Theorem converges_clean_start : forall hist n evs,
  let S := run [] hist in
  forallb is_growth hist = true -> settled (topo_of S) = true ->
  (maxdist (topo_of S) <= n)%nat -> arounds (topo_of S) n S evs ->
  converged (run S evs) = true.
Proof.
  intros hist n evs S Hg Hs Hn Hr.
  assert (Hok : net_ok S) by (apply run_ok; apply net_ok_nil).
  assert (HNU : NUs S) by (apply growth_run_NU; [apply net_ok_nil | apply NUs_nil | exact Hg]).
  destruct (converges_from_NU (topo_of S) Hs (N.of_nat (maxdist (topo_of S))) n S evs) as [Hc [Hok' Hg']].
  - split; [exact Hok | reflexivity].
  - exact HNU.
  - apply maxdist_bound.
  - lia.
  - exact Hr.
  - apply conv_converged; [exact Hok'|]. rewrite Hg'. exact Hc.
Qed.

(* ------------------------------------------------------------------------------------------ *)
(* quiescence implies convergence                                                             *)
(* ------------------------------------------------------------------------------------------ *)
Lemma fixedb_fixed_point : forall S, net_ok S -> fixedb S = true -> fixed_point S.
Proof.
  intros S [Hnd Hall] Hf i j ri rj d Gi Gj Hj.
  unfold fixedb in Hf. rewrite forallb_forall in Hf.
  destruct (getr_some _ _ _ Gi) as [Ii Si].
  specialize (Hf ri Ii). rewrite forallb_forall in Hf. specialize (Hf j Hj). rewrite Gj in Hf.
  rewrite forallb_forall in Hf.
  change (rv (rrib ri) d j) with (cost_via (rrib ri) d j).
  change (newc i (rrib rj) d) with (offered i (rrib rj) d).
  destruct (aget d (rrib ri)) as [e|] eqn:E1.
  - assert (Hin : In d (map fst (rrib ri) ++ map fst (rrib rj))).
    { apply in_or_app. left. eapply aget_some_key; eauto. }
    specialize (Hf d Hin). rewrite Si in Hf. lia.
  - destruct (aget d (rrib rj)) as [e|] eqn:E2.
    + assert (Hin : In d (map fst (rrib ri) ++ map fst (rrib rj))).
      { apply in_or_app. right. eapply aget_some_key; eauto. }
      specialize (Hf d Hin). rewrite Si in Hf. lia.
    + unfold cost_via, offered. rewrite E1, E2. reflexivity.
Qed.

(* a quiescent network (every router has processed every neighbour's current advertisement) is converged *)
Theorem quiescent_is_converged : forall S,
  net_ok S -> settled (topo_of S) = true -> fixedb S = true -> converged S = true.
Proof.
  intros S Hok Hs Hf.
  apply conv_converged; [exact Hok|].
  apply (fixed_point_conv (topo_of S) Hs S (N.of_nat (maxdist (topo_of S)))).
  - split; [exact Hok | reflexivity].
  - apply fixedb_fixed_point; assumption.
  - apply maxdist_bound.
Qed.

(* ------------------------------------------------------------------------------------------ *)
(* the whole state comes to rest                                                              *)
(* ------------------------------------------------------------------------------------------ *)
Lemma fixed_point_fixedb : forall S, net_ok S -> fixed_point S -> fixedb S = true.
Proof.
  intros S [Hnd Hall] Hfp. unfold fixedb. apply forallb_forall. intros ri Hri.
  pose proof (in_getr S ri Hnd Hri) as Gi.
  apply forallb_forall. intros j Hj.
  destruct (getr S j) as [rj|] eqn:Gj; [|reflexivity].
  apply forallb_forall. intros d _.
  change (cost_via (rrib ri) d j) with (rv (rrib ri) d j).
  change (offered (self ri) (rrib rj) d) with (newc (self ri) (rrib rj) d).
  rewrite (Hfp (self ri) j ri rj d Gi Gj Hj). apply N.eqb_refl.
Qed.

(* from ANY well-formed state, 2 INF + maxdist + 1 rounds later (and ever after) every router has processed the
   current advertisement of each neighbour — nothing is left to announce — and the tables are the shortest-path tables *)
Theorem reaches_full_fixed_point : forall S n evs,
  net_ok S -> settled (topo_of S) = true ->
  (2 * N.to_nat INF + maxdist (topo_of S) + 1 <= n)%nat -> arounds (topo_of S) n S evs ->
  fixedb (run S evs) = true /\ converged (run S evs) = true.
Proof.
  intros S n evs Hok Hs Hn Hr.
  destruct (full_fixed_point (topo_of S) Hs (N.of_nat (maxdist (topo_of S))) n S evs) as (Hfp & Hc & Hok' & Hg').
  - split; [exact Hok | reflexivity].
  - apply maxdist_bound.
  - lia.
  - exact Hr.
  - split; [apply fixed_point_fixedb; assumption|].
    apply conv_converged; [exact Hok'|]. rewrite Hg'. exact Hc.
Qed.

(* ------------------------------------------------------------------------------------------ *)
(* the oracle's predicate (any next hop one hop closer) is implied by the theorems' one        *)
(* ------------------------------------------------------------------------------------------ *)
Lemma table_ok_weak : forall g i tbl, table_ok g i tbl = true -> table_okw g i tbl = true.
Proof.
  intros g i tbl H. unfold table_ok in H. unfold table_okw.
  apply andb_true_iff in H. destruct H as [H1 H2]. apply andb_true_iff. split; [|exact H2].
  rewrite forallb_forall in *. intros [d [c h]] Hin. specialize (H1 _ Hin). simpl in *.
  destruct (distb g i d) as [m|]; [|discriminate].
  apply andb_true_iff in H1. destruct H1 as [A B]. apply andb_true_iff. split; [exact A|].
  unfold hop_ok in B. unfold hop_okw. destruct (i =? d); [exact B|].
  apply andb_true_iff in B. destruct B as [B _]. exact B.
Qed.

Theorem converged_weak : forall S, converged S = true -> convergedw S = true.
Proof.
  intros S H. unfold converged in H. unfold convergedw. rewrite forallb_forall in *.
  intros r Hr. specialize (H r Hr). apply andb_true_iff in H. destruct H as [A B].
  apply andb_true_iff. split; [apply table_ok_weak; exact A | exact B].
Qed.

(* ------------------------------------------------------------------------------------------ *)
(* no usable route through a non-neighbour, as an executable predicate                        *)
(* ------------------------------------------------------------------------------------------ *)
Lemma router_ok_hops_okb : forall r, router_ok r -> hops_okb r = true.
Proof.
  intros r ((Hnd & Hent) & Hh & _ & _). unfold hops_okb.
  apply forallb_forall. intros [d e] Hde. apply forallb_forall. intros [h c] Hhc. simpl.
  destruct (c <? INF) eqn:Ec; [|reflexivity]. simpl.
  pose proof (in_aget _ _ _ Hnd Hde) as Ge.
  destruct (Hent d e Ge) as [[(Hndc & _) _] _].
  pose proof (in_aget _ _ _ Hndc Hhc) as Gc.
  assert (Hrv : rv (rrib r) d h = c) by (unfold rv, cvE; rewrite Ge, Gc; reflexivity).
  assert (Hlt : rv (rrib r) d h < INF) by lia.
  destruct (Hh d h Hlt) as [Hin | [H1 H2]].
  - apply memN_In in Hin. rewrite Hin. reflexivity.
  - subst. rewrite !N.eqb_refl. apply orb_true_r.
Qed.

Theorem reachable_hops_okb : forall hist i ro, getr (run [] hist) i = Some ro -> hops_okb ro = true.
Proof.
  intros hist i ro G. destruct (run_ok hist [] net_ok_nil) as [_ Hall].
  apply getr_some in G. apply router_ok_hops_okb. apply Hall. apply G.
Qed.
