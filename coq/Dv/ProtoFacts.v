(* Dv/ProtoFacts.v — the sequence-number / liveness layer: out-of-date advertisement Data is ignored, a current one
   is exactly a Deliver of the table-level model, Sync Interests refresh liveness whatever their sequence number,
   a neighbour heard from within the dead interval survives the sweep, and every protocol run is a table-level
   run (so well-formedness and the convergence theorems carry over with the sequence guard in place). *)
From Coq Require Import Lia ZifyBool ZifyN.
From Dv Require Import Model Spec Refresh RibFacts Net Graph Conv Quiet Final ProtoModel.
Open Scope N_scope.

Lemma run_flag_run : forall evs S, fst (run_flag S evs) = run S evs.
Proof.
  induction evs as [|e evs IH]; intros S; [reflexivity|].
  change (run S (e :: evs)) with (run (fst (step S e)) evs).
  simpl. destruct (step S e) as [S1 d1]. specialize (IH S1).
  destruct (run_flag S1 evs) as [S2 d2]. simpl in *. exact IH.
Qed.

(* ---- every protocol step is the table-level run of its trace ---- *)
Lemma pstep_base : forall P e, base (fst (pstep P e)) = run (base P) (ptrace P e).
Proof.
  intros P e. unfold pstep, pstep_gen. pose proof (run_flag_run (ptrace P e) (base P)) as H.
  destruct (run_flag (base P) (ptrace P e)) as [S' d]. simpl in H. subst S'.
  destruct e as [t | i j s | i j s adv | i dead | i j s | ev]; try reflexivity.
  - simpl. destruct (getr (base P) i) as [ri|]; [|reflexivity].
    destruct (i =? j) eqn:E.
    + rewrite orb_true_r. reflexivity.
    + rewrite orb_false_r. destruct (memN j (nbrs ri)); reflexivity.
  - destruct ev; try reflexivity.
    + destruct (memN j (nbrs_of (base P) i) || (i =? j) || negb (memN j (nbrs_of (run (base P) (ptrace P (PBase (NbrUp i j)))) i))); reflexivity.
    + destruct (memN j (nbrs_of (base P) i)); reflexivity.
Qed.

Lemma prun_base : forall evs P, base (prun P evs) = run (base P) (ptrace_all P evs).
Proof.
  induction evs as [|e evs IH]; intros P; [reflexivity|].
  change (prun P (e :: evs)) with (prun (fst (pstep P e)) evs).
  rewrite IH, pstep_base. simpl. rewrite run_app. reflexivity.
Qed.

(* ---- out-of-date advertisement Data is ignored ---- *)
Theorem stale_data_ignored_gen : forall P i j s adv,
  pget (i, j) (nseq P) <> s -> pstep P (PData i j s adv) = (P, false).
Proof.
  intros P i j s adv Hne. unfold pstep, pstep_gen, ptrace.
  destruct (getr (base P) i) as [ri|]; [|destruct P; reflexivity].
  assert (E : (pget (i, j) (nseq P) =? s) = false) by lia. rewrite E, andb_false_r.
  destruct P; reflexivity.
Qed.

(* Data from somebody who is not a neighbour (any more) is ignored too *)
Theorem foreign_data_ignored : forall P i j s adv,
  ~ In j (nbrs_of (base P) i) -> pstep P (PData i j s adv) = (P, false).
Proof.
  intros P i j s adv Hn. unfold pstep, pstep_gen, ptrace. unfold nbrs_of in Hn.
  destruct (getr (base P) i) as [ri|]; [|destruct P; reflexivity].
  destruct (memN j (nbrs ri)) eqn:M; [apply memN_In in M; contradiction|].
  destruct P; reflexivity.
Qed.

(* Data for the current sequence number of a neighbour is processed: exactly a Deliver of the table-level model *)
Theorem current_data_is_deliver : forall P i j s adv ri,
  getr (base P) i = Some ri -> In j (nbrs ri) -> pget (i, j) (nseq P) = s ->
  ptrace P (PData i j s adv) = [Deliver i j adv] /\
  base (fst (pstep P (PData i j s adv))) = fst (step (base P) (Deliver i j adv)) /\
  nseq (fst (pstep P (PData i j s adv))) = nseq P.
Proof.
  intros P i j s adv ri Gi Hj Hs.
  assert (T : ptrace P (PData i j s adv) = [Deliver i j adv]).
  { unfold ptrace. rewrite Gi. apply memN_In in Hj. rewrite Hj. assert (E : (pget (i, j) (nseq P) =? s) = true) by lia.
    rewrite E. reflexivity. }
  split; [exact T|]. split.
  - rewrite pstep_base, T. reflexivity.
  - unfold pstep, pstep_gen. destruct (run_flag (base P) (ptrace P (PData i j s adv))). reflexivity.
Qed.

(* ---- Sync Interests: sequence numbers never go back, liveness is refreshed in every branch ---- *)
Lemma pget_pset : forall l k k' v, pget k' (pset k v l) = if pk_eqb k' k then v else pget k' l.
Proof.
  intros l k k' v. unfold pset. simpl. destruct (pk_eqb k' k) eqn:E; [reflexivity|].
  induction l as [|[k0 v0] l IH]; simpl; [reflexivity|].
  destruct (pk_eqb k k0) eqn:E0.
  - rewrite IH. destruct (pk_eqb k' k0) eqn:E1; [|reflexivity].
    unfold pk_eqb in *. lia.
  - simpl. destruct (pk_eqb k' k0); [reflexivity | exact IH].
Qed.

Lemma pk_eqb_refl : forall k, pk_eqb k k = true.
Proof. intros [a b]. unfold pk_eqb. simpl. lia. Qed.

Theorem sync_refreshes_liveness : forall P i j s ri,
  getr (base P) i = Some ri -> i <> j ->
  pget (i, j) (seen (fst (pstep P (PSync i j s)))) = now P.
Proof.
  intros P i j s ri Gi Hij. unfold pstep, pstep_gen.
  destruct (run_flag (base P) (ptrace P (PSync i j s))) as [S' d].
  rewrite Gi. assert (E : (i =? j) = false) by lia. rewrite E.
  destruct (memN j (nbrs ri)); cbn [fst seen]; rewrite pget_pset, pk_eqb_refl; reflexivity.
Qed.

Theorem sync_seq_monotone : forall P i j s,
  pget (i, j) (nseq P) <= pget (i, j) (nseq (fst (pstep P (PSync i j s)))) \/
  ~ In j (nbrs_of (base P) i).
Proof.
  intros P i j s. unfold pstep, pstep_gen, nbrs_of.
  destruct (run_flag (base P) (ptrace P (PSync i j s))) as [S' d].
  destruct (getr (base P) i) as [ri|]; [|left; cbn [fst]; lia].
  destruct (i =? j); [left; cbn [fst]; lia|].
  destruct (memN j (nbrs ri)) eqn:M.
  - left. cbn [fst nseq]. destruct (s <=? pget (i, j) (nseq P)) eqn:E; [lia|].
    rewrite pget_pset, pk_eqb_refl. lia.
  - right. intro H. apply memN_In in H. congruence.
Qed.

(* ---- the dead sweep removes only neighbours not heard from for longer than the dead interval ---- *)
Lemma run_dead_nbrs : forall vs S i ri, net_ok S -> getr S i = Some ri ->
  exists ri', getr (run S (map (fun j => NbrDead i j) vs)) i = Some ri' /\
              forall x, In x (nbrs ri') <-> In x (nbrs ri) /\ ~ In x vs.
Proof.
  induction vs as [|v vs IH]; intros S i ri Hok Gi.
  - exists ri. split; [exact Gi|]. intros x. simpl. tauto.
  - change (run S (map (fun j => NbrDead i j) (v :: vs)))
      with (run (fst (step S (NbrDead i v))) (map (fun j => NbrDead i j) vs)).
    pose proof (step_ok S (NbrDead i v) Hok) as Hok1.
    assert (H1 : exists r1, getr (fst (step S (NbrDead i v))) i = Some r1 /\
                            forall x, In x (nbrs r1) <-> In x (nbrs ri) /\ x <> v).
    { simpl. rewrite Gi. destruct (memN v (nbrs ri)) eqn:M.
      - destruct (rib_dead (rrib ri) v) as [rb d]. simpl.
        destruct (getr_some _ _ _ Gi) as [Ii Si].
        rewrite getr_setr by (simpl; rewrite <- Si; apply in_map; exact Ii). simpl. rewrite N.eqb_refl.
        eexists. split; [reflexivity|]. intros x. simpl. apply delN_In.
      - exists ri. split; [exact Gi|]. intros x. split; [|tauto].
        intros Hx. split; [exact Hx|]. intros ->. apply memN_In in Hx. congruence. }
    destruct H1 as (r1 & G1 & N1).
    destruct (IH _ i r1 Hok1 G1) as (ri' & G' & N').
    exists ri'. split; [exact G'|]. intros x. rewrite N', N1. simpl. intuition.
Qed.

Theorem live_neighbour_survives_sweep : forall P i j dead ri,
  net_ok (base P) -> getr (base P) i = Some ri -> In j (nbrs ri) ->
  now P <= pget (i, j) (seen P) + dead ->
  In j (nbrs_of (base (fst (pstep P (PSweep i dead)))) i).
Proof.
  intros P i j dead ri Hok Gi Hj Hlive.
  rewrite pstep_base. unfold ptrace.
  destruct (run_dead_nbrs (victims P i dead) (base P) i ri Hok Gi) as (ri' & G' & N').
  unfold nbrs_of. rewrite G'. apply N'. split; [exact Hj|].
  unfold victims. intro Hin. apply filter_In in Hin. destruct Hin as [_ H]. lia.
Qed.

(* a live but quiet neighbour is never declared dead: a Sync Interest with an UNCHANGED sequence number, then at most
   the dead interval of silence, then the sweep — the neighbour is still there *)
Theorem quiet_live_neighbour_kept : forall P i j s t dead ri,
  net_ok (base P) -> getr (base P) i = Some ri -> In j (nbrs ri) -> i <> j ->
  t <= now P + dead ->
  let P1 := fst (pstep P (PSync i j s)) in
  let P2 := fst (pstep P1 (PClock t)) in
  In j (nbrs_of (base (fst (pstep P2 (PSweep i dead)))) i).
Proof.
  intros P i j s t dead ri Hok Gi Hj Hij Ht P1 P2.
  assert (B1 : base P1 = base P).
  { unfold P1. rewrite pstep_base. unfold ptrace. rewrite Gi. apply memN_In in Hj. rewrite Hj. reflexivity. }
  assert (S1 : pget (i, j) (seen P1) = now P) by (apply (sync_refreshes_liveness P i j s ri Gi Hij)).
  assert (B2 : base P2 = base P) by (unfold P2; rewrite pstep_base; simpl; exact B1).
  assert (S2 : seen P2 = seen P1 /\ now P2 = t).
  { unfold P2, pstep, pstep_gen. simpl. split; reflexivity. }
  destruct S2 as [S2 N2].
  apply (live_neighbour_survives_sweep P2 i j dead ri); rewrite ?B2; try assumption.
  rewrite S2, S1, N2. exact Ht.
Qed.

(* ---- well-formedness and convergence carry over ---- *)
Theorem pstep_ok : forall P e, net_ok (base P) -> net_ok (base (fst (pstep P e))).
Proof. intros P e H. rewrite pstep_base. apply run_ok. exact H. Qed.

Theorem prun_ok : forall evs, net_ok (base (prun pinit evs)).
Proof. intros evs. rewrite prun_base. apply run_ok. apply net_ok_nil. Qed.

(* the convergence theorem with the sequence guard in place: the table-level events that a protocol run executes
   (a Deliver only for Data whose sequence number was current on arrival) are what must form the rounds *)
Theorem protocol_self_stabilises : forall P n evs,
  net_ok (base P) -> settled (topo_of (base P)) = true ->
  (N.to_nat INF + maxdist (topo_of (base P)) <= n)%nat ->
  arounds (topo_of (base P)) n (base P) (ptrace_all P evs) ->
  converged (base (prun P evs)) = true.
Proof.
  intros P n evs Hok Hs Hn Hr. rewrite prun_base.
  apply (self_stabilises_converged (base P) n (ptrace_all P evs)); assumption.
Qed.

(* ------------------------------------------------------------------------------------------ *)
(* the sender side: a router's own sequence number, restarts                                  *)
(* ------------------------------------------------------------------------------------------ *)
Lemma sget_sset : forall l k k' v, sget k' (sset k v l) = if k' =? k then v else sget k' l.
Proof.
  intros l k k' v. unfold sset. simpl. destruct (k' =? k) eqn:E; [reflexivity|].
  induction l as [|[k0 v0] l IH]; simpl; [reflexivity|].
  destruct (k0 =? k) eqn:E0; simpl.
  - destruct (k' =? k0) eqn:E1; [lia | exact IH].
  - destruct (k' =? k0); [reflexivity | exact IH].
Qed.

(* NewRouter: the initial sequence number is the clock divided by the unit *)
Theorem router_up_seq : forall div P i, getr (base P) i = None ->
  sget i (myseq (fst (pstep_gen div P (PBase (RouterUp i))))) = now P / div.
Proof.
  intros div P i G. unfold pstep_gen. simpl ptrace.
  destruct (run_flag (base P) [RouterUp i]) as [S' d]. rewrite G. cbn [fst myseq].
  rewrite sget_sset, N.eqb_refl. reflexivity.
Qed.

(* every reported table change bumps the router's sequence number by one; no report, no bump *)
Theorem change_bumps_seq : forall div P e i, actor e = Some i ->
  sget i (myseq (fst (pstep_gen div P e))) =
  if snd (pstep_gen div P e) then sget i (myseq P) + 1 else sget i (myseq P).
Proof.
  intros div P e i Ha. unfold pstep_gen.
  destruct (run_flag (base P) (ptrace P e)) as [S' d] eqn:R.
  destruct e as [t | a b s | a b s adv | a dead | a b s | ev]; simpl in Ha; try discriminate.
  - inversion Ha; subst a. simpl. destruct d; [rewrite sget_sset, N.eqb_refl|]; reflexivity.
  - inversion Ha; subst a. simpl. destruct d; [rewrite sget_sset, N.eqb_refl|]; reflexivity.
  - destruct ev as [a b | a b adv | a b adv | a b | a b | a | a]; simpl in Ha; try discriminate; inversion Ha; subst a.
    + simpl. destruct d; [rewrite sget_sset, N.eqb_refl|]; reflexivity.
    + simpl. destruct d; [rewrite sget_sset, N.eqb_refl|]; reflexivity.
    + simpl. destruct d; [rewrite sget_sset, N.eqb_refl|]; reflexivity.
    + simpl. destruct (memN b (nbrs_of (base P) i)); simpl; destruct d; try rewrite sget_sset, N.eqb_refl; reflexivity.
Qed.

(* what a restarted router needs: its new initial sequence number must exceed every number its previous incarnation
   announced (started at clock t0, k table changes since), or its neighbours will not notice *)
Definition restart_seq_fresh (div t0 k t1 : N) : Prop := t0 / div + k < t1 / div.

(* a fresh sequence number is noticed: the neighbour records it, and (current_data_is_a_deliver) processes its Data *)
Theorem fresh_restart_noticed : forall P i j s ri,
  getr (base P) i = Some ri -> In j (nbrs ri) -> i <> j -> pget (i, j) (nseq P) < s ->
  pget (i, j) (nseq (fst (pstep P (PSync i j s)))) = s.
Proof.
  intros P i j s ri Gi Hj Hij Hs. unfold pstep, pstep_gen.
  destruct (run_flag (base P) (ptrace P (PSync i j s))) as [S' d].
  rewrite Gi. assert (E : (i =? j) = false) by lia. rewrite E.
  apply memN_In in Hj. rewrite Hj. cbn [fst nseq].
  assert (E2 : (s <=? pget (i, j) (nseq P)) = false) by lia. rewrite E2.
  rewrite pget_pset, pk_eqb_refl. reflexivity.
Qed.

(* a sequence number that is not larger is taken for "nothing changed": tables and the recorded number stay as they
   are (only liveness is refreshed), and by stale_data_ignored no Data of a smaller number is ever processed *)
Theorem stale_restart_unnoticed : forall P i j s ri,
  getr (base P) i = Some ri -> In j (nbrs ri) -> s <= pget (i, j) (nseq P) ->
  base (fst (pstep P (PSync i j s))) = base P /\ nseq (fst (pstep P (PSync i j s))) = nseq P.
Proof.
  intros P i j s ri Gi Hj Hs. split.
  - rewrite pstep_base. unfold ptrace. rewrite Gi. apply memN_In in Hj. rewrite Hj. reflexivity.
  - unfold pstep, pstep_gen. destruct (run_flag (base P) (ptrace P (PSync i j s))) as [S' d].
    rewrite Gi. destruct (i =? j); [reflexivity|]. apply memN_In in Hj. rewrite Hj. cbn [fst nseq].
    assert (E : (s <=? pget (i, j) (nseq P)) = true) by lia. rewrite E. reflexivity.
Qed.

(* any unit: fresh whenever fewer changes happened than whole units have passed ("at most one change per unit of the
   sequence clock on average") *)
Theorem restart_seq_fresh_any_unit : forall div t0 k t1, 0 < div -> t0 <= t1 -> k < (t1 - t0) / div ->
  restart_seq_fresh div t0 k t1.
Proof.
  intros div t0 k t1 Hd Hle Hk. unfold restart_seq_fresh.
  assert (H : t0 / div + (t1 - t0) / div <= t1 / div).
  { replace t1 with (t0 + (t1 - t0)) at 2 by lia.
    pose proof (N.div_mod t0 div) as A. pose proof (N.div_mod (t1 - t0) div) as B.
    assert (div <> 0) by lia. specialize (A H). specialize (B H).
    pose proof (N.mod_lt t0 div H). pose proof (N.mod_lt (t1 - t0) div H).
    apply N.div_le_lower_bound; [exact H|]. nia. }
  lia.
Qed.

(* with the clock in nanoseconds: every unit of at most a millisecond (ms, µs, ns) is fresh whenever fewer changes
   happened than milliseconds have passed *)
Theorem restart_seq_fresh_up_to_ms : forall div t0 k t1, 0 < div -> div <= 1000000 -> t0 <= t1 ->
  k < (t1 - t0) / 1000000 -> restart_seq_fresh div t0 k t1.
Proof.
  intros div t0 k t1 Hd Hm Hle Hk. apply restart_seq_fresh_any_unit; try assumption.
  assert ((t1 - t0) / 1000000 <= (t1 - t0) / div).
  { apply N.div_le_compat_l. lia. }
  lia.
Qed.

(* seconds: refuted — 5 changes, restart 3 s later (well inside a 30 s dead interval); clock in nanoseconds *)
Theorem restart_seq_seconds_refuted : exists t0 k t1,
  k < (t1 - t0) / 1000000 /\ t1 - t0 < 30000000000 /\ ~ restart_seq_fresh 1000000000 t0 k t1.
Proof. exists 0, 5, 3000000000. unfold restart_seq_fresh. vm_compute. repeat split; discriminate || (intro H; discriminate H). Qed.

(* the same in the model: line 1 - 2 - 3; router 2 makes table changes, then restarts 3 s later with only router 1 as
   neighbour; router 1 hears the new incarnation's Sync Interest and is offered its advertisement Data.
   With millisecond sequence numbers router 1 drops its route to 3; with seconds it keeps it for ever. *)
Definition honest_sync (div : N) (P : pstate) (i j : node) : pstate :=
  fst (pstep_gen div P (PSync i j (sget j (myseq P)))).
Definition honest_data (div : N) (P : pstate) (i j : node) : pstate :=
  fst (pstep_gen div P (PData i j (sget j (myseq P))
                              (match getr (base P) j with Some r => advert (rrib r) | None => [] end))).

Definition ex_restart (div : N) : list (node * (N * node)) * N * N :=
  let P0 := prun_gen div pinit
              [PClock 100000; PBase (RouterUp 1); PBase (RouterUp 2); PBase (RouterUp 3);
               PBase (NbrUp 1 2); PBase (NbrUp 2 1); PBase (NbrUp 2 3); PBase (NbrUp 3 2);
               PBase (Fetch 2 3); PBase (Fetch 2 1); PBase (Fetch 3 2);
               PBase (NbrDead 2 3); PBase (NbrUp 2 3); PBase (Fetch 2 3);
               PBase (NbrDead 2 3); PBase (NbrUp 2 3); PBase (Fetch 2 3)] in
  let P1 := honest_data div (honest_sync div P0 1 2) 1 2 in             (* 1 knows 2's tables: route to 3 *)
  let old := sget 2 (myseq P1) in
  let P2 := prun_gen div P1 [PBase (RouterDown 2); PBase (RouterDown 3); PClock 103000;
                             PBase (RouterUp 2); PBase (NbrUp 2 1)] in
  let P3 := honest_data div (honest_sync div P2 1 2) 1 2 in
  (match getr (base P3) 1 with Some r => rib_entries (rrib r) | None => [] end, old, sget 2 (myseq P3)).

(* ------------------------------------------------------------------------------------------ *)
(* failed fetches                                                                             *)
(* ------------------------------------------------------------------------------------------ *)
(* a failed advertisement fetch (NACK because the route to the neighbour is not registered yet, timeout, ...) changes
   nothing: the announced sequence number stays recorded and the fetch stays outstanding *)
Theorem fetch_fail_changes_nothing : forall P i j s, pstep P (PFetchFail i j s) = (P, false).
Proof. intros. unfold pstep, pstep_gen. simpl. reflexivity. Qed.

(* a Sync Interest with a new sequence number (or from a new neighbour) leaves a fetch for it outstanding *)
Theorem sync_starts_fetch : forall P i j s ri,
  getr (base P) i = Some ri -> i <> j -> (~ In j (nbrs ri) \/ pget (i, j) (nseq P) < s) ->
  pget (i, j) (fetching (fst (pstep P (PSync i j s)))) = s.
Proof.
  intros P i j s ri Gi Hij H. unfold pstep, pstep_gen.
  destruct (run_flag (base P) (ptrace P (PSync i j s))) as [S' d].
  rewrite Gi. assert (E : (i =? j) = false) by lia. rewrite E.
  destruct (memN j (nbrs ri)) eqn:M; cbn [fst fetching].
  - destruct H as [H | H]; [apply memN_In in M; contradiction|].
    assert (E2 : (s <=? pget (i, j) (nseq P)) = false) by lia. rewrite E2.
    rewrite pget_pset, pk_eqb_refl. reflexivity.
  - rewrite pget_pset, pk_eqb_refl. reflexivity.
Qed.

(* protocol events that can make router i process an advertisement of j *)
Definition serves (i j : node) (e : pevent) : Prop :=
  match e with
  | PData a b _ _ => a = i /\ b = j
  | PBase (Fetch a b) | PBase (Deliver a b _) => a = i /\ b = j
  | _ => False
  end.

Lemma no_serve_no_xfer : forall P e i j, ~ serves i j e -> existsb (xfers (i, j)) (ptrace P e) = false.
Proof.
  intros P e i j Hn.
  destruct e as [t | a b s | a b s adv | a dead | a b s | ev]; simpl.
  - reflexivity.
  - destruct (getr (base P) a) as [ra|]; [|reflexivity]. destruct (memN b (nbrs ra) || (a =? b)); reflexivity.
  - destruct (getr (base P) a) as [ra|]; [|reflexivity].
    destruct (memN b (nbrs ra) && (pget (a, b) (nseq P) =? s)); [|reflexivity].
    simpl. unfold pair_eqb. simpl. rewrite orb_false_r.
    destruct ((i =? a) && (j =? b)) eqn:E; [|reflexivity]. exfalso. apply Hn. simpl. lia.
  - induction (victims P a dead) as [|v vs IH]; [reflexivity | exact IH].
  - reflexivity.
  - destruct ev as [a b | a b adv | a b adv | a b | a b | a | a]; simpl; try reflexivity.
    + unfold pair_eqb. simpl. rewrite orb_false_r.
      destruct ((i =? a) && (j =? b)) eqn:E; [|reflexivity]. exfalso. apply Hn. simpl. lia.
    + unfold pair_eqb. simpl. rewrite orb_false_r.
      destruct ((i =? a) && (j =? b)) eqn:E; [|reflexivity]. exfalso. apply Hn. simpl. lia.
Qed.

(* if, after a failed fetch, nothing ever makes i process an advertisement of j again (the fetch is not re-issued and
   answered), the pair (i, j) is never served by the table-level trace ... *)
Theorem unretried_fetch_never_served : forall evs P i j,
  (forall e, In e evs -> ~ serves i j e) -> existsb (xfers (i, j)) (ptrace_all P evs) = false.
Proof.
  induction evs as [|e evs IH]; intros P i j H; [reflexivity|].
  simpl. rewrite existsb_app. rewrite no_serve_no_xfer by (apply H; left; reflexivity).
  apply IH. intros e' He'. apply H. right. exact He'.
Qed.

(* ... so no fair round can be completed: the premise of dv_protocol_self_stabilises REQUIRES that a failed fetch towards
   a current neighbour is eventually re-issued and answered (fetch_eventually_retried) *)
Theorem fair_rounds_need_fetch_retry : forall g P evs i j,
  In j (nb g i) -> around g (base P) (ptrace_all P evs) -> exists e, In e evs /\ serves i j e.
Proof.
  intros g P evs i j He [_ Hc].
  specialize (Hc i j He).
  (* decidable: search the list *)
  assert (D : forall e, {serves i j e} + {~ serves i j e}).
  { intros e. destruct e as [t | a b s | a b s adv | a dead | a b s | ev]; simpl; try (right; tauto).
    - destruct (N.eq_dec a i), (N.eq_dec b j); [left; auto | right; tauto | right; tauto | right; tauto].
    - destruct ev as [a b | a b adv | a b adv | a b | a b | a | a]; simpl; try (right; tauto);
        destruct (N.eq_dec a i), (N.eq_dec b j); try (left; auto; fail); right; tauto. }
  assert (Ex : (exists e, In e evs /\ serves i j e) \/ (forall e, In e evs -> ~ serves i j e)).
  { clear Hc. induction evs as [|e evs IH]; [right; intros e []|].
    destruct (D e) as [Hs | Hn]; [left; exists e; split; [left; reflexivity | exact Hs]|].
    destruct IH as [(e' & Hin & Hs) | Hall]; [left; exists e'; split; [right; exact Hin | exact Hs]|].
    right. intros e' [<- | Hin]; [exact Hn | apply Hall; exact Hin]. }
  destruct Ex as [H | H]; [exact H|].
  rewrite (unretried_fetch_never_served evs P i j H) in Hc. discriminate.
Qed.

(* periodic heartbeats: if the neighbour's Sync Interests are sent every `period` and arrive with a latency variation
   of at most `jitter`, then at any moment the last one heard is at most period + jitter old; if that is within the
   dead interval, NO sweep — whenever it runs, however often — removes the neighbour *)
Theorem heartbeats_survive_every_sweep : forall P i j period jitter dead ri,
  net_ok (base P) -> getr (base P) i = Some ri -> In j (nbrs ri) ->
  period + jitter <= dead ->
  now P <= pget (i, j) (seen P) + period + jitter ->        (* the next heartbeat is not overdue *)
  In j (nbrs_of (base (fst (pstep P (PSweep i dead)))) i).
Proof.
  intros P i j period jitter dead ri Hok Gi Hj Hpj Hnow.
  apply (live_neighbour_survives_sweep P i j dead ri Hok Gi Hj). lia.
Qed.
