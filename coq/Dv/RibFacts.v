(* Dv/RibFacts.v — the RIB operations seen as updates of the function  (destination, next hop) -> cost,
   and the invariant that the cached lowest costs / next hops are the two least pairs. *)
From Coq Require Import Lia ZifyBool ZifyN.
From Dv Require Import Model Refresh.
Open Scope N_scope.

(* ------------------------------------------------------------------------------------------ *)
(* association lists                                                                          *)
(* ------------------------------------------------------------------------------------------ *)
Section Assoc.
Context {A : Type}.
Implicit Types (l : list (N * A)) (k : N) (v : A).

Lemma aget_aset_same : forall l k v, aget k (aset k v l) = Some v.
Proof.
  induction l as [|[k' v'] l IH]; intros k v; simpl.
  - rewrite N.eqb_refl. reflexivity.
  - destruct (k =? k') eqn:E; simpl.
    + rewrite N.eqb_refl. reflexivity.
    + rewrite E. apply IH.
Qed.

Lemma aget_aset_other : forall l k k' v, k <> k' -> aget k' (aset k v l) = aget k' l.
Proof.
  induction l as [|[k0 v0] l IH]; intros k k' v Hne; simpl.
  - destruct (k' =? k) eqn:E; [lia | reflexivity].
  - destruct (k =? k0) eqn:E; simpl.
    + assert (k = k0) by lia. subst k0.
      destruct (k' =? k) eqn:E2; [lia | reflexivity].
    + destruct (k' =? k0); [reflexivity | apply IH; exact Hne].
Qed.

Lemma aget_aset : forall l k k' v, aget k' (aset k v l) = if k' =? k then Some v else aget k' l.
Proof.
  intros l k k' v. destruct (k' =? k) eqn:E.
  - assert (k' = k) by lia. subst. apply aget_aset_same.
  - apply aget_aset_other. lia.
Qed.

Lemma keys_aset : forall l k v x, In x (map fst (aset k v l)) <-> x = k \/ In x (map fst l).
Proof.
  induction l as [|[k0 v0] l IH]; intros k v x; simpl.
  - intuition.
  - destruct (k =? k0) eqn:E; simpl.
    + assert (k = k0) by lia. subst. intuition.
    + rewrite IH. intuition.
Qed.

Lemma nodup_aset : forall l k v, NoDup (map fst l) -> NoDup (map fst (aset k v l)).
Proof.
  induction l as [|[k0 v0] l IH]; intros k v Hnd; simpl.
  - constructor; [intros [] | constructor].
  - inversion Hnd as [|x xs Hnin Hnd']; subst.
    destruct (k =? k0) eqn:E; simpl.
    + assert (k = k0) by lia. subst. constructor; assumption.
    + constructor.
      * rewrite keys_aset. intros [-> | Hin]; [lia | exact (Hnin Hin)].
      * apply IH. exact Hnd'.
Qed.

Lemma aget_adel : forall l k k', aget k' (adel k l) = if k' =? k then None else aget k' l.
Proof.
  induction l as [|[k0 v0] l IH]; intros k k'; simpl.
  - destruct (k' =? k); reflexivity.
  - destruct (k =? k0) eqn:E; simpl.
    + rewrite IH. destruct (k' =? k) eqn:E2; [reflexivity|].
      destruct (k' =? k0) eqn:E3; [lia | reflexivity].
    + destruct (k' =? k0) eqn:E3.
      * destruct (k' =? k) eqn:E2; [lia | reflexivity].
      * apply IH.
Qed.

Lemma keys_adel : forall l k x, In x (map fst (adel k l)) -> In x (map fst l).
Proof.
  induction l as [|[k0 v0] l IH]; intros k x; simpl; [tauto|].
  destruct (k =? k0); simpl; intros H.
  - right. eapply IH; eauto.
  - destruct H; [auto | right; eapply IH; eauto].
Qed.

Lemma nodup_adel : forall l k, NoDup (map fst l) -> NoDup (map fst (adel k l)).
Proof.
  induction l as [|[k0 v0] l IH]; intros k Hnd; simpl; [constructor|].
  inversion Hnd as [|x xs Hnin Hnd']; subst.
  destruct (k =? k0); simpl.
  - apply IH. exact Hnd'.
  - constructor; [|apply IH; exact Hnd'].
    intro Hin. apply Hnin. eapply keys_adel; eauto.
Qed.

Lemma aget_none : forall l k, aget k l = None <-> ~ In k (map fst l).
Proof.
  induction l as [|[k0 v0] l IH]; intros k; simpl.
  - intuition.
  - destruct (k =? k0) eqn:E.
    + split; [discriminate|]. intros H. exfalso. apply H. left. lia.
    + rewrite IH. split; intros H.
      * intros [H1 | H1]; [lia | exact (H H1)].
      * intro H1. apply H. right. exact H1.
Qed.

Lemma aget_in : forall l k v, aget k l = Some v -> In (k, v) l.
Proof.
  induction l as [|[k0 v0] l IH]; intros k v; simpl; [discriminate|].
  destruct (k =? k0) eqn:E.
  - intros H. inversion H; subst. left. f_equal. lia.
  - intros H. right. apply IH. exact H.
Qed.

Lemma in_aget : forall l k v, NoDup (map fst l) -> In (k, v) l -> aget k l = Some v.
Proof.
  induction l as [|[k0 v0] l IH]; intros k v Hnd Hin; simpl; [destruct Hin|].
  inversion Hnd as [|x xs Hnin Hnd']; subst.
  destruct Hin as [Heq | Hin].
  - inversion Heq; subst. rewrite N.eqb_refl. reflexivity.
  - destruct (k =? k0) eqn:E.
    + exfalso. apply Hnin. assert (k = k0) by lia. subst.
      apply in_map_iff. exists (k0, v). auto.
    + apply IH; assumption.
Qed.

Lemma aget_some_key : forall l k v, aget k l = Some v -> In k (map fst l).
Proof.
  intros l k v H. apply aget_in in H. apply in_map_iff. exists (k, v). auto.
Qed.
End Assoc.

Lemma aget_map_snd : forall (A B : Type) (f : N * A -> B) (l : list (N * A)) k,
  aget k (map (fun kv => (fst kv, f kv)) l) =
  match aget k l with Some v => Some (f (k, v)) | None => None end.
Proof.
  intros A B f. induction l as [|[k0 v0] l IH]; intros k; simpl; [reflexivity|].
  destruct (k =? k0) eqn:E.
  - assert (k = k0) by lia. subst. reflexivity.
  - apply IH.
Qed.

Lemma keys_map_snd : forall (A B : Type) (f : N * A -> B) (l : list (N * A)),
  map fst (map (fun kv => (fst kv, f kv)) l) = map fst l.
Proof.
  intros. rewrite map_map. simpl. reflexivity.
Qed.

Lemma memN_In : forall l k, memN k l = true <-> In k l.
Proof.
  induction l as [|x l IH]; intros k; simpl.
  - split; [discriminate | tauto].
  - rewrite orb_true_iff, IH. split; intros [H | H]; auto; left; lia.
Qed.

Lemma delN_In : forall l k x, In x (delN k l) <-> In x l /\ x <> k.
Proof.
  induction l as [|y l IH]; intros k x; simpl.
  - tauto.
  - destruct (k =? y) eqn:E.
    + rewrite IH. split; [tauto|]. intros [[H | H] Hne]; [lia | auto].
    + simpl. rewrite IH. split.
      * intros [H | H]; [subst; split; [auto | lia] | tauto].
      * tauto.
Qed.

(* ------------------------------------------------------------------------------------------ *)
(* entries                                                                                    *)
(* ------------------------------------------------------------------------------------------ *)
Definition cvE (e : entry) (h : node) : N :=
  match aget h (costs e) with Some c => c | None => INF end.
Definition cached (e : entry) : best4 := (low1 e, nh1 e, low2 e, nh2 e).
Definition capped (e : entry) : Prop := forall h c, aget h (costs e) = Some c -> c <= INF.

(* semi-consistent: what DirtyResetNextHop leaves behind *)
Definition entry_sok (e : entry) : Prop :=
  NoDup (map fst (costs e)) /\ capped e /\ (dirty e = false -> cached e = refresh_fold (costs e)).
Definition entry_ok (e : entry) : Prop := entry_sok e /\ dirty e = false.

Lemma refresh_costs : forall e, costs (fst (refresh e)) = costs e.
Proof.
  intros e. unfold refresh. destruct (refresh_fold (costs e)) as [[[l1 h1] l2] h2]. reflexivity.
Qed.

Lemma refresh_dirty : forall e, dirty (fst (refresh e)) = false.
Proof.
  intros e. unfold refresh. destruct (refresh_fold (costs e)) as [[[l1 h1] l2] h2]. reflexivity.
Qed.

Lemma refresh_cached : forall e, cached (fst (refresh e)) = refresh_fold (costs e).
Proof.
  intros e. unfold refresh, cached. destruct (refresh_fold (costs e)) as [[[l1 h1] l2] h2]. reflexivity.
Qed.

Lemma refresh_ok : forall e, NoDup (map fst (costs e)) -> capped e -> entry_ok (fst (refresh e)).
Proof.
  intros e Hnd Hcap. split; [|apply refresh_dirty].
  split; [rewrite refresh_costs; exact Hnd|]. split.
  - unfold capped. rewrite refresh_costs. exact Hcap.
  - intros _. rewrite refresh_cached, refresh_costs. reflexivity.
Qed.

Lemma capped_aset : forall e h c, capped e -> c <= INF -> capped (with_costs e (aset h c (costs e))).
Proof.
  intros e h c Hcap Hc h' c'. simpl. rewrite aget_aset.
  destruct (h' =? h).
  - intros H. inversion H; subst. exact Hc.
  - apply Hcap.
Qed.

(* RibEntry.Set *)
Lemma entry_set_spec : forall e h c, NoDup (map fst (costs e)) -> capped e -> c <= INF ->
  (dirty e = false -> cached e = refresh_fold (costs e) \/ costs e = []) ->
  let e' := fst (entry_set e h c) in
  entry_sok e' /\ (forall h', cvE e' h' = if h' =? h then c else cvE e h').
Proof.
  intros e h c Hnd Hcap Hc Hcached e'.
  assert (Hr : entry_sok (fst (refresh (with_costs e (aset h c (costs e))))) /\
               forall h', cvE (fst (refresh (with_costs e (aset h c (costs e))))) h' = if h' =? h then c else cvE e h').
  { split.
    - apply refresh_ok.
      + simpl. apply nodup_aset. exact Hnd.
      + apply capped_aset; assumption.
    - intros h'. unfold cvE. rewrite refresh_costs. simpl. rewrite aget_aset.
      destruct (h' =? h); reflexivity. }
  subst e'. unfold entry_set.
  destruct (aget h (costs e)) as [known|] eqn:Hk.
  - destruct (known =? c) eqn:E.
    + simpl. split.
      * split; [exact Hnd|]. split; [exact Hcap|]. intros Hd.
        destruct (Hcached Hd) as [H | H]; [exact H|]. rewrite H in Hk. discriminate.
      * intros h'. destruct (h' =? h) eqn:E2; [|reflexivity].
        assert (h' = h) by lia. subst. unfold cvE. rewrite Hk. lia.
    + exact Hr.
  - exact Hr.
Qed.

(* ------------------------------------------------------------------------------------------ *)
(* the RIB as a function                                                                      *)
(* ------------------------------------------------------------------------------------------ *)
Definition rv (r : rib) (d h : node) : N :=
  match aget d r with Some e => cvE e h | None => INF end.
Definition b1 (r : rib) (d : node) : N := match aget d r with Some e => low1 e | None => INF end.
Definition b2 (r : rib) (d : node) : N := match aget d r with Some e => low2 e | None => INF end.
Definition n1 (r : rib) (d : node) : node := match aget d r with Some e => nh1 e | None => 0 end.
Definition n2 (r : rib) (d : node) : node := match aget d r with Some e => nh2 e | None => 0 end.

Definition rib_sok (r : rib) : Prop :=
  NoDup (map fst r) /\ forall d e, aget d r = Some e -> entry_sok e.
Definition rib_ok (r : rib) : Prop :=
  NoDup (map fst r) /\ forall d e, aget d r = Some e -> entry_ok e /\ low1 e < INF.

Lemma rib_ok_sok : forall r, rib_ok r -> rib_sok r.
Proof.
  intros r [Hnd H]. split; [exact Hnd|]. intros d e He. apply (H d e He).
Qed.

Lemma rv_le_INF : forall r d h, rib_sok r -> rv r d h <= INF.
Proof.
  intros r d h [_ H]. unfold rv. destruct (aget d r) as [e|] eqn:He; [|lia].
  unfold cvE. destruct (aget h (costs e)) as [c|] eqn:Hc; [|lia].
  destruct (H d e He) as (_ & Hcap & _). exact (Hcap h c Hc).
Qed.

(* Rib.DirtyResetNextHop *)
Lemma dirty_reset_spec : forall r j, rib_sok r ->
  rib_sok (dirty_reset r j) /\
  forall d h, rv (dirty_reset r j) d h = if h =? j then INF else rv r d h.
Proof.
  intros r j [Hnd H]. unfold dirty_reset.
  set (f := fun de : node * entry =>
              mkEntry (aset j INF (costs (snd de))) (nh1 (snd de)) (nh2 (snd de)) (low1 (snd de)) (low2 (snd de)) true).
  change (map _ r) with (map (fun de => (fst de, f de)) r).
  split.
  - split; [rewrite keys_map_snd; exact Hnd|].
    intros d e. rewrite aget_map_snd. destruct (aget d r) as [e0|] eqn:He; [|discriminate].
    intros Heq. inversion Heq; subst e. destruct (H d e0 He) as (Hn & Hcap & _).
    split; [simpl; apply nodup_aset; exact Hn|]. split.
    + intros h c. simpl. rewrite aget_aset. destruct (h =? j).
      * intros Hc. inversion Hc. lia.
      * apply Hcap.
    + simpl. discriminate.
  - intros d h. unfold rv. rewrite aget_map_snd. destruct (aget d r) as [e0|] eqn:He.
    + unfold cvE. simpl. rewrite aget_aset. destruct (h =? j); reflexivity.
    + destruct (h =? j); reflexivity.
Qed.

(* Rib.Set *)
Lemma rib_set_spec : forall r d0 j c, rib_sok r -> c <= INF ->
  rib_sok (fst (rib_set r d0 j c)) /\
  forall d h, rv (fst (rib_set r d0 j c)) d h = if (d =? d0) && (h =? j) then c else rv r d h.
Proof.
  intros r d0 j c [Hnd H] Hc. unfold rib_set.
  set (e := match aget d0 r with Some e => e | None => new_entry end).
  assert (He : NoDup (map fst (costs e)) /\ capped e /\
               (dirty e = false -> cached e = refresh_fold (costs e) \/ costs e = [])).
  { subst e. destruct (aget d0 r) as [e0|] eqn:E0.
    - destruct (H d0 e0 E0) as (A & B & C). split; [exact A|]. split; [exact B|]. intros D. left. exact (C D).
    - split; [constructor|]. split; [intros h c'; discriminate|]. intros _. right. reflexivity. }
  destruct He as (A & B & C).
  pose proof (entry_set_spec e j c A B Hc C) as [S1 S2].
  destruct (entry_set e j c) as [e' ch] eqn:Es. simpl in *.
  split.
  - split; [apply nodup_aset; exact Hnd|].
    intros d e1. rewrite aget_aset. destruct (d =? d0).
    + intros Heq. inversion Heq; subst. exact S1.
    + apply H.
  - intros d h. unfold rv. rewrite aget_aset. destruct (d =? d0) eqn:Ed; simpl.
    + assert (d = d0) by lia. subst d. rewrite S2. destruct (h =? j); [reflexivity|].
      subst e. destruct (aget d0 r) as [e0|]; [reflexivity|]. reflexivity.
    + reflexivity.
Qed.

(* the loop over the advertisement: the last usable entry for a destination wins *)
Definition lastc (self : node) (adv : list adv_entry) (d : node) (dflt : N) : N :=
  fold_left (fun acc a => if (a_dest a =? d) && negb (INF <=? adv_cost self a) then adv_cost self a else acc)
            adv dflt.

Lemma lastc_cons : forall self a adv d x,
  lastc self (a :: adv) d x =
  lastc self adv d (if (a_dest a =? d) && negb (INF <=? adv_cost self a) then adv_cost self a else x).
Proof. reflexivity. Qed.

Lemma fold_update_spec : forall self j adv r fl, rib_sok r ->
  let res := fold_left (rib_update_step self j) adv (r, fl) in
  rib_sok (fst res) /\
  forall d h, rv (fst res) d h = if h =? j then lastc self adv d (rv r d j) else rv r d h.
Proof.
  intros self j. induction adv as [|a adv IH]; intros r fl Hok.
  - simpl. split; [exact Hok|]. intros d h. destruct (h =? j) eqn:E; [|reflexivity].
    assert (h = j) by lia. subst. reflexivity.
  - cbn [fold_left]. cbv zeta. destruct (INF <=? adv_cost self a) eqn:Ec.
    + assert (Es : rib_update_step self j (r, fl) a = (r, fl)).
      { unfold rib_update_step. rewrite Ec. reflexivity. }
      rewrite Es.
      destruct (IH r fl Hok) as [I1 I2]. split; [exact I1|].
      intros d h. rewrite I2. rewrite lastc_cons, Ec. simpl. rewrite andb_false_r. reflexivity.
    + assert (Hc : adv_cost self a <= INF) by lia.
      pose proof (rib_set_spec r (a_dest a) j (adv_cost self a) Hok Hc) as [S1 S2].
      destruct (rib_set r (a_dest a) j (adv_cost self a)) as [r' ch] eqn:Er. simpl in S1, S2.
      assert (Es : rib_update_step self j (r, fl) a = (r', ch || fl)).
      { unfold rib_update_step. rewrite Ec. simpl. rewrite Er. reflexivity. }
      rewrite Es.
      destruct (IH r' (ch || fl) S1) as [I1 I2]. split; [exact I1|].
      intros d h. rewrite I2. destruct (h =? j) eqn:Eh.
      * rewrite lastc_cons, Ec. simpl. rewrite andb_true_r.
        rewrite S2. rewrite N.eqb_refl. rewrite andb_true_r. rewrite (N.eqb_sym d). reflexivity.
      * rewrite S2. rewrite Eh. rewrite andb_false_r. reflexivity.
Qed.

Lemma lastc_notin : forall self adv d dflt,
  (forall a, In a adv -> a_dest a <> d) -> lastc self adv d dflt = dflt.
Proof.
  intros self. unfold lastc. induction adv as [|a adv IH]; intros d dflt Hn; simpl; [reflexivity|].
  assert (a_dest a =? d = false) by (specialize (Hn a (or_introl eq_refl)); lia).
  rewrite H. simpl. apply IH. intros a' Ha'. apply Hn. right. exact Ha'.
Qed.

Lemma lastc_in : forall self adv a dflt, NoDup (map a_dest adv) -> In a adv ->
  lastc self adv (a_dest a) dflt = if INF <=? adv_cost self a then dflt else adv_cost self a.
Proof.
  intros self. induction adv as [|a0 adv IH]; intros a dflt Hnd Hin; [destruct Hin|].
  simpl in Hnd. inversion Hnd as [|x xs Hnin Hnd']; subst.
  destruct Hin as [-> | Hin].
  - unfold lastc. simpl. rewrite N.eqb_refl. simpl.
    change (fold_left _ adv ?x) with (lastc self adv (a_dest a) x).
    rewrite lastc_notin.
    + destruct (INF <=? adv_cost self a); reflexivity.
    + intros a' Ha' Heq. apply Hnin. rewrite <- Heq. apply in_map. exact Ha'.
  - unfold lastc. simpl.
    assert (a_dest a0 =? a_dest a = false).
    { destruct (a_dest a0 =? a_dest a) eqn:E; [|reflexivity]. exfalso. apply Hnin.
      assert (a_dest a0 = a_dest a) by lia. rewrite H. apply in_map. exact Hin. }
    rewrite H. simpl. apply IH; assumption.
Qed.

(* Rib.Prune *)
Definition pruned_entry (e : entry) : option entry :=
  let e' := if dirty e then fst (refresh e) else e in
  if low1 e' =? INF then None else Some e'.

Lemma prune_keys : forall r x, In x (map fst (fst (prune r))) -> In x (map fst r).
Proof.
  induction r as [|[d e] r IH]; intros x; simpl; [tauto|].
  destruct (if dirty e then refresh e else (e, false)) as [e' ch].
  destruct (prune r) as [t' cht]. simpl in IH.
  destruct (low1 e' =? INF); simpl; intros H.
  - right. apply IH. exact H.
  - destruct H; [auto | right; apply IH; exact H].
Qed.

Lemma prune_nodup : forall r, NoDup (map fst r) -> NoDup (map fst (fst (prune r))).
Proof.
  induction r as [|[d e] r IH]; intros Hnd; simpl; [constructor|].
  inversion Hnd as [|x xs Hnin Hnd']; subst.
  pose proof (prune_keys r) as Hk.
  destruct (if dirty e then refresh e else (e, false)) as [e' ch].
  destruct (prune r) as [t' cht]. simpl in *.
  destruct (low1 e' =? INF); simpl.
  - apply IH. exact Hnd'.
  - constructor; [|apply IH; exact Hnd'].
    intro Hin. apply Hnin. apply Hk. exact Hin.
Qed.

Lemma prune_cons : forall d e r,
  prune ((d, e) :: r) =
  let e' := if dirty e then fst (refresh e) else e in
  let ch := if dirty e then snd (refresh e) else false in
  if low1 e' =? INF then (fst (prune r), true) else ((d, e') :: fst (prune r), ch || snd (prune r)).
Proof.
  intros d e r. simpl. destruct (dirty e).
  - destruct (refresh e) as [e' ch]. destruct (prune r) as [t' cht]. reflexivity.
  - destruct (prune r) as [t' cht]. reflexivity.
Qed.

Lemma prune_aget : forall r d, NoDup (map fst r) ->
  aget d (fst (prune r)) = match aget d r with Some e => pruned_entry e | None => None end.
Proof.
  induction r as [|[d0 e] r IH]; intros d Hnd; [reflexivity|].
  inversion Hnd as [|x xs Hnin Hnd']; subst.
  pose proof (prune_keys r) as Hk.
  specialize (IH d Hnd').
  rewrite prune_cons. cbv zeta. cbn [aget].
  set (e1 := if dirty e then fst (refresh e) else e).
  destruct (d =? d0) eqn:Ed.
  - assert (d = d0) by lia. subst d0. unfold pruned_entry. fold e1.
    destruct (low1 e1 =? INF) eqn:El; cbn [fst aget].
    + apply aget_none. intro Hin. apply Hnin. apply Hk. exact Hin.
    + rewrite N.eqb_refl. reflexivity.
  - destruct (low1 e1 =? INF); cbn [fst aget]; [exact IH|]. rewrite Ed. exact IH.
Qed.

Lemma sok_refreshed : forall e, entry_sok e ->
  let e' := if dirty e then fst (refresh e) else e in
  entry_ok e' /\ costs e' = costs e.
Proof.
  intros e (A & B & C). simpl. destruct (dirty e) eqn:Hd.
  - split; [apply refresh_ok; assumption | apply refresh_costs].
  - split; [|reflexivity]. split; [|exact Hd]. split; [exact A|]. split; [exact B|].
    intros _. apply C. reflexivity.
Qed.

(* an entry whose lowest cost is INF has no usable cost at all *)
Lemma low1_INF_all : forall e h, entry_ok e -> low1 e = INF -> cvE e h = INF.
Proof.
  intros e h [(A & B & C) D] Hl.
  pose proof (refresh_fold_spec (costs e) A) as T. rewrite <- (C D) in T.
  unfold cached in T. destruct T as [F _].
  unfold cvE. destruct (aget h (costs e)) as [c|] eqn:Hc; [|reflexivity].
  pose proof (B h c Hc) as Hle. apply aget_in in Hc.
  destruct F as [(_ & _ & Fa) | (Fl & _)]; [|lia].
  specialize (Fa h c Hc). lia.
Qed.

Lemma low1_le_INF : forall e, entry_ok e -> low1 e <= INF.
Proof.
  intros e [(A & B & C) D].
  pose proof (refresh_fold_spec (costs e) A) as T. rewrite <- (C D) in T.
  unfold cached in T. destruct T as [[(-> & _) | (Fl & _)] _]; lia.
Qed.

Lemma prune_spec : forall r, rib_sok r ->
  rib_ok (fst (prune r)) /\ forall d h, rv (fst (prune r)) d h = rv r d h.
Proof.
  intros r [Hnd H]. split.
  - split; [apply prune_nodup; exact Hnd|].
    intros d e'. rewrite prune_aget by exact Hnd.
    destruct (aget d r) as [e|] eqn:He; [|discriminate].
    unfold pruned_entry. destruct (sok_refreshed e (H d e He)) as [Ok _].
    set (e1 := if dirty e then fst (refresh e) else e) in *.
    destruct (low1 e1 =? INF) eqn:El; [discriminate|].
    intros Heq. inversion Heq; subst e'. split; [exact Ok|].
    pose proof (low1_le_INF e1 Ok). lia.
  - intros d h. unfold rv. rewrite prune_aget by exact Hnd.
    destruct (aget d r) as [e|] eqn:He; [|reflexivity].
    unfold pruned_entry. destruct (sok_refreshed e (H d e He)) as [Ok Hc].
    set (e1 := if dirty e then fst (refresh e) else e) in *.
    assert (Hcv : cvE e1 h = cvE e h) by (unfold cvE; rewrite Hc; reflexivity).
    destruct (low1 e1 =? INF) eqn:El.
    + rewrite <- Hcv. symmetry. apply low1_INF_all; [exact Ok | lia].
    + exact Hcv.
Qed.

(* Rib.RemoveNextHop *)
Definition removed_entry (j : node) (e : entry) : entry :=
  match aget j (costs e) with
  | Some _ => fst (refresh (with_costs e (adel j (costs e))))
  | None => e
  end.

Lemma remove_cons : forall d e r j,
  fst (remove_next_hop ((d, e) :: r) j) = (d, removed_entry j e) :: fst (remove_next_hop r j).
Proof.
  intros d e r j. simpl. unfold removed_entry. destruct (remove_next_hop r j) as [t' cht].
  destruct (aget j (costs e)).
  - destruct (refresh (with_costs e (adel j (costs e)))) as [e' ch]. reflexivity.
  - reflexivity.
Qed.

Lemma remove_keys : forall r j, map fst (fst (remove_next_hop r j)) = map fst r.
Proof.
  induction r as [|[d e] r IH]; intros j; [reflexivity|].
  rewrite remove_cons. simpl. f_equal. apply IH.
Qed.

Lemma remove_aget : forall r j d,
  aget d (fst (remove_next_hop r j)) = match aget d r with Some e => Some (removed_entry j e) | None => None end.
Proof.
  induction r as [|[d0 e] r IH]; intros j d; [reflexivity|].
  rewrite remove_cons. simpl. destruct (d =? d0); [reflexivity | apply IH].
Qed.

Lemma remove_spec : forall r j, rib_sok r -> (forall d e, aget d r = Some e -> dirty e = false) ->
  rib_sok (fst (remove_next_hop r j)) /\
  forall d h, rv (fst (remove_next_hop r j)) d h = if h =? j then INF else rv r d h.
Proof.
  intros r j [Hnd H] Hnd_dirty. split.
  - split; [rewrite remove_keys; exact Hnd|].
    intros d e'. rewrite remove_aget. destruct (aget d r) as [e|] eqn:He; [|discriminate].
    intros Heq. inversion Heq; subst e'. destruct (H d e He) as (A & B & C).
    unfold removed_entry. destruct (aget j (costs e)) eqn:Hj.
    + apply refresh_ok.
      * simpl. apply nodup_adel. exact A.
      * intros h c. simpl. rewrite aget_adel. destruct (h =? j); [discriminate | apply B].
    + split; [exact A|]. split; [exact B | exact C].
  - intros d h. unfold rv. rewrite remove_aget. destruct (aget d r) as [e|] eqn:He.
    + unfold removed_entry. destruct (aget j (costs e)) eqn:Hj.
      * unfold cvE. rewrite refresh_costs. simpl. rewrite aget_adel. destruct (h =? j); reflexivity.
      * destruct (h =? j) eqn:Eh; [|reflexivity].
        assert (h = j) by lia. subst. unfold cvE. rewrite Hj. reflexivity.
    + destruct (h =? j); reflexivity.
Qed.

(* ------------------------------------------------------------------------------------------ *)
(* ribUpdate and the dead-neighbour removal as function updates                               *)
(* ------------------------------------------------------------------------------------------ *)
Theorem rib_update_spec : forall self r j adv, rib_ok r ->
  rib_ok (fst (rib_update self r j adv)) /\
  forall d h, rv (fst (rib_update self r j adv)) d h = if h =? j then lastc self adv d INF else rv r d h.
Proof.
  intros self r j adv Hok. unfold rib_update.
  destruct (dirty_reset_spec r j (rib_ok_sok r Hok)) as [R1 R2].
  pose proof (fold_update_spec self j adv (dirty_reset r j) false R1) as [F1 F2].
  destruct (fold_left (rib_update_step self j) adv (dirty_reset r j, false)) as [r2 d2]. simpl in F1, F2.
  destruct (prune_spec r2 F1) as [P1 P2].
  destruct (prune r2) as [r3 d3]. simpl in *.
  split; [exact P1|].
  intros d h. rewrite P2, F2. destruct (h =? j) eqn:E.
  - rewrite R2. rewrite N.eqb_refl. reflexivity.
  - rewrite R2. rewrite E. reflexivity.
Qed.

Theorem rib_dead_spec : forall r j, rib_ok r ->
  rib_ok (fst (rib_dead r j)) /\
  forall d h, rv (fst (rib_dead r j)) d h = if h =? j then INF else rv r d h.
Proof.
  intros r j Hok. unfold rib_dead.
  assert (Hd : forall d e, aget d r = Some e -> dirty e = false).
  { intros d e He. destruct Hok as [_ H]. destruct (H d e He) as [[_ D] _]. exact D. }
  destruct (remove_spec r j (rib_ok_sok r Hok) Hd) as [R1 R2].
  destruct (remove_next_hop r j) as [r1 d1]. simpl in *.
  destruct (prune_spec r1 R1) as [P1 P2].
  destruct (prune r1) as [r2 d2]. simpl in *.
  split; [exact P1|]. intros d h. rewrite P2. apply R2.
Qed.

(* ------------------------------------------------------------------------------------------ *)
(* what the cached best / second-best fields mean                                             *)
(* ------------------------------------------------------------------------------------------ *)
Lemma entry_two_least : forall r d e, rib_ok r -> aget d r = Some e ->
  two_least (costs e) (low1 e, nh1 e, low2 e, nh2 e) /\ NoDup (map fst (costs e)) /\ capped e.
Proof.
  intros r d e [_ H] He. destruct (H d e He) as [[(A & B & C) D] _].
  split; [|split; assumption].
  pose proof (refresh_fold_spec (costs e) A) as T. rewrite <- (C D) in T. exact T.
Qed.

Lemma b1_lt_INF_iff : forall r d, rib_ok r -> (b1 r d < INF <-> aget d r <> None).
Proof.
  intros r d [_ H]. unfold b1. destruct (aget d r) as [e|] eqn:He.
  - split; [discriminate|]. intros _. apply (H d e He).
  - split; [lia | congruence].
Qed.

(* F1: the best cost is a lower bound of every per-hop cost *)
Lemma b1_le_rv : forall r d h, rib_ok r -> b1 r d <= rv r d h.
Proof.
  intros r d h Hok. unfold b1, rv. destruct (aget d r) as [e|] eqn:He; [|lia].
  destruct (entry_two_least r d e Hok He) as ([F _] & A & B).
  unfold cvE. destruct (aget h (costs e)) as [c|] eqn:Hc.
  - apply aget_in in Hc. destruct F as [(-> & _ & Fa) | (_ & _ & Fa)].
    + exact (Fa h c Hc).
    + specialize (Fa h c Hc). unfold lex_le, lex_le_k in Fa. lia.
  - destruct F as [(-> & _) | (Fl & _)]; lia.
Qed.

(* F2: a finite best cost is the cost through the cached next hop *)
Lemma b1_attained : forall r d, rib_ok r -> b1 r d < INF -> rv r d (n1 r d) = b1 r d.
Proof.
  intros r d Hok. unfold b1, rv, n1. destruct (aget d r) as [e|] eqn:He; [|lia].
  destruct (entry_two_least r d e Hok He) as ([F _] & A & B). intros Hlt.
  destruct F as [(E & _) | (_ & Fi & _)]; [lia|].
  unfold cvE. rewrite (in_aget _ _ _ A Fi). reflexivity.
Qed.

(* F3: the second-best cost bounds every hop other than the best one, and is attained when finite *)
Lemma b2_le_rv : forall r d h, rib_ok r -> h <> n1 r d -> b2 r d <= rv r d h.
Proof.
  intros r d h Hok. unfold b2, rv, n1. destruct (aget d r) as [e|] eqn:He; [|lia].
  destruct (entry_two_least r d e Hok He) as ([_ S] & A & B). intros Hne.
  unfold cvE. destruct (aget h (costs e)) as [c|] eqn:Hc.
  - apply aget_in in Hc. destruct S as [(-> & _ & Sa) | (_ & _ & _ & Sa)].
    + exact (Sa h c Hc Hne).
    + specialize (Sa h c Hc Hne). unfold lex_le, lex_le_k in Sa. lia.
  - destruct S as [(-> & _) | (Sl & _)]; lia.
Qed.

Lemma b2_attained : forall r d, rib_ok r -> b2 r d < INF ->
  rv r d (n2 r d) = b2 r d /\ n2 r d <> n1 r d.
Proof.
  intros r d Hok. unfold b2, rv, n2, n1. destruct (aget d r) as [e|] eqn:He; [|lia].
  destruct (entry_two_least r d e Hok He) as ([_ S] & A & B). intros Hlt.
  destruct S as [(E & _) | (_ & Si & Sn & _)]; [lia|].
  split; [|exact Sn]. unfold cvE. rewrite (in_aget _ _ _ A Si). reflexivity.
Qed.

(* F4: among hops of equal best cost the one with the least hash is chosen *)
Lemma n1_least : forall r d h, rib_ok r -> rv r d h = b1 r d -> b1 r d < INF -> (tie_key (n1 r d) <= tie_key h)%Z.
Proof.
  intros r d h Hok. unfold b1, rv, n1. destruct (aget d r) as [e|] eqn:He; [|lia].
  destruct (entry_two_least r d e Hok He) as ([F _] & A & B). intros Heq Hlt.
  unfold cvE in Heq. destruct (aget h (costs e)) as [c|] eqn:Hc; [|lia].
  apply aget_in in Hc. subst c.
  destruct F as [(E & _) | (_ & _ & Fa)]; [lia|].
  specialize (Fa h _ Hc). unfold lex_le, lex_le_k in Fa. lia.
Qed.

(* what a neighbour's advertisement contains *)
Lemma advert_nodup : forall r, NoDup (map fst r) -> NoDup (map a_dest (advert r)).
Proof.
  intros r H. unfold advert. rewrite map_map. simpl. exact H.
Qed.

Lemma advert_in : forall r d e, aget d r = Some e ->
  In (mkAdv d (nh1 e) (low1 e) (low2 e)) (advert r).
Proof.
  intros r d e He. apply aget_in in He. unfold advert.
  apply in_map_iff. exists (d, e). split; [reflexivity | exact He].
Qed.

Lemma advert_dest : forall r a, In a (advert r) -> In (a_dest a) (map fst r).
Proof.
  intros r a Ha. unfold advert in Ha. apply in_map_iff in Ha. destruct Ha as ([d e] & <- & Hin).
  simpl. apply in_map_iff. exists (d, e). auto.
Qed.

(* the cost i stores for destination d after processing j's advertisement *)
Definition newc (self : node) (rj : rib) (d : node) : N :=
  match aget d rj with
  | Some e => let c := adv_cost self (mkAdv d (nh1 e) (low1 e) (low2 e)) in if INF <=? c then INF else c
  | None => INF
  end.

Lemma lastc_advert : forall self rj d, NoDup (map fst rj) -> lastc self (advert rj) d INF = newc self rj d.
Proof.
  intros self rj d Hnd. unfold newc. destruct (aget d rj) as [e|] eqn:He.
  - pose proof (lastc_in self (advert rj) _ INF (advert_nodup rj Hnd) (advert_in rj d e He)) as L.
    simpl in L. exact L.
  - apply lastc_notin. intros a Ha Heq. apply aget_none in He. apply He. rewrite <- Heq.
    apply advert_dest. exact Ha.
Qed.
