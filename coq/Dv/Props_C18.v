(* Property C18 — distance-vector routing converges to shortest paths (placeholder; theorems are added as proved). *)
From Dv Require Import Model Spec.
Open Scope N_scope.

(* the infinity metric the statement talks about *)
Theorem infinity_is_16 : INF = 16 /\ local_cost = 1.
Proof. exact (conj eq_refl eq_refl). Qed.
Print Assumptions infinity_is_16.
