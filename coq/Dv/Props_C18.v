(* Property C18 — distance-vector routing converges to shortest paths on every topology and fair schedule.
   Only theorem statements closed by `exact`, each followed by Print Assumptions, and a non-vacuity Example.

   Vocabulary (Model.v / Spec.v):
     run S evs            the network state after the events evs (Fetch i j = router i processes router j's
                          current advertisement with the modelled ribUpdate; Deliver i j adv = router i processes
                          the advertisement adv as coming from j (stale, or arbitrary); LateUpdate i j adv = a
                          ribUpdate goroutine started for neighbour j runs only after the dead sweep removed j
                          and deleted its state object (ns.Advert = nil, the guard of ribUpdate); NbrUp / NbrDead =
                          neighbour entry created / declared dead; RouterUp / RouterDown)
     topo_of S            the directed graph "j is in i's neighbour table" over the live routers
     settled g            every neighbour-table entry names a live router (all losses have been detected)
     arounds g n S evs    from state S, evs = n asynchronous rounds followed by further transfers; a round
                          (around) is any sequence of Fetch / Deliver events in which every ordered adjacent pair
                          is served at least once and every delivered advertisement was the sender's advertisement
                          in some state of that same round (it may be stale, but not older than the round)
     nrounds g n evs      the synchronous special case: rounds of atomic Fetch events only (Spec.is_round)
     isdist g i d m       the hop distance from i to d in g is m;   maxdist g = the largest distance below INF
     converged S          for every router: its table (Rib.Entries: destination -> best cost, next hop) lists
                          exactly the destinations at distance m < INF, each with cost m and, as next hop, the
                          neighbour with the least name hash among those one hop closer (itself for itself);
                          and its advertisement lists no cost >= INF
     net_ok S             well-formed state: per-entry cached best/second-best consistent with the per-hop
                          costs, every usable cost goes through a current neighbour (or is the router's own
                          entry), no entry without a usable cost — what every history leaves behind *)
From Coq Require Import Permutation.
From Dv Require Import Model Spec Refresh RibFacts Net Graph Conv Final Flag ProtoModel ProtoFacts.
Open Scope N_scope.

(* the infinity metric and link cost the statement talks about, as translated from the source on this run *)
Theorem infinity_is_16 : INF = 16 /\ local_cost = 1.
Proof. exact (conj eq_refl eq_refl). Qed.
Print Assumptions infinity_is_16.

(* "ties are broken the same way every time": for ANY tie-break given by an injective rank of the next hops (smaller
   rank wins), the loop of RibEntry.refresh yields the same result — the two least (cost, rank) pairs among the costs
   below infinity — for every iteration order of the Go map *)
Theorem refresh_order_independent_any_tie_break : forall (key : node -> Z),
  (forall a b, key a = key b -> a = b) ->
  forall cs cs' : list (node * N), NoDup (map fst cs) -> Permutation cs cs' ->
  refresh_fold_k key cs = refresh_fold_k key cs' /\ two_least_k key cs (refresh_fold_k key cs).
Proof.
  exact (fun key inj cs cs' Hnd P => conj (refresh_fold_order_independent_k key inj cs cs' Hnd P) (refresh_fold_k_spec key inj cs Hnd)).
Qed.
Print Assumptions refresh_order_independent_any_tie_break.

(* the tie-break the implementation uses, as measured on this run (GenConsts.tie_smaller_wins: the smaller or the larger
   name hash wins), is one of them; the executable model and all theorems below follow it *)
Theorem refresh_order_independent : forall cs cs' : list (node * N),
  NoDup (map fst cs) -> Permutation cs cs' ->
  refresh_fold cs = refresh_fold cs' /\ two_least cs (refresh_fold cs).
Proof. exact (fun cs cs' Hnd P => conj (refresh_fold_order_independent cs cs' Hnd P) (refresh_fold_spec cs Hnd)). Qed.
Print Assumptions refresh_order_independent.

(* every history (any schedule, any sequence of losses and re-additions, and advertisements with ARBITRARY
   contents delivered by Deliver events) leaves a well-formed state *)
Theorem reachable_well_formed : forall hist, net_ok (run [] hist).
Proof. exact (fun hist => run_ok hist [] net_ok_nil). Qed.
Print Assumptions reachable_well_formed.

(* in every reachable state no router has a usable cost through somebody who is not in its neighbour table (hops_okb,
   executable: evaluated on every dump of the implementation) — whatever was delivered, lost, restarted or swept; an
   update applies the advertisement current when it holds the router lock (Deliver / LateUpdate take it at that time) *)
Theorem no_route_via_non_neighbour : forall hist i ro, getr (run [] hist) i = Some ro -> hops_okb ro = true.
Proof. exact reachable_hops_okb. Qed.
Print Assumptions no_route_via_non_neighbour.

(* a ribUpdate that runs late, on the state object of a neighbour that checkDeadNeighbors has already removed (and
   whose stored advertisement NeighborState.delete cleared), changes nothing and flags nothing — so the lost
   neighbour's destinations are not re-installed; such events may occur anywhere in the histories and rounds below *)
Theorem late_update_changes_nothing : forall S i j adv, step S (LateUpdate i j adv) = (S, false).
Proof. exact late_update_noop. Qed.
Print Assumptions late_update_changes_nothing.

(* no advertisement ever lists a destination whose best cost is at or above infinity:
   every reachable state, every schedule, every fault sequence, whatever the neighbours sent *)
Theorem advert_below_infinity : forall hist i ro,
  getr (run [] hist) i = Some ro -> adv_ok (advert (rrib ro)) = true.
Proof. exact (fun hist i ro => advert_below_infinity_gen [] hist i ro net_ok_nil). Qed.
Print Assumptions advert_below_infinity.

(* after n rounds from ANY well-formed state, every best-cost estimate is at least min(distance, n, INF);
   estimates for unreachable (or phantom) destinations are at least min(n, INF) *)
Theorem dv_lower_bound : forall S n evs i ri d,
  net_ok S -> settled (topo_of S) = true -> arounds (topo_of S) n S evs ->
  getr (run S evs) i = Some ri ->
  (forall m, isdist (topo_of S) i d m -> N.min (N.min m (N.of_nat n)) INF <= b1 (rrib ri) d) /\
  ((forall m, ~ isdist (topo_of S) i d m) -> N.min (N.of_nat n) INF <= b1 (rrib ri) d).
Proof. exact lower_bound. Qed.
Print Assumptions dv_lower_bound.

(* clean start: after any history in which nothing is lost (routers start, neighbours appear, fetches in any
   order), maxdist rounds of any fair schedule reach the shortest-path tables — any topology, any size *)
Theorem dv_converges_clean_start : forall hist n evs,
  let S := run [] hist in
  forallb is_growth hist = true -> settled (topo_of S) = true ->
  (maxdist (topo_of S) <= n)%nat -> arounds (topo_of S) n S evs ->
  converged (run S evs) = true.
Proof. exact converges_clean_start. Qed.
Print Assumptions dv_converges_clean_start.

(* self-stabilisation: from ANY well-formed state, INF + maxdist rounds of any fair schedule reach the
   shortest-path tables of the current topology (cost = hop distance below 16, deterministic next hop on a
   shortest path, unreachable and phantom destinations withdrawn), and further fetches keep them *)
Theorem dv_self_stabilises : forall S n evs,
  net_ok S -> settled (topo_of S) = true ->
  (N.to_nat INF + maxdist (topo_of S) <= n)%nat -> arounds (topo_of S) n S evs ->
  converged (run S evs) = true.
Proof. exact self_stabilises_converged. Qed.
Print Assumptions dv_self_stabilises.

(* rounds of atomic fetches (the decidable Spec.is_round) are rounds; so the above holds for them *)
Theorem sync_rounds_are_rounds : forall g n evs, nrounds g n evs -> forall S, arounds g n S evs.
Proof. exact nrounds_arounds. Qed.
Print Assumptions sync_rounds_are_rounds.

Theorem dv_self_stabilises_sync : forall S n evs,
  net_ok S -> settled (topo_of S) = true ->
  (N.to_nat INF + maxdist (topo_of S) <= n)%nat -> nrounds (topo_of S) n evs ->
  converged (run S evs) = true.
Proof. exact (fun S n evs Hok Hs Hn Hr => self_stabilises_converged S n evs Hok Hs Hn (nrounds_arounds _ n evs Hr S)). Qed.
Print Assumptions dv_self_stabilises_sync.

(* what the spec oracle evaluates on the implementation's tables (convergedw: cost = hop distance, next hop ANY neighbour
   one hop closer, nothing else present) is implied by the theorems' conclusion *)
Theorem converged_implies_oracle_predicate : forall S, converged S = true -> convergedw S = true.
Proof. exact converged_weak. Qed.
Print Assumptions converged_implies_oracle_predicate.

(* re-convergence after any link or router loss: the same from the state left by any history *)
Theorem dv_reconverges : forall hist n evs,
  let S := run [] hist in
  settled (topo_of S) = true ->
  (N.to_nat INF + maxdist (topo_of S) <= n)%nat -> arounds (topo_of S) n S evs ->
  converged (run S evs) = true.
Proof. exact reconverges_after_any_history. Qed.
Print Assumptions dv_reconverges.

(* the change flag is sound: an event (ribUpdate, dead-neighbour sweep, ...) that reports "no change" leaves every
   router's advertisement exactly as it was — so a neighbour that fetched the advertisement at the last flagged
   change holds the current one (the implementation-side basis of the fair-schedule assumption) *)
Theorem change_flag_sound : forall S e i r r', net_ok S -> snd (step S e) = false ->
  getr S i = Some r -> getr (fst (step S e)) i = Some r' ->
  forall a, In a (advert (rrib r)) <-> In a (advert (rrib r')).
Proof. exact step_flag_sound. Qed.
Print Assumptions change_flag_sound.

(* quiescence: a well-formed settled network in which every router has processed the current advertisement of each of
   its neighbours (so that, the change flag being sound, no router has anything left to announce or fetch) holds the
   shortest-path tables — the protocol cannot come to rest anywhere else *)
Theorem dv_quiescent_is_converged : forall S,
  net_ok S -> settled (topo_of S) = true -> fixedb S = true -> converged S = true.
Proof. exact quiescent_is_converged. Qed.
Print Assumptions dv_quiescent_is_converged.

(* the whole state comes to rest: from ANY well-formed state, 2 INF + maxdist + 1 rounds of any fair (asynchronous)
   schedule later, and ever after, every router has processed the current advertisement of each of its neighbours —
   processing them again changes no stored cost, so nothing is left to announce — and the tables are converged *)
Theorem dv_reaches_fixed_point : forall S n evs,
  net_ok S -> settled (topo_of S) = true ->
  (2 * N.to_nat INF + maxdist (topo_of S) + 1 <= n)%nat -> arounds (topo_of S) n S evs ->
  fixedb (run S evs) = true /\ converged (run S evs) = true.
Proof. exact reaches_full_fixed_point. Qed.
Print Assumptions dv_reaches_fixed_point.

(* ---- the sequence-number and liveness layer (ProtoModel.v: advertSyncOnInterest, advertDataHandler,
        checkDeadNeighbors with the real clock test) ---- *)

(* advertisement Data whose sequence number is not the latest one announced by that neighbour (delayed, reordered,
   or for a neighbour that is gone) leaves the whole state unchanged and flags nothing *)
Theorem stale_data_ignored : forall P i j s adv,
  pget (i, j) (nseq P) <> s -> pstep P (PData i j s adv) = (P, false).
Proof. exact stale_data_ignored_gen. Qed.
Print Assumptions stale_data_ignored.

(* ... and Data for the current sequence number is exactly a Deliver of the table-level model: the Deliver events of
   the convergence theorems are the ones that passed this guard (ptrace) *)
Theorem current_data_is_a_deliver : forall P i j s adv ri,
  getr (base P) i = Some ri -> In j (nbrs ri) -> pget (i, j) (nseq P) = s ->
  ptrace P (PData i j s adv) = [Deliver i j adv] /\
  base (fst (pstep P (PData i j s adv))) = fst (step (base P) (Deliver i j adv)) /\
  nseq (fst (pstep P (PData i j s adv))) = nseq P.
Proof. exact current_data_is_deliver. Qed.
Print Assumptions current_data_is_a_deliver.

(* every protocol run is a table-level run: well-formedness in every reachable protocol state, and
   self-stabilisation stated on the table-level events the protocol run actually executes *)
Theorem protocol_well_formed : forall evs, net_ok (base (prun pinit evs)).
Proof. exact prun_ok. Qed.
Print Assumptions protocol_well_formed.

Theorem dv_protocol_self_stabilises : forall P n evs,
  net_ok (base P) -> settled (topo_of (base P)) = true ->
  (N.to_nat INF + maxdist (topo_of (base P)) <= n)%nat ->
  arounds (topo_of (base P)) n (base P) (ptrace_all P evs) ->
  converged (base (prun P evs)) = true.
Proof. exact protocol_self_stabilises. Qed.
Print Assumptions dv_protocol_self_stabilises.

(* liveness: a Sync Interest refreshes lastSeen whatever its sequence number (also an unchanged one), and the sweep
   removes only neighbours silent for longer than the dead interval — a live, quiet neighbour is never declared dead *)
Theorem heartbeat_refreshes_liveness : forall P i j s ri,
  getr (base P) i = Some ri -> i <> j ->
  pget (i, j) (seen (fst (pstep P (PSync i j s)))) = now P.
Proof. exact sync_refreshes_liveness. Qed.
Print Assumptions heartbeat_refreshes_liveness.

Theorem quiet_live_neighbour_never_dead : forall P i j s t dead ri,
  net_ok (base P) -> getr (base P) i = Some ri -> In j (nbrs ri) -> i <> j ->
  t <= now P + dead ->
  let P1 := fst (pstep P (PSync i j s)) in
  let P2 := fst (pstep P1 (PClock t)) in
  In j (nbrs_of (base (fst (pstep P2 (PSweep i dead)))) i).
Proof. exact quiet_live_neighbour_kept. Qed.
Print Assumptions quiet_live_neighbour_never_dead.

(* the timing obligation behind "stable links": heartbeat period + latency variation <= dead interval; then no sweep,
   whenever and however often it runs, removes a neighbour whose heartbeats keep arriving (the period and the variation are
   observed on the implementation in the protocol-level quiet runs: oracles heartbeat_too_slow, table_changed_while_quiet) *)
Theorem heartbeats_survive_every_sweep : forall P i j period jitter dead ri,
  net_ok (base P) -> getr (base P) i = Some ri -> In j (nbrs ri) ->
  period + jitter <= dead ->
  now P <= pget (i, j) (seen P) + period + jitter ->
  In j (nbrs_of (base (fst (pstep P (PSweep i dead)))) i).
Proof. exact ProtoFacts.heartbeats_survive_every_sweep. Qed.
Print Assumptions heartbeats_survive_every_sweep.

(* ---- failed fetches ---- *)
(* a failed advertisement fetch (NACK while the route to the neighbour is not registered yet, cancelled, timed out)
   changes nothing: the announced sequence number stays recorded — later Sync Interests with the same number are
   "nothing changed" — and the fetch stays outstanding (advertDataFetch must re-issue it) *)
Theorem fetch_failure_changes_nothing : forall P i j s, pstep P (PFetchFail i j s) = (P, false).
Proof. exact fetch_fail_changes_nothing. Qed.
Print Assumptions fetch_failure_changes_nothing.

Theorem sync_leaves_fetch_outstanding : forall P i j s ri,
  getr (base P) i = Some ri -> i <> j -> (~ In j (nbrs ri) \/ pget (i, j) (nseq P) < s) ->
  pget (i, j) (fetching (fst (pstep P (PSync i j s)))) = s.
Proof. exact sync_starts_fetch. Qed.
Print Assumptions sync_leaves_fetch_outstanding.

(* fetch_eventually_retried is a premise of dv_protocol_self_stabilises, made explicit: a round of the table-level trace
   serves every adjacent pair, and the only protocol events that serve (i, j) are advertisement Data of j arriving at i
   (or the harness-driven Fetch / Deliver); a pair whose failed fetch is never re-issued and answered is never served *)
Theorem unretried_fetch_is_never_served : forall evs P i j,
  (forall e, In e evs -> ~ serves i j e) -> existsb (xfers (i, j)) (ptrace_all P evs) = false.
Proof. exact unretried_fetch_never_served. Qed.
Print Assumptions unretried_fetch_is_never_served.

Theorem fair_round_needs_fetch_retried : forall g P evs i j,
  In j (nb g i) -> around g (base P) (ptrace_all P evs) -> exists e, In e evs /\ serves i j e.
Proof. exact fair_rounds_need_fetch_retry. Qed.
Print Assumptions fair_round_needs_fetch_retried.

(* ---- the sender side: restarts ---- *)
(* the unit of the initial sequence number in nanoseconds of the clock, as measured on a real NewRouter on this run:
   a millisecond or finer (milliseconds 1000000, microseconds 1000, ...) — what restart_seq_fresh_up_to_a_millisecond needs *)
Theorem seq_unit_at_most_a_millisecond : 0 < seq_clock_div <= 1000000.
Proof. exact (conj eq_refl (fun H => match H with eq_refl => I end)) || (split; [reflexivity | discriminate]). Qed.
Print Assumptions seq_unit_at_most_a_millisecond.

(* NewRouter takes the clock (divided by the unit); every reported table change adds one *)
Theorem new_router_sequence : forall div P i, getr (base P) i = None ->
  sget i (myseq (fst (pstep_gen div P (PBase (RouterUp i))))) = now P / div.
Proof. exact router_up_seq. Qed.
Print Assumptions new_router_sequence.

Theorem table_change_bumps_sequence : forall div P e i, actor e = Some i ->
  sget i (myseq (fst (pstep_gen div P e))) =
  if snd (pstep_gen div P e) then sget i (myseq P) + 1 else sget i (myseq P).
Proof. exact change_bumps_seq. Qed.
Print Assumptions table_change_bumps_sequence.

(* the obligation of a restart: restart_seq_fresh div t0 k t1 := t0/div + k < t1/div (the new incarnation's first
   sequence number exceeds everything the old one, started at t0 with k changes since, announced).  If it holds the
   neighbour records the new number (and then processes its Data, current_data_is_a_deliver); if it does not, the Sync
   Interests of the new incarnation are taken for "nothing changed": tables and recorded number stay, for ever *)
Theorem restart_noticed_if_fresh : forall P i j s ri,
  getr (base P) i = Some ri -> In j (nbrs ri) -> i <> j -> pget (i, j) (nseq P) < s ->
  pget (i, j) (nseq (fst (pstep P (PSync i j s)))) = s.
Proof. exact fresh_restart_noticed. Qed.
Print Assumptions restart_noticed_if_fresh.

Theorem restart_unnoticed_if_not_fresh : forall P i j s ri,
  getr (base P) i = Some ri -> In j (nbrs ri) -> s <= pget (i, j) (nseq P) ->
  base (fst (pstep P (PSync i j s))) = base P /\ nseq (fst (pstep P (PSync i j s))) = nseq P.
Proof. exact stale_restart_unnoticed. Qed.
Print Assumptions restart_unnoticed_if_not_fresh.

(* any unit satisfies the obligation whenever fewer table changes happened than whole units have passed; with the clock
   in nanoseconds, every unit of at most a millisecond does whenever fewer changes happened than milliseconds passed ... *)
Theorem restart_seq_fresh_with_any_unit : forall div t0 k t1, 0 < div -> t0 <= t1 -> k < (t1 - t0) / div ->
  restart_seq_fresh div t0 k t1.
Proof. exact restart_seq_fresh_any_unit. Qed.
Print Assumptions restart_seq_fresh_with_any_unit.

Theorem restart_seq_fresh_up_to_a_millisecond : forall div t0 k t1, 0 < div -> div <= 1000000 -> t0 <= t1 ->
  k < (t1 - t0) / 1000000 -> restart_seq_fresh div t0 k t1.
Proof. exact restart_seq_fresh_up_to_ms. Qed.
Print Assumptions restart_seq_fresh_up_to_a_millisecond.

(* ... seconds do not: 5 changes, restart 3 s later, well inside the 30 s dead interval *)
Theorem restart_seq_seconds_refuted : exists t0 k t1,
  k < (t1 - t0) / 1000000 /\ t1 - t0 < 30000000000 /\ ~ restart_seq_fresh 1000000000 t0 k t1.
Proof. exact ProtoFacts.restart_seq_seconds_refuted. Qed.
Print Assumptions restart_seq_seconds_refuted.

(* in the model: line 1 - 2 - 3, router 2 makes six table changes and restarts 3 s later with router 1 as its only
   neighbour (clock and unit in abstract ticks: unit 1 = fine, unit 1000 = coarse).  Fine: router 1 fetches the new advertisement and drops its route to 3.  Seconds: the new number
   (103) is below the remembered one (106), router 1 keeps the route to 3 through 2. *)
Example c18_restart_example :
  ex_restart 1 = ([(1, (0, 1)); (2, (1, 2))], 100006, 103000) /\
  ex_restart 1000 = ([(1, (0, 1)); (2, (1, 2)); (3, (2, 2))], 106, 103).
Proof. vm_compute. split; reflexivity. Qed.

(* non-vacuity: a triangle 1-2-3 with a fourth router behind 3.  Router 4 disappears and 3 notices: the state is
   well formed and settled but not converged (1 and 2 still route to 4), three rounds later the routers are
   counting to infinity, and after INF + maxdist = 17 rounds the tables are the shortest-path tables. *)
Definition ex_tri : list (node * node) := [(1,2);(2,1);(1,3);(3,1);(2,3);(3,2)].
Definition ex_round : list event := map (fun p => Fetch (fst p) (snd p)) ex_tri.
Definition ex_hist : list event :=
  [RouterUp 1; RouterUp 2; RouterUp 3; RouterUp 4] ++
  map (fun p => NbrUp (fst p) (snd p)) (ex_tri ++ [(3,4);(4,3)]) ++
  [Fetch 3 4; Fetch 4 3] ++ ex_round ++ ex_round ++ ex_round ++ [RouterDown 4; NbrDead 3 4].

Example c18_example :
  let S := run [] ex_hist in
  settled (topo_of S) = true /\ maxdist (topo_of S) = 1%nat /\ is_round (topo_of S) ex_round = true /\
  converged S = false /\
  map (fun r => aget 4 (rib_entries (rrib r))) (run S (concat (repeat ex_round 3))) = [Some (8, 3); Some (6, 1); Some (7, 2)] /\
  converged (run S (concat (repeat ex_round 17))) = true /\
  fixedb S = false /\ fixedb (run S (concat (repeat ex_round 17))) = true.
Proof. vm_compute. repeat split; reflexivity. Qed.

(* non-vacuity of asynchronous rounds: two routers; router 1 fetches, then router 2 processes the advertisement
   router 1 had at the START of the round — stale (router 1 has changed since) but generated within the round;
   a late update for a neighbour that is not (any more) in the table happens in between. *)
Definition ex2_S0 : net := run [] [RouterUp 1; RouterUp 2; NbrUp 1 2; NbrUp 2 1].
Definition ex2_adv0 : list adv_entry :=
  match getr ex2_S0 1 with Some r => advert (rrib r) | None => [] end.
Definition ex2_round : list event := [Fetch 1 2; LateUpdate 2 9 ex2_adv0; Deliver 2 1 ex2_adv0].

Example c18_async_example :
  around (topo_of ex2_S0) ex2_S0 ex2_round /\
  (forall r, getr (run ex2_S0 [Fetch 1 2]) 1 = Some r -> advert (rrib r) <> ex2_adv0) /\
  maxdist (topo_of ex2_S0) = 1%nat /\ converged ex2_S0 = false /\ converged (run ex2_S0 ex2_round) = true.
Proof.
  split; [|split; [|vm_compute; repeat split; reflexivity]].
  - split.
    + simpl. split; [exact I|]. split; [exact I|]. split; [|exact I].
      exists ex2_S0. eexists. split; [right; right; left; reflexivity|]. split; [vm_compute; reflexivity | vm_compute; reflexivity].
    + intros i j He. unfold E, nb in He. vm_compute in He.
      destruct i as [|[p|p|]]; try destruct p; try (destruct He; fail);
        destruct He as [<- | []]; vm_compute; reflexivity.
  - intros r Hr. vm_compute in Hr. inversion Hr; subst r. vm_compute. discriminate.
Qed.
