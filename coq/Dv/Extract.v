(* Dv/Extract.v — extraction of the executable model and the spec oracle for the correspondence runner.
   ExtrOcamlBasic only: bool, option, unit, list, prod, sumbool, sumor -> OCaml natives; N/positive/nat stay Coq datatypes. *)
From Coq Require Import Extraction ExtrOcamlBasic.
From Dv Require Import Model Spec ProtoModel.
Extraction Language OCaml.
Extraction "dv_model.ml"
  pstep pinit ptrace pget sget sset victims
  refresh_fold
  step run init_router getr advert rib_entries rib_update rib_dead
  topo_of settled all_pairs distb maxdist table_ok table_okw adv_ok converged convergedw hops_okb fixedb cost_via offered is_round is_growth alive nb
  INF N.add N.mul N.of_nat N.to_nat N.eqb N.ltb N.leb N.div N.modulo N.compare.
