(* Dv/Refresh.v — RibEntry.refresh computes the two least (cost, next-hop hash) pairs among the costs below
   infinity, whatever the order in which the Go map is iterated ("ties are broken the same way every time"). *)
From Coq Require Import Lia ZifyBool ZifyN ZArith Permutation.
From Dv Require Import Model.
Open Scope N_scope.

(* the only facts about the translated constants that the proofs use *)
Lemma INF_pos : 0 < INF. Proof. reflexivity. Qed.
Lemma INF_small : INF + 1 < 18446744073709551616. Proof. reflexivity. Qed.
Lemma local_cost_val : local_cost = 1. Proof. reflexivity. Qed.
Global Opaque INF.

Lemma in_snoc : forall (A : Type) (l : list A) (x y : A), In x (l ++ [y]) <-> In x l \/ x = y.
Proof.
  intros A l x y. rewrite in_app_iff. simpl. intuition.
Qed.

Ltac inv_pair :=
  repeat match goal with
  | H : (_, _) = (_, _) |- _ => inversion H; subst; clear H
  end.

(* ---- for an ARBITRARY tie-break: any injective rank of the next hops (smaller rank wins) ---- *)
Section AnyTieBreak.
Variable key : node -> Z.
Hypothesis key_inj : forall a b, key a = key b -> a = b.

(* (c1, h1) <= (c2, h2): by cost, ties by rank *)
Definition lex_le_k (c1 : N) (h1 : node) (c2 : N) (h2 : node) : Prop := c1 < c2 \/ (c1 = c2 /\ (key h1 <= key h2)%Z).

(* (l1, h1) is the least (cost, hop) pair of cs among costs below INF; (INF, 0) if there is none *)
Definition first_ok_k (cs : list (node * N)) (l1 : N) (h1 : node) : Prop :=
  (l1 = INF /\ h1 = 0 /\ forall h c, In (h, c) cs -> INF <= c) \/
  (l1 < INF /\ In (h1, l1) cs /\ forall h c, In (h, c) cs -> lex_le_k l1 h1 c h).

(* (l2, h2) is the least pair among the hops other than h1 *)
Definition second_ok_k (cs : list (node * N)) (h1 : node) (l2 : N) (h2 : node) : Prop :=
  (l2 = INF /\ h2 = 0 /\ forall h c, In (h, c) cs -> h <> h1 -> INF <= c) \/
  (l2 < INF /\ In (h2, l2) cs /\ h2 <> h1 /\ forall h c, In (h, c) cs -> h <> h1 -> lex_le_k l2 h2 c h).

Definition two_least_k (cs : list (node * N)) (b : best4) : Prop :=
  let '(l1, h1, l2, h2) := b in first_ok_k cs l1 h1 /\ second_ok_k cs h1 l2 h2.

Lemma two_least_nil_k : two_least_k [] (INF, 0, INF, 0).
Proof. split; left; repeat split; intros h c []. Qed.

(* one loop iteration keeps the invariant, provided the hop is new (Go map keys are unique) *)
Lemma refresh_step_ok_k : forall cs acc hop cost,
  two_least_k cs acc -> ~ In hop (map fst cs) ->
  two_least_k (cs ++ [(hop, cost)]) (refresh_step_k key acc (hop, cost)).
Proof.
  intros cs [[[l1 h1] l2] h2] hop cost [F S] Hnew.
  assert (Hne : forall c, ~ In (hop, c) cs).
  { intros c Hin. apply Hnew. apply in_map_iff. exists (hop, c). auto. }
  unfold refresh_step_k.
  destruct ((cost <? l1) || ((cost =? l1) && (cost <? INF) && (key hop <? key h1)%Z)) eqn:C1.
  - (* new best; old best becomes second *)
    assert (Hlt : cost < l1 \/ (cost = l1 /\ cost < INF /\ (key hop < key h1)%Z)) by lia.
    assert (Hl1 : l1 <= INF) by (destruct F as [(-> & _) | (? & _)]; lia).
    assert (Hc : cost < INF).
    { destruct F as [(-> & -> & _) | (? & _)]; lia. }
    split.
    + right. split; [exact Hc|]. split; [apply in_snoc; auto|].
      intros h c Hin. apply in_snoc in Hin. destruct Hin as [Hin | Heq].
      * destruct F as [(-> & -> & Fa) | (Fl & Fi & Fa)].
        -- specialize (Fa _ _ Hin). unfold lex_le_k. lia.
        -- specialize (Fa _ _ Hin). unfold lex_le_k in *. lia.
      * inv_pair. unfold lex_le_k. lia.
    + destruct F as [(-> & -> & Fa) | (Fl & Fi & Fa)].
      * left. repeat split; auto.
        intros h c Hin Hnh. apply in_snoc in Hin. destruct Hin as [Hin | Heq].
        -- eapply Fa; eauto.
        -- inv_pair. congruence.
      * right. split; [exact Fl|]. split; [apply in_snoc; auto|]. split.
        { intros ->. exact (Hne _ Fi). }
        intros h c Hin Hnh. apply in_snoc in Hin. destruct Hin as [Hin | Heq].
        -- apply (Fa _ _ Hin).
        -- inv_pair. congruence.
  - destruct ((cost <? l2) || ((cost =? l2) && (cost <? INF) && (key hop <? key h2)%Z)) eqn:C2.
    + (* new second best *)
      assert (Hlt : cost < l2 \/ (cost = l2 /\ cost < INF /\ (key hop < key h2)%Z)) by lia.
      assert (Hge : l1 < cost \/ (l1 = cost /\ (INF <= cost \/ (key h1 <= key hop)%Z))) by lia.
      assert (Hl2 : l2 <= INF) by (destruct S as [(-> & _) | (? & _)]; lia).
      assert (Hc : cost < INF).
      { destruct S as [(-> & -> & _) | (? & _)]; lia. }
      assert (Hf : l1 < INF /\ In (h1, l1) cs /\ forall h c, In (h, c) cs -> lex_le_k l1 h1 c h).
      { destruct F as [(-> & -> & Fa) | Fr]; [lia | exact Fr]. }
      destruct Hf as (Fl & Fi & Fa).
      assert (Hhop : hop <> h1) by (intros ->; exact (Hne _ Fi)).
      split.
      * right. split; [exact Fl|]. split; [apply in_snoc; auto|].
        intros h c Hin. apply in_snoc in Hin. destruct Hin as [Hin | Heq].
        -- apply (Fa _ _ Hin).
        -- inv_pair. unfold lex_le_k. lia.
      * right. split; [exact Hc|]. split; [apply in_snoc; auto|]. split; [exact Hhop|].
        intros h c Hin Hnh. apply in_snoc in Hin. destruct Hin as [Hin | Heq].
        -- destruct S as [(-> & -> & Sa) | (Sl & Si & Sn & Sa)].
           ++ specialize (Sa _ _ Hin Hnh). unfold lex_le_k. lia.
           ++ specialize (Sa _ _ Hin Hnh). unfold lex_le_k in *. lia.
        -- inv_pair. unfold lex_le_k. lia.
    + (* unchanged *)
      assert (Hge1 : l1 < cost \/ (l1 = cost /\ (INF <= cost \/ (key h1 <= key hop)%Z))) by lia.
      assert (Hge2 : l2 < cost \/ (l2 = cost /\ (INF <= cost \/ (key h2 <= key hop)%Z))) by lia.
      split.
      * destruct F as [(-> & -> & Fa) | (Fl & Fi & Fa)].
        -- left. repeat split; auto.
           intros h c Hin. apply in_snoc in Hin. destruct Hin as [Hin | Heq].
           ++ eapply Fa; eauto.
           ++ inv_pair. lia.
        -- right. split; [exact Fl|]. split; [apply in_snoc; auto|].
           intros h c Hin. apply in_snoc in Hin. destruct Hin as [Hin | Heq].
           ++ apply (Fa _ _ Hin).
           ++ inv_pair. unfold lex_le_k. lia.
      * destruct S as [(-> & -> & Sa) | (Sl & Si & Sn & Sa)].
        -- left. repeat split; auto.
           intros h c Hin Hnh. apply in_snoc in Hin. destruct Hin as [Hin | Heq].
           ++ eapply Sa; eauto.
           ++ inv_pair. lia.
        -- right. split; [exact Sl|]. split; [apply in_snoc; auto|]. split; [exact Sn|].
           intros h c Hin Hnh. apply in_snoc in Hin. destruct Hin as [Hin | Heq].
           ++ apply (Sa _ _ Hin Hnh).
           ++ inv_pair. unfold lex_le_k. lia.
Qed.

Lemma refresh_fold_gen_k : forall cs2 cs1 acc,
  NoDup (map fst (cs1 ++ cs2)) -> two_least_k cs1 acc ->
  two_least_k (cs1 ++ cs2) (fold_left (refresh_step_k key) cs2 acc).
Proof.
  induction cs2 as [|[hop cost] cs2 IH]; intros cs1 acc Hnd Hacc.
  - rewrite app_nil_r. exact Hacc.
  - simpl. replace (cs1 ++ (hop, cost) :: cs2) with ((cs1 ++ [(hop, cost)]) ++ cs2)
      by (rewrite <- app_assoc; reflexivity).
    apply IH.
    + rewrite <- app_assoc. exact Hnd.
    + apply refresh_step_ok_k; [exact Hacc|].
      rewrite map_app in Hnd. simpl in Hnd. apply NoDup_remove_2 in Hnd.
      intro Hin. apply Hnd. apply in_or_app. left. exact Hin.
Qed.

(* refresh computes the two least pairs *)
Lemma refresh_fold_k_spec : forall cs, NoDup (map fst cs) -> two_least_k cs (refresh_fold_k key cs).
Proof.
  intros cs Hnd. unfold refresh_fold_k.
  apply (refresh_fold_gen_k cs [] (INF, 0, INF, 0)); [exact Hnd | exact two_least_nil_k].
Qed.

(* the two least pairs are unique *)
Lemma two_least_unique_k : forall cs b b', two_least_k cs b -> two_least_k cs b' -> b = b'.
Proof.
  intros cs [[[l1 h1] l2] h2] [[[l1' h1'] l2'] h2'] [F S] [F' S'].
  assert (E1 : l1 = l1' /\ h1 = h1').
  { destruct F as [(-> & -> & Fa) | (Fl & Fi & Fa)]; destruct F' as [(-> & -> & Fa') | (Fl' & Fi' & Fa')].
    - auto.
    - specialize (Fa _ _ Fi'). lia.
    - specialize (Fa' _ _ Fi). lia.
    - specialize (Fa _ _ Fi'). specialize (Fa' _ _ Fi). unfold lex_le_k in *.
      assert (l1 = l1') by lia. split; [assumption|]. apply key_inj. lia. }
  destruct E1 as [-> ->].
  assert (E2 : l2 = l2' /\ h2 = h2').
  { destruct S as [(-> & -> & Sa) | (Sl & Si & Sn & Sa)]; destruct S' as [(-> & -> & Sa') | (Sl' & Si' & Sn' & Sa')].
    - auto.
    - specialize (Sa _ _ Si' Sn'). lia.
    - specialize (Sa' _ _ Si Sn). lia.
    - specialize (Sa _ _ Si' Sn'). specialize (Sa' _ _ Si Sn). unfold lex_le_k in *.
      assert (l2 = l2') by lia. split; [assumption|]. apply key_inj. lia. }
  destruct E2 as [-> ->]. reflexivity.
Qed.

Lemma two_least_perm_k : forall cs cs' b, Permutation cs cs' -> two_least_k cs b -> two_least_k cs' b.
Proof.
  intros cs cs' [[[l1 h1] l2] h2] P [F S].
  assert (I : forall x, In x cs <-> In x cs').
  { intro x. split; apply Permutation_in; [exact P | apply Permutation_sym; exact P]. }
  split.
  - destruct F as [(E1 & E2 & Fa) | (Fl & Fi & Fa)].
    + left. repeat split; auto. intros h c Hin. apply (Fa h c). apply I. exact Hin.
    + right. split; [exact Fl|]. split; [apply I; exact Fi|]. intros h c Hin. apply Fa. apply I. exact Hin.
  - destruct S as [(E1 & E2 & Sa) | (Sl & Si & Sn & Sa)].
    + left. repeat split; auto. intros h c Hin. apply (Sa h c). apply I. exact Hin.
    + right. split; [exact Sl|]. split; [apply I; exact Si|]. split; [exact Sn|].
      intros h c Hin. apply Sa. apply I. exact Hin.
Qed.

(* whatever order the Go map is iterated in, refresh yields the same lowest costs and next hops *)
Theorem refresh_fold_order_independent_k : forall cs cs',
  NoDup (map fst cs) -> Permutation cs cs' -> refresh_fold_k key cs = refresh_fold_k key cs'.
Proof.
  intros cs cs' Hnd P.
  apply (two_least_unique_k cs').
  - apply (two_least_perm_k cs); [exact P | apply refresh_fold_k_spec; exact Hnd].
  - apply refresh_fold_k_spec.
    apply (Permutation_NoDup (Permutation_map fst P)). exact Hnd.
Qed.

End AnyTieBreak.

(* ---- the tie-break of the implementation (smaller or larger name hash, as measured) is one of them ---- *)
Lemma tie_key_inj : forall a b, tie_key a = tie_key b -> a = b.
Proof. intros a b. unfold tie_key. destruct tie_smaller_wins; lia. Qed.

Definition lex_le := lex_le_k tie_key.
Definition first_ok := first_ok_k tie_key.
Definition second_ok := second_ok_k tie_key.
Definition two_least := two_least_k tie_key.

Lemma refresh_fold_spec : forall cs, NoDup (map fst cs) -> two_least cs (refresh_fold cs).
Proof. exact (refresh_fold_k_spec tie_key tie_key_inj). Qed.

Lemma two_least_unique : forall cs b b', two_least cs b -> two_least cs b' -> b = b'.
Proof. exact (two_least_unique_k tie_key tie_key_inj). Qed.

Lemma two_least_perm : forall cs cs' b, Permutation cs cs' -> two_least cs b -> two_least cs' b.
Proof. exact (two_least_perm_k tie_key). Qed.

Theorem refresh_fold_order_independent : forall cs cs',
  NoDup (map fst cs) -> Permutation cs cs' -> refresh_fold cs = refresh_fold cs'.
Proof. exact (refresh_fold_order_independent_k tie_key tie_key_inj). Qed.

Global Opaque tie_key.
