(* Fw/ScopeDefs.v — the small expression language into which translators/fw/scope translates the scope-setting statements of the
   transport constructors (fw/face/*-transport.go) and of defn.URI.Scope() (fw/defn/uri.go).  No proofs. *)
From Coq Require Import List NArith Bool.
Import ListNotations.
Open Scope N_scope.

Inductive sexpr :=
| SLocal | SNonLocal
| SIfLoop (a b : sexpr)      (* if the remote address parsed from the remote URI is a loopback IP then a else b *)
| SUriScope                  (* remoteURI.Scope(): the translated switch of defn.URI.Scope() for the URI's type *)
| SOther.                    (* not understood by the translator *)

(* value of an expression: Some true = Local, Some false = NonLocal, None = not determined by this model *)
Fixpoint seval_uri (e : sexpr) (loopback : bool) : option bool :=
  match e with
  | SLocal => Some true
  | SNonLocal => Some false
  | SIfLoop a b => if loopback then seval_uri a loopback else seval_uri b loopback
  | SUriScope | SOther => None
  end.

Fixpoint lookup_n {A} (l : list (N * A)) (k : N) : option A :=
  match l with [] => None | (j, a) :: r => if j =? k then Some a else lookup_n r k end.

Fixpoint seval (cases : list (N * sexpr)) (dflt : sexpr) (utype : N) (e : sexpr) (loopback : bool) : option bool :=
  match e with
  | SLocal => Some true
  | SNonLocal => Some false
  | SIfLoop a b => if loopback then seval cases dflt utype a loopback else seval cases dflt utype b loopback
  | SUriScope => seval_uri (match lookup_n cases utype with Some c => c | None => dflt end) loopback
  | SOther => None
  end.
