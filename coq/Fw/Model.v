(* Fw/Model.v — executable model of one YaNFD forwarding thread (fw/fw/thread.go, strategy.go, bestroute.go,
   multicast.go, fw/table/pit-cs.go, pit-cs-tree.go, dead-nonce-list.go, cs-lru.go, network-region.go) and of the
   link-service dispatch in front of it (fw/face/link-service.go dispatchData, fw/dispatch/fw.go GetFWThread).
   No proofs in this file.

   Conventions
   * a name component is (TLV type, interned value id); value id 0 is the byte string "localhost";
   * time is an N (nanoseconds since the start of the history) carried by every event;
   * tables keyed by 64-bit hashes in the code (PIT-CS tree children, csMap, dead nonce list) are keyed by the
     name itself (collision-freeness on the names of a history is an assumption, checked by the harness);
   * the FIB and the strategy-choice table are spec-level maps with longest-prefix match (their agreement with
     the Go tables is property C05);
   * nondeterminism of the implementation (fresh random PIT token, tie among equal-cost next hops after the
     unstable sort, child chosen by a CanBePrefix cache lookup, pop order of equal-priority PIT expirations)
     is an oracle input [choice]; the model checks that it is admissible and reports that in [r_ok]. *)
From Coq Require Import List NArith Arith Bool.
From Base Require Import Bytes.
From Fw Require Import GenConsts.
Import ListNotations.
Open Scope N_scope.

(* ------------------------------------------------------------------------------------------------ names *)
Definition comp := (N * N)%type.
Definition name := list comp.

Definition comp_eqb (a b : comp) : bool := (fst a =? fst b) && (snd a =? snd b).
Definition name_eqb : name -> name -> bool := list_eqb comp_eqb.

Fixpoint is_prefix (p n : name) : bool :=
  match p, n with
  | [], _ => true
  | a :: p', b :: n' => comp_eqb a b && is_prefix p' n'
  | _ :: _, [] => false
  end.

(* a name under /localhost: first component is the generic (type 8) component "localhost" *)
Definition spec_localhost (n : name) : bool :=
  match n with c :: _ => (fst c =? 8) && (snd c =? 0) | [] => false end.
(* fw/fw/thread.go isLocalhost: generic first component whose value is LOCALHOST *)
Definition code_localhost (n : name) : bool :=
  match n with c :: _ => (fst c =? 8) && (snd c =? 0) | [] => false end.

(* ------------------------------------------------------------------------------------------------ faces *)
Inductive linktype := P2P | MultiAccess | AdHoc.
Record face := { f_id : N; f_local : bool; f_link : linktype }.

Definition is_adhoc (l : linktype) : bool := match l with AdHoc => true | _ => false end.

Fixpoint get_face (fs : list face) (id : N) : option face :=
  match fs with
  | [] => None
  | f :: r => if f_id f =? id then Some f else get_face r id
  end.

Definition del_face (fs : list face) (id : N) : list face := filter (fun f => negb (f_id f =? id)) fs.
Definition add_face (fs : list face) (f : face) : list face := f :: del_face fs (f_id f).

(* ------------------------------------------------------------------------------------------------ FIB / strategy choice (spec-level) *)
Definition nexthop := (N * N)%type.               (* (face, cost) *)
Definition fibtab := list (name * list nexthop).
Definition strattab := list (name * N).            (* 0 = best-route, 1 = multicast *)

Fixpoint find_name {A} (tbl : list (name * A)) (n : name) : option A :=
  match tbl with
  | [] => None
  | (m, a) :: r => if name_eqb m n then Some a else find_name r n
  end.

Fixpoint set_name {A} (tbl : list (name * A)) (n : name) (a : A) : list (name * A) :=
  match tbl with
  | [] => [(n, a)]
  | (m, b) :: r => if name_eqb m n then (m, a) :: r else (m, b) :: set_name r n a
  end.

Definition del_name {A} (tbl : list (name * A)) (n : name) : list (name * A) :=
  filter (fun e => negb (name_eqb (fst e) n)) tbl.

(* longest prefix of n (lengths k, k-1, .., 0) that has an acceptable entry *)
Fixpoint lpm {A} (tbl : list (name * A)) (good : A -> bool) (n : name) (k : nat) : option A :=
  let down := match k with O => None | S k' => lpm tbl good n k' end in
  match find_name tbl (firstn k n) with
  | Some a => if good a then Some a else down
  | None => down
  end.

Definition nonempty {A} (l : list A) : bool := match l with [] => false | _ => true end.

(* FibStrategyTree.FindNextHopsEnc *)
Definition fib_nexthops (fib : fibtab) (n : name) : list nexthop :=
  match lpm fib nonempty n (length n) with Some l => l | None => [] end.

(* FindStrategyEnc; the root entry is initialised to best-route and never unset *)
Definition strat_of (st : strattab) (n : name) : N :=
  match lpm st (fun _ => true) n (length n) with Some s => s | None => 0 end.

Fixpoint nh_set (l : list nexthop) (f c : N) : list nexthop :=
  match l with
  | [] => [(f, c)]
  | (g, d) :: r => if g =? f then (g, c) :: r else (g, d) :: nh_set r f c
  end.
Definition nh_del (l : list nexthop) (f : N) : list nexthop := filter (fun h => negb (fst h =? f)) l.

Definition fib_ins (fib : fibtab) (n : name) (f c : N) : fibtab :=
  set_name fib n (nh_set (match find_name fib n with Some l => l | None => [] end) f c).
Definition fib_rem (fib : fibtab) (n : name) (f : N) : fibtab :=
  match find_name fib n with
  | Some l => match nh_del l f with [] => del_name fib n | l' => set_name fib n l' end
  | None => fib
  end.
Definition fib_clr (fib : fibtab) (n : name) : fibtab := del_name fib n.

(* ------------------------------------------------------------------------------------------------ PIT *)
Record inrec := { ir_face : N; ir_nonce : N; ir_at : N; ir_exp : N; ir_tok : bytes }.
Record outrec := { or_face : N; or_nonce : N; or_at : N; or_exp : N; or_name : name }.
Record pite := { pe_name : name; pe_cbp : bool; pe_mbf : bool; pe_hint : name (* [] = none *); pe_tok : N;
                 pe_ins : list inrec; pe_outs : list outrec; pe_sat : bool;
                 pe_q : option N (* priority in the expiry queue, None = not queued *) }.

Definition set_ins (e : pite) (l : list inrec) : pite :=
  {| pe_name := pe_name e; pe_cbp := pe_cbp e; pe_mbf := pe_mbf e; pe_hint := pe_hint e; pe_tok := pe_tok e;
     pe_ins := l; pe_outs := pe_outs e; pe_sat := pe_sat e; pe_q := pe_q e |}.
Definition set_outs (e : pite) (l : list outrec) : pite :=
  {| pe_name := pe_name e; pe_cbp := pe_cbp e; pe_mbf := pe_mbf e; pe_hint := pe_hint e; pe_tok := pe_tok e;
     pe_ins := pe_ins e; pe_outs := l; pe_sat := pe_sat e; pe_q := pe_q e |}.
Definition set_q (e : pite) (q : option N) : pite :=
  {| pe_name := pe_name e; pe_cbp := pe_cbp e; pe_mbf := pe_mbf e; pe_hint := pe_hint e; pe_tok := pe_tok e;
     pe_ins := pe_ins e; pe_outs := pe_outs e; pe_sat := pe_sat e; pe_q := q |}.
(* what processIncomingData leaves of a matched entry: expiry now, satisfied, records cleared *)
Definition satisfy (now : N) (e : pite) : pite :=
  {| pe_name := pe_name e; pe_cbp := pe_cbp e; pe_mbf := pe_mbf e; pe_hint := pe_hint e; pe_tok := pe_tok e;
     pe_ins := []; pe_outs := []; pe_sat := true; pe_q := Some now |}.

(* the aggregation key of InsertInterest: name, CanBePrefix, MustBeFresh, forwarding hint (nil and empty alike) *)
Definition key_match (n : name) (cbp mbf : bool) (h : name) (e : pite) : bool :=
  name_eqb (pe_name e) n && Bool.eqb (pe_cbp e) cbp && Bool.eqb (pe_mbf e) mbf && name_eqb (pe_hint e) h.

(* split the PIT at the first entry with the key *)
Fixpoint find_entry (n : name) (cbp mbf : bool) (h : name) (pit : list pite)
  : option (list pite * pite * list pite) :=
  match pit with
  | [] => None
  | e :: r => if key_match n cbp mbf h e then Some ([], e, r)
              else match find_entry n cbp mbf h r with
                   | Some (a, x, b) => Some (e :: a, x, b)
                   | None => None
                   end
  end.

Fixpoint get_in (l : list inrec) (f : N) : option inrec :=
  match l with [] => None | r :: t => if ir_face r =? f then Some r else get_in t f end.
Definition del_in (l : list inrec) (f : N) : list inrec := filter (fun r => negb (ir_face r =? f)) l.
Fixpoint get_out (l : list outrec) (f : N) : option outrec :=
  match l with [] => None | r :: t => if or_face r =? f then Some r else get_out t f end.
Fixpoint put_out (l : list outrec) (o : outrec) : list outrec :=
  match l with
  | [] => [o]
  | r :: t => if or_face r =? or_face o then o :: t else r :: put_out t o
  end.
Fixpoint put_in (l : list inrec) (r : inrec) : list inrec :=
  match l with
  | [] => [r]
  | x :: t => if ir_face x =? ir_face r then r :: t else x :: put_in t r
  end.

(* the lifetime assumed for an Interest without InterestLifetime: GenConsts.default_lifetime_in (InsertInRecord) and
   default_lifetime_out (InsertOutRecord), translated from the source *)

(* basePitEntry.InsertInRecord: the record of the face holds the nonce, times and PIT token of its latest Interest *)
Definition insert_inrec (now : N) (f nonce : N) (life : option N) (tok : bytes) (e : pite)
  : pite * bool * N :=
  let lt := match life with Some l => l | None => default_lifetime_in end in
  match get_in (pe_ins e) f with
  | None => (set_ins e (pe_ins e ++ [{| ir_face := f; ir_nonce := nonce; ir_at := now; ir_exp := now + lt; ir_tok := tok |}]),
             false, 0)
  | Some r => (set_ins e (put_in (pe_ins e)
                 {| ir_face := f; ir_nonce := nonce; ir_at := now; ir_exp := now + lt; ir_tok := tok |}),
               true, ir_nonce r)
  end.

(* nameTreePitEntry.InsertOutRecord *)
Definition insert_outrec (now : N) (f nonce : N) (life : option N) (n : name) (e : pite) : pite :=
  let lt := match life with Some l => l | None => default_lifetime_out end in
  set_outs e (put_out (pe_outs e) {| or_face := f; or_nonce := nonce; or_at := now; or_exp := now + lt; or_name := n |}).

(* UpdateExpirationTimer: now, or the latest expiry of any in- or out-record if later *)
Definition max_exp (now : N) (e : pite) : N :=
  fold_left (fun m r => N.max m (or_exp r)) (pe_outs e)
    (fold_left (fun m r => N.max m (ir_exp r)) (pe_ins e) now).
Definition upd_expiry (now : N) (e : pite) : pite := set_q e (Some (max_exp now e)).

(* RemoveInterest: the entry is overwritten by the last entry of its name-tree node, which is then cut off.
   In the flat PIT the entries of one node are those with the same name, in list order. *)
Fixpoint take_last_same (n : name) (l : list pite) : option (pite * list pite) :=
  match l with
  | [] => None
  | x :: r => match take_last_same n r with
              | Some (z, r') => Some (z, x :: r')
              | None => if name_eqb (pe_name x) n then Some (x, r) else None
              end
  end.
Fixpoint swap_remove (t : N) (l : list pite) : list pite :=
  match l with
  | [] => []
  | x :: r => if pe_tok x =? t
              then match take_last_same (pe_name x) r with Some (z, r') => z :: r' | None => r end
              else x :: swap_remove t r
  end.

Fixpoint get_tok (t : N) (l : list pite) : option pite :=
  match l with [] => None | x :: r => if pe_tok x =? t then Some x else get_tok t r end.

(* ------------------------------------------------------------------------------------------------ CS and dead nonce list *)
Record csent := { cs_name : name; cs_stale : N }.

Record fw := {
  faces : list face; fib : fibtab; strat : strattab; regions : list name;
  pit : list pite;
  cs : list csent; lru : list name (* head = next victim *); cs_cap : N; cs_admit : bool; cs_serve : bool;
  dnl : list (name * N * N) (* ((name, nonce), expiry), in queue order *); dnl_life : N;
  tid : N; nthreads : N }.

Definition with_pit (s : fw) (p : list pite) : fw :=
  {| faces := faces s; fib := fib s; strat := strat s; regions := regions s; pit := p; cs := cs s; lru := lru s;
     cs_cap := cs_cap s; cs_admit := cs_admit s; cs_serve := cs_serve s; dnl := dnl s; dnl_life := dnl_life s;
     tid := tid s; nthreads := nthreads s |}.
Definition with_dnl (s : fw) (d : list (name * N * N)) : fw :=
  {| faces := faces s; fib := fib s; strat := strat s; regions := regions s; pit := pit s; cs := cs s; lru := lru s;
     cs_cap := cs_cap s; cs_admit := cs_admit s; cs_serve := cs_serve s; dnl := d; dnl_life := dnl_life s;
     tid := tid s; nthreads := nthreads s |}.
Definition with_cs (s : fw) (c : list csent) (l : list name) : fw :=
  {| faces := faces s; fib := fib s; strat := strat s; regions := regions s; pit := pit s; cs := c; lru := l;
     cs_cap := cs_cap s; cs_admit := cs_admit s; cs_serve := cs_serve s; dnl := dnl s; dnl_life := dnl_life s;
     tid := tid s; nthreads := nthreads s |}.
Definition with_faces (s : fw) (f : list face) : fw :=
  {| faces := f; fib := fib s; strat := strat s; regions := regions s; pit := pit s; cs := cs s; lru := lru s;
     cs_cap := cs_cap s; cs_admit := cs_admit s; cs_serve := cs_serve s; dnl := dnl s; dnl_life := dnl_life s;
     tid := tid s; nthreads := nthreads s |}.
Definition with_fib (s : fw) (f : fibtab) (t : strattab) : fw :=
  {| faces := faces s; fib := f; strat := t; regions := regions s; pit := pit s; cs := cs s; lru := lru s;
     cs_cap := cs_cap s; cs_admit := cs_admit s; cs_serve := cs_serve s; dnl := dnl s; dnl_life := dnl_life s;
     tid := tid s; nthreads := nthreads s |}.
Definition with_cscfg (s : fw) (cap : N) (a v : bool) : fw :=
  {| faces := faces s; fib := fib s; strat := strat s; regions := regions s; pit := pit s; cs := cs s; lru := lru s;
     cs_cap := cap; cs_admit := a; cs_serve := v; dnl := dnl s; dnl_life := dnl_life s;
     tid := tid s; nthreads := nthreads s |}.

(* DeadNonceList.Find / Insert *)
Definition dnl_has (d : list (name * N * N)) (n : name) (x : N) : bool :=
  existsb (fun e => name_eqb (fst (fst e)) n && (snd (fst e) =? x)) d.
Definition dnl_add (life now : N) (d : list (name * N * N)) (n : name) (x : N) : list (name * N * N) :=
  if dnl_has d n x then d else d ++ [((n, x), now + life)].
(* RemoveExpiredEntries: pops while the head is strictly older than now, at most 100 per call *)
Fixpoint dnl_sweep (fuel : nat) (now : N) (d : list (name * N * N)) : list (name * N * N) :=
  match fuel, d with
  | S k, e :: r => if snd e <? now then dnl_sweep k now r else d
  | _, _ => d
  end.

(* CsLRU: BeforeUse / AfterRefresh move to the back, AfterInsert pushes back, EvictEntries pops the front *)
Definition lru_touch (l : list name) (n : name) : list name := filter (fun m => negb (name_eqb m n)) l ++ [n].
Definition cs_del (c : list csent) (n : name) : list csent := filter (fun e => negb (name_eqb (cs_name e) n)) c.
Fixpoint cs_get (c : list csent) (n : name) : option csent :=
  match c with [] => None | e :: r => if name_eqb (cs_name e) n then Some e else cs_get r n end.
Fixpoint cs_evict (fuel : nat) (cap : N) (c : list csent) (l : list name) : list csent * list name :=
  match fuel with
  | O => (c, l)
  | S k => if cap <? N.of_nat (length l)
           then match l with v :: l' => cs_evict k cap (cs_del c v) l' | [] => (c, l) end
           else (c, l)
  end.
(* PitCsTree.InsertData *)
Definition cs_insert (s : fw) (now : N) (n : name) (fresh : option N) : fw :=
  let stale := match fresh with Some p => now + p | None => now end in
  match cs_get (cs s) n with
  | Some _ => with_cs s (cs_del (cs s) n ++ [{| cs_name := n; cs_stale := stale |}]) (lru_touch (lru s) n)
  | None => let c := cs s ++ [{| cs_name := n; cs_stale := stale |}] in
            let l := lru s ++ [n] in
            let '(c', l') := cs_evict (S (length l)) (cs_cap s) c l in
            with_cs s c' l'
  end.

Definition cs_usable (now : N) (mbf : bool) (e : csent) : bool := negb mbf || (now <? cs_stale e).

(* admissible answers of a CanBePrefix lookup: ANY cached Data at or below the Interest name that is fresh enough under
   MustBeFresh. Which of them findMatchingDataCSPrefix returns (the pinned depth-first search stops at the first usable entry of a
   path and follows Go map order) is Content Store semantics (property C07); for the forwarding pipeline the pick is an input. *)
Definition cs_prefix_candidates (c : list csent) (now : N) (mbf : bool) (n : name) : list csent :=
  filter (fun e => is_prefix n (cs_name e) && cs_usable now mbf e) c.

(* ------------------------------------------------------------------------------------------------ events, choices, results *)
Record interest := { i_face : N; i_name : name; i_cbp : bool; i_mbf : bool; i_nonce : option N;
                     i_life : option N; i_hop : option N; i_hints : list name; i_tok : bytes; i_nhf : option N }.
Record data := { d_face : N; d_name : name; d_fresh : option N; d_tok : bytes }.

Inductive ev :=
| EInterest (now : N) (i : interest)
| EData (now : N) (d : data)
| ETick (now : N)                    (* one "<-UpdateTimer(); Update()" of the Run loop *)
| ESweep (now : N)                   (* the dead-nonce-list ticker branch of the Run loop *)
| ESleep (d : N)
| EFaceAdd (f : face) | EFaceDel (id : N)
| EFibIns (n : name) (f c : N) | EFibRem (n : name) (f : N) | EFibClr (n : name)
| EStratSet (n : name) (s : N) | EStratUnset (n : name)
| ECsFlags (adm serve : bool) | ECsCap (c : N).

Record choice := { ch_tok : N; ch_tie : option N; ch_cs : option name; ch_expired : list N }.

Inductive pkind := KInterest | KData.
Record out := { o_face : N; o_kind : pkind; o_name : name; o_hop : option N; o_tok : bytes }.

Inductive disp :=
| DNone                 (* not an Interest event *)
| DropNoFace | DropHop | DropScope | DropNoNonce | DropDead | DropDup
| CsHit (n : name)      (* answered from the cache *)
| Pending (tok : N).    (* in-record created or refreshed in the entry with this token *)

Record result := { r_st : fw; r_outs : list out; r_ok : bool (* choices admissible *); r_disp : disp;
                   r_panic : bool (* an unchecked index/slice of the code would be out of range (no such site is left) *) }.

Definition res (s : fw) (o : list out) (ok : bool) (d : disp) : result :=
  {| r_st := s; r_outs := o; r_ok := ok; r_disp := d; r_panic := false |}.

(* ------------------------------------------------------------------------------------------------ Interest pipeline *)
(* forwarding hint: the first delegation outside the producer region, unless some delegation is inside it *)
Definition in_region (regs : list name) (h : name) : bool := existsb (fun r => is_prefix r h) regs.
Definition select_hint (regs : list name) (hints : list name) : option name :=
  if existsb (in_region regs) hints then None
  else match hints with h :: _ => Some h | [] => None end.

(* the PIT token this forwarder attaches upstream: thread id (2 bytes) ++ entry token (4 bytes) *)
Definition up_token (tid tok : N) : bytes := be 2 tid ++ be 4 tok.

(* processOutgoingInterest's guards: the face exists; not back to a non-ad-hoc arrival face; hop limit 0 only to a
   local face; a /localhost name never to a non-local face *)
Definition can_send (fs : list face) (inface : N) (hop : option N) (n : name) (nh : N) : bool :=
  match get_face fs nh with
  | None => false
  | Some g => negb ((f_id g =? inface) && negb (is_adhoc (f_link g))) &&
              negb (match hop with Some 0 => true | _ => false end && negb (f_local g)) &&
              negb (negb (f_local g) && code_localhost n)
  end.

Definition mk_interest_out (nh : N) (n : name) (hop : option N) (tok : bytes) : out :=
  {| o_face := nh; o_kind := KInterest; o_name := n; o_hop := hop; o_tok := tok |}.

(* suppression test of both strategies *)
Definition suppression (strategy : N) : N := if strategy =? 1 then multicast_suppression else bestroute_suppression.
Definition suppressed (strategy now nonce : N) (e : pite) : bool :=
  existsb (fun o => negb (or_nonce o =? nonce) && (now <? or_at o + suppression strategy)) (pe_outs e).

Definition min_cost (l : list nexthop) : N :=
  match l with [] => 0 | h :: r => fold_left (fun m x => N.min m (snd x)) r (snd h) end.

(* send on every next hop of the list that passes the guards (multicast; best-route passes a one-element list) *)
Fixpoint send_all (fs : list face) (tidv now inface nonce : N) (life : option N) (n : name) (hop : option N)
         (nhs : list nexthop) (e : pite) : pite * list out :=
  match nhs with
  | [] => (e, [])
  | h :: r => if can_send fs inface hop n (fst h)
              then let e1 := insert_outrec now (fst h) nonce life n e in
                   let '(e2, os) := send_all fs tidv now inface nonce life n hop r e1 in
                   (e2, mk_interest_out (fst h) n hop (up_token tidv (pe_tok e)) :: os)
              else send_all fs tidv now inface nonce life n hop r e
  end.

(* strategy AfterReceiveInterest; returns the entry, the outputs and whether the tie choice was admissible *)
Definition strategy_interest (strategy : N) (fs : list face) (tidv now inface nonce : N) (life : option N)
           (n : name) (hop : option N) (allowed : list nexthop) (tie : option N) (e : pite)
  : pite * list out * bool :=
  match allowed with
  | [] => (e, [], true)
  | _ =>
    if suppressed strategy now nonce e then (e, [], true)
    else if strategy =? 1 then let '(e', os) := send_all fs tidv now inface nonce life n hop allowed e in (e', os, true)
    else
      (* best-route: after the (unstable) sort by cost the first next hop that passes the guards is used *)
      let usable := filter (fun h => can_send fs inface hop n (fst h)) allowed in
      match usable with
      | [] => (e, [], true)
      | u :: _ =>
        let best := filter (fun h => snd h =? min_cost usable) usable in
        let pickd := match tie with
                     | Some f => match filter (fun h => fst h =? f) best with h :: _ => Some h | [] => None end
                     | None => None
                     end in
        match pickd with
        | Some h => let '(e', os) := send_all fs tidv now inface nonce life n hop [h] e in (e', os, true)
        | None => let h := match best with b :: _ => b | [] => u end in
                  let '(e', os) := send_all fs tidv now inface nonce life n hop [h] e in (e', os, false)
        end
      end
  end.

(* processOutgoingData: the face must exist; a /localhost Data never goes to a non-local face *)
Definition send_data (fs : list face) (n : name) (f : N) (tok : bytes) : list out :=
  match get_face fs f with
  | None => []
  | Some g => if negb (f_local g) && code_localhost n then []
              else [{| o_face := f; o_kind := KData; o_name := n; o_hop := None; o_tok := tok |}]
  end.

(* FindMatchingDataFromCS; returns the entry used (if any), the new LRU order and whether the pick was admissible.
   With CanBePrefix the entry found depends on Go map order: the pick is the name of the Data the implementation
   sent; when it sent nothing although candidates exist, the entry found must be one whose transmission
   processOutgoingData refuses ([blocked]: /localhost Data towards a non-local face). *)
Definition cs_find (s : fw) (now : N) (n : name) (cbp mbf : bool) (blocked : name -> bool) (pick : option name)
  : option csent * list name * bool :=
  if cbp then
    let cands := cs_prefix_candidates (cs s) now mbf n in
    match cands with
    | [] => (None, lru s, match pick with None => true | Some _ => false end)
    | c0 :: _ =>
      match pick with
      | Some p => match filter (fun e => name_eqb (cs_name e) p && negb (blocked (cs_name e))) cands with
                  | e :: _ => (Some e, lru s, true)
                  | [] => (Some c0, lru s, false)
                  end
      | None => match filter (fun e => blocked (cs_name e)) cands with
                | e :: _ => (Some e, lru s, true)
                | [] => (Some c0, lru s, false)
                end
      end
    end
  else
    match cs_get (cs s) n with
    | Some e => if cs_usable now mbf e then (Some e, lru_touch (lru s) n, true) else (None, lru s, true)
    | None => (None, lru s, true)
    end.

Definition hop_after (h : option N) : option N := match h with Some x => Some (x - 1) | None => None end.

(* PitCsTree.InsertInterest: the entry with the aggregation key, created (with the fresh token of the choice) if absent;
   the PIT is returned split around it; the flag says whether the fresh token was admissible (not in the token map) *)
Definition tok_used (p : list pite) (t : N) : bool := existsb (fun x => pe_tok x =? t) p.
(* generateNewPitToken draws until the token is not in the token map; an inadmissible pick is replaced by a fresh one *)
Definition fresh_token (p : list pite) (t : N) : N :=
  if tok_used p t then N.succ (fold_left (fun m x => N.max m (pe_tok x)) p 0) else t.
Definition insert_interest (p : list pite) (n : name) (cbp mbf : bool) (hk : name) (tok : N)
  : list pite * pite * list pite * bool :=
  match find_entry n cbp mbf hk p with
  | Some (a, x, b) => (a, x, b, true)
  | None => (p, {| pe_name := n; pe_cbp := cbp; pe_mbf := mbf; pe_hint := hk; pe_tok := fresh_token p tok;
                   pe_ins := []; pe_outs := []; pe_sat := false; pe_q := None |},
             [], negb (tok_used p tok))
  end.

(* the duplicate-nonce (loop) test of InsertInterest: same nonce in an in-record of another face *)
Definition is_dup (f nonce : N) (e : pite) : bool :=
  existsb (fun r => negb (ir_face r =? f) && (ir_nonce r =? nonce)) (pe_ins e).

(* the content store is consulted only for an Interest that is not already pending on its face *)
Definition cs_stage (s : fw) (now : N) (i : interest) (inf : face) (pending : bool) (ch : choice)
  : option csent * list name * bool :=
  if negb pending && cs_serve s
  then cs_find s now (i_name i) (i_cbp i) (i_mbf i) (fun n => negb (f_local inf) && code_localhost n) (ch_cs ch)
  else (None, lru s, true).

(* next hops offered to the strategy: FIB next hops of the lookup name minus faces that hold an in-record (other than the arrival face) *)
Definition allowed_nexthops (fibv : fibtab) (lookup : name) (f : N) (e : pite) : list nexthop :=
  filter (fun h => match get_in (pe_ins e) (fst h) with
                   | None => true
                   | Some _ => fst h =? f
                   end) (fib_nexthops fibv lookup).

Definition step_interest (s : fw) (now : N) (i : interest) (ch : choice) : result :=
  match get_face (faces s) (i_face i) with
  | None => res s [] true DropNoFace
  | Some inf =>
    if match i_hop i with Some 0 => true | _ => false end then res s [] true DropHop else
    let hop := hop_after (i_hop i) in
    if negb (f_local inf) && code_localhost (i_name i) then res s [] true DropScope else
    let fh := select_hint (regions s) (i_hints i) in
    match i_nonce i with
    | None => res s [] true DropNoNonce
    | Some nonce =>
      if dnl_has (dnl s) (i_name i) nonce then res s [] true DropDead else
      let hk := match fh with Some h => h | None => [] end in
      let '(pre, e0, post, tok_ok) := insert_interest (pit s) (i_name i) (i_cbp i) (i_mbf i) hk (ch_tok ch) in
      if is_dup (i_face i) nonce e0 then res (with_pit s (pre ++ e0 :: post)) [] tok_ok DropDup else
      let strategy := strat_of (strat s) (i_name i) in
      let '(e1, pending, prev) := insert_inrec now (i_face i) nonce (i_life i) (i_tok i) e0 in
      let '(hit, lru', cs_ok) := cs_stage s now i inf pending ch in
      match hit with
      | Some c =>
        (* AfterContentStoreHit -> SendData: the in-record's token is echoed and the in-record is consumed *)
        let tokd := match get_in (pe_ins e1) (i_face i) with Some r => ir_tok r | None => [] end in
        (* then UpdateExpirationTimer: the entry expires now unless other records are still pending *)
        let e2 := upd_expiry now (set_ins e1 (del_in (pe_ins e1) (i_face i))) in
        res (with_cs (with_pit s (pre ++ e2 :: post)) (cs s) lru')
            (send_data (faces s) (cs_name c) (i_face i) tokd) (tok_ok && cs_ok) (CsHit (cs_name c))
      | None =>
        let d1 := if pending then dnl_add (dnl_life s) now (dnl s) (i_name i) prev else dnl s in
        let e2 := upd_expiry now e1 in
        match i_nhf i with
        | Some nh =>
          (* NextHopFaceId: that face alone, through processOutgoingInterest like any other next hop *)
          let '(e3, os) := send_all (faces s) (tid s) now (i_face i) nonce (i_life i) (i_name i) hop [(nh, 0)] e2 in
          res (with_dnl (with_pit s (pre ++ e3 :: post)) d1) os (tok_ok && cs_ok) (Pending (pe_tok e3))
        | None =>
          let lookup := match fh with Some h => h | None => i_name i end in
          let allowed := allowed_nexthops (fib s) lookup (i_face i) e2 in
          let '(e3, os, tie_ok) := strategy_interest strategy (faces s) (tid s) now (i_face i) nonce (i_life i)
                                     (i_name i) hop allowed (ch_tie ch) e2 in
          res (with_dnl (with_pit s (pre ++ e3 :: post)) d1) os (tok_ok && cs_ok && tie_ok) (Pending (pe_tok e3))
        end
      end
    end
  end.

(* ------------------------------------------------------------------------------------------------ Data pipeline *)
(* a 6-byte PIT token is "for us": thread id (2 bytes) and entry token (4 bytes) *)
Definition data_token (tok : bytes) : option (N * N) :=
  if (N.of_nat (length tok) =? token_len) then Some (be_val (firstn 2 tok), be_val (skipn 2 tok)) else None.

Definition name_rule (e : pite) (dn : name) (k : nat) : bool :=
  name_eqb (pe_name e) (firstn k dn) && (pe_cbp e || (k =? length dn)%nat).

(* findInterestPrefixMatchByNameEnc: from the longest existing prefix node up to the root, each node's entries in order *)
Definition match_by_name (p : list pite) (dn : name) : list pite :=
  flat_map (fun k => filter (fun e => name_rule e dn k) p) (rev (seq 0 (S (length dn)))).

Definition data_matches (p : list pite) (dn : name) (t : option N) : list pite :=
  match t with
  | Some tk => filter (fun e => pe_tok e =? tk) p
  | None => match_by_name p dn
  end.

Definition is_matched (ms : list pite) (e : pite) : bool := existsb (fun m => pe_tok m =? pe_tok e) ms.

Definition step_data_thread (s : fw) (now : N) (d : data) (t : option N) : result :=
  match get_face (faces s) (d_face d) with
  | None => res s [] true DNone
  | Some inf =>
    if negb (f_local inf) && code_localhost (d_name d) then res s [] true DNone else
    let s1 := if cs_admit s then cs_insert s now (d_name d) (d_fresh d) else s in
    let ms := data_matches (pit s1) (d_name d) t in
    match ms with
    | [] => res s1 [] true DNone
    | m0 :: rest =>
      let single := match rest with [] => true | _ => false end in
      (* single match: the strategy sends to every in-record face (the arrival face included);
         several matches: every in-record face except the arrival face *)
      let outs := flat_map (fun e => flat_map (fun r =>
                     if negb single && (ir_face r =? d_face d) then []
                     else send_data (faces s1) (d_name d) (ir_face r) (ir_tok r)) (pe_ins e)) ms in
      (* dead nonce list: the out-record nonces of the first matching entry, under the Data name *)
      let d1 := fold_left (fun acc o => dnl_add (dnl_life s1) now acc (d_name d) (or_nonce o)) (pe_outs m0) (dnl s1) in
      let p1 := map (fun e => if is_matched ms e then satisfy now e else e) (pit s1) in
      res (with_dnl (with_pit s1 p1) d1) outs true DNone
    end
  end.

(* linkServiceBase.dispatchData in front of the thread (fw/face/link-service.go):
   - a 6-byte token selects the thread by its first two bytes (dispatch.GetFWThread: nil beyond the last thread,
     then the Data is dropped);
   - otherwise Data from a local face goes to the threads hashed from every prefix of its name (length 0..len),
     Data from a non-local face to the thread hashed from the full name.
   With one thread every hash selects thread 0 (thread selection for more threads is Dispatch.v's subject). *)
Definition step_data (s : fw) (now : N) (d : data) : result :=
  match data_token (d_tok d) with
  | Some (th, tk) =>
    if th =? tid s then step_data_thread s now d (Some tk)
    else res s [] true DNone
  | None => step_data_thread s now d None
  end.

(* ------------------------------------------------------------------------------------------------ timers *)
(* Thread.finalizeInterest then RemoveInterest for one popped entry *)
Definition expire_one (life now : N) (pd : list pite * list (name * N * N)) (e : pite) : list pite * list (name * N * N) :=
  (swap_remove (pe_tok e) (fst pd),
   fold_left (fun acc o => dnl_add life now acc (or_name o) (or_nonce o)) (pe_outs e) (snd pd)).

Definition due (now : N) (e : pite) : bool := match pe_q e with Some q => q <=? now | None => false end.
Definition q_min (p : list pite) (e : pite) : bool :=
  match pe_q e with
  | Some q => forallb (fun x => match pe_q x with Some q' => q <=? q' | None => true end) p
  | None => false
  end.

(* PitCsTree.Update: pops every entry whose priority is <= now; the pop order among entries is taken from the
   implementation (ch_expired) and checked (each popped entry is due and minimal); entries still due afterwards
   are removed as well (keeping the list order of the others) and the choice is reported inadmissible *)
Fixpoint pop_chosen (life now : N) (toks : list N) (pd : list pite * list (name * N * N)) (ok : bool)
  : list pite * list (name * N * N) * bool :=
  match toks with
  | [] => (pd, ok)
  | t :: r => match get_tok t (fst pd) with
              | Some e => if due now e
                          then pop_chosen life now r (expire_one life now pd e) (ok && q_min (fst pd) e)
                          else pop_chosen life now r pd false
              | None => pop_chosen life now r pd false
              end
  end.

Definition step_tick (s : fw) (now : N) (ch : choice) : result :=
  let '(pd, ok) := pop_chosen (dnl_life s) now (ch_expired ch) (pit s, dnl s) true in
  let rest := filter (due now) (fst pd) in
  let d' := fold_left (fun acc e => snd (expire_one (dnl_life s) now ([], acc) e)) rest (snd pd) in
  res (with_dnl (with_pit s (filter (fun e => negb (due now e)) (fst pd))) d') [] (ok && negb (nonempty rest)) DNone.

(* ------------------------------------------------------------------------------------------------ step *)
Definition step (s : fw) (e : ev) (ch : choice) : result :=
  match e with
  | EInterest now i => step_interest s now i ch
  | EData now d => step_data s now d
  | ETick now => step_tick s now ch
  | ESweep now => res (with_dnl s (dnl_sweep (N.to_nat dnl_sweep_limit) now (dnl s))) [] true DNone
  | ESleep _ => res s [] true DNone
  | EFaceAdd f => res (with_faces s (add_face (faces s) f)) [] true DNone
  | EFaceDel id => res (with_faces s (del_face (faces s) id)) [] true DNone
  | EFibIns n f c => res (with_fib s (fib_ins (fib s) n f c) (strat s)) [] true DNone
  | EFibRem n f => res (with_fib s (fib_rem (fib s) n f) (strat s)) [] true DNone
  | EFibClr n => res (with_fib s (fib_clr (fib s) n) (strat s)) [] true DNone
  | EStratSet n v => res (with_fib s (fib s) (set_name (strat s) n v)) [] true DNone
  | EStratUnset n => match n with
                     | [] => res s [] true DNone
                     | _ => res (with_fib s (fib s) (del_name (strat s) n)) [] true DNone
                     end
  | ECsFlags a v => res (with_cscfg s (cs_cap s) a v) [] true DNone
  | ECsCap c => res (with_cscfg s c (cs_admit s) (cs_serve s)) [] true DNone
  end.

Definition init (regs : list name) (dlife : N) : fw :=
  {| faces := []; fib := []; strat := []; regions := regs; pit := []; cs := []; lru := []; cs_cap := 1024;
     cs_admit := true; cs_serve := true; dnl := []; dnl_life := dlife; tid := 0; nthreads := 1 |}.
