(* Fw/Inv.v — the state invariant that ties the forwarder model's PIT to the flat pending table of the C01 spec
   (abstraction relation of fw_refines_pending), and the lemmas about the pieces of the model it talks about. *)
From Coq Require Import List NArith Arith Bool Lia Permutation.
From Base Require Import Bytes.
From Fw Require Import GenConsts Model Spec Run Lemmas.
Import ListNotations.
Open Scope N_scope.

Definition gkey := (name * bool * bool * name)%type.
Definition key (e : pite) : gkey := (pe_name e, pe_cbp e, pe_mbf e, pe_hint e).
Definition pkey (p : prec) : gkey := (p_name p, p_cbp p, p_mbf p, p_hint p).
Definition slot (p : prec) : N * gkey * N := (p_face p, pkey p, p_utok p).
Definition in_group (e : pite) (p : prec) : Prop := pkey p = key e /\ p_utok p = pe_tok e.

Record wf_pit (pt : list pite) : Prop := {
  wf_keys : NoDup (map key pt);
  wf_toks : NoDup (map pe_tok pt);
  wf_faces : forall e, In e pt -> NoDup (map ir_face (pe_ins e));
  wf_q : forall e r, In e pt -> In r (pe_ins e) -> exists q, pe_q e = Some q /\ ir_exp r <= q;
  wf_outs : forall e, In e pt -> pe_outs e <> [] -> pe_ins e <> [] }.

Record wf_sp (sp : pend) : Prop := {
  sp_slots : NoDup (map slot sp);
  sp_exp : forall p, In p sp -> p_exp p <= p_expmax p }.

Record rel (t : N) (pt : list pite) (sp : pend) : Prop := {
  (* in-records are among the possibly pending records *)
  rel_A : forall e r, In e pt -> In r (pe_ins e) ->
          exists p, In p sp /\ in_group e p /\ p_face p = ir_face r /\ p_dtok p = ir_tok r /\ p_exp p = ir_exp r;
  (* records inside their own lifetime are in-records *)
  rel_B : forall p, In p sp -> t < p_exp p ->
          exists e r, In e pt /\ in_group e p /\ In r (pe_ins e) /\ ir_face r = p_face p /\ ir_tok r = p_dtok p /\ ir_exp r = p_exp p;
  (* an entry with in-records expires no later than its group in the table (or is already due) *)
  rel_C : forall e q, In e pt -> pe_ins e <> [] -> pe_q e = Some q ->
          q <= t \/ exists p, In p sp /\ in_group e p /\ q <= p_expmax p;
  rel_D : forall e o, In e pt -> In o (pe_outs e) ->
          or_exp o <= t \/ exists p, In p sp /\ in_group e p /\ or_exp o <= p_expmax p }.

Definition Inv (t : N) (pt : list pite) (sp : pend) : Prop := wf_pit pt /\ wf_sp sp /\ rel t pt sp.

(* ---------------------------------------------------------------- boolean tests vs. equations *)
Lemma key_match_spec n cbp mbf h e : key_match n cbp mbf h e = true <-> key e = (n, cbp, mbf, h).
Proof.
  unfold key_match, key. rewrite !andb_true_iff, !name_eqb_spec, !bool_eqb_spec.
  split; [intros [[[-> ->] ->] ->]; reflexivity|intros E; inversion E; auto].
Qed.

Lemma same_group_spec a b : same_group a b = true <-> pkey a = pkey b /\ p_utok a = p_utok b.
Proof.
  unfold same_group, pkey. rewrite !andb_true_iff, !name_eqb_spec, !bool_eqb_spec, N.eqb_eq.
  split; [intros [[[[-> ->] ->] ->] ->]; auto|intros [E ->]; inversion E; auto].
Qed.

Lemma same_slot_spec a b : same_slot a b = true <-> slot a = slot b.
Proof.
  unfold same_slot, slot. rewrite andb_true_iff, N.eqb_eq, same_group_spec.
  split; [intros (E1 & E2 & E3); rewrite E1, E2, E3; reflexivity|intros E; injection E; intros; unfold pkey; repeat split; congruence].
Qed.

Lemma same_slot_false a b : same_slot a b = false <-> slot a <> slot b.
Proof.
  split; [intros H E; apply same_slot_spec in E; congruence|].
  intros H; destruct (same_slot a b) eqn:E; [apply same_slot_spec in E; contradiction|reflexivity].
Qed.

Lemma slot_inv p f k u : slot p = (f, k, u) -> p_face p = f /\ pkey p = k /\ p_utok p = u.
Proof.
  unfold slot. intros E. split; [|split].
  - exact (f_equal (fun x => fst (fst x)) E).
  - exact (f_equal (fun x => snd (fst x)) E).
  - exact (f_equal snd E).
Qed.

Lemma slot_eq_inv p q : slot p = slot q -> p_face p = p_face q /\ pkey p = pkey q /\ p_utok p = p_utok q.
Proof. intros E. apply (slot_inv p _ _ _ E). Qed.

(* ---------------------------------------------------------------- record updates *)
Lemma set_ins_id e : set_ins e (pe_ins e) = e. Proof. destruct e; reflexivity. Qed.

Lemma get_in_none_notin l f : get_in l f = None <-> ~ In f (map ir_face l).
Proof.
  induction l as [|r t IH]; cbn; [tauto|].
  destruct (ir_face r =? f) eqn:E.
  - apply N.eqb_eq in E. split; [discriminate|intros H; exfalso; apply H; auto].
  - apply N.eqb_neq in E. rewrite IH. tauto.
Qed.

Lemma get_in_some l f r : get_in l f = Some r -> In r l /\ ir_face r = f.
Proof.
  induction l as [|x t IH]; cbn; [discriminate|].
  destruct (ir_face x =? f) eqn:E.
  - intros H; inversion H; subst. apply N.eqb_eq in E; auto.
  - intros H; destruct (IH H); auto.
Qed.

Lemma del_in_notin l f : ~ In f (map ir_face l) -> del_in l f = l.
Proof.
  unfold del_in. induction l as [|r t IH]; cbn; [reflexivity|].
  intros H. destruct (ir_face r =? f) eqn:E; [apply N.eqb_eq in E; exfalso; apply H; auto|].
  cbn. f_equal. apply IH. tauto.
Qed.

Lemma del_in_app_new l f r : ~ In f (map ir_face l) -> ir_face r = f -> del_in (l ++ [r]) f = l.
Proof.
  intros H E. unfold del_in. rewrite filter_app. fold (del_in l f). rewrite del_in_notin by exact H.
  cbn. rewrite E, N.eqb_refl. cbn. apply app_nil_r.
Qed.

Lemma put_in_faces l r : In (ir_face r) (map ir_face l) -> map ir_face (put_in l r) = map ir_face l.
Proof.
  induction l as [|y t IH]; cbn; [intros []|].
  destruct (ir_face y =? ir_face r) eqn:E.
  - apply N.eqb_eq in E. intros _. cbn. f_equal. auto.
  - apply N.eqb_neq in E. intros [H|H]; [congruence|]. cbn. f_equal. apply IH, H.
Qed.

Lemma put_in_in l r x : In x (put_in l r) -> x = r \/ In x l.
Proof.
  induction l as [|y t IH]; cbn; [intros [<-|[]]; auto|].
  destruct (ir_face y =? ir_face r); cbn.
  - intros [<-|H]; auto.
  - intros [<-|H]; auto. destruct (IH H); auto.
Qed.

Lemma put_in_new l r : In r (put_in l r).
Proof.
  induction l as [|y t IH]; cbn; [auto|].
  destruct (ir_face y =? ir_face r); cbn; auto.
Qed.

Lemma put_in_keep l r x : In x l -> ir_face x <> ir_face r -> In x (put_in l r).
Proof.
  induction l as [|y t IH]; cbn; [intros []|].
  intros [-> |H] Hne.
  - destruct (ir_face x =? ir_face r) eqn:E; [apply N.eqb_eq in E; contradiction|left; reflexivity].
  - destruct (ir_face y =? ir_face r); right; auto.
Qed.

Lemma put_out_in l o x : In x (put_out l o) -> x = o \/ In x l.
Proof.
  induction l as [|y t IH]; cbn; [intros [<-|[]]; auto|].
  destruct (or_face y =? or_face o); cbn.
  - intros [<-|H]; auto.
  - intros [<-|H]; auto. destruct (IH H); auto.
Qed.

Lemma put_out_nonempty l o : put_out l o <> [].
Proof. destruct l as [|y t]; cbn; [discriminate|]. destruct (or_face y =? or_face o); discriminate. Qed.

(* ---------------------------------------------------------------- InsertInterest *)
Lemma find_entry_some n c m h p : forall a x b,
  find_entry n c m h p = Some (a, x, b) -> p = a ++ x :: b /\ key x = (n, c, m, h).
Proof.
  induction p as [|e r IH]; intros a x b; cbn; [discriminate|].
  destruct (key_match n c m h e) eqn:K.
  - intros H; inversion H; subst. split; [reflexivity|apply key_match_spec, K].
  - destruct (find_entry n c m h r) as [[[a' x'] b']|]; [|discriminate].
    intros H; inversion H; subst. destruct (IH a' x b eq_refl) as [-> Hk]. auto.
Qed.

Lemma find_entry_none n c m h p : find_entry n c m h p = None -> ~ In (n, c, m, h) (map key p).
Proof.
  induction p as [|e r IH]; cbn; [auto|].
  destruct (key_match n c m h e) eqn:K; [discriminate|].
  destruct (find_entry n c m h r) as [[[a' x'] b']|]; [discriminate|].
  intros _ [H|H]; [|apply IH; auto].
  assert (key_match n c m h e = true) by (apply key_match_spec; auto). congruence.
Qed.

Lemma fresh_token_fresh p t : ~ In (fresh_token p t) (map pe_tok p).
Proof.
  unfold fresh_token, tok_used. destruct (existsb (fun x => pe_tok x =? t) p) eqn:E.
  - intros Hin. apply in_map_iff in Hin; destruct Hin as [x [Ex Hx]].
    pose proof (fold_max_in pe_tok p 0 x Hx). lia.
  - intros Hin. apply in_map_iff in Hin; destruct Hin as [x [Ex Hx]].
    assert (existsb (fun x => pe_tok x =? t) p = true) by (apply existsb_exists; exists x; split; [exact Hx|apply N.eqb_eq, Ex]).
    congruence.
Qed.

Lemma insert_interest_cases p n c m h tok pre e0 post ok :
  insert_interest p n c m h tok = (pre, e0, post, ok) ->
  key e0 = (n, c, m, h) /\
  (p = pre ++ e0 :: post \/
   (pre = p /\ post = [] /\ pe_ins e0 = [] /\ pe_outs e0 = [] /\ pe_q e0 = None /\
    ~ In (key e0) (map key p) /\ ~ In (pe_tok e0) (map pe_tok p))).
Proof.
  unfold insert_interest. destruct (find_entry n c m h p) as [[[a x] b]|] eqn:F.
  - intros H; inversion H; subst. destruct (find_entry_some _ _ _ _ _ _ _ _ F) as [-> K]. auto.
  - intros H; inversion H; subst. cbn. split; [reflexivity|right].
    repeat split; auto.
    + apply find_entry_none, F.
    + apply fresh_token_fresh.
Qed.

(* ---------------------------------------------------------------- expiry *)
Lemma max_exp_ge_now now e : now <= max_exp now e.
Proof.
  unfold max_exp.
  pose proof (fold_max_ge or_exp (pe_outs e) (fold_left (fun m r => N.max m (ir_exp r)) (pe_ins e) now)).
  pose proof (fold_max_ge ir_exp (pe_ins e) now). lia.
Qed.

Lemma max_exp_ge_in now e r : In r (pe_ins e) -> ir_exp r <= max_exp now e.
Proof.
  intros H. unfold max_exp.
  pose proof (fold_max_ge or_exp (pe_outs e) (fold_left (fun m r => N.max m (ir_exp r)) (pe_ins e) now)).
  pose proof (fold_max_in ir_exp (pe_ins e) now r H). lia.
Qed.

Lemma max_exp_cases now e :
  max_exp now e = now \/ (exists r, In r (pe_ins e) /\ max_exp now e = ir_exp r) \/
  (exists o, In o (pe_outs e) /\ max_exp now e = or_exp o).
Proof.
  unfold max_exp.
  destruct (fold_max_cases or_exp (pe_outs e) (fold_left (fun m r => N.max m (ir_exp r)) (pe_ins e) now)) as [E|[o [Ho E]]].
  - rewrite E. destruct (fold_max_cases ir_exp (pe_ins e) now) as [E'|[r [Hr E']]]; [left; exact E'|right; left; eauto].
  - right; right; eauto.
Qed.

(* ---------------------------------------------------------------- the outgoing Interest pipeline only adds out-records *)
Definition lifetime_of (life : option N) : N := match life with Some l => l | None => default_lifetime_in end.
Definition lifetime_out (life : option N) : N := match life with Some l => l | None => default_lifetime_out end.

(* checked on the constants translated from the source: an out-record never outlives the in-record of the Interest it forwards *)
Lemma default_lifetimes : default_lifetime_out <= default_lifetime_in.
Proof. vm_compute. discriminate. Qed.

Lemma lifetime_out_le life : lifetime_out life <= lifetime_of life.
Proof. destruct life; cbn; [lia|apply default_lifetimes]. Qed.

Definition outs_ext (bound : N) (e e' : pite) : Prop :=
  pe_ins e' = pe_ins e /\ key e' = key e /\ pe_tok e' = pe_tok e /\ pe_q e' = pe_q e /\
  forall o, In o (pe_outs e') -> In o (pe_outs e) \/ or_exp o = bound.

Lemma outs_ext_refl b e : outs_ext b e e.
Proof. repeat split; auto. Qed.

Lemma outs_ext_trans b e1 e2 e3 : outs_ext b e1 e2 -> outs_ext b e2 e3 -> outs_ext b e1 e3.
Proof.
  intros (A1 & A2 & A3 & A4 & A5) (B1 & B2 & B3 & B4 & B5). repeat split; try congruence.
  intros o Ho. destruct (B5 o Ho) as [H|H]; auto.
Qed.

Lemma insert_outrec_ext now f nonce life n e : outs_ext (now + lifetime_out life) e (insert_outrec now f nonce life n e).
Proof.
  unfold insert_outrec, outs_ext; cbn. repeat split; auto.
  intros o Ho. apply put_out_in in Ho. destruct Ho as [-> |Ho]; auto.
Qed.

Lemma send_all_ext fs tidv now inface nonce life n hop nhs : forall e,
  outs_ext (now + lifetime_out life) e (fst (send_all fs tidv now inface nonce life n hop nhs e)).
Proof.
  induction nhs as [|h r IH]; intros e; cbn; [apply outs_ext_refl|].
  destruct (can_send fs inface hop n (fst h)).
  - specialize (IH (insert_outrec now (fst h) nonce life n e)).
    destruct (send_all fs tidv now inface nonce life n hop r (insert_outrec now (fst h) nonce life n e)) as [e2 os].
    cbn in *. eapply outs_ext_trans; [apply insert_outrec_ext|exact IH].
  - apply IH.
Qed.

Lemma strategy_interest_ext strategy fs tidv now inface nonce life n hop allowed tie e :
  outs_ext (now + lifetime_out life) e (fst (fst (strategy_interest strategy fs tidv now inface nonce life n hop allowed tie e))).
Proof.
  unfold strategy_interest.
  destruct allowed as [|a0 ar]; [apply outs_ext_refl|].
  destruct (suppressed strategy now nonce e); [apply outs_ext_refl|].
  destruct (strategy =? 1).
  - pose proof (send_all_ext fs tidv now inface nonce life n hop (a0 :: ar) e) as H.
    destruct (send_all fs tidv now inface nonce life n hop (a0 :: ar) e) as [e' os]; exact H.
  - destruct (filter (fun h => can_send fs inface hop n (fst h)) (a0 :: ar)) as [|u ur]; [apply outs_ext_refl|].
    set (best := filter _ (u :: ur)).
    match goal with |- context [match ?p with Some _ => _ | None => _ end] => destruct p as [h|] end.
    + pose proof (send_all_ext fs tidv now inface nonce life n hop [h] e) as H.
      destruct (send_all fs tidv now inface nonce life n hop [h] e) as [e' os]; exact H.
    + match goal with |- context [send_all _ _ _ _ _ _ _ _ [?h] e] => set (hh := h) end.
      pose proof (send_all_ext fs tidv now inface nonce life n hop [hh] e) as H.
      destruct (send_all fs tidv now inface nonce life n hop [hh] e) as [e' os]; exact H.
Qed.

(* ---------------------------------------------------------------- pend_upsert *)
Lemma upsert_slots sp r :
  (In (slot r) (map slot sp) /\ map slot (pend_upsert sp r) = map slot sp) \/
  (~ In (slot r) (map slot sp) /\ map slot (pend_upsert sp r) = map slot sp ++ [slot r]).
Proof.
  induction sp as [|p t IH]; cbn; [right; auto|].
  destruct (same_slot p r) eqn:E.
  - apply same_slot_spec in E. left. split; [left; exact E|]. cbn. f_equal. unfold slot, pkey in *; cbn. symmetry; exact E.
  - apply same_slot_false in E. destruct IH as [[H1 H2]|[H1 H2]].
    + left. split; [right; exact H1|cbn; f_equal; exact H2].
    + right. split; [intros [H|H]; [contradiction|contradiction]|cbn; f_equal; exact H2].
Qed.

Lemma NoDup_snoc {A} (l : list A) a : NoDup l -> ~ In a l -> NoDup (l ++ [a]).
Proof.
  intros ND H. apply NoDup_rev in ND. rewrite <- (rev_involutive (l ++ [a])). apply NoDup_rev.
  rewrite rev_app_distr; cbn. constructor; [rewrite <- in_rev; exact H|exact ND].
Qed.

Lemma upsert_NoDup sp r : NoDup (map slot sp) -> NoDup (map slot (pend_upsert sp r)).
Proof.
  intros ND. destruct (upsert_slots sp r) as [[_ ->]|[H ->]]; [exact ND|].
  apply NoDup_snoc; assumption.
Qed.

Lemma upsert_old sp r p : In p sp -> slot p <> slot r -> In p (pend_upsert sp r).
Proof.
  induction sp as [|y t IH]; cbn; [intros []|].
  intros [-> |H] Hne.
  - destruct (same_slot p r) eqn:E; [apply same_slot_spec in E; contradiction|left; reflexivity].
  - destruct (same_slot y r); right; auto.
Qed.

Lemma upsert_new sp r : exists p', In p' (pend_upsert sp r) /\ slot p' = slot r /\ p_dtok p' = p_dtok r /\
  p_exp p' = p_exp r /\ p_expmax r <= p_expmax p'.
Proof.
  induction sp as [|y t IH]; cbn.
  - exists r. repeat split; auto; lia.
  - destruct (same_slot y r) eqn:E.
    + eexists; split; [left; reflexivity|]. cbn. repeat split; auto. lia.
    + destruct IH as [p' [H1 H2]]. exists p'. split; [right; exact H1|exact H2].
Qed.

Lemma upsert_cases sp r p' : In p' (pend_upsert sp r) ->
  In p' sp \/ (slot p' = slot r /\ p_dtok p' = p_dtok r /\ p_exp p' = p_exp r /\ p_expmax r <= p_expmax p').
Proof.
  induction sp as [|y t IH]; cbn.
  - intros [<-|[]]. right. repeat split; auto; lia.
  - destruct (same_slot y r) eqn:E; cbn.
    + intros [<-|H]; [right; cbn; repeat split; auto; lia|left; right; exact H].
    + intros [<-|H]; [left; left; reflexivity|]. destruct (IH H) as [H'|H']; auto.
Qed.

Lemma upsert_mono sp r p : In p sp -> exists p', In p' (pend_upsert sp r) /\ slot p' = slot p /\ p_expmax p <= p_expmax p' /\
  (slot p <> slot r -> p' = p).
Proof.
  induction sp as [|y t IH]; cbn; [intros []|].
  intros [-> |H].
  - destruct (same_slot p r) eqn:E.
    + apply same_slot_spec in E. eexists; split; [left; reflexivity|]. cbn. repeat split.
      * unfold slot, pkey in *; cbn. symmetry; exact E.
      * lia.
      * intros Hne; contradiction.
    + exists p. split; [left; reflexivity|]. repeat split; auto; lia.
  - destruct (same_slot y r).
    + exists p. split; [right; exact H|]. repeat split; auto; lia.
    + destruct (IH H) as [p' (H1 & H2 & H3 & H4)]. exists p'; (split; [right; exact H1|auto]).
Qed.

(* ---------------------------------------------------------------- list positions *)
Lemma in_mid {A} (x e : A) pre post : In x (pre ++ e :: post) <-> In x pre \/ x = e \/ In x post.
Proof. rewrite in_app_iff; cbn. split; intros [H|[H|H]]; auto. Qed.

Lemma map_mid {A B} (f : A -> B) pre e e' post : f e' = f e -> map f (pre ++ e' :: post) = map f (pre ++ e :: post).
Proof. intros E. rewrite !map_app; cbn. rewrite E. reflexivity. Qed.

Lemma NoDup_mid_neq {A B} (f : A -> B) pre e post x :
  NoDup (map f (pre ++ e :: post)) -> In x pre \/ In x post -> f x <> f e.
Proof.
  rewrite map_app; cbn. intros ND H E.
  apply NoDup_remove_2 in ND. apply ND. apply in_or_app.
  destruct H as [H|H]; [left|right]; rewrite <- E; apply in_map; exact H.
Qed.

Lemma rel_mono t t' pt sp : t <= t' -> rel t pt sp -> rel t' pt sp.
Proof.
  intros Ht [A B C D]. split; auto.
  - intros p Hp Hlt. apply B; [exact Hp|lia].
  - intros e q He Hi Hq. destruct (C e q He Hi Hq) as [H|H]; [left; lia|right; exact H].
  - intros e o He Ho. destruct (D e o He Ho) as [H|H]; [left; lia|right; exact H].
Qed.

Lemma Inv_mono t t' pt sp : t <= t' -> Inv t pt sp -> Inv t' pt sp.
Proof. intros Ht (W & S & R). split; [exact W|split; [exact S|eapply rel_mono; eassumption]]. Qed.

(* a fresh entry without records *)
Lemma Inv_add_empty t pt sp e :
  Inv t pt sp -> pe_ins e = [] -> pe_outs e = [] ->
  ~ In (key e) (map key pt) -> ~ In (pe_tok e) (map pe_tok pt) -> Inv t (pt ++ [e]) sp.
Proof.
  intros ([K1 K2 K3 K4 K5] & S & [A B C D]) Hi Ho Hk Ht.
  assert (M : forall x, In x (pt ++ [e]) -> In x pt \/ x = e).
  { intros x Hx. apply in_app_or in Hx. destruct Hx as [H|[H|[]]]; auto. }
  split; [|split; [exact S|]].
  - split.
    + rewrite map_app; cbn. apply NoDup_snoc; assumption.
    + rewrite map_app; cbn. apply NoDup_snoc; assumption.
    + intros x Hx. destruct (M x Hx) as [H| ->]; [auto|rewrite Hi; constructor].
    + intros x r Hx Hr. destruct (M x Hx) as [H| ->]; [eauto|rewrite Hi in Hr; destruct Hr].
    + intros x Hx Hne. destruct (M x Hx) as [H| ->]; [auto|congruence].
  - split.
    + intros x r Hx Hr. destruct (M x Hx) as [H| ->]; [eauto|rewrite Hi in Hr; destruct Hr].
    + intros p Hp Hlt. destruct (B p Hp Hlt) as (x & r & Hx & H). exists x, r. split; [apply in_or_app; left; exact Hx|exact H].
    + intros x q Hx Hne Hq. destruct (M x Hx) as [H| ->]; [eauto|congruence].
    + intros x o Hx Hoo. destruct (M x Hx) as [H| ->]; [eauto|rewrite Ho in Hoo; destruct Hoo].
Qed.

(* ---------------------------------------------------------------- InsertInRecord *)
Lemma insert_inrec_spec now f nonce life tok e0 e1 pending prev :
  insert_inrec now f nonce life tok e0 = (e1, pending, prev) ->
  NoDup (map ir_face (pe_ins e0)) ->
  let rn := {| ir_face := f; ir_nonce := nonce; ir_at := now; ir_exp := now + lifetime_of life; ir_tok := tok |} in
  key e1 = key e0 /\ pe_tok e1 = pe_tok e0 /\ pe_outs e1 = pe_outs e0 /\ pe_q e1 = pe_q e0 /\
  NoDup (map ir_face (pe_ins e1)) /\ In rn (pe_ins e1) /\
  (forall x, In x (pe_ins e1) -> x = rn \/ (In x (pe_ins e0) /\ ir_face x <> f)) /\
  (forall x, In x (pe_ins e0) -> ir_face x <> f -> In x (pe_ins e1)) /\
  (pending = false -> ~ In f (map ir_face (pe_ins e0)) /\ pe_ins e1 = pe_ins e0 ++ [rn]).
Proof.
  intros H ND rn. unfold insert_inrec in H. unfold lifetime_of in rn. fold rn in H.
  destruct (get_in (pe_ins e0) f) as [r|] eqn:G.
  - inversion H; subst; clear H. cbn.
    destruct (get_in_some _ _ _ G) as [Hr Hf].
    assert (Hin : In (ir_face rn) (map ir_face (pe_ins e0))) by (cbn; rewrite <- Hf; apply in_map; exact Hr).
    pose proof (put_in_faces (pe_ins e0) rn Hin) as F.
    assert (ND' : NoDup (map ir_face (put_in (pe_ins e0) rn))) by (rewrite F; exact ND).
    split; [reflexivity|]. split; [reflexivity|]. split; [reflexivity|]. split; [reflexivity|].
    split; [exact ND'|]. split; [apply put_in_new|].
    split; [|split; [|discriminate]].
    + intros x Hx. destruct (put_in_in _ _ _ Hx) as [-> |Hx0]; [left; reflexivity|].
      destruct (N.eq_dec (ir_face x) f) as [E|E]; [|right; auto].
      left. apply (NoDup_map_inj_in ir_face (put_in (pe_ins e0) rn)); auto. apply put_in_new.
    + intros x Hx Hne. apply put_in_keep; auto.
  - inversion H; subst; clear H. cbn.
    apply get_in_none_notin in G.
    split; [reflexivity|]. split; [reflexivity|]. split; [reflexivity|]. split; [reflexivity|].
    split; [rewrite map_app; cbn; apply NoDup_snoc; assumption|].
    split; [apply in_or_app; right; left; reflexivity|].
    split; [|split; [|intros _; split; [exact G|reflexivity]]].
    + intros x Hx. apply in_app_or in Hx. destruct Hx as [Hx|[<-|[]]]; [right|left; reflexivity].
      split; [exact Hx|]. intros E; apply G; rewrite <- E; apply in_map; exact Hx.
    + intros x Hx _. apply in_or_app; left; exact Hx.
Qed.

(* ---------------------------------------------------------------- an entry is re-queued (UpdateExpirationTimer), records unchanged *)
Lemma upd_expiry_fields now e :
  key (upd_expiry now e) = key e /\ pe_tok (upd_expiry now e) = pe_tok e /\ pe_ins (upd_expiry now e) = pe_ins e /\
  pe_outs (upd_expiry now e) = pe_outs e /\ pe_q (upd_expiry now e) = Some (max_exp now e).
Proof. repeat split. Qed.

Lemma in_group_eq e e' p : key e' = key e -> pe_tok e' = pe_tok e -> in_group e p -> in_group e' p.
Proof. unfold in_group. intros -> ->. auto. Qed.

Lemma Inv_requeue t now pre e0 post sp :
  Inv t (pre ++ e0 :: post) sp -> t <= now -> Inv now (pre ++ upd_expiry now e0 :: post) sp.
Proof.
  intros ([K1 K2 K3 K4 K5] & S & [A B C D]) Ht.
  set (e2 := upd_expiry now e0).
  assert (He0 : In e0 (pre ++ e0 :: post)) by (apply in_mid; auto).
  assert (O : forall x, In x pre \/ In x post -> In x (pre ++ e0 :: post)) by (intros x [H|H]; apply in_mid; auto).
  split; [|split; [exact S|]].
  - split.
    + rewrite (map_mid key pre e0 e2 post) by reflexivity. exact K1.
    + rewrite (map_mid pe_tok pre e0 e2 post) by reflexivity. exact K2.
    + intros x Hx. apply in_mid in Hx. destruct Hx as [H|[-> |H]]; [apply K3, O; auto|apply (K3 e0 He0)|apply K3, O; auto].
    + intros x r Hx Hr. apply in_mid in Hx. destruct Hx as [H|[-> |H]]; [apply (K4 x r); auto|  |apply (K4 x r); auto].
      exists (max_exp now e0). split; [reflexivity|]. apply max_exp_ge_in. exact Hr.
    + intros x Hx. apply in_mid in Hx. destruct Hx as [H|[-> |H]]; [apply K5, O; auto|apply (K5 e0 He0)|apply K5, O; auto].
  - split.
    + intros x r Hx Hr. apply in_mid in Hx. destruct Hx as [H|[-> |H]]; [apply (A x r); auto| |apply (A x r); auto].
      destruct (A e0 r He0 Hr) as (p & H1 & H2 & H3). exists p. split; [exact H1|]. split; [exact H2|exact H3].
    + intros p Hp Hlt. assert (Hlt' : t < p_exp p) by lia.
      destruct (B p Hp Hlt') as (x & r & Hx & Hg & Hr & H3).
      apply in_mid in Hx. destruct Hx as [H|[-> |H]].
      * exists x, r. split; [apply in_mid; auto|auto].
      * exists e2, r. split; [apply in_mid; auto|]. split; [exact Hg|]. split; [exact Hr|exact H3].
      * exists x, r. split; [apply in_mid; auto|auto].
    + intros x q Hx Hne Hq. apply in_mid in Hx. destruct Hx as [H|[-> |H]].
      * destruct (C x q (O x (or_introl H)) Hne Hq) as [H'|H']; [left; lia|right; exact H'].
      * cbn in Hq. inversion Hq; subst q; clear Hq.
        destruct (max_exp_cases now e0) as [E|[[r [Hr E]]|[o [Ho E]]]]; rewrite E.
        -- left; lia.
        -- right. destruct (A e0 r He0 Hr) as (p & H1 & H2 & _ & _ & H5). exists p. split; [exact H1|]. split; [exact H2|].
           rewrite <- H5. apply (sp_exp sp S p H1).
        -- destruct (D e0 o He0 Ho) as [H'|(p & H1 & H2 & H3)]; [left; lia|right]. exists p. auto.
      * destruct (C x q (O x (or_intror H)) Hne Hq) as [H'|H']; [left; lia|right; exact H'].
    + intros x o Hx Ho. apply in_mid in Hx. destruct Hx as [H|[-> |H]].
      * destruct (D x o (O x (or_introl H)) Ho) as [H'|H']; [left; lia|right; exact H'].
      * destruct (D e0 o He0 Ho) as [H'|H']; [left; lia|right; exact H'].
      * destruct (D x o (O x (or_intror H)) Ho) as [H'|H']; [left; lia|right; exact H'].
Qed.

(* ---------------------------------------------------------------- an Interest is taken as pending *)
Lemma Inv_pending t now pre e0 post sp f nonce life tok e1 pending prev e3 nm cbp mbf hint :
  Inv t (pre ++ e0 :: post) sp -> t <= now ->
  insert_inrec now f nonce life tok e0 = (e1, pending, prev) ->
  outs_ext (now + lifetime_out life) (upd_expiry now e1) e3 ->
  key e0 = (nm, cbp, mbf, hint) ->
  Inv now (pre ++ e3 :: post)
      (pend_upsert sp {| p_face := f; p_name := nm; p_cbp := cbp; p_mbf := mbf; p_hint := hint; p_utok := pe_tok e0;
                         p_dtok := tok; p_exp := now + lifetime_of life; p_expmax := now + lifetime_of life |}).
Proof.
  intros ([K1 K2 K3 K4 K5] & [S1 S2] & [A B C D]) Ht HI (X1 & X2 & X3 & X4 & X5) Hk.
  set (lt := lifetime_of life) in *.
  set (r0 := {| p_face := f; p_name := nm; p_cbp := cbp; p_mbf := mbf; p_hint := hint; p_utok := pe_tok e0;
                p_dtok := tok; p_exp := now + lt; p_expmax := now + lt |}).
  set (sp' := pend_upsert sp r0).
  assert (He0 : In e0 (pre ++ e0 :: post)) by (apply in_mid; auto).
  assert (O : forall x, In x pre \/ In x post -> In x (pre ++ e0 :: post)) by (intros x [H|H]; apply in_mid; auto).
  destruct (insert_inrec_spec now f nonce life tok e0 e1 pending prev HI (K3 e0 He0))
    as (I1 & I2 & I3 & I4 & I5 & I6 & I7 & I8 & _).
  fold lt in I6, I7.
  set (rn := {| ir_face := f; ir_nonce := nonce; ir_at := now; ir_exp := now + lt; ir_tok := tok |}) in *.
  destruct (upd_expiry_fields now e1) as (U1 & U2 & U3 & U4 & U5).
  rewrite U3 in X1; rewrite U1 in X2; rewrite U2 in X3; rewrite U5 in X4.
  assert (Ek : key e3 = key e0) by congruence.
  assert (Et : pe_tok e3 = pe_tok e0) by congruence.
  assert (Sr0 : slot r0 = (f, key e0, pe_tok e0)) by (unfold slot, pkey; cbn; rewrite Hk; reflexivity).
  assert (G0 : forall p, slot p = slot r0 -> in_group e3 p).
  { intros p E. rewrite Sr0 in E. apply slot_inv in E. destruct E as (E1 & E2 & E3). split; congruence. }
  (* the table after the upsert *)
  assert (S1' : NoDup (map slot sp')) by (apply upsert_NoDup; exact S1).
  assert (S2' : forall p, In p sp' -> p_exp p <= p_expmax p).
  { intros p Hp. destruct (upsert_cases sp r0 p Hp) as [H|(_ & _ & H3 & H4)]; [auto|]. rewrite H3. cbn in *. lia. }
  destruct (upsert_new sp r0) as (pn & N1 & N2 & N3 & N4 & N5). fold sp' in N1. cbn in N3, N4, N5.
  (* records of other entries survive the upsert *)
  assert (OT : forall x p, In x pre \/ In x post -> In p sp -> in_group x p -> In p sp').
  { intros x p Hx Hp [G1 G2]. apply upsert_old; [exact Hp|]. rewrite Sr0. intros E. apply slot_inv in E. destruct E as (E1 & E2 & E3).
    apply (NoDup_mid_neq key pre e0 post x K1 Hx). congruence. }
  (* witnesses of the updated entry *)
  assert (A3 : forall r, In r (pe_ins e1) -> exists p, In p sp' /\ in_group e3 p /\ p_face p = ir_face r /\ p_dtok p = ir_tok r /\ p_exp p = ir_exp r).
  { intros r Hr. destruct (I7 r Hr) as [-> |[Hr0 Hf]].
    - exists pn. split; [exact N1|]. split; [apply G0, N2|]. split; [|split; [exact N3|exact N4]].
      assert (E := N2). rewrite Sr0 in E. apply slot_inv in E. destruct E as (E1 & _ & _). exact E1.
    - destruct (A e0 r He0 Hr0) as (p & H1 & H2 & H3 & H4 & H5). exists p.
      split; [|split; [eapply in_group_eq; [exact Ek|exact Et|exact H2]|auto]].
      apply upsert_old; [exact H1|]. rewrite Sr0. intros E. apply slot_inv in E. destruct E as (E1 & _ & _). congruence. }
  assert (MONO : forall p, In p sp -> in_group e0 p -> exists p', In p' sp' /\ in_group e3 p' /\ p_expmax p <= p_expmax p').
  { intros p Hp [G1 G2]. destruct (upsert_mono sp r0 p Hp) as (p' & H1 & H2 & H3 & _). exists p'. split; [exact H1|]. split; [|exact H3].
    apply slot_eq_inv in H2. destruct H2 as (_ & E2 & E3). split; congruence. }
  split; [|split; [split; [exact S1'|exact S2']|]].
  - split.
    + rewrite (map_mid key pre e0 e3 post) by exact Ek. exact K1.
    + rewrite (map_mid pe_tok pre e0 e3 post) by exact Et. exact K2.
    + intros x Hx. apply in_mid in Hx. destruct Hx as [H|[-> |H]]; [apply K3, O; auto|rewrite X1; exact I5|apply K3, O; auto].
    + intros x r Hx Hr. apply in_mid in Hx. destruct Hx as [H|[-> |H]]; [apply (K4 x r); auto| |apply (K4 x r); auto].
      exists (max_exp now e1). split; [exact X4|]. rewrite X1 in Hr. apply max_exp_ge_in. exact Hr.
    + intros x Hx. apply in_mid in Hx. destruct Hx as [H|[-> |H]]; [apply K5, O; auto| |apply K5, O; auto].
      intros _. rewrite X1. intros E. rewrite E in I6. destruct I6.
  - split.
    + intros x r Hx Hr. apply in_mid in Hx. destruct Hx as [H|[-> |H]].
      * destruct (A x r (O x (or_introl H)) Hr) as (p & H1 & H2 & H3). exists p. split; [eapply OT; eauto|auto].
      * rewrite X1 in Hr. apply A3, Hr.
      * destruct (A x r (O x (or_intror H)) Hr) as (p & H1 & H2 & H3). exists p. split; [eapply OT; eauto|auto].
    + intros p Hp Hlt.
      destruct (same_slot p r0) eqn:SS.
      * apply same_slot_spec in SS.
        assert (p = pn) by (apply (NoDup_map_inj_in slot sp'); auto; congruence). subst p.
        exists e3, rn. split; [apply in_mid; auto|]. split; [apply G0, N2|]. split; [rewrite X1; exact I6|].
        cbn. split; [|split; [congruence|congruence]].
        assert (E := N2). rewrite Sr0 in E. apply slot_inv in E. destruct E as (E1 & _ & _). congruence.
      * apply same_slot_false in SS.
        destruct (upsert_cases sp r0 p Hp) as [Hp0|(H1 & _)]; [|contradiction].
        assert (Hlt' : t < p_exp p) by lia.
        destruct (B p Hp0 Hlt') as (x & r & Hx & Hg & Hr & H3 & H4 & H5).
        apply in_mid in Hx. destruct Hx as [H|[-> |H]].
        -- exists x, r. split; [apply in_mid; auto|auto].
        -- exists e3, r. split; [apply in_mid; auto|]. split; [eapply in_group_eq; [exact Ek|exact Et|exact Hg]|].
           split; [|auto]. rewrite X1. apply I8; [exact Hr|].
           intros E. apply SS. rewrite Sr0. destruct Hg as [G1 G2]. unfold slot. congruence.
        -- exists x, r. split; [apply in_mid; auto|auto].
    + intros x q Hx Hne Hq. apply in_mid in Hx. destruct Hx as [H|[-> |H]].
      * destruct (C x q (O x (or_introl H)) Hne Hq) as [H'|(p & H1 & H2 & H3)]; [left; lia|right].
        exists p. split; [eapply OT; eauto|auto].
      * rewrite X4 in Hq. inversion Hq; subst q; clear Hq.
        destruct (max_exp_cases now e1) as [E|[[r [Hr E]]|[o [Ho E]]]]; rewrite E.
        -- left; lia.
        -- right. destruct (A3 r Hr) as (p & H1 & H2 & _ & _ & H5). exists p. split; [exact H1|]. split; [exact H2|].
           rewrite <- H5. apply S2', H1.
        -- rewrite I3 in Ho. destruct (D e0 o He0 Ho) as [H'|(p & H1 & H2 & H3)]; [left; lia|right].
           destruct (MONO p H1 H2) as (p' & M1 & M2 & M3). exists p'. split; [exact M1|]. split; [exact M2|lia].
      * destruct (C x q (O x (or_intror H)) Hne Hq) as [H'|(p & H1 & H2 & H3)]; [left; lia|right].
        exists p. split; [eapply OT; eauto|auto].
    + intros x o Hx Ho. apply in_mid in Hx. destruct Hx as [H|[-> |H]].
      * destruct (D x o (O x (or_introl H)) Ho) as [H'|(p & H1 & H2 & H3)]; [left; lia|right].
        exists p. split; [eapply OT; eauto|auto].
      * destruct (X5 o Ho) as [Ho'|Eo].
        -- rewrite U4, I3 in Ho'. destruct (D e0 o He0 Ho') as [H'|(p & H1 & H2 & H3)]; [left; lia|right].
           destruct (MONO p H1 H2) as (p' & M1 & M2 & M3). exists p'. split; [exact M1|]. split; [exact M2|lia].
        -- right. exists pn. split; [exact N1|]. split; [apply G0, N2|]. rewrite Eo.
           pose proof (lifetime_out_le life). unfold lt in N5. lia.
      * destruct (D x o (O x (or_intror H)) Ho) as [H'|(p & H1 & H2 & H3)]; [left; lia|right].
        exists p. split; [eapply OT; eauto|auto].
Qed.

(* ---------------------------------------------------------------- Data satisfies a set of entries *)
Lemma satisfy_fields now e : key (satisfy now e) = key e /\ pe_tok (satisfy now e) = pe_tok e.
Proof. split; reflexivity. Qed.

Lemma Inv_satisfy t now pt sp (M : pite -> bool) (S : prec -> bool) :
  Inv t pt sp -> t <= now ->
  (forall e p, In e pt -> In p sp -> in_group e p -> S p = M e) ->
  Inv now (map (fun e => if M e then satisfy now e else e) pt) (filter (fun p => negb (S p)) sp).
Proof.
  intros ([K1 K2 K3 K4 K5] & [S1 S2] & [A B C D]) Ht HMS.
  set (g := fun e => if M e then satisfy now e else e).
  assert (Gk : forall e, key (g e) = key e) by (intros e; unfold g; destruct (M e); reflexivity).
  assert (Gt : forall e, pe_tok (g e) = pe_tok e) by (intros e; unfold g; destruct (M e); reflexivity).
  assert (Gid : forall e, M e = false -> g e = e) by (intros e H; unfold g; rewrite H; reflexivity).
  assert (Gs : forall e, M e = true -> pe_ins (g e) = [] /\ pe_outs (g e) = []) by (intros e H; unfold g; rewrite H; split; reflexivity).
  split; [|split].
  - split.
    + rewrite map_map. rewrite (map_ext _ key Gk). exact K1.
    + rewrite map_map. rewrite (map_ext _ pe_tok Gt). exact K2.
    + intros x Hx. apply in_map_iff in Hx. destruct Hx as [e [<- He]].
      destruct (M e) eqn:Me; [destruct (Gs e Me) as [-> _]; constructor|rewrite (Gid e Me); auto].
    + intros x r Hx Hr. apply in_map_iff in Hx. destruct Hx as [e [<- He]].
      destruct (M e) eqn:Me; [destruct (Gs e Me) as [E _]; rewrite E in Hr; destruct Hr|rewrite (Gid e Me) in *; eauto].
    + intros x Hx. apply in_map_iff in Hx. destruct Hx as [e [<- He]].
      destruct (M e) eqn:Me; [destruct (Gs e Me) as [_ E]; congruence|rewrite (Gid e Me); auto].
  - split.
    + apply NoDup_map_filter; exact S1.
    + intros p Hp. apply filter_In in Hp. apply S2, Hp.
  - split.
    + intros x r Hx Hr. apply in_map_iff in Hx. destruct Hx as [e [<- He]].
      destruct (M e) eqn:Me; [destruct (Gs e Me) as [E _]; rewrite E in Hr; destruct Hr|].
      rewrite (Gid e Me) in *. destruct (A e r He Hr) as (p & H1 & H2 & H3). exists p. split; [|auto].
      apply filter_In. split; [exact H1|]. rewrite (HMS e p He H1 H2), Me. reflexivity.
    + intros p Hp Hlt. apply filter_In in Hp. destruct Hp as [Hp Sp]. assert (Hlt' : t < p_exp p) by lia.
      destruct (B p Hp Hlt') as (e & r & He & Hg & H3). exists e, r. split; [|auto].
      assert (Me : M e = false) by (rewrite <- (HMS e p He Hp Hg); destruct (S p); [discriminate|reflexivity]).
      rewrite <- (Gid e Me). apply in_map; exact He.
    + intros x q Hx Hne Hq. apply in_map_iff in Hx. destruct Hx as [e [<- He]].
      destruct (M e) eqn:Me; [destruct (Gs e Me) as [E _]; congruence|].
      rewrite (Gid e Me) in *. destruct (C e q He Hne Hq) as [H'|(p & H1 & H2 & H3)]; [left; lia|right].
      exists p. split; [|auto]. apply filter_In. split; [exact H1|]. rewrite (HMS e p He H1 H2), Me. reflexivity.
    + intros x o Hx Ho. apply in_map_iff in Hx. destruct Hx as [e [<- He]].
      destruct (M e) eqn:Me; [destruct (Gs e Me) as [_ E]; rewrite E in Ho; destruct Ho|].
      rewrite (Gid e Me) in *. destruct (D e o He Ho) as [H'|(p & H1 & H2 & H3)]; [left; lia|right].
      exists p. split; [|auto]. apply filter_In. split; [exact H1|]. rewrite (HMS e p He H1 H2), Me. reflexivity.
Qed.

(* ---------------------------------------------------------------- the reaper *)
Lemma due_false now e q : pe_q e = Some q -> due now e = false -> now < q.
Proof. unfold due. intros ->. intros H. apply N.leb_gt in H. exact H. Qed.

Lemma pend_tick_in sp now p p' : In p sp -> In p' sp -> same_group p p' = true -> now < p_expmax p' -> In p (pend_tick sp now).
Proof.
  intros Hp Hp' G L. unfold pend_tick. apply filter_In. split; [exact Hp|].
  apply existsb_exists. exists p'. split; [exact Hp'|]. rewrite G. cbn. apply N.ltb_lt, L.
Qed.

Lemma in_group_same e p p' : in_group e p -> in_group e p' -> same_group p p' = true.
Proof. intros [G1 G2] [G3 G4]. apply same_group_spec. split; congruence. Qed.

Lemma Inv_reap t now pt pt' sp :
  Inv t pt sp -> t <= now -> incl pt' pt -> (forall x, In x pt' -> due now x = false) ->
  (forall x, In x pt -> due now x = false -> In x pt') ->
  NoDup (map key pt') -> NoDup (map pe_tok pt') -> Inv now pt' (pend_tick sp now).
Proof.
  intros ([K1 K2 K3 K4 K5] & [S1 S2] & [A B C D]) Ht I ND KEEP N1 N2.
  assert (SUB : forall p, In p (pend_tick sp now) -> In p sp) by (intros p Hp; apply filter_In in Hp; apply Hp).
  (* the group of a surviving entry with in-records survives *)
  assert (LIVE : forall e, In e pt' -> pe_ins e <> [] -> exists q p', pe_q e = Some q /\ now < q /\ In p' sp /\ in_group e p' /\ q <= p_expmax p').
  { intros e He Hne. destruct (pe_ins e) as [|r rs] eqn:Ei; [congruence|].
    destruct (K4 e r (I e He)) as (q & Hq & _); [rewrite Ei; left; reflexivity|].
    pose proof (due_false now e q Hq (ND e He)) as L.
    destruct (C e q (I e He)) as [H'|(p' & H1 & H2 & H3)]; [rewrite Ei; discriminate|exact Hq|lia|].
    exists q, p'. auto. }
  split; [|split].
  - split; auto.
  - split; [apply NoDup_map_filter; exact S1|intros p Hp; apply S2, SUB, Hp].
  - split.
    + intros e r He Hr. destruct (A e r (I e He) Hr) as (p & H1 & H2 & H3).
      exists p. split; [|auto].
      destruct (LIVE e He) as (q & p' & Hq & L & P1 & P2 & P3); [intros E; rewrite E in Hr; destruct Hr|].
      apply (pend_tick_in sp now p p'); auto; [eapply in_group_same; eassumption|lia].
    + intros p Hp Hlt. assert (Hlt' : t < p_exp p) by lia.
      destruct (B p (SUB p Hp) Hlt') as (e & r & He & Hg & Hr & H3 & H4 & H5).
      exists e, r. split; [|auto]. apply KEEP; [exact He|].
      destruct (K4 e r He Hr) as (q & Hq & Hle). unfold due. rewrite Hq. apply N.leb_gt. lia.
    + intros e q He Hne Hq. destruct (LIVE e He Hne) as (q' & p' & Hq' & L & P1 & P2 & P3).
      assert (q' = q) by congruence. subst q'. right. exists p'. split; [|auto].
      apply (pend_tick_in sp now p' p'); auto; [eapply in_group_same; eassumption|lia].
    + intros e o He Ho.
      assert (Hne : pe_ins e <> []) by (apply K5; [apply I, He|intros E; rewrite E in Ho; destruct Ho]).
      destruct (LIVE e He Hne) as (q & p' & Hq & L & P1 & P2 & P3).
      destruct (D e o (I e He) Ho) as [H'|(p & H1 & H2 & H3)]; [left; lia|right].
      exists p. split; [|auto]. apply (pend_tick_in sp now p p'); auto; [eapply in_group_same; eassumption|lia].
Qed.
