(* Fw/C01.v — proofs for property C01 (Data is delivered exactly to the faces with a matching pending Interest). *)
From Coq Require Import List NArith Arith Bool Lia Permutation.
From Base Require Import Bytes.
From Fw Require Import Model Spec Run Lemmas Inv Refine.
Import ListNotations.
Open Scope N_scope.

(* ---------------------------------------------------------------- generic: multiset inclusion through an identifying key *)
Lemma NoDup_app_intro {A} (l l' : list A) : NoDup l -> NoDup l' -> (forall a, In a l -> ~ In a l') -> NoDup (l ++ l').
Proof.
  induction l as [|a l IH]; cbn; intros N1 N2 D; [exact N2|].
  inversion N1 as [|? ? Hn N1']; subst. constructor.
  - intros Hin. apply in_app_or in Hin. destruct Hin as [H|H]; [contradiction|]. apply (D a); auto.
  - apply IH; [exact N1'|exact N2|]. intros x Hx. apply D. right; exact Hx.
Qed.

Lemma sub_multiset_inj {A B K} (f : A -> N * bytes) (g : B -> N * bytes) (ida : A -> K) (idb : B -> K) (l : list A) :
  forall l' : list B,
  NoDup (map ida l) -> NoDup (map idb l') ->
  (forall x, In x l -> exists y, In y l' /\ idb y = ida x /\ g y = f x) ->
  exists rest, Permutation (map g l') (map f l ++ rest).
Proof.
  induction l as [|x l IH]; intros l' N1 N2 H; cbn; [exists (map g l'); apply Permutation_refl|].
  cbn in N1. inversion N1 as [|? ? Hn N1']; subst.
  destruct (H x (or_introl eq_refl)) as (y & Hy & Ey & Gy).
  destruct (in_split y l' Hy) as (l1 & l2 & ->).
  assert (N2' : NoDup (map idb (l1 ++ l2))).
  { rewrite map_app in *. cbn in N2. apply NoDup_remove_1 in N2. exact N2. }
  assert (H' : forall x', In x' l -> exists y', In y' (l1 ++ l2) /\ idb y' = ida x' /\ g y' = f x').
  { intros x' Hx'. destruct (H x' (or_intror Hx')) as (y' & Hy' & Ey' & Gy').
    exists y'. split; [|auto].
    apply in_app_or in Hy'. apply in_or_app. destruct Hy' as [Hl|[Hl|Hl]]; auto.
    subst y'. exfalso. apply Hn. rewrite <- Ey, Ey'. apply in_map. exact Hx'. }
  destruct (IH (l1 ++ l2) N1' N2' H') as [rest P].
  exists rest. rewrite map_app. cbn. eapply perm_trans; [apply Permutation_sym, Permutation_middle|].
  rewrite Gy. apply perm_skip. rewrite <- map_app. exact P.
Qed.

Lemma NoDup_flat_filter {A B} (f : A -> B) (P : nat -> A -> bool) (p : list A) (ks : list nat) :
  NoDup (map f p) -> NoDup ks ->
  (forall e k k', In k ks -> In k' ks -> P k e = true -> P k' e = true -> k = k') ->
  NoDup (map f (flat_map (fun k => filter (P k) p) ks)).
Proof.
  intros ND NK U. induction ks as [|k ks IH]; cbn; [constructor|].
  inversion NK as [|? ? Hn NK']; subst. rewrite map_app. apply NoDup_app_intro.
  - apply NoDup_map_filter, ND.
  - apply IH; [exact NK'|]. intros e k1 k2 H1 H2. apply U; right; assumption.
  - intros a Ha Hb. apply in_map_iff in Ha. destruct Ha as (e & <- & He). apply filter_In in He. destruct He as [He Pe].
    apply in_map_iff in Hb. destruct Hb as (e' & Ee & He'). apply in_flat_map in He'. destruct He' as (k' & Hk' & He').
    apply filter_In in He'. destruct He' as [He' Pe'].
    assert (e' = e) by (apply (NoDup_map_inj_in f p); auto). subst e'.
    assert (k = k') by (apply (U e); auto; [left; reflexivity|right; exact Hk']). subst. contradiction.
Qed.

(* ---------------------------------------------------------------- the matches of a Data are distinct entries *)
Lemma data_matches_NoDup p dn t : NoDup (map pe_tok p) -> NoDup (map pe_tok (data_matches p dn t)).
Proof.
  intros ND. unfold data_matches. destruct t as [tk|]; [apply NoDup_map_filter, ND|].
  unfold match_by_name. apply NoDup_flat_filter; [exact ND|apply NoDup_rev, seq_NoDup|].
  intros e k k' Hk Hk' H1 H2. unfold name_rule in *.
  rewrite <- in_rev in Hk, Hk'. apply in_seq in Hk. apply in_seq in Hk'.
  apply andb_true_iff in H1. destruct H1 as [H1 _]. apply andb_true_iff in H2. destruct H2 as [H2 _].
  apply name_eqb_spec in H1. apply name_eqb_spec in H2.
  assert (L1 : length (pe_name e) = k) by (rewrite H1; apply firstn_length_le; lia).
  assert (L2 : length (pe_name e) = k') by (rewrite H2; apply firstn_length_le; lia).
  congruence.
Qed.

(* ---------------------------------------------------------------- the sends of the Data pipeline *)
Definition sendable (fs : list face) (n : name) (f : N) : bool :=
  match get_face fs f with
  | Some g => negb (negb (f_local g) && code_localhost n)
  | None => false
  end.

Lemma send_data_sendable fs n f tok :
  send_data fs n f tok = if sendable fs n f then [{| o_face := f; o_kind := KData; o_name := n; o_hop := None; o_tok := tok |}] else [].
Proof.
  unfold send_data, sendable. destruct (get_face fs f) as [g|]; [|reflexivity].
  destruct (negb (f_local g) && code_localhost n); reflexivity.
Qed.

Lemma sendable_deliverable fs n f : sendable fs n f = deliverable fs n f.
Proof.
  unfold sendable, deliverable. destruct (get_face fs f) as [g|]; [|reflexivity].
  change (code_localhost n) with (spec_localhost n). destruct (f_local g), (spec_localhost n); reflexivity.
Qed.

(* in-records of a matched entry that get a copy: all (single match) or all but the arrival face (several matches),
   provided the face exists and the scope allows *)
Definition keeps (fs : list face) (d : data) (single : bool) (r : inrec) : bool :=
  negb (negb single && (ir_face r =? d_face d)) && sendable fs (d_name d) (ir_face r).

Definition is_single {A} (ms : list A) : bool := match ms with [_] => true | _ => false end.

Definition pairs (fs : list face) (d : data) (ms : list pite) : list (pite * inrec) :=
  flat_map (fun e => map (fun r => (e, r)) (filter (keeps fs d (is_single ms)) (pe_ins e))) ms.

Definition mk_data (n : name) (er : pite * inrec) : out :=
  {| o_face := ir_face (snd er); o_kind := KData; o_name := n; o_hop := None; o_tok := ir_tok (snd er) |}.

Lemma inner_sends fs d single e l :
  flat_map (fun r => if negb single && (ir_face r =? d_face d) then [] else send_data fs (d_name d) (ir_face r) (ir_tok r)) l =
  map (mk_data (d_name d)) (map (fun r => (e, r)) (filter (keeps fs d single) l)).
Proof.
  induction l as [|r l IH]; cbn; [reflexivity|].
  unfold keeps at 1. rewrite send_data_sendable.
  destruct (negb single && (ir_face r =? d_face d)); cbn.
  - exact IH.
  - destruct (sendable fs (d_name d) (ir_face r)); cbn; [f_equal|]; exact IH.
Qed.

Lemma map_flat_map_own {A B C} (g : B -> C) (h : A -> list B) l : map g (flat_map h l) = flat_map (fun x => map g (h x)) l.
Proof. induction l as [|a l IH]; cbn; [reflexivity|]. rewrite map_app, IH. reflexivity. Qed.

Lemma data_thread_outs s now d t :
  r_outs (step_data_thread s now d t) =
  if data_effective (faces s) d
  then map (mk_data (d_name d)) (pairs (faces s) d (data_matches (pit s) (d_name d) t))
  else [].
Proof.
  unfold step_data_thread, data_effective.
  destruct (get_face (faces s) (d_face d)) as [inf|]; [|reflexivity].
  change (code_localhost (d_name d)) with (spec_localhost (d_name d)).
  destruct (negb (f_local inf) && spec_localhost (d_name d)); [reflexivity|]. cbn [negb]. cbv zeta.
  remember (if cs_admit s then cs_insert s now (d_name d) (d_fresh d) else s) as s1 eqn:Es1.
  assert (P1 : pit s1 = pit s) by (rewrite Es1; destruct (cs_admit s); [apply cs_insert_pit|reflexivity]).
  assert (F1 : faces s1 = faces s).
  { rewrite Es1; destruct (cs_admit s); [|reflexivity]. unfold cs_insert. destruct (cs_get (cs s) (d_name d)); [reflexivity|].
    destruct (cs_evict _ _ _ _); reflexivity. }
  clear Es1. rewrite P1, F1.
  destruct (data_matches (pit s) (d_name d) t) as [|m0 rest] eqn:MS; [reflexivity|].
  cbn [r_outs res]. unfold pairs.
  set (ms := m0 :: rest).
  assert (SG : negb match rest with [] => true | _ :: _ => false end = negb (is_single ms)) by (destruct rest; reflexivity).
  rewrite map_flat_map_own. apply flat_map_ext. intros e. rewrite SG. apply inner_sends.
Qed.

(* ---------------------------------------------------------------- identifying key of an emission: face and entry *)
Definition pair_id (er : pite * inrec) : N * gkey * N := (ir_face (snd er), key (fst er), pe_tok (fst er)).
Definition pair_ft (er : pite * inrec) : N * bytes := (ir_face (snd er), ir_tok (snd er)).

Lemma pairs_gen_NoDup (keepf : inrec -> bool) (ms : list pite) :
  NoDup (map pe_tok ms) -> (forall e, In e ms -> NoDup (map ir_face (pe_ins e))) ->
  NoDup (map pair_id (flat_map (fun e => map (fun r => (e, r)) (filter keepf (pe_ins e))) ms)).
Proof.
  induction ms as [|e ms IH]; cbn; intros NT NF; [constructor|].
  inversion NT as [|? ? Hn NT']; subst. rewrite map_app. apply NoDup_app_intro.
  - rewrite map_map. unfold pair_id; cbn.
    assert (NDf : NoDup (map ir_face (filter keepf (pe_ins e)))) by (apply NoDup_map_filter, NF; left; reflexivity).
    revert NDf. generalize (filter keepf (pe_ins e)). intros l. induction l as [|r l IHl]; cbn; intros ND; [constructor|].
    inversion ND as [|? ? Hr ND']; subst. constructor; [|apply IHl, ND'].
    intros Hin. apply Hr. apply in_map_iff in Hin. destruct Hin as (r' & E & Hr'). apply in_map_iff. exists r'. split; [congruence|exact Hr'].
  - apply IH; [exact NT'|]. intros x Hx. apply NF. right; exact Hx.
  - intros a Ha Hb. apply in_map_iff in Ha. destruct Ha as (x & <- & Hx). apply in_map_iff in Hx. destruct Hx as (r & <- & Hr).
    apply in_map_iff in Hb. destruct Hb as (y & Ey & Hy). apply in_flat_map in Hy. destruct Hy as (e' & He' & Hy).
    apply in_map_iff in Hy. destruct Hy as (r' & <- & Hr'). unfold pair_id in Ey; cbn in Ey.
    apply Hn. apply in_map_iff. exists e'. split; [congruence|exact He'].
Qed.

Lemma in_pairs fs d ms e r :
  In (e, r) (pairs fs d ms) <-> In e ms /\ In r (pe_ins e) /\ keeps fs d (is_single ms) r = true.
Proof.
  unfold pairs. rewrite in_flat_map. split.
  - intros (e' & He' & H). apply in_map_iff in H. destruct H as (r' & E & Hr'). inversion E; subst.
    apply filter_In in Hr'. tauto.
  - intros (He & Hr & Hk). exists e. split; [exact He|]. apply in_map. apply filter_In. auto.
Qed.

(* ---------------------------------------------------------------- (a) and (b) for the thread-level Data pipeline *)
Section Delivery.
  Variables (t : N) (s : fw) (sp : pend) (now : N) (d : data) (topt : option N) (th : N).
  Hypothesis I : Inv t (pit s) sp.
  Hypothesis Ht : t <= now.
  Hypothesis HT : match topt with
                  | Some tk => data_token (d_tok d) = Some (th, tk) /\ th = tid s
                  | None => data_token (d_tok d) = None
                  end.

  Let ms := data_matches (pit s) (d_name d) topt.

  Lemma ms_NoDup : NoDup (map pe_tok ms).
  Proof. destruct I as ([_ K2 _ _ _] & _). apply data_matches_NoDup, K2. Qed.

  Lemma ms_in e : In e ms -> In e (pit s).
  Proof. intros H. apply data_matches_in in H. apply H. Qed.

  Lemma ms_sat e p : In e (pit s) -> in_group e p -> sat_rec (tid s) d p = true <-> In e ms.
  Proof.
    intros He Hg. destruct I as ([_ K2 _ _ _] & _).
    rewrite (sat_rec_matched s d topt e p th K2 He Hg HT). rewrite (is_matched_iff _ _ _ _ K2 He).
    unfold ms. rewrite data_matches_in. tauto.
  Qed.

  Lemma thread_only_pending :
    c01_data_only_pending (faces s) (tid s) sp d (r_outs (step_data_thread s now d topt)) = true.
  Proof.
    rewrite data_thread_outs. unfold c01_data_only_pending.
    destruct (data_effective (faces s) d); [|reflexivity].
    fold ms. apply andb_true_iff. split.
    - apply forallb_forall. intros o Ho. apply in_map_iff in Ho. destruct Ho as (er & <- & _).
      unfold is_data_out, mk_data; cbn. apply name_eqb_refl.
    - rewrite map_map. apply sub_multiset_perm.
      change (fun x : pite * inrec => (o_face (mk_data (d_name d) x), o_tok (mk_data (d_name d) x))) with pair_ft.
      destruct I as ([K1 K2 K3 K4 K5] & [S1 S2] & [A B C D]).
      apply (sub_multiset_inj pair_ft (fun p => (p_face p, p_dtok p)) pair_id slot).
      + apply pairs_gen_NoDup; [apply ms_NoDup|]. intros e He. apply K3, ms_in, He.
      + apply NoDup_map_filter, S1.
      + intros [e r] Hx. apply in_pairs in Hx. destruct Hx as (He & Hr & _).
        destruct (A e r (ms_in e He) Hr) as (p & H1 & H2 & H3 & H4 & _).
        exists p. split; [|split].
        * apply filter_In. split; [exact H1|]. apply (ms_sat e p (ms_in e He) H2). exact He.
        * destruct H2 as [G1 G2]. unfold slot, pair_id; cbn. congruence.
        * unfold pair_ft; cbn. congruence.
  Qed.

  Lemma thread_complete :
    c01_data_complete (faces s) (tid s) now sp d (r_outs (step_data_thread s now d topt)) = true.
  Proof.
    rewrite data_thread_outs. unfold c01_data_complete.
    destruct (data_effective (faces s) d); [|reflexivity]. cbn [negb orb].
    fold ms. rewrite map_map. apply sub_multiset_perm.
    change (fun x : pite * inrec => (o_face (mk_data (d_name d) x), o_tok (mk_data (d_name d) x))) with pair_ft.
    destruct I as ([K1 K2 K3 K4 K5] & [S1 S2] & [A B C D]).
    apply (sub_multiset_inj (fun p => (p_face p, p_dtok p)) pair_ft slot pair_id).
    - apply NoDup_map_filter, S1.
    - apply pairs_gen_NoDup; [apply ms_NoDup|]. intros e He. apply K3, ms_in, He.
    - intros p Hp. apply filter_In in Hp. destruct Hp as [Hp Hc].
      apply andb_true_iff in Hc. destruct Hc as [Hc Hdel]. apply andb_true_iff in Hc. destruct Hc as [Hc Hface].
      apply andb_true_iff in Hc. destruct Hc as [Hsat Hexp]. apply N.ltb_lt in Hexp.
      assert (Hlt : t < p_exp p) by lia.
      destruct (B p Hp Hlt) as (e & r & He & Hg & Hr & F1 & F2 & _).
      assert (Hm : In e ms) by (apply (ms_sat e p He Hg); exact Hsat).
      exists (e, r). split; [|split].
      + apply in_pairs. split; [exact Hm|]. split; [exact Hr|].
        unfold keeps. rewrite F1. apply negb_true_iff in Hface. rewrite Hface, andb_false_r. cbn.
        rewrite sendable_deliverable. exact Hdel.
      + destruct Hg as [G1 G2]. unfold slot, pair_id; cbn. congruence.
      + unfold pair_ft; cbn. congruence.
  Qed.
End Delivery.

(* ---------------------------------------------------------------- lifted through the dispatch *)
Lemma sub_multiset_nil_l pool : sub_multiset [] pool = true. Proof. reflexivity. Qed.

Theorem data_delivery t s sp now d ch :
  Inv t (pit s) sp -> t <= now ->
  c01_data_only_pending (faces s) (tid s) sp d (r_outs (step s (EData now d) ch)) = true /\
  c01_data_complete (faces s) (tid s) now sp d (r_outs (step s (EData now d) ch)) = true.
Proof.
  intros I Ht. cbn [step]. unfold step_data.
  destruct (data_token (d_tok d)) as [[th tk]|] eqn:DT.
  - destruct (th =? tid s) eqn:E.
    + apply N.eqb_eq in E.
      assert (HT : data_token (d_tok d) = Some (th, tk) /\ th = tid s) by (split; [exact DT|exact E]).
      split.
      * eapply (thread_only_pending t s sp now d (Some tk) th); eassumption.
      * eapply (thread_complete t s sp now d (Some tk) th); eassumption.
    + cbn [r_outs res]. split; [unfold c01_data_only_pending; reflexivity|].
      unfold c01_data_complete. destruct (data_effective (faces s) d); [|reflexivity]. cbn [negb orb].
      assert (NS : forall p, sat_rec (tid s) d p = false) by (intros p; unfold sat_rec; rewrite DT, E; reflexivity).
      assert (F : forall l, filter (fun p => sat_rec (tid s) d p && (now <? p_exp p) && negb (p_face p =? d_face d) &&
                                             deliverable (faces s) (d_name d) (p_face p)) l = []).
      { induction l as [|p l IH]; cbn; [reflexivity|]. rewrite NS. cbn. exact IH. }
      rewrite F. reflexivity.
  - split.
    + eapply (thread_only_pending t s sp now d None 0); [eassumption|exact DT].
    + eapply (thread_complete t s sp now d None 0); [eassumption|eassumption|exact DT].
Qed.

(* ---------------------------------------------------------------- histories *)
Lemma run_app h1 : forall s sp t h2,
  run s sp t (h1 ++ h2) = let '(s1, sp1, t1) := run s sp t h1 in run s1 sp1 t1 h2.
Proof.
  induction h1 as [|[e c] r IH]; intros s sp t h2; cbn; [reflexivity|]. apply IH.
Qed.

Lemma mono_app h1 : forall s sp t h2, mono t (h1 ++ h2) ->
  let '(s1, sp1, t1) := run s sp t h1 in mono t h1 /\ mono t1 h2.
Proof.
  induction h1 as [|[e c] r IH]; intros s sp t h2; cbn; [auto|].
  intros [M1 M2]. specialize (IH (r_st (step s e c)) (spec_step s sp e (step s e c)) (new_time t e) h2 M2).
  destruct (run (r_st (step s e c)) (spec_step s sp e (step s e c)) (new_time t e) r) as [[s1 sp1] t1].
  destruct IH as [H1 H2]. auto.
Qed.

Theorem data_delivery_history s0 (h : history) now d ch :
  pit s0 = [] -> mono 0 (h ++ [(EData now d, ch)]) ->
  let '(s, sp, _) := run s0 [] 0 h in
  c01_data_only_pending (faces s) (tid s) sp d (r_outs (step s (EData now d) ch)) = true /\
  c01_data_complete (faces s) (tid s) now sp d (r_outs (step s (EData now d) ch)) = true.
Proof.
  intros P0 M. pose proof (mono_app h s0 [] 0 _ M) as MA.
  assert (I0 : Inv 0 (pit s0) []) by (rewrite P0; apply Inv_init).
  pose proof (run_inv h s0 [] 0 I0) as RI.
  destruct (run s0 [] 0 h) as [[s sp] t]. destruct MA as [M1 M2]. specialize (RI M1).
  cbn in M2. destruct M2 as [M2 _]. apply (data_delivery t); [exact RI|apply M2; reflexivity].
Qed.

(* ---------------------------------------------------------------- consumed: a repeated copy goes to nobody *)
Lemma sub_multiset_nil_r xs : sub_multiset xs [] = true -> xs = [].
Proof. destruct xs; [reflexivity|cbn; discriminate]. Qed.

Lemma nosat_silent t s sp now d ch :
  Inv t (pit s) sp -> t <= now -> (forall p, In p sp -> sat_rec (tid s) d p = false) ->
  r_outs (step s (EData now d) ch) = [].
Proof.
  intros I Ht NS. destruct (data_delivery t s sp now d ch I Ht) as [A _].
  unfold c01_data_only_pending in A. apply andb_true_iff in A. destruct A as [_ A].
  assert (F : filter (sat_rec (tid s) d) sp = []).
  { clear -NS. induction sp as [|p l IH]; cbn; [reflexivity|]. rewrite (NS p (or_introl eq_refl)). apply IH.
    intros q Hq. apply NS. right; exact Hq. }
  rewrite F in A. destruct (data_effective (faces s) d); cbn in A; apply sub_multiset_nil_r in A;
    apply map_eq_nil in A; exact A.
Qed.

Definition not_interest (e : ev) : bool := match e with EInterest _ _ => false | _ => true end.

Lemma step_tid s e c : tid (r_st (step s e c)) = tid s.
Proof.
  destruct e; cbn; try reflexivity.
  - unfold step_interest.
    destruct (get_face (faces s) (i_face i)) as [inf|]; [|reflexivity].
    destruct (match i_hop i with Some 0 => true | _ => false end); [reflexivity|].
    destruct (negb (f_local inf) && code_localhost (i_name i)); [reflexivity|].
    destruct (i_nonce i) as [nonce|]; [|reflexivity].
    destruct (dnl_has (dnl s) (i_name i) nonce); [reflexivity|].
    destruct (insert_interest _ _ _ _ _ _) as [[[pre e0] post] tok_ok].
    destruct (is_dup (i_face i) nonce e0); [reflexivity|].
    destruct (insert_inrec now (i_face i) nonce (i_life i) (i_tok i) e0) as [[e1 pending] prev].
    destruct (cs_stage s now i inf pending c) as [[hit lru'] cs_ok].
    destruct hit; [reflexivity|].
    destruct (i_nhf i); [destruct (send_all _ _ _ _ _ _ _ _ _ _); reflexivity|].
    destruct (strategy_interest _ _ _ _ _ _ _ _ _ _ _ _) as [[e3 os] tie_ok]. reflexivity.
  - unfold step_data.
    assert (T : forall t, tid (r_st (step_data_thread s now d t)) = tid s).
    { intros t. unfold step_data_thread. destruct (get_face (faces s) (d_face d)); [|reflexivity].
      destruct (negb (f_local f) && code_localhost (d_name d)); [reflexivity|].
      assert (C : tid (if cs_admit s then cs_insert s now (d_name d) (d_fresh d) else s) = tid s).
      { destruct (cs_admit s); [|reflexivity]. unfold cs_insert. destruct (cs_get (cs s) (d_name d)); [reflexivity|].
        destruct (cs_evict _ _ _ _); reflexivity. }
      cbv zeta. destruct (data_matches _ _ _); cbn; exact C. }
    destruct (data_token (d_tok d)) as [[th tk]|]; [|apply T].
    destruct (th =? tid s); [apply T|]. reflexivity.
  - unfold step_tick. destruct (pop_chosen _ _ _ _ _) as [pd ok]. reflexivity.
  - destruct n; reflexivity.
Qed.

Lemma nosat_preserved d tidv (h : history) : forall s sp t,
  forallb (fun ec => not_interest (fst ec)) h = true -> tid s = tidv ->
  (forall p, In p sp -> sat_rec tidv d p = false) ->
  let '(s2, sp2, _) := run s sp t h in tid s2 = tidv /\ (forall p, In p sp2 -> sat_rec tidv d p = false).
Proof.
  induction h as [|[e c] r IH]; intros s sp t NI Et NS; cbn; [auto|].
  cbn in NI. apply andb_true_iff in NI. destruct NI as [N1 N2].
  apply IH; [exact N2|rewrite step_tid; exact Et|].
  intros p Hp. apply NS. destruct e; cbn in *; try exact Hp; try discriminate.
  - unfold pend_data in Hp. destruct (data_effective (faces s) d0); [apply filter_In in Hp; apply Hp|exact Hp].
  - unfold pend_tick in Hp. apply filter_In in Hp. apply Hp.
Qed.

Theorem repeat_data_silent s0 (h h2 : history) now d ch now' d' ch' :
  pit s0 = [] -> mono 0 (h ++ (EData now d, ch) :: h2 ++ [(EData now' d', ch')]) ->
  forallb (fun ec => not_interest (fst ec)) h2 = true ->
  d_name d' = d_name d -> d_tok d' = d_tok d ->
  (let '(s, _, _) := run s0 [] 0 h in data_effective (faces s) d = true) ->
  let '(s2, _, _) := run s0 [] 0 (h ++ (EData now d, ch) :: h2) in
  r_outs (step s2 (EData now' d') ch') = [].
Proof.
  intros P0 M NI En Et EF.
  assert (I0 : Inv 0 (pit s0) []) by (rewrite P0; apply Inv_init).
  replace (h ++ (EData now d, ch) :: h2 ++ [(EData now' d', ch')]) with ((h ++ (EData now d, ch) :: h2) ++ [(EData now' d', ch')]) in M
    by (rewrite <- app_assoc; reflexivity).
  pose proof (mono_app _ s0 [] 0 _ M) as MA.
  pose proof (run_inv (h ++ (EData now d, ch) :: h2) s0 [] 0 I0) as RI.
  rewrite run_app in *. destruct (run s0 [] 0 h) as [[s sp] t]. cbn [run] in *.
  assert (NS1 : forall p, In p (spec_step s sp (EData now d) (step s (EData now d) ch)) -> sat_rec (tid s) d p = false).
  { intros p Hp. cbn in Hp. unfold pend_data in Hp. rewrite EF in Hp. apply filter_In in Hp. destruct Hp as [_ Hp].
    destruct (sat_rec (tid s) d p); [discriminate|reflexivity]. }
  pose proof (nosat_preserved d (tid s) h2 (r_st (step s (EData now d) ch)) _ (new_time t (EData now d)) NI (step_tid _ _ _) NS1) as NP.
  destruct (run (r_st (step s (EData now d) ch)) (spec_step s sp (EData now d) (step s (EData now d) ch)) (new_time t (EData now d)) h2)
    as [[s2 sp2] t2].
  destruct MA as [M1 M2]. specialize (RI M1). destruct NP as [T2 NS2].
  cbn in M2. destruct M2 as [M2 _].
  apply (nosat_silent t2 s2 sp2); [exact RI|apply M2; reflexivity|].
  intros p Hp. rewrite T2. specialize (NS2 p Hp). unfold sat_rec in *. rewrite En, Et. exact NS2.
Qed.

(* ---------------------------------------------------------------- a reply from the cache goes to the requester alone *)
Lemma send_all_kind fs tidv now inface nonce life n hop nhs : forall e o,
  In o (snd (send_all fs tidv now inface nonce life n hop nhs e)) -> o_kind o = KInterest.
Proof.
  induction nhs as [|h r IH]; intros e o; cbn; [intros []|].
  destruct (can_send fs inface hop n (fst h)).
  - destruct (send_all fs tidv now inface nonce life n hop r (insert_outrec now (fst h) nonce life n e)) as [e2 os] eqn:S.
    cbn. intros [<-|Hin]; [reflexivity|]. apply (IH (insert_outrec now (fst h) nonce life n e)). rewrite S. exact Hin.
  - apply IH.
Qed.

Lemma strategy_interest_kind strategy fs tidv now inface nonce life n hop allowed tie e o :
  In o (snd (fst (strategy_interest strategy fs tidv now inface nonce life n hop allowed tie e))) -> o_kind o = KInterest.
Proof.
  unfold strategy_interest.
  destruct allowed as [|a0 ar]; [intros []|].
  destruct (suppressed strategy now nonce e); [intros []|].
  destruct (strategy =? 1).
  - destruct (send_all fs tidv now inface nonce life n hop (a0 :: ar) e) as [e' os] eqn:S; cbn.
    intros Hin. apply (send_all_kind fs tidv now inface nonce life n hop (a0 :: ar) e). rewrite S. exact Hin.
  - destruct (filter (fun h => can_send fs inface hop n (fst h)) (a0 :: ar)) as [|u ur]; [intros []|].
    set (best := filter _ (u :: ur)).
    match goal with |- context [match ?p with Some _ => _ | None => _ end] => destruct p as [h|] end.
    + destruct (send_all fs tidv now inface nonce life n hop [h] e) as [e' os] eqn:S; cbn.
      intros Hin. apply (send_all_kind fs tidv now inface nonce life n hop [h] e). rewrite S. exact Hin.
    + match goal with |- context [send_all _ _ _ _ _ _ _ _ [?h] e] => set (hh := h) end.
      destruct (send_all fs tidv now inface nonce life n hop [hh] e) as [e' os] eqn:S; cbn.
      intros Hin. apply (send_all_kind fs tidv now inface nonce life n hop [hh] e). rewrite S. exact Hin.
Qed.

Lemma no_data_reply_ok i os : (forall o, In o os -> o_kind o = KInterest) -> c01_cs_reply_ok i os = true.
Proof.
  intros H. unfold c01_cs_reply_ok.
  assert (F : filter (fun o => match o_kind o with KData => true | _ => false end) os = []).
  { induction os as [|o l IH]; cbn; [reflexivity|]. rewrite (H o (or_introl eq_refl)). apply IH. intros x Hx. apply H. right; exact Hx. }
  rewrite F. reflexivity.
Qed.

Lemma is_prefix_refl n : is_prefix n n = true.
Proof. induction n as [|a n IH]; cbn; [reflexivity|]. rewrite IH, andb_true_r. apply comp_eqb_spec. reflexivity. Qed.

Lemma cs_get_name c n e : cs_get c n = Some e -> cs_name e = n.
Proof.
  induction c as [|x r IH]; cbn; [discriminate|].
  destruct (name_eqb (cs_name x) n) eqn:E; [intros H; inversion H; subst; apply name_eqb_spec, E|exact IH].
Qed.

Lemma cs_find_prefix s now n cbp mbf blocked pick c l ok :
  cs_find s now n cbp mbf blocked pick = (Some c, l, ok) -> is_prefix n (cs_name c) = true.
Proof.
  unfold cs_find. destruct cbp.
  - set (cands := cs_prefix_candidates (cs s) now mbf n).
    assert (CP : forall x, In x cands -> is_prefix n (cs_name x) = true).
    { intros x Hx. unfold cands, cs_prefix_candidates in Hx. apply filter_In in Hx. destruct Hx as [_ Hx].
      apply andb_true_iff in Hx. apply Hx. }
    destruct cands as [|c0 cr] eqn:EC; [destruct pick; discriminate|].
    destruct pick as [p|].
    + destruct (filter (fun e => name_eqb (cs_name e) p && negb (blocked (cs_name e))) (c0 :: cr)) as [|e er] eqn:F.
      * intros H; inversion H; subst. apply CP. left; reflexivity.
      * intros H; inversion H; subst. apply CP. eapply proj1. apply filter_In. rewrite F. left; reflexivity.
    + destruct (filter (fun e => blocked (cs_name e)) (c0 :: cr)) as [|e er] eqn:F.
      * intros H; inversion H; subst. apply CP. left; reflexivity.
      * intros H; inversion H; subst. apply CP. eapply proj1. apply filter_In. rewrite F. left; reflexivity.
  - destruct (cs_get (cs s) n) as [e|] eqn:G; [|discriminate].
    destruct (cs_usable now mbf e); [|discriminate]. intros H; inversion H; subst.
    rewrite (cs_get_name _ _ _ G). apply is_prefix_refl.
Qed.

Lemma get_in_app_new l f r : get_in l f = None -> ir_face r = f -> get_in (l ++ [r]) f = Some r.
Proof.
  induction l as [|x t IH]; cbn; intros G E; [rewrite E, N.eqb_refl; reflexivity|].
  destruct (ir_face x =? f); [discriminate|]. apply IH; assumption.
Qed.

Theorem cs_hit_single_face s now i ch : c01_cs_reply_ok i (r_outs (step s (EInterest now i) ch)) = true.
Proof.
  cbn [step]. unfold step_interest.
  destruct (get_face (faces s) (i_face i)) as [inf|]; [|reflexivity].
  destruct (match i_hop i with Some 0 => true | _ => false end); [reflexivity|].
  destruct (negb (f_local inf) && code_localhost (i_name i)); [reflexivity|].
  destruct (i_nonce i) as [nonce|]; [|reflexivity].
  destruct (dnl_has (dnl s) (i_name i) nonce); [reflexivity|].
  destruct (insert_interest _ _ _ _ _ _) as [[[pre e0] post] tok_ok].
  destruct (is_dup (i_face i) nonce e0); [reflexivity|].
  destruct (insert_inrec now (i_face i) nonce (i_life i) (i_tok i) e0) as [[e1 pending] prev] eqn:IR.
  destruct (cs_stage s now i inf pending ch) as [[hit lru'] cs_ok] eqn:CS.
  destruct hit as [c|].
  - cbn [r_outs res].
    unfold cs_stage in CS. destruct pending; [cbn in CS; inversion CS|]. cbn [negb andb] in CS.
    destruct (cs_serve s); [|inversion CS].
    pose proof (cs_find_prefix _ _ _ _ _ _ _ _ _ _ CS) as PF.
    unfold insert_inrec in IR. destruct (get_in (pe_ins e0) (i_face i)) as [r|] eqn:G; [inversion IR|].
    inversion IR; subst e1; clear IR. cbn [pe_ins set_ins].
    match goal with |- context [get_in (_ ++ [?rn]) _] => rewrite (get_in_app_new _ _ rn G (eq_refl : ir_face rn = i_face i)) end.
    cbn [ir_tok].
    rewrite send_data_sendable. destruct (sendable (faces s) (cs_name c) (i_face i)); [|reflexivity].
    unfold c01_cs_reply_ok. cbn. rewrite N.eqb_refl, PF. cbn. rewrite andb_true_r. apply bytes_eqb_spec. reflexivity.
  - destruct (i_nhf i) as [nh|].
    + destruct (send_all _ _ _ _ _ _ _ _ _ _) as [e3 os] eqn:S. cbn [r_outs res].
      apply no_data_reply_ok. intros o Ho.
      match type of S with send_all ?a ?b ?c ?d ?e ?f ?g ?h ?i ?j = _ => apply (send_all_kind a b c d e f g h i j) end.
      rewrite S. exact Ho.
    + destruct (strategy_interest _ _ _ _ _ _ _ _ _ _ _ _) as [[e3 os] tie_ok] eqn:S. cbn [r_outs res].
      apply no_data_reply_ok. intros o Ho.
      match type of S with strategy_interest ?a ?b ?c ?d ?e ?f ?g ?h ?i ?j ?k ?l = _ =>
        apply (strategy_interest_kind a b c d e f g h i j k l) end.
      rewrite S. exact Ho.
Qed.
