(* Fw/C09.v — proofs for property C09 (/localhost traffic never crosses a non-local face). *)
From Coq Require Import List NArith Arith Bool Lia.
From Base Require Import Bytes.
From Fw Require Import Model Spec Run.
Import ListNotations.
Open Scope N_scope.

Lemma spec_code_localhost n : spec_localhost n = true -> code_localhost n = true.
Proof.
  intros H; exact H.
Qed.

Lemma c09_out_ok_intro fs f k n hop tok g :
  get_face fs f = Some g -> (f_local g = false -> code_localhost n = false) ->
  c09_out_ok fs {| o_face := f; o_kind := k; o_name := n; o_hop := hop; o_tok := tok |} = true.
Proof.
  intros Hg H; unfold c09_out_ok; cbn; rewrite Hg.
  destruct (f_local g) eqn:L; cbn; [reflexivity|].
  destruct (spec_localhost n) eqn:S; [|reflexivity].
  apply spec_code_localhost in S; rewrite H in S by reflexivity; discriminate.
Qed.

Lemma send_data_ok fs n f tok o : In o (send_data fs n f tok) -> c09_out_ok fs o = true.
Proof.
  unfold send_data; destruct (get_face fs f) as [g|] eqn:Hg; [|intros []].
  destruct (negb (f_local g) && code_localhost n) eqn:B; [intros []|].
  intros [<-|[]]; apply (c09_out_ok_intro _ _ _ _ _ _ g Hg).
  intros L; rewrite L in B; cbn in B; exact B.
Qed.

Lemma can_send_ok fs inface hop n nh tok :
  can_send fs inface hop n nh = true -> c09_out_ok fs (mk_interest_out nh n hop tok) = true.
Proof.
  unfold can_send, mk_interest_out; destruct (get_face fs nh) as [g|] eqn:Hg; [|discriminate].
  intros H; apply andb_true_iff in H; destruct H as [_ H].
  apply (c09_out_ok_intro _ _ _ _ _ _ g Hg); intros L; rewrite L in H; cbn in H.
  destruct (code_localhost n); [discriminate|reflexivity].
Qed.

Lemma send_all_ok fs tidv now inface nonce life n hop nhs : forall e o,
  In o (snd (send_all fs tidv now inface nonce life n hop nhs e)) -> c09_out_ok fs o = true.
Proof.
  induction nhs as [|h r IH]; intros e o; cbn; [intros []|].
  destruct (can_send fs inface hop n (fst h)) eqn:C.
  - destruct (send_all fs tidv now inface nonce life n hop r (insert_outrec now (fst h) nonce life n e)) as [e2 os] eqn:S.
    cbn; intros [<-|Hin]; [eapply can_send_ok; eassumption|].
    apply (IH (insert_outrec now (fst h) nonce life n e)); rewrite S; exact Hin.
  - apply IH.
Qed.

Lemma strategy_interest_ok strategy fs tidv now inface nonce life n hop allowed tie e o :
  In o (snd (fst (strategy_interest strategy fs tidv now inface nonce life n hop allowed tie e))) ->
  c09_out_ok fs o = true.
Proof.
  unfold strategy_interest.
  destruct allowed as [|a0 ar]; [intros []|].
  destruct (suppressed strategy now nonce e); [intros []|].
  destruct (strategy =? 1).
  - destruct (send_all fs tidv now inface nonce life n hop (a0 :: ar) e) as [e' os] eqn:S; cbn.
    intros Hin; apply (send_all_ok fs tidv now inface nonce life n hop (a0 :: ar) e); rewrite S; exact Hin.
  - destruct (filter (fun h => can_send fs inface hop n (fst h)) (a0 :: ar)) as [|u ur]; [intros []|].
    set (best := filter _ (u :: ur)).
    match goal with |- context [match ?p with Some _ => _ | None => _ end] => destruct p as [h|] end.
    + destruct (send_all fs tidv now inface nonce life n hop [h] e) as [e' os] eqn:S; cbn.
      intros Hin; apply (send_all_ok fs tidv now inface nonce life n hop [h] e); rewrite S; exact Hin.
    + match goal with |- context [send_all _ _ _ _ _ _ _ _ [?h] e] => set (hh := h) end.
      destruct (send_all fs tidv now inface nonce life n hop [hh] e) as [e' os] eqn:S; cbn.
      intros Hin; apply (send_all_ok fs tidv now inface nonce life n hop [hh] e); rewrite S; exact Hin.
Qed.

Lemma step_interest_ok s now i ch o : In o (r_outs (step_interest s now i ch)) -> c09_out_ok (faces s) o = true.
Proof.
  unfold step_interest.
  destruct (get_face (faces s) (i_face i)) as [inf|]; [|intros []].
  destruct (match i_hop i with Some 0 => true | _ => false end); [intros []|].
  destruct (negb (f_local inf) && code_localhost (i_name i)); [intros []|].
  destruct (i_nonce i) as [nonce|]; [|intros []].
  destruct (dnl_has (dnl s) (i_name i) nonce); [intros []|].
  destruct (insert_interest _ _ _ _ _ _) as [[[pre e0] post] tok_ok].
  destruct (is_dup (i_face i) nonce e0); [intros []|].
  destruct (insert_inrec now (i_face i) nonce (i_life i) (i_tok i) e0) as [[e1 pending] prev].
  destruct (cs_stage s now i inf pending ch) as [[hit lru'] cs_ok].
  destruct hit as [c|].
  - cbn; apply send_data_ok.
  - destruct (i_nhf i) as [nh|].
    + destruct (send_all _ _ _ _ _ _ _ _ _ _) as [e3 os] eqn:S.
      cbn; intros Hin.
      match type of S with send_all ?a ?b ?c ?d ?e ?f ?g ?h ?i ?j = _ =>
        apply (send_all_ok a b c d e f g h i j) end.
      rewrite S; exact Hin.
    + destruct (strategy_interest _ _ _ _ _ _ _ _ _ _ _ _) as [[e3 os] tie_ok] eqn:S.
      cbn; intros Hin.
      match type of S with strategy_interest ?a ?b ?c ?d ?e ?f ?g ?h ?i ?j ?k ?l = _ =>
        apply (strategy_interest_ok a b c d e f g h i j k l) end.
      rewrite S; exact Hin.
Qed.

Lemma cs_insert_faces s now n fr : faces (cs_insert s now n fr) = faces s.
Proof.
  unfold cs_insert. destruct (cs_get (cs s) n); [reflexivity|].
  destruct (cs_evict _ _ _ _); reflexivity.
Qed.

Lemma step_data_thread_ok s now d t o : In o (r_outs (step_data_thread s now d t)) -> c09_out_ok (faces s) o = true.
Proof.
  unfold step_data_thread.
  destruct (get_face (faces s) (d_face d)) as [inf|]; [|intros []].
  destruct (negb (f_local inf) && code_localhost (d_name d)); [intros []|].
  set (s1 := if cs_admit s then cs_insert s now (d_name d) (d_fresh d) else s).
  assert (F : faces s1 = faces s) by (unfold s1; destruct (cs_admit s); [apply cs_insert_faces|reflexivity]).
  destruct (data_matches (pit s1) (d_name d) t) as [|m0 rest]; [intros []|].
  cbn [r_outs res]. rewrite F.
  intros Hin. apply in_flat_map in Hin; destruct Hin as [e [_ Hin]].
  apply in_flat_map in Hin; destruct Hin as [r [_ Hin]].
  destruct (negb _ && (ir_face r =? d_face d)); [destruct Hin|].
  eapply send_data_ok; exact Hin.
Qed.

Lemma step_outs_ok s e ch o : In o (r_outs (step s e ch)) -> c09_out_ok (faces s) o = true.
Proof.
  destruct e; cbn [step]; try (intros []).
  - apply step_interest_ok.
  - unfold step_data. destruct (data_token (d_tok d)) as [[th tk]|].
    + destruct (th =? tid s); [apply step_data_thread_ok|]. intros [].
    + apply step_data_thread_ok.
  - unfold step_tick. destruct (pop_chosen _ _ _ _ _) as [pd ok]; intros [].
  - destruct n; intros [].
Qed.

(* every send of every history respects the scope *)
Lemma c09_scope_all s0 (h : history) : forall pre e r o,
  In (pre, e, r) (trace s0 h) -> In o (r_outs r) -> c09_out_ok (faces pre) o = true.
Proof.
  revert s0; induction h as [|[e c] t IH]; intros s0 pre e' r o; cbn; [intros []|].
  intros [E|Hin] Ho.
  - inversion E; subst. eapply step_outs_ok; exact Ho.
  - eapply IH; eassumption.
Qed.

Lemma c09_scope_stmt s0 (h : history) pre e r o g :
  In (pre, e, r) (trace s0 h) -> In o (r_outs r) ->
  get_face (faces pre) (o_face o) = Some g -> f_local g = false -> spec_localhost (o_name o) = false.
Proof.
  intros Hin Ho Hg L. pose proof (c09_scope_all s0 h pre e r o Hin Ho) as H.
  unfold c09_out_ok in H; rewrite Hg, L in H; cbn in H.
  destruct (spec_localhost (o_name o)); [discriminate|reflexivity].
Qed.

(* inbound: a /localhost packet arriving on a non-local face changes nothing and causes no send *)
Lemma c09_inbound_interest s now i ch g :
  get_face (faces s) (i_face i) = Some g -> f_local g = false -> spec_localhost (i_name i) = true ->
  r_st (step s (EInterest now i) ch) = s /\ r_outs (step s (EInterest now i) ch) = [].
Proof.
  intros Hg L S; cbn [step]; unfold step_interest; rewrite Hg.
  destruct (match i_hop i with Some 0 => true | _ => false end); [split; reflexivity|].
  rewrite L, (spec_code_localhost _ S); cbn; split; reflexivity.
Qed.

Lemma c09_inbound_data s now d ch g :
  get_face (faces s) (d_face d) = Some g -> f_local g = false -> spec_localhost (d_name d) = true ->
  r_st (step s (EData now d) ch) = s /\ r_outs (step s (EData now d) ch) = [].
Proof.
  intros Hg L S; cbn [step]; unfold step_data.
  assert (T : forall t, r_st (step_data_thread s now d t) = s /\ r_outs (step_data_thread s now d t) = []).
  { intros t; unfold step_data_thread; rewrite Hg, L, (spec_code_localhost _ S); cbn; split; reflexivity. }
  destruct (data_token (d_tok d)) as [[th tk]|].
  - destruct (th =? tid s); [apply T|]. split; reflexivity.
  - apply T.
Qed.

(* local faces are unaffected by the scope rules *)
Lemma c09_local_interest_not_scope_dropped s now i ch g :
  get_face (faces s) (i_face i) = Some g -> f_local g = true -> r_disp (step s (EInterest now i) ch) <> DropScope.
Proof.
  intros Hg L; cbn [step]; unfold step_interest; rewrite Hg, L; cbn [negb andb].
  destruct (match i_hop i with Some 0 => true | _ => false end); [discriminate|].
  destruct (i_nonce i) as [nonce|]; [|discriminate].
  destruct (dnl_has (dnl s) (i_name i) nonce); [discriminate|].
  destruct (insert_interest _ _ _ _ _ _) as [[[pre e0] post] tok_ok].
  destruct (is_dup (i_face i) nonce e0); [discriminate|].
  destruct (insert_inrec now (i_face i) nonce (i_life i) (i_tok i) e0) as [[e1 pending] prev].
  destruct (cs_stage s now i g pending ch) as [[hit lru'] cs_ok].
  destruct hit; [discriminate|].
  destruct (i_nhf i); [destruct (send_all _ _ _ _ _ _ _ _ _ _); discriminate|].
  destruct (strategy_interest _ _ _ _ _ _ _ _ _ _ _ _) as [[e3 os] tie_ok].
  discriminate.
Qed.

Lemma c09_local_can_send fs inface hop n nh g :
  get_face fs nh = Some g -> f_local g = true -> can_send fs inface hop n nh = can_send fs inface hop [] nh.
Proof. intros Hg L; unfold can_send; rewrite Hg, L; cbn. rewrite !andb_true_r. reflexivity. Qed.

Lemma c09_local_send_data fs n f tok g :
  get_face fs f = Some g -> f_local g = true ->
  send_data fs n f tok = [{| o_face := f; o_kind := KData; o_name := n; o_hop := None; o_tok := tok |}].
Proof. intros Hg L; unfold send_data; rewrite Hg, L; reflexivity. Qed.

(* the face table is well formed: a face id denotes one face (dispatch.FaceDispatch is a map keyed by the id; ids are handed
   out by the face table, whose uniqueness under concurrent registration is property C16's obligation) *)
Lemma del_face_nodup fs id : NoDup (map f_id fs) -> NoDup (map f_id (del_face fs id)).
Proof.
  unfold del_face. induction fs as [|f r IH]; cbn; intros ND; [constructor|].
  inversion ND as [|? ? Hn ND']; subst. destruct (negb (f_id f =? id)); cbn; [constructor|]; auto.
  intros Hin. apply Hn. apply in_map_iff in Hin. destruct Hin as (x & E & Hx). apply filter_In in Hx.
  apply in_map_iff. exists x. split; [exact E|apply Hx].
Qed.

Lemma add_face_nodup fs f : NoDup (map f_id fs) -> NoDup (map f_id (add_face fs f)).
Proof.
  intros ND. unfold add_face. cbn. constructor; [|apply del_face_nodup, ND].
  intros Hin. apply in_map_iff in Hin. destruct Hin as (x & E & Hx). unfold del_face in Hx. apply filter_In in Hx.
  destruct Hx as [_ Hx]. rewrite E, N.eqb_refl in Hx. discriminate.
Qed.

Lemma step_faces s e ch :
  faces (r_st (step s e ch)) = match e with EFaceAdd f => add_face (faces s) f | EFaceDel id => del_face (faces s) id | _ => faces s end.
Proof.
  destruct e; cbn; try reflexivity.
  - unfold step_interest.
    destruct (get_face (faces s) (i_face i)) as [inf|]; [|reflexivity].
    destruct (match i_hop i with Some 0 => true | _ => false end); [reflexivity|].
    destruct (negb (f_local inf) && code_localhost (i_name i)); [reflexivity|].
    destruct (i_nonce i) as [nonce|]; [|reflexivity].
    destruct (dnl_has (dnl s) (i_name i) nonce); [reflexivity|].
    destruct (insert_interest _ _ _ _ _ _) as [[[pre e0] post] tok_ok].
    destruct (is_dup (i_face i) nonce e0); [reflexivity|].
    destruct (insert_inrec now (i_face i) nonce (i_life i) (i_tok i) e0) as [[e1 pending] prev].
    destruct (cs_stage s now i inf pending ch) as [[hit lru'] cs_ok].
    destruct hit; [reflexivity|].
    destruct (i_nhf i); [destruct (send_all _ _ _ _ _ _ _ _ _ _); reflexivity|].
    destruct (strategy_interest _ _ _ _ _ _ _ _ _ _ _ _) as [[e3 os] tie_ok]. reflexivity.
  - unfold step_data.
    assert (T : forall t, faces (r_st (step_data_thread s now d t)) = faces s).
    { intros t. unfold step_data_thread. destruct (get_face (faces s) (d_face d)); [|reflexivity].
      destruct (negb (f_local f) && code_localhost (d_name d)); [reflexivity|].
      assert (C : faces (if cs_admit s then cs_insert s now (d_name d) (d_fresh d) else s) = faces s)
        by (destruct (cs_admit s); [apply cs_insert_faces|reflexivity]).
      cbv zeta. destruct (data_matches _ _ _); cbn; exact C. }
    destruct (data_token (d_tok d)) as [[th tk]|]; [|apply T].
    destruct (th =? tid s); [apply T|reflexivity].
  - unfold step_tick. destruct (pop_chosen _ _ _ _ _) as [pd ok]. reflexivity.
  - destruct n; reflexivity.
Qed.

Lemma face_table_wf s0 (h : history) : NoDup (map f_id (faces s0)) ->
  forall pre e r, In (pre, e, r) (trace s0 h) -> NoDup (map f_id (faces pre)).
Proof.
  revert s0. induction h as [|[e c] t IH]; intros s0 W pre e' r; cbn; [intros []|].
  intros [E|Hin]; [inversion E; subst; exact W|].
  eapply IH; [|exact Hin]. rewrite step_faces. destruct e; try exact W; [apply add_face_nodup, W|apply del_face_nodup, W].
Qed.

(* a packet whose arrival face is not (or no longer) in the face table — e.g. removed between queueing and processing — is
   dropped: state unchanged, nothing sent *)
Lemma unknown_face_dropped s now ch :
  (forall i, get_face (faces s) (i_face i) = None ->
     r_st (step s (EInterest now i) ch) = s /\ r_outs (step s (EInterest now i) ch) = []) /\
  (forall d, get_face (faces s) (d_face d) = None ->
     r_st (step s (EData now d) ch) = s /\ r_outs (step s (EData now d) ch) = []).
Proof.
  split.
  - intros i Hg. cbn [step]. unfold step_interest. rewrite Hg. split; reflexivity.
  - intros d Hg. cbn [step]. unfold step_data.
    assert (T : forall t, r_st (step_data_thread s now d t) = s /\ r_outs (step_data_thread s now d t) = [])
      by (intros t; unfold step_data_thread; rewrite Hg; split; reflexivity).
    destruct (data_token (d_tok d)) as [[th tk]|]; [|apply T].
    destruct (th =? tid s); [apply T|split; reflexivity].
Qed.
